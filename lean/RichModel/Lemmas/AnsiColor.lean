import RichModel.Lemmas.AnsiState
/-!
The colour parameters of the round trip (property C19): `get_ansi_codes` of a colour, read back by
the decoder's table (30-37, 90-97, 40-47, 100-107, 39, 49) and its 38 / 48 sub-parsers.
-/
namespace RichModel
namespace Ansi
open AsciiStr Style

/-- Colours as `Color.parse`, `Color.from_ansi`, `Color.from_rgb` build them: the type says which of
number / triplet is there, and in which range. -/
def canon (c : Color) : Bool :=
  match c.type with
  | .default => c.number.isNone && c.triplet.isNone
  | .standard => (match c.number with | some n => decide (n < 16) | none => false) && c.triplet.isNone
  | .eightBit => (match c.number with | some n => decide (16 ≤ n ∧ n ≤ 255) | none => false) && c.triplet.isNone
  | .truecolor =>
    c.number.isNone &&
      (match c.triplet with | some t => decide (t.red ≤ 255 ∧ t.green ≤ 255 ∧ t.blue ≤ 255) | none => false)
  | .windows => false

/-- What is compared of a colour: everything but the name. -/
def colorKey (c : Color) : ColorType × Option Nat × Option Triplet := (c.type, c.number, c.triplet)

/-- The colour object the decoder builds for the parameters of `c`. -/
def decColor (c : Color) : Color :=
  match c.type with
  | .default => defaultColor
  | .truecolor =>
    match c.triplet with
    | some t => fromRgb t.red t.green t.blue
    | none => defaultColor
  | _ => fromAnsi (c.number.getD 0)

theorem colorKey_decColor {c : Color} (h : canon c = true) : colorKey (decColor c) = colorKey c := by
  obtain ⟨name, ty, num, trip⟩ := c
  cases ty <;> simp only [canon, decColor, colorKey, Bool.and_eq_true, Option.isNone_iff_eq_none] at h ⊢
  · obtain ⟨rfl, rfl⟩ := h; rfl
  · obtain ⟨h1, rfl⟩ := h
    cases num with
    | none => cases h1
    | some n => simp only [decide_eq_true_eq] at h1; simp [fromAnsi, numberType, h1]
  · obtain ⟨h1, rfl⟩ := h
    cases num with
    | none => cases h1
    | some n =>
      simp only [decide_eq_true_eq] at h1
      have : ¬ n < 16 := by omega
      simp [fromAnsi, numberType, this]
  · obtain ⟨rfl, h2⟩ := h
    cases trip with
    | none => cases h2
    | some t => simp [fromRgb]
  · cases h

theorem downgrade_truecolor (cfg : RichModel.Cfg) (P : Palettes) (c : Color) :
    downgrade cfg P c .truecolor = .ok c := by
  unfold downgrade
  by_cases h : c.type = .default ∨ c.type.toNat = ColorSystem.truecolor.toNat
  · simp [h]
  · simp [h]

/-- A colour-only style the decoder adds. -/
theorem add_color_addend (v : StyleVariant) {st b : Style} (hinv : Inv st) (hb : Addend b) (hset : b.setAttributes = 0) :
    Inv (add v st b) ∧ (∀ j, (add v st b).attr j = st.attr j) ∧
      (add v st b).color = b.color.or st.color ∧ (add v st b).bgcolor = b.bgcolor.or st.bgcolor ∧
      linkVal (add v st b).link = linkVal st.link ∧ (add v st b).isNull = false := by
  refine ⟨inv_add v hinv hb.inv, ?_, (color_add v hinv hb.inv).1, (color_add v hinv hb.inv).2,
    linkVal_add_addend v hinv hb, add_isNull_false v st b hb.notNull⟩
  intro j
  rw [attr_add v hinv hb.inv]
  simp [attr, hset]

theorem addend_of_fields {b : Style} {fg bg : Option Color} (hf : fieldsOf b = ⟨fg, bg, 0, 0, none, false⟩) :
    Addend b ∧ b.setAttributes = 0 ∧ b.color = fg ∧ b.bgcolor = bg := by
  simp only [fieldsOf, Fields.mk.injEq] at hf
  obtain ⟨hc, hg, ha, hs, hl, hn⟩ := hf
  refine ⟨⟨⟨?_, ?_, ?_⟩, hn, hl⟩, hs, hc, hg⟩
  · rw [ha, hs]; rfl
  · rw [hs]; decide
  · intro h; rw [hn] at h; cases h

theorem addend_fromColor (v : StyleVariant) (fg bg : Option Color) (h : fg.isSome || bg.isSome) :
    Addend (fromColor v fg bg) ∧ (fromColor v fg bg).setAttributes = 0 ∧
      (fromColor v fg bg).color = fg ∧ (fromColor v fg bg).bgcolor = bg := by
  refine ⟨⟨inv_fromColor v fg bg, ?_, rfl⟩, rfl, rfl, rfl⟩
  simp [fromColor, h]

/-- The rows of the decoder's table for the sixteen standard colours and `default`. -/
theorem colorRows (v : StyleVariant) (hv : v = StyleVariant.fixed := by rfl) :
    (∀ n, n < 8 →
      parsedFields v (30 + n) = some ⟨some (fromAnsi n), none, 0, 0, none, false⟩ ∧
      parsedFields v (90 + n) = some ⟨some (fromAnsi (n + 8)), none, 0, 0, none, false⟩ ∧
      parsedFields v (40 + n) = some ⟨none, some (fromAnsi n), 0, 0, none, false⟩ ∧
      parsedFields v (100 + n) = some ⟨none, some (fromAnsi (n + 8)), 0, 0, none, false⟩) ∧
    parsedFields v 39 = some ⟨some defaultColor, none, 0, 0, none, false⟩ ∧
    parsedFields v 49 = some ⟨none, some defaultColor, 0, 0, none, false⟩ ∧
    sgrLookup 38 = none ∧ sgrLookup 48 = none := by
  have ht := tablesOk_all v hv
  simp only [tablesOk, colorRowsOk, Bool.and_eq_true, List.all_eq_true, List.mem_range, beq_iff_eq] at ht
  obtain ⟨⟨⟨⟨⟨_, ⟨hrows, h39⟩, h49⟩, _⟩, h38⟩, h48⟩, _⟩ := ht
  exact ⟨fun n hn => by obtain ⟨⟨⟨a, b⟩, c⟩, d⟩ := hrows n hn; exact ⟨a, b, c, d⟩, h39, h49, h38, h48⟩

/-- `st'` is `st` with its foreground (`fg`) or background colour replaced by `c`. -/
def SetColor (fg : Bool) (c : Color) (st st' : Style) : Prop :=
  Inv st' ∧ (∀ j, st'.attr j = st.attr j) ∧ st'.color = (if fg then some c else st.color) ∧
    st'.bgcolor = (if fg then st.bgcolor else some c) ∧ linkVal st'.link = linkVal st.link ∧ st'.isNull = false

theorem setColor_of_addend (v : StyleVariant) (fg : Bool) (c : Color) {st b : Style} (hinv : Inv st) (hb : Addend b)
    (hset : b.setAttributes = 0) (hc : b.color = if fg then some c else none)
    (hg : b.bgcolor = if fg then none else some c) : SetColor fg c st (add v st b) := by
  obtain ⟨h1, h2, h3, h4, h5, h6⟩ := add_color_addend v hinv hb hset
  refine ⟨h1, h2, ?_, ?_, h5, h6⟩
  · rw [h3, hc]; cases fg <;> simp
  · rw [h4, hg]; cases fg <;> simp

/-- a code of the decoder's table that stands for a colour -/
theorem applyCodes_colorRow (cfg : Cfg) (fg : Bool) (c : Color) (k : Nat) (hk : k ≠ 0 ∧ k ≠ 24 ∧ k ≠ 25)
    (hpf : parsedFields cfg.sv k = some ⟨if fg then some c else none, if fg then none else some c, 0, 0, none, false⟩)
    (st : Style) (r : List Nat) (hinv : Inv st) :
    ∃ st', applyCodes cfg st (k :: r) 0 = applyCodes cfg st' r 0 ∧ SetColor fg c st st' := by
  obtain ⟨d, b, hd, hb, hfb⟩ := parsedFields_some hpf
  obtain ⟨hadd, hset, hc, hg⟩ := addend_of_fields hfb
  exact ⟨add cfg.sv st b, applyCodes_table cfg st k r hk hd hb, setColor_of_addend cfg.sv fg c hinv hadd hset hc hg⟩

/-- `38;5;n` / `48;5;n` -/
theorem applyCodes_ext5 (cfg : Cfg) (fg : Bool) (n : Nat) (st : Style) (r : List Nat) (hinv : Inv st) :
    ∃ st', applyCodes cfg st ((if fg then 38 else 48) :: 5 :: n :: r) 0 = applyCodes cfg st' r 0 ∧
      SetColor fg (fromAnsi n) st st' := by
  obtain ⟨_, _, _, h38, h48⟩ := colorRows cfg.sv
  cases fg
  · obtain ⟨hadd, hset, hc, hg⟩ := addend_fromColor cfg.sv none (some (fromAnsi n)) rfl
    refine ⟨add cfg.sv st (fromColor cfg.sv none (some (fromAnsi n))), ?_,
      setColor_of_addend cfg.sv false _ hinv hadd hset hc hg⟩
    have hv : sgrLookupV cfg 48 = none := by simp [sgrLookupV, h48]
    simp [applyCodes, hv, extColor]
  · obtain ⟨hadd, hset, hc, hg⟩ := addend_fromColor cfg.sv (some (fromAnsi n)) none rfl
    refine ⟨add cfg.sv st (fromColor cfg.sv (some (fromAnsi n)) none), ?_,
      setColor_of_addend cfg.sv true _ hinv hadd hset hc hg⟩
    have hv : sgrLookupV cfg 38 = none := by simp [sgrLookupV, h38]
    simp [applyCodes, hv, extColor]

/-- `38;2;r;g;b` / `48;2;r;g;b` -/
theorem applyCodes_ext2 (cfg : Cfg) (fg : Bool) (a b c : Nat) (st : Style) (r : List Nat) (hinv : Inv st) :
    ∃ st', applyCodes cfg st ((if fg then 38 else 48) :: 2 :: a :: b :: c :: r) 0 = applyCodes cfg st' r 0 ∧
      SetColor fg (fromRgb a b c) st st' := by
  obtain ⟨_, _, _, h38, h48⟩ := colorRows cfg.sv
  cases fg
  · obtain ⟨hadd, hset, hc, hg⟩ := addend_fromColor cfg.sv none (some (fromRgb a b c)) rfl
    refine ⟨add cfg.sv st (fromColor cfg.sv none (some (fromRgb a b c))), ?_,
      setColor_of_addend cfg.sv false _ hinv hadd hset hc hg⟩
    have hv : sgrLookupV cfg 48 = none := by simp [sgrLookupV, h48]
    simp [applyCodes, hv, extColor]
  · obtain ⟨hadd, hset, hc, hg⟩ := addend_fromColor cfg.sv (some (fromRgb a b c)) none rfl
    refine ⟨add cfg.sv st (fromColor cfg.sv (some (fromRgb a b c)) none), ?_,
      setColor_of_addend cfg.sv true _ hinv hadd hset hc hg⟩
    have hv : sgrLookupV cfg 38 = none := by simp [sgrLookupV, h38]
    simp [applyCodes, hv, extColor]

/-- The parameters `get_ansi_codes` writes for a colour, and what the decoder makes of them. -/
theorem colorCodes_spec (cfg : Cfg) (c : Color) (hc : canon c = true) (fg : Bool) :
    ∃ nums : List Nat, colorCodes c fg = .ok (nums.map natStr) ∧ (∀ n ∈ nums, n < 256) ∧ nums ≠ [] ∧
      ∀ (st : Style) (r : List Nat), Inv st →
        ∃ st', applyCodes cfg st (nums ++ r) 0 = applyCodes cfg st' r 0 ∧ SetColor fg (decColor c) st st' := by
  obtain ⟨hrows, h39, h49, _, _⟩ := colorRows cfg.sv
  obtain ⟨name, ty, num, trip⟩ := c
  have hdg := downgrade_truecolor RichModel.Cfg.repaired richPalettes
  cases ty <;> simp only [canon, Bool.and_eq_true, Option.isNone_iff_eq_none] at hc
  · -- default: 39 / 49
    obtain ⟨rfl, rfl⟩ := hc
    refine ⟨[if fg then 39 else 49], ?_, ?_, by simp, ?_⟩
    · simp [colorCodes, hdg, getAnsiCodes]
    · intro n hn; simp at hn; subst hn; cases fg <;> decide
    · intro st r hinv
      cases fg
      · exact applyCodes_colorRow cfg false defaultColor 49 (by decide) (by simpa using h49) st r hinv
      · exact applyCodes_colorRow cfg true defaultColor 39 (by decide) (by simpa using h39) st r hinv
  · -- standard: 30+n / 90+(n-8), 40+n / 100+(n-8)
    obtain ⟨h1, rfl⟩ := hc
    cases num with
    | none => cases h1
    | some n =>
      simp only [decide_eq_true_eq] at h1
      refine ⟨[(if n < 8 then (if fg then 30 else 40) else (if fg then 82 else 92)) + n], ?_, ?_, by simp, ?_⟩
      · simp only [colorCodes, hdg, getAnsiCodes, assertSome]
        by_cases h8 : n < 8 <;> cases fg <;> simp [h8, bind, Except.bind]
      · intro m hm; simp at hm; subst hm
        split <;> split <;> omega
      · intro st r hinv
        simp only [decColor, Option.getD_some, List.cons_append, List.nil_append]
        by_cases h8 : n < 8
        · obtain ⟨r30, _, r40, _⟩ := hrows n h8
          cases fg
          · simp only [h8, if_true, Bool.false_eq_true, if_false]
            exact applyCodes_colorRow cfg false (fromAnsi n) (40 + n) (by omega) (by simpa using r40) st r hinv
          · simp only [h8, if_true]
            exact applyCodes_colorRow cfg true (fromAnsi n) (30 + n) (by omega) (by simpa using r30) st r hinv
        · obtain ⟨_, r90, _, r100⟩ := hrows (n - 8) (by omega)
          have hn : n - 8 + 8 = n := by omega
          rw [hn] at r90 r100
          cases fg
          · simp only [h8, if_false, Bool.false_eq_true]
            have : 92 + n = 100 + (n - 8) := by omega
            rw [this]
            exact applyCodes_colorRow cfg false (fromAnsi n) (100 + (n - 8)) (by omega) (by simpa using r100) st r hinv
          · simp only [h8, if_false, if_true]
            have : 82 + n = 90 + (n - 8) := by omega
            rw [this]
            exact applyCodes_colorRow cfg true (fromAnsi n) (90 + (n - 8)) (by omega) (by simpa using r90) st r hinv
  · -- eight bit: 38;5;n / 48;5;n
    obtain ⟨h1, rfl⟩ := hc
    cases num with
    | none => cases h1
    | some n =>
      simp only [decide_eq_true_eq] at h1
      refine ⟨[if fg then 38 else 48, 5, n], ?_, ?_, by simp, ?_⟩
      · simp [colorCodes, hdg, getAnsiCodes, assertSome, bind, Except.bind]
      · intro m hm
        simp only [List.mem_cons, List.not_mem_nil, or_false] at hm
        rcases hm with rfl | rfl | rfl
        · cases fg <;> decide
        · decide
        · omega
      · intro st r hinv
        simpa [decColor] using applyCodes_ext5 cfg fg n st r hinv
  · -- truecolor: 38;2;r;g;b / 48;2;r;g;b
    obtain ⟨rfl, h2⟩ := hc
    cases trip with
    | none => cases h2
    | some t =>
      simp only [decide_eq_true_eq] at h2
      refine ⟨[if fg then 38 else 48, 2, t.red, t.green, t.blue], ?_, ?_, by simp, ?_⟩
      · simp [colorCodes, hdg, getAnsiCodes, assertSome, bind, Except.bind]
      · intro m hm
        simp only [List.mem_cons, List.not_mem_nil, or_false] at hm
        rcases hm with rfl | rfl | rfl | rfl | rfl
        · cases fg <;> decide
        · decide
        · omega
        · omega
        · omega
      · intro st r hinv
        simpa [decColor] using applyCodes_ext2 cfg fg t.red t.green t.blue st r hinv
  · cases hc

theorem plist_of_lt (l : List Nat) (h : ∀ n ∈ l, n < 256) : PList (l.map fun n => (natStr n, n)) := by
  intro p hp
  simp only [List.mem_map] at hp
  obtain ⟨n, hn, rfl⟩ := hp
  exact natStr_paramOk (h n hn)

end Ansi
end RichModel
