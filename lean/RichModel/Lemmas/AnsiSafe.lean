import RichModel.Lemmas.AnsiWire
/-!
Lemmas for property C03, deepening round 4: the hypothesis "no ESC in text" of the wire-format theorems, weakened.

An ESC inside text is harmless for the terminal model exactly when it cannot start one of the two sequences the model
reads: `SafeText` — every ESC of the text is followed, *inside the same text*, by a character other than `[` and `]`
(so the last character is not ESC: what follows the text on the wire is not under its control).  Under `SafeText` the
reading is still the token list.  Without it the embedded sequence is executed: `serialise_text_inner` says precisely
what the terminal then sees.  Core Lean only.
-/
namespace RichModel.AnsiTerm

/-- Every ESC is followed, inside the text, by something that is neither `[` nor `]`. -/
def SafeText : List Char → Prop
  | [] => True
  | c :: cs => (c = ESC → ∃ k r, cs = k :: r ∧ k ≠ '[' ∧ k ≠ ']') ∧ SafeText cs

theorem safeText_of_noEsc (s : List Char) (h : ESC ∉ s) : SafeText s := by
  induction s with
  | nil => trivial
  | cons c cs ih =>
    exact ⟨fun e => absurd (by simp [e]) h, ih (fun hm => h (by simp [hm]))⟩

instance : (s : List Char) → Decidable (SafeText s)
  | [] => isTrue trivial
  | c :: cs =>
    have := instDecidableSafeText cs
    match cs with
    | [] => if h : c = ESC then isFalse (fun hs => by obtain ⟨k, r, e, _⟩ := hs.1 h; cases e) else isTrue ⟨fun e => absurd e h, trivial⟩
    | k :: r =>
      if h : c = ESC then
        if hk : k ≠ '[' ∧ k ≠ ']' then
          (match this with
           | isTrue t => isTrue ⟨fun _ => ⟨k, r, rfl, hk.1, hk.2⟩, t⟩
           | isFalse f => isFalse (fun hs => f hs.2))
        else isFalse (fun hs => by obtain ⟨k', r', e, h1, h2⟩ := hs.1 h; cases e; exact hk ⟨h1, h2⟩)
      else
        (match this with
         | isTrue t => isTrue ⟨fun e => absurd e h, t⟩
         | isFalse f => isFalse (fun hs => f hs.2))

theorem scan_text_safe (s : List Char) (hs : SafeText s) (rest : List Char) :
    ∀ fuel, (s ++ rest).length ≤ fuel →
      scan fuel (s ++ rest) = (s.map fun c => Tok.text [c]) ++ scan (fuel - s.length) rest := by
  induction s with
  | nil => intro fuel _; simp
  | cons c cs ih =>
    intro fuel hf
    cases fuel with
    | zero => simp at hf
    | succ f =>
      have hf' : (cs ++ rest).length ≤ f := by simp at hf ⊢; omega
      have e : f + 1 - (c :: cs).length = f - cs.length := by simp
      have hstep : scan (f + 1) (c :: (cs ++ rest)) = Tok.text [c] :: scan f (cs ++ rest) := by
        by_cases hc : c = ESC
        · obtain ⟨k, r, hk, h1, h2⟩ := hs.1 hc
          subst hk
          simp [scan, hc, h1, h2]
        · simp [scan, hc]
      rw [e, List.cons_append, List.map_cons, List.cons_append, hstep, ih hs.2 f hf']

/-- Tokens whose serialisation a terminal reads back unambiguously — text may contain harmless ESCs. -/
def WFTokS : Tok → Prop
  | .text s => SafeText s
  | .sgr _ => True
  | .osc8 p u => WFOsc p u

theorem wfTokS_of_wfTok (t : Tok) (h : WFTok t) : WFTokS t := by
  cases t with
  | text s => exact safeText_of_noEsc s h
  | sgr ps => trivial
  | osc8 p u => exact h

theorem scan_serialise_safe (toks : List Tok) (h : ∀ t ∈ toks, WFTokS t) :
    ∀ fuel, (serialise toks).length ≤ fuel → scan fuel (serialise toks) = toks.flatMap explode := by
  induction toks with
  | nil =>
    intro fuel _
    cases fuel <;> simp [serialise, scan]
  | cons t ts ih =>
    intro fuel hf
    have iht := ih (fun x hx => h x (by simp [hx]))
    have ht := h t (by simp)
    rw [serialise_cons] at hf ⊢
    cases t with
    | text s =>
      simp only [serialiseTok] at hf ⊢
      rw [scan_text_safe s ht _ fuel hf, iht _ (by simp at hf; omega)]
      simp [explode]
    | sgr ps =>
      cases fuel with
      | zero => simp [serialiseTok] at hf
      | succ f =>
        rw [scan_sgr, iht f (by simp [serialiseTok] at hf; omega)]
        simp [explode]
    | osc8 p u =>
      cases fuel with
      | zero => simp [serialiseTok] at hf
      | succ f =>
        rw [scan_osc8 p u _ ht, iht f (by simp [serialiseTok] at hf; omega)]
        simp [explode]

theorem tokenize_serialise_safe (toks : List Tok) (h : ∀ t ∈ toks, WFTokS t) :
    tokenize (serialise toks) = normalise toks := by
  unfold tokenize
  rw [scan_serialise_safe toks h _ (Nat.le_refl _), normalise_explode]

theorem serialise_append (a b : List Tok) : serialise (a ++ b) = serialise a ++ serialise b := by
  simp [serialise]

/-- A text token that *is* the serialisation of tokens is, on the wire, those tokens. -/
theorem serialise_text_inner (pre inner post : List Tok) :
    serialise (pre ++ [.text (serialise inner)] ++ post) = serialise (pre ++ inner ++ post) := by
  simp [serialise, serialiseTok]

end RichModel.AnsiTerm
