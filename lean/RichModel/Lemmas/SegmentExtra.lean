import RichModel.Model.SegmentExtra
import RichModel.Lemmas.Cells
import RichModel.Lemmas.Segment
/-! Lemmas for `Model/SegmentExtra.lean`. -/
namespace RichModel

variable {σ : Type}

/-- An excess larger than everything that can be popped empties the list. -/
theorem popLoop_all : ∀ (l : List Nat) (e : Int), (l.sum : Int) < e →
    (popLoop l e).1 = [] ∧ (popLoop l e).2 = e - l.sum
  | [], e, _ => by simp [popLoop]
  | sz :: rest, e, h => by
      simp only [List.sum_cons] at h
      have hpos : e > 0 := by push_cast at h; omega
      unfold popLoop
      simp only [hpos, if_true]
      obtain ⟨h1, h2⟩ := popLoop_all rest (e - sz) (by push_cast at h ⊢; omega)
      refine ⟨h1, ?_⟩
      rw [h2]; simp only [List.sum_cons]; push_cast; omega

/-- For `total ≥ 0` the integer version is the natural-number model used everywhere else. -/
theorem setCellSizeI_nonneg (cw : Char → Nat) (s : List Char) (n : Nat) :
    setCellSizeI cw s (n : Int) = setCellSize cw s n := by
  unfold setCellSizeI setCellSize
  simp only
  by_cases heq : cellLen cw s = n
  · simp [heq]
  · have h1 : ((cellLen cw s : Int) == (n : Int)) = false := by
      have : (cellLen cw s : Int) ≠ (n : Int) := by omega
      simpa using this
    have h2 : (cellLen cw s == n) = false := by simpa using heq
    simp only [h1, h2, Bool.false_eq_true, if_false]
    by_cases hlt : cellLen cw s < n
    · have : (cellLen cw s : Int) < (n : Int) := by omega
      simp only [this, hlt, if_true]
      congr 2; omega
    · have : ¬ (cellLen cw s : Int) < (n : Int) := by omega
      simp only [this, hlt, if_false]

/-- A negative `total` yields the empty string, whatever the text. -/
theorem setCellSizeI_neg (cw : Char → Nat) (s : List Char) (t : Int) (ht : t < 0) :
    setCellSizeI cw s t = [] := by
  unfold setCellSizeI
  simp only
  have h1 : ((cellLen cw s : Int) == t) = false := by
    have : (cellLen cw s : Int) ≠ t := by omega
    simpa using this
  have h2 : ¬ (cellLen cw s : Int) < t := by omega
  simp only [h1, Bool.false_eq_true, if_false, h2]
  have hsum : (((s.map cw).reverse.sum : Nat) : Int) = cellLen cw s := by simp [cellLen, List.sum_reverse]
  obtain ⟨p1, p2⟩ := popLoop_all (s.map cw).reverse ((cellLen cw s : Int) - t) (by rw [hsum]; omega)
  generalize hp : popLoop (s.map cw).reverse ((cellLen cw s : Int) - t) = pr at p1 p2
  obtain ⟨rem, e⟩ := pr
  simp only at p1 p2 ⊢
  subst p1
  have : (e == -1) = false := by
    have : e ≠ -1 := by rw [p2, hsum]; omega
    simpa using this
  simp [this]

theorem makeControl_spec (cw : Char → Nat) (segs : List (Segment σ)) :
    (∀ s ∈ makeControl segs, s.control = true) ∧
    (makeControl segs).map (fun s => (s.text, s.style)) = segs.map (fun s => (s.text, s.style)) ∧
    lineLength cw (makeControl segs) = 0 := by
  refine ⟨?_, ?_, ?_⟩
  · intro s hs
    simp only [makeControl, List.mem_map] at hs
    obtain ⟨_, _, rfl⟩ := hs; rfl
  · simp [makeControl, List.map_map, Function.comp_def]
  · induction segs with
    | nil => rfl
    | cons a rest ih =>
      simp only [makeControl, List.map_cons] at ih ⊢
      rw [lineLength_cons, ih]; simp [Segment.cellLength]

end RichModel
