import RichModel.Model.ProgressFmt
/-!
Lemmas about `Model/ProgressFmt.lean`: the two unit-selection loops of rich/filesize.py and the
fields of `str(timedelta)`.  Core tactics only.
-/
namespace RichModel.ProgressFmt

/-- invariant of the `pick_unit_and_suffix` loop, for any size, base and number of suffixes left -/
theorem pickFrom_spec (size base : Int) : ∀ (rem i : Nat) (unit : Int), unit = base ^ i → (i = 0 ∨ unit ≤ size) →
    (pickFrom size base rem i unit).1 = base ^ (pickFrom size base rem i unit).2 ∧
    i ≤ (pickFrom size base rem i unit).2 ∧ (pickFrom size base rem i unit).2 ≤ i + rem ∧
    ((pickFrom size base rem i unit).2 = 0 ∨ (pickFrom size base rem i unit).1 ≤ size) ∧
    ((pickFrom size base rem i unit).2 = i + rem ∨ size < (pickFrom size base rem i unit).1 * base) := by
  intro rem
  induction rem with
  | zero =>
    intro i unit hu hlow
    simp only [pickFrom]
    exact ⟨hu, Nat.le_refl _, Nat.le_refl _, hlow, Or.inl rfl⟩
  | succ rem ih =>
    intro i unit hu hlow
    simp only [pickFrom]
    by_cases h : size < unit * base
    · rw [if_pos h]
      exact ⟨hu, Nat.le_refl _, by omega, hlow, Or.inr h⟩
    · rw [if_neg h]
      have hu' : unit * base = base ^ (i + 1) := by rw [hu, Int.pow_succ]
      have := ih (i + 1) (unit * base) hu' (Or.inr (by omega))
      refine ⟨this.1, by omega, by omega, this.2.2.2.1, ?_⟩
      rcases this.2.2.2.2 with h2 | h2
      · left; omega
      · right; exact h2

/-- invariant of the `enumerate(suffixes, 2)` loop of `_to_str` -/
theorem toStrFrom_spec (size base : Int) : ∀ (rem j : Nat) (unit : Int), unit = base ^ (j + 2) → base ^ (j + 1) ≤ size →
    (toStrFrom size base rem j unit).1 = base ^ ((toStrFrom size base rem j unit).2 + 2) ∧
    j ≤ (toStrFrom size base rem j unit).2 ∧ (toStrFrom size base rem j unit).2 ≤ j + rem ∧
    base ^ ((toStrFrom size base rem j unit).2 + 1) ≤ size ∧
    ((toStrFrom size base rem j unit).2 = j + rem ∨ size < (toStrFrom size base rem j unit).1) := by
  intro rem
  induction rem with
  | zero =>
    intro j unit hu hlow
    simp only [toStrFrom]
    exact ⟨hu, Nat.le_refl _, Nat.le_refl _, hlow, Or.inl rfl⟩
  | succ rem ih =>
    intro j unit hu hlow
    simp only [toStrFrom]
    by_cases h : size < unit
    · rw [if_pos h]
      exact ⟨hu, Nat.le_refl _, by omega, hlow, Or.inr h⟩
    · rw [if_neg h]
      have hu' : unit * base = base ^ (j + 1 + 2) := by
        have e : j + 1 + 2 = j + 2 + 1 := by omega
        rw [hu, e]; exact (Int.pow_succ base (j + 2)).symm
      have := ih (j + 1) (unit * base) hu' (by rw [← hu]; omega)
      refine ⟨this.1, by omega, by omega, this.2.2.2.1, ?_⟩
      rcases this.2.2.2.2 with h2 | h2
      · left; omega
      · right; exact h2

/-- powers of a base ≥ 1 are positive and monotone in the exponent -/
theorem pow_pos_of_one_le {base : Int} (hb : 1 ≤ base) (k : Nat) : 1 ≤ base ^ k := by
  induction k with
  | zero => simp
  | succ k ih =>
    rw [Int.pow_succ]
    calc (1 : Int) = 1 * 1 := by simp
      _ ≤ base ^ k * base := Int.mul_le_mul ih hb (by omega) (by omega)

theorem pow_mono_of_one_le {base : Int} (hb : 1 ≤ base) {a b : Nat} (h : a ≤ b) : base ^ a ≤ base ^ b := by
  induction b with
  | zero => have : a = 0 := by omega
            subst this; exact Int.le_refl _
  | succ b ih =>
    by_cases hab : a = b + 1
    · subst hab; exact Int.le_refl _
    · have h1 := ih (by omega)
      rw [Int.pow_succ]
      have hp := pow_pos_of_one_le hb b
      calc base ^ a ≤ base ^ b := h1
        _ = base ^ b * 1 := by simp
        _ ≤ base ^ b * base := Int.mul_le_mul_of_nonneg_left hb (by omega)

/-- the fields `str(timedelta(seconds=n))` prints: Python's floor `divmod`s -/
theorem tdFields_spec (n : Int) :
    (tdFields n).1 * 86400 + (tdFields n).2.1 * 3600 + (tdFields n).2.2.1 * 60 + (tdFields n).2.2.2 = n ∧
    0 ≤ (tdFields n).2.1 ∧ (tdFields n).2.1 < 24 ∧ 0 ≤ (tdFields n).2.2.1 ∧ (tdFields n).2.2.1 < 60 ∧
    0 ≤ (tdFields n).2.2.2 ∧ (tdFields n).2.2.2 < 60 := by
  simp only [tdFields]
  omega

/-! ### digits are not dashes -/

theorem digitChar_ne_dash (d : Nat) : digitChar d ≠ '-' ∧ digitChar d ≠ ':' := by
  have h : ∀ k, k < 10 → Char.ofNat (48 + k) ≠ '-' ∧ Char.ofNat (48 + k) ≠ ':' := by decide
  exact h (d % 10) (Nat.mod_lt _ (by omega))

theorem natDigitsAux_ne_nil : ∀ (fuel n : Nat) (acc : List Char), acc ≠ [] ∨ 0 < fuel → natDigitsAux fuel n acc ≠ [] := by
  intro fuel
  induction fuel with
  | zero => intro n acc h; simp only [natDigitsAux]; rcases h with h | h; exact h; omega
  | succ fuel ih =>
    intro n acc _
    simp only [natDigitsAux]
    split
    · simp
    · exact ih _ _ (Or.inl (by simp))

theorem natDigitsAux_head : ∀ (fuel n : Nat) (acc : List Char), 0 < fuel →
    ∃ d r, natDigitsAux fuel n acc = digitChar d :: r := by
  intro fuel
  induction fuel with
  | zero => intro n acc h; omega
  | succ fuel ih =>
    intro n acc _
    simp only [natDigitsAux]
    split
    · exact ⟨n, acc, rfl⟩
    · next hge =>
      by_cases hf : 0 < fuel
      · exact ih _ _ hf
      · have : fuel = 0 := by omega
        subst this
        exact ⟨n % 10, acc, by simp [natDigitsAux]⟩

/-- a number's decimal text starts with a digit -/
theorem natStr_head (n : Nat) : ∃ d r, natStr n = digitChar d :: r :=
  natDigitsAux_head (n + 1) n [] (by omega)

/-- a `timedelta` text starts with a digit, or with `-` and then a digit; `-:--:--` starts with `-:` -/
theorem tdStr_ne_dashes (n : Int) : tdStr n ≠ .ok dashes := by
  obtain ⟨d, rest, hd⟩ := natStr_head (tdFields n).2.1.toNat
  obtain ⟨d', rest', hd'⟩ := natStr_head (tdFields n).1.natAbs
  have hne := digitChar_ne_dash d
  have hne' := digitChar_ne_dash d'
  intro hc
  simp only [tdStr] at hc
  by_cases h1 : 999999999 < (tdFields n).1.natAbs
  · rw [if_pos h1] at hc; cases hc
  · rw [if_neg h1] at hc
    by_cases h2 : (tdFields n).1 = 0
    · rw [if_pos h2] at hc
      injection hc with hc
      rw [hd, dashes, List.cons_append] at hc
      injection hc with hc _
      exact hne.1 hc
    · rw [if_neg h2] at hc
      injection hc with hc
      by_cases h3 : (tdFields n).1 < 0
      · rw [if_pos h3, hd', dashes] at hc
        simp only [List.cons_append] at hc
        injection hc with _ hc
        injection hc with hc _
        exact hne'.2 hc
      · rw [if_neg h3, hd', dashes] at hc
        simp only [List.cons_append] at hc
        injection hc with hc _
        exact hne'.1 hc

end RichModel.ProgressFmt
