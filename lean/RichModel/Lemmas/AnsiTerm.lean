import RichModel.Model.AnsiTerm
/-!
Lemmas about the independent terminal interpreter (`Model/AnsiTerm.lean`), property C03.  Core Lean only.

* replaying a concatenation; unfolding of `sgrParams`;
* the 13 on/off aspects addressed by number (`aspect`, `setAspect`, `aspectCode`), so that facts about
  "the codes 1,2,…,53 each switch on exactly their own aspect" are stated once instead of 13 times.
-/
namespace RichModel.AnsiTerm

/-! ## replay -/

theorem interpFrom_append (st : TermState) (a b : List Tok) :
    interpFrom st (a ++ b) =
      ((interpFrom (interpFrom st a).1 b).1, (interpFrom st a).2 ++ (interpFrom (interpFrom st a).1 b).2) := by
  induction a generalizing st with
  | nil => simp [interpFrom]
  | cons t ts ih => simp [interpFrom, ih, List.append_assoc]

theorem interpFrom_nil (st : TermState) : interpFrom st [] = (st, []) := rfl

theorem interpFrom_cons (st : TermState) (t : Tok) (ts : List Tok) :
    interpFrom st (t :: ts) =
      ((interpFrom (stepTok st t).1 ts).1, (stepTok st t).2 ++ (interpFrom (stepTok st t).1 ts).2) := rfl

/-- Text tokens only: the state does not move and every character is printed with it. -/
theorem interpFrom_text (st : TermState) (s : List Char) :
    interpFrom st [.text s] = (st, s.map fun c => ⟨c, st.rend, st.link⟩) := by
  simp [interpFrom, stepTok]

/-! ## `sgrParams` -/

theorem sgrParams_nil (r : Rendition) : sgrParams r [] = r := rfl

theorem sgrParams_cons_plain (r : Rendition) (p : Nat) (rest : List Nat) (h : p ≠ 38) (h' : p ≠ 48) :
    sgrParams r (p :: rest) = sgrParams (sgr1 r p) rest := by
  conv => lhs; unfold sgrParams
  simp [h, h']

theorem sgrParams_fg5 (r : Rendition) (n : Nat) (rest : List Nat) :
    sgrParams r (38 :: 5 :: n :: rest) = sgrParams { r with fg := .indexed n } rest := by
  simp [sgrParams]

theorem sgrParams_fg2 (r : Rendition) (a b c : Nat) (rest : List Nat) :
    sgrParams r (38 :: 2 :: a :: b :: c :: rest) = sgrParams { r with fg := .rgb a b c } rest := by
  simp [sgrParams]

theorem sgrParams_bg5 (r : Rendition) (n : Nat) (rest : List Nat) :
    sgrParams r (48 :: 5 :: n :: rest) = sgrParams { r with bg := .indexed n } rest := by
  simp [sgrParams]

theorem sgrParams_bg2 (r : Rendition) (a b c : Nat) (rest : List Nat) :
    sgrParams r (48 :: 2 :: a :: b :: c :: rest) = sgrParams { r with bg := .rgb a b c } rest := by
  simp [sgrParams]

/-- A prefix without extended-colour introducers is folded one parameter at a time. -/
theorem sgrParams_append_plain (xs ys : List Nat) (h : ∀ p ∈ xs, p ≠ 38 ∧ p ≠ 48) (r : Rendition) :
    sgrParams r (xs ++ ys) = sgrParams (xs.foldl sgr1 r) ys := by
  induction xs generalizing r with
  | nil => rfl
  | cons p ps ih =>
    have hp := h p (by simp)
    rw [List.cons_append, sgrParams_cons_plain r p _ hp.1 hp.2, List.foldl_cons]
    exact ih (fun q hq => h q (by simp [hq])) _

/-- `CSI 0 m` from any rendition. -/
theorem applySgr_reset (r : Rendition) : applySgr r [0] = {} := by
  simp [applySgr, sgrParams_cons_plain, sgrParams_nil, sgr1]

/-! ## the 13 aspects by number -/

/-- Aspect `i` in Rich's bit order (which is the order of the parameters 1,…,9,21,51,52,53). -/
def Rendition.aspect (r : Rendition) : Nat → Bool
  | 0 => r.bold | 1 => r.dim | 2 => r.italic | 3 => r.underline | 4 => r.blink | 5 => r.blink2
  | 6 => r.reverse | 7 => r.conceal | 8 => r.strike | 9 => r.underline2 | 10 => r.frame
  | 11 => r.encircle | 12 => r.overline | _ => false

def Rendition.setAspect (r : Rendition) : Nat → Rendition
  | 0 => { r with bold := true } | 1 => { r with dim := true } | 2 => { r with italic := true }
  | 3 => { r with underline := true } | 4 => { r with blink := true } | 5 => { r with blink2 := true }
  | 6 => { r with reverse := true } | 7 => { r with conceal := true } | 8 => { r with strike := true }
  | 9 => { r with underline2 := true } | 10 => { r with frame := true } | 11 => { r with encircle := true }
  | 12 => { r with overline := true } | _ => r

/-- The SGR parameter that switches aspect `i` on (ECMA-48). -/
def aspectCode : Nat → Nat
  | 0 => 1 | 1 => 2 | 2 => 3 | 3 => 4 | 4 => 5 | 5 => 6 | 6 => 7 | 7 => 8 | 8 => 9
  | 9 => 21 | 10 => 51 | 11 => 52 | 12 => 53 | _ => 0

theorem lt13 {i : Nat} (h : i < 13) :
    i = 0 ∨ i = 1 ∨ i = 2 ∨ i = 3 ∨ i = 4 ∨ i = 5 ∨ i = 6 ∨ i = 7 ∨ i = 8 ∨ i = 9 ∨ i = 10 ∨ i = 11 ∨ i = 12 := by
  omega

theorem sgr1_aspectCode (r : Rendition) (i : Nat) (h : i < 13) : sgr1 r (aspectCode i) = r.setAspect i := by
  rcases lt13 h with rfl | rfl | rfl | rfl | rfl | rfl | rfl | rfl | rfl | rfl | rfl | rfl | rfl <;>
    simp [aspectCode, sgr1, Rendition.setAspect]

theorem aspectCode_plain (i : Nat) (h : i < 13) : aspectCode i ≠ 38 ∧ aspectCode i ≠ 48 := by
  rcases lt13 h with rfl | rfl | rfl | rfl | rfl | rfl | rfl | rfl | rfl | rfl | rfl | rfl | rfl <;>
    simp [aspectCode]

theorem aspect_setAspect (r : Rendition) (i j : Nat) (hi : i < 13) (hj : j < 13) :
    (r.setAspect i).aspect j = (r.aspect j || i == j) := by
  rcases lt13 hi with rfl | rfl | rfl | rfl | rfl | rfl | rfl | rfl | rfl | rfl | rfl | rfl | rfl <;>
    rcases lt13 hj with rfl | rfl | rfl | rfl | rfl | rfl | rfl | rfl | rfl | rfl | rfl | rfl | rfl <;>
    simp [Rendition.setAspect, Rendition.aspect]

theorem setAspect_fg (r : Rendition) (i : Nat) : (r.setAspect i).fg = r.fg := by
  unfold Rendition.setAspect; split <;> rfl

theorem setAspect_bg (r : Rendition) (i : Nat) : (r.setAspect i).bg = r.bg := by
  unfold Rendition.setAspect; split <;> rfl

/-- Two renditions with the same 13 aspects and the same colours are equal. -/
theorem Rendition.ext_aspect (r r' : Rendition) (h : ∀ j, j < 13 → r.aspect j = r'.aspect j)
    (hf : r.fg = r'.fg) (hb : r.bg = r'.bg) : r = r' := by
  have h0 := h 0 (by omega); have h1 := h 1 (by omega); have h2 := h 2 (by omega)
  have h3 := h 3 (by omega); have h4 := h 4 (by omega); have h5 := h 5 (by omega)
  have h6 := h 6 (by omega); have h7 := h 7 (by omega); have h8 := h 8 (by omega)
  have h9 := h 9 (by omega); have h10 := h 10 (by omega); have h11 := h 11 (by omega)
  have h12 := h 12 (by omega)
  cases r; cases r'
  simp only [Rendition.aspect] at h0 h1 h2 h3 h4 h5 h6 h7 h8 h9 h10 h11 h12
  simp only at hf hb
  simp [*]

/-- Switching on a list of aspects: aspect `j` is on afterwards iff it was on or is in the list; the
colours are untouched. -/
theorem foldl_setAspect (l : List Nat) (hl : ∀ i ∈ l, i < 13) (r : Rendition) :
    (∀ j, j < 13 → (l.foldl Rendition.setAspect r).aspect j = (r.aspect j || l.contains j)) ∧
    (l.foldl Rendition.setAspect r).fg = r.fg ∧ (l.foldl Rendition.setAspect r).bg = r.bg := by
  induction l generalizing r with
  | nil => simp
  | cons i is ih =>
    have hi := hl i (by simp)
    obtain ⟨ha, hf, hb⟩ := ih (fun k hk => hl k (by simp [hk])) (r.setAspect i)
    refine ⟨?_, ?_, ?_⟩
    · intro j hj
      rw [List.foldl_cons, ha j hj, aspect_setAspect r i j hi hj]
      simp only [List.contains_cons, Bool.or_assoc]
      congr 1
      cases h : (i == j) <;> cases h' : (j == i) <;> simp_all
    · rw [List.foldl_cons, hf, setAspect_fg]
    · rw [List.foldl_cons, hb, setAspect_bg]

/-- Folding the *parameters* of a list of aspects is switching those aspects on. -/
theorem foldl_sgr1_aspectCodes (l : List Nat) (hl : ∀ i ∈ l, i < 13) (r : Rendition) :
    (l.map aspectCode).foldl sgr1 r = l.foldl Rendition.setAspect r := by
  induction l generalizing r with
  | nil => rfl
  | cons i is ih =>
    rw [List.map_cons, List.foldl_cons, List.foldl_cons, sgr1_aspectCode r i (hl i (by simp))]
    exact ih (fun k hk => hl k (by simp [hk])) _

/-! ## colour parameters -/

theorem lt16 {n : Nat} (h : n < 16) :
    n = 0 ∨ n = 1 ∨ n = 2 ∨ n = 3 ∨ n = 4 ∨ n = 5 ∨ n = 6 ∨ n = 7 ∨ n = 8 ∨ n = 9 ∨ n = 10 ∨ n = 11 ∨
    n = 12 ∨ n = 13 ∨ n = 14 ∨ n = 15 := by omega

/-- 30-37 / 90-97 select entry `n` of the 16 ANSI colours as foreground. -/
theorem sgr1_fg16 (r : Rendition) (n : Nat) (h : n < 16) :
    sgr1 r (if n < 8 then 30 + n else 90 + (n - 8)) = { r with fg := .indexed n } := by
  rcases lt16 h with rfl | rfl | rfl | rfl | rfl | rfl | rfl | rfl | rfl | rfl | rfl | rfl | rfl | rfl | rfl | rfl <;>
    simp [sgr1]

/-- 40-47 / 100-107 select entry `n` as background. -/
theorem sgr1_bg16 (r : Rendition) (n : Nat) (h : n < 16) :
    sgr1 r (if n < 8 then 40 + n else 100 + (n - 8)) = { r with bg := .indexed n } := by
  rcases lt16 h with rfl | rfl | rfl | rfl | rfl | rfl | rfl | rfl | rfl | rfl | rfl | rfl | rfl | rfl | rfl | rfl <;>
    simp [sgr1]

theorem code16_plain (n : Nat) (h : n < 16) (base : Nat) (hb : base = 30 ∨ base = 40) :
    (if n < 8 then base + n else base + 60 + (n - 8)) ≠ 38 ∧ (if n < 8 then base + n else base + 60 + (n - 8)) ≠ 48 := by
  rcases hb with rfl | rfl <;> split <;> omega

theorem sgr1_39 (r : Rendition) : sgr1 r 39 = { r with fg := .default } := by simp [sgr1]
theorem sgr1_49 (r : Rendition) : sgr1 r 49 = { r with bg := .default } := by simp [sgr1]

end RichModel.AnsiTerm
