import RichModel.Lemmas.LiveStep
import RichModel.Lemmas.LiveStop
/-!
Induction over a whole well-formed history: the invariant carried operation by operation, the final
screen, and the cursor bound for every operation.
-/
namespace RichModel.Live
open RichModel RichModel.Screen

theorem run_cons_out (cfg : Cfg) (fails : Nat → Bool) (st : St) (op : Op) (rest : List Op) :
    (run cfg fails st (op :: rest)).2.1 =
      (step cfg fails st op).out ++ (run cfg fails (step cfg fails st op).st rest).2.1 := by
  simp only [run]

/-- While the output of every operation is replayed, the cursor stays at or below the first row under
the lines printed *before* that operation (so no printed line can be touched). -/
def AboveRegion (cfg : Cfg) : St → View → Screen → List Op → Prop
  | _, _, _, [] => True
  | st, v, s, op :: rest =>
    (∀ r ∈ rowTrace cfg.height s (step cfg noFault st op).out, v.printed.length ≤ r) ∧
    (op ≠ .stop → AboveRegion cfg (step cfg noFault st op).st (viewStep cfg st v op)
      (replay cfg.height s (step cfg noFault st op).out) rest)

theorem history_main {cfg : Cfg} (hc : cfg.plain = true) (hb : cfg.bareBypass = false) (hflush : cfg.flushFix = true) (hH : 1 ≤ cfg.height) (ops : List Op) :
    ∀ (st : St) (v : View) (s : Screen), Good cfg st v s → BufOk st → wfOps cfg st ops = true →
      (∃ k, (replay cfg.height s (run cfg noFault st ops).2.1).rows =
        ((specRun cfg st v ops).2.printed ++ (specRun cfg st v ops).2.frame).map (cells cfg.cw) ++ List.replicate k []) ∧
      AboveRegion cfg st v s ops ∧
      (∀ pre, ops = pre ++ [.stop] → ((run cfg noFault st pre).1.started = true) →
        (replay cfg.height s (run cfg noFault st ops).2.1).visible = true) := by
  induction ops with
  | nil =>
    intro st v s g _ _
    obtain ⟨k, hs, _⟩ := g.shown
    refine ⟨by simpa [run, specRun, replay_nil] using shown_rows hs, trivial, ?_⟩
    intro pre h; cases pre <;> simp at h
  | cons op rest ih =>
    intro st v s g hbuf hwf
    by_cases hop : op = .stop
    · subst hop
      simp only [wfOps, if_true, Bool.and_eq_true, List.isEmpty_iff] at hwf
      obtain ⟨⟨⟨hrest, _⟩, hff⟩, hfit⟩ := hwf
      subst hrest
      have hff' : st.started = true → flushFits cfg st = true := by
        intro h1; simpa [h1] using hff
      have hfit' : st.started = true → cfg.transient = true →
            restoreCount cfg.blankFix (stopFrame cfg st).length + 1 ≤ cfg.height := by
        intro h1 h2
        simp [h1, h2] at hfit
        exact hfit
      obtain ⟨s', hrun, hrows, hvis⟩ := good_stop hc hH hflush g hbuf hff' hfit'
      have eout : (run cfg noFault st [Op.stop]).2.1 = (doStop cfg noFault st).out := by
        rw [run_cons_out]; simp [run, step]
      refine ⟨?_, ⟨?_, fun h => absurd rfl h⟩, ?_⟩
      · rw [eout, hrun.1]
        simpa [specRun] using hrows
      · exact hrun.2
      · intro pre hpre hstarted
        have : pre = [] := by
          cases pre with
          | nil => rfl
          | cons a b => cases b <;> simp at hpre
        subst this
        rw [eout, hrun.1]
        exact hvis (by simpa [run] using hstarted)
    · simp only [wfOps, hop, if_false, Bool.and_eq_true] at hwf
      obtain ⟨⟨⟨happ, herr⟩, hfit⟩, hwfr⟩ := hwf
      have herr' : (step cfg noFault st op).err = none := by
        cases h : (step cfg noFault st op).err <;> simp [h] at herr ⊢
      have hfit' : redraws cfg st op = true → (shown cfg (step cfg noFault st op).st).length ≤ cfg.height := by
        intro h; simp [h] at hfit; exact hfit
      obtain ⟨s', hrun, hg⟩ := good_step hc hb hH g op hop happ herr' hfit'
      obtain ⟨hrows, habove, hvis⟩ := ih _ _ _ hg (bufOk_step cfg noFault st op hop herr' hbuf) hwfr
      refine ⟨?_, ⟨hrun.2, fun _ => by rw [hrun.1]; exact habove⟩, ?_⟩
      · rw [run_cons_out, replay_append, hrun.1]
        simpa [specRun, hop] using hrows
      · intro pre hpre hstarted
        cases pre with
        | nil => simp at hpre; exact absurd hpre.1 hop
        | cons a pre' =>
          simp only [List.cons_append, List.cons.injEq] at hpre
          obtain ⟨ha, hpre'⟩ := hpre
          subst ha
          rw [run_cons_out, replay_append, hrun.1]
          refine hvis pre' hpre' ?_
          have : (run cfg noFault st (op :: pre')).1 = (run cfg noFault (step cfg noFault st op).st pre').1 := by
            simp only [run]
          rw [← this]; exact hstarted

/-! ### any number of sessions -/

/-- As `AboveRegion`, for histories in which `stop` may occur anywhere: while the output of every
operation is replayed, the cursor stays at or below the first row under the finished output so far. -/
def AboveRegionM (cfg : Cfg) : St → View → Screen → List Op → Prop
  | _, _, _, [] => True
  | st, v, s, op :: rest =>
    (∀ r ∈ rowTrace cfg.height s (step cfg noFault st op).out, v.printed.length ≤ r) ∧
    AboveRegionM cfg (step cfg noFault st op).st (viewStepM cfg st v op)
      (replay cfg.height s (step cfg noFault st op).out) rest

/-- Invariant carried through a history with any number of sessions (repaired `stop`). -/
theorem history_multi {cfg : Cfg} (hc : cfg.plain = true) (hb : cfg.bareBypass = false) (hflush : cfg.flushFix = true) (hreset : cfg.resetShape = true)
    (hH : 1 ≤ cfg.height) (ops : List Op) :
    ∀ (st : St) (v : View) (s : Screen), Good cfg st v s → BufOk st → wfOpsM cfg st ops = true →
      Good cfg (specRunM cfg st v ops).1 (specRunM cfg st v ops).2
        (replay cfg.height s (run cfg noFault st ops).2.1) ∧
      (specRunM cfg st v ops).1 = (run cfg noFault st ops).1 ∧
      AboveRegionM cfg st v s ops := by
  induction ops with
  | nil => intro st v s g _ _; exact ⟨by simpa [run, specRunM, replay_nil] using g, rfl, trivial⟩
  | cons op rest ih =>
    intro st v s g hbuf hwf
    simp only [wfOpsM, Bool.and_eq_true] at hwf
    obtain ⟨hop, hwfr⟩ := hwf
    have hstep : ∃ s', Run cfg.height v.printed.length s (step cfg noFault st op).out s' ∧
        Good cfg (step cfg noFault st op).st (viewStepM cfg st v op) s' ∧ BufOk (step cfg noFault st op).st := by
      by_cases hstop : op = .stop
      · subst hstop
        simp only [if_true, Bool.and_eq_true, List.isEmpty_iff] at hop
        have hfit' : st.started = true → cfg.transient = true →
            restoreCount cfg.blankFix (stopFrame cfg st).length + 1 ≤ cfg.height := by
          intro h1 h2
          have := hop.2
          simp [h1, h2] at this
          exact this
        have hff' : st.started = true → flushFits cfg st = true := by
          intro h1; have := hop.1.2; simpa [h1] using this
        obtain ⟨s', hrun, hg, hbuf', _⟩ := good_stop_good hc hH hflush hreset g hbuf hff' hfit'
        refine ⟨s', hrun, ?_, hbuf'⟩
        simp only [viewStepM, if_true]
        exact hg
      · simp only [hstop, if_false, Bool.and_eq_true] at hop
        obtain ⟨⟨happ, herr⟩, hfit⟩ := hop
        have herr' : (step cfg noFault st op).err = none := by
          cases h : (step cfg noFault st op).err <;> simp [h] at herr ⊢
        have hfit' : redraws cfg st op = true → (shown cfg (step cfg noFault st op).st).length ≤ cfg.height := by
          intro h; simp [h] at hfit; exact hfit
        obtain ⟨s', hrun, hg⟩ := good_step hc hb hH g op hstop happ herr' hfit'
        exact ⟨s', hrun, by simpa [viewStepM, hstop] using hg, bufOk_step cfg noFault st op hstop herr' hbuf⟩
    obtain ⟨s', hrun, hg, hbuf'⟩ := hstep
    obtain ⟨hgood, hstate, habove⟩ := ih _ _ _ hg hbuf' hwfr
    refine ⟨?_, ?_, ⟨hrun.2, by rw [hrun.1]; exact habove⟩⟩
    · rw [run_cons_out, replay_append, hrun.1]
      simpa [specRunM] using hgood
    · simp only [specRunM, run]
      exact hstate

/-- The initial state of a fresh display on a fresh terminal satisfies the invariant. -/
theorem good_init (cfg : Cfg) (ov : Overflow) (r0 : Frame) (hH : 1 ≤ cfg.height) :
    Good cfg (initSt ov r0) {} Screen.init := by
  refine ⟨⟨0, ⟨by simp [Screen.init, region], by simp [Screen.init, region], by simp [Screen.init, region]⟩, by simp [region]; exact hH⟩, rfl, rfl, fun _ => ⟨rfl, rfl⟩⟩

theorem bufOk_init (ov : Overflow) (r0 : Frame) : BufOk (initSt ov r0) := by
  intro e _; cases e <;> rfl

end RichModel.Live
