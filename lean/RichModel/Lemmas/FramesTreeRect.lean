import RichModel.Lemmas.FramesTree
import RichModel.Lemmas.FramesRect
/-!
The rendered tree is a rectangle: every line the reference walk emits is a guide prefix of four
cells per level followed by the label's own line, `w` cells in all.
-/
namespace RichModel.Frames
open RichModel
variable {σ : Type}

/-- all guide strings `make_guide` can produce -/
def allGuideTexts : List (List Char) := asciiGuides ++ treeGuides.flatten

/-- the guide strings are four cells wide and contain no line feed (a fact about the width table) -/
def GuidesOk (cw : Char → Nat) : Prop := ∀ s ∈ allGuideTexts, cellLen cw s = 4 ∧ ∀ c ∈ s, c ≠ '\n'

theorem guideText_mem (env : Env) (g : Guide) (h : g.idx < 4) : guideText env g ∈ allGuideTexts := by
  obtain ⟨idx, st⟩ := g
  simp only at h
  have hi : idx = 0 ∨ idx = 1 ∨ idx = 2 ∨ idx = 3 := by omega
  unfold guideText allGuideTexts
  simp only
  by_cases ha : env.asciiOnly = true
  · simp only [ha, if_true]
    rcases hi with rfl | rfl | rfl | rfl <;> simp [asciiGuides, treeGuides]
  · simp only [ha, Bool.false_eq_true, if_false]
    by_cases hl : env.legacyWindows = true <;> by_cases hb : (st.bold == some true) = true <;>
      by_cases hu : (st.ul2 == some true) = true <;>
      rcases hi with rfl | rfl | rfl | rfl <;> simp [hl, hb, hu, asciiGuides, treeGuides]

/-- `out` is a sequence of newline-free lines of exactly `n` cells, each followed by `Segment.line()` -/
def LinesOut (cw : Char → Nat) (n : Nat) (out : List (Segment σ)) : Prop :=
  ∃ ls : List (List (Segment σ)), (∀ l ∈ ls, NlFree l ∧ lineLength cw l = n) ∧ out = ls.flatMap (fun l => l ++ [nl])

theorem LinesOut.nil (cw : Char → Nat) (n : Nat) : LinesOut cw n ([] : List (Segment σ)) :=
  ⟨[], by simp, by simp⟩

theorem LinesOut.append {cw : Char → Nat} {n : Nat} {a b : List (Segment σ)} (ha : LinesOut cw n a) (hb : LinesOut cw n b) :
    LinesOut cw n (a ++ b) := by
  obtain ⟨la, h1, rfl⟩ := ha
  obtain ⟨lb, h2, rfl⟩ := hb
  refine ⟨la ++ lb, ?_, by simp⟩
  intro l hl
  rcases List.mem_append.mp hl with h | h
  · exact h1 l h
  · exact h2 l h

theorem LinesOut.lines {cw : Char → Nat} {n : Nat} {out : List (Segment σ)} (h : LinesOut cw n out) :
    ∀ l ∈ splitLines out, lineLength cw l = n := by
  obtain ⟨ls, h1, rfl⟩ := h
  rw [splitLines_lines ls (fun l hl => (h1 l hl).1)]
  intro l hl
  exact (h1 l hl).2

theorem linesAt_of_lt_one (cw : Char → Nat) (c : Child σ) (w : Int) (pad : Bool) (h : w < 1) : c.linesAt cw w pad = [] := by
  simp [Child.linesAt, Child.renderAt, h, renderLines, splitAndCropLines]

theorem guides_cells (cw : Char → Nat) (hg : GuidesOk cw) (env : Env) (gs : List Guide) (h : ∀ g ∈ gs, g.idx < 4) :
    lineLength cw (gs.map (guideSeg (σ := σ) env)) = 4 * gs.length ∧ NlFree (gs.map (guideSeg (σ := σ) env)) ∧
    (gs.map (fun g => cellLen cw (guideText env g))).sum = 4 * gs.length := by
  induction gs with
  | nil => exact ⟨rfl, NlFree.nil, rfl⟩
  | cons g gs ih =>
    have hg' := hg _ (guideText_mem env g (h g (by simp)))
    obtain ⟨i1, i2, i3⟩ := ih (fun x hx => h x (by simp [hx]))
    refine ⟨?_, ?_, ?_⟩
    · simp only [List.map_cons, lineLength_cons, List.length_cons, i1]
      simp only [guideSeg, seg, Segment.cellLength, Bool.false_eq_true, if_false, hg'.1]
      omega
    · simp only [List.map_cons]
      refine NlFree.cons ?_ i2
      simp only [guideSeg, seg, Bool.not_false, Bool.and_true]
      exact (contains_nl_false_iff _).mpr hg'.2
    · simp only [List.map_cons, List.sum_cons, List.length_cons, i3, hg'.1]
      omega

/-- the lines of one node: `n = (cells of the label's lines) + 4 * depth` -/
theorem emitNode_linesOut (cw : Char → Nat) (hg : GuidesOk cw) (env : Env) (pfx : List Guide) (cont : Guide)
    (lines : List (List (Segment σ))) (n : Nat) (hp : ∀ g ∈ pfx, g.idx < 4) (hc : cont.idx < 4)
    (hl : ∀ l ∈ lines, NlFree l ∧ lineLength cw l + 4 * pfx.length = n) :
    LinesOut cw n (emitNode env pfx cont lines) := by
  unfold emitNode
  cases lines with
  | nil => exact LinesOut.nil cw n
  | cons l ls =>
    simp only
    have g1 := guides_cells (σ := σ) cw hg env pfx hp
    have hp2 : ∀ g ∈ pfx.dropLast ++ [cont], g.idx < 4 := by
      intro g hgm
      rcases List.mem_append.mp hgm with h | h
      · exact hp g (List.dropLast_subset pfx h)
      · simp only [List.mem_singleton] at h; rw [h]; exact hc
    have g2 := guides_cells (σ := σ) cw hg env (pfx.dropLast ++ [cont]) hp2
    refine ⟨(pfx.map (guideSeg env) ++ l) :: ls.map (fun l =>
        (if pfx.isEmpty then [] else (pfx.dropLast ++ [cont]).map (guideSeg env)) ++ l), ?_, ?_⟩
    · intro x hx
      rcases List.mem_cons.mp hx with rfl | hx
      · have := hl l (by simp)
        exact ⟨g1.2.1.append this.1, by rw [lineLength_append, g1.1]; omega⟩
      · simp only [List.mem_map] at hx
        obtain ⟨l0, hl0, rfl⟩ := hx
        have := hl l0 (by simp [hl0])
        split
        · rename_i he
          have : pfx = [] := List.isEmpty_iff.mp he
          subst this
          simpa using this
        · rename_i he
          have hne : pfx ≠ [] := by intro h; exact he (by simp [h])
          have hlen : (pfx.dropLast ++ [cont]).length = pfx.length := by
            simp only [List.length_append, List.length_dropLast, List.length_singleton]
            have : 0 < pfx.length := List.length_pos_iff.mpr hne
            omega
          refine ⟨g2.2.1.append this.1, ?_⟩
          rw [lineLength_append, g2.1, hlen]; omega
    · simp [List.flatMap_cons, List.flatMap_map, Function.comp_def]

theorem hereOf_linesOut (cw : Char → Nat) (hsp : cw ' ' = 1) (h2 : ∀ c, cw c ≤ 2) (hg : GuidesOk cw) (env : Env) (w : Int)
    (pfx : List Guide) (cont : Guide) (l : Child σ) (hp : ∀ g ∈ pfx, g.idx < 4) (hc : cont.idx < 4) :
    LinesOut cw w.toNat (hereOf cw env w pfx cont l) := by
  unfold hereOf
  have g1 := guides_cells (σ := σ) cw hg env pfx hp
  rw [g1.2.2]
  by_cases hlt : w - ((4 * pfx.length : Nat) : Int) < 1
  · rw [linesAt_of_lt_one cw l _ true hlt]
    simp only [emitNode]
    exact LinesOut.nil cw _
  · apply emitNode_linesOut cw hg env pfx cont _ _ hp hc
    intro x hx
    refine ⟨linesAt_nlFree cw hsp h2 l _ true x hx, ?_⟩
    rw [renderLines_exact cw hsp h2 _ _ x hx]
    omega

mutual
theorem specNode_linesOut (cw : Char → Nat) (hsp : cw ' ' = 1) (h2 : ∀ c, cw c ≤ 2) (hg : GuidesOk cw) (env : Env) (w : Int) :
    ∀ (t : TreeN σ) (anc : List Guide) (own : Option GStyle) (last : Bool) (cur : GStyle), (∀ g ∈ anc, g.idx < 4) →
      LinesOut cw w.toNat (specNode cw env w anc own last cur t)
  | .node l ngs e cs, anc, own, last, cur, hanc => by
    have hk1 : (if last = true then 3 else 2) < 4 := by split <;> omega
    have hk0 : (if last = true then 0 else 1) < 4 := by split <;> omega
    cases own with
    | none =>
      rw [specNode_none]
      apply LinesOut.append
      · exact hereOf_linesOut cw hsp h2 hg env w [] _ l (by simp) hk0
      · cases e with
        | false => exact LinesOut.nil cw _
        | true => exact specNodes_linesOut cw hsp h2 hg env w cs [] _ _ (by simp)
    | some st =>
      rw [specNode_some]
      apply LinesOut.append
      · apply hereOf_linesOut cw hsp h2 hg env w _ _ l _ hk0
        intro g hgm
        rcases List.mem_append.mp hgm with h | h
        · exact hanc g h
        · simp only [List.mem_singleton] at h; rw [h]; exact hk1
      · cases e with
        | false => exact LinesOut.nil cw _
        | true =>
          apply specNodes_linesOut cw hsp h2 hg env w cs
          intro g hgm
          rcases List.mem_append.mp hgm with h | h
          · exact hanc g h
          · simp only [List.mem_singleton] at h; rw [h]; exact hk0
theorem specNodes_linesOut (cw : Char → Nat) (hsp : cw ' ' = 1) (h2 : ∀ c, cw c ≤ 2) (hg : GuidesOk cw) (env : Env) (w : Int) :
    ∀ (ts : List (TreeN σ)) (anc : List Guide) (st cur : GStyle), (∀ g ∈ anc, g.idx < 4) →
      LinesOut cw w.toNat (specNodes cw env w anc st cur ts)
  | [], _, _, _, _ => by rw [specNodes]; exact LinesOut.nil cw _
  | t :: ts, anc, st, cur, hanc => by
    rw [specNodes]
    exact (specNode_linesOut cw hsp h2 hg env w t anc (some st) _ cur hanc).append
      (specNodes_linesOut cw hsp h2 hg env w ts anc st cur hanc)
end

/-- every line of a rendered tree is exactly `w` cells wide -/
theorem treeConsole_rect (cw : Char → Nat) (hsp : cw ' ' = 1) (h2 : ∀ c, cw c ≤ 2) (hg : GuidesOk cw) (env : Env)
    (root : TreeN σ) (w : Int) : ∀ l ∈ splitLines (treeConsole cw env root w), lineLength cw l = w.toNat := by
  rw [treeConsole_eq_spec]
  exact (specNode_linesOut cw hsp h2 hg env w root [] none true root.gs (by simp)).lines

end RichModel.Frames
