import RichModel.Model.StyleCtor
import RichModel.Lemmas.StyleSpellNum
import RichModel.Lemmas.StyleSpellRgb
/-!
The public colour constructors (`Color.from_ansi`, `from_triplet`, `from_rgb`, `default`) build
well-formed colours: the name each stores is a definition of that very colour — same name, same
`ColorType`, same number, same triplet as what `Color.parse` makes of the name.  Hence every
construction route through them agrees with the text routes on `==` and on the stored hash key.
-/
namespace RichModel
open AsciiStr
namespace Style
variable {T : StrTables} [hT : T.Lawful]

omit hT in
theorem fromAnsi_eq_numbered (n : Nat) : Color.fromAnsi n = numberedColor n := rfl

omit hT in
theorem mkDefault_eq : Color.mkDefault = defaultColor := rfl

theorem fromAnsi_wf (v : StyleVariant) {n : Nat} (hn : n < 256) : wfColorT T v (Color.fromAnsi n) = true := by
  rw [fromAnsi_eq_numbered]; exact numbered_color_wf v hn

theorem mkDefault_wf (v : StyleVariant) : wfColorT T v Color.mkDefault = true := by
  rw [mkDefault_eq]; exact default_color_wf v

/-- The sixteen digits `Nat.digitChar` produces are `[0-9a-f]` and `hexVal` reads them back. -/
theorem digitChar_tbl : ∀ d, d < 16 → isHexLower (Nat.digitChar d) = true ∧ hexVal (Nat.digitChar d) = d := by
  decide

omit hT in
theorem hexByte_lt {c : Nat} (h : c < 256) : Color.hexByte c = [Nat.digitChar (c / 16), Nat.digitChar (c % 16)] := by
  simp [Color.hexByte, h]

omit hT in
/-- `Color.from_triplet` of components below 256 is the colour `#rrggbb` denotes. -/
theorem fromTriplet_eq_hex {r g b : Nat} (hr : r < 256) (hg : g < 256) (hb : b < 256) :
    Color.fromTriplet ⟨r, g, b⟩ =
      hexColor (Nat.digitChar (r / 16)) (Nat.digitChar (r % 16)) (Nat.digitChar (g / 16)) (Nat.digitChar (g % 16))
        (Nat.digitChar (b / 16)) (Nat.digitChar (b % 16)) := by
  have e : ∀ c, c < 256 → 16 * hexVal (Nat.digitChar (c / 16)) + hexVal (Nat.digitChar (c % 16)) = c := by
    intro c hc
    rw [(digitChar_tbl (c / 16) (by omega)).2, (digitChar_tbl (c % 16) (by omega)).2]
    omega
  simp only [Color.fromTriplet, Color.tripletHex, hexByte_lt hr, hexByte_lt hg, hexByte_lt hb, hexColor,
    e r hr, e g hg, e b hb]
  rfl

theorem fromTriplet_wf (v : StyleVariant) {r g b : Nat} (hr : r < 256) (hg : g < 256) (hb : b < 256) :
    wfColorT T v (Color.fromTriplet ⟨r, g, b⟩) = true := by
  rw [fromTriplet_eq_hex hr hg hb]
  apply hex_color_wf
  simp only [List.all_cons, List.all_nil, Bool.and_true, Bool.and_eq_true]
  refine ⟨?_, ?_, ?_, ?_, ?_, ?_⟩ <;> exact (digitChar_tbl _ (by omega)).1

/-- The colours the public constructors make from in-range arguments. -/
inductive MadeColor : Color → Prop
  | ansi {n : Nat} : n < 256 → MadeColor (Color.fromAnsi n)
  | triplet {r g b : Nat} : r < 256 → g < 256 → b < 256 → MadeColor (Color.fromTriplet ⟨r, g, b⟩)
  | rgb {r4 g4 b4 : Nat} : r4 < 1024 → g4 < 1024 → b4 < 1024 → MadeColor (Color.fromRgbQuarters r4 g4 b4)
  | default : MadeColor Color.mkDefault
  | named {p : List Char × Nat} : p ∈ Gen.ansiColorNames → MadeColor (namedColor p)

theorem MadeColor.wf (v : StyleVariant) {c : Color} (h : MadeColor c) : wfColorT T v c = true := by
  cases h with
  | ansi hn => exact fromAnsi_wf v hn
  | triplet hr hg hb => exact fromTriplet_wf v hr hg hb
  | rgb hr hg hb => exact fromTriplet_wf v (by omega) (by omega) (by omega)
  | default => exact mkDefault_wf v
  | named hp => exact named_color_wf v hp

/-! ### every route from a well-formed colour to a one-colour style gives the same style -/

omit hT in
theorem kwSet_nil : kwSet [] = 0 := by decide

omit hT in
/-- `Style(color=c)` / `Style(bgcolor=c)` with `c` a `Color`. -/
theorem init_color (T : StrTables) (v : StyleVariant) (c : Color) :
    initT T v (some (.color c)) none [] none = .ok (onlyColor c true) ∧
    initT T v none (some (.color c)) [] none = .ok (onlyColor c false) := by
  constructor <;> simp [initT, makeColorT, Except.map, kwSet_nil, onlyColor, storedLink, linkVal, strTruthy]

/-- `Style(color=c.name)` / `Style(bgcolor=c.name)` for a well-formed colour. -/
theorem init_color_name {v : StyleVariant} {c : Color} (h : wfColorT T v c = true) :
    initT T v (some (.str c.name)) none [] none = .ok (onlyColor c true) ∧
    initT T v none (some (.str c.name)) [] none = .ok (onlyColor c false) := by
  obtain ⟨_, _, _, cp⟩ := wfColor_facts h
  constructor <;> simp [initT, makeColorT, cp, Except.map, kwSet_nil, onlyColor, storedLink, linkVal, strTruthy]

omit hT in
/-- `Style.from_color(c)` / `Style.from_color(None, c)` with the hash repair. -/
theorem fromColor_only (v : StyleVariant) (hv : v.fromColorHash = false) (c : Color) :
    fromColor v (some c) none = onlyColor c true ∧ fromColor v none (some c) = onlyColor c false := by
  constructor <;> simp [fromColor, hv, onlyColor]

omit hT in
/-- `background_style` of any style with background `c` is `Style(bgcolor=c)`. -/
theorem backgroundStyle_some (T : StrTables) (v : StyleVariant) {s : Style} {c : Color} (h : s.bgcolor = some c) :
    backgroundStyleT T v s = .ok (onlyColor c false) := by
  unfold backgroundStyleT
  rw [h]
  exact (init_color T v c).2

omit hT in
theorem backgroundStyle_none (T : StrTables) (v : StyleVariant) {s : Style} (h : s.bgcolor = none) :
    ∃ t, backgroundStyleT T v s = .ok t ∧ eq t Style.null = true ∧ t.isNull = true ∧ t.hashKey = Style.null.hashKey := by
  unfold backgroundStyleT
  rw [h]
  refine ⟨_, rfl, ?_, ?_, ?_⟩ <;> simp [eq, Style.null, kwSet_nil, storedLink, linkVal, strTruthy, hashKey]

omit hT in
theorem backgroundStyle_reachable (T : StrTables) (v : StyleVariant) (s t : Style) (h : backgroundStyleT T v s = .ok t) :
    Reachable v t := Reachable.init h

omit hT in
theorem pickFirst_mem {l : List (Option Style)} {s : Style} (h : pickFirst l = .ok s) : some s ∈ l := by
  induction l with
  | nil => cases h
  | cons x xs ih =>
    cases x with
    | none => exact List.mem_cons_of_mem _ (ih h)
    | some y =>
      simp only [pickFirst, Except.ok.injEq] at h
      subst h
      exact List.mem_cons_self

omit hT in
/-- `pick_first` returns the first non-`None` value, and raises exactly when there is none. -/
theorem pickFirst_spec (l : List (Option Style)) :
    pickFirst l = match l.find? Option.isSome with
      | some (some s) => .ok s
      | _ => .error .valueError := by
  induction l with
  | nil => rfl
  | cons x xs ih =>
    cases x with
    | none => simpa [pickFirst] using ih
    | some y => simp [pickFirst]

end Style
end RichModel
