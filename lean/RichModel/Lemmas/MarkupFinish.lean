import RichModel.Lemmas.MarkupRefine
namespace RichModel.Markup

def closeAll (t : Nat) (abs : List AEnt) : List AEnt := abs.map (fun a => (a.1, some (a.2.getD t)))

def drainF (t : Nat) (s : St) (e : Ent) : St :=
  { s with
    closed := s.closed ++ [{ start := e.start, stop := t, style := e.tag.str }],
    slots := s.slots.set e.idx (some { start := e.start, stop := t, style := e.tag.str }) }

theorem drain_eq (st : St) : drain st = st.stack.foldl (drainF st.text.length) { st with stack := [] } := rfl

theorem stackOf_nil {abs : List AEnt} (h : stackOf abs = []) : closeAll t abs = abs := by
  unfold closeAll
  have hf : abs.filter isOpen = [] := by simpa [stackOf] using h
  rw [List.filter_eq_nil_iff] at hf
  conv => rhs; rw [← List.map_id abs]
  apply List.map_congr_left
  intro a ha
  have := hf a ha
  obtain ⟨e, s⟩ := a
  cases s with
  | none => simp [isOpen] at this
  | some s => rfl

theorem closeAll_set (t : Nat) (abs : List AEnt) (e : Ent) (h : abs[e.idx]? = some (e, none)) :
    closeAll t (abs.set e.idx (e, some t)) = closeAll t abs := by
  unfold closeAll
  rw [List.map_set]
  apply List.ext_getElem?
  intro i
  rw [List.getElem?_set]
  by_cases hi : e.idx = i
  · subst hi
    simp only [if_true, List.length_map]
    obtain ⟨hlt, hget⟩ := List.getElem?_eq_some_iff.mp h
    simp [hlt, hget]
  · simp [hi]

theorem foldl_drain (t : Nat) (stk : List Ent) : ∀ (abs : List AEnt) (s0 : St), stk = stackOf abs → IdxOk abs →
    s0.slots = slotsOf abs →
    (stk.foldl (drainF t) s0).slots = slotsOf (closeAll t abs) ∧ (stk.foldl (drainF t) s0).text = s0.text := by
  induction stk with
  | nil =>
    intro abs s0 h _ hs
    simp only [List.foldl_nil]
    rw [stackOf_nil h.symm]; exact ⟨hs, trivial⟩
  | cons e rest ih =>
    intro abs s0 h hok hs
    obtain ⟨hget, hstk⟩ := stackOf_remove' t abs [] rest e hok (by simpa using h.symm)
    simp only [List.foldl_cons]
    have := ih (abs.set e.idx (e, some t)) (drainF t s0 e) (by simpa using hstk.symm) (IdxOk_set hok _)
      (by simp [drainF, hs, slotsOf_set, toSlot])
    rw [closeAll_set t abs e hget] at this
    exact ⟨this.1, by rw [this.2]; rfl⟩

def spanOf (t : Nat) (a : AEnt) : Span := { start := a.1.start, stop := a.2.getD t, style := a.1.tag.str }

theorem slots_closeAll (t : Nat) (abs : List AEnt) :
    (slotsOf (closeAll t abs)).filterMap id = abs.map (spanOf t) := by
  induction abs with
  | nil => rfl
  | cons a as ih =>
    simp only [closeAll, slotsOf, List.map_cons, List.map_map] at ih ⊢
    simp only [toSlot, Option.map_some, List.filterMap_cons, id]
    rw [ih]; rfl

theorem effStyles_spanOf (t p : Nat) (abs : List AEnt) (hp : p < t) :
    effStyles (abs.map (spanOf t)) p = coverA abs p := by
  unfold effStyles coverA
  rw [List.filter_map, List.map_map]
  have : (fun x => Span.covers x p) ∘ spanOf t = coverP p := by
    funext a
    obtain ⟨e, s⟩ := a
    cases s with
    | none => simp [Span.covers, spanOf, coverP, hp]; rfl
    | some s => simp [Span.covers, spanOf, coverP]; rfl
  rw [this]
  rfl

theorem Inv_init : Inv St.init [] [] :=
  ⟨rfl, rfl, by intro i e s h; simp at h, by intro a ha; simp at ha, rfl, by intro p hp; simp at hp⟩

/-- **tags_style_exactly** (repaired span order, emoji off), for every markup string. -/
theorem render_refines (cfg : Cfg) (hE : cfg.emoji = none) (hS : cfg.sortSpans = false) (m : List Char) :
    match sem cfg [] (events m) with
    | some ann => ∃ spans, render cfg m = .ok (ann.map Prod.fst, spans) ∧
        ∀ p (h : p < ann.length), effStyles spans p = (ann[p]).2
    | none => ∃ e, render cfg m = .error e := by
  have hr := render_eq_runEv cfg hE m
  have hs := runEv_refines cfg (events m) St.init [] [] Inv_init
  simp only [St.init, List.map_nil] at hs
  cases hsem : sem cfg [] (events m) with
  | none =>
    rw [hsem] at hs
    simp only at hs
    have : runEv cfg St.init (events m) = none := hs
    rw [this] at hr
    exact toOption_eq_none hr
  | some ann =>
    rw [hsem] at hs
    simp only [List.nil_append] at hs
    obtain ⟨st', abs', h1, h2⟩ := hs
    have : runEv cfg St.init (events m) = some st' := h1
    rw [this] at hr
    have hok := toOption_eq_some hr
    obtain ⟨hsl, htx⟩ := foldl_drain st'.text.length st'.stack abs' { st' with stack := [] } h2.stack h2.idx h2.slots
    refine ⟨(slotsOf (closeAll st'.text.length abs')).filterMap id, ?_, ?_⟩
    · rw [hok]
      simp only [finish, hS, drain_eq, Bool.false_eq_true, if_false]
      rw [hsl, htx, h2.text]
    · intro p hp
      rw [slots_closeAll, effStyles_spanOf _ _ _ (by rw [← h2.len]; exact hp)]
      exact (h2.ann p hp).symm

end RichModel.Markup
