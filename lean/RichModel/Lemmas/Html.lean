import RichModel.Model.Console
/-!
String-level facts about the HTML export of `Model/Console`:

* `unescape` — decoding of the three entities `export_html` can emit;  `unescape_escape`.
* `stripTags` — removal of `<…>`;  `stripTags_flatFrags`.
These two functions are *specification* (what "tags removed and entities decoded" means); they are
not part of the model of the code.
-/
namespace RichModel.Console
open RichModel

/-! ## escape is a character-wise substitution -/

/-- What `escape` does to one character. -/
def esc1 (c : Char) : List Char :=
  if c == '&' then "&amp;".toList else if c == '<' then "&lt;".toList else if c == '>' then "&gt;".toList else [c]

theorem replaceChar_nil (c : Char) (r : List Char) : replaceChar c r [] = [] := rfl

theorem replaceChar_cons (c : Char) (r : List Char) (x : Char) (s : List Char) :
    replaceChar c r (x :: s) = (if x == c then r else [x]) ++ replaceChar c r s := by
  simp [replaceChar]

theorem replaceChar_append (c : Char) (r a b : List Char) :
    replaceChar c r (a ++ b) = replaceChar c r a ++ replaceChar c r b := by
  simp [replaceChar]

theorem escape_nil : escape [] = [] := rfl

theorem escape_cons (x : Char) (s : List Char) : escape (x :: s) = esc1 x ++ escape s := by
  unfold escape
  rw [replaceChar_cons]
  by_cases h1 : x = '&'
  · subst h1
    simp only [beq_self_eq_true, if_true, replaceChar_append]
    rfl
  · by_cases h2 : x = '<'
    · subst h2
      simp only [replaceChar_append]
      rfl
    · by_cases h3 : x = '>'
      · subst h3
        simp only [replaceChar_append]
        rfl
      · have e1 : (x == '&') = false := by simpa using h1
        have e2 : (x == '<') = false := by simpa using h2
        have e3 : (x == '>') = false := by simpa using h3
        simp only [e1, Bool.false_eq_true, if_false, replaceChar_cons, e2, e3,
          esc1, List.cons_append, List.nil_append]

theorem escape_eq_flatMap (s : List Char) : escape s = s.flatMap esc1 := by
  induction s with
  | nil => rfl
  | cons x s ih => rw [escape_cons, ih]; simp

theorem escape_append (a b : List Char) : escape (a ++ b) = escape a ++ escape b := by
  simp [escape_eq_flatMap]

theorem flatMap_escape {α : Type} (l : List α) (f : α → List Char) :
    l.flatMap (fun x => escape (f x)) = escape (l.flatMap f) := by
  induction l with
  | nil => rfl
  | cons x l ih => simp [List.flatMap_cons, escape_append, ih]

theorem not_lt_mem_esc1 (c : Char) : '<' ∉ esc1 c := by
  unfold esc1
  split
  · decide
  · split
    · decide
    · split
      · decide
      · rename_i _ h _
        simp only [List.mem_singleton]
        intro hc; subst hc; simp at h

/-- Escaped text contains no `<`. -/
theorem not_lt_mem_escape (s : List Char) : '<' ∉ escape s := by
  rw [escape_eq_flatMap]
  simp only [List.mem_flatMap, not_exists, not_and]
  intro c _
  exact not_lt_mem_esc1 c

theorem not_gt_mem_esc1 (c : Char) : '>' ∉ esc1 c := by
  unfold esc1
  split
  · decide
  · split
    · decide
    · split
      · decide
      · rename_i h
        simp only [List.mem_singleton]
        intro hc; subst hc; simp at h

theorem not_gt_mem_escape (s : List Char) : '>' ∉ escape s := by
  rw [escape_eq_flatMap]
  simp only [List.mem_flatMap, not_exists, not_and]
  intro c _
  exact not_gt_mem_esc1 c

theorem not_mem_replaceChar (c x : Char) (r s : List Char) (hr : x ∉ r) (hs : x ∉ s) : x ∉ replaceChar c r s := by
  unfold replaceChar
  simp only [List.mem_flatMap, not_exists, not_and]
  intro y hy
  split
  · exact hr
  · simp only [List.mem_singleton]; intro h; subst h; exact hs hy

/-- `html.escape(link, quote=True)` leaves no `>` (so the `href` value cannot end the tag). -/
theorem not_gt_mem_escapeAttr (s : List Char) : '>' ∉ escapeAttr s := by
  unfold escapeAttr
  apply not_mem_replaceChar _ _ _ _ (by decide)
  apply not_mem_replaceChar _ _ _ _ (by decide)
  exact not_gt_mem_escape s

theorem not_mem_replaceChar_self (c : Char) (r s : List Char) (hr : c ∉ r) : c ∉ replaceChar c r s := by
  unfold replaceChar
  simp only [List.mem_flatMap, not_exists, not_and]
  intro y _
  split
  · exact hr
  · rename_i h; simp only [List.mem_singleton]; intro e; subst e; simp at h

/-- …and no `"` (so it cannot end the attribute value). -/
theorem not_quote_mem_escapeAttr (s : List Char) : '"' ∉ escapeAttr s := by
  unfold escapeAttr
  apply not_mem_replaceChar _ _ _ _ (by decide)
  exact not_mem_replaceChar_self _ _ _ (by decide)

/-! ## decoding entities -/

/-- One step of the right-to-left entity decoder: `acc` is the already decoded rest. -/
def unescStep (c : Char) (acc : List Char) : List Char :=
  if c == '&' then
    match acc with
    | 'a' :: 'm' :: 'p' :: ';' :: r => '&' :: r
    | 'l' :: 't' :: ';' :: r => '<' :: r
    | 'g' :: 't' :: ';' :: r => '>' :: r
    | _ => '&' :: acc
  else c :: acc

/-- Decode `&amp;` `&lt;` `&gt;` (one pass; nothing else is an entity). -/
def unescape (s : List Char) : List Char := s.foldr unescStep []

theorem unescape_append (a b : List Char) : unescape (a ++ b) = a.foldr unescStep (unescape b) := by
  simp [unescape, List.foldr_append]

theorem unescape_esc1 (c : Char) (rest : List Char) :
    (esc1 c).foldr unescStep rest = c :: rest := by
  unfold esc1
  split
  · rename_i h; have : c = '&' := by simpa using h
    subst this; rfl
  · split
    · rename_i h; have : c = '<' := by simpa using h
      subst this; rfl
    · split
      · rename_i h; have : c = '>' := by simpa using h
        subst this; rfl
      · rename_i h _ _
        simp only [List.foldr_cons, List.foldr_nil, unescStep]
        simp [h]

/-- **Entities decoded ∘ escape = identity**, for every string. -/
theorem unescape_escape (s : List Char) : unescape (escape s) = s := by
  induction s with
  | nil => rfl
  | cons x s ih => rw [escape_cons, unescape_append, ih, unescape_esc1]

/-! ## removing tags -/

/-- `inTag = true`: skipping up to and including the next `>`. -/
def stripTagsAux : Bool → List Char → List Char
  | _, [] => []
  | false, c :: r => if c == '<' then stripTagsAux true r else c :: stripTagsAux false r
  | true, c :: r => if c == '>' then stripTagsAux false r else stripTagsAux true r

/-- Remove every `<…>`. -/
def stripTags (s : List Char) : List Char := stripTagsAux false s

/-- "Tags removed and entities decoded". -/
def htmlDecode (s : List Char) : List Char := unescape (stripTags s)

theorem stripTagsAux_text (t rest : List Char) (h : '<' ∉ t) :
    stripTagsAux false (t ++ rest) = t ++ stripTagsAux false rest := by
  induction t with
  | nil => rfl
  | cons c t ih =>
    have hc : (c == '<') = false := by
      simp only [List.mem_cons, not_or] at h
      have := h.1
      simp only [beq_eq_false_iff_ne, ne_eq]
      exact fun e => this e.symm
    have ht : '<' ∉ t := fun hm => h (List.mem_cons_of_mem _ hm)
    simp only [List.cons_append, stripTagsAux, hc, Bool.false_eq_true, if_false, ih ht]

theorem stripTagsAux_tagBody (b rest : List Char) (h : '>' ∉ b) :
    stripTagsAux true (b ++ '>' :: rest) = stripTagsAux false rest := by
  induction b with
  | nil => simp [stripTagsAux]
  | cons c b ih =>
    have hc : (c == '>') = false := by
      simp only [List.mem_cons, not_or] at h
      have := h.1
      simp only [beq_eq_false_iff_ne, ne_eq]
      exact fun e => this e.symm
    have hb : '>' ∉ b := fun hm => h (List.mem_cons_of_mem _ hm)
    simp only [List.cons_append, stripTagsAux, hc, Bool.false_eq_true, if_false, ih hb]

/-- The text of a fragment list: the (escaped) text fragments, in order. -/
def fragsText (fs : List Frag) : List Char :=
  fs.flatMap (fun | .text t => t | .tag _ => [])

/-- A fragment list whose tag bodies contain no `>` and whose texts contain no `<`. -/
def FragsOk (fs : List Frag) : Prop :=
  ∀ f ∈ fs, match f with
    | .tag b => '>' ∉ b
    | .text t => '<' ∉ t

theorem FragsOk.append {a b : List Frag} (ha : FragsOk a) (hb : FragsOk b) : FragsOk (a ++ b) := by
  intro f hf
  rcases List.mem_append.mp hf with h | h
  · exact ha f h
  · exact hb f h

theorem FragsOk.nil : FragsOk [] := by intro f hf; cases hf

theorem stripTags_flatFrags_aux (fs : List Frag) (h : FragsOk fs) :
    stripTagsAux false (flatFrags fs) = fragsText fs := by
  induction fs with
  | nil => rfl
  | cons f fs ih =>
    have hfs : FragsOk fs := fun g hg => h g (List.mem_cons_of_mem _ hg)
    have hf := h f (List.mem_cons_self ..)
    cases f with
    | tag b =>
      simp only at hf
      simp only [flatFrags, List.flatMap_cons, Frag.chars, fragsText, List.nil_append]
      rw [List.cons_append, stripTagsAux]
      simp only [beq_self_eq_true, if_true]
      rw [List.append_assoc, List.singleton_append, stripTagsAux_tagBody _ _ hf]
      exact ih hfs
    | text t =>
      simp only at hf
      simp only [flatFrags, List.flatMap_cons, Frag.chars, fragsText]
      rw [stripTagsAux_text _ _ hf]
      congr 1
      exact ih hfs

/-- Removing the tags of a well-formed fragment list leaves exactly its text fragments. -/
theorem stripTags_flatFrags (fs : List Frag) (h : FragsOk fs) : stripTags (flatFrags fs) = fragsText fs :=
  stripTags_flatFrags_aux fs h

theorem fragsText_append (a b : List Frag) : fragsText (a ++ b) = fragsText a ++ fragsText b := by
  simp [fragsText]

end RichModel.Console
