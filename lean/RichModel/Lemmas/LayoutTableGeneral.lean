import RichModel.Lemmas.LayoutTable
/-!
**The table with ARBITRARY columns** (fixed `width`, `min_width`, `max_width`, `no_wrap`; segment level): `tableConsole` is
title ++ body ++ caption, the body a sequence of complete lines none wider than the available width PLUS `Table.floorSum`
(the `min_width + padding` floors of the columns that have a `min_width` and no fixed `width`) — provided the available width
is at least the structural minimum `nonWrapSum + wrapCount` of the first-pass widths.  Same proof as `tableConsole_decomp`
(`Lemmas/LayoutTable.lean`) with the widths from `Dep.width_bound_general` (`width_bound_general` of `Props/C07.lean`)
instead of `width_fits_ratio`.
-/
namespace RichModel.Layout
open RichModel RichModel.Frames

/-- the table `Model/Table.lean` sees is sane: every option comes from a natural number and every cell measures
`0 ≤ maximum` -/
theorem tb_toTable_sane (cfg : Cfg) (o : TableOpts) (cols : List ColS)
    (hmeas : ∀ c ∈ cols, ∀ ch ∈ c.header :: c.footer :: c.cells, ∀ k : Nat, 0 ≤ (ch.measure k).maximum) :
    (toTable cfg o cols).Sane := by
  refine ⟨Int.natCast_nonneg o.padding.right, Int.natCast_nonneg o.padding.left, ?_, ?_, ?_, ?_⟩
  · intro c hc w hw
    obtain ⟨cs, _, pc, _, rfl⟩ := tb_mem_toTable_columns cfg o cols c hc
    simp only [toColumn, toColumnC] at hw
    cases h : cs.o.width with
    | none => rw [h] at hw; simp at hw
    | some n =>
      rw [h] at hw
      simp only [Option.map_some, Option.some.injEq] at hw
      subst hw
      exact Int.natCast_nonneg n
  · intro c hc w hw
    obtain ⟨cs, _, pc, _, rfl⟩ := tb_mem_toTable_columns cfg o cols c hc
    simp only [toColumn, toColumnC] at hw
    cases h : cs.o.maxWidth with
    | none => rw [h] at hw; simp at hw
    | some n =>
      rw [h] at hw
      simp only [Option.map_some, Option.some.injEq] at hw
      subst hw
      exact Int.natCast_nonneg n
  · intro c hc w hw
    obtain ⟨cs, _, pc, _, rfl⟩ := tb_mem_toTable_columns cfg o cols c hc
    simp only [toColumn, toColumnC] at hw
    cases h : cs.o.ratio with
    | none => rw [h] at hw; simp at hw
    | some n =>
      rw [h] at hw
      simp only [Option.map_some, Option.some.injEq] at hw
      subst hw
      exact Int.natCast_nonneg n
  · intro c hc
    obtain ⟨cs, _, pc, hpc, rfl⟩ := tb_mem_toTable_columns cfg o cols c hc
    have hpcok := tb_paddedCols_ok cfg o.skel cols hmeas pc hpc
    unfold toColumn
    apply tb_getCells_toColumnC
    intro x hx
    obtain ⟨ch, hch, rfl⟩ := List.mem_map.mp hx
    exact tb_toCell_ok cfg ch (hpcok ch hch)

/-- no column has a binding `min_width` ⇒ `floorSum = 0` -/
theorem tb_floorSum_zero (cfg : Cfg) (o : TableOpts) (cols : List ColS)
    (h : ∀ c ∈ cols, c.o.minWidth = none ∨ c.o.width.isSome = true) : (toTable cfg o cols).floorSum = 0 := by
  unfold Table.floorSum
  apply sum_zero_of_all_zero
  intro x hx
  simp only [List.mem_map] at hx
  obtain ⟨ci, hci, rfl⟩ := hx
  obtain ⟨cs, hcs, pc, _, heq⟩ := tb_mem_toTable_columns cfg o cols ci.1 (mem_indexed _ ci hci)
  unfold Table.colFloor
  rw [heq]
  simp only [toColumn, toColumnC]
  rcases h cs hcs with h | h
  · simp [h]
  · simp [Option.isSome_map, h]

/-- the first pass exists and gives every column a cell when the code has the repaired flexible-width clamp, or the
table has no active ratio -/
theorem tb_firstWidths_exists (cfg : Cfg) (o : TableOpts) (cols : List ColS) (maxWidth : Int)
    (hmeas : ∀ c ∈ cols, ∀ ch ∈ c.header :: c.footer :: c.cells, ∀ k : Nat, 0 ≤ (ch.measure k).maximum)
    (hr : (cfg.fl.flexNegative = false ∧ cfg.fl.flexClampZero = false) ∨ (toTable cfg o cols).NoRatio) :
    ∃ ws0, (toTable cfg o cols).firstWidths cfg.fl maxWidth = some ws0 ∧ ws0.length = cols.length ∧ ∀ x ∈ ws0, 1 ≤ x := by
  have hsane := tb_toTable_sane cfg o cols hmeas
  have hlenT := tb_toTable_columns_length cfg o cols
  rcases hr with hr | hr
  · obtain ⟨ws0, h0, hl, hp⟩ := firstWidths_ge_one cfg.fl hr.1 hr.2 (toTable cfg o cols) maxWidth
      (fun ci hci => measureColumn_nonneg _ hsane ci.2 ci.1 (mem_indexed _ ci hci) maxWidth)
      (tb_paddingWidth_nonneg cfg o cols)
      (fun c hc => by
        cases hw : c.width with
        | none => simp
        | some n => simpa using hsane.width c hc n hw)
      (tb_toTable_ratio_nonneg cfg o cols)
    exact ⟨ws0, h0, hl.trans hlenT, hp⟩
  · refine ⟨_, firstWidths_noRatio cfg.fl _ hr maxWidth, by simp [indexed_length, hlenT], ?_⟩
    intro w hw
    simp only [List.mem_map] at hw
    obtain ⟨ci, hci, rfl⟩ := hw
    exact orOne_pos _ (measureColumn_nonneg _ hsane ci.2 ci.1 (mem_indexed _ ci hci) maxWidth)

/-- **Table with arbitrary columns.**  `ws0` = the first-pass widths of `_calculate_column_widths` at the width on offer
(`maxWidth := o.width.getD w - extra`); if the columns that may not shrink (fixed `width`, `no_wrap`) plus one cell for every
column that may fit that width (`nonWrapSum + wrapCount ≤ maxWidth`), the table is title ++ body ++ caption, the body a
sequence of complete lines, and no body line is wider than the available width PLUS `floorSum` (the `min_width + padding`
floors of the columns that have a `min_width` and no fixed `width`) — exactly the available width when no column has a
binding `min_width` (`tb_floorSum_zero`).  `tb_firstWidths_exists` supplies `ws0`, `h0`, `hl`, `hp`. -/
theorem tableConsole_decomp_general (cfg : Cfg) (hcw : cfg.cw = cwD) (hfl : cfg.fl.leadingRepeat = false)
    (o : TableOpts) (opts : Opts) (cols : List ColS) (w : Nat)
    (hne : cols ≠ [])
    (hmeas : ∀ c ∈ cols, ∀ ch ∈ c.header :: c.footer :: c.cells, ∀ k : Nat, 0 ≤ (ch.measure k).maximum)
    (hwidth : ∀ tw, o.width = some tw → tw ≤ w)
    (ws0 : List Int)
    (h0 : (toTable cfg o cols).firstWidths cfg.fl (((toTable cfg o cols).width.getD (w : Int)) - (toTable cfg o cols).extraWidth) = some ws0)
    (hl : ws0.length = cols.length) (hp : ∀ x ∈ ws0, 1 ≤ x)
    (hbudget : nonWrapSum (ws0.zip (toTable cfg o cols).wrapable) + wrapCount (ws0.zip (toTable cfg o cols).wrapable)
        ≤ ((toTable cfg o cols).width.getD (w : Int)) - (toTable cfg o cols).extraWidth) :
    ∃ (tw : Int) (body : List Seg), tw ≤ (w : Int) + (toTable cfg o cols).floorSum ∧
      tableConsole cfg o opts cols w =
        annotation cfg o.title o.titleJustify opts tw ++ body ++ annotation cfg o.caption o.captionJustify opts tw ∧
      (∀ l ∈ splitLines body, (lineLength cfg.cw l : Int) ≤ (w : Int) + (toTable cfg o cols).floorSum) ∧ Closed body := by
  have hn1 : 1 ≤ cols.length := by
    cases cols with
    | nil => exact absurd rfl hne
    | cons _ _ => simp
  have hlenT := tb_toTable_columns_length cfg o cols
  have hneT : (toTable cfg o cols).columns ≠ [] := by
    intro h; rw [h] at hlenT; simp at hlenT; omega
  have hmax : (toTable cfg o cols).width.getD (w : Int) ≤ (w : Int) := by
    have hwd : (toTable cfg o cols).width = o.width.map Int.ofNat := rfl
    rw [hwd]
    cases hw' : o.width with
    | none => simp only [Option.map_none, Option.getD_none]; omega
    | some tw =>
      have h1 := hwidth tw hw'
      simp only [Option.map_some, Option.getD_some, Int.ofNat_eq_natCast]
      omega
  obtain ⟨ws, hws, hsum, hlen, hpos⟩ := Dep.width_bound_general cfg.fl (toTable cfg o cols) _
    (tb_toTable_sane cfg o cols hmeas) hneT ws0 h0 (hl.trans hlenT.symm) hp hbudget
  have hwl : (ws.map Int.toNat).length = cols.length := by rw [List.length_map, hlen, hlenT]
  obtain ⟨hfit, hclosed⟩ := tb_body_ok cfg hcw hfl o cols (ws.map Int.toNat) hwl
  refine ⟨ws.sum + (toTable cfg o cols).extraWidth, _, by omega, tb_tableConsole_eq cfg o opts cols w ws hws, ?_, hclosed⟩
  intro l hl
  have hle := hfit l hl
  have hrl := tb_rendered_length cfg o cols (ws.map Int.toNat) hwl
  have hRl := tb_tbR_columns_length o cols (tb_rendered cfg o cols (ws.map Int.toNat)) hrl
  have hneR : (tb_tbR o cols (tb_rendered cfg o cols (ws.map Int.toNat))).columns ≠ [] := by
    intro h; rw [h] at hRl; simp at hRl; omega
  have hbw := Dep.bodyWidth_eq (tb_tbR o cols (tb_rendered cfg o cols (ws.map Int.toNat))) (ws.map Int.toNat)
    (hwl.trans hRl.symm) hneR
  have hexR : (tb_tbR o cols (tb_rendered cfg o cols (ws.map Int.toNat))).extraWidth = (toTable cfg o cols).extraWidth := by
    unfold Table.extraWidth
    rw [hRl, hlenT]
    rfl
  rw [hexR, tb_sum_toNat ws (fun x hx => by have := hpos x hx; omega)] at hbw
  omega

end RichModel.Layout
