import RichModel.Lemmas.Theme
import RichModel.Model.ConfigParser
/-!
Lemmas for the config round trip (property C20): `sorted(items)`, `"\n".join` / line iteration,
the modelled `configparser` on the text `Theme.config` produces.
-/
namespace RichModel.Theme

variable {σ : Type}

/-! ## `sorted(self.styles.items())` -/

theorem insertSorted_perm (p : Name × σ) (l : Dict σ) : (insertSorted p l).Perm (p :: l) := by
  induction l with
  | nil => exact List.Perm.refl _
  | cons q r ih =>
    unfold insertSorted
    by_cases h : nameLt p.1 q.1 = true
    · simp only [h, if_true]; exact List.Perm.refl _
    · simp only [h]
      exact (List.Perm.cons q ih).trans (List.Perm.swap p q r)

theorem sortItems_perm (d : Dict σ) : (sortItems d).Perm d := by
  induction d with
  | nil => exact List.Perm.refl _
  | cons p r ih =>
    have : sortItems (p :: r) = insertSorted p (sortItems r) := rfl
    rw [this]
    exact (insertSorted_perm p _).trans (List.Perm.cons p ih)

theorem sortItems_wfd (d : Dict σ) (h : WFD d) : WFD (sortItems d) := by
  unfold WFD keys at *
  exact ((sortItems_perm d).map Prod.fst).nodup_iff.2 h

theorem mem_iff_dget (d : Dict σ) (h : WFD d) (n : Name) (v : σ) : (n, v) ∈ d ↔ dget d n = some v := by
  induction d with
  | nil => simp
  | cons p r ih =>
    obtain ⟨k, w⟩ := p
    have hw : k ∉ keys r ∧ WFD r := by simpa [WFD, keys] using h
    rw [dget_cons, List.mem_cons]
    by_cases hk : k = n
    · subst hk
      simp only [if_true, Option.some.injEq]
      constructor
      · rintro (e | hm)
        · injection e with _ e2; exact e2.symm
        · exact absurd (List.mem_map_of_mem (f := Prod.fst) hm) hw.1
      · intro e; subst e; exact Or.inl rfl
    · simp only [hk, if_false]
      rw [← ih hw.2]
      constructor
      · rintro (e | hm)
        · injection e with e1 _; exact absurd e1.symm hk
        · exact hm
      · exact Or.inr

/-- two dicts with unique keys and the same items answer every lookup alike. -/
theorem dget_of_perm (d e : Dict σ) (hd : WFD d) (he : WFD e) (hp : d.Perm e) (n : Name) :
    dget d n = dget e n := by
  cases h : dget e n with
  | some v => exact (mem_iff_dget d hd n v).1 (hp.mem_iff.2 ((mem_iff_dget e he n v).2 h))
  | none =>
    cases h2 : dget d n with
    | none => rfl
    | some v =>
      have := (mem_iff_dget e he n v).1 (hp.mem_iff.1 ((mem_iff_dget d hd n v).2 h2))
      rw [h] at this; cases this

theorem dget_sortItems (d : Dict σ) (h : WFD d) (n : Name) : dget (sortItems d) n = dget d n :=
  dget_of_perm _ _ (sortItems_wfd d h) h (sortItems_perm d) n

/-- building a dict from items with unique keys keeps every lookup. -/
theorem dget_dupdate_nil (e : Dict σ) (h : WFD e) (n : Name) : dget (dupdate [] e) n = dget e n := by
  rw [dget_dupdate [] e h]; cases dget e n <;> simp

/-! ## evaluating the items -/

theorem evalItems_style (parse : Parse σ) (d : Dict σ) :
    evalItems parse (d.map (fun p => (p.1, SV.style p.2))) = .ok d := by
  induction d with
  | nil => rfl
  | cons p r ih => simp [evalItems, ih]

theorem evalItems_str (parse : Parse σ) (str : σ → List Char) (d : Dict σ)
    (h : ∀ p ∈ d, parse (str p.2) = .ok p.2) :
    evalItems parse (d.map (fun p => (p.1, SV.str (str p.2)))) = .ok d := by
  induction d with
  | nil => rfl
  | cons p r ih =>
    have h1 := h p List.mem_cons_self
    have h2 := ih (fun q hq => h q (List.mem_cons_of_mem _ hq))
    simp [evalItems, h1, h2]

end RichModel.Theme

namespace RichModel.Cfg
open RichModel.Theme

/-! ## lines -/

theorem splitNL_noNL (a : List Char) (h : '\n' ∉ a) : splitNL a = [a] := by
  induction a with
  | nil => rfl
  | cons c r ih =>
    have hc : c ≠ '\n' := fun e => h (by simp [e])
    have hr : '\n' ∉ r := fun e => h (List.mem_cons_of_mem _ e)
    simp [splitNL, hc, ih hr]

theorem splitNL_append_nl (a b : List Char) (h : '\n' ∉ a) :
    splitNL (a ++ '\n' :: b) = a :: splitNL b := by
  induction a with
  | nil => simp [splitNL]
  | cons c r ih =>
    have hc : c ≠ '\n' := fun e => h (by simp [e])
    have hr : '\n' ∉ r := fun e => h (List.mem_cons_of_mem _ e)
    simp [splitNL, hc, ih hr]

theorem splitNL_joinNL (ls : List (List Char)) (hne : ls ≠ []) (h : ∀ l ∈ ls, '\n' ∉ l) :
    splitNL (joinNL ls) = ls := by
  induction ls with
  | nil => exact absurd rfl hne
  | cons l r ih =>
    have hl := h l List.mem_cons_self
    cases r with
    | nil => simpa [joinNL] using splitNL_noNL l hl
    | cons l2 r2 =>
      have : joinNL (l :: l2 :: r2) = l ++ '\n' :: joinNL (l2 :: r2) := rfl
      rw [this, splitNL_append_nl _ _ hl, ih (by simp) (fun x hx => h x (List.mem_cons_of_mem _ hx))]

/-! ## strip -/

theorem lstrip_of_head (c : Char) (r : List Char) (h : isSpace c = false) : lstrip (c :: r) = c :: r := by
  simp [lstrip, List.dropWhile, h]

theorem rstrip_of_last (s : List Char) (d : Char) (r : List Char) (hs : s.reverse = d :: r)
    (h : isSpace d = false) : rstrip s = s := by
  unfold rstrip
  rw [hs]
  simp only [List.dropWhile, h]
  rw [← hs, List.reverse_reverse]

/-- what `noSpaceEnds` gives. -/
theorem noSpaceEnds_spec (s : List Char) (h : noSpaceEnds s = true) :
    ∃ c r d r', s = c :: r ∧ isSpace c = false ∧ s.reverse = d :: r' ∧ isSpace d = false := by
  unfold noSpaceEnds at h
  match s, h with
  | c :: r, h =>
    simp only [Bool.and_eq_true, Bool.not_eq_true'] at h
    match hrev : (c :: r).reverse, h with
    | d :: r', h => exact ⟨c, r, d, r', rfl, h.1, rfl, by simpa using h.2⟩
    | [], h => simp at h

theorem strip_of_noSpaceEnds (s : List Char) (h : noSpaceEnds s = true) : strip s = s := by
  obtain ⟨c, r, d, r', hs, hc, hrev, hd⟩ := noSpaceEnds_spec s h
  unfold strip
  rw [hs, lstrip_of_head c r hc, ← hs]
  exact rstrip_of_last s d r' hrev hd

/-! ## one option line -/

/-- `f"{name} = {style}"` -/
def optLine (n : Name) (v : List Char) : List Char := n ++ ' ' :: '=' :: ' ' :: v

theorem cfgLine_eq (str : σ → List Char) (p : Name × σ) : cfgLine str p = optLine p.1 (str p.2) := by
  simp [cfgLine, optLine]

theorem map_asciiLower_id (n : List Char) (h : ∀ c ∈ n, asciiLower c = c) : n.map asciiLower = n := by
  induction n with
  | nil => rfl
  | cons c r ih =>
    simp only [List.map_cons, h c List.mem_cons_self]
    rw [ih (fun x hx => h x (List.mem_cons_of_mem _ hx))]

theorem safeName_spec (lower : Bool) (n : Name) (h : safeName lower n = true) :
    noSpaceEnds n = true ∧ (∀ c ∈ n, c ≠ '\n' ∧ isDelim c = false) ∧
    (∃ c r, n = c :: r ∧ c ≠ '#' ∧ c ≠ ';' ∧ c ≠ '[') ∧
    (lower = true → n.all isAscii = true ∧ n.map asciiLower = n) := by
  unfold safeName at h
  simp only [Bool.and_eq_true, Bool.or_eq_true, Bool.not_eq_true', List.all_eq_true, bne_iff_ne, ne_eq,
    beq_iff_eq] at h
  obtain ⟨⟨⟨h1, h2⟩, h3⟩, h4⟩ := h
  refine ⟨h1, h2, ?_, ?_⟩
  · match n, h3 with
    | c :: r, h3 => exact ⟨c, r, rfl, h3.1.1, h3.1.2, h3.2⟩
  · intro hl
    rcases h4 with h4 | h4
    · rw [hl] at h4; cases h4
    · exact ⟨by simpa [List.all_eq_true] using fun c hc => (h4 c hc).1,
        map_asciiLower_id n (fun c hc => (h4 c hc).2)⟩

theorem findIdx_delim (n rest : List Char) (h : ∀ c ∈ n, isDelim c = false) :
    (n ++ ' ' :: '=' :: rest).findIdx? isDelim = some (n.length + 1) := by
  induction n with
  | nil => simp [List.findIdx?_cons, isDelim]
  | cons c r ih =>
    have hc := h c List.mem_cons_self
    have hr := ih (fun x hx => h x (List.mem_cons_of_mem _ hx))
    simp [List.findIdx?_cons, hc, hr]

theorem sectionHeader_none (c : Char) (r : List Char) (h : c ≠ '[') : sectionHeader (c :: r) = none := by
  unfold sectionHeader
  split
  · rename_i heq; injection heq with e _; exact absurd e h
  · rfl

theorem step_optLine (lower : Bool) (st : RS) (n v : List Char) (hn : safeName lower n = true)
    (hv : noSpaceEnds v = true) (hs : st.sect = true) (hk : hasKey st.items n = false) :
    step lower st (optLine n v) = .ok { st with items := st.items ++ [(n, v)] } := by
  obtain ⟨hne, hchars, ⟨c, r, hcr, hc1, hc2, hc3⟩, hlow⟩ := safeName_spec lower n hn
  obtain ⟨c', r0, d, r', hs1, hcsp, hrev, hdsp⟩ := noSpaceEnds_spec n hne
  obtain ⟨vc, vr, vd, vr', hvs, hvc, hvrev, hvd⟩ := noSpaceEnds_spec v hv
  have hcc : c' = c ∧ r0 = r := by rw [hs1] at hcr; injection hcr with a b; exact ⟨a, b⟩
  obtain ⟨e1, e2⟩ := hcc; subst e1; subst e2
  -- the line is stripped already
  have hline : optLine n v = c' :: (r0 ++ ' ' :: '=' :: ' ' :: v) := by simp [optLine, hs1]
  have hlrev : (optLine n v).reverse = vd :: (vr' ++ ' ' :: '=' :: ' ' :: n.reverse) := by
    simp [optLine, hvrev]
  have hstrip : strip (optLine n v) = optLine n v := by
    unfold strip
    rw [hline, lstrip_of_head _ _ hcsp, ← hline]
    exact rstrip_of_last _ vd _ hlrev hvd
  have hfind : (optLine n v).findIdx? isDelim = some (n.length + 1) := findIdx_delim n (' ' :: v) (fun x hx => (hchars x hx).2)
  have htake : (optLine n v).take (n.length + 1) = n ++ [' '] := by
    have : optLine n v = (n ++ [' ']) ++ ('=' :: ' ' :: v) := by simp [optLine]
    rw [this]
    exact List.take_left' (by simp)
  have hdrop : (optLine n v).drop (n.length + 1 + 1) = ' ' :: v := by
    have : optLine n v = (n ++ [' ', '=']) ++ (' ' :: v) := by simp [optLine]
    rw [this]
    exact List.drop_left' (by simp)
  have hraw : rstrip (n ++ [' ']) = n := by
    unfold rstrip
    have hsp : isSpace ' ' = true := by decide
    simp only [List.reverse_append, List.reverse_cons, List.reverse_nil, List.nil_append, List.singleton_append,
      List.dropWhile, hsp]
    rw [hrev]
    simp only [List.dropWhile, hdsp]
    rw [← hrev, List.reverse_reverse]
  have hval : strip (' ' :: v) = v := by
    unfold strip
    have hsp : isSpace ' ' = true := by decide
    have : lstrip (' ' :: v) = v := by
      simp only [lstrip, List.dropWhile, hsp]
      rw [hvs]; simp [List.dropWhile, hvc]
    rw [this]
    exact rstrip_of_last v vd vr' hvrev hvd
  have hnnil : n.isEmpty = false := by rw [hs1]; rfl
  unfold step
  simp only [hstrip]
  rw [hline]
  have hcom : (c' = '#' || c' = ';') = false := by simp [hc1, hc2]
  simp only [hcom, Bool.false_eq_true, if_false, hcsp]
  rw [sectionHeader_none c' _ hc3]
  simp only [hs, Bool.not_true, Bool.false_eq_true, if_false]
  rw [← hline, hfind]
  simp only [htake, hraw, hdrop, hval]
  cases lower with
  | false => simp [hk, hnnil]
  | true =>
    obtain ⟨ha, hm⟩ := hlow rfl
    simp [ha, hm, hk, hnnil]

end RichModel.Cfg
