import RichModel.Lemmas.Theme
import RichModel.Model.ConfigParser
/-!
Lemmas for the config round trip (property C20): `sorted(items)`, `"\n".join` / line iteration,
the modelled `configparser` on the text `Theme.config` produces.
-/
namespace RichModel.Theme

variable {σ : Type}

/-! ## `sorted(self.styles.items())` -/

theorem insertSorted_perm (p : Name × σ) (l : Dict σ) : (insertSorted p l).Perm (p :: l) := by
  induction l with
  | nil => exact List.Perm.refl _
  | cons q r ih =>
    unfold insertSorted
    by_cases h : nameLt p.1 q.1 = true
    · simp only [h, if_true]; exact List.Perm.refl _
    · simp only [h]
      exact (List.Perm.cons q ih).trans (List.Perm.swap p q r)

theorem sortItems_perm (d : Dict σ) : (sortItems d).Perm d := by
  induction d with
  | nil => exact List.Perm.refl _
  | cons p r ih =>
    have : sortItems (p :: r) = insertSorted p (sortItems r) := rfl
    rw [this]
    exact (insertSorted_perm p _).trans (List.Perm.cons p ih)

theorem sortItems_wfd (d : Dict σ) (h : WFD d) : WFD (sortItems d) := by
  unfold WFD keys at *
  exact ((sortItems_perm d).map Prod.fst).nodup_iff.2 h

theorem mem_iff_dget (d : Dict σ) (h : WFD d) (n : Name) (v : σ) : (n, v) ∈ d ↔ dget d n = some v := by
  induction d with
  | nil => simp
  | cons p r ih =>
    obtain ⟨k, w⟩ := p
    have hw : k ∉ keys r ∧ WFD r := by simpa [WFD, keys] using h
    rw [dget_cons, List.mem_cons]
    by_cases hk : k = n
    · subst hk
      simp only [if_true, Option.some.injEq]
      constructor
      · rintro (e | hm)
        · injection e with _ e2; exact e2.symm
        · exact absurd (List.mem_map_of_mem (f := Prod.fst) hm) hw.1
      · intro e; subst e; exact Or.inl rfl
    · simp only [hk, if_false]
      rw [← ih hw.2]
      constructor
      · rintro (e | hm)
        · injection e with e1 _; exact absurd e1.symm hk
        · exact hm
      · exact Or.inr

/-- two dicts with unique keys and the same items answer every lookup alike. -/
theorem dget_of_perm (d e : Dict σ) (hd : WFD d) (he : WFD e) (hp : d.Perm e) (n : Name) :
    dget d n = dget e n := by
  cases h : dget e n with
  | some v => exact (mem_iff_dget d hd n v).1 (hp.mem_iff.2 ((mem_iff_dget e he n v).2 h))
  | none =>
    cases h2 : dget d n with
    | none => rfl
    | some v =>
      have := (mem_iff_dget e he n v).1 (hp.mem_iff.1 ((mem_iff_dget d hd n v).2 h2))
      rw [h] at this; cases this

theorem dget_sortItems (d : Dict σ) (h : WFD d) (n : Name) : dget (sortItems d) n = dget d n :=
  dget_of_perm _ _ (sortItems_wfd d h) h (sortItems_perm d) n

/-- building a dict from items with unique keys keeps every lookup. -/
theorem dget_dupdate_nil (e : Dict σ) (h : WFD e) (n : Name) : dget (dupdate [] e) n = dget e n := by
  rw [dget_dupdate [] e h]; cases dget e n <;> simp

/-! ## evaluating the items -/

theorem evalItems_style (parse : Parse σ) (d : Dict σ) :
    evalItems parse (d.map (fun p => (p.1, SV.style p.2))) = .ok d := by
  induction d with
  | nil => rfl
  | cons p r ih => simp [evalItems, ih]

theorem evalItems_str (parse : Parse σ) (str : σ → List Char) (d : Dict σ)
    (h : ∀ p ∈ d, parse (str p.2) = .ok p.2) :
    evalItems parse (d.map (fun p => (p.1, SV.str (str p.2)))) = .ok d := by
  induction d with
  | nil => rfl
  | cons p r ih =>
    have h1 := h p List.mem_cons_self
    have h2 := ih (fun q hq => h q (List.mem_cons_of_mem _ hq))
    simp [evalItems, h1, h2]

end RichModel.Theme

namespace RichModel.Cfg
open RichModel.Theme

/-! ## lines -/

theorem splitNL_noNL (a : List Char) (h : '\n' ∉ a) : splitNL a = [a] := by
  induction a with
  | nil => rfl
  | cons c r ih =>
    have hc : c ≠ '\n' := fun e => h (by simp [e])
    have hr : '\n' ∉ r := fun e => h (List.mem_cons_of_mem _ e)
    simp [splitNL, hc, ih hr]

theorem splitNL_append_nl (a b : List Char) (h : '\n' ∉ a) :
    splitNL (a ++ '\n' :: b) = a :: splitNL b := by
  induction a with
  | nil => simp [splitNL]
  | cons c r ih =>
    have hc : c ≠ '\n' := fun e => h (by simp [e])
    have hr : '\n' ∉ r := fun e => h (List.mem_cons_of_mem _ e)
    simp [splitNL, hc, ih hr]

theorem splitNL_joinNL (ls : List (List Char)) (hne : ls ≠ []) (h : ∀ l ∈ ls, '\n' ∉ l) :
    splitNL (joinNL ls) = ls := by
  induction ls with
  | nil => exact absurd rfl hne
  | cons l r ih =>
    have hl := h l List.mem_cons_self
    cases r with
    | nil => simpa [joinNL] using splitNL_noNL l hl
    | cons l2 r2 =>
      have : joinNL (l :: l2 :: r2) = l ++ '\n' :: joinNL (l2 :: r2) := rfl
      rw [this, splitNL_append_nl _ _ hl, ih (by simp) (fun x hx => h x (List.mem_cons_of_mem _ hx))]

/-! ## strip -/

theorem lstrip_of_head (c : Char) (r : List Char) (h : isSpace c = false) : lstrip (c :: r) = c :: r := by
  simp [lstrip, List.dropWhile, h]

theorem rstrip_of_last (s : List Char) (d : Char) (r : List Char) (hs : s.reverse = d :: r)
    (h : isSpace d = false) : rstrip s = s := by
  unfold rstrip
  rw [hs]
  simp only [List.dropWhile, h]
  rw [← hs, List.reverse_reverse]

/-- what `noSpaceEnds` gives. -/
theorem noSpaceEnds_spec (s : List Char) (h : noSpaceEnds s = true) :
    ∃ c r d r', s = c :: r ∧ isSpace c = false ∧ s.reverse = d :: r' ∧ isSpace d = false := by
  unfold noSpaceEnds at h
  match s, h with
  | c :: r, h =>
    simp only [Bool.and_eq_true, Bool.not_eq_true'] at h
    match hrev : (c :: r).reverse, h with
    | d :: r', h => exact ⟨c, r, d, r', rfl, h.1, rfl, by simpa using h.2⟩
    | [], h => simp at h

theorem strip_of_noSpaceEnds (s : List Char) (h : noSpaceEnds s = true) : strip s = s := by
  obtain ⟨c, r, d, r', hs, hc, hrev, hd⟩ := noSpaceEnds_spec s h
  unfold strip
  rw [hs, lstrip_of_head c r hc, ← hs]
  exact rstrip_of_last s d r' hrev hd

/-! ## one option line -/

/-- `f"{name} = {style}"` -/
def optLine (n : Name) (v : List Char) : List Char := n ++ ' ' :: '=' :: ' ' :: v

theorem cfgLine_eq (str : σ → List Char) (p : Name × σ) : cfgLine str p = optLine p.1 (str p.2) := by
  simp [cfgLine, optLine]

theorem map_asciiLower_id (n : List Char) (h : ∀ c ∈ n, asciiLower c = c) : n.map asciiLower = n := by
  induction n with
  | nil => rfl
  | cons c r ih =>
    simp only [List.map_cons, h c List.mem_cons_self]
    rw [ih (fun x hx => h x (List.mem_cons_of_mem _ hx))]

theorem safeName_spec (lower : Bool) (n : Name) (h : safeName lower n = true) :
    noSpaceEnds n = true ∧ (∀ c ∈ n, c ≠ '\n' ∧ isDelim c = false) ∧
    (∃ c r, n = c :: r ∧ c ≠ '#' ∧ c ≠ ';' ∧ c ≠ '[') ∧
    (lower = true → lowerName n = some n) := by
  unfold safeName at h
  simp only [Bool.and_eq_true, Bool.or_eq_true, Bool.not_eq_true', List.all_eq_true, bne_iff_ne, ne_eq,
    beq_iff_eq] at h
  obtain ⟨⟨⟨h1, h2⟩, h3⟩, h4⟩ := h
  refine ⟨h1, h2, ?_, ?_⟩
  · match n, h3 with
    | c :: r, h3 =>
      simp only [Bool.and_eq_true, bne_iff_ne, ne_eq] at h3
      exact ⟨c, r, rfl, h3.1.1, h3.1.2, h3.2⟩
    | [], h3 => simp at h3
  · intro hl
    rcases h4 with h4 | h4
    · rw [hl] at h4; cases h4
    · exact h4

theorem findIdx_delim (n rest : List Char) (h : ∀ c ∈ n, isDelim c = false) :
    (n ++ ' ' :: '=' :: rest).findIdx? isDelim = some (n.length + 1) := by
  induction n with
  | nil => simp [List.findIdx?_cons, isDelim]
  | cons c r ih =>
    have hc := h c List.mem_cons_self
    have hr := ih (fun x hx => h x (List.mem_cons_of_mem _ hx))
    simp [List.findIdx?_cons, hc, hr]

theorem sectionHeader_none (c : Char) (r : List Char) (h : c ≠ '[') : sectionHeader (c :: r) = none := by
  unfold sectionHeader
  split
  · rename_i heq; injection heq with e _; exact absurd e h
  · rfl

theorem dset_of_not_mem {α : Type} (d : Dict α) (k : Name) (v : α) (h : k ∉ keys d) :
    dset d k v = d ++ [(k, v)] := by
  induction d with
  | nil => rfl
  | cons p r ih =>
    obtain ⟨k', v'⟩ := p
    have h1 : ¬ k' = k := fun e => h (by simp [keys, e])
    have h2 : k ∉ keys r := fun e => h (by simp only [keys, List.map_cons, List.mem_cons]; exact Or.inr e)
    simp [dset, h1, ih h2]

theorem dupdate_of_disjoint {α : Type} (es : Dict α) : ∀ (acc : Dict α), WFD (acc ++ es) → dupdate acc es = acc ++ es := by
  induction es with
  | nil => intro acc _; simp [dupdate]
  | cons e rest ih =>
    intro acc h
    have hk : e.1 ∉ keys acc := by
      unfold WFD keys at h
      rw [List.map_append, List.map_cons] at h
      have := (List.nodup_append.1 h).2.2
      intro hm
      exact this _ hm _ List.mem_cons_self rfl
    have h1 : dupdate acc (e :: rest) = dupdate (dset acc e.1 e.2) rest := rfl
    rw [h1, dset_of_not_mem acc e.1 e.2 hk]
    have h' : WFD ((acc ++ [(e.1, e.2)]) ++ rest) := by simpa using h
    rw [ih _ h']; simp

/-- the reader state while it is inside `[styles]` of a text written by `Theme.config` -/
def stylesState (opts : Opts) (o : Option Name) : RS :=
  { secs := [(stylesSect, opts)], cur := some stylesSect, optname := o, indent := 0, perr := false }

theorem step_optLine (lower : Bool) (opts : Opts) (o : Option Name) (n v : List Char)
    (hn : safeName lower n = true) (hv : noSpaceEnds v = true) (hk : n ∉ keys opts) :
    step lower (stylesState opts o) (optLine n v) = .ok (stylesState (opts ++ [(n, [v])]) (some n)) := by
  obtain ⟨hne, hchars, ⟨c, r, hcr, hc1, hc2, hc3⟩, hlow⟩ := safeName_spec lower n hn
  obtain ⟨c', r0, d, r', hs1, hcsp, hrev, hdsp⟩ := noSpaceEnds_spec n hne
  obtain ⟨vc, vr, vd, vr', hvs, hvc, hvrev, hvd⟩ := noSpaceEnds_spec v hv
  have hcc : c' = c ∧ r0 = r := by rw [hs1] at hcr; injection hcr with a b; exact ⟨a, b⟩
  obtain ⟨e1, e2⟩ := hcc; subst e1; subst e2
  -- the line is stripped already
  have hline : optLine n v = c' :: (r0 ++ ' ' :: '=' :: ' ' :: v) := by simp [optLine, hs1]
  have hlrev : (optLine n v).reverse = vd :: (vr' ++ ' ' :: '=' :: ' ' :: n.reverse) := by
    simp [optLine, hvrev]
  have hstrip : strip (optLine n v) = optLine n v := by
    unfold strip
    rw [hline, lstrip_of_head _ _ hcsp, ← hline]
    exact rstrip_of_last _ vd _ hlrev hvd
  have hfind : (optLine n v).findIdx? isDelim = some (n.length + 1) := findIdx_delim n (' ' :: v) (fun x hx => (hchars x hx).2)
  have htake : (optLine n v).take (n.length + 1) = n ++ [' '] := by
    have : optLine n v = (n ++ [' ']) ++ ('=' :: ' ' :: v) := by simp [optLine]
    rw [this]
    exact List.take_left' (by simp)
  have hdrop : (optLine n v).drop (n.length + 1 + 1) = ' ' :: v := by
    have : optLine n v = (n ++ [' ', '=']) ++ (' ' :: v) := by simp [optLine]
    rw [this]
    exact List.drop_left' (by simp)
  have hraw : rstrip (n ++ [' ']) = n := by
    unfold rstrip
    have hsp : isSpace ' ' = true := by decide
    simp only [List.reverse_append, List.reverse_cons, List.reverse_nil, List.nil_append, List.singleton_append,
      List.dropWhile, hsp]
    rw [hrev]
    simp only [List.dropWhile, hdsp]
    rw [← hrev, List.reverse_reverse]
  have hval : strip (' ' :: v) = v := by
    unfold strip
    have hsp : isSpace ' ' = true := by decide
    have : lstrip (' ' :: v) = v := by
      simp only [lstrip, List.dropWhile, hsp]
      rw [hvs]; simp [List.dropWhile, hvc]
    rw [this]
    exact rstrip_of_last v vd vr' hvrev hvd
  have hnnil : n.isEmpty = false := by rw [hs1]; rfl
  have hind : ((c' :: (r0 ++ ' ' :: '=' :: ' ' :: v)).findIdx? (fun c => !isSpace c)).getD 0 = 0 := by
    simp [List.findIdx?_cons, hcsp]
  have hnone : (dget opts n).isSome = false := by
    rw [(dget_eq_none_iff opts n).2 hk]; rfl
  unfold step
  simp only [hstrip]
  rw [hline]
  have hcom : (c' = '#' || c' = ';') = false := by simp [hc1, hc2]
  simp only [hcom, Bool.false_eq_true, if_false, hind]
  rw [sectionHeader_none c' _ hc3]
  rw [← hline, hfind]
  simp only [htake, hraw, hdrop, hval, stylesState, dget_cons, if_true, Option.getD_some]
  cases lower with
  | false =>
    simp [hnone, hnnil, dset, dset_of_not_mem opts n [v] hk]
    generalize openOption _ = oo
    cases oo <;> rfl
  | true =>
    have hm := hlow rfl
    simp [hm, hnone, hnnil, dset, dset_of_not_mem opts n [v] hk]
    generalize openOption _ = oo
    cases oo <;> rfl

/-! ## the whole text: `read_file` + `items("styles")` on what `Theme.config` writes -/

def entryLine (e : Name × List Char) : List Char := optLine e.1 e.2

/-- the text `Theme.config` produces for the (sorted) entries `es` -/
def render (es : List (Name × List Char)) : List Char := sectHeader ++ '\n' :: joinNL (es.map entryLine)

/-- an option as the reader stores it: one value line -/
def asOpt (e : Name × List Char) : Name × List (List Char) := (e.1, [e.2])

theorem keys_map_asOpt (es : List (Name × List Char)) : keys (es.map asOpt) = keys es := by
  simp [keys, List.map_map, Function.comp_def, asOpt]

theorem readLines_entries (lower : Bool) (es : List (Name × List Char)) :
    ∀ (acc : List (Name × List Char)) (o : Option Name),
      (∀ e ∈ es, safeName lower e.1 = true ∧ noSpaceEnds e.2 = true) → WFD (acc ++ es) →
      ∃ o', readLines lower (stylesState (acc.map asOpt) o) (es.map entryLine) =
        .ok (stylesState ((acc ++ es).map asOpt) o') := by
  induction es with
  | nil => intro acc o _ _; exact ⟨o, by simp [readLines]⟩
  | cons e rest ih =>
    intro acc o hs hnd
    have he := hs e List.mem_cons_self
    have hk : e.1 ∉ keys (acc.map asOpt) := by
      rw [keys_map_asOpt]
      unfold WFD keys at hnd
      rw [List.map_append, List.map_cons] at hnd
      have := (List.nodup_append.1 hnd).2.2
      intro hm
      exact this _ hm _ List.mem_cons_self rfl
    have hstep := step_optLine lower (acc.map asOpt) o e.1 e.2 he.1 he.2 hk
    have hnd' : WFD ((acc ++ [e]) ++ rest) := by simpa using hnd
    obtain ⟨o', h'⟩ := ih (acc ++ [e]) (some e.1) (fun x hx => hs x (List.mem_cons_of_mem _ hx)) hnd'
    refine ⟨o', ?_⟩
    simp only [List.map_cons, readLines, entryLine, hstep]
    have e1 : acc.map asOpt ++ [(e.1, [e.2])] = (acc ++ [e]).map asOpt := by simp [asOpt]
    rw [e1]
    simpa [entryLine] using h'

theorem finishOpts_asOpt (es : List (Name × List Char)) (h : ∀ e ∈ es, noSpaceEnds e.2 = true) :
    finishOpts (es.map asOpt) = es := by
  induction es with
  | nil => rfl
  | cons e rest ih =>
    have he := h e List.mem_cons_self
    obtain ⟨c, r, d, r', hs1, _, hrev, hd⟩ := noSpaceEnds_spec e.2 he
    have : rstrip (joinNL [e.2]) = e.2 := by
      simp only [joinNL]; exact rstrip_of_last e.2 d r' hrev hd
    have ih' := ih (fun x hx => h x (List.mem_cons_of_mem _ hx))
    simp only [finishOpts, List.map_cons, asOpt, this] at ih' ⊢
    rw [ih']

theorem interpGo_id (v : List Char) (h : ∀ c ∈ v, c ≠ '%') : interpGo false v = .ok v := by
  induction v with
  | nil => rfl
  | cons c r ih =>
    have hc := h c List.mem_cons_self
    simp [interpGo, hc, ih (fun x hx => h x (List.mem_cons_of_mem _ hx)), Res.map]

theorem interpItems_id (es : List (Name × List Char)) (h : ∀ e ∈ es, ∀ c ∈ e.2, c ≠ '%') :
    interpItems es = .ok es := by
  induction es with
  | nil => rfl
  | cons e rest ih =>
    obtain ⟨n, v⟩ := e
    have hv := interpGo_id v (h (n, v) List.mem_cons_self)
    simp [interpItems, interpolate, hv, ih (fun x hx => h x (List.mem_cons_of_mem _ hx))]

theorem safeValue_spec (interp : Bool) (v : List Char) (h : safeValue interp v = true) :
    noSpaceEnds v = true ∧ (∀ c ∈ v, c ≠ '\n') ∧ (interp = true → ∀ c ∈ v, c ≠ '%') := by
  unfold safeValue at h
  simp only [Bool.and_eq_true, Bool.or_eq_true, Bool.not_eq_true', List.all_eq_true, bne_iff_ne, ne_eq] at h
  obtain ⟨⟨h1, h2⟩, h3⟩ := h
  refine ⟨h1, h2, ?_⟩
  intro hi
  rcases h3 with h3 | h3
  · rw [hi] at h3; cases h3
  · exact h3

theorem entryLine_noNL (lower interp : Bool) (e : Name × List Char)
    (h : safeName lower e.1 = true ∧ safeValue interp e.2 = true) : '\n' ∉ entryLine e := by
  obtain ⟨_, hn, _, _⟩ := safeName_spec lower e.1 h.1
  obtain ⟨_, hv, _⟩ := safeValue_spec interp e.2 h.2
  simp only [entryLine, optLine, List.mem_append, List.mem_cons, not_or]
  refine ⟨fun hm => (hn _ hm).1 rfl, by decide, by decide, by decide, fun hm => hv _ hm rfl⟩

/-- **The contract of the modelled `configparser`**: on the text `Theme.config` writes for entries
with safe names and values (and unique names) it gives back exactly those entries, in order. -/
theorem cfgItems_render (lower interp : Bool) (es : List (Name × List Char))
    (hs : ∀ e ∈ es, safeName lower e.1 = true ∧ safeValue interp e.2 = true) (hnd : WFD es) :
    cfgItems lower interp (render es) = .ok es := by
  have hhead : '\n' ∉ sectHeader := by decide
  have hstep0 : step lower {} sectHeader = .ok (stylesState [] none) := by cases lower <;> decide
  have hs' : ∀ e ∈ es, safeName lower e.1 = true ∧ noSpaceEnds e.2 = true :=
    fun e he => ⟨(hs e he).1, (safeValue_spec interp e.2 (hs e he).2).1⟩
  have hread : ∃ o, readLines lower {} (splitNL (render es)) = .ok (stylesState (es.map asOpt) o) := by
    unfold render
    rw [splitNL_append_nl _ _ hhead]
    cases es with
    | nil =>
      have hstepE : step lower (stylesState [] none) [] = .ok (stylesState [] none) := by cases lower <;> decide
      exact ⟨none, by simp only [List.map_nil, joinNL, splitNL, readLines, hstep0, hstepE]⟩
    | cons e rest =>
      rw [splitNL_joinNL _ (by simp) (by
        intro l hl
        obtain ⟨x, hx, rfl⟩ := List.mem_map.1 hl
        exact entryLine_noNL lower interp x (hs x hx))]
      simp only [readLines, hstep0]
      obtain ⟨o, h⟩ := readLines_entries lower (e :: rest) [] none hs' (by simpa using hnd)
      exact ⟨o, by simpa using h⟩
  obtain ⟨o, hread⟩ := hread
  have hdef : dget ([(stylesSect, es.map asOpt)] : Dict Opts) defaultSect = none := by
    have : ¬ stylesSect = defaultSect := by decide
    simp [dget_cons, this]
  unfold cfgItems
  rw [hread]
  simp only [stylesState, Bool.false_eq_true, if_false, dget_cons, if_true, hdef, Option.getD_none]
  have hfin : dupdate (finishOpts []) (finishOpts (es.map asOpt)) = es := by
    rw [finishOpts_asOpt es (fun e he => (hs' e he).2)]
    have : finishOpts ([] : Opts) = [] := rfl
    rw [this, dupdate_of_disjoint es [] (by simpa using hnd)]; simp
  rw [hfin]
  cases interp with
  | false => rfl
  | true =>
    simp only [if_true]
    exact interpItems_id es (fun e he => (safeValue_spec true e.2 (hs e he).2).2.2 rfl)

/-! ## the round trip over an abstract reader -/

/-- What `Theme.from_file` needs from `configparser`: entries with acceptable names and values
(unique names), written the way `Theme.config` writes them, are read back unchanged. -/
def Contract (read : List Char → Res (List (Name × List Char))) (okName : Name → Bool)
    (okValue : List Char → Bool) : Prop :=
  ∀ es : List (Name × List Char), (∀ e ∈ es, okName e.1 = true ∧ okValue e.2 = true) → WFD es →
    read (render es) = .ok es

theorem cfgItems_contract (lower interp : Bool) :
    Contract (cfgItems lower interp) (safeName lower) (safeValue interp) :=
  fun es hs hnd => cfgItems_render lower interp es hs hnd

variable {σ : Type}

theorem config_eq_render (str : σ → List Char) (t : Theme σ) :
    Theme.config str t = render ((sortItems t.styles).map (fun p => (p.1, str p.2))) := by
  have h : cfgLine str = fun x => optLine x.1 (str x.2) := funext (cfgLine_eq str)
  simp [Theme.config, render, List.map_map, Function.comp_def, h, entryLine]

theorem fromFileWith_config (read : List Char → Res (List (Name × List Char))) (okName : Name → Bool)
    (okValue : List Char → Bool) (hc : Contract read okName okValue)
    (defaults : Dict σ) (parse : Parse σ) (str : σ → List Char) (t : Theme σ) (inherit : Bool)
    (hwf : WFD t.styles)
    (hnames : ∀ p ∈ t.styles, okName p.1 = true)
    (hvalues : ∀ p ∈ t.styles, okValue (str p.2) = true)
    (hparse : ∀ p ∈ t.styles, parse (str p.2) = .ok p.2) :
    fromFileWith read defaults parse (Theme.config str t) inherit =
      .ok ⟨dupdate (if inherit then defaults else []) (dupdate [] (dupdate [] (sortItems t.styles)))⟩ := by
  have hmem : ∀ p, p ∈ sortItems t.styles ↔ p ∈ t.styles := fun p => (sortItems_perm t.styles).mem_iff
  have hswf := sortItems_wfd t.styles hwf
  have hread := hc ((sortItems t.styles).map (fun p => (p.1, str p.2)))
    (by
      intro e he
      obtain ⟨p, hp, rfl⟩ := List.mem_map.1 he
      exact ⟨hnames p ((hmem p).1 hp), hvalues p ((hmem p).1 hp)⟩)
    (by simpa [WFD, keys, List.map_map, Function.comp_def] using hswf)
  unfold fromFileWith
  rw [config_eq_render, hread]
  simp only [List.map_map, Function.comp_def]
  rw [evalItems_str parse str _ (fun p hp => hparse p ((hmem p).1 hp))]
  simp only [Theme.new, evalItems_style]

/-- Every lookup in the theme read back is the lookup in the original theme, falling back to the
defaults exactly when `inherit` was requested. -/
theorem dget_roundtrip (base : Dict σ) (d : Dict σ) (hwf : WFD d) (n : Name) :
    dget (dupdate base (dupdate [] (dupdate [] (sortItems d)))) n = (dget d n).or (dget base n) := by
  have h1 : WFD (dupdate [] (sortItems d)) := wfd_dupdate _ _ wfd_nil
  have h2 : WFD (dupdate [] (dupdate [] (sortItems d))) := wfd_dupdate _ _ wfd_nil
  rw [dget_dupdate _ _ h2, dget_dupdate_nil _ h1, dget_dupdate_nil _ (sortItems_wfd d hwf), dget_sortItems d hwf]

end RichModel.Cfg
