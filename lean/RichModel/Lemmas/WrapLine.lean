import RichModel.Model.Wrap
import RichModel.Lemmas.Cells
import RichModel.Lemmas.WrapPieces
/-!
`divide_line` (_wrap.py:20-47) for an arbitrary cell-width function `cw` under the single hypothesis
`∀ c, cw c ≤ w` (every character fits a line):

* `divideLine_offsets` (B1): the offsets are strictly increasing and strictly inside the text;
* `break_only_when_too_wide` (B3): an offset between two non-whitespace characters lies strictly inside a word
  whose rstripped width exceeds the line width, and that only happens with `fold`;
* `divideLine_pieces_fit` (B2): with `fold`, every piece between consecutive offsets fits the width once its
  trailing whitespace is removed;
* `words_spec`, `words_adjacent`, `words_cover`: the structure of `words text` (`re_word = \s*\S+\s*`).

Internals: `WordsAt` (what `wordsFrom` guarantees), `chopS` (accumulator-free `chop_cells`), `chop_shape`
(the chunks of a too-wide word), `divideStep_*` (the loop body branch by branch), `divideGo_offs` / `divideGo_fit`
(the loop invariants).
-/
namespace RichModel
namespace Wrap

/-! ### generic `takeWhile` / `dropWhile` facts -/

theorem all_takeWhile {α : Type} (p : α → Bool) : ∀ (l : List α), ∀ x ∈ l.takeWhile p, p x = true
  | [], x, hx => by simp at hx
  | a :: l, x, hx => by
    by_cases h : p a = true
    · rw [List.takeWhile_cons_of_pos h] at hx
      rcases List.mem_cons.mp hx with rfl | hx
      · exact h
      · exact all_takeWhile p l x hx
    · rw [List.takeWhile_cons_of_neg h] at hx; simp at hx

theorem dropWhile_nil_of_all {α : Type} (p : α → Bool) : ∀ (l : List α), (∀ x ∈ l, p x = true) → l.dropWhile p = []
  | [], _ => rfl
  | a :: l, h => by
    rw [List.dropWhile_cons_of_pos (h a (by simp))]
    exact dropWhile_nil_of_all p l (fun x hx => h x (List.mem_cons_of_mem _ hx))

theorem all_of_dropWhile_nil {α : Type} (p : α → Bool) : ∀ (l : List α), l.dropWhile p = [] → ∀ x ∈ l, p x = true
  | [], _, x, hx => by simp at hx
  | a :: l, h, x, hx => by
    by_cases ha : p a = true
    · rw [List.dropWhile_cons_of_pos ha] at h
      rcases List.mem_cons.mp hx with rfl | hx
      · exact ha
      · exact all_of_dropWhile_nil p l h x hx
    · rw [List.dropWhile_cons_of_neg ha] at h; simp at h

theorem dropWhile_head {α : Type} (p : α → Bool) (l : List α) :
    l.dropWhile p = [] ∨ ∃ c r, l.dropWhile p = c :: r ∧ p c = false := by
  have := List.head?_dropWhile_not p l
  cases h : l.dropWhile p with
  | nil => exact Or.inl rfl
  | cons c r => rw [h] at this; exact Or.inr ⟨c, r, rfl, by simpa using this⟩

theorem dropWhile_ne_nil_of_mem {α : Type} (p : α → Bool) (l : List α) (x : α) (hx : x ∈ l) (hp : p x = false) :
    l.dropWhile p ≠ [] := by
  intro h
  have := all_of_dropWhile_nil p l h x hx
  rw [hp] at this; cases this

/-! ### `pyRstrip` -/

theorem pyRstrip_append_of_nonspace (a b : List Char) (h : ∃ c ∈ b, pyIsSpace c = false) :
    pyRstrip (a ++ b) = a ++ pyRstrip b := by
  obtain ⟨c, hc, hs⟩ := h
  unfold pyRstrip
  rw [List.reverse_append, List.dropWhile_append]
  have : b.reverse.dropWhile pyIsSpace ≠ [] := dropWhile_ne_nil_of_mem _ _ c (by simpa using hc) hs
  have h2 : (b.reverse.dropWhile pyIsSpace).isEmpty = false := by
    cases h3 : b.reverse.dropWhile pyIsSpace with
    | nil => exact absurd h3 this
    | cons _ _ => rfl
  rw [h2]; simp

theorem pyRstrip_append_of_space (a b : List Char) (h : ∀ c ∈ b, pyIsSpace c = true) :
    pyRstrip (a ++ b) = pyRstrip a := by
  unfold pyRstrip
  rw [List.reverse_append, List.dropWhile_append]
  rw [dropWhile_nil_of_all pyIsSpace b.reverse (by intro x hx; exact h x (by simpa using hx))]
  simp

theorem pyRstrip_prefix (s : List Char) : ∃ t, s = pyRstrip s ++ t := by
  refine ⟨(s.reverse.takeWhile pyIsSpace).reverse, ?_⟩
  unfold pyRstrip
  rw [← List.reverse_append, List.takeWhile_append_dropWhile, List.reverse_reverse]

theorem cellLen_pyRstrip_le (cw : Char → Nat) (s : List Char) : cellLen cw (pyRstrip s) ≤ cellLen cw s := by
  obtain ⟨t, ht⟩ := pyRstrip_prefix s
  have := cellLen_append cw (pyRstrip s) t
  rw [← ht] at this; omega

theorem cellLen_nil (cw : Char → Nat) : cellLen cw [] = 0 := rfl
theorem cellLen_cons (cw : Char → Nat) (c : Char) (s : List Char) : cellLen cw (c :: s) = cw c + cellLen cw s := by
  simp [cellLen]

/-! ### `matchWord` -/

/-- shape of one `re_word` match -/
def IsWord (word lead body trail : List Char) : Prop :=
  word = lead ++ body ++ trail ∧ (∀ c ∈ lead, pyIsSpace c = true) ∧ (∀ c ∈ trail, pyIsSpace c = true) ∧
    body ≠ [] ∧ ∀ c ∈ body, pyIsSpace c = false

theorem matchWord_none (s : List Char) (h : matchWord s = none) : ∀ c ∈ s, pyIsSpace c = true := by
  unfold matchWord at h
  simp only at h
  split at h
  · rename_i hb
    intro c hc
    rw [← List.takeWhile_append_dropWhile (p := pyIsSpace) (l := s)] at hc
    rcases List.mem_append.mp hc with hc | hc
    · exact all_takeWhile _ _ c hc
    · exfalso
      rcases dropWhile_head pyIsSpace s with h0 | ⟨d, r, h0, hd⟩
      · rw [h0] at hc; simp at hc
      · rw [h0, List.takeWhile_cons_of_pos (by simp [hd])] at hb
        simp at hb
  · cases h

theorem matchWord_some (s word rest : List Char) (h : matchWord s = some (word, rest)) :
    s = word ++ rest ∧
    (∃ body trail, IsWord word (s.takeWhile pyIsSpace) body trail ∧ (rest ≠ [] → trail ≠ [])) ∧
    (rest = [] ∨ ∃ c r, rest = c :: r ∧ pyIsSpace c = false) := by
  unfold matchWord at h
  simp only at h
  split at h
  · cases h
  · rename_i hb
    simp only [Option.some.injEq, Prod.mk.injEq] at h
    obtain ⟨h1, h2⟩ := h
    generalize hr1 : s.dropWhile pyIsSpace = r1 at *
    generalize hr2 : r1.dropWhile (fun c => !pyIsSpace c) = r2 at *
    have e1 : s = s.takeWhile pyIsSpace ++ r1 := by rw [← hr1, List.takeWhile_append_dropWhile]
    have e2 : r1 = r1.takeWhile (fun c => !pyIsSpace c) ++ r2 := by rw [← hr2, List.takeWhile_append_dropWhile]
    have e3 : r2 = r2.takeWhile pyIsSpace ++ rest := by rw [← h2, List.takeWhile_append_dropWhile]
    refine ⟨?_, ⟨r1.takeWhile (fun c => !pyIsSpace c), r2.takeWhile pyIsSpace, ⟨?_, ?_, ?_, ?_, ?_⟩, ?_⟩, ?_⟩
    · rw [← h1]; simp only [List.append_assoc]; rw [← e3, ← e2, ← e1]
    · rw [← h1]; simp
    · exact all_takeWhile _ _
    · exact all_takeWhile _ _
    · intro h0; rw [h0] at hb; simp at hb
    · intro c hc; have := all_takeWhile _ _ c hc; simpa using this
    · intro hne htr
      apply hne
      rcases dropWhile_head (fun c => !pyIsSpace c) r1 with h0 | ⟨d, r, h0, hd⟩
      · rw [hr2] at h0; rw [← h2, h0]; rfl
      · rw [hr2] at h0
        have hd' : pyIsSpace d = true := by simpa using hd
        rw [h0, List.takeWhile_cons_of_pos hd'] at htr; simp at htr
    · rw [← h2]; exact dropWhile_head pyIsSpace r2

/-! ### the structure of `words text` -/

/-- what `words` guarantees about the triples from position `pos` on -/
def WordsAt (text : List Char) : Nat → List (Nat × Nat × List Char) → Prop
  | pos, [] => ∀ c ∈ text.drop pos, pyIsSpace c = true
  | pos, (a, b, w) :: ws => a = pos ∧ b = pos + w.length ∧ text.drop pos = w ++ text.drop b ∧
      (∃ lead body trail, IsWord w lead body trail ∧ (lead ≠ [] → pos = 0)) ∧
      (pos ≠ 0 → ∃ c, text[pos - 1]? = some c ∧ pyIsSpace c = true) ∧ WordsAt text b ws

theorem last_of_append (pre trail : List Char) (P : Char → Prop) (hne : trail ≠ []) (hP : ∀ c ∈ trail, P c) :
    ∃ c, (pre ++ trail)[(pre ++ trail).length - 1]? = some c ∧ P c := by
  have hl : 0 < trail.length := List.length_pos_iff.mpr hne
  rw [List.getElem?_append_right (by simp; omega)]
  have hi : (pre ++ trail).length - 1 - pre.length < trail.length := by simp; omega
  rw [List.getElem?_eq_getElem hi]
  exact ⟨_, rfl, hP _ (List.getElem_mem hi)⟩

theorem IsWord.ne_nil {w lead body trail : List Char} (h : IsWord w lead body trail) : w ≠ [] := by
  obtain ⟨h1, _, _, h4, _⟩ := h
  intro h0; rw [h0] at h1
  have : body = [] := by
    have := congrArg List.length h1; simp at this; exact List.eq_nil_of_length_eq_zero (by omega)
  exact h4 this

theorem IsWord.nonspace {w lead body trail : List Char} (h : IsWord w lead body trail) :
    ∃ c ∈ w, pyIsSpace c = false := by
  obtain ⟨h1, _, _, h4, h5⟩ := h
  cases body with
  | nil => exact absurd rfl h4
  | cons c r => exact ⟨c, by rw [h1]; simp, h5 c (by simp)⟩

theorem wordsFrom_at (text : List Char) : ∀ (fuel pos : Nat) (s : List Char), s = text.drop pos → s.length ≤ fuel →
    (pos ≠ 0 → s = [] ∨ ((∃ c r, s = c :: r ∧ pyIsSpace c = false) ∧
      ∃ c, text[pos - 1]? = some c ∧ pyIsSpace c = true)) →
    WordsAt text pos (wordsFrom fuel pos s)
  | 0, pos, s, hs, hf, _ => by
    have : s = [] := List.eq_nil_of_length_eq_zero (by omega)
    simp only [wordsFrom, WordsAt]
    rw [← hs, this]; simp
  | fuel + 1, pos, s, hs, hf, hp => by
    simp only [wordsFrom]
    cases hm : matchWord s with
    | none =>
      simp only [WordsAt]; rw [← hs]; exact matchWord_none s hm
    | some wr =>
      obtain ⟨w, rest⟩ := wr
      obtain ⟨h1, ⟨body, trail, hw, htr⟩, h3⟩ := matchWord_some s w rest hm
      have hwne : w ≠ [] := hw.ne_nil
      have hwl : 0 < w.length := List.length_pos_iff.mpr hwne
      have hrest : rest = text.drop (pos + w.length) := by
        rw [← List.drop_drop, ← hs, h1]; simp
      simp only [WordsAt]
      refine ⟨trivial, trivial, ?_, ⟨_, body, trail, hw, ?_⟩, ?_, ?_⟩
      · rw [← hrest, ← hs, h1]
      · intro hl
        apply Classical.byContradiction
        intro hpos
        rcases hp hpos with h0 | ⟨⟨c, r, h0, hc⟩, _⟩
        · rw [h0] at h1; cases w with
          | nil => exact hwne rfl
          | cons _ _ => cases h1
        · rw [h0, List.takeWhile_cons_of_neg (by simp [hc])] at hl; exact hl rfl
      · intro hpos
        rcases hp hpos with h0 | ⟨_, h⟩
        · rw [h0] at h1; cases w with
          | nil => exact absurd rfl hwne
          | cons _ _ => cases h1
        · exact h
      · apply wordsFrom_at text fuel (pos + w.length) rest hrest
        · have := congrArg List.length h1; simp at this; omega
        · intro _
          rcases h3 with h3 | h3
          · exact Or.inl h3
          · refine Or.inr ⟨h3, ?_⟩
            have hne : rest ≠ [] := by obtain ⟨c, r, h, _⟩ := h3; rw [h]; simp
            have htne := htr hne
            obtain ⟨hw1, _, hw3, _, _⟩ := hw
            obtain ⟨c, hc1, hc2⟩ := last_of_append (s.takeWhile pyIsSpace ++ body) trail
              (fun c => pyIsSpace c = true) htne hw3
            refine ⟨c, ?_, hc2⟩
            rw [← hw1] at hc1
            have : text[pos + w.length - 1]? = (text.drop pos)[w.length - 1]? := by
              rw [List.getElem?_drop]; congr 1; omega
            rw [this, ← hs, h1, List.getElem?_append_left (by omega)]
            exact hc1

theorem words_at (text : List Char) : WordsAt text 0 (words text) :=
  wordsFrom_at text text.length 0 text (by simp) (Nat.le_refl _) (fun h => absurd rfl h)

/-! ### an accumulator-free specification of `chop_cells` -/

/-- `(first chunk, other chunks)` of `chopLoop … s total [] []` -/
def chopS (cw : Char → Nat) (m : Nat) : List Char → Nat → List Char × List (List Char)
  | [], _ => ([], [])
  | c :: rest, total =>
    if total + cw c > m then ([], (c :: (chopS cw m rest (cw c)).1) :: (chopS cw m rest (cw c)).2)
    else (c :: (chopS cw m rest (total + cw c)).1, (chopS cw m rest (total + cw c)).2)

theorem chopLoop_eq_chopS (cw : Char → Nat) (m : Nat) : ∀ (s : List Char) (total : Nat) (cur : List Char)
    (acc : List (List Char)),
    chopLoop cw m s total cur acc = acc.reverse ++ ((cur.reverse ++ (chopS cw m s total).1) :: (chopS cw m s total).2)
  | [], _, cur, acc => by simp [chopLoop, chopS]
  | c :: rest, total, cur, acc => by
    unfold chopLoop chopS
    split
    · rw [chopLoop_eq_chopS cw m rest]; simp
    · rw [chopLoop_eq_chopS cw m rest]; simp

theorem chopCells_eq_chopS (cw : Char → Nat) (s : List Char) (m p : Nat) :
    chopCells cw s m p = (chopS cw m s p).1 :: (chopS cw m s p).2 := by
  unfold chopCells; rw [chopLoop_eq_chopS]; simp

/-- a non-empty first chunk fits in what is left of the line -/
theorem chopS_first (cw : Char → Nat) (m : Nat) : ∀ (s : List Char) (total : Nat),
    (chopS cw m s total).1 ≠ [] → total + cellLen cw (chopS cw m s total).1 ≤ m
  | [], _, h => by simp [chopS] at h
  | c :: rest, total, h => by
    unfold chopS at h ⊢
    split
    · rename_i hb; simp [hb] at h
    · rename_i hb
      simp only [cellLen_cons]
      by_cases h0 : (chopS cw m rest (total + cw c)).1 = []
      · rw [h0, cellLen_nil]; omega
      · have := chopS_first cw m rest (total + cw c) h0; omega

/-- an empty first chunk: the first character does not fit -/
theorem chopS_first_nil (cw : Char → Nat) (m : Nat) (c : Char) (rest : List Char) (total : Nat)
    (h : (chopS cw m (c :: rest) total).1 = []) : m < total + cw c := by
  unfold chopS at h
  split at h
  · assumption
  · simp at h

theorem chopS_others (cw : Char → Nat) (m : Nat) (hc : ∀ c, cw c ≤ m) : ∀ (s : List Char) (total : Nat),
    ∀ q ∈ (chopS cw m s total).2, q ≠ [] ∧ cellLen cw q ≤ m
  | [], _, q, hq => by simp [chopS] at hq
  | c :: rest, total, q, hq => by
    unfold chopS at hq
    split at hq
    · simp only at hq
      rcases List.mem_cons.mp hq with rfl | hq
      · refine ⟨by simp, ?_⟩
        rw [cellLen_cons]
        by_cases h0 : (chopS cw m rest (cw c)).1 = []
        · rw [h0, cellLen_nil]; have := hc c; omega
        · exact chopS_first cw m rest (cw c) h0
      · exact chopS_others cw m hc rest (cw c) q hq
    · exact chopS_others cw m hc rest (total + cw c) q hq

/-- a single chunk means everything fitted -/
theorem chopS_others_nil (cw : Char → Nat) (m : Nat) : ∀ (s : List Char) (total : Nat),
    (chopS cw m s total).2 = [] → s = [] ∨ total + cellLen cw s ≤ m
  | [], _, _ => Or.inl rfl
  | c :: rest, total, h => by
    unfold chopS at h
    split at h
    · simp at h
    · right
      rw [cellLen_cons]
      rcases chopS_others_nil cw m rest (total + cw c) h with h0 | h0
      · rw [h0, cellLen_nil]; omega
      · omega

theorem chopS_flatten (cw : Char → Nat) (m : Nat) (s : List Char) (total : Nat) :
    (chopS cw m s total).1 ++ (chopS cw m s total).2.flatten = s := by
  have := chop_concat cw s m total
  rw [chopCells_eq_chopS] at this
  simpa using this

/-! ### `divideStep`, branch by branch -/

theorem divideStep_fit (cw : Char → Nat) (w : Nat) (fold : Bool) (lp a b : Nat) (word : List Char)
    (h : lp + cellLen cw (pyRstrip word) ≤ w) :
    divideStep cw w fold lp (a, b, word) = (lp + cellLen cw word, []) := by
  simp only [divideStep]; rw [if_neg (by omega)]

theorem divideStep_fold (cw : Char → Nat) (w : Nat) (lp a b : Nat) (word l : List Char)
    (h : w < cellLen cw (pyRstrip word)) (hl : (chopCells cw word w lp).getLast? = some l) :
    divideStep cw w true lp (a, b, word) = (cellLen cw l, chunkOffsets a (chopCells cw word w lp)) := by
  simp only [divideStep]; rw [if_pos (by omega), if_pos (by omega)]; simp [hl]

theorem divideStep_nofold (cw : Char → Nat) (w : Nat) (lp a b : Nat) (word : List Char)
    (h : w < cellLen cw (pyRstrip word)) :
    divideStep cw w false lp (a, b, word) = (cellLen cw word, if a != 0 then [a] else []) := by
  simp only [divideStep]; rw [if_pos (by omega), if_pos (by omega)]; simp

theorem divideStep_newline (cw : Char → Nat) (w : Nat) (fold : Bool) (lp a b : Nat) (word : List Char)
    (h1 : cellLen cw (pyRstrip word) ≤ w) (h2 : w < lp + cellLen cw (pyRstrip word)) (h3 : lp ≠ 0) (h4 : a ≠ 0) :
    divideStep cw w fold lp (a, b, word) = (cellLen cw word, [a]) := by
  simp only [divideStep]; rw [if_pos (by omega), if_neg (by omega)]; simp [h3, h4]

/-! ### `chunkOffsets` -/

theorem getLast?_cons_concat {α : Type} (f : α) (init : List α) (lst : α) :
    (f :: (init ++ [lst])).getLast? = some lst := by
  rw [← List.cons_append, List.getLast?_concat]

theorem chunkOffsets_cons_ne (s : Nat) (c : List Char) (rest : List (List Char)) (h : rest ≠ []) :
    chunkOffsets s (c :: rest) = (s + c.length) :: chunkOffsets (s + c.length) rest := by
  cases rest with
  | nil => exact absurd rfl h
  | cons _ _ => rfl

theorem chunkOffsets_bounds : ∀ (cs : List (List Char)) (s : Nat), (∀ c ∈ cs, c ≠ []) →
    (chunkOffsets s cs).Pairwise (· < ·) ∧ ∀ o ∈ chunkOffsets s cs, s < o ∧ o < s + cs.flatten.length
  | [], _, _ => by simp [chunkOffsets]
  | [_], _, _ => by simp [chunkOffsets]
  | c :: c' :: rest, s, h => by
    have hc : 0 < c.length := List.length_pos_iff.mpr (h c (by simp))
    have hc' : 0 < c'.length := List.length_pos_iff.mpr (h c' (by simp))
    obtain ⟨ih1, ih2⟩ := chunkOffsets_bounds (c' :: rest) (s + c.length) (fun x hx => h x (List.mem_cons_of_mem _ hx))
    rw [chunkOffsets_cons_ne s c (c' :: rest) (by simp)]
    have hl : (c :: c' :: rest).flatten.length = c.length + (c' :: rest).flatten.length := by simp
    have hl' : 0 < (c' :: rest).flatten.length := by simp; omega
    refine ⟨List.pairwise_cons.mpr ⟨fun o ho => (ih2 o ho).1, ih1⟩, ?_⟩
    intro o ho
    rcases List.mem_cons.mp ho with rfl | ho
    · omega
    · have := ih2 o ho; omega

/-- the chunks of a word that is wider than the line -/
theorem chop_shape (cw : Char → Nat) (w : Nat) (hw : ∀ c, cw c ≤ w) (lp : Nat) (word : List Char)
    (h : w < cellLen cw (pyRstrip word)) :
    ∃ f init lst, chopCells cw word w lp = f :: (init ++ [lst]) ∧ f ++ (init ++ [lst]).flatten = word ∧
      (f ≠ [] → lp + cellLen cw f ≤ w) ∧ (f = [] → 0 < lp) ∧
      (∀ q ∈ init ++ [lst], q ≠ [] ∧ cellLen cw q ≤ w) := by
  have hlen := cellLen_pyRstrip_le cw word
  have hne : word ≠ [] := by intro h0; subst h0; simp [pyRstrip, cellLen_nil] at h
  have ho : (chopS cw w word lp).2 ≠ [] := by
    intro h0
    rcases chopS_others_nil cw w word lp h0 with h1 | h1
    · exact hne h1
    · omega
  rcases List.eq_nil_or_concat (chopS cw w word lp).2 with h0 | ⟨init, lst, h0⟩
  · exact absurd h0 ho
  · rw [List.concat_eq_append] at h0
    refine ⟨(chopS cw w word lp).1, init, lst, ?_, ?_, chopS_first cw w word lp, ?_, ?_⟩
    · rw [chopCells_eq_chopS, h0]
    · rw [← h0]; exact chopS_flatten cw w word lp
    · intro hf
      cases word with
      | nil => exact absurd rfl hne
      | cons c rest =>
        have := chopS_first_nil cw w c rest lp hf
        have := hw c; omega
    · rw [← h0]; exact chopS_others cw w hw word lp

/-! ### offsets of one step -/

theorem divideStep_offs (cw : Char → Nat) (w : Nat) (fold : Bool) (hw : ∀ c, cw c ≤ w) (lp a b : Nat)
    (word : List Char) (hne : word ≠ []) (h0 : a = 0 → lp = 0) :
    (divideStep cw w fold lp (a, b, word)).2.Pairwise (· < ·) ∧
    ∀ o ∈ (divideStep cw w fold lp (a, b, word)).2, a ≤ o ∧ 0 < o ∧ o < a + word.length ∧
      (o = a ∨ (fold = true ∧ w < cellLen cw (pyRstrip word))) := by
  have hl : 0 < word.length := List.length_pos_iff.mpr hne
  by_cases h1 : lp + cellLen cw (pyRstrip word) ≤ w
  · rw [divideStep_fit cw w fold lp a b word h1]; simp
  · by_cases h2 : w < cellLen cw (pyRstrip word)
    · cases fold with
      | false =>
        rw [divideStep_nofold cw w lp a b word h2]
        by_cases ha : a = 0
        · simp [ha]
        · have : (a != 0) = true := by simp [ha]
          rw [this]; simp; omega
      | true =>
        obtain ⟨f, init, lst, e1, e2, e3, e4, e5⟩ := chop_shape cw w hw lp word h2
        rw [divideStep_fold cw w lp a b word lst h2 (by rw [e1, getLast?_cons_concat])]
        simp only
        rw [e1, chunkOffsets_cons_ne a f (init ++ [lst]) (by simp)]
        obtain ⟨b1, b2⟩ := chunkOffsets_bounds (init ++ [lst]) (a + f.length) (fun q hq => (e5 q hq).1)
        have hlen : word.length = f.length + (init ++ [lst]).flatten.length := by rw [← e2]; simp
        have hpos : 0 < (init ++ [lst]).flatten.length := by
          have := List.length_pos_iff.mpr (e5 lst (by simp)).1
          simp; omega
        have hfa : 0 < a + f.length := by
          by_cases hf : f = []
          · have := e4 hf
            have : a ≠ 0 := fun h => by have := h0 h; omega
            omega
          · have := List.length_pos_iff.mpr hf; omega
        refine ⟨List.pairwise_cons.mpr ⟨fun o ho => (b2 o ho).1, b1⟩, ?_⟩
        intro o ho
        rcases List.mem_cons.mp ho with rfl | ho
        · exact ⟨by omega, hfa, by omega, Or.inr ⟨by trivial, h2⟩⟩
        · have := b2 o ho
          exact ⟨by omega, by omega, by omega, Or.inr ⟨by trivial, h2⟩⟩
    · by_cases h3 : lp ≠ 0 ∧ a ≠ 0
      · rw [divideStep_newline cw w fold lp a b word (by omega) (by omega) h3.1 h3.2]
        simp; omega
      · exfalso
        have : lp ≠ 0 := by omega
        have : a ≠ 0 := fun h => this (h0 h)
        exact h3 ⟨by assumption, this⟩

/-! ### (B1) and (B3) -/

theorem WordsAt_mem (text : List Char) : ∀ (ws : List (Nat × Nat × List Char)) (pos : Nat), WordsAt text pos ws →
    ∀ a b word, (a, b, word) ∈ ws → pos ≤ a ∧ b = a + word.length ∧ text.drop a = word ++ text.drop b ∧
      (∃ lead body trail, IsWord word lead body trail ∧ (lead ≠ [] → a = 0)) ∧
      (a ≠ 0 → ∃ c, text[a - 1]? = some c ∧ pyIsSpace c = true)
  | [], _, _, a, b, word, hm => by simp at hm
  | (a', b', w') :: ws, pos, h, a, b, word, hm => by
    simp only [WordsAt] at h
    obtain ⟨h1, h2, h3, h4, h5, h6⟩ := h
    rcases List.mem_cons.mp hm with hm | hm
    · simp only [Prod.mk.injEq] at hm
      obtain ⟨rfl, rfl, rfl⟩ := hm
      subst h1
      exact ⟨Nat.le_refl _, h2, h3, h4, h5⟩
    · have := WordsAt_mem text ws b' h6 a b word hm
      exact ⟨by omega, this.2⟩

theorem divideGo_offs (cw : Char → Nat) (w : Nat) (fold : Bool) (hw : ∀ c, cw c ≤ w) (text : List Char) :
    ∀ (ws : List (Nat × Nat × List Char)) (pos lp : Nat), WordsAt text pos ws → (pos = 0 → lp = 0) →
    (divideGo cw w fold lp ws).Pairwise (· < ·) ∧ ∀ o ∈ divideGo cw w fold lp ws, pos ≤ o ∧ 0 < o ∧ o < text.length ∧
      ∃ a b word, (a, b, word) ∈ ws ∧ a ≤ o ∧ o < b ∧ (o = a ∨ (fold = true ∧ w < cellLen cw (pyRstrip word)))
  | [], _, _, _, _ => by simp [divideGo]
  | (a, b, word) :: ws, pos, lp, h, h0 => by
    simp only [WordsAt] at h
    obtain ⟨h1, h2, h3, ⟨lead, body, trail, h4, _⟩, _, h6⟩ := h
    subst h1
    have hne : word ≠ [] := h4.ne_nil
    have hl : 0 < word.length := List.length_pos_iff.mpr hne
    have hlen : text.length - a = word.length + (text.length - b) := by
      have := congrArg List.length h3; simpa using this
    obtain ⟨s1, s2⟩ := divideStep_offs cw w fold hw lp a b word hne h0
    obtain ⟨i1, i2⟩ := divideGo_offs cw w fold hw text ws b (divideStep cw w fold lp (a, b, word)).1 h6
      (fun hb => by omega)
    simp only [divideGo]
    refine ⟨List.pairwise_append.mpr ⟨s1, i1, ?_⟩, ?_⟩
    · intro x hx y hy
      have := s2 x hx; have := i2 y hy; omega
    · intro o ho
      rcases List.mem_append.mp ho with ho | ho
      · have := s2 o ho
        exact ⟨by omega, by omega, by omega, a, b, word, by simp, by omega, by omega, this.2.2.2⟩
      · obtain ⟨j1, j2, j3, a', b', word', j4, j5⟩ := i2 o ho
        exact ⟨by omega, j2, j3, a', b', word', List.mem_cons_of_mem _ j4, j5⟩

/-- (B1) the offsets of `divide_line` are strictly increasing and strictly inside the text -/
theorem divideLine_offsets (cw : Char → Nat) (text : List Char) (w : Nat) (fold : Bool) (hw : ∀ c, cw c ≤ w) :
    (divideLine cw text w fold).Pairwise (· < ·) ∧ ∀ o ∈ divideLine cw text w fold, 0 < o ∧ o < text.length := by
  obtain ⟨h1, h2⟩ := divideGo_offs cw w fold hw text (words text) 0 0 (words_at text) (fun _ => rfl)
  exact ⟨h1, fun o ho => ⟨(h2 o ho).2.1, (h2 o ho).2.2.1⟩⟩

/-- (B3) an offset between two non-whitespace characters lies strictly inside a word that (together with the
indentation `re_word` gives the first word) is wider than the line, and only when folding. -/
theorem break_only_when_too_wide (cw : Char → Nat) (text : List Char) (w : Nat) (fold : Bool) (hw : ∀ c, cw c ≤ w)
    (o : Nat) (ho : o ∈ divideLine cw text w fold)
    (h1 : ∃ c, text[o - 1]? = some c ∧ pyIsSpace c = false) (_h2 : ∃ c, text[o]? = some c ∧ pyIsSpace c = false) :
    fold = true ∧ ∃ a b word, (a, b, word) ∈ words text ∧ a < o ∧ o < b ∧ word = (text.drop a).take (b - a) ∧
      w < cellLen cw (pyRstrip word) := by
  obtain ⟨_, h⟩ := divideGo_offs cw w fold hw text (words text) 0 0 (words_at text) (fun _ => rfl)
  obtain ⟨_, hpos, _, a, b, word, hm, ha, hb, hc⟩ := h o ho
  obtain ⟨_, m1, m2, _, m4⟩ := WordsAt_mem text (words text) 0 (words_at text) a b word hm
  have hoa : o ≠ a := by
    intro e
    subst e
    obtain ⟨c, hc1, hc2⟩ := m4 (by omega)
    obtain ⟨d, hd1, hd2⟩ := h1
    rw [hc1] at hd1; cases hd1; rw [hc2] at hd2; cases hd2
  rcases hc with hc | ⟨hf, hwide⟩
  · exact absurd hc hoa
  · refine ⟨hf, a, b, word, hm, by omega, hb, ?_, hwide⟩
    rw [m2, List.take_left' (by omega)]

/-! ### (B2) -/

theorem drop_of_append {α : Type} (text x y : List α) (s : Nat) (h : text.drop s = x ++ y) :
    text.drop (s + x.length) = y := by
  rw [← List.drop_drop, h]; simp

/-- the lines made of whole chunks -/
theorem pieces_chunks (Q : List Char → Prop) (text more : List Char) (tail : List Nat) :
    ∀ (init : List (List Char)) (lst : List Char) (s : Nat),
    text.drop s = (init ++ [lst]).flatten ++ more → (∀ c ∈ init, Q c) →
    (∀ p ∈ piecesFrom (s + init.flatten.length) tail text, Q p) →
    ∀ p ∈ piecesFrom s (chunkOffsets s (init ++ [lst]) ++ tail) text, Q p
  | [], lst, s, _, _, h3 => by simpa [chunkOffsets] using h3
  | c :: init, lst, s, h1, h2, h3 => by
    rw [List.cons_append, chunkOffsets_cons_ne s c (init ++ [lst]) (by simp), List.cons_append]
    simp only [piecesFrom]
    have h1' : text.drop s = c ++ ((init ++ [lst]).flatten ++ more) := by rw [h1]; simp
    intro p hp
    rcases List.mem_cons.mp hp with rfl | hp
    · rw [h1', List.take_left' (by omega)]; exact h2 c (by simp)
    · refine pieces_chunks Q text more tail init lst (s + c.length) (drop_of_append text _ _ s h1')
        (fun x hx => h2 x (List.mem_cons_of_mem _ hx)) ?_ p hp
      have : s + (c :: init).flatten.length = s + c.length + init.flatten.length := by simp; omega
      rw [← this]; exact h3

theorem divideGo_fit (cw : Char → Nat) (w : Nat) (hw : ∀ c, cw c ≤ w) (text : List Char) :
    ∀ (ws : List (Nat × Nat × List Char)) (pos p0 lp : Nat) (cur : List Char), WordsAt text pos ws →
    text.drop p0 = cur ++ text.drop pos → p0 + cur.length = pos → lp = cellLen cw cur →
    cellLen cw (pyRstrip cur) ≤ w →
    ∀ p ∈ piecesFrom p0 (divideGo cw w true lp ws) text, cellLen cw (pyRstrip p) ≤ w
  | [], pos, p0, lp, cur, h, e1, _, _, hfit => by
    simp only [WordsAt] at h
    simp only [divideGo, piecesFrom, List.mem_singleton]
    intro p hp
    rw [hp, e1, pyRstrip_append_of_space cur _ h]; exact hfit
  | (a, b, word) :: ws, pos, p0, lp, cur, h, e1, e2, e3, hfit => by
    simp only [WordsAt] at h
    obtain ⟨h1, h2, h3, ⟨lead, body, trail, h4, _⟩, _, h6⟩ := h
    subst h1
    have hne : word ≠ [] := h4.ne_nil
    have hns := h4.nonspace
    have hstrip := cellLen_pyRstrip_le cw word
    simp only [divideGo]
    by_cases c1 : lp + cellLen cw (pyRstrip word) ≤ w
    · rw [divideStep_fit cw w true lp a b word c1]
      simp only [List.nil_append]
      apply divideGo_fit cw w hw text ws b p0 (lp + cellLen cw word) (cur ++ word) h6
      · rw [e1, h3]; simp
      · simp; omega
      · rw [cellLen_append, e3]
      · rw [pyRstrip_append_of_nonspace cur word hns, cellLen_append]; omega
    · by_cases c2 : w < cellLen cw (pyRstrip word)
      · obtain ⟨f, init, lst, g1, g2, g3, g4, g5⟩ := chop_shape cw w hw lp word c2
        rw [divideStep_fold cw w lp a b word lst c2 (by rw [g1, getLast?_cons_concat])]
        simp only
        rw [g1, chunkOffsets_cons_ne a f (init ++ [lst]) (by simp), List.cons_append]
        simp only [piecesFrom]
        have h3' : text.drop a = f ++ ((init ++ [lst]).flatten ++ text.drop b) := by
          rw [h3, ← g2]; simp
        have hlen : word.length = f.length + (init.flatten.length + lst.length) := by
          rw [← g2]; simp
        intro p hp
        rcases List.mem_cons.mp hp with rfl | hp
        · have : a + f.length - p0 = cur.length + f.length := by omega
          rw [this, e1, h3', List.take_length_add_append, List.take_left' rfl]
          by_cases hf : f = []
          · rw [hf, List.append_nil]; exact hfit
          · have := g3 hf
            have := cellLen_pyRstrip_le cw (cur ++ f)
            rw [cellLen_append] at this; omega
        · have hd := drop_of_append text _ _ a h3'
          refine pieces_chunks (fun p => cellLen cw (pyRstrip p) ≤ w) text (text.drop b) _ init lst (a + f.length)
            hd ?_ ?_ p hp
          · intro c hc
            have := (g5 c (by simp [hc])).2
            have := cellLen_pyRstrip_le cw c; omega
          · have hd' : text.drop (a + f.length) = init.flatten ++ (lst ++ text.drop b) := by rw [hd]; simp
            apply divideGo_fit cw w hw text ws b (a + f.length + init.flatten.length) (cellLen cw lst) lst h6
            · rw [drop_of_append text _ _ _ hd']
            · omega
            · rfl
            · have := (g5 lst (by simp)).2
              have := cellLen_pyRstrip_le cw lst; omega
      · have hlp : lp ≠ 0 := by omega
        have ha : a ≠ 0 := by
          intro h0; apply hlp
          have : cur = [] := List.eq_nil_of_length_eq_zero (by omega)
          rw [e3, this, cellLen_nil]
        rw [divideStep_newline cw w true lp a b word (by omega) (by omega) hlp ha]
        simp only [List.cons_append, List.nil_append, piecesFrom]
        intro p hp
        rcases List.mem_cons.mp hp with rfl | hp
        · rw [e1, List.take_left' (by omega)]; exact hfit
        · exact divideGo_fit cw w hw text ws b a (cellLen cw word) word h6 h3 (by omega) rfl (by omega) p hp

/-- (B2) with folding, every line fits the width once its trailing whitespace is removed -/
theorem divideLine_pieces_fit (cw : Char → Nat) (text : List Char) (w : Nat) (hw : ∀ c, cw c ≤ w) :
    ∀ p ∈ pieces (divideLine cw text w true) text, cellLen cw (pyRstrip p) ≤ w := by
  unfold pieces divideLine
  exact divideGo_fit cw w hw text (words text) 0 0 0 [] (words_at text) (by simp) rfl rfl
    (by simp [pyRstrip, cellLen_nil])

/-! ### `words` in user terms -/

/-- every triple of `words text`: its extent, its shape `\s*\S+\s*` (leading whitespace only at offset 0) and the
whitespace character before a non-first word -/
theorem words_spec (text : List Char) (a b : Nat) (word : List Char) (h : (a, b, word) ∈ words text) :
    b = a + word.length ∧ b ≤ text.length ∧ word = (text.drop a).take (b - a) ∧
    (∃ lead body trail, word = lead ++ body ++ trail ∧ (∀ c ∈ lead, pyIsSpace c = true) ∧
      (∀ c ∈ trail, pyIsSpace c = true) ∧ body ≠ [] ∧ (∀ c ∈ body, pyIsSpace c = false) ∧ (lead ≠ [] → a = 0)) ∧
    (a ≠ 0 → ∃ c, text[a - 1]? = some c ∧ pyIsSpace c = true) := by
  obtain ⟨_, m1, m2, ⟨lead, body, trail, ⟨w1, w2, w3, w4, w5⟩, m3⟩, m4⟩ :=
    WordsAt_mem text (words text) 0 (words_at text) a b word h
  have hl : 0 < word.length := List.length_pos_iff.mpr (IsWord.ne_nil ⟨w1, w2, w3, w4, w5⟩)
  refine ⟨m1, ?_, ?_, ⟨lead, body, trail, w1, w2, w3, w4, w5, m3⟩, m4⟩
  · have := congrArg List.length m2; simp at this; omega
  · rw [m2, List.take_left' (by omega)]

theorem WordsAt_adjacent (text : List Char) : ∀ (l1 : List (Nat × Nat × List Char)) (pos : Nat)
    (t1 t2 : Nat × Nat × List Char) (l2 : List (Nat × Nat × List Char)),
    WordsAt text pos (l1 ++ t1 :: t2 :: l2) → t2.1 = t1.2.1
  | [], _, (_, _, _), (_, _, _), _, h => by
    simp only [List.nil_append, WordsAt] at h
    exact h.2.2.2.2.2.1
  | (_, _, _) :: l1, _, t1, t2, l2, h => by
    simp only [List.cons_append, WordsAt] at h
    exact WordsAt_adjacent text l1 _ t1 t2 l2 h.2.2.2.2.2

/-- consecutive words are adjacent -/
theorem words_adjacent (text : List Char) (l1 l2 : List (Nat × Nat × List Char)) (t1 t2 : Nat × Nat × List Char)
    (h : words text = l1 ++ t1 :: t2 :: l2) : t2.1 = t1.2.1 :=
  WordsAt_adjacent text l1 0 t1 t2 l2 (h ▸ words_at text)

theorem WordsAt_cover (text : List Char) : ∀ (ws : List (Nat × Nat × List Char)) (pos : Nat), WordsAt text pos ws →
    ∃ tl, text.drop pos = (ws.map (·.2.2)).flatten ++ tl ∧ ∀ c ∈ tl, pyIsSpace c = true
  | [], pos, h => ⟨text.drop pos, by simp, h⟩
  | (a, b, w) :: ws, pos, h => by
    simp only [WordsAt] at h
    obtain ⟨tl, h1, h2⟩ := WordsAt_cover text ws b h.2.2.2.2.2
    exact ⟨tl, by rw [h.2.2.1, h1]; simp, h2⟩

/-- the words, in order, make up the text but for a whitespace-only remainder; the first starts at 0 -/
theorem words_cover (text : List Char) :
    (∃ tl, text = ((words text).map (·.2.2)).flatten ++ tl ∧ ∀ c ∈ tl, pyIsSpace c = true) ∧
    ∀ t ∈ (words text).head?, t.1 = 0 := by
  refine ⟨by simpa using WordsAt_cover text (words text) 0 (words_at text), ?_⟩
  have := words_at text
  cases h : words text with
  | nil => simp
  | cons t ws =>
    obtain ⟨a, b, w⟩ := t
    rw [h] at this
    simp only [WordsAt] at this
    simp [this.1]

/-! ### concrete instances -/

example : words "  ab  cd e".toList = [(0, 6, "  ab  ".toList), (6, 9, "cd ".toList), (9, 10, "e".toList)] := by decide
example : divideLine (fun _ => 1) "ab cdefghijk".toList 4 true = [4, 8] := by decide
example : divideLine (fun _ => 1) "ab cdefghijk".toList 4 false = [3] := by decide
example : divideLine (fun _ => 1) "ab    cdefghij k".toList 4 true = [6, 10, 14] := by decide
example : pieces (divideLine (fun _ => 1) "ab    cdefghij k".toList 4 true) "ab    cdefghij k".toList =
    ["ab    ".toList, "cdef".toList, "ghij".toList, " k".toList] := by decide
/-- double-width characters: the hypothesis of (B1)-(B3) holds and the lines are as (B2) says -/
example : (∀ c, (fun c : Char => if c = 'W' then 2 else 1) c ≤ 4) ∧
    pieces (divideLine (fun c => if c = 'W' then 2 else 1) "  aWWb  WWWc d".toList 4 true) "  aWWb  WWWc d".toList =
      ["  a".toList, "WW".toList, "b  ".toList, "WW".toList, "Wc ".toList, "d".toList] :=
  ⟨fun c => by simp only; split <;> omega, by decide⟩

end Wrap
end RichModel
