import RichModel.Lemmas.WrapStages
import RichModel.Lemmas.WrapPieces
/-!
One paragraph through `wrapLine` with folding: assembling `divide` (cut the styled string into pieces), the
per-line stages (`Lemmas/WrapStages.lean`) and the fact that every piece fits once stripped.
The facts about `divide` and `divideLine` enter as hypotheses here; `Props/C02.lean` discharges them with
`Text.divide_view` (`Lemmas/WrapDivide.lean`) and `divideLine_pieces_fit` (`Lemmas/WrapLine.lean`).
-/
namespace RichModel
namespace Wrap
open Text
variable {σ : Type}
variable {chars : Bool}

theorem nsv_flatMap_congr {β : Type} (f g : Text σ → List (Char × β)) : ∀ (ls : List (Text σ)),
    (∀ l ∈ ls, nsv (f l) = nsv (g l)) → nsv (ls.flatMap f) = nsv (ls.flatMap g)
  | [], _ => rfl
  | l :: ls, h => by
    simp only [List.flatMap_cons, nsv_append]
    rw [h l (by simp), nsv_flatMap_congr f g ls (fun x hx => h x (List.mem_cons_of_mem _ hx))]

/-- a paragraph `P` (no newline, tabs expanded) wrapped with folding, in the four justify modes that treat lines
separately: given that `divide` cuts the styled string at the offsets and that every piece fits once stripped,
the lines show exactly the non-whitespace characters of `P`, in order, each with the style it has in `P`. -/
theorem wrapLine_fold_ink [BEq σ] (cw : Char → Nat) (hsp : cw ' ' = 1) (h2 : ∀ c, cw c ≤ 2) (A : StyleAlg σ) (w : Nat)
    (j : Justify) (hj : j ≠ Justify.full) (P : Text σ) (lines : List (Text σ))
    (hasc : AscFrom 0 (divideLine cw P.plain w true))
    (hdiv : P.divide Variant.repaired (divideLine cw P.plain w true) = .ok lines)
    (hview : lines.map Text.view = pieces (divideLine cw P.plain w true) P.view)
    (hplain : lines.map (·.plain) = pieces (divideLine cw P.plain w true) P.plain)
    (hinv : ∀ l ∈ lines, Inv l)
    (hfit : ∀ p ∈ pieces (divideLine cw P.plain w true) P.plain, cellLen cw (pyRstrip p) ≤ w) :
    wrapLine (WVariant.fixed chars) cw A P w j Overflow.fold false
        = .ok (lines.map (finishLine (WVariant.fixed chars) cw w j Overflow.fold)) ∧
      nsv ((lines.map (finishLine (WVariant.fixed chars) cw w j Overflow.fold)).flatMap Text.view) = nsv P.view ∧
      ∀ l ∈ lines.map (finishLine (WVariant.fixed chars) cw w j Overflow.fold), Inv l := by
  have hl : ∀ l ∈ lines, SameInk l (finishLine (WVariant.fixed chars) cw w j Overflow.fold l) := by
    intro l hl
    apply finishLine_fold_sameInk cw hsp h2 w j hj l (hinv l hl)
    apply hfit
    rw [← hplain]; exact List.mem_map_of_mem hl
  refine ⟨?_, ?_, ?_⟩
  · unfold wrapLine
    simp only [Bool.false_eq_true, if_false, show (Overflow.fold == Overflow.fold) = true from rfl]
    show (P.divide Variant.repaired _ >>= _) = _
    rw [hdiv]
    simp only [bind, Except.bind]
    rw [justifyLines_map _ _ _ _ _ _ _ hj]
    simp only [List.map_map]
    rfl
  · rw [List.flatMap_map]
    rw [nsv_flatMap_congr _ Text.view lines (fun l hl' => (hl l hl').ink)]
    rw [List.flatMap_def, hview]
    rw [pieces_flatten _ _ hasc]
  · intro l hl'
    obtain ⟨l0, hl0, rfl⟩ := List.mem_map.mp hl'
    exact (hl l0 hl0).inv

end Wrap
end RichModel
