import RichModel.Lemmas.Pretty
/-!
Helper lemmas for `traverse` (property C16): totality on every well-formed heap (cycles included),
unfolding on containers, well-formedness of the produced tree, abbreviation shape.
-/
namespace RichModel.Pretty
open RichModel

theorem optList_length {α} : ∀ (l : List (Option α)) (r : List α), optList l = some r → r.length = l.length
  | [], r, h => by simp [optList] at h; subst h; rfl
  | none :: _, r, h => by simp [optList] at h
  | some a :: t, r, h => by
    simp only [optList, Option.map_eq_some_iff] at h
    obtain ⟨r', hr', rfl⟩ := h
    simp [optList_length t r' hr']

theorem optList_isSome {α} : ∀ (l : List (Option α)), (∀ x ∈ l, x.isSome = true) → (optList l).isSome = true
  | [], _ => rfl
  | none :: _, h => by simpa using h none (by simp)
  | some a :: t, h => by
    have := optList_isSome t (fun x hx => h x (by simp [hx]))
    simp only [optList, Option.isSome_map]
    exact this

theorem enum_length {α} : ∀ (i : Nat) (l : List α), (enum i l).length = l.length
  | _, [] => rfl
  | i, _ :: t => by simp [enum, enum_length (i + 1) t]

theorem mem_enum {α} : ∀ (i : Nat) (l : List α) (p : Nat × α), p ∈ enum i l → p.2 ∈ l
  | _, [], p, h => by simp [enum] at h
  | i, a :: t, p, h => by
    simp only [enum, List.mem_cons] at h
    rcases h with rfl | h
    · simp
    · exact List.mem_cons_of_mem _ (mem_enum (i + 1) t p h)

theorem shown_length {α} (ml : Option Nat) (items : List α) :
    (shown ml items).length = match ml with | some m => min m items.length | none => items.length := by
  cases ml <;> simp [shown]

theorem mem_shown {α} (ml : Option Nat) (items : List α) (x : α) (h : x ∈ shown ml items) : x ∈ items := by
  cases ml with
  | none => exact h
  | some m => exact List.mem_of_mem_take h

theorem nodup_bound (l : List Nat) (n : Nat) (hd : l.Nodup) (hb : ∀ x ∈ l, x < n) : l.length ≤ n := by
  have := List.Nodup.length_le_of_subset (l₂ := List.range n) hd (fun x hx => List.mem_range.mpr (hb x hx))
  simpa using this

/-- references stay inside the heap. -/
def HeapOk (h : Heap) : Prop :=
  ∀ o ∈ h, match o with
    | .leaf _ _ => True
    | .seq _ _ items => ∀ r ∈ items, r < h.length
    | .map _ _ items => ∀ kr ∈ items, kr.2 < h.length

theorem traverseObj_isSome (cfg : TravCfg) (h : Heap) (hok : HeapOk h) :
    ∀ (fuel : Nat) (visited : List Nat) (id : Nat) (root : Bool), id < h.length → visited.Nodup →
      (∀ v ∈ visited, v < h.length) → h.length + 1 ≤ fuel + visited.length →
      (traverseObj cfg h fuel visited id root).isSome = true := by
  intro fuel
  induction fuel with
  | zero =>
    intro visited id root _ hd hb hf
    have := nodup_bound visited h.length hd hb
    omega
  | succ fuel ih =>
    intro visited id root hid hd hb hf
    have hget : h[id]? = some h[id] := List.getElem?_eq_getElem hid
    have hmem : h[id] ∈ h := List.getElem_mem hid
    rw [traverseObj, hget]
    cases ho : h[id] with
    | leaf l t => simp
    | seq k aux items =>
      simp only
      have hrefs : ∀ r ∈ items, r < h.length := by have := hok _ hmem; rw [ho] at this; exact this
      split
      · rfl
      · rename_i hv
        split
        · rfl
        · have hsome := optList_isSome
            ((enum 0 (shown cfg.maxLength items)).map fun (p : Nat × Nat) =>
              (traverseObj cfg h fuel (id :: visited) p.2 false).map (·.setLast (p.1 == items.length - 1))) (by
            intro x hx
            simp only [List.mem_map] at hx
            obtain ⟨p, hp, rfl⟩ := hx
            rw [Option.isSome_map]
            apply ih
            · exact hrefs _ (mem_shown _ _ _ (mem_enum _ _ _ hp))
            · simp only [List.nodup_cons]; exact ⟨by simpa using hv, hd⟩
            · intro v hv'; simp only [List.mem_cons] at hv'; rcases hv' with rfl | h'; exact hid; exact hb v h'
            · simp; omega)
          cases hopt : optList ((enum 0 (shown cfg.maxLength items)).map fun (p : Nat × Nat) =>
              (traverseObj cfg h fuel (id :: visited) p.2 false).map (·.setLast (p.1 == items.length - 1))) with
          | none => rw [hopt] at hsome; cases hsome
          | some kids => simp_all
    | map k aux items =>
      simp only
      have hrefs : ∀ kr ∈ items, kr.2 < h.length := by have := hok _ hmem; rw [ho] at this; exact this
      split
      · rfl
      · rename_i hv
        split
        · rfl
        · have hsome := optList_isSome
            ((enum 0 (shown cfg.maxLength items)).map fun (p : Nat × (Leaf × Nat)) =>
              (traverseObj cfg h fuel (id :: visited) p.2.2 false).map
                (·.setKeyLast (toRepr cfg.pyRepr cfg.maxString p.2.1) (p.1 == items.length - 1))) (by
            intro x hx
            simp only [List.mem_map] at hx
            obtain ⟨p, hp, rfl⟩ := hx
            rw [Option.isSome_map]
            apply ih
            · exact hrefs _ (mem_shown _ _ _ (mem_enum _ _ _ hp))
            · simp only [List.nodup_cons]; exact ⟨by simpa using hv, hd⟩
            · intro v hv'; simp only [List.mem_cons] at hv'; rcases hv' with rfl | h'; exact hid; exact hb v h'
            · simp; omega)
          cases hopt : optList ((enum 0 (shown cfg.maxLength items)).map fun (p : Nat × (Leaf × Nat)) =>
              (traverseObj cfg h fuel (id :: visited) p.2.2 false).map
                (·.setKeyLast (toRepr cfg.pyRepr cfg.maxString p.2.1) (p.1 == items.length - 1))) with
          | none => rw [hopt] at hsome; cases hsome
          | some kids => simp_all

theorem traverse_isSome (cfg : TravCfg) (h : Heap) (hok : HeapOk h) (root : Nat) (hr : root < h.length) :
    (traverse cfg h root).isSome = true :=
  traverseObj_isSome cfg h hok _ [] root true hr (by simp) (by simp) (by simp)


theorem optList_mem {α} : ∀ (l : List (Option α)) (r : List α), optList l = some r → ∀ y ∈ r, some y ∈ l
  | [], r, h, y, hy => by simp [optList] at h; subst h; simp at hy
  | none :: _, r, h, _, _ => by simp [optList] at h
  | some a :: t, r, h, y, hy => by
    simp only [optList, Option.map_eq_some_iff] at h
    obtain ⟨r', hr', rfl⟩ := h
    simp only [List.mem_cons] at hy
    rcases hy with rfl | hy
    · simp
    · exact List.mem_cons_of_mem _ (optList_mem t r' hr' y hy)

theorem wfList_iff (l : List Node) : wfList l = true ↔ ∀ x ∈ l, x.wf = true := by
  induction l with
  | nil => simp [wfList]
  | cons a t ih => simp [wfList, ih]

theorem wf_setLast (n : Node) (b : Bool) : (n.setLast b).wf = n.wf := by
  cases n; simp [Node.setLast, Node.wf]
theorem wf_setKeyLast (n : Node) (k : Str) (b : Bool) : (n.setKeyLast k b).wf = n.wf := by
  cases n; simp [Node.setKeyLast, Node.wf]

theorem wfList_withMore (ml : Option Nat) (N : Nat) (kids : List Node) (h : wfList kids = true) :
    wfList (withMore ml N kids) = true := by
  rw [wfList_iff] at *
  cases ml with
  | none => exact h
  | some m =>
    simp only [withMore]
    split
    · intro x hx
      simp only [List.mem_append, List.mem_singleton] at hx
      rcases hx with hx | rfl
      · exact h x hx
      · simp [moreMarker, Node.wf, wfList]
    · exact h

/-- unfolding of `_traverse` on an unvisited non-empty sequence container -/
theorem traverseObj_seq (cfg : TravCfg) (h : Heap) (fuel : Nat) (visited : List Nat) (id : Nat) (root : Bool)
    (k : SeqKind) (aux : Str) (items : List Nat) (n : Node)
    (hget : h[id]? = some (.seq k aux items)) (hv : visited.contains id = false) (hne : items.isEmpty = false)
    (hres : traverseObj cfg h (fuel + 1) visited id root = some n) :
    ∃ kids, optList ((enum 0 (shown cfg.maxLength items)).map fun (p : Nat × Nat) =>
        (traverseObj cfg h fuel (id :: visited) p.2 false).map (·.setLast (p.1 == items.length - 1))) = some kids ∧
      n = .mk [] [] (seqBraces cfg.variant k aux).1 (seqBraces cfg.variant k aux).2.1 [] root (k == .tuple) true
        (withMore cfg.maxLength items.length kids) := by
  rw [traverseObj, hget] at hres
  simp only [hv, hne, Bool.false_eq_true, if_false] at hres
  split at hres
  · cases hres
  · rename_i kids hk
    exact ⟨kids, hk, by cases hres; rfl⟩

theorem traverseObj_map (cfg : TravCfg) (h : Heap) (fuel : Nat) (visited : List Nat) (id : Nat) (root : Bool)
    (k : MapKind) (aux : Str) (items : List (Leaf × Nat)) (n : Node)
    (hget : h[id]? = some (.map k aux items)) (hv : visited.contains id = false) (hne : items.isEmpty = false)
    (hres : traverseObj cfg h (fuel + 1) visited id root = some n) :
    ∃ kids, optList ((enum 0 (shown cfg.maxLength items)).map fun (p : Nat × (Leaf × Nat)) =>
        (traverseObj cfg h fuel (id :: visited) p.2.2 false).map
          (·.setKeyLast (toRepr cfg.pyRepr cfg.maxString p.2.1) (p.1 == items.length - 1))) = some kids ∧
      n = .mk [] [] (mapBraces k aux).1 (mapBraces k aux).2.1 [] root false true
        (withMore cfg.maxLength items.length kids) := by
  rw [traverseObj, hget] at hres
  simp only [hv, hne, Bool.false_eq_true, if_false] at hres
  split at hres
  · cases hres
  · rename_i kids hk
    exact ⟨kids, hk, by cases hres; rfl⟩

theorem traverseObj_wf (cfg : TravCfg) (h : Heap) :
    ∀ (fuel : Nat) (visited : List Nat) (id : Nat) (root : Bool) (n : Node),
      traverseObj cfg h fuel visited id root = some n → n.wf = true := by
  intro fuel
  induction fuel with
  | zero => intro _ _ _ n hres; simp [traverseObj] at hres
  | succ fuel ih =>
    intro visited id root n hres
    cases hget : h[id]? with
    | none => rw [traverseObj, hget] at hres; cases hres
    | some o =>
      cases o with
      | leaf l t =>
        rw [traverseObj, hget] at hres
        cases hres; simp [Node.wf, wfList]
      | seq k aux items =>
        cases hv : visited.contains id with
        | true =>
          rw [traverseObj, hget] at hres
          simp only [hv, if_true] at hres
          cases hres; simp [cycleMarker, Node.wf, wfList]
        | false =>
          cases hne : items.isEmpty with
          | true =>
            rw [traverseObj, hget] at hres
            simp only [hv, hne, Bool.false_eq_true, if_false, if_true] at hres
            cases hres; simp [Node.wf, wfList]
          | false =>
            obtain ⟨kids, hk, rfl⟩ := traverseObj_seq cfg h fuel visited id root k aux items n hget hv hne hres
            have hw : wfList kids = true := by
              rw [wfList_iff]
              intro y hy
              have := optList_mem _ _ hk y hy
              simp only [List.mem_map] at this
              obtain ⟨p, _, hp⟩ := this
              rw [Option.map_eq_some_iff] at hp
              obtain ⟨n0, hn0, rfl⟩ := hp
              rw [wf_setLast]; exact ih _ _ _ _ hn0
            simp [Node.wf, wfList_withMore _ _ _ hw]
      | map k aux items =>
        cases hv : visited.contains id with
        | true =>
          rw [traverseObj, hget] at hres
          simp only [hv, if_true] at hres
          cases hres; simp [cycleMarker, Node.wf, wfList]
        | false =>
          cases hne : items.isEmpty with
          | true =>
            rw [traverseObj, hget] at hres
            simp only [hv, hne, Bool.false_eq_true, if_false, if_true] at hres
            cases hres; simp [Node.wf, wfList]
          | false =>
            obtain ⟨kids, hk, rfl⟩ := traverseObj_map cfg h fuel visited id root k aux items n hget hv hne hres
            have hw : wfList kids = true := by
              rw [wfList_iff]
              intro y hy
              have := optList_mem _ _ hk y hy
              simp only [List.mem_map] at this
              obtain ⟨p, _, hp⟩ := this
              rw [Option.map_eq_some_iff] at hp
              obtain ⟨n0, hn0, rfl⟩ := hp
              rw [wf_setKeyLast]; exact ih _ _ _ _ hn0
            simp [Node.wf, wfList_withMore _ _ _ hw]

theorem withMore_eq (ml : Option Nat) (N : Nat) (kids : List Node) :
    withMore ml N kids = kids ++ (match ml with
      | some m => if N > m then [moreMarker (N - m)] else []
      | none => []) := by
  cases ml with
  | none => simp [withMore]
  | some m => simp only [withMore]; split <;> simp


end RichModel.Pretty
