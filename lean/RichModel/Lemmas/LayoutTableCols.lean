import RichModel.Lemmas.LayoutTable
/-!
**`Columns` never overflows** (segment level): the inner `Table.grid` of `columnsConsole` is a table with at
least one and at most `len(items)` columns, all free to wrap (no `Columns(width=…)`: the grid's columns have no `width`; they never
have a ratio), so `tableConsole_decomp` applies.
-/
namespace RichModel.Layout
open RichModel RichModel.Frames

/-! ### the column count never grows -/

theorem tb_searchInner_le (wp mw : Int) (c : Nat) (hc : 0 < c) :
    ∀ (items : List (Int × Option Nat)) (ws : List Int) (colNo k : Nat),
      ws.length ≤ c → colNo < c → searchInner wp mw c items ws colNo = some k → k ≤ c := by
  intro items
  induction items with
  | nil => intro ws colNo k _ _ h; simp [searchInner] at h
  | cons it rest ih =>
    intro ws colNo k hws hcol h
    obtain ⟨rw', x⟩ := it
    unfold searchInner at h
    simp only at h
    generalize hws' : (if colNo < ws.length then ws.set colNo (max (ws.getD colNo 0) rw') else ws ++ [max 0 rw']) = ws' at h
    have hlen' : ws'.length ≤ c := by
      subst hws'
      split
      · simp; omega
      · simp; omega
    split at h
    · cases h; omega
    · exact ih ws' _ k hlen' (Nat.mod_lt _ hc) h

theorem tb_searchLoop_le (cf : Bool) (widths : List Int) (wp mw : Int) :
    ∀ (fuel c : Nat), searchLoop cf widths wp mw fuel c ≤ c := by
  intro fuel
  induction fuel with
  | zero => intro c; exact Nat.le_refl c
  | succ fuel ih =>
    intro c
    unfold searchLoop
    split
    · rename_i hc
      split
      · exact Nat.le_refl c
      · rename_i items _
        split
        · rename_i c' hc'
          have h1 := tb_searchInner_le wp mw c (by omega) items [] 0 c' (by simp) (by omega) hc'
          exact Nat.le_trans (ih c') h1
        · exact Nat.le_refl c
    · exact Nat.le_refl c

theorem tb_columnCount_le (v : Frames.Variant) (o : ColumnsOpts) (measured : List Int) (maxWidth : Int) (L : ColumnsLayout)
    (hwn : o.width = none) (h : columnsLayout v o measured maxWidth = .ok (some L)) :
    0 < L.columnCount ∧ L.columnCount ≤ measured.length := by
  obtain ⟨p, _, _, hcnt, hpos, _⟩ := columnsLayout_ok h
  refine ⟨hpos, ?_⟩
  unfold columnsCount at hcnt
  rw [hwn] at hcnt
  simp only [Except.ok.injEq] at hcnt
  rw [← hcnt]
  exact tb_searchLoop_le _ _ _ _ _ _

/-! ### the cells of the grid -/

theorem tb_dfltCh_ok : tb_MeasOk dfltCh := by
  intro k; exact Int.le_refl 0

theorem tb_textChild_ok (cfg : Cfg) (t : T) (o : Opts) : tb_MeasOk (textChild cfg t o) := by
  intro k
  exact tb_getPost_max_nonneg _ _

theorem tb_getD_items_ok (items : List Ch) (h : ∀ ch ∈ items, tb_MeasOk ch) (i : Nat) : tb_MeasOk (items.getD i dfltCh) := by
  rcases tb_getD_mem_or items i dfltCh with h0 | h0
  · rw [h0]; exact tb_dfltCh_ok
  · exact h _ h0

/-- **Columns.**  No explicit `width`, items with sound measurements (`0 ≤ maximum ≤ available`), at least one cell per item
available: the output is the poison (bad `padding` tuple), nothing (no items), or title ++ body where the body is a sequence of
complete lines none wider than the available width. -/
theorem columnsConsole_decomp (cfg : Cfg) (hcw : cfg.cw = cwD) (hfl : cfg.fl.leadingRepeat = false)
    (o : ColsOpts) (opts : Opts) (items : List Ch) (w : Nat) (hw1 : 1 ≤ w) (hwn : o.lay.width = none)
    (hmeas : ∀ ch ∈ items, ∀ k : Nat, 0 ≤ (ch.measure k).maximum ∧ (ch.measure k).maximum ≤ (k : Int))
    (hlen : items.length ≤ w) :
    columnsConsole cfg o opts items w = cfg.poison ∨ columnsConsole cfg o opts items w = [] ∨
    ∃ (tw : Int) (body : List Seg), tw ≤ (w : Int) ∧
      columnsConsole cfg o opts items w = annotation cfg o.title Justify.center opts tw ++ body ∧
      (∀ l ∈ splitLines body, lineLength cfg.cw l ≤ w) ∧ Closed body := by
  have _ := hw1
  have hitems : ∀ ch ∈ items, tb_MeasOk ch := fun ch hch k => (hmeas ch hch k).1
  unfold columnsConsole
  cases hp : unpackPad o.lay.padding with
  | error e => left; rfl
  | ok p =>
    simp only
    cases hlay : columnsLayout cfg.v o.lay (items.map (fun c => (c.measureAt (w : Int)).maximum)) (w : Int) with
    | error e => left; rfl
    | ok r =>
      cases r with
      | none => right; left; rfl
      | some lay =>
        right; right
        simp only
        obtain ⟨hpos, hle⟩ := tb_columnCount_le cfg.v o.lay _ _ lay hwn hlay
        rw [List.length_map] at hle
        generalize hcols : (List.map _ (List.range lay.columnCount) : List ColS) = cols
        have hcl : cols.length = lay.columnCount := by rw [← hcols]; simp
        have hne : cols ≠ [] := by
          intro h0; rw [h0] at hcl; simp at hcl; omega
        have hte : tableExtra (o.grid p) cols.length = 0 := by simp [tableExtra, ColsOpts.grid]
        have hgw : (o.grid p).width = none := rfl
        obtain ⟨tw, body, h1, h2, h3, h4⟩ := tableConsole_decomp cfg hcw hfl (o.grid p) opts cols w hne
          (by
            intro c hc
            rw [← hcols] at hc
            obtain ⟨j, _, rfl⟩ := List.mem_map.mp hc
            refine ⟨⟨?_, rfl, rfl⟩, Or.inr (Or.inr ?_)⟩
            · show o.lay.width.map Int.toNat = none
              rw [hwn]; rfl
            · show (none : Option Nat) ≠ some 0
              intro h; cases h)
          (by
            intro c hc
            rw [← hcols] at hc
            obtain ⟨j, _, rfl⟩ := List.mem_map.mp hc
            intro ch hch
            simp only [List.mem_cons, List.mem_map] at hch
            rcases hch with rfl | rfl | ⟨row, _, rfl⟩
            · exact tb_textChild_ok _ _ _
            · exact tb_textChild_ok _ _ _
            · cases row.getD j none with
              | none => exact tb_textChild_ok _ _ _
              | some i =>
                simp only
                cases o.align with
                | some a => exact tb_asChild_ok _ _
                | none =>
                  simp only
                  split
                  · exact tb_asChild_ok _ _
                  · exact tb_getD_items_ok items hitems i)
          (by rw [hte]; omega)
          (by intro tw' htw; rw [hgw] at htw; cases htw)
        refine ⟨tw, body, h1, ?_, h3, h4⟩
        rw [h2]
        exact List.append_nil _

end RichModel.Layout
