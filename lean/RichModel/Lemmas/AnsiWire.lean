import RichModel.Lemmas.AnsiTerm
/-!
Lemmas for property C03, the wire format: the terminal's reading (`tokenize`) of what `serialise`
writes is the token list itself (up to merging adjacent text runs), for every token list whose text
contains no ESC and whose hyperlink fields contain no `;` / ESC / BEL where the format forbids them.
Decimal digits: `Nat.ofDigitChars_toDigits` of core.  Core Lean only.
-/
namespace RichModel.AnsiTerm

/-! ## scanning helpers -/

theorem takeWhileP_append (p : Char → Bool) (a : List Char) (c : Char) (r : List Char)
    (ha : ∀ x ∈ a, p x = true) (hc : p c = false) : takeWhileP p (a ++ c :: r) = (a, c :: r) := by
  induction a with
  | nil => simp [takeWhileP, hc]
  | cons x xs ih =>
    have hx := ha x (by simp)
    have ih' := ih (fun y hy => ha y (by simp [hy]))
    simp [takeWhileP, hx, ih']

theorem splitSemi_ne_nil (s : List Char) : splitSemi s ≠ [] := by
  induction s with
  | nil => simp [splitSemi]
  | cons c cs ih =>
    unfold splitSemi
    split
    · simp
    · split <;> simp

theorem splitSemi_noSemi (a : List Char) (h : ';' ∉ a) : splitSemi a = [a] := by
  induction a with
  | nil => rfl
  | cons c cs ih =>
    have hc : c ≠ ';' := fun e => h (by simp [e])
    have ih' := ih (fun hm => h (by simp [hm]))
    simp [splitSemi, hc, ih']

theorem splitSemi_append (a b : List Char) (h : ';' ∉ a) : splitSemi (a ++ ';' :: b) = a :: splitSemi b := by
  induction a with
  | nil => simp [splitSemi]
  | cons c cs ih =>
    have hc : c ≠ ';' := fun e => h (by simp [e])
    have ih' := ih (fun hm => h (by simp [hm]))
    simp [splitSemi, hc, ih']

theorem joinSemi_single (a : List Char) : joinSemi [a] = a := rfl

theorem joinSemi_cons2 (a b : List Char) (rest : List (List Char)) :
    joinSemi (a :: b :: rest) = a ++ ';' :: joinSemi (b :: rest) := rfl

theorem splitSemi_joinSemi (ds : List (List Char)) (hne : ds ≠ []) (h : ∀ d ∈ ds, ';' ∉ d) :
    splitSemi (joinSemi ds) = ds := by
  induction ds with
  | nil => exact absurd rfl hne
  | cons a rest ih =>
    cases rest with
    | nil => rw [joinSemi_single]; exact splitSemi_noSemi a (h a (by simp))
    | cons b rest' =>
      rw [joinSemi_cons2, splitSemi_append _ _ (h a (by simp)), ih (by simp) (fun d hd => h d (by simp [hd]))]

theorem mem_joinSemi (ds : List (List Char)) (c : Char) (h : c ∈ joinSemi ds) : c = ';' ∨ ∃ d ∈ ds, c ∈ d := by
  induction ds with
  | nil => simp [joinSemi] at h
  | cons a rest ih =>
    cases rest with
    | nil => rw [joinSemi_single] at h; exact Or.inr ⟨a, by simp, h⟩
    | cons b rest' =>
      rw [joinSemi_cons2] at h
      simp only [List.mem_append, List.mem_cons] at h
      rcases h with h | h | h
      · exact Or.inr ⟨a, by simp, h⟩
      · exact Or.inl h
      · rcases ih h with h' | ⟨d, hd, hc⟩
        · exact Or.inl h'
        · exact Or.inr ⟨d, by simp [hd], hc⟩

theorem joinSemi_ne_nil (a : List Char) (rest : List (List Char)) (ha : a ≠ []) : joinSemi (a :: rest) ≠ [] := by
  cases rest with
  | nil => rw [joinSemi_single]; exact ha
  | cons b r => rw [joinSemi_cons2]; simp [ha]

/-! ## decimal parameters -/

theorem natDigits_isDigit (n : Nat) (c : Char) (h : c ∈ natDigits n) : c.isDigit = true :=
  Nat.isDigit_of_mem_toDigits (by decide) (by decide) h

theorem natDigits_ne_nil (n : Nat) : natDigits n ≠ [] := Nat.toDigits_ne_nil

theorem isDigit_ne_semi (c : Char) (h : c.isDigit = true) : c ≠ ';' := by
  intro e; subst e; revert h; decide

theorem parseParam_natDigits (n : Nat) : parseParam (natDigits n) = n :=
  Nat.ofDigitChars_toDigits (by decide) (by decide)

theorem parseParams_joinSemi (ps : List Nat) : parseParams (joinSemi (ps.map natDigits)) = ps := by
  cases ps with
  | nil => rfl
  | cons p rest =>
    have hne : joinSemi ((p :: rest).map natDigits) ≠ [] := by
      rw [List.map_cons]; exact joinSemi_ne_nil _ _ (natDigits_ne_nil p)
    have hemp : (joinSemi ((p :: rest).map natDigits)).isEmpty = false := by
      cases hj : joinSemi ((p :: rest).map natDigits) with
      | nil => exact absurd hj hne
      | cons _ _ => rfl
    unfold parseParams
    rw [hemp]
    simp only [Bool.false_eq_true, if_false]
    rw [splitSemi_joinSemi _ (by simp)]
    · rw [List.map_map]
      have : (parseParam ∘ natDigits) = id := by funext n; exact parseParam_natDigits n
      rw [this, List.map_id]
    · intro d hd hsemi
      simp only [List.mem_map] at hd
      obtain ⟨n, _, rfl⟩ := hd
      exact isDigit_ne_semi _ (natDigits_isDigit n _ hsemi) rfl

/-! ## one sequence -/

theorem scanSgr_serialised (ps : List Nat) (rest : List Char) :
    scanSgr (joinSemi (ps.map natDigits) ++ 'm' :: rest) = some (ps, rest) := by
  have htw : takeWhileP isParamChar (joinSemi (ps.map natDigits) ++ 'm' :: rest) =
      (joinSemi (ps.map natDigits), 'm' :: rest) := by
    apply takeWhileP_append
    · intro c hc
      rcases mem_joinSemi _ c hc with rfl | ⟨d, hd, hcd⟩
      · decide
      · simp only [List.mem_map] at hd
        obtain ⟨n, _, rfl⟩ := hd
        simp [isParamChar, natDigits_isDigit n c hcd]
    · decide
  simp [scanSgr, htw, parseParams_joinSemi]

/-- The fields of a well-formed OSC 8 sequence. -/
def WFOsc (params uri : List Char) : Prop :=
  (∀ c ∈ params, c ≠ ';' ∧ c ≠ ESC ∧ c ≠ BEL) ∧ (∀ c ∈ uri, c ≠ ESC ∧ c ≠ BEL)

theorem scanOsc8_serialised (params uri rest : List Char) (h : WFOsc params uri) :
    scanOsc8 ('8' :: ';' :: (params ++ ';' :: (uri ++ ESC :: '\\' :: rest))) = some (.osc8 params uri, rest) := by
  have h1 : takeWhileP (fun c => c != ';' && c != ESC && c != BEL) (params ++ ';' :: (uri ++ ESC :: '\\' :: rest)) =
      (params, ';' :: (uri ++ ESC :: '\\' :: rest)) := by
    apply takeWhileP_append
    · intro c hc
      obtain ⟨a, b, d⟩ := h.1 c hc
      simp [a, b, d]
    · decide
  have h2 : takeWhileP (fun c => c != ESC && c != BEL) (uri ++ ESC :: '\\' :: rest) = (uri, ESC :: '\\' :: rest) := by
    apply takeWhileP_append
    · intro c hc
      obtain ⟨a, b⟩ := h.2 c hc
      simp [a, b]
    · decide
  have h3 : ESC ≠ BEL := by decide
  simp [scanOsc8, h1, h2, h3]

/-! ## the whole stream -/

/-- Tokens whose serialisation a terminal reads back unambiguously. -/
def WFTok : Tok → Prop
  | .text s => ESC ∉ s
  | .sgr _ => True
  | .osc8 p u => WFOsc p u

/-- `scan` hands out text one character at a time. -/
def explode : Tok → List Tok
  | .text s => s.map fun c => .text [c]
  | t => [t]

theorem scan_text (s : List Char) (hs : ESC ∉ s) (rest : List Char) :
    ∀ fuel, (s ++ rest).length ≤ fuel →
      scan fuel (s ++ rest) = (s.map fun c => Tok.text [c]) ++ scan (fuel - s.length) rest := by
  induction s with
  | nil => intro fuel _; simp
  | cons c cs ih =>
    intro fuel hf
    have hc : c ≠ ESC := fun e => hs (by simp [e])
    have hcs : ESC ∉ cs := fun hm => hs (by simp [hm])
    cases fuel with
    | zero => simp at hf
    | succ f =>
      have hf' : (cs ++ rest).length ≤ f := by simp at hf ⊢; omega
      have e : f + 1 - (c :: cs).length = f - cs.length := by simp
      have hstep : scan (f + 1) (c :: (cs ++ rest)) = Tok.text [c] :: scan f (cs ++ rest) := by simp [scan, hc]
      rw [e, List.cons_append, List.map_cons, List.cons_append, hstep, ih hcs f hf']

theorem scan_sgr (ps : List Nat) (rest : List Char) (f : Nat) :
    scan (f + 1) (serialiseTok (.sgr ps) ++ rest) = .sgr ps :: scan f rest := by
  have : serialiseTok (.sgr ps) ++ rest = ESC :: '[' :: (joinSemi (ps.map natDigits) ++ 'm' :: rest) := by
    simp [serialiseTok]
  rw [this]
  simp [scan, scanSgr_serialised]

theorem scan_osc8 (p u rest : List Char) (h : WFOsc p u) (f : Nat) :
    scan (f + 1) (serialiseTok (.osc8 p u) ++ rest) = .osc8 p u :: scan f rest := by
  have : serialiseTok (.osc8 p u) ++ rest = ESC :: ']' :: '8' :: ';' :: (p ++ ';' :: (u ++ ESC :: '\\' :: rest)) := by
    simp [serialiseTok]
  rw [this]
  have hk : (']' : Char) ≠ '[' := by decide
  simp [scan, hk, scanOsc8_serialised p u rest h]

theorem serialise_cons (t : Tok) (ts : List Tok) : serialise (t :: ts) = serialiseTok t ++ serialise ts := by
  simp [serialise]

/-- **The terminal reads back what was written**, one step per token (text: per character). -/
theorem scan_serialise (toks : List Tok) (h : ∀ t ∈ toks, WFTok t) :
    ∀ fuel, (serialise toks).length ≤ fuel → scan fuel (serialise toks) = toks.flatMap explode := by
  induction toks with
  | nil =>
    intro fuel _
    cases fuel <;> simp [serialise, scan]
  | cons t ts ih =>
    intro fuel hf
    have iht := ih (fun x hx => h x (by simp [hx]))
    have ht := h t (by simp)
    rw [serialise_cons] at hf ⊢
    cases t with
    | text s =>
      simp only [serialiseTok] at hf ⊢
      rw [scan_text s ht _ fuel hf, iht _ (by simp at hf; omega)]
      simp [explode]
    | sgr ps =>
      cases fuel with
      | zero => simp [serialiseTok] at hf
      | succ f =>
        rw [scan_sgr, iht f (by simp [serialiseTok] at hf; omega)]
        simp [explode]
    | osc8 p u =>
      cases fuel with
      | zero => simp [serialiseTok] at hf
      | succ f =>
        rw [scan_osc8 p u _ ht, iht f (by simp [serialiseTok] at hf; omega)]
        simp [explode]

/-! ## merging text runs -/

/-- `normalise (.text s :: rest)` in terms of `normalise rest`. -/
def consText (s : List Char) (L : List Tok) : List Tok :=
  if s.isEmpty then L
  else match L with
    | .text s' :: r => .text (s ++ s') :: r
    | r => .text s :: r

theorem normalise_text (s : List Char) (rest : List Tok) :
    normalise (.text s :: rest) = consText s (normalise rest) := by
  simp only [normalise, consText]
  split
  · rfl
  · split <;> simp_all

theorem consText_cons (c : Char) (s : List Char) (L : List Tok) :
    consText [c] (consText s L) = consText (c :: s) L := by
  cases s with
  | nil => simp [consText]
  | cons x xs =>
    cases L with
    | nil => simp [consText]
    | cons t r => cases t <;> simp [consText]

theorem normalise_singles (s : List Char) (Y : List Tok) :
    normalise ((s.map fun c => Tok.text [c]) ++ Y) = consText s (normalise Y) := by
  induction s with
  | nil => simp [consText]
  | cons c cs ih =>
    rw [List.map_cons, List.cons_append, normalise_text, ih, consText_cons]

theorem normalise_explode (toks : List Tok) : normalise (toks.flatMap explode) = normalise toks := by
  induction toks with
  | nil => rfl
  | cons t ts ih =>
    cases t with
    | text s => simp only [List.flatMap_cons, explode]; rw [normalise_singles, ih, normalise_text]
    | sgr ps => simp [explode, normalise, ih]
    | osc8 p u => simp [explode, normalise, ih]

theorem interpFrom_consText (st : TermState) (s : List Char) (L : List Tok) :
    interpFrom st (consText s L) = interpFrom st (.text s :: L) := by
  unfold consText
  by_cases hs : s.isEmpty = true
  · have : s = [] := by simpa using hs
    subst this
    simp [interpFrom, stepTok]
  · simp only [hs, Bool.false_eq_true, if_false]
    cases L with
    | nil => rfl
    | cons t r =>
      cases t with
      | text s' => simp [interpFrom, stepTok, List.map_append]
      | sgr ps => rfl
      | osc8 p u => rfl

/-- Merging text runs changes nothing a terminal shows. -/
theorem interpFrom_normalise (toks : List Tok) : ∀ st, interpFrom st (normalise toks) = interpFrom st toks := by
  induction toks with
  | nil => intro st; rfl
  | cons t ts ih =>
    intro st
    cases t with
    | text s =>
      rw [normalise_text, interpFrom_consText, interpFrom_cons, interpFrom_cons, ih]
    | sgr ps => simp only [normalise]; rw [interpFrom_cons, interpFrom_cons, ih]
    | osc8 p u => simp only [normalise]; rw [interpFrom_cons, interpFrom_cons, ih]

/-- **tokenize ∘ serialise.**  For well-formed tokens the terminal's reading of the characters written
is the token list, adjacent text runs merged. -/
theorem tokenize_serialise (toks : List Tok) (h : ∀ t ∈ toks, WFTok t) :
    tokenize (serialise toks) = normalise toks := by
  unfold tokenize
  rw [scan_serialise toks h _ (Nat.le_refl _), normalise_explode]

/-- …so the characters mean what the tokens mean. -/
theorem interpFrom_tokenize_serialise (toks : List Tok) (h : ∀ t ∈ toks, WFTok t) (st : TermState) :
    interpFrom st (tokenize (serialise toks)) = interpFrom st toks := by
  rw [tokenize_serialise toks h, interpFrom_normalise]

end RichModel.AnsiTerm
