import RichModel.Lemmas.AnsiChars
import RichModel.Model.AnsiPrint
/-!
Lemmas for property C03, deepening round 4: the route `Console.print` → `_buffer` → `_render_buffer` → terminal.

* `Segment.apply_style` on heap objects (`applyStyleHeap`): never raises on a sound heap, only appends brand-new
  objects (so every cache stays sound), and every non-control segment ends up printed with the *value*
  `style + own style`;
* `printWrite`: what the terminal shows after one `print`, and after histories of prints mixed with the other
  operations (`runPOps`).

Core Lean only.
-/
namespace RichModel.AnsiRender
open RichModel RichModel.AnsiTerm

/-! ## heap growth -/

theorem segStyle_append (heap extra : Heap) (seg : Seg) (h : ∀ i, seg.style = some i → i < heap.length) :
    segStyle (heap ++ extra) seg = segStyle heap seg := by
  unfold segStyle
  cases hs : seg.style with
  | none => rfl
  | some i => simp [List.getElem?_append_left (h i hs)]

theorem styleWF_add (a b : Style) (ha : StyleWF a) (hb : StyleWF b) : StyleWF (Style.add StyleVariant.fixed a b) := by
  unfold Style.add
  split
  · exact ha
  · split
    · exact hb
    · rename_i h1 h2
      refine ⟨?_, ?_, ?_⟩
      · intro c hc
        simp only at hc
        cases hbc : b.color with
        | none => rw [hbc] at hc; simp only [Option.or] at hc; exact ha.color c (by simpa using hc)
        | some x => rw [hbc] at hc; simp only [Option.or] at hc; exact hb.color c (by simpa [hbc] using hc)
      · intro c hc
        simp only at hc
        cases hbc : b.bgcolor with
        | none => rw [hbc] at hc; simp only [Option.or] at hc; exact ha.bgcolor c (by simpa using hc)
        | some x => rw [hbc] at hc; simp only [Option.or] at hc; exact hb.bgcolor c (by simpa [hbc] using hc)
      · intro hn
        simp only [Bool.or_eq_true] at hn
        rcases hn with hn | hn
        · exact absurd hn h2
        · exact absurd hn h1

/-- `style.__add__(seg_style)` on a sound heap: defined; the heap only grows by brand-new objects; the result is an
object of the new heap whose style value is `Style.__add__` of the values. -/
theorem addObj_spec (cc : Cfg) (P : Palettes) (heap : Heap) (hok : HeapOK cc P heap) (j : Nat) (sj : StyleObj)
    (hj : heap[j]? = some sj) (seg : Seg) (hr : ∀ i, seg.style = some i → i < heap.length) :
    ∃ k extra, addObj heap j sj seg.style = .ok (k, heap ++ extra) ∧ HeapOK cc P (heap ++ extra) ∧
      k < (heap ++ extra).length ∧
      ((heap ++ extra)[k]?).map (·.style) = some (Style.addOpt StyleVariant.fixed sj.style (segStyle heap seg)) := by
  have hjl : j < heap.length := (List.getElem?_eq_some_iff.mp hj).1
  unfold addObj segStyle
  cases hs : seg.style with
  | none =>
    exact ⟨j, [], by simp, by simpa using hok, by simpa using hjl, by simp [hj, Style.addOpt]⟩
  | some i =>
    have hil := hr i hs
    obtain ⟨oi, hoi⟩ : ∃ oi, heap[i]? = some oi := ⟨heap[i], by simp [hil]⟩
    simp only [hoi, Option.map_some]
    by_cases hn : oi.style.isNull = true
    · refine ⟨j, [], by simp [hn], by simpa using hok, by simpa using hjl, ?_⟩
      simp [hj, Style.addOpt, Style.add, hn]
    · by_cases hn2 : sj.style.isNull = true
      · refine ⟨i, [], by simp [hn, hn2], by simpa using hok, by simpa using hil, ?_⟩
        simp [hoi, Style.addOpt, Style.add, hn, hn2]
      · refine ⟨heap.length, [{ style := Style.add StyleVariant.fixed sj.style oi.style, ansi := none }],
          by simp [hn, hn2], ?_, by simp, by simp [Style.addOpt]⟩
        apply heapOK_append cc P heap _ hok
        apply objOK_fresh
        exact styleWF_add _ _ (hok sj (List.mem_iff_getElem?.mpr ⟨j, hj⟩)).1 (hok oi (List.mem_iff_getElem?.mpr ⟨i, hoi⟩)).1

/-- **`Segment.apply_style` on a sound heap.**  It does not raise; the heap only grows (every old object, cache
included, is untouched; new objects have empty caches); the references of the new segments are in range; texts and
control flags are kept, and every segment is printed with the value `printedStyle`: `style + own style`, or nothing
for a control segment. -/
theorem applyStyleHeap_spec (cc : Cfg) (P : Palettes) (j : Nat) (sj : StyleObj) (segs : List Seg) :
    ∀ (heap : Heap), HeapOK cc P heap → heap[j]? = some sj → RefsOK heap segs →
      ∃ segs' extra, applyStyleHeap j heap segs = .ok (segs', heap ++ extra) ∧ HeapOK cc P (heap ++ extra) ∧
        RefsOK (heap ++ extra) segs' ∧
        viewSegs (heap ++ extra) segs' =
          segs.map fun s => (s.text, s.control, printedStyle (some sj.style) s.control (segStyle heap s)) := by
  induction segs with
  | nil =>
    intro heap hok _ _
    exact ⟨[], [], by simp [applyStyleHeap], by simpa using hok, (by intro s hs; cases hs), rfl⟩
  | cons seg rest ih =>
    intro heap hok hj hrefs
    have hrseg : ∀ i, seg.style = some i → i < heap.length := hrefs seg (by simp)
    have hrrest : RefsOK heap rest := fun s hs => hrefs s (by simp [hs])
    unfold applyStyleHeap
    simp only [hj]
    by_cases hc : seg.control = true
    · obtain ⟨segs', extra, h1, h2, h3, h4⟩ := ih heap hok hj hrrest
      refine ⟨{ seg with style := none } :: segs', extra, by simp [hc, h1, bind, Except.bind], h2, ?_, ?_⟩
      · intro s hs i hi
        rcases List.mem_cons.mp hs with rfl | hs
        · simp at hi
        · exact h3 s hs i hi
      · simp only [viewSegs, List.map_cons] at h4 ⊢
        rw [h4]
        simp [segStyle, printedStyle, hc]
    · obtain ⟨k, ex1, a1, a2, a3, a4⟩ := addObj_spec cc P heap hok j sj hj seg hrseg
      have hj1 : (heap ++ ex1)[j]? = some sj := by
        rw [List.getElem?_append_left (List.getElem?_eq_some_iff.mp hj).1]; exact hj
      have hrrest1 : RefsOK (heap ++ ex1) rest := by
        intro s hs i hi
        have := hrrest s hs i hi
        simp only [List.length_append]; omega
      obtain ⟨segs', ex2, h1, h2, h3, h4⟩ := ih (heap ++ ex1) a2 hj1 hrrest1
      refine ⟨{ seg with style := some k } :: segs', ex1 ++ ex2, ?_, ?_, ?_, ?_⟩
      · simp [hc, a1, h1, bind, Except.bind, List.append_assoc]
      · rw [← List.append_assoc]; exact h2
      · rw [← List.append_assoc]
        intro s hs i hi
        rcases List.mem_cons.mp hs with rfl | hs
        · simp only [Option.some.injEq] at hi
          subst hi
          simp only [List.length_append] at a3 ⊢; omega
        · exact h3 s hs i hi
      · rw [← List.append_assoc]
        simp only [viewSegs, List.map_cons] at h4 ⊢
        rw [h4]
        congr 1
        · have hk : ∀ s : Seg, s.style = some k → segStyle (heap ++ ex1 ++ ex2) s =
              some (Style.addOpt StyleVariant.fixed sj.style (segStyle heap seg)) := by
            intro s hs
            simp only [segStyle, hs]
            rw [List.getElem?_append_left a3]
            exact a4
          have hcf : seg.control = false := by simpa using hc
          rw [hk _ rfl]
          simp only [printedStyle, hcf, Bool.false_eq_true, if_false]
        · apply List.map_congr_left
          intro s hs
          rw [segStyle_append heap ex1 s (hrrest s hs)]

/-! ## `expectedCells` only looks at the style values -/

theorem expectedCells_eq_view (cc : Cfg) (P : Palettes) (cfg : Config) (heap : Heap) (segs : List Seg) :
    expectedCells cc P cfg heap segs = cellsOfV cc P cfg (viewSegs heap segs) := by
  unfold expectedCells cellsOfV viewSegs
  induction segs with
  | nil => rfl
  | cons s rest ih =>
    simp only [List.filter_cons, List.map_cons, segVisible]
    by_cases hv : (cfg.isTerminal || !s.control) = true
    · simp only [hv, if_true, List.flatMap_cons, ih]
    · simp only [hv, Bool.false_eq_true, if_false, ih]

/-! ## one `print` -/

/-- The references of one `print` call are in range. -/
def PrintOK (heap : Heap) (p : PrintCall) : Prop :=
  RefsOK heap p.segs ∧ ∀ j, p.style = some j → j < heap.length

/-! ### what cropping keeps: any property of segments that survives taking pieces of the text -/

/-- A property of segments kept by `split_and_crop_lines(…, pad=False)`: it holds for every piece of a segment that
has it (same style, characters of the segment or blanks), and for the bare newline segment. -/
structure CropClosed (Q : Seg → Prop) : Prop where
  sub : ∀ (seg : Seg) (text' : List Char), Q seg → (∀ c ∈ text', c ∈ seg.text ∨ c = ' ') →
    Q { text := text', style := seg.style, control := false }
  nl : Q { text := ['\n'], style := none, control := false }

theorem setCellSize_chars (cw : Char → Nat) (text : List Char) (n : Nat) :
    ∀ c ∈ setCellSize cw text n, c ∈ text ∨ c = ' ' := by
  intro c hc
  unfold setCellSize at hc
  simp only at hc
  split at hc
  · exact Or.inl hc
  · split at hc
    · rcases List.mem_append.mp hc with h | h
      · exact Or.inl h
      · exact Or.inr (List.eq_of_mem_replicate h)
    · split at hc
      · rcases List.mem_append.mp hc with h | h
        · exact Or.inl (List.mem_of_mem_take h)
        · simp only [List.mem_singleton] at h; exact Or.inr h
      · exact Or.inl (List.mem_of_mem_take hc)

theorem nlPieces_chars : ∀ (text cur : List Char) (p : List Char × Bool), p ∈ nlPieces text cur →
    ∀ c ∈ p.1, c ∈ text ∨ c ∈ cur := by
  intro text
  induction text with
  | nil =>
    intro cur p hp c hc
    unfold nlPieces at hp
    split at hp
    · cases hp
    · simp only [List.mem_singleton] at hp; subst hp; exact Or.inr (by simpa using hc)
  | cons x xs ih =>
    intro cur p hp c hc
    unfold nlPieces at hp
    split at hp
    · rcases List.mem_cons.mp hp with rfl | hp
      · exact Or.inr (by simpa using hc)
      · rcases ih [] p hp c hc with h | h
        · exact Or.inl (by simp [h])
        · cases h
    · rcases ih (x :: cur) p hp c hc with h | h
      · exact Or.inl (by simp [h])
      · rcases List.mem_cons.mp h with rfl | h
        · exact Or.inl (by simp)
        · exact Or.inr h

theorem cropLoop_closed (Q : Seg → Prop) (hQ : CropClosed Q) (cw : Char → Nat) (n : Nat) (line : List Seg) :
    ∀ (acc : Nat), (∀ s ∈ line, Q s) → ∀ s ∈ cropLoop cw n line acc, Q s := by
  induction line with
  | nil => intro acc _ s hs; simp [cropLoop] at hs
  | cons seg rest ih =>
    intro acc h s hs
    unfold cropLoop at hs
    simp only at hs
    split at hs
    · rcases List.mem_cons.mp hs with rfl | hs
      · exact h s (by simp)
      · exact ih _ (fun x hx => h x (by simp [hx])) s hs
    · simp only [List.mem_singleton] at hs
      subst hs
      exact hQ.sub seg _ (h seg (by simp)) (setCellSize_chars cw seg.text _)

theorem adjust_closed (Q : Seg → Prop) (hQ : CropClosed Q) (cw : Char → Nat) (line : List Seg) (n : Nat)
    (h : ∀ s ∈ line, Q s) : ∀ s ∈ adjustLineLength cw line n none false, Q s := by
  unfold adjustLineLength
  simp only
  split
  · simpa using h
  · split
    · exact cropLoop_closed Q hQ cw n line 0 h
    · exact h

theorem cropStep_closed (Q : Seg → Prop) (hQ : CropClosed Q) (cw : Char → Nat) (n : Nat) (seg : Seg) (hseg : Q seg)
    (st : CropState Nat) (h1 : ∀ s ∈ st.line, Q s) (h2 : ∀ l ∈ st.out, ∀ s ∈ l, Q s) (h3 : st.padStyle = none) :
    (∀ s ∈ (splitAndCropStep cw n false true false st seg).line, Q s) ∧
      (∀ l ∈ (splitAndCropStep cw n false true false st seg).out, ∀ s ∈ l, Q s) ∧
      (splitAndCropStep cw n false true false st seg).padStyle = none := by
  unfold splitAndCropStep
  split
  · simp only [Bool.false_eq_true, if_false]
    have hps : ∀ p ∈ nlPieces seg.text [], ∀ c ∈ p.1, c ∈ seg.text ∨ c = ' ' := by
      intro p hp c hc
      rcases nlPieces_chars seg.text [] p hp c hc with h | h
      · exact Or.inl h
      · cases h
    generalize nlPieces seg.text [] = ps at hps
    induction ps generalizing st with
    | nil => exact ⟨h1, h2, h3⟩
    | cons p ps ih =>
      simp only [List.foldl_cons]
      have hline : ∀ s ∈ (if p.1.isEmpty = true then st.line else st.line ++ [{ text := p.1, style := seg.style, control := false }]), Q s := by
        split
        · exact h1
        · intro s hs
          rcases List.mem_append.mp hs with hs | hs
          · exact h1 s hs
          · simp only [List.mem_singleton] at hs; subst hs
            exact hQ.sub seg p.1 hseg (hps p (by simp))
      apply ih
      · split
        · intro s hs; cases hs
        · exact hline
      · split
        · intro l hl
          rcases List.mem_cons.mp hl with rfl | hl
          · intro s hs
            rcases List.mem_append.mp hs with hs | hs
            · rw [h3] at hs
              exact adjust_closed Q hQ cw _ n hline s hs
            · simp only [List.mem_singleton] at hs; subst hs; exact hQ.nl
          · exact h2 l hl
        · exact h2
      · split <;> exact h3
      · exact fun q hq => hps q (by simp [hq])
  · refine ⟨?_, h2, h3⟩
    intro s hs
    rcases List.mem_append.mp hs with hs | hs
    · exact h1 s hs
    · simp only [List.mem_singleton] at hs; subst hs; exact hseg

/-- **What the crop of `print` keeps.**  Every segment `print` appends has every crop-closed property the rendered
segments have. -/
theorem finishPrint_closed (Q : Seg → Prop) (hQ : CropClosed Q) (cw : Char → Nat) (env : PEnv) (p : PrintCall)
    (segs : List Seg) (h : ∀ s ∈ segs, Q s) : ∀ s ∈ finishPrint cw env p segs, Q s := by
  unfold finishPrint
  split
  · unfold splitAndCropLines
    have key : ∀ (ss : List Seg) (st : CropState Nat), (∀ s ∈ ss, Q s) → (∀ s ∈ st.line, Q s) → (∀ l ∈ st.out, ∀ s ∈ l, Q s) →
        st.padStyle = none →
        (∀ s ∈ (ss.foldl (splitAndCropStep cw env.width false true false) st).line, Q s) ∧
        (∀ l ∈ (ss.foldl (splitAndCropStep cw env.width false true false) st).out, ∀ s ∈ l, Q s) ∧
        (ss.foldl (splitAndCropStep cw env.width false true false) st).padStyle = none := by
      intro ss
      induction ss with
      | nil => intro st _ a b c; exact ⟨a, b, c⟩
      | cons x xs ih =>
        intro st hss a b c
        obtain ⟨a', b', c'⟩ := cropStep_closed Q hQ cw env.width x (hss x (by simp)) st a b c
        exact ih _ (fun y hy => hss y (by simp [hy])) a' b' c'
    obtain ⟨a, b, c⟩ := key segs { line := [], padStyle := none, out := [] } h (by intro s hs; cases hs)
      (by intro l hl; cases hl) rfl
    intro s hs
    simp only [List.mem_flatten, List.mem_reverse] at hs
    obtain ⟨l, hl, hsl⟩ := hs
    split at hl
    · exact b l hl s hsl
    · rcases List.mem_cons.mp hl with rfl | hl
      · rw [c] at hsl
        exact adjust_closed Q hQ cw _ _ a s hsl
      · exact b l hl s hsl
  · exact h

theorem finishPrint_refs (cw : Char → Nat) (env : PEnv) (p : PrintCall) (heap : Heap) (segs : List Seg)
    (h : RefsOK heap segs) : RefsOK heap (finishPrint cw env p segs) :=
  finishPrint_closed (fun s => ∀ i, s.style = some i → i < heap.length)
    ⟨fun seg _ hq _ => hq, by intro i hi; cases hi⟩ cw env p segs h

/-- No ESC comes out of the crop that did not go in (blanks and line feeds are all it adds). -/
theorem finishPrint_noEsc (cw : Char → Nat) (env : PEnv) (p : PrintCall) (segs : List Seg)
    (h : ∀ s ∈ segs, ESC ∉ s.text) : ∀ s ∈ finishPrint cw env p segs, ESC ∉ s.text :=
  finishPrint_closed (fun s => ESC ∉ s.text)
    ⟨(by
      intro seg t hq ht hm
      rcases ht ESC hm with h | h
      · exact hq h
      · revert h; decide), by decide⟩ cw env p segs h

/-- **One `print`, token level** (repaired code).  On a sound heap, for a call whose references are in range, in
every console configuration, at every width, cropped or not: nothing raises; `print` appends `buffer` to `_buffer`
after `apply_style` allocated `extra` (brand-new objects; nothing else changes); `buffer` is the crop of segments
`applied` that keep the rendered texts and control flags and carry — as values — `style + own style`; what
`_render_buffer` then writes, interpreted by the independent terminal model, is exactly `expectedCells` of
`buffer`; the terminal is left in its default state; every cache stays sound. -/
theorem printWrite_means (v : RVariant) (hv : v.ansiCacheUnkeyed = false) (hv2 : v.styledControlKept = false)
    (cc : Cfg) (P : Palettes) (hP : P.ok = true) (cw : Char → Nat) (cfg : Config) (env : PEnv) (heap : Heap)
    (p : PrintCall) (hok : HeapOK cc P heap) (hp : PrintOK heap p) :
    ∃ applied extra toks heap2,
      printBuffer cw env heap p = .ok (finishPrint cw env p applied, heap ++ extra) ∧
      viewSegs (heap ++ extra) applied =
        p.segs.map (fun s => (s.text, s.control,
          printedStyle ((p.style.bind (heap[·]?)).map (·.style)) s.control (segStyle heap s))) ∧
      RefsOK (heap ++ extra) (finishPrint cw env p applied) ∧
      printWrite v cc P cw cfg env heap p = .ok (toks, heap2) ∧
      interpFrom {} toks = ({}, expectedCells cc P cfg (heap ++ extra) (finishPrint cw env p applied)) ∧
      toks = specToks cc P cfg (heap ++ extra) (finishPrint cw env p applied) ∧
      HeapOK cc P heap2 ∧ heap2.map (·.style) = (heap ++ extra).map (·.style) := by
  obtain ⟨hrefs, hst⟩ := hp
  have main : ∀ (applied : List Seg) (extra : Heap),
      printBuffer cw env heap p = .ok (finishPrint cw env p applied, heap ++ extra) →
      HeapOK cc P (heap ++ extra) → RefsOK (heap ++ extra) applied →
      RefsOK (heap ++ extra) (finishPrint cw env p applied) ∧
      ∃ toks heap2, printWrite v cc P cw cfg env heap p = .ok (toks, heap2) ∧
        interpFrom {} toks = ({}, expectedCells cc P cfg (heap ++ extra) (finishPrint cw env p applied)) ∧
        toks = specToks cc P cfg (heap ++ extra) (finishPrint cw env p applied) ∧
        HeapOK cc P heap2 ∧ heap2.map (·.style) = (heap ++ extra).map (·.style) := by
    intro applied extra hb hok1 hr1
    have hr2 := finishPrint_refs cw env p (heap ++ extra) applied hr1
    refine ⟨hr2, ?_⟩
    obtain ⟨toks, heap2, g1, g2, g3, g4⟩ := renderBuffer_means v hv hv2 cc P hP cfg (heap ++ extra) _ hok1 hr2
    obtain ⟨heap3, t1, _⟩ := renderBuffer_toks v hv hv2 cc P hP cfg (heap ++ extra) _ hok1 hr2
    have ht : toks = specToks cc P cfg (heap ++ extra) (finishPrint cw env p applied) := by
      rw [g1] at t1
      simp only [Except.ok.injEq, Prod.mk.injEq] at t1
      exact t1.1
    exact ⟨toks, heap2, by simp [printWrite, hb, g1, bind, Except.bind], g4, ht, g2, g3⟩
  cases hs : p.style with
  | none =>
    have hb : printBuffer cw env heap p = .ok (finishPrint cw env p p.segs, heap ++ []) := by
      simp [printBuffer, hs]
    obtain ⟨m1, toks, heap2, m2⟩ := main p.segs [] hb (by simpa using hok) (by simpa using hrefs)
    refine ⟨p.segs, [], toks, heap2, hb, ?_, m1, m2⟩
    simp [viewSegs, printedStyle]
  | some j =>
    have hjl := hst j hs
    obtain ⟨sj, hsj⟩ : ∃ sj, heap[j]? = some sj := ⟨heap[j], by simp [hjl]⟩
    obtain ⟨segs', extra, a1, a2, a3, a4⟩ := applyStyleHeap_spec cc P j sj p.segs heap hok hsj hrefs
    have hb : printBuffer cw env heap p = .ok (finishPrint cw env p segs', heap ++ extra) := by
      simp [printBuffer, hs, a1, bind, Except.bind]
    obtain ⟨m1, toks, heap2, m2⟩ := main segs' extra hb a2 a3
    refine ⟨segs', extra, toks, heap2, hb, ?_, m1, m2⟩
    rw [a4]
    simp [hsj]

end RichModel.AnsiRender
