import RichModel.Model.Syntax
/-
Helper lemmas for property C17, part 1: strings and lines.
`splitNL`/`unlinesT`/`takeThroughNL`, what `remove_suffix` + `Text.split` do to a newline-terminated text,
and the algebra of "equal up to blank lines at the very end" (`Trail`).
-/
namespace RichModel.Syntax

/-! ### specification-level vocabulary -/

/-- Each line followed by a newline. -/
def unlinesT (L : List Line) : List Char := L.flatMap (· ++ ['\n'])

/-- The prefix of `s` up to and including its `k`-th newline (all of `s` if it has fewer). -/
def takeThroughNL : Nat → List Char → List Char
  | 0, _ => []
  | _ + 1, [] => []
  | k + 1, c :: rest => if c = '\n' then c :: takeThroughNL k rest else c :: takeThroughNL (k + 1) rest

/-- `ensurenl` -/
def ensureNL (s : List Char) : List Char := if endsNL s then s else s ++ ['\n']

/-- What `remove_suffix("\n")` followed by `Text.split("\n")` keeps of a list of lines: the last line goes
when it is empty and not the only one. -/
def popBlank (M : List Line) : List Line :=
  if 2 ≤ M.length ∧ M.getLast? = some [] then M.dropLast else M

/-- `D` is `P` except for at most `n` empty lines missing at the very end. -/
def Trail (n : Nat) (D P : List Line) : Prop := ∃ k, k ≤ n ∧ D ++ List.replicate k ([] : Line) = P

/-! ### endsNL -/

@[simp] theorem endsNL_nil : endsNL [] = false := by simp [endsNL]

@[simp] theorem endsNL_append_singleton (a : List Char) (c : Char) : endsNL (a ++ [c]) = (c == '\n') := by
  simp [endsNL]

theorem endsNL_iff {s : List Char} : endsNL s = true ↔ ∃ s0, s = s0 ++ ['\n'] := by
  unfold endsNL
  constructor
  · intro h
    have h' : s.getLast? = some '\n' := by simpa using h
    exact List.getLast?_eq_some_iff.mp h'
  · rintro ⟨s0, rfl⟩
    simp

/-! ### splitNL -/

theorem splitNL_ne_nil : ∀ s, splitNL s ≠ []
  | [] => by simp [splitNL]
  | c :: rest => by
    unfold splitNL
    split
    · simp
    · split <;> simp

@[simp] theorem splitNL_nil : splitNL [] = [[]] := by simp [splitNL]

@[simp] theorem splitNL_cons_nl (s : List Char) : splitNL ('\n' :: s) = [] :: splitNL s := by
  simp [splitNL]

theorem splitNL_cons_ne {c : Char} (h : c ≠ '\n') (s : List Char) {l : Line} {ls : List Line}
    (hs : splitNL s = l :: ls) : splitNL (c :: s) = (c :: l) :: ls := by
  rw [splitNL]
  simp [h, hs]

theorem splitNL_exists (s : List Char) : ∃ l ls, splitNL s = l :: ls := by
  cases h : splitNL s with
  | nil => exact absurd h (splitNL_ne_nil s)
  | cons a b => exact ⟨a, b, rfl⟩

/-- lines never contain a newline -/
theorem splitNL_no_nl : ∀ (s : List Char), ∀ l ∈ splitNL s, '\n' ∉ l
  | [] => by simp
  | c :: rest => by
    intro l hl
    by_cases hc : c = '\n'
    · subst hc
      rw [splitNL_cons_nl] at hl
      rcases List.mem_cons.mp hl with h | h
      · subst h; simp
      · exact splitNL_no_nl rest l h
    · obtain ⟨l0, ls0, h0⟩ := splitNL_exists rest
      rw [splitNL_cons_ne hc rest h0] at hl
      have ih := splitNL_no_nl rest
      rw [h0] at ih
      rcases List.mem_cons.mp hl with h | h
      · subst h
        intro hm
        rcases List.mem_cons.mp hm with h1 | h1
        · exact hc h1.symm
        · exact ih l0 (by simp) h1
      · exact ih l (by simp [h])

theorem splitNL_of_noNL : ∀ (x : List Char), '\n' ∉ x → splitNL x = [x]
  | [], _ => by simp
  | c :: x, h => by
    have hc : c ≠ '\n' := fun e => h (by simp [e])
    have hx : '\n' ∉ x := fun e => h (by simp [e])
    exact splitNL_cons_ne hc x (splitNL_of_noNL x hx)

theorem splitNL_noNL_append : ∀ (x t : List Char), '\n' ∉ x → splitNL (x ++ '\n' :: t) = x :: splitNL t
  | [], t, _ => by simp
  | c :: x, t, h => by
    have hc : c ≠ '\n' := fun e => h (by simp [e])
    have hx : '\n' ∉ x := fun e => h (by simp [e])
    exact splitNL_cons_ne hc _ (splitNL_noNL_append x t hx)

@[simp] theorem unlinesT_nil : unlinesT [] = [] := rfl

@[simp] theorem unlinesT_cons (l : Line) (L : List Line) : unlinesT (l :: L) = l ++ '\n' :: unlinesT L := by
  simp [unlinesT]

theorem unlinesT_append (A B : List Line) : unlinesT (A ++ B) = unlinesT A ++ unlinesT B := by
  simp [unlinesT]

theorem splitNL_unlinesT_append : ∀ (M : List Line) (x : Line), (∀ l ∈ M, '\n' ∉ l) → '\n' ∉ x →
    splitNL (unlinesT M ++ x) = M ++ [x]
  | [], x, _, hx => by simpa using splitNL_of_noNL x hx
  | l :: M, x, hM, hx => by
    have hl : '\n' ∉ l := hM l (by simp)
    have ih := splitNL_unlinesT_append M x (fun l' h => hM l' (by simp [h])) hx
    rw [unlinesT_cons, List.append_assoc, List.cons_append, splitNL_noNL_append l _ hl, ih]
    simp

/-- a text plus a final newline is its lines, each terminated -/
theorem append_nl_eq_unlinesT : ∀ (s : List Char), s ++ ['\n'] = unlinesT (splitNL s)
  | [] => by simp
  | c :: t => by
    by_cases hc : c = '\n'
    · subst hc
      simp [append_nl_eq_unlinesT t]
    · obtain ⟨l0, ls0, h0⟩ := splitNL_exists t
      have ih := append_nl_eq_unlinesT t
      rw [h0] at ih
      rw [splitNL_cons_ne hc t h0]
      simp [ih]

/-! ### takeThroughNL -/

@[simp] theorem takeThroughNL_zero (s : List Char) : takeThroughNL 0 s = [] := by
  cases s <;> rfl

@[simp] theorem takeThroughNL_nil (k : Nat) : takeThroughNL k [] = [] := by
  cases k <;> rfl

theorem takeThroughNL_noNL_append : ∀ (x r : List Char) (k : Nat), '\n' ∉ x →
    takeThroughNL (k + 1) (x ++ r) = x ++ takeThroughNL (k + 1) r
  | [], r, k, _ => by simp
  | c :: x, r, k, h => by
    have hc : c ≠ '\n' := fun e => h (by simp [e])
    have hx : '\n' ∉ x := fun e => h (by simp [e])
    simp [takeThroughNL, hc, takeThroughNL_noNL_append x r k hx]

theorem takeThroughNL_line (x r : List Char) (k : Nat) (hx : '\n' ∉ x) :
    takeThroughNL (k + 1) (x ++ '\n' :: r) = x ++ '\n' :: takeThroughNL k r := by
  rw [takeThroughNL_noNL_append x _ k hx]
  simp [takeThroughNL]

theorem takeThroughNL_unlinesT : ∀ (L : List Line) (m : Nat), (∀ l ∈ L, '\n' ∉ l) →
    takeThroughNL m (unlinesT L) = unlinesT (L.take m)
  | _, 0, _ => by simp
  | [], m + 1, _ => by simp
  | l :: L, m + 1, h => by
    have hl : '\n' ∉ l := h l (by simp)
    rw [unlinesT_cons, takeThroughNL_line l _ m hl,
      takeThroughNL_unlinesT L m (fun l' h' => h l' (by simp [h']))]
    simp

theorem takeThroughNL_prefix : ∀ (k : Nat) (s : List Char), takeThroughNL k s <+: s
  | 0, s => by simp
  | k + 1, [] => by simp
  | k + 1, c :: rest => by
    unfold takeThroughNL
    split
    · exact (List.prefix_cons_inj c).mpr (takeThroughNL_prefix k rest)
    · exact (List.prefix_cons_inj c).mpr (takeThroughNL_prefix (k + 1) rest)

/-! ### remove_suffix + split on a newline-terminated text -/

theorem removeSuffix_ensureNL (s : List Char) : removeSuffixNL (ensureNL s) = removeSuffixNL s := by
  unfold ensureNL
  by_cases h : endsNL s = true
  · simp [h]
  · have h' : endsNL s = false := by simpa using h
    simp [h', removeSuffixNL]

theorem removeSuffixNL_append_nl (a : List Char) : removeSuffixNL (a ++ ['\n']) = a := by
  unfold removeSuffixNL
  rw [endsNL_append_singleton]
  simp

theorem textSplit_removeSuffix_unlinesT (M : List Line) (hne : M ≠ []) (hM : ∀ l ∈ M, '\n' ∉ l) :
    textSplit (removeSuffixNL (unlinesT M)) false = popBlank M := by
  obtain ⟨M0, x, rfl⟩ : ∃ M0 x, M = M0 ++ [x] := ⟨M.dropLast, M.getLast hne, (List.dropLast_concat_getLast hne).symm⟩
  have hx : '\n' ∉ x := hM x (by simp)
  have hM0 : ∀ l ∈ M0, '\n' ∉ l := fun l h => hM l (by simp [h])
  have e1 : unlinesT (M0 ++ [x]) = (unlinesT M0 ++ x) ++ ['\n'] := by
    simp [unlinesT_append]
  have e2 : removeSuffixNL (unlinesT (M0 ++ [x])) = unlinesT M0 ++ x := by
    rw [e1, removeSuffixNL_append_nl]
  rw [e2]
  unfold textSplit
  rw [splitNL_unlinesT_append M0 x hM0 hx]
  -- does `unlinesT M0 ++ x` end with a newline?
  rcases List.eq_nil_or_concat x with hx0 | ⟨x0, c, hx1⟩
  · subst hx0
    rcases List.eq_nil_or_concat M0 with h0 | ⟨M1, y, h1⟩
    · subst h0; simp [popBlank]
    · rw [List.concat_eq_append] at h1
      subst h1
      have : unlinesT (M1 ++ [y]) ++ [] = (unlinesT M1 ++ y) ++ ['\n'] := by simp [unlinesT_append]
      rw [this, endsNL_append_singleton]
      simp [popBlank]
  · rw [List.concat_eq_append] at hx1
    subst hx1
    have hc : c ≠ '\n' := fun e => hx (by simp [e])
    have : unlinesT M0 ++ (x0 ++ [c]) = (unlinesT M0 ++ x0) ++ [c] := by simp
    rw [this, endsNL_append_singleton]
    simp [popBlank, hc]

/-! ### Trail algebra -/

theorem Trail.refl (D : List Line) : Trail 0 D D := ⟨0, Nat.le_refl _, by simp⟩

theorem Trail.mono {n m : Nat} {D P : List Line} (h : Trail n D P) (hnm : n ≤ m) : Trail m D P := by
  obtain ⟨k, hk, e⟩ := h
  exact ⟨k, Nat.le_trans hk hnm, e⟩

theorem Trail.trans {a b : Nat} {X Y Z : List Line} (h1 : Trail a X Y) (h2 : Trail b Y Z) : Trail (a + b) X Z := by
  obtain ⟨k1, hk1, e1⟩ := h1
  obtain ⟨k2, hk2, e2⟩ := h2
  refine ⟨k1 + k2, by omega, ?_⟩
  rw [← e2, ← e1, List.append_assoc, List.replicate_append_replicate]

theorem Trail.take {n : Nat} {D P : List Line} (h : Trail n D P) (b : Nat) : Trail n (D.take b) (P.take b) := by
  obtain ⟨k, hk, e⟩ := h
  refine ⟨min (b - D.length) k, by omega, ?_⟩
  rw [← e, List.take_append, List.take_replicate]

theorem Trail.drop {n : Nat} {D P : List Line} (h : Trail n D P) (t : Nat) : Trail n (D.drop t) (P.drop t) := by
  obtain ⟨k, hk, e⟩ := h
  refine ⟨k - (t - D.length), by omega, ?_⟩
  rw [← e, List.drop_append, List.drop_replicate]

theorem Trail.length_le {n : Nat} {D P : List Line} (h : Trail n D P) : D.length ≤ P.length := by
  obtain ⟨k, _, e⟩ := h
  rw [← e]; simp

/-- the lines `D` shows are lines of `P`, at the same positions -/
theorem Trail.getElem? {n : Nat} {D P : List Line} (h : Trail n D P) (i : Nat) (hi : i < D.length) :
    D[i]? = P[i]? := by
  obtain ⟨k, _, e⟩ := h
  rw [← e, List.getElem?_append_left hi]

/-- what is missing at the end is blank -/
theorem Trail.rest_blank {n : Nat} {D P : List Line} (h : Trail n D P) : ∀ l ∈ P.drop D.length, l = [] := by
  obtain ⟨k, _, e⟩ := h
  rw [← e]
  intro l hl
  simp at hl
  exact hl.2

theorem popBlank_trail (M : List Line) : Trail 1 (popBlank M) M := by
  unfold popBlank
  split
  · rename_i h
    have hne : M ≠ [] := by intro e; simp [e] at h
    refine ⟨1, Nat.le_refl _, ?_⟩
    have hl : M.getLast hne = [] := by
      have := h.2
      rw [List.getLast?_eq_some_getLast hne] at this
      exact Option.some.inj this
    conv => rhs; rw [← List.dropLast_concat_getLast hne, hl]
    simp
  · exact (Trail.refl M).mono (by omega)

/-! ### `textSplitC` agrees with `textSplit` when nothing is stripped -/

theorem splitNL_snoc_nl (s : List Char) : splitNL (s ++ ['\n']) = splitNL s ++ [[]] := by
  have := splitNL_unlinesT_append (splitNL s) [] (splitNL_no_nl s) (by simp)
  rwa [List.append_nil, ← append_nl_eq_unlinesT s] at this

theorem splitNL_snoc_ne : ∀ (s : List Char) (c : Char), c ≠ '\n' →
    ∃ init last, splitNL s = init ++ [last] ∧ splitNL (s ++ [c]) = init ++ [last ++ [c]]
  | [], c, hc => ⟨[], [], by simp, by simpa using splitNL_of_noNL [c] (by simpa using hc.symm)⟩
  | d :: t, c, hc => by
    obtain ⟨init, last, h1, h2⟩ := splitNL_snoc_ne t c hc
    by_cases hd : d = '\n'
    · subst hd
      exact ⟨[] :: init, last, by simp [h1], by simp [h2]⟩
    · cases init with
      | nil =>
        refine ⟨[], d :: last, ?_, ?_⟩
        · rw [splitNL_cons_ne hd t (by simpa using h1)]; rfl
        · rw [List.cons_append, splitNL_cons_ne hd _ (by simpa using h2)]; rfl
      | cons i0 irest =>
        refine ⟨(d :: i0) :: irest, last, ?_, ?_⟩
        · rw [splitNL_cons_ne hd t (by simpa using h1)]; rfl
        · rw [List.cons_append, splitNL_cons_ne hd _ (by simpa using h2)]; rfl

theorem endsNL_false_of_not_mem {s : List Char} (h : '\n' ∉ s) : endsNL s = false := by
  cases hx : endsNL s with
  | false => rfl
  | true =>
    obtain ⟨s0, rfl⟩ := endsNL_iff.mp hx
    exact absurd (by simp) h

theorem textSplitC_eq (s : List Char) (b : Bool) (h : ∀ c ∈ s, isStripCtl c = false) : textSplitC s b = textSplit s b := by
  unfold textSplitC textSplit
  cases b with
  | true => simp
  | false =>
    simp only [Bool.not_false, Bool.true_and]
    rcases List.eq_nil_or_concat s with h0 | ⟨s0, c, hs⟩
    · subst h0; simp
    · rw [List.concat_eq_append] at hs
      subst hs
      by_cases hc : c = '\n'
      · subst hc
        rw [splitNL_snoc_nl, endsNL_append_singleton]
        simp [stripCtl]
      · obtain ⟨init, last, h1, h2⟩ := splitNL_snoc_ne s0 c hc
        have hne : c ≠ '\n' := hc
        rw [h2, endsNL_append_singleton]
        have hcc : isStripCtl c = false := h c (by simp)
        have : (stripCtl (last ++ [c])).isEmpty = false := by
          simp [stripCtl, List.filter_append, hcc]
        simp [this, hne]

theorem popBlank_prefix' (X : List Line) : popBlank X <+: X := by
  unfold popBlank; split
  · exact List.dropLast_prefix X
  · exact List.prefix_refl X

theorem pySlice_nonneg (lines : List α) (lo : Nat) (hi : Int) (h : 0 ≤ hi) :
    pySlice lines lo hi = (lines.take hi.toNat).drop lo := by
  unfold pySlice
  have : ¬ hi < 0 := by omega
  simp only [this, if_false]
  congr 1
  by_cases hle : hi.toNat ≤ lines.length
  · rw [Nat.min_eq_right hle]
  · rw [Nat.min_eq_left (by omega), List.take_of_length_le (Nat.le_refl _), List.take_of_length_le (by omega)]

end RichModel.Syntax
