import RichModel.Lemmas.CollapseLe
import RichModel.Lemmas.CollapseKeep
/-!
`Table._collapse_widths` with columns that may NOT shrink (fixed `width`, `no_wrap`): as long as the budget covers the
fixed columns plus one cell for every wrappable column, no column drops below one cell.
-/
namespace RichModel

/-- Total width of the columns that may not shrink. -/
def nonWrapSum (zs : List (Int × Bool)) : Int := (zs.map (fun z => if z.2 then 0 else z.1)).sum
/-- Number of columns that may shrink. -/
def wrapCount (zs : List (Int × Bool)) : Int := (zs.map (fun z => if z.2 then (1 : Int) else 0)).sum

theorem nonWrapSum_mono : ∀ (a b : List Int) (wr : List Bool), ListLe a b → nonWrapSum (a.zip wr) ≤ nonWrapSum (b.zip wr)
  | [], [], _, _ => by simp [nonWrapSum]
  | [], _ :: _, _, h => by simp [ListLe] at h
  | _ :: _, [], _, h => by simp [ListLe] at h
  | _ :: _, _ :: _, [], _ => by simp [nonWrapSum]
  | x :: a, y :: b, w :: wr, h => by
    have hxy := h.2 (x, y) (by simp)
    have ih := nonWrapSum_mono a b wr ⟨by have := h.1; simpa using this, fun p hp => h.2 p (by simp [hp])⟩
    simp only [nonWrapSum, List.zip_cons_cons, List.map_cons, List.sum_cons] at ih ⊢
    simp only at hxy
    split <;> omega

theorem wrapCount_zip (a b : List Int) (wr : List Bool) (h : a.length = b.length) : wrapCount (a.zip wr) = wrapCount (b.zip wr) := by
  induction a generalizing b wr with
  | nil => cases b with
    | nil => rfl
    | cons _ _ => simp at h
  | cons x a ih => cases b with
    | nil => simp at h
    | cons y b => cases wr with
      | nil => simp [wrapCount]
      | cons w wr =>
        have := ih b wr (by simpa using h)
        simp only [wrapCount, List.zip_cons_cons, List.map_cons, List.sum_cons] at this ⊢
        omega

/-- `ratio_reduce` over items that are either `(ratio 1, cap, M)` or `(ratio 0, _, value ≥ 1)`. -/
theorem rrLoop_mixed (cap M : Int) (hM : 1 ≤ M) : ∀ (items : List (Int × Int × Int)) (rem tr : Int),
    (∀ it ∈ items, it = (1, cap, M) ∨ (it.1 = 0 ∧ 1 ≤ it.2.2)) → tr = (rrRatios items).sum → 0 ≤ rem → rem ≤ tr * (M - 1) →
    (M ≤ cap ∨ rem ≤ cap) → ∀ x ∈ ratioReduceLoop items rem tr, 1 ≤ x
  | [], _, _, _, _, _, _, _ => by simp [ratioReduceLoop]
  | it :: rest, rem, tr, hall, htr, h0, hle, hcap => by
    have hrest : ∀ i ∈ rest, i = (1, cap, M) ∨ (i.1 = 0 ∧ 1 ≤ i.2.2) := fun i hi => hall i (List.mem_cons_of_mem _ hi)
    have hrnn : 0 ≤ (rrRatios rest).sum := by
      apply sum_nonneg_of_all
      intro r hr
      simp only [rrRatios, List.mem_map] at hr
      obtain ⟨i, hi, rfl⟩ := hr
      rcases hrest i hi with h | h
      · rw [h]; simp
      · omega
    simp only [rrRatios, List.map_cons, List.sum_cons] at htr
    rcases hall it (by simp) with hit | hit
    · subst hit
      simp only at htr
      have htr1 : 1 ≤ tr := by simp only [rrRatios] at hrnn; omega
      unfold ratioReduceLoop
      have hcond : ((1 : Int) != 0 && decide (tr > 0)) = true := by simp; omega
      simp only [hcond, if_true, Int.one_mul]
      have hdq := rhe_ge_div rem tr
      have hdle : roundHalfEven rem tr ≤ M - 1 := rhe_le rem tr (M - 1) (by omega) (by rw [Int.mul_comm]; exact hle)
      have hd0 : 0 ≤ roundHalfEven rem tr := rhe_nonneg rem tr (by omega) h0
      have hdrem : roundHalfEven rem tr ≤ rem := by
        apply rhe_le rem tr rem (by omega)
        have : rem * tr = rem * (tr - 1) + rem := by rw [Int.mul_sub, Int.mul_one]; omega
        have : 0 ≤ rem * (tr - 1) := Int.mul_nonneg h0 (by omega)
        omega
      generalize roundHalfEven rem tr = d at *
      intro x hx
      rcases List.mem_cons.mp hx with hx | hx
      · omega
      · refine rrLoop_mixed cap M hM rest (rem - min cap d) (tr - 1) hrest (by simp only [rrRatios]; omega) (by omega) ?_ (by omega) x hx
        by_cases hcd : d ≤ cap
        · have : min cap d = d := by omega
          rw [this]
          exact even_split_step rem tr (M - 1) d htr1 hle hdq
        · have : min cap d = cap := by omega
          rw [this]
          have hrc : rem ≤ cap := by omega
          have : 0 ≤ (tr - 1) * (M - 1) := Int.mul_nonneg (by omega) (by omega)
          omega
    · obtain ⟨ratio, maximum, value⟩ := it
      simp only at hit htr
      obtain ⟨hr0, hv1⟩ := hit
      subst hr0
      unfold ratioReduceLoop
      simp only [bne_self_eq_false, Bool.false_and, Bool.false_eq_true, if_false]
      intro x hx
      rcases List.mem_cons.mp hx with hx | hx
      · omega
      · exact rrLoop_mixed cap M hM rest rem tr hrest (by simp only [rrRatios]; omega) h0 hle hcap x hx

theorem sum_split_wrap (M : Int) : ∀ (zs : List (Int × Bool)), (∀ z ∈ zs, z.2 = true → z.1 = M) →
    (zs.map (·.1)).sum = nonWrapSum zs + wrapCount zs * M
  | [], _ => by simp [nonWrapSum, wrapCount]
  | z :: zs, h => by
    have ih := sum_split_wrap M zs (fun x hx => h x (List.mem_cons_of_mem _ hx))
    have hz := h z (by simp)
    simp only [nonWrapSum, wrapCount, List.map_cons, List.sum_cons] at ih ⊢
    cases hb : z.2 with
    | true =>
      have hzM : z.1 = M := hz hb
      simp only [if_true, hzM]
      rw [Int.add_mul, Int.one_mul]; omega
    | false =>
      simp only [Bool.false_eq_true, if_false]
      rw [Int.add_mul, Int.zero_mul]; omega

/-- One iteration keeps every column at one cell or more, when the budget covers the unshrinkable columns plus one cell
per shrinkable column. -/
theorem collapseStep_keep_mixed (widths : List Int) (wrapable : List Bool) (maxWidth : Int)
    (hlen : widths.length = wrapable.length) (h1 : ∀ w ∈ widths, 1 ≤ w)
    (hmw : nonWrapSum (widths.zip wrapable) + wrapCount (widths.zip wrapable) ≤ maxWidth) (w' : List Int)
    (h : collapseStep widths wrapable maxWidth = some w') : ∀ w ∈ w', 1 ≤ w := by
  have hnn : ∀ w ∈ widths, 0 ≤ w := fun w hw => by have := h1 w hw; omega
  obtain ⟨items, tr, hw', hv, htr, hpos, hex, M, S, m, hM, hS, hm, hm1, hSM, hitems⟩ :=
    collapseStep_unfold widths wrapable maxWidth hlen hnn w' h
  generalize hz : widths.zip wrapable = zs at *
  have hz1 : ∀ z ∈ zs, 1 ≤ z.1 := by
    intro z hzm; rw [← hz] at hzm; exact h1 _ (List.of_mem_zip hzm).1
  have hsmge : ∀ z ∈ zs, z.2 = true → z.1 ≠ M → z.1 ≤ S := by
    intro z hzm hb hne
    rw [hS]
    apply listMax_ge
    simp only [List.mem_map]
    exact ⟨z, hzm, by simp [hb, hne]⟩
  obtain ⟨blen, _, _, bpt⟩ := ratioReduceLoop_bounds items (widths.sum - maxWidth) tr hpos htr hex
  rw [← hw'] at blen bpt
  by_cases hs1 : 1 ≤ S
  · intro r hr
    obtain ⟨it, hit⟩ := exists_zip_of_mem items w' blen.symm r hr
    have hb := bpt (it, r) hit
    have hzr := ratioReduceLoop_zero_ratio items (widths.sum - maxWidth) tr (it, r) (by rw [← hw']; exact hit)
    simp only at hb hzr
    have hitm := (List.of_mem_zip hit).1
    rw [hitems] at hitm
    simp only [List.mem_map] at hitm
    obtain ⟨q, hq, rfl⟩ := hitm
    simp only at hb hzr
    by_cases hc : (q.1 == M && q.2) = true
    · simp only [Bool.and_eq_true, beq_iff_eq] at hc
      have := hc.1
      omega
    · have := hzr (by simp [hc])
      have := hz1 q hq
      omega
  · -- every shrinkable column is at the maximum
    have hS0 : S ≤ 0 := by omega
    have hallM : ∀ z ∈ zs, z.2 = true → z.1 = M := by
      intro z hzm hb
      by_cases hzz : z.1 = M
      · exact hzz
      · have := hsmge z hzm hb hzz
        have := hz1 z hzm
        omega
    have hS0' : 0 ≤ S := by
      rw [hS]
      cases hzs : zs with
      | nil => simp [listMax]
      | cons a r =>
        have hmem := listMax_mem ((a :: r).map (fun p => if p.2 && p.1 != M then p.1 else 0)) (by simp)
        simp only [List.mem_map] at hmem
        obtain ⟨q, hq, hqe⟩ := hmem
        rw [← hqe]
        split
        · have := hz1 q (by rw [hzs]; exact hq); omega
        · omega
    have hS00 : S = 0 := by omega
    have hM1 : 1 ≤ M := by omega
    have hitu : ∀ it ∈ items, it = (1, m, M) ∨ (it.1 = 0 ∧ 1 ≤ it.2.2) := by
      intro it hit; rw [hitems] at hit; simp only [List.mem_map] at hit
      obtain ⟨q, hq, rfl⟩ := hit
      cases hb : q.2 with
      | true => left; simp [hallM q hq hb]
      | false => right; simp; exact hz1 q hq
    have hratios : rrRatios items = zs.map (fun z => if z.2 then (1 : Int) else 0) := by
      rw [hitems]; simp only [rrRatios, List.map_map]
      apply List.map_congr_left
      intro q hq
      by_cases hb : q.2 = true
      · simp [hallM q hq hb, hb]
      · simp [hb]
    have htrk : tr = wrapCount zs := by rw [htr, hratios]; rfl
    have hwsum : widths.sum = nonWrapSum zs + wrapCount zs * M := by
      have := sum_split_wrap M zs hallM
      rw [← this, ← hz, map_fst_zip _ _ hlen]
    have hmul : wrapCount zs * (M - 1) = wrapCount zs * M - wrapCount zs := by rw [Int.mul_sub, Int.mul_one]
    rw [hw']
    exact rrLoop_mixed m M hM1 items (widths.sum - maxWidth) tr hitu htr hex (by rw [htrk, hmul]; omega) (by omega)

theorem collapseLoop_keep_mixed (wrapable : List Bool) (maxWidth : Int) :
    ∀ (fuel : Nat) (widths : List Int), widths.length = wrapable.length → (∀ w ∈ widths, 1 ≤ w) →
      nonWrapSum (widths.zip wrapable) + wrapCount (widths.zip wrapable) ≤ maxWidth →
      ∀ w ∈ collapseLoop fuel widths wrapable maxWidth, 1 ≤ w
  | 0, _, _, h1, _ => by unfold collapseLoop; exact h1
  | fuel+1, widths, hlen, h1, hmw => by
    unfold collapseLoop
    cases hs : collapseStep widths wrapable maxWidth with
    | none => exact h1
    | some w' =>
      simp only
      have hnn : ∀ w ∈ widths, 0 ≤ w := fun w hw => by have := h1 w hw; omega
      obtain ⟨l1, _, _, _⟩ := collapseStep_some widths wrapable maxWidth hlen hnn w' hs
      have hle := collapseStep_le widths wrapable maxWidth hlen hnn w' hs
      have hmono := nonWrapSum_mono w' widths wrapable hle
      have hcnt := wrapCount_zip w' widths wrapable l1
      exact collapseLoop_keep_mixed wrapable maxWidth fuel w' (by omega)
        (collapseStep_keep_mixed widths wrapable maxWidth hlen h1 hmw w' hs) (by omega)

/-- **`_collapse_widths` with unshrinkable columns**: every width at least 1 and a budget of the unshrinkable columns'
widths plus one cell per shrinkable column — every collapsed width is still at least 1. -/
theorem collapseWidths_keep_mixed (widths : List Int) (wrapable : List Bool) (maxWidth : Int)
    (hlen : widths.length = wrapable.length) (h1 : ∀ w ∈ widths, 1 ≤ w)
    (hmw : nonWrapSum (widths.zip wrapable) + wrapCount (widths.zip wrapable) ≤ maxWidth) :
    ∀ w ∈ collapseWidths widths wrapable maxWidth, 1 ≤ w := by
  unfold collapseWidths
  split
  · exact collapseLoop_keep_mixed wrapable maxWidth _ widths hlen h1 hmw
  · exact h1

end RichModel
