import RichModel.Model.AnsiProxyApi
import RichModel.Lemmas.AnsiProxy
namespace RichModel
namespace Ansi

theorem flush_empty (cfg : Cfg) (p : Proxy) (b : Bool) (h : p.buffer = []) : p.flush cfg b = (p, []) := by
  simp [Proxy.flush, h]

theorem write_empty (cfg : Cfg) (p : Proxy) : p.write cfg [] = (p, []) := by
  obtain ⟨buf, st⟩ := p
  simp [Proxy.write, writeLoop]

theorem write_notStr (cfg : Cfg) (p : Proxy) : apiWrite cfg p .notStr = (p, [.typeError]) := rfl

/-- with a decoder that never raises, a `write` of a `str` never raises -/
theorem write_no_raise (cfg : Cfg) (ht : ∀ st l, ∃ st' runs, decodeLine cfg st l = (st', .ok runs)) (p : Proxy) (s : List Char) :
    raisedIn ((p.write cfg s).2.map .ev) = false := by
  unfold Proxy.write
  simp only
  split
  · rfl
  · obtain ⟨s2, t2, e, _⟩ := decodeMany_total ht p.style (writeLoop s [] p.buffer []).1
    rw [e]
    rfl

theorem run_append (cfg : Cfg) (p : Proxy) (a b : List Op) :
    run cfg p (a ++ b) = ((run cfg (run cfg p a).1 b).1, (run cfg p a).2 ++ (run cfg (run cfg p a).1 b).2) := by
  induction a generalizing p with
  | nil => simp [run]
  | cons op r ih => simp [run, ih, List.append_assoc]

def strsOf (xs : List Arg) : List Op := xs.filterMap fun | .str s => some (Op.write s) | .notStr => none

theorem writelines_str (cfg : Cfg) (ht : ∀ st l, ∃ st' runs, decodeLine cfg st l = (st', .ok runs)) (xs : List Arg)
    (h : xs.all (fun | .str _ => true | .notStr => false) = true) (p : Proxy) :
    apiWritelines cfg p xs = ((run cfg p (strsOf xs)).1, (run cfg p (strsOf xs)).2.map .ev) := by
  induction xs generalizing p with
  | nil => rfl
  | cons x r ih =>
    cases x with
    | notStr => simp at h
    | str s =>
      have hr : r.all (fun | .str _ => true | .notStr => false) = true := by simpa using h
      simp only [apiWritelines, apiWrite, write_no_raise cfg ht p s, Bool.false_eq_true, if_false, ih hr, strsOf,
        List.filterMap_cons, run, Proxy.step, List.map_append]

theorem apiRun_str (cfg : Cfg) (ht : ∀ st l, ∃ st' runs, decodeLine cfg st l = (st', .ok runs)) (h : List ApiOp)
    (hs : allStr h = true) (p : Proxy) :
    apiRun cfg p h = ((run cfg p (flatOps h)).1, (run cfg p (flatOps h)).2.map .ev) := by
  induction h generalizing p with
  | nil => rfl
  | cons op r ih =>
    cases op with
    | write a =>
      cases a with
      | notStr => simp [allStr] at hs
      | str s =>
        simp only [allStr] at hs
        simp only [apiRun, apiStep, apiWrite, ih hs, flatOps, run, Proxy.step, List.map_append]
    | flush =>
      simp only [allStr] at hs
      simp only [apiRun, apiStep, ih hs, flatOps, run, Proxy.step, List.map_append]
    | writelines xs =>
      simp only [allStr, Bool.and_eq_true] at hs
      simp only [apiRun, apiStep, writelines_str cfg ht xs hs.1, ih hs.2, flatOps, run_append, List.map_append]
      rfl

end Ansi
end RichModel
