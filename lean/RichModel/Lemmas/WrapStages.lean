import RichModel.Lemmas.Wrap
/-!
What each per-line stage of `Text.wrap` does to the styled string of a line (repaired Text model):
`SameInk L M` — `M` is a consistent text showing exactly the non-whitespace characters of `L`, each with the
effective style it has in `L`.
-/
namespace RichModel
namespace Wrap
open Text
variable {σ : Type}
variable {chars : Bool}

/-- `M` shows exactly the non-whitespace characters of `L`, in order, each with the effective style it has in `L` -/
structure SameInk (L M : Text σ) : Prop where
  inv : Inv M
  style : M.style = L.style
  ink : nsv M.view = nsv L.view

theorem SameInk.refl (L : Text σ) (h : Inv L) : SameInk L L := ⟨h, rfl, rfl⟩

theorem SameInk.trans {L M N : Text σ} (h1 : SameInk L M) (h2 : SameInk M N) : SameInk L N :=
  ⟨h2.inv, h2.style.trans h1.style, h2.ink.trans h1.ink⟩

theorem space_isSpace : pyIsSpace ' ' = true := by decide

/-! ### rstrip_end -/

theorem rstripEnd_spec (cw : Char → Nat) (t : Text σ) (h : Inv t) (size : Nat) :
    ∃ k, rlen t.plain ≤ k ∧ (Text.rstripEndW chars cw Variant.repaired t (size : Int)).plain = t.plain.take k ∧
      (Text.rstripEndW chars cw Variant.repaired t (size : Int)).view = t.view.take k ∧
      Inv (Text.rstripEndW chars cw Variant.repaired t (size : Int)) ∧ (Text.rstripEndW chars cw Variant.repaired t (size : Int)).style = t.style := by
  have hnoop : ∃ k, rlen t.plain ≤ k ∧ t.plain = t.plain.take k ∧ t.view = t.view.take k ∧ Inv t ∧ t.style = t.style :=
    ⟨t.plain.length, rlen_le _, by simp, by rw [List.take_of_length_le]; rw [view_eq_annot, annot_length]; omega, h, rfl⟩
  unfold Text.rstripEndW
  simp only
  -- the length the code compares with the width: characters (as found) or cells (repaired, fix f5f2be9)
  have hTL : ∃ n : Nat, (if chars = true then t.length else (cellLen cw t.plain : Int)) = (n : Int) := by
    cases chars
    · exact ⟨cellLen cw t.plain, by simp⟩
    · exact ⟨t.plain.length, by simp [h.1]⟩
  obtain ⟨n, hn⟩ := hTL
  rw [hn]
  split
  · rename_i hgt
    split
    · rename_i hws
      have hcast : min (trailingSpaceCount t.plain : Int) ((n : Int) - (size : Int)) =
          ((min (trailingSpaceCount t.plain) (n - size) : Nat) : Int) := by omega
      rw [hcast]
      refine ⟨t.plain.length - min (trailingSpaceCount t.plain) (n - size), ?_, ?_, view_rightCrop _ _,
        inv_rightCrop _ _ h, ?_⟩
      · have := trailing_add_rlen t.plain; omega
      · rw [rightCrop_nat]
      · rw [rightCrop_nat]
    · exact hnoop
  · exact hnoop

theorem rstripEnd_sameInk (cw : Char → Nat) (t : Text σ) (h : Inv t) (size : Nat) :
    SameInk t (Text.rstripEndW chars cw Variant.repaired t (size : Int)) ∧
      pyRstrip (Text.rstripEndW chars cw Variant.repaired t (size : Int)).plain = pyRstrip t.plain := by
  obtain ⟨k, hk, hp, hv, hi, hs⟩ := rstripEnd_spec (chars := chars) cw t h size
  refine ⟨⟨hi, hs, ?_⟩, ?_⟩
  · rw [hv]; exact nsv_take _ _ (view_drop_space t k hk)
  · rw [hp]; exact pyRstrip_take _ _ hk

/-! ### rstrip -/

theorem rstrip_sameInk (t : Text σ) (h : Inv t) :
    SameInk t t.rstrip ∧ t.rstrip.plain = pyRstrip t.plain := by
  unfold Text.rstrip
  refine ⟨⟨?_, setPlain_style _ _, ?_⟩, setPlain_plain _ _⟩
  · apply inv_setPlain _ _ h
    rw [pyRstrip_eq_take]; exact NoCtl.take _ h.2.1
  · rw [view_setPlain _ _ h, pyRstrip_eq_take, annot_take, ← view_eq_annot]
    exact nsv_take _ _ (view_drop_space t _ (Nat.le_refl _))

/-! ### pad_left / pad_right -/

theorem padLeft_style (t : Text σ) (n : Int) (ch : Char) : (t.padLeft n ch).style = t.style := by
  rw [padLeft_eq]; split
  · exact setPlain_style _ _
  · rfl

theorem padLeft_plain (t : Text σ) (n : Nat) (ch : Char) : (t.padLeft (n : Int) ch).plain = List.replicate n ch ++ t.plain := by
  rw [padLeft_eq]; split
  · simp [setPlain_plain]
  · rename_i hz
    simp only [bne_iff_ne, ne_eq, Decidable.not_not] at hz
    have : n = 0 := by omega
    subst this; simp

theorem padRight_style (t : Text σ) (n : Int) (ch : Char) : (t.padRight n ch).style = t.style := by
  rw [padRight_eq]; split
  · exact setPlain_style _ _
  · rfl

theorem padRight_plain (t : Text σ) (n : Nat) (ch : Char) : (t.padRight (n : Int) ch).plain = t.plain ++ List.replicate n ch := by
  rw [padRight_eq]; split
  · simp [setPlain_plain]
  · rename_i hz
    simp only [bne_iff_ne, ne_eq, Decidable.not_not] at hz
    have : n = 0 := by omega
    subst this; simp

theorem nsv_replicate_space {β : Type} (n : Nat) (b : β) : nsv (List.replicate n (' ', b)) = [] := by
  apply nsv_space
  intro p hp
  rw [List.eq_of_mem_replicate hp]; exact space_isSpace

theorem padLeft_sameInk (t : Text σ) (h : Inv t) (n : Nat) : SameInk t (t.padLeft (n : Int) ' ') := by
  refine ⟨inv_padLeft _ _ _ h noCtl_space, padLeft_style _ _ _, ?_⟩
  rw [view_padLeft _ _ _ h, nsv_append, nsv_replicate_space, List.nil_append]

theorem padRight_sameInk (t : Text σ) (h : Inv t) (n : Nat) : SameInk t (t.padRight (n : Int) ' ') := by
  refine ⟨inv_padRight _ _ _ h noCtl_space, padRight_style _ _ _, ?_⟩
  rw [view_padRight _ _ _ h, nsv_append, nsv_replicate_space, List.append_nil]

/-! ### truncate -/

theorem truncate_noop (cw : Char → Nat) (t : Text σ) (w : Nat) (ov : Overflow) (h : cellLen cw t.plain ≤ w) :
    t.truncate cw (w : Int) (some ov) false = t := by
  rw [truncate_some]
  have : ¬ ((cellLen cw t.plain : Int) > (w : Int)) := by omega
  simp only [this, if_false, Bool.false_and, Bool.false_eq_true]
  split <;> rfl

theorem truncate_ignore (cw : Char → Nat) (t : Text σ) (w : Int) (pad : Bool) :
    t.truncate cw w (some Overflow.ignore) pad = t := by
  rw [truncate_some]; rfl

theorem annot_space_tail {β : Type} (a : List Char) (m : Nat) (f : Nat → β) :
    nsv (annot (a ++ List.replicate m ' ') f 0) = nsv (annot a f 0) := by
  rw [annot_append, nsv_append]
  have : nsv (annot (List.replicate m ' ') f (0 + a.length)) = [] :=
    nsv_space _ (annot_space _ _ _ (by intro c hc; rw [List.eq_of_mem_replicate hc]; exact space_isSpace))
  rw [this, List.append_nil]

/-- cropping (overflow "fold" or "crop") a line whose text without trailing whitespace fits: nothing but
trailing whitespace goes, and whatever is appended is blank -/
theorem truncate_sameInk (cw : Char → Nat) (t : Text σ) (h : Inv t) (w : Nat) (ov : Overflow)
    (hov : ov ≠ Overflow.ellipsis) (pad : Bool) (hfit : cellLen cw (pyRstrip t.plain) ≤ w) :
    SameInk t (t.truncate cw (w : Int) (some ov) pad) := by
  rw [truncate_some]
  split
  · have hell : (ov == Overflow.ellipsis) = false := by cases ov <;> first | rfl | exact absurd rfl hov
    simp only [hell, Bool.false_eq_true, if_false]
    by_cases hlong : (cellLen cw t.plain : Int) > (w : Int)
    · have hnp : ¬ ((cellLen cw t.plain : Int) < (w : Int)) := by omega
      simp only [hlong, if_true, hnp, decide_false, Bool.and_false, Bool.false_eq_true, if_false]
      rw [setCellSizeI_nat]
      have hsplit : t.plain = pyRstrip t.plain ++ t.plain.drop (rlen t.plain) := by
        rw [pyRstrip_eq_take]; exact (List.take_append_drop _ _).symm
      obtain ⟨k, m, hkm, hk⟩ := setCellSize_keeps cw (pyRstrip t.plain) (t.plain.drop (rlen t.plain)) w hfit
      rw [← hsplit] at hkm
      rw [hkm]
      refine ⟨?_, setPlain_style _ _, ?_⟩
      · exact inv_setPlain _ _ h (NoCtl.append (NoCtl.take _ h.2.1) (NoCtl.replicate _ _ noCtl_space))
      · rw [view_setPlain _ _ h, annot_space_tail, annot_take, ← view_eq_annot]
        exact nsv_take _ _ (view_drop_space t k hk)
    · simp only [hlong, if_false]
      split
      · refine ⟨⟨rfl, NoCtl.append h.2.1 (NoCtl.replicate _ _ noCtl_space), ?_⟩, rfl, ?_⟩
        · exact SpansIn.mono h.2.2 (by have := h.1; simp only [List.length_append]; omega)
        · rw [view_eq_annot]
          show nsv (annot (t.plain ++ List.replicate _ ' ') t.effStyle 0) = _
          rw [annot_space_tail, ← view_eq_annot]
      · exact SameInk.refl t h
  · exact SameInk.refl t h

/-! ### one line through `rstrip_end`, `Lines.justify` (left / center / right / default) and `truncate` -/

/-- what `Lines.justify` does to each line in the four modes that treat lines separately -/
def justifyOne (wv : WVariant) (cw : Char → Nat) (width : Nat) (j : Justify) (o : Overflow) (l : Text σ) : Text σ :=
  match j with
  | .left => l.truncate cw width (some o) true
  | .center =>
      let l1 := (l.rstrip).truncate cw width (some o)
      let l2 := l1.padLeft (padCount wv (((width : Int) - (cellLen cw l1.plain : Int)) / 2))
      l2.padRight ((width : Int) - (cellLen cw l2.plain : Int))
  | .right =>
      let l1 := (l.rstrip).truncate cw width (some o)
      l1.padLeft (padCount wv ((width : Int) - (cellLen cw l1.plain : Int)))
  | _ => l

theorem justifyLines_map [BEq σ] (wv : WVariant) (cw : Char → Nat) (A : StyleAlg σ) (lines : List (Text σ)) (w : Nat)
    (j : Justify) (o : Overflow) (hj : j ≠ Justify.full) :
    justifyLines wv cw A lines w j o = .ok (lines.map (justifyOne wv cw w j o)) := by
  cases j with
  | full => exact absurd rfl hj
  | default =>
    unfold justifyLines
    simp only
    rw [show (justifyOne wv cw w Justify.default o : Text σ → Text σ) = id from rfl, List.map_id]
  | left => rfl
  | center => rfl
  | right => rfl

/-- the line `Text.wrap` finally produces from a divided line `l` (modes other than "full") -/
def finishLine (wv : WVariant) (cw : Char → Nat) (width : Nat) (j : Justify) (o : Overflow) (l : Text σ) : Text σ :=
  (justifyOne wv cw width j o (Text.rstripEndW wv.rstripChars cw wv.text l width)).truncate cw width (some o)

theorem cellLen_replicate_space (cw : Char → Nat) (hsp : cw ' ' = 1) (n : Nat) :
    cellLen cw (List.replicate n ' ') = n := by
  rw [cellLen_replicate, hsp]; omega

/-- with folding, a divided line whose text (without its trailing whitespace) fits the width keeps all its
non-whitespace characters and their styles through stripping, justification and the final crop -/
theorem finishLine_fold_sameInk (cw : Char → Nat) (hsp : cw ' ' = 1) (h2 : ∀ c, cw c ≤ 2) (w : Nat) (j : Justify) (hj : j ≠ Justify.full)
    (L : Text σ) (h : Inv L) (hfit : cellLen cw (pyRstrip L.plain) ≤ w) :
    SameInk L (finishLine (WVariant.fixed chars) cw w j Overflow.fold L) := by
  obtain ⟨h0, hr0⟩ := rstripEnd_sameInk (chars := chars) cw L h w
  have hfit0 : cellLen cw (pyRstrip (Text.rstripEndW chars cw Variant.repaired L (w : Int)).plain) ≤ w := by rw [hr0]; exact hfit
  unfold finishLine
  show SameInk L ((justifyOne (WVariant.fixed chars) cw w j Overflow.fold (Text.rstripEndW chars cw Variant.repaired L (w : Int))).truncate cw w _)
  generalize Text.rstripEndW chars cw Variant.repaired L (w : Int) = l0 at h0 hfit0
  have hne : Overflow.fold ≠ Overflow.ellipsis := by decide
  cases j with
  | full => exact absurd rfl hj
  | default =>
    exact h0.trans (truncate_sameInk cw l0 h0.inv w _ hne false hfit0)
  | left =>
    have h1 := truncate_sameInk cw l0 h0.inv w Overflow.fold hne true hfit0
    have hle : cellLen cw (l0.truncate cw (w : Int) (some Overflow.fold) true).plain ≤ w := by
      -- either padded to exactly w, or cropped to w, or short and unpadded
      rw [truncate_some]
      simp only [show (Overflow.fold != Overflow.ignore) = true from rfl, if_true,
        show (Overflow.fold == Overflow.ellipsis) = false from rfl, Bool.false_eq_true, if_false]
      by_cases hlong : (cellLen cw l0.plain : Int) > (w : Int)
      · have hnp : ¬ ((cellLen cw l0.plain : Int) < (w : Int)) := by omega
        simp only [hlong, if_true, hnp, decide_false, Bool.and_false, Bool.false_eq_true, if_false, setPlain_plain]
        rw [setCellSizeI_nat]
        rw [(setCellSize_exact cw hsp h2 _ _).1]; omega
      · simp only [hlong, if_false, Bool.true_and]
        split
        · rename_i hlt
          simp only [decide_eq_true_eq] at hlt
          rw [cellLen_append, cellLen_replicate_space cw hsp]; omega
        · omega
    show SameInk L ((l0.truncate cw (w : Int) (some Overflow.fold) true).truncate cw w _)
    rw [truncate_noop cw _ w _ hle]
    exact h0.trans h1
  | center =>
    obtain ⟨h1, hp1⟩ := rstrip_sameInk l0 h0.inv
    have hle1 : cellLen cw l0.rstrip.plain ≤ w := by rw [hp1]; exact hfit0
    simp only [justifyOne]
    rw [truncate_noop cw _ w _ hle1]
    have hc1 : padCount (WVariant.fixed chars) (((w : Int) - (cellLen cw l0.rstrip.plain : Int)) / 2)
        = (((w - cellLen cw l0.rstrip.plain) / 2 : Nat) : Int) := by
      simp only [padCount, WVariant.fixed]; omega
    rw [hc1]
    have h2 := padLeft_sameInk l0.rstrip h1.inv ((w - cellLen cw l0.rstrip.plain) / 2)
    have hlen2 : cellLen cw (l0.rstrip.padLeft (((w - cellLen cw l0.rstrip.plain) / 2 : Nat) : Int) ' ').plain
        = (w - cellLen cw l0.rstrip.plain) / 2 + cellLen cw l0.rstrip.plain := by
      rw [padLeft_plain, cellLen_append, cellLen_replicate_space cw hsp]
    generalize l0.rstrip.padLeft (((w - cellLen cw l0.rstrip.plain) / 2 : Nat) : Int) ' ' = l2 at h2 hlen2
    have hc2 : (w : Int) - (cellLen cw l2.plain : Int) = ((w - cellLen cw l2.plain : Nat) : Int) := by omega
    rw [hc2]
    have h3 := padRight_sameInk l2 h2.inv (w - cellLen cw l2.plain)
    have hlen3 : cellLen cw (l2.padRight ((w - cellLen cw l2.plain : Nat) : Int) ' ').plain ≤ w := by
      rw [padRight_plain, cellLen_append, cellLen_replicate_space cw hsp]; omega
    rw [truncate_noop cw _ w _ hlen3]
    exact ((h0.trans h1).trans h2).trans h3
  | right =>
    obtain ⟨h1, hp1⟩ := rstrip_sameInk l0 h0.inv
    have hle1 : cellLen cw l0.rstrip.plain ≤ w := by rw [hp1]; exact hfit0
    simp only [justifyOne]
    rw [truncate_noop cw _ w _ hle1]
    have hc1 : padCount (WVariant.fixed chars) ((w : Int) - (cellLen cw l0.rstrip.plain : Int))
        = ((w - cellLen cw l0.rstrip.plain : Nat) : Int) := by
      simp only [padCount, WVariant.fixed]; omega
    rw [hc1]
    have h2 := padLeft_sameInk l0.rstrip h1.inv (w - cellLen cw l0.rstrip.plain)
    have hlen2 : cellLen cw (l0.rstrip.padLeft ((w - cellLen cw l0.rstrip.plain : Nat) : Int) ' ').plain ≤ w := by
      rw [padLeft_plain, cellLen_append, cellLen_replicate_space cw hsp]; omega
    rw [truncate_noop cw _ w _ hlen2]
    exact (h0.trans h1).trans h2

end Wrap
end RichModel
