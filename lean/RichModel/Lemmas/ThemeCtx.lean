import RichModel.Model.ThemeCtx
import RichModel.Lemmas.Theme
import RichModel.Lemmas.ThemeHist
import RichModel.Lemmas.ThemeThreads
/-!
Lemmas about `ThemeContext` objects with identity (property C20, deepening round 4).
-/
namespace RichModel.Theme

variable {σ : Type}

theorem runCOps_cons (f : Bool) (env : CtxEnv σ) (op : COp σ) (rest : List (COp σ)) (st : Stack σ) :
    runCOps f env (op :: rest) st =
      match runCOp f env op st with
      | (st', .normal) => runCOps f env rest st'
      | r => r := by
  rw [runCOps]
  rfl

mutual
/-- a `with ctx_c:` statement is a `with console.use_theme(ctx_c.theme, inherit=ctx_c.inherit):` statement -/
theorem runCOp_erase (f : Bool) (env : CtxEnv σ) (op : COp σ) (st : Stack σ) :
    runCOp f env op st = runOp f (eraseOp env op) st :=
  match op with
  | .push t i => by simp only [eraseOp, runCOp, runOp]; cases pushTheme st t i <;> rfl
  | .pop => by simp only [eraseOp, runCOp, runOp]; cases popTheme st <;> rfl
  | .raise => by simp [eraseOp, runCOp, runOp]
  | .withC c body => by
    simp only [eraseOp, runCOp, runOp]
    cases ctxEnter f st (env c).theme (env c).inherit with
    | error e => rfl
    | ok st1 =>
      simp only [runCOps_erase f env body st1]
      cases ctxExit (runOps f (eraseOps env body) st1).fst <;> rfl
theorem runCOps_erase (f : Bool) (env : CtxEnv σ) (ops : List (COp σ)) (st : Stack σ) :
    runCOps f env ops st = runOps f (eraseOps env ops) st :=
  match ops with
  | [] => by simp [eraseOps, runCOps, runOps]
  | op :: rest => by
    rw [eraseOps, runCOps_cons, runOps_cons, runCOp_erase f env op st]
    cases runOp f (eraseOp env op) st with
    | mk s o =>
      cases o with
      | normal => exact runCOps_erase f env rest s
      | raised e => rfl
end

/-- `ctxEnter` always succeeds on a well-formed stack, gives a well-formed stack, and `ctxExit` undoes it. -/
theorem ctxEnter_exit (f : Bool) (st : Stack σ) (hwf : st.WF) (t : Theme σ) (i : Bool) :
    ∃ st1, ctxEnter f st t i = .ok st1 ∧ st1.WF ∧ ctxExit st1 = .ok st := by
  unfold ctxEnter ctxExit
  obtain ⟨st1, h1⟩ := pushTheme_ok st hwf t (if f then true else i)
  exact ⟨st1, h1, pushTheme_wf st st1 t _ hwf h1, popTheme_pushTheme st st1 t _ hwf h1⟩

/-- `n` hand-called `__enter__`s — any context objects, the same one as often as one likes — followed by
`n` `__exit__`s (of whichever objects: `__exit__` only pops) leave the stack exactly as it was. -/
theorem runF_enters_exits (f : Bool) (env : CtxEnv σ) :
    ∀ (cs ds : List Nat) (st : Stack σ), st.WF → ds.length = cs.length →
      runF f ((cs.map CStep.enterC ++ ds.map CStep.exitC).map (CStep.toF env)) st = st
  | [], ds, st, _, hl => by
    have : ds = [] := by simpa using hl
    subst this; rfl
  | c :: cs, ds, st, hwf, hl => by
    obtain ⟨st1, h1, hwf1, hx⟩ := ctxEnter_exit f st hwf (env c).theme (env c).inherit
    -- split the last exit off
    have hne : ds ≠ [] := by intro e; simp [e] at hl
    obtain ⟨ds', d, rfl⟩ : ∃ ds' d, ds = ds' ++ [d] := ⟨ds.dropLast, ds.getLast hne, (List.dropLast_concat_getLast hne).symm⟩
    have hl' : ds'.length = cs.length := by simpa using hl
    have ih := runF_enters_exits f env cs ds' st1 hwf1 hl'
    simp only [List.map_cons, List.cons_append, List.map_append, CStep.toF, runF, applyF, h1]
    rw [← List.append_assoc, runF_append]
    have ih' : runF f (List.map (CStep.toF env) (List.map CStep.enterC cs) ++
        List.map (CStep.toF env) (List.map CStep.exitC ds')) st1 = st1 := by
      simpa [List.map_append] using ih
    rw [ih']
    simp [runF, applyF, hx]

end RichModel.Theme
