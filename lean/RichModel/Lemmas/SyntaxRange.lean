import RichModel.Lemmas.Syntax
/-
Helper lemmas for property C17, part 2: the ranged path of `Syntax.highlight` (line_tokenize +
tokens_to_spans) refines "the text up to and including a certain newline".
-/
namespace RichModel.Syntax

/-- A piece produced by `line_tokenize`: newline-free, optionally followed by one newline. -/
def PieceOK (p : Line) : Prop := ∃ x, '\n' ∉ x ∧ (p = x ++ ['\n'] ∨ p = x)

theorem endsNL_of_noNL {x : List Char} (h : '\n' ∉ x) : endsNL x = false := by
  cases hx : endsNL x with
  | false => rfl
  | true =>
    obtain ⟨s0, rfl⟩ := endsNL_iff.mp hx
    exact absurd (by simp) h

theorem takeThroughNL_piece {p : Line} (hp : PieceOK p) (k : Nat) (r : List Char) :
    takeThroughNL (k + 1) (p ++ r) = p ++ takeThroughNL (if endsNL p then k else k + 1) r := by
  obtain ⟨x, hx, rfl | rfl⟩ := hp
  · rw [endsNL_append_singleton]
    simp only [beq_self_eq_true, if_true]
    rw [List.append_assoc, List.singleton_append, takeThroughNL_line x r k hx]
    simp
  · rw [endsNL_of_noNL hx]
    simpa using takeThroughNL_noNL_append p r k hx

theorem pieces_flatten : ∀ (s : List Char), (pieces s).flatten = s
  | [] => by simp [pieces]
  | c :: rest => by
    have ih := pieces_flatten rest
    unfold pieces
    split
    · rename_i h
      have hc : c = '\n' := by simpa using h
      simp [hc, ih]
    · split
      · rename_i h0
        rw [h0] at ih
        simp at ih
        simp [← ih]
      · rename_i p ps h0
        rw [h0] at ih
        simp at ih
        simp [← ih]

theorem pieces_ok : ∀ (s : List Char), ∀ p ∈ pieces s, PieceOK p
  | [] => by simp [pieces]
  | c :: rest => by
    have ih := pieces_ok rest
    unfold pieces
    split
    · intro p hp
      rcases List.mem_cons.mp hp with h | h
      · subst h; exact ⟨[], by simp, Or.inl (by simp)⟩
      · exact ih p h
    · rename_i hc
      have hc' : c ≠ '\n' := by simpa using hc
      split
      · intro p hp
        have : p = [c] := by simpa using hp
        subst this
        exact ⟨[c], by simpa using hc'.symm, Or.inr rfl⟩
      · rename_i q qs h0
        rw [h0] at ih
        intro p hp
        rcases List.mem_cons.mp hp with h | h
        · subst h
          obtain ⟨x, hx, hq⟩ := ih q (by simp)
          refine ⟨c :: x, ?_, ?_⟩
          · intro hm
            rcases List.mem_cons.mp hm with h1 | h1
            · exact hc' h1.symm
            · exact hx h1
          · rcases hq with hq | hq
            · exact Or.inl (by simp [hq])
            · exact Or.inr (by simp [hq])
        · exact ih p (by simp [h])

theorem lineTokenize_flatten (toks : List Line) : (lineTokenize toks).flatten = toks.flatten := by
  induction toks with
  | nil => simp [lineTokenize]
  | cons t ts ih =>
    simp only [lineTokenize, List.flatMap_cons, List.flatten_append, List.flatten_cons] at *
    rw [pieces_flatten, ih]

theorem lineTokenize_ok (toks : List Line) : ∀ p ∈ lineTokenize toks, PieceOK p := by
  intro p hp
  simp only [lineTokenize, List.mem_flatMap] at hp
  obtain ⟨t, _, h⟩ := hp
  exact pieces_ok t p h

theorem takeLoop_flatten (le : Int) : ∀ (ps : List Line) (ln : Nat), (∀ p ∈ ps, PieceOK p) →
    (takeLoop le ln ps).flatten = takeThroughNL (max 1 (le - ln).toNat) ps.flatten
  | [], ln, _ => by simp [takeLoop]
  | p :: rest, ln, h => by
    have hp : PieceOK p := h p (by simp)
    have hr : ∀ q ∈ rest, PieceOK q := fun q hq => h q (by simp [hq])
    obtain ⟨K, hK⟩ : ∃ K, max 1 (le - ln).toNat = K + 1 := ⟨max 1 (le - ln).toNat - 1, by omega⟩
    rw [hK, List.flatten_cons, takeThroughNL_piece hp]
    unfold takeLoop
    cases he : endsNL p with
    | true =>
      simp only [if_true]
      by_cases hge : ((ln + 1 : Nat) : Int) ≥ le
      · have : K = 0 := by omega
        rw [if_pos hge, this]
        simp
      · rw [if_neg hge, List.flatten_cons]
        rw [takeLoop_flatten le rest (ln + 1) hr]
        have : max 1 (le - ((ln + 1 : Nat) : Int)).toNat = K := by omega
        rw [this]
    | false =>
      simp only [Bool.false_eq_true, if_false, List.flatten_cons]
      rw [takeLoop_flatten le rest ln hr, hK]

theorem skip_take_flatten (target : Nat) (le : Int) : ∀ (ps : List Line) (ln : Nat), (∀ p ∈ ps, PieceOK p) →
    ∃ y ln' r, skipLoop false target ln ps = .ok (y, ln', r) ∧
      (y ++ takeLoop le ln' r).flatten =
        takeThroughNL ((target - ln) + max 1 (le - (max target ln : Nat)).toNat) ps.flatten
  | [], ln, _ => by
    refine ⟨[], ln, [], ?_, by simp [takeLoop]⟩
    unfold skipLoop; split <;> rfl
  | p :: rest, ln, h => by
    have hp : PieceOK p := h p (by simp)
    have hr : ∀ q ∈ rest, PieceOK q := fun q hq => h q (by simp [hq])
    by_cases hlt : ln < target
    · obtain ⟨y, ln', r, hs, hf⟩ := skip_take_flatten target le rest (if endsNL p then ln + 1 else ln) hr
      refine ⟨p :: y, ln', r, ?_, ?_⟩
      · rw [skipLoop]; simp [hlt, hs]
      · obtain ⟨K, hK⟩ : ∃ K, (target - ln) + max 1 (le - (max target ln : Nat)).toNat = K + 1 :=
          ⟨(target - ln) + max 1 (le - (max target ln : Nat)).toNat - 1, by omega⟩
        rw [hK, List.flatten_cons, takeThroughNL_piece hp, List.cons_append, List.flatten_cons, hf]
        congr 2
        cases he : endsNL p with
        | true =>
          simp only [if_true]
          have e1 : max target (ln + 1) = target := by omega
          have e2 : max target ln = target := by omega
          rw [e1]; rw [e2] at hK; omega
        | false =>
          simp only [Bool.false_eq_true, if_false]
          exact hK
    · refine ⟨[], ln, p :: rest, ?_, ?_⟩
      · rw [skipLoop]; simp [hlt]
      · rw [List.nil_append, takeLoop_flatten le (p :: rest) ln h]
        have e1 : max target ln = ln := by omega
        have e2 : target - ln = 0 := by omega
        rw [e1, e2]; simp

/-- Which newline the ranged text ends after. -/
def rangeEnd (a b : Int) : Nat := (a - 1).toNat + max 1 (b - ((a - 1).toNat : Int)).toNat

theorem rangeEnd_ge (a b : Int) : b.toNat ≤ rangeEnd a b ∧ (a - 1).toNat + 1 ≤ rangeEnd a b := by
  unfold rangeEnd; omega

/-- The ranged path of the repaired `highlight`: the token text up to the end of line
`max(line_end, line_start)` (everything, when the text has fewer lines). -/
theorem highlight_ranged (toks : List Line) (code : List Char) (a b : Int) :
    highlight false true toks code (some (a, b)) = .ok (takeThroughNL (rangeEnd a b) toks.flatten) := by
  obtain ⟨y, ln', r, hs, hf⟩ := skip_take_flatten (a - 1).toNat b (lineTokenize toks) 0 (lineTokenize_ok toks)
  unfold highlight
  simp only [Bool.not_true, Bool.false_eq_true, if_false, hs]
  rw [hf, lineTokenize_flatten]
  simp [rangeEnd]

end RichModel.Syntax
