import RichModel.Lemmas.ConcInv
/-!
Where the output of a thread goes (`Model/Conc.lean`): everything a thread produces stays in that thread's
own buffer until it is moved, as a whole, into one `file.write` of that thread or into the result of that
thread's capture block — never anywhere else, never twice, never lost (pieces that render to nothing are
dropped with an all-empty buffer, exactly as `if text:` does).
-/
set_option linter.unusedSimpArgs false
namespace RichModel.Conc
open RichModel

def capturedItems (l : Local) : List Item := l.captured.flatten

structure OutInv (s : State) : Prop where
  /-- buffered pieces belong to the buffering thread and to its running operation -/
  ownB : ∀ t, ∀ x ∈ (s.th t).buffer, x.tid = t ∧ x.op = (s.th t).nops - 1
  ownC : ∀ t, ∀ c ∈ (s.th t).captured, ∀ x ∈ c, x.tid = t
  /-- a write consists of pieces of the writing thread, all from one operation -/
  ownW : ∀ w ∈ s.sh.file, ∀ x ∈ w.items, x.tid = w.tid ∧ x.op = w.op
  /-- the pieces a thread produced are numbered 0, 1, 2, … -/
  seqE : ∀ t, (s.th t).emitted.map (·.seq) = List.range (s.th t).emitted.length
  /-- everything a thread produced carries that thread's id -/
  ownE : ∀ t, ∀ x ∈ (s.th t).emitted, x.tid = t
  /-- conservation: written ++ captured ++ still buffered = produced (as multisets, non-empty pieces) -/
  cons : ∀ t, ((written s t ++ capturedItems (s.th t) ++ (s.th t).buffer).filter nonEmpty).Perm
      ((s.th t).emitted.filter nonEmpty)

/-- What one executed action does to the output of its thread. -/
theorem exec_out {cfg : Cfg} {t : Nat} {sh sh' : Shared} {l l' : Local} {act : Act} {r : List GAct}
    (he : exec cfg t sh { l with cont := r } act = some (sh', l')) :
    l'.nops = l.nops ∧
    ((∃ b, l'.buffer = l.buffer ++ [⟨t, l.nops - 1, l.emitted.length, b⟩] ∧
        l'.emitted = l.emitted ++ [⟨t, l.nops - 1, l.emitted.length, b⟩] ∧ l'.captured = l.captured ∧ sh'.file = sh.file) ∨
     (act = .write ∧ sh'.file = (if l.buffer.any nonEmpty then sh.file ++ [⟨t, l.nops - 1, l.buffer⟩] else sh.file) ∧
        l'.buffer = [] ∧ l'.emitted = l.emitted ∧ l'.captured = l.captured) ∨
     (act = .capEnd ∧ l'.captured = l.captured ++ [l.buffer.drop (l.marks.headD 0)] ∧
        l'.buffer = l.buffer.take (l.marks.headD 0) ∧ l'.emitted = l.emitted ∧ sh'.file = sh.file) ∨
     (l'.buffer = l.buffer ∧ l'.emitted = l.emitted ∧ l'.captured = l.captured ∧ sh'.file = sh.file)) := by
  cases act <;> simp only [exec] at he
  case write =>
    simp only [Option.some.injEq, Prod.mk.injEq] at he
    obtain ⟨rfl, rfl⟩ := he
    exact ⟨rfl, Or.inr (Or.inl ⟨rfl, rfl, rfl, rfl, rfl⟩)⟩
  case capEnd =>
    simp only [Option.some.injEq, Prod.mk.injEq] at he
    obtain ⟨rfl, rfl⟩ := he
    exact ⟨rfl, Or.inr (Or.inr (Or.inl ⟨rfl, rfl, rfl, rfl, rfl⟩))⟩
  case hookPos | pushUser | pushCtl | restorePush =>
    simp only [Option.some.injEq, Prod.mk.injEq] at he
    obtain ⟨rfl, rfl⟩ := he
    exact ⟨rfl, Or.inl ⟨_, rfl, rfl, rfl, rfl⟩⟩
  case renderFrame =>
    split at he <;>
      (simp only [Option.some.injEq, Prod.mk.injEq] at he
       obtain ⟨rfl, rfl⟩ := he
       exact ⟨rfl, Or.inl ⟨_, rfl, rfl, rfl, rfl⟩⟩)
  all_goals first
    | (simp only [Option.some.injEq, Prod.mk.injEq] at he
       obtain ⟨rfl, rfl⟩ := he
       exact ⟨rfl, Or.inr (Or.inr (Or.inr ⟨rfl, rfl, rfl, rfl⟩))⟩)
    | (split at he <;>
        (simp only [Option.some.injEq, Prod.mk.injEq] at he
         obtain ⟨rfl, rfl⟩ := he
         exact ⟨rfl, Or.inr (Or.inr (Or.inr ⟨rfl, rfl, rfl, rfl⟩))⟩))
    | (split at he
       · simp only [Option.some.injEq, Prod.mk.injEq] at he
         obtain ⟨rfl, rfl⟩ := he
         exact ⟨rfl, Or.inr (Or.inr (Or.inr ⟨rfl, rfl, rfl, rfl⟩))⟩
       · split at he
         · simp only [Option.some.injEq, Prod.mk.injEq] at he
           obtain ⟨rfl, rfl⟩ := he
           exact ⟨rfl, Or.inr (Or.inr (Or.inr ⟨rfl, rfl, rfl, rfl⟩))⟩
         · simp at he)

theorem written_append (sh : Shared) (th th' : Nat → Local) (w : Write) (u : Nat) :
    written { sh := { sh with file := sh.file ++ [w] }, th := th' } u =
      written { sh := sh, th := th } u ++ (if w.tid = u then w.items else []) := by
  simp only [written, List.filter_append, List.flatMap_append]
  by_cases h : w.tid = u <;> simp [h]

theorem written_congr {s s' : State} (h : s'.sh.file = s.sh.file) (u : Nat) : written s' u = written s u := by
  simp [written, h]

theorem filter_nonEmpty_nil {l : List Item} (h : l.any nonEmpty = false) : l.filter nonEmpty = [] := by
  simp only [List.any_eq_false] at h
  exact List.filter_eq_nil_iff.mpr (fun x hx => by simpa using h x hx)

/-- Every step of every thread preserves `OutInv`. -/
theorem out_step {cfg : Cfg} {s s' : State} {t : Nat} (inv : Inv cfg s) (o : OutInv s)
    (h : stepT cfg s t = some s') : OutInv s' := by
  cases hc : (s.th t).cont with
  | nil =>
    rw [stepT_nil hc] at h
    cases hp : (s.th t).prog with
    | nil => rw [hp] at h; simp at h
    | cons op rest =>
      rw [hp] at h
      simp only [Option.some.injEq] at h
      subst h
      have hbuf : (s.th t).buffer = [] := by
        have hs := inv.sim t
        rw [hc] at hs
        simp only [Sim, Abs.final, Local.abs, Bool.and_eq_true, Bool.not_eq_true'] at hs
        exact inv.clean t hs.2
      refine ⟨fun u => ?_, fun u => ?_, o.ownW, fun u => ?_, fun u => ?_, fun u => ?_⟩ <;> by_cases hu : u = t
      · subst hu; simp only [upd_same, hbuf]; intro x hx; simp at hx
      · simp only [upd_other _ _ hu]; exact o.ownB u
      · subst hu; simp only [upd_same]; exact o.ownC u
      · simp only [upd_other _ _ hu]; exact o.ownC u
      · subst hu; simp only [upd_same]; exact o.seqE u
      · simp only [upd_other _ _ hu]; exact o.seqE u
      · subst hu; simp only [upd_same]; exact o.ownE u
      · simp only [upd_other _ _ hu]; exact o.ownE u
      · subst hu; simpa only [upd_same, written, capturedItems] using o.cons u
      · simpa only [upd_other _ _ hu, written, capturedItems] using o.cons u
  | cons g r =>
    rw [stepT_cons hc] at h
    by_cases hg : guardOn cfg (s.th t).depth (s.th t).hooked g.g = true
    · rw [if_pos hg] at h
      simp only [Option.map_eq_some_iff] at h
      obtain ⟨⟨sh', l'⟩, he, rfl⟩ := h
      obtain ⟨hn, hcase⟩ := exec_out he
      rcases hcase with ⟨b, hb, hem, hcap, hf⟩ | ⟨_, hf, hb, hem, hcap⟩ | ⟨_, hcap, hb, hem, hf⟩ | ⟨hb, hem, hcap, hf⟩
      · -- a piece is produced
        refine ⟨fun u => ?_, fun u => ?_, ?_, fun u => ?_, fun u => ?_, fun u => ?_⟩
        · by_cases hu : u = t
          · subst hu
            simp only [upd_same, hb, hn]
            intro x hx
            rcases List.mem_append.mp hx with hx | hx
            · exact o.ownB u x hx
            · simp at hx; subst hx; exact ⟨rfl, rfl⟩
          · simp only [upd_other _ _ hu]; exact o.ownB u
        · by_cases hu : u = t
          · subst hu; simp only [upd_same, hcap]; exact o.ownC u
          · simp only [upd_other _ _ hu]; exact o.ownC u
        · simp only [hf]; exact o.ownW
        · by_cases hu : u = t
          · subst hu
            simp only [upd_same, hem, List.map_append, List.length_append, List.length_cons, List.length_nil,
              List.map_cons, List.map_nil, List.range_succ, o.seqE u]
          · simp only [upd_other _ _ hu]; exact o.seqE u
        · by_cases hu : u = t
          · subst hu
            simp only [upd_same, hem]
            intro x hx
            rcases List.mem_append.mp hx with hx | hx
            · exact o.ownE u x hx
            · simp at hx; subst hx; rfl
          · simp only [upd_other _ _ hu]; exact o.ownE u
        · by_cases hu : u = t
          · subst hu
            have := o.cons u
            simp only [upd_same, hb, hem, capturedItems, hcap, written, hf] at this ⊢
            simp only [← List.append_assoc, List.filter_append]
            simp only [List.filter_append] at this
            exact List.Perm.append_right _ this
          · have := o.cons u
            simpa only [upd_other _ _ hu, written, hf, capturedItems] using this
      · -- the write
        refine ⟨fun u => ?_, fun u => ?_, ?_, fun u => ?_, fun u => ?_, fun u => ?_⟩
        · by_cases hu : u = t
          · subst hu; simp only [upd_same, hb]; intro x hx; simp at hx
          · simp only [upd_other _ _ hu]; exact o.ownB u
        · by_cases hu : u = t
          · subst hu; simp only [upd_same, hcap]; exact o.ownC u
          · simp only [upd_other _ _ hu]; exact o.ownC u
        · simp only [hf]
          split
          · intro w hw
            rcases List.mem_append.mp hw with hw | hw
            · exact o.ownW w hw
            · simp at hw; subst hw; exact fun x hx => o.ownB t x hx
          · exact o.ownW
        · by_cases hu : u = t
          · subst hu; simp only [upd_same, hem]; exact o.seqE u
          · simp only [upd_other _ _ hu]; exact o.seqE u
        · by_cases hu : u = t
          · subst hu; simp only [upd_same, hem]; exact o.ownE u
          · simp only [upd_other _ _ hu]; exact o.ownE u
        · have key : ∀ u, written { sh := sh', th := upd s.th t l' } u =
              written s u ++ (if u = t ∧ (s.th t).buffer.any nonEmpty = true then (s.th t).buffer else []) := by
            intro u
            by_cases hany : (s.th t).buffer.any nonEmpty = true
            · have hf' : sh'.file = s.sh.file ++ [⟨t, (s.th t).nops - 1, (s.th t).buffer⟩] := by rw [hf, if_pos hany]
              simp only [written, hf', List.filter_append, List.flatMap_append]
              by_cases hu : u = t
              · subst hu; simp [hany]
              · have : ¬ t = u := fun h => hu h.symm
                simp [hu, this]
            · have hf' : sh'.file = s.sh.file := by rw [hf, if_neg hany]
              simp [written, hf', hany]
          dsimp only
          rw [key u]
          by_cases hu : u = t
          · subst hu
            have := o.cons u
            simp only [upd_same, hb, hem, capturedItems, hcap, List.append_nil] at this ⊢
            by_cases hany : (s.th u).buffer.any nonEmpty = true
            · simp only [hany, and_self, if_true]
              simp only [List.filter_append] at this ⊢
              refine List.Perm.trans ?_ this
              simp only [List.append_assoc]
              exact List.Perm.append_left _ List.perm_append_comm
            · have hany' : (s.th u).buffer.any nonEmpty = false := by simpa using hany
              simp only [hany', and_false, Bool.false_eq_true, if_false, List.append_nil]
              have hnil := filter_nonEmpty_nil (by simpa using hany)
              simp only [List.filter_append, hnil, List.append_nil] at this
              simpa only [List.filter_append] using this
          · have := o.cons u
            simpa only [upd_other _ _ hu, hu, false_and, if_false, List.append_nil, capturedItems] using this
      · -- the end of a capture block
        refine ⟨fun u => ?_, fun u => ?_, ?_, fun u => ?_, fun u => ?_, fun u => ?_⟩
        · by_cases hu : u = t
          · subst hu
            simp only [upd_same, hb, hn]
            intro x hx; exact o.ownB u x (List.mem_of_mem_take hx)
          · simp only [upd_other _ _ hu]; exact o.ownB u
        · by_cases hu : u = t
          · subst hu
            simp only [upd_same, hcap]
            intro c hcm
            rcases List.mem_append.mp hcm with hcm | hcm
            · exact o.ownC u c hcm
            · simp at hcm; subst hcm
              intro x hx; exact (o.ownB u x (List.mem_of_mem_drop hx)).1
          · simp only [upd_other _ _ hu]; exact o.ownC u
        · simp only [hf]; exact o.ownW
        · by_cases hu : u = t
          · subst hu; simp only [upd_same, hem]; exact o.seqE u
          · simp only [upd_other _ _ hu]; exact o.seqE u
        · by_cases hu : u = t
          · subst hu; simp only [upd_same, hem]; exact o.ownE u
          · simp only [upd_other _ _ hu]; exact o.ownE u
        · dsimp only
          by_cases hu : u = t
          · subst hu
            have := o.cons u
            simp only [upd_same, hb, hem, capturedItems, hcap, written, hf, List.flatten_append, List.flatten_cons,
              List.flatten_nil, List.append_nil] at this ⊢
            refine List.Perm.trans (List.Perm.filter _ ?_) this
            simp only [List.append_assoc]
            refine List.Perm.append_left _ (List.Perm.append_left _ ?_)
            rw [List.perm_comm]
            have h2 := List.take_append_drop ((s.th u).marks.headD 0) (s.th u).buffer
            conv => lhs; rw [← h2]
            exact List.perm_append_comm
          · have := o.cons u
            simpa only [upd_other _ _ hu, written, hf, capturedItems] using this
      · -- nothing of the output moves
        refine ⟨fun u => ?_, fun u => ?_, ?_, fun u => ?_, fun u => ?_, fun u => ?_⟩
        · by_cases hu : u = t
          · subst hu; simp only [upd_same, hb, hn]; exact o.ownB u
          · simp only [upd_other _ _ hu]; exact o.ownB u
        · by_cases hu : u = t
          · subst hu; simp only [upd_same, hcap]; exact o.ownC u
          · simp only [upd_other _ _ hu]; exact o.ownC u
        · simp only [hf]; exact o.ownW
        · by_cases hu : u = t
          · subst hu; simp only [upd_same, hem]; exact o.seqE u
          · simp only [upd_other _ _ hu]; exact o.seqE u
        · by_cases hu : u = t
          · subst hu; simp only [upd_same, hem]; exact o.ownE u
          · simp only [upd_other _ _ hu]; exact o.ownE u
        · dsimp only
          have := o.cons u
          by_cases hu : u = t
          · subst hu; simpa only [upd_same, hb, hem, capturedItems, hcap, written, hf] using this
          · simpa only [upd_other _ _ hu, written, hf, capturedItems] using this
    · rw [if_neg hg] at h
      simp only [Option.some.injEq] at h
      subst h
      refine ⟨fun u => ?_, fun u => ?_, o.ownW, fun u => ?_, fun u => ?_, fun u => ?_⟩ <;> by_cases hu : u = t
      · subst hu; simp only [upd_same]; exact o.ownB u
      · simp only [upd_other _ _ hu]; exact o.ownB u
      · subst hu; simp only [upd_same]; exact o.ownC u
      · simp only [upd_other _ _ hu]; exact o.ownC u
      · subst hu; simp only [upd_same]; exact o.seqE u
      · simp only [upd_other _ _ hu]; exact o.seqE u
      · subst hu; simp only [upd_same]; exact o.ownE u
      · simp only [upd_other _ _ hu]; exact o.ownE u
      · subst hu; simpa only [upd_same, written, capturedItems] using o.cons u
      · simpa only [upd_other _ _ hu, written, capturedItems] using o.cons u

theorem out_run {cfg : Cfg} (sched : List Nat) : ∀ {s : State}, Inv cfg s → OutInv s → OutInv (run cfg s sched) := by
  induction sched with
  | nil => intro s _ h; exact h
  | cons t rest ih =>
    intro s hi h
    simp only [run, List.foldl_cons]
    cases hs : stepT cfg s t with
    | none => simpa [run] using ih hi h
    | some s' => simpa [run] using ih (inv_step hi hs) (out_step hi h hs)

theorem out_init (sh : Shared) (progs : List (List Op)) (hfile : sh.file = []) : OutInv (initState sh progs) := by
  refine ⟨fun t x hx => ?_, fun t c hc => ?_, fun w hw => ?_, fun t => ?_, fun t x hx => ?_, fun t => ?_⟩
  · simp [initState] at hx
  · simp [initState] at hc
  · simp [initState, hfile] at hw
  · simp [initState]
  · simp [initState] at hx
  · simp [initState, written, hfile, capturedItems]

theorem nodup_of_map {α β : Type} (f : α → β) {l : List α} (h : (l.map f).Nodup) : l.Nodup := by
  simp only [List.Nodup, List.pairwise_map] at h ⊢
  exact h.imp (fun hab e => hab (by rw [e]))

theorem count_eq_one {α : Type} [BEq α] [LawfulBEq α] {a : α} : ∀ {l : List α}, l.Nodup → a ∈ l → l.count a = 1
  | [], _, h => by simp at h
  | b :: l, hn, h => by
    have hn' := List.nodup_cons.mp hn
    by_cases hab : b = a
    · subst hab
      have : l.count b = 0 := List.count_eq_zero.mpr hn'.1
      simp [this]
    · have hm : a ∈ l := by
        rcases List.mem_cons.mp h with h | h
        · exact absurd h.symm hab
        · exact h
      have := count_eq_one hn'.2 hm
      simp [hab, this]

end RichModel.Conc
