import RichModel.Lemmas.Style
import RichModel.Lemmas.ColorParse
/-!
The text round trip of `Style`: `parse (render s) == s` for every well-formed `s` (`Style.wf`).
(That every style returned by `parse` is well-formed is in `Lemmas/StyleParse.lean`.)
-/
namespace RichModel
open AsciiStr
namespace Style
variable {T : StrTables} [hT : T.Lawful]

theorem testBit_false_of_and_eq_zero {bits m : Nat} (h : bits &&& m = 0) {i : Nat} (hm : m.testBit i = true) :
    bits.testBit i = false := by
  have := congrArg (fun n => n.testBit i) h
  simp only [Nat.testBit_and, hm, Bool.and_true, Nat.zero_testBit] at this
  exact this

def pairs13 : List (Nat × List Char) :=
  [(0, cl! "bold"), (1, cl! "dim"), (2, cl! "italic"), (3, cl! "underline"), (4, cl! "blink"),
   (5, cl! "blink2"), (6, cl! "reverse"), (7, cl! "conceal"), (8, cl! "strike"), (9, cl! "underline2"),
   (10, cl! "frame"), (11, cl! "encircle"), (12, cl! "overline")]

def colorElems (s : Style) : List (List Char) :=
  (match s.color with | some c => [c.name] | none => []) ++
  (match s.bgcolor with | some c => [cl! "on", c.name] | none => []) ++
  (if strTruthy s.link then [cl! "link", s.link.getD []] else [])

omit hT in
theorem noSpace_iff {s : List Char} : T.noSpace s = true ↔ ∀ c ∈ s, T.isSpace c = false :=
  T.mem_noSpace

theorem attrElem_nil {s : Style} {i n} (h : s.setAttributes.testBit i = false) : attrElem s i n = [] := by
  simp [attrElem, h]

theorem strElems_flat (s : Style) :
    strElems s = (pairs13.flatMap fun p => attrElem s p.1 p.2) ++ colorElems s := by
  have g1 : (if s.setAttributes &&& 0b0000000001111 ≠ 0 then
      attrElem s 0 (cl! "bold") ++ attrElem s 1 (cl! "dim") ++ attrElem s 2 (cl! "italic") ++
      attrElem s 3 (cl! "underline") else []) = attrElem s 0 (cl! "bold") ++ attrElem s 1 (cl! "dim") ++ attrElem s 2 (cl! "italic") ++
      attrElem s 3 (cl! "underline") := by
    split
    · rfl
    · rename_i h
      have h0 : s.setAttributes &&& 15 = 0 := by simpa using h
      rw [attrElem_nil (testBit_false_of_and_eq_zero h0 (i := 0) (by decide)),
          attrElem_nil (testBit_false_of_and_eq_zero h0 (i := 1) (by decide)),
          attrElem_nil (testBit_false_of_and_eq_zero h0 (i := 2) (by decide)),
          attrElem_nil (testBit_false_of_and_eq_zero h0 (i := 3) (by decide))]
      rfl
  have g2 : (if s.setAttributes &&& 0b0000111110000 ≠ 0 then
      attrElem s 4 (cl! "blink") ++ attrElem s 5 (cl! "blink2") ++ attrElem s 6 (cl! "reverse") ++
      attrElem s 7 (cl! "conceal") ++ attrElem s 8 (cl! "strike") else []) =
      attrElem s 4 (cl! "blink") ++ attrElem s 5 (cl! "blink2") ++ attrElem s 6 (cl! "reverse") ++
      attrElem s 7 (cl! "conceal") ++ attrElem s 8 (cl! "strike") := by
    split
    · rfl
    · rename_i h
      have h0 : s.setAttributes &&& 496 = 0 := by simpa using h
      rw [attrElem_nil (testBit_false_of_and_eq_zero h0 (i := 4) (by decide)),
          attrElem_nil (testBit_false_of_and_eq_zero h0 (i := 5) (by decide)),
          attrElem_nil (testBit_false_of_and_eq_zero h0 (i := 6) (by decide)),
          attrElem_nil (testBit_false_of_and_eq_zero h0 (i := 7) (by decide)),
          attrElem_nil (testBit_false_of_and_eq_zero h0 (i := 8) (by decide))]
      rfl
  have g3 : (if s.setAttributes &&& 0b1111000000000 ≠ 0 then
      attrElem s 9 (cl! "underline2") ++ attrElem s 10 (cl! "frame") ++ attrElem s 11 (cl! "encircle") ++
      attrElem s 12 (cl! "overline") else []) =
      attrElem s 9 (cl! "underline2") ++ attrElem s 10 (cl! "frame") ++ attrElem s 11 (cl! "encircle") ++
      attrElem s 12 (cl! "overline") := by
    split
    · rfl
    · rename_i h
      have h0 : s.setAttributes &&& 7680 = 0 := by simpa using h
      rw [attrElem_nil (testBit_false_of_and_eq_zero h0 (i := 9) (by decide)),
          attrElem_nil (testBit_false_of_and_eq_zero h0 (i := 10) (by decide)),
          attrElem_nil (testBit_false_of_and_eq_zero h0 (i := 11) (by decide)),
          attrElem_nil (testBit_false_of_and_eq_zero h0 (i := 12) (by decide))]
      rfl
  unfold strElems colorElems pairs13
  simp only [g1, g2, g3]
  simp only [List.flatMap_cons, List.flatMap_nil, List.append_nil, List.append_assoc]
  rfl

/-! ### one step of the `parse` loop -/

/-- What the round trip needs to know about an attribute word `n` naming bit `i`. -/
def goodAttr (p : Nat × List Char) : Bool :=
  !p.2.isEmpty && allAscii p.2 && p.2.all (fun c => !AsciiStr.isSpace c) && decide (AsciiStr.lower p.2 = p.2) &&
    decide (p.2 ≠ cl! "on") && decide (p.2 ≠ cl! "not") &&
    decide (p.2 ≠ cl! "link") && decide (attrIndex p.2 = some p.1) && decide (p.1 < 13)

theorem pairs13_good : pairs13.all goodAttr = true := by decide

structure GoodAttr (T : StrTables) (i : Nat) (n : List Char) : Prop where
  ne : n ≠ []
  nospace : ∀ c ∈ n, T.isSpace c = false
  low : T.lower n = n
  notOn : n ≠ cl! "on"
  notNot : n ≠ cl! "not"
  notLink : n ≠ cl! "link"
  idx : attrIndex n = some i
  lt : i < 13

theorem goodAttr_of {p : Nat × List Char} (h : goodAttr p = true) : GoodAttr T p.1 p.2 := by
  simp only [goodAttr, Bool.and_eq_true, Bool.not_eq_true', decide_eq_true_eq, List.isEmpty_eq_false_iff] at h
  obtain ⟨⟨⟨⟨⟨⟨⟨⟨h1, ha⟩, h2⟩, h3⟩, h4⟩, h5⟩, h6⟩, h7⟩, h8⟩ := h
  obtain ⟨hns, hl⟩ := T.ascii_word ha h2
  exact ⟨h1, hns, hl h3, h4, h5, h6, h7, h8⟩

omit hT in
theorem parseLoop_attr {v : StyleVariant} {i n} (h : GoodAttr T i n) (rest : List (List Char)) (st : ParseState) :
    parseLoopT T v (n :: rest) st = parseLoopT T v rest { st with attributes := st.attributes.set i (some true) } := by
  rw [parseLoopT.eq_def]
  simp [h.low, h.notOn, h.notNot, h.notLink, h.idx]

theorem parseLoop_not_attr {v : StyleVariant} {i n} (h : GoodAttr T i n) (rest : List (List Char)) (st : ParseState) :
    parseLoopT T v (cl! "not" :: n :: rest) st =
      parseLoopT T v rest { st with attributes := st.attributes.set i (some false) } := by
  rw [parseLoopT.eq_def]
  have this : T.lower (cl! "not") = cl! "not" := (T.word_facts (cl! "not") (by decide)).1
  simp [this, h.idx]

theorem mem_keywords_of_attrIndex {w : List Char} {i : Nat} (h : attrIndex w = some i) : w ∈ styleKeywords := by
  unfold attrIndex at h
  simp only [Option.map_eq_some_iff] at h
  obtain ⟨p, hp, _⟩ := h
  have hm := List.mem_of_find?_eq_some hp
  have hw := List.find?_some hp
  simp only [beq_iff_eq] at hw
  subst hw
  revert hm
  simp only [styleAttributes, styleKeywords, List.mem_cons, List.not_mem_nil, or_false]
  rintro (h | h | h | h | h | h | h | h | h | h | h | h | h | h | h | h | h | h | h | h | h | h) <;> subst h <;> simp

/-- A word that `Color.parse` accepts is not a key word of the style grammar. -/
theorem color_word_facts {v : StyleVariant} {w : List Char} {c : Color} (h : Color.parseT T v w = .ok c) :
    w ≠ cl! "on" ∧ w ≠ cl! "not" ∧ w ≠ cl! "link" ∧ w ≠ cl! "none" ∧ attrIndex w = none := by
  have key : ∀ k ∈ styleKeywords, w ≠ k := by
    intro k hk hwk
    subst hwk
    rw [keyword_not_color T v hk] at h
    cases h
  refine ⟨key _ (by simp [styleKeywords]), key _ (by simp [styleKeywords]), key _ (by simp [styleKeywords]),
    key _ (by simp [styleKeywords]), ?_⟩
  cases hi : attrIndex w with
  | none => rfl
  | some i => exact absurd rfl (key w (mem_keywords_of_attrIndex hi))

theorem parseLoop_color {v : StyleVariant} {w : List Char} {c : Color} (hl : T.lower w = w) (h : Color.parseT T v w = .ok c)
    (rest : List (List Char)) (st : ParseState) :
    parseLoopT T v (w :: rest) st = parseLoopT T v rest { st with color := some w } := by
  obtain ⟨h1, h2, h3, _, h5⟩ := color_word_facts h
  rw [parseLoopT.eq_def]
  simp [hl, h1, h2, h3, h5, h]

theorem parseLoop_on {v : StyleVariant} {w : List Char} {c : Color} (h : Color.parseT T v w = .ok c)
    (rest : List (List Char)) (st : ParseState) :
    parseLoopT T v (cl! "on" :: w :: rest) st = parseLoopT T v rest { st with bgcolor := some w } := by
  rw [parseLoopT.eq_def]
  have this : T.lower (cl! "on") = cl! "on" := (T.word_facts (cl! "on") (by decide)).1
  simp [this, h]

theorem parseLoop_link {v : StyleVariant} (w : List Char) (rest : List (List Char)) (st : ParseState) :
    parseLoopT T v (cl! "link" :: w :: rest) st = parseLoopT T v rest { st with link := some w } := by
  rw [parseLoopT.eq_def]
  have this : T.lower (cl! "link") = cl! "link" := (T.word_facts (cl! "link") (by decide)).1
  simp [this]

theorem parseLoop_none_word (v : StyleVariant) (st : ParseState) :
    parseLoopT T v [cl! "none"] st = .error .styleSyntax := by
  rw [parseLoopT.eq_def]
  have h1 : T.lower (cl! "none") = cl! "none" := (T.word_facts (cl! "none") (by decide)).1
  have h2 : attrIndex (cl! "none") = none := by decide
  have h3 := keyword_not_color T v (k := cl! "none") (by simp [styleKeywords])
  simp [h1, h2, h3]

/-! ### the attribute words -/

/-- What the words for attribute `p.1` do to the keyword dictionary. -/
def applyAttr (s : Style) (K : Kwargs) (p : Nat × List Char) : Kwargs :=
  if s.setAttributes.testBit p.1 then K.set p.1 (some (s.attributes.testBit p.1)) else K

theorem split_attrElem {s : Style} {i n} (h : GoodAttr T i n) :
    (attrElem s i n).flatMap T.split =
      if s.setAttributes.testBit i then (if s.attributes.testBit i then [n] else [cl! "not", n]) else [] := by
  unfold attrElem attr
  by_cases hs : s.setAttributes.testBit i = true
  · by_cases ha : s.attributes.testBit i = true
    · simp [hs, ha, T.split_word h.ne h.nospace]
    · have : T.split (cl! "not " ++ n) = [cl! "not", n] := by
        show T.split (cl! "not" ++ ' ' :: n) = _
        rw [T.split_append_space, T.split_word h.ne h.nospace, (T.word_facts (cl! "not") (by decide)).2.1]
        rfl
      simpa [hs, ha] using this
  · simp [hs]

theorem parseLoop_attrs (v : StyleVariant) (s : Style) (ps : List (Nat × List Char))
    (hps : ∀ p ∈ ps, GoodAttr T p.1 p.2) (rest : List (List Char)) (st : ParseState) :
    parseLoopT T v ((ps.flatMap fun p => (attrElem s p.1 p.2).flatMap T.split) ++ rest) st =
      parseLoopT T v rest { st with attributes := ps.foldl (applyAttr s) st.attributes } := by
  induction ps generalizing st with
  | nil => rfl
  | cons p ps ih =>
    have hp := hps p (by simp)
    have hr : ∀ q ∈ ps, GoodAttr T q.1 q.2 := fun q hq => hps q (by simp [hq])
    simp only [List.flatMap_cons, List.append_assoc, List.foldl_cons]
    rw [split_attrElem hp]
    by_cases hs : s.setAttributes.testBit p.1 = true
    · by_cases ha : s.attributes.testBit p.1 = true
      · simp only [hs, ha, if_true, List.cons_append, List.nil_append]
        rw [parseLoop_attr hp, ih hr]
        simp [applyAttr, hs, ha]
      · simp only [hs, ha, if_true, if_false, Bool.false_eq_true, List.cons_append, List.nil_append]
        rw [parseLoop_not_attr hp, ih hr]
        simp [applyAttr, hs, ha]
    · simp only [hs, if_false, Bool.false_eq_true, List.nil_append]
      rw [ih hr]
      simp [applyAttr, hs]

theorem foldl_applyAttr_length (s : Style) (ps : List (Nat × List Char)) (K : Kwargs) :
    (ps.foldl (applyAttr s) K).length = K.length := by
  induction ps generalizing K with
  | nil => rfl
  | cons p ps ih =>
    simp only [List.foldl_cons]
    rw [ih]
    unfold applyAttr
    split <;> simp

theorem foldl_applyAttr_getD (s : Style) (ps : List (Nat × List Char)) (K : Kwargs) (j : Nat) (hj : j < K.length) :
    (ps.foldl (applyAttr s) K).getD j none =
      if j ∈ ps.map (·.1) ∧ s.setAttributes.testBit j = true then some (s.attributes.testBit j) else K.getD j none := by
  induction ps generalizing K with
  | nil => simp
  | cons p ps ih =>
    simp only [List.foldl_cons, List.map_cons, List.mem_cons]
    have hlen : j < (applyAttr s K p).length := by
      unfold applyAttr; split <;> simpa using hj
    rw [ih _ hlen]
    by_cases hm : j ∈ ps.map (·.1) ∧ s.setAttributes.testBit j = true
    · simp [hm]
    · simp only [hm, if_false]
      unfold applyAttr
      by_cases hjp : j = p.1
      · subst hjp
        by_cases hs : s.setAttributes.testBit p.1 = true
        · simp [hs, List.getD_eq_getElem?_getD, hj]
        · simp [hs]
      · have : ¬ ((j = p.1 ∨ j ∈ ps.map (·.1)) ∧ s.setAttributes.testBit j = true) := by
          intro h; rcases h with ⟨h1 | h1, h2⟩
          · exact hjp h1
          · exact hm ⟨h1, h2⟩
        simp only [this, if_false]
        split
        · simp [List.getD_eq_getElem?_getD, Ne.symm hjp]
        · rfl

/-! ### the keyword dictionary after the attribute words -/

/-- The dictionary `parse` ends up with when it reads the attribute words of `str s`. -/
def kwOf (s : Style) : Kwargs := pairs13.foldl (applyAttr s) (List.replicate 13 none)

theorem getD_replicate_none (n j : Nat) : (List.replicate n (none : Option Bool)).getD j none = none := by
  induction n generalizing j with
  | zero => simp
  | succ n ih =>
    cases j with
    | zero => simp [List.replicate_succ]
    | succ k => simpa [List.replicate_succ, List.getD_eq_getElem?_getD] using ih k

theorem kwOf_getD (s : Style) (j : Nat) (hj : j < 13) :
    (kwOf s).getD j none = if s.setAttributes.testBit j = true then some (s.attributes.testBit j) else none := by
  unfold kwOf
  rw [foldl_applyAttr_getD s pairs13 _ j (by simpa using hj)]
  have hm : j ∈ pairs13.map (·.1) := by
    have : pairs13.map (·.1) = List.range 13 := by decide
    rw [this]; exact List.mem_range.mpr hj
  rw [getD_replicate_none]
  simp [hm]

theorem kwSet_kwOf (s : Style) (hlt : s.setAttributes < 8192) : kwSet (kwOf s) = s.setAttributes := by
  apply Nat.eq_of_testBit_eq
  intro j
  rw [kwSet_testBit]
  by_cases hj : j < 13
  · rw [kwOf_getD s j hj]
    cases s.setAttributes.testBit j <;> simp [hj]
  · rw [testBit_false_of_lt_8192 hlt (by omega)]
    simp [hj]

theorem kwVal_kwOf (s : Style) (hsub : s.attributes &&& s.setAttributes = s.attributes)
    (hlt : s.setAttributes < 8192) : kwVal (kwOf s) = s.attributes := by
  apply Nat.eq_of_testBit_eq
  intro j
  rw [kwVal_testBit]
  have hsj : s.attributes.testBit j = (s.attributes.testBit j && s.setAttributes.testBit j) := by
    have := congrArg (fun n => n.testBit j) hsub
    simp only [Nat.testBit_and] at this
    exact this.symm
  by_cases hj : j < 13
  · rw [kwOf_getD s j hj, hsj]
    cases s.setAttributes.testBit j <;> cases s.attributes.testBit j <;> simp [hj]
  · rw [hsj, testBit_false_of_lt_8192 hlt (by omega)]
    simp [hj]

/-! ### well-formedness unpacked -/

omit hT in
theorem wfColor_iff {v : StyleVariant} {c : Color} :
    wfColorT T v c = true ↔ (∀ ch ∈ c.name, T.isSpace ch = false) ∧ Color.parseT T v c.name = .ok c := by
  unfold wfColorT
  rw [Bool.and_eq_true, noSpace_iff]
  constructor
  · rintro ⟨h1, h2⟩
    refine ⟨h1, ?_⟩
    split at h2
    · rename_i c' hc'
      simp only [decide_eq_true_eq] at h2
      rw [hc', h2]
    · cases h2
  · rintro ⟨h1, h2⟩
    refine ⟨h1, ?_⟩
    rw [h2]
    simp

omit hT in
theorem parse_empty (v : StyleVariant) : Color.parseT T v [] = .error .colorParse := by
  have h : ([] : List Char) ∉ Gen.ansiColorNames.map (·.1) := by decide +kernel
  unfold Color.parseT Color.parseNormT
  have h0 : T.strip (T.lower []) = [] := rfl
  rw [h0]
  have h1 : ansiColorNumber [] = none := by
    unfold ansiColorNumber
    simp only [Option.map_eq_none_iff, List.find?_eq_none]
    intro p hp hpe
    simp only [beq_iff_eq] at hpe
    exact h (List.mem_map.mpr ⟨p, hp, hpe⟩)
  have h2 : matchRe T [] = none := rfl
  simp [h1, h2]

/-- A well-formed colour's name is one lower-case word that parses to the colour. -/
theorem wfColor_facts {v : StyleVariant} {c : Color} (h : wfColorT T v c = true) :
    c.name ≠ [] ∧ (∀ ch ∈ c.name, T.isSpace ch = false) ∧ T.lower c.name = c.name ∧ Color.parseT T v c.name = .ok c := by
  obtain ⟨h1, h2⟩ := wfColor_iff.mp h
  refine ⟨?_, h1, ?_, h2⟩
  · intro hn
    rw [hn, parse_empty] at h2
    cases h2
  · have := Color.parseT_name T h2
    rw [T.strip_noSpace (T.lower_noSpace h1)] at this
    exact this.symm

structure Wf (T : StrTables) (v : StyleVariant) (s : Style) : Prop where
  sub : s.attributes &&& s.setAttributes = s.attributes
  lt : s.setAttributes < 8192
  color : ∀ c, s.color = some c → wfColorT T v c = true
  bgcolor : ∀ c, s.bgcolor = some c → wfColorT T v c = true
  link : wfLinkT T s.link = true

omit hT in
theorem wf_iff {v : StyleVariant} {s : Style} : wfT T v s = true ↔ Wf T v s := by
  unfold wfT
  simp only [Bool.and_eq_true, decide_eq_true_eq]
  constructor
  · rintro ⟨⟨⟨⟨h1, h2⟩, h3⟩, h4⟩, h5⟩
    refine ⟨h1, h2, ?_, ?_, h5⟩
    · intro c hc; rw [hc] at h3; exact h3
    · intro c hc; rw [hc] at h4; exact h4
  · rintro ⟨h1, h2, h3, h4, h5⟩
    refine ⟨⟨⟨⟨h1, h2⟩, ?_⟩, ?_⟩, h5⟩
    · cases hc : s.color with
      | none => rfl
      | some c => exact h3 c hc
    · cases hc : s.bgcolor with
      | none => rfl
      | some c => exact h4 c hc

/-! ### the colour / background / link words -/

omit hT in
theorem wfLink_cases {l : Option (List Char)} (h : wfLinkT T l = true) :
    l = none ∨ ∃ w, l = some w ∧ w ≠ [] ∧ (∀ c ∈ w, T.isSpace c = false) ∧ strTruthy (some w) = true := by
  cases l with
  | none => exact Or.inl rfl
  | some w =>
    right
    simp only [wfLinkT, Bool.and_eq_true, Bool.not_eq_true', List.isEmpty_eq_false_iff] at h
    refine ⟨w, rfl, h.1, noSpace_iff.mp h.2, ?_⟩
    cases w with
    | nil => exact absurd rfl h.1
    | cons a r => rfl

/-- The state of the loop after the words of `str s` (for well-formed `s`). -/
def finalState (s : Style) : ParseState :=
  { color := s.color.map (·.name), bgcolor := s.bgcolor.map (·.name), attributes := kwOf s, link := s.link }

theorem parseLoop_colorElems {v : StyleVariant} {s : Style} (h : Wf T v s) (K : Kwargs) :
    parseLoopT T v ((colorElems s).flatMap T.split) { attributes := K } =
      .ok { color := s.color.map (·.name), bgcolor := s.bgcolor.map (·.name), attributes := K, link := s.link } := by
  unfold colorElems
  simp only [List.flatMap_append]
  have hl := wfLink_cases h.link
  cases hc : s.color with
  | none =>
    cases hb : s.bgcolor with
    | none =>
      rcases hl with hl | ⟨w, hl, hne, hns, ht⟩
      · simp [hl, strTruthy, parseLoopT]
      · simp only [ht, if_true, hl, Option.getD_some, List.flatMap_cons, List.flatMap_nil, List.nil_append, List.append_nil]
        rw [T.split_word hne hns, (T.word_facts (cl! "link") (by decide)).2.1]
        simp only [List.cons_append, List.nil_append]
        rw [parseLoop_link]; simp [parseLoopT]
    | some b =>
      obtain ⟨bne, bns, _, bp⟩ := wfColor_facts (h.bgcolor b hb)
      rcases hl with hl | ⟨w, hl, hne, hns, ht⟩
      · simp only [hl, strTruthy, List.flatMap_cons, List.flatMap_nil, List.nil_append, List.append_nil]
        rw [T.split_word bne bns, (T.word_facts (cl! "on") (by decide)).2.1]
        simp only [List.cons_append, List.nil_append, Bool.false_eq_true, if_false, List.flatMap_nil, List.append_nil]
        rw [parseLoop_on bp]; simp [parseLoopT]
      · simp only [ht, if_true, hl, Option.getD_some, List.flatMap_cons, List.flatMap_nil, List.nil_append, List.append_nil]
        rw [T.split_word hne hns, T.split_word bne bns, (T.word_facts (cl! "link") (by decide)).2.1,
          (T.word_facts (cl! "on") (by decide)).2.1]
        simp only [List.cons_append, List.nil_append]
        rw [parseLoop_on bp, parseLoop_link]; simp [parseLoopT]
  | some c =>
    obtain ⟨cne, cns, clow, cp⟩ := wfColor_facts (h.color c hc)
    cases hb : s.bgcolor with
    | none =>
      rcases hl with hl | ⟨w, hl, hne, hns, ht⟩
      · simp only [hl, strTruthy, List.flatMap_cons, List.flatMap_nil, List.append_nil]
        rw [T.split_word cne cns]
        simp only [Bool.false_eq_true, if_false, List.flatMap_nil, List.append_nil]
        rw [parseLoop_color clow cp]; simp [parseLoopT]
      · simp only [ht, if_true, hl, Option.getD_some, List.flatMap_cons, List.flatMap_nil, List.append_nil]
        rw [T.split_word hne hns, T.split_word cne cns, (T.word_facts (cl! "link") (by decide)).2.1]
        simp only [List.cons_append, List.nil_append]
        rw [parseLoop_color clow cp, parseLoop_link]; simp [parseLoopT]
    | some b =>
      obtain ⟨bne, bns, _, bp⟩ := wfColor_facts (h.bgcolor b hb)
      rcases hl with hl | ⟨w, hl, hne, hns, ht⟩
      · simp only [hl, strTruthy, List.flatMap_cons, List.flatMap_nil, List.append_nil]
        rw [T.split_word bne bns, T.split_word cne cns, (T.word_facts (cl! "on") (by decide)).2.1]
        simp only [List.cons_append, List.nil_append, Bool.false_eq_true, if_false, List.flatMap_nil, List.append_nil]
        rw [parseLoop_color clow cp, parseLoop_on bp]; simp [parseLoopT]
      · simp only [ht, if_true, hl, Option.getD_some, List.flatMap_cons, List.flatMap_nil, List.append_nil]
        rw [T.split_word hne hns, T.split_word bne bns, T.split_word cne cns, (T.word_facts (cl! "link") (by decide)).2.1,
          (T.word_facts (cl! "on") (by decide)).2.1]
        simp only [List.cons_append, List.nil_append]
        rw [parseLoop_color clow cp, parseLoop_on bp, parseLoop_link]; simp [parseLoopT]

theorem pairs13_GoodAttr : ∀ p ∈ pairs13, GoodAttr T p.1 p.2 :=
  fun p hp => goodAttr_of (List.all_eq_true.mp pairs13_good p hp)

/-- The loop of `parse` on the words of `render s`. -/
theorem parseLoop_render {v : StyleVariant} {s : Style} (h : Wf T v s) :
    parseLoopT T v (T.split (joinSpace (strElems s))) {} = .ok (finalState s) := by
  rw [T.split_joinSpace, strElems_flat, List.flatMap_append, List.flatMap_assoc]
  rw [parseLoop_attrs v s pairs13 pairs13_GoodAttr]
  exact parseLoop_colorElems h _

theorem init_finalState {v : StyleVariant} {s : Style} (h : Wf T v s) :
    initT T v ((finalState s).color.map .str) ((finalState s).bgcolor.map .str) (finalState s).attributes (finalState s).link =
      .ok { color := s.color, bgcolor := s.bgcolor, attributes := s.attributes, setAttributes := s.setAttributes,
            link := s.link, hash := s.fieldsKey,
            isNull := !(s.setAttributes ≠ 0 || s.color.isSome || s.bgcolor.isSome || strTruthy s.link),
            styleDef := none } := by
  have hc : ∀ c, s.color = some c → Color.parseT T v c.name = .ok c := fun c hc => (wfColor_facts (h.color c hc)).2.2.2
  have hb : ∀ c, s.bgcolor = some c → Color.parseT T v c.name = .ok c := fun c hc => (wfColor_facts (h.bgcolor c hc)).2.2.2
  have hset := kwSet_kwOf s h.lt
  have hval := kwVal_kwOf s h.sub h.lt
  have hattr : (if s.setAttributes = 0 then 0 else kwVal (kwOf s)) = s.attributes := by
    rw [hval]
    split
    · rename_i h0
      have := h.sub
      rw [h0] at this
      simpa using this
    · rfl
  have hsl : storedLink v s.link = s.link := by
    unfold storedLink linkVal
    rcases wfLink_cases h.link with hl | ⟨w, hl, _, _, ht⟩
    · simp [hl, strTruthy]
    · simp [hl, ht]
  unfold initT finalState
  cases hcs : s.color with
  | none =>
    cases hbs : s.bgcolor with
    | none => simp [fieldsKey, hcs, hbs, hset, hattr, hsl]
    | some b => simp [fieldsKey, hcs, hbs, makeColorT, hb b hbs, Except.map, hset, hattr, hsl]
  | some c =>
    cases hbs : s.bgcolor with
    | none => simp [fieldsKey, hcs, hbs, makeColorT, hc c hcs, Except.map, hset, hattr, hsl]
    | some b => simp [fieldsKey, hcs, hbs, makeColorT, hc c hcs, hb b hbs, Except.map, hset, hattr, hsl]

theorem joinSpace_eq_nil {es : List (List Char)} (hne : ∀ e ∈ es, e ≠ []) (h : joinSpace es = []) : es = [] := by
  cases es with
  | nil => rfl
  | cons w rest =>
    have hw := hne w (by simp)
    cases rest with
    | nil => exact absurd h hw
    | cons w' r =>
      have : joinSpace (w :: w' :: r) = w ++ ' ' :: joinSpace (w' :: r) := rfl
      rw [this] at h
      simp at h

theorem parse_none (v : StyleVariant) : parseT T v (cl! "none") = .ok Style.null := by
  unfold parseT
  have : T.strip (cl! "none") = cl! "none" := T.strip_noSpace (T.word_facts (cl! "none") (by decide)).2.2
  simp [this]

/-- The object `parse` builds from the definition of `s`: the fields of `s`, a fresh hash and `_null`
computed by `__init__`, an empty definition cache. -/
def reparsed (s : Style) : Style :=
  { color := s.color, bgcolor := s.bgcolor, attributes := s.attributes, setAttributes := s.setAttributes,
    link := s.link, hash := s.fieldsKey,
    isNull := !(s.setAttributes ≠ 0 || s.color.isSome || s.bgcolor.isSome || strTruthy s.link),
    styleDef := none }

/-- Round trip, exact form: a non-empty computed definition parses to `reparsed s`. -/
theorem parse_render_nonempty {v : StyleVariant} {s : Style} (hwf : Wf T v s)
    (hd : (joinSpace (strElems s)).isEmpty = false) : parseT T v (joinSpace (strElems s)) = .ok (reparsed s) := by
  have hloop := parseLoop_render (v := v) hwf
  have hnone : T.strip (joinSpace (strElems s)) ≠ cl! "none" := by
    intro hs
    have := T.split_of_strip_eq hs (by decide) (T.word_facts (cl! "none") (by decide)).2.2
    rw [this, parseLoop_none_word] at hloop
    cases hloop
  have hbeq : (T.strip (joinSpace (strElems s)) == cl! "none") = false := by simpa using hnone
  unfold parseT
  simp only [hbeq, hd, Bool.or_self, Bool.false_eq_true, if_false, hloop]
  rw [init_finalState hwf]
  rfl

/-- **Round trip**: the definition `__str__` computes for a well-formed style parses back to an equal style. -/
theorem parse_render {v : StyleVariant} {s : Style} (hwf : Wf T v s) :
    ∃ s', parseT T v (render s) = .ok s' ∧ eq s' s = true := by
  unfold render
  by_cases hd : (joinSpace (strElems s)).isEmpty = true
  · -- nothing to say: "none"
    simp only [hd, if_true]
    refine ⟨Style.null, parse_none v, ?_⟩
    have hloop := parseLoop_render (v := v) hwf
    have hnil : joinSpace (strElems s) = [] := by simpa using hd
    rw [hnil] at hloop
    have : T.split [] = [] := rfl
    rw [this, parseLoopT.eq_def] at hloop
    simp only [Except.ok.injEq] at hloop
    have h1 := congrArg ParseState.color hloop
    have h2 := congrArg ParseState.bgcolor hloop
    have h3 := congrArg ParseState.attributes hloop
    have h4 := congrArg ParseState.link hloop
    simp only [finalState] at h1 h2 h3 h4
    have hset : s.setAttributes = 0 := by
      rw [← kwSet_kwOf s hwf.lt, ← h3]; decide
    have hattr : s.attributes = 0 := by
      have := hwf.sub; rw [hset] at this; simpa using this.symm
    have hc : s.color = none := by
      cases hcs : s.color with
      | none => rfl
      | some c => rw [hcs] at h1; cases h1
    have hb : s.bgcolor = none := by
      cases hcs : s.bgcolor with
      | none => rfl
      | some c => rw [hcs] at h2; cases h2
    rw [eq_iff]
    simp [Style.null, hset, hattr, hc, hb, ← h4]
  · have hd' : (joinSpace (strElems s)).isEmpty = false := by simpa using hd
    simp only [hd', if_false, Bool.false_eq_true]
    refine ⟨_, parse_render_nonempty hwf hd', ?_⟩
    rw [eq_iff]
    simp [reparsed]

end Style
end RichModel
