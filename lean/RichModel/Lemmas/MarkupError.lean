import RichModel.Lemmas.MarkupFinish
namespace RichModel.Markup

/-! ### when does the reference semantics fail -/

/-- the tags open after `evs`, a closing tag with nothing to close being skipped (total) -/
def openAfter (cfg : Cfg) : List OTag → List Ev → List OTag
  | op, [] => op
  | op, .chr _ :: r => openAfter cfg op r
  | op, .tag t :: r =>
    match classify cfg t with
    | .opening o => openAfter cfg (o :: op) r
    | .closeName n => openAfter cfg ((closeRecent n op).getD op) r
    | .closeTop => openAfter cfg op.tail r

/-- closing tag `t` has nothing to close when the open tags are `op` -/
def cannotClose (cfg : Cfg) (op : List OTag) (t : Tag) : Prop :=
  match classify cfg t with
  | .opening _ => False
  | .closeName n => closeRecent n op = none
  | .closeTop => op = []

/-- some closing tag of the text has nothing to close when it is reached -/
def NothingToClose (cfg : Cfg) (op : List OTag) (evs : List Ev) : Prop :=
  ∃ pre t post, evs = pre ++ Ev.tag t :: post ∧ cannotClose cfg (openAfter cfg op pre) t

theorem sem_none_iff (cfg : Cfg) (evs : List Ev) : ∀ op, sem cfg op evs = none ↔ NothingToClose cfg op evs := by
  induction evs with
  | nil =>
    intro op
    simp only [sem]
    constructor
    · intro h; cases h
    · rintro ⟨pre, t, post, h, _⟩; simp at h
  | cons ev evs ih =>
    intro op
    have shift : ∀ (op' : List OTag), (∀ pre, openAfter cfg op (ev :: pre) = openAfter cfg op' pre) →
        ¬ (∃ t, ev = Ev.tag t ∧ cannotClose cfg op t) →
        (NothingToClose cfg op (ev :: evs) ↔ NothingToClose cfg op' evs) := by
      intro op' hoa hnot
      constructor
      · rintro ⟨pre, t, post, h, hc⟩
        cases pre with
        | nil =>
          simp at h
          exact absurd ⟨t, h.1, by simpa [openAfter] using hc⟩ hnot
        | cons x pre' =>
          simp at h
          obtain ⟨rfl, h2⟩ := h
          exact ⟨pre', t, post, h2, by rw [← hoa]; exact hc⟩
      · rintro ⟨pre, t, post, h, hc⟩
        exact ⟨ev :: pre, t, post, by rw [h]; rfl, by rw [hoa]; exact hc⟩
    cases ev with
    | chr c =>
      have := shift op (fun pre => rfl) (by rintro ⟨t, h, _⟩; cases h)
      rw [this, ← ih op]
      simp only [sem]
      by_cases hc : isStripped c = true
      · simp [hc]
      · simp only [hc, Bool.false_eq_true, if_false]
        cases sem cfg op evs <;> simp
    | tag t =>
      simp only [sem]
      cases hk : classify cfg t with
      | opening o =>
        simp only
        rw [ih, shift (o :: op) (fun pre => by simp [openAfter, hk])]
        rintro ⟨t', h, hc⟩
        cases h
        simp [cannotClose, hk] at hc
      | closeName n =>
        simp only
        cases hc : closeRecent n op with
        | none =>
          simp only
          constructor
          · intro _; exact ⟨[], t, evs, rfl, by simp [openAfter, cannotClose, hk, hc]⟩
          · intro _; trivial
        | some op' =>
          simp only
          rw [ih, shift op' (fun pre => by simp [openAfter, hk, hc])]
          rintro ⟨t', h, hcc⟩
          cases h
          simp [cannotClose, hk, hc] at hcc
      | closeTop =>
        simp only
        cases op with
        | nil =>
          simp only
          constructor
          · intro _; exact ⟨[], t, evs, rfl, by simp [openAfter, cannotClose, hk]⟩
          · intro _; trivial
        | cons o op' =>
          simp only
          rw [ih, shift op' (fun pre => by simp [openAfter, hk])]
          rintro ⟨t', h, hcc⟩
          cases h
          simp [cannotClose, hk] at hcc

/-- `render` fails exactly when the reference semantics does — for both span orders -/
theorem render_error_iff_sem (cfg : Cfg) (hE : cfg.emoji = none) (m : List Char) :
    (∃ e, render cfg m = .error e) ↔ sem cfg [] (events m) = none := by
  have hr := render_eq_runEv cfg hE m
  have hs := runEv_refines cfg (events m) St.init [] [] Inv_init
  simp only [St.init, List.map_nil] at hs
  cases hsem : sem cfg [] (events m) with
  | none =>
    rw [hsem] at hs
    have : runEv cfg St.init (events m) = none := hs
    rw [this] at hr
    simp only [iff_true]
    exact toOption_eq_none hr
  | some ann =>
    rw [hsem] at hs
    obtain ⟨st', abs', h1, _⟩ := hs
    have : runEv cfg St.init (events m) = some st' := h1
    rw [this] at hr
    have hok := toOption_eq_some hr
    simp only [reduceCtorEq, iff_false]
    rintro ⟨e, he⟩
    rw [he] at hok; cases hok

end RichModel.Markup
