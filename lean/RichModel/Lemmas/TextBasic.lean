import RichModel.Model.Text
/-!
Basic lemmas for the Text model: annotated strings, `spanIds` algebra, Python slices.
-/
namespace RichModel
namespace Text
variable {σ : Type}

/-- `annot s f k`: the characters of `s`, the one at position `j` paired with `f (k + j)`. -/
def annot {β : Type} : List Char → (Nat → β) → Nat → List (Char × β)
  | [], _, _ => []
  | c :: cs, f, k => (c, f k) :: annot cs f (k + 1)

theorem zipIdx_map_eq_annot {β : Type} (s : List Char) (f : Nat → β) (k : Nat) :
    (s.zipIdx k).map (fun p => (p.1, f p.2)) = annot s f k := by
  induction s generalizing k with
  | nil => rfl
  | cons c cs ih => simp [List.zipIdx_cons, annot, ih]

theorem view_eq_annot (t : Text σ) : t.view = annot t.plain t.effStyle 0 := by
  unfold view; exact zipIdx_map_eq_annot _ _ _

theorem relView_eq_annot (t : Text σ) : t.relView = annot t.plain (spanIds t.spans) 0 := by
  unfold relView; exact zipIdx_map_eq_annot _ _ _

theorem annot_append {β : Type} (a b : List Char) (f : Nat → β) (k : Nat) :
    annot (a ++ b) f k = annot a f k ++ annot b f (k + a.length) := by
  induction a generalizing k with
  | nil => simp [annot]
  | cons c cs ih => simp [annot, ih, Nat.add_assoc, Nat.add_comm 1]

theorem annot_congr {β : Type} (s : List Char) (f g : Nat → β) (k : Nat)
    (h : ∀ i, k ≤ i → i < k + s.length → f i = g i) : annot s f k = annot s g k := by
  induction s generalizing k with
  | nil => rfl
  | cons c cs ih =>
    simp only [annot]
    rw [h k (Nat.le_refl _) (by simp), ih (k + 1) (fun i h1 h2 => h i (by omega) (by simp; omega))]

theorem annot_length {β : Type} (s : List Char) (f : Nat → β) (k : Nat) : (annot s f k).length = s.length := by
  induction s generalizing k with
  | nil => rfl
  | cons c cs ih => simp [annot, ih]

theorem annot_map_fst {β : Type} (s : List Char) (f : Nat → β) (k : Nat) : (annot s f k).map (·.1) = s := by
  induction s generalizing k with
  | nil => rfl
  | cons c cs ih => simp [annot, ih]

theorem annot_map {β γ : Type} (s : List Char) (f : Nat → β) (g : β → γ) (k : Nat) :
    (annot s f k).map (fun p => (p.1, g p.2)) = annot s (fun i => g (f i)) k := by
  induction s generalizing k with
  | nil => rfl
  | cons c cs ih => simp [annot, ih]

theorem annot_shift {β : Type} (s : List Char) (f : Nat → β) (k d : Nat) :
    annot s f (k + d) = annot s (fun i => f (i + d)) k := by
  induction s generalizing k with
  | nil => rfl
  | cons c cs ih =>
    simp only [annot]
    rw [show k + d + 1 = (k + 1) + d by omega, ih]

theorem annot_take {β : Type} (s : List Char) (f : Nat → β) (k n : Nat) :
    annot (s.take n) f k = (annot s f k).take n := by
  induction s generalizing k n with
  | nil => simp [annot]
  | cons c cs ih =>
    cases n with
    | zero => simp [annot]
    | succ n => simp [annot, ih]

theorem annot_drop {β : Type} (s : List Char) (f : Nat → β) (k n : Nat) :
    annot (s.drop n) f (k + n) = (annot s f k).drop n := by
  induction s generalizing k n with
  | nil => simp [annot]
  | cons c cs ih =>
    cases n with
    | zero => simp [annot]
    | succ n =>
      simp only [List.drop_succ_cons, annot]
      rw [show k + (n + 1) = (k + 1) + n by omega, ih]

theorem annot_replicate {β : Type} (c : Char) (n : Nat) (f : Nat → β) (k : Nat) (b : β)
    (h : ∀ i, k ≤ i → i < k + n → f i = b) : annot (List.replicate n c) f k = List.replicate n (c, b) := by
  induction n generalizing k with
  | zero => rfl
  | succ n ih =>
    simp only [List.replicate_succ, annot]
    rw [h k (Nat.le_refl _) (by omega), ih (k + 1) (fun i h1 h2 => h i (by omega) (by omega))]

/-! ### spanIds -/

theorem spanIds_nil (i : Nat) : spanIds ([] : List (Span σ)) i = [] := rfl

theorem spanIds_append (a b : List (Span σ)) (i : Nat) : spanIds (a ++ b) i = spanIds a i ++ spanIds b i := by
  simp [spanIds]

theorem spanIds_cons (sp : Span σ) (rest : List (Span σ)) (i : Nat) :
    spanIds (sp :: rest) i = if sp.covers i then sp.style :: spanIds rest i else spanIds rest i := by
  simp only [spanIds, List.filter_cons]
  split <;> simp

theorem covers_iff (sp : Span σ) (i : Nat) : sp.covers i = true ↔ sp.start ≤ (i : Int) ∧ (i : Int) < sp.stop := by
  simp [Span.covers]

/-- no span reaches position `i` -/
theorem spanIds_eq_nil (spans : List (Span σ)) (i : Nat)
    (h : ∀ sp ∈ spans, ¬ (sp.start ≤ (i : Int) ∧ (i : Int) < sp.stop)) : spanIds spans i = [] := by
  induction spans with
  | nil => rfl
  | cons sp rest ih =>
    rw [spanIds_cons]
    have : sp.covers i = false := by
      cases hc : sp.covers i with
      | false => rfl
      | true => exact absurd ((covers_iff sp i).1 hc) (h sp (by simp))
    simp only [this, Bool.false_eq_true, if_false]
    exact ih (fun sp' h' => h sp' (by simp [h']))

/-- spans related position-wise by `g` cover related positions -/
theorem spanIds_map (spans : List (Span σ)) (g : Span σ → Span σ) (i j : Nat)
    (hs : ∀ sp ∈ spans, (g sp).style = sp.style)
    (hc : ∀ sp ∈ spans, (g sp).covers i = sp.covers j) : spanIds (spans.map g) i = spanIds spans j := by
  induction spans with
  | nil => rfl
  | cons sp rest ih =>
    simp only [List.map_cons, spanIds_cons]
    rw [hc sp (by simp), hs sp (by simp), ih (fun s h => hs s (by simp [h])) (fun s h => hc s (by simp [h]))]

theorem spanIds_move (spans : List (Span σ)) (k : Nat) (i : Nat) :
    spanIds (spans.map (fun sp => sp.move (k : Int))) (i + k) = spanIds spans i := by
  apply spanIds_map
  · intro sp _; rfl
  · intro sp _
    simp only [Span.covers, Span.move]
    congr 1 <;> (apply decide_eq_decide.2; omega)

theorem spanIds_move_lt (spans : List (Span σ)) (k : Nat) (i : Nat) (hi : i < k)
    (h0 : ∀ sp ∈ spans, 0 ≤ sp.start) :
    spanIds (spans.map (fun sp => sp.move (k : Int))) i = [] := by
  apply spanIds_eq_nil
  intro sp hsp
  obtain ⟨sp0, h0m, rfl⟩ := List.mem_map.1 hsp
  have := h0 sp0 h0m
  simp only [Span.move]; omega

/-- `trimSpansTo`: positions below the cut keep their spans, positions at or above it have none. -/
theorem spanIds_trim (spans : List (Span σ)) (m : Int) (i : Nat) :
    spanIds (trimSpansTo spans m) i = if (i : Int) < m then spanIds spans i else [] := by
  induction spans with
  | nil => simp [trimSpansTo, spanIds]
  | cons sp rest ih =>
    have hrec : trimSpansTo (sp :: rest) m =
        if sp.start < m then sp.clip m :: trimSpansTo rest m else trimSpansTo rest m := by
      simp only [trimSpansTo, List.filter_cons]
      split <;> simp_all
    rw [hrec]
    by_cases hs : sp.start < m
    · simp only [hs, if_true, spanIds_cons, ih]
      have hcov : (sp.clip m).covers i = (sp.covers i && decide ((i : Int) < m)) := by
        simp only [Span.clip]
        split
        · simp only [Span.covers]
          by_cases h1 : sp.start ≤ (i : Int) <;> by_cases h2 : (i : Int) < sp.stop <;> by_cases h3 : (i : Int) < m <;>
            simp [h1, h2, h3] <;> omega
        · simp only [Span.covers]
          by_cases h1 : sp.start ≤ (i : Int) <;> by_cases h2 : (i : Int) < sp.stop <;> by_cases h3 : (i : Int) < m <;>
            simp [h1, h2, h3] <;> omega
      have hsty : (sp.clip m).style = sp.style := by simp only [Span.clip]; split <;> rfl
      rw [hcov, hsty]
      by_cases h3 : (i : Int) < m <;> simp [h3]
    · simp only [hs, if_false, ih, spanIds_cons]
      have : sp.covers i = true → ¬ (i : Int) < m := by
        intro hc; have := (covers_iff sp i).1 hc; omega
      by_cases h3 : (i : Int) < m
      · simp only [h3, if_true]
        cases hc : sp.covers i with
        | false => simp
        | true => exact absurd h3 (this hc)
      · simp [h3]

/-! ### Python slices -/

theorem clampIdx_nat (n k : Nat) : Py.clampIdx n (k : Int) = min k n := by
  simp only [Py.clampIdx]
  split
  · omega
  · simp

theorem sliceTo_nat {α : Type} (l : List α) (k : Nat) : Py.sliceTo l (k : Int) = l.take k := by
  simp only [Py.sliceTo, clampIdx_nat]
  rw [List.take_eq_take_iff]; omega

theorem slice_nat {α : Type} (l : List α) (a b : Nat) : Py.slice l (a : Int) (b : Int) = (l.drop a).take (b - a) := by
  simp only [Py.slice, clampIdx_nat]
  by_cases ha : a ≤ l.length
  · rw [Nat.min_eq_left ha, List.take_eq_take_iff]; simp; omega
  · have : l.length ≤ a := by omega
    simp [List.drop_eq_nil_of_le, this, Nat.min_eq_right this]

/-! ### control codes -/

theorem stripControl_noCtl (s : List Char) : ∀ c ∈ stripControl s, isStripCode c = false := by
  intro c hc
  simp only [stripControl, List.mem_filter] at hc
  simpa using hc.2

theorem stripControl_id (s : List Char) (h : ∀ c ∈ s, isStripCode c = false) : stripControl s = s := by
  simp only [stripControl]
  rw [List.filter_eq_self]
  intro c hc; simp [h c hc]

end Text
end RichModel
