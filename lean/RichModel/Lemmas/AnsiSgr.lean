import RichModel.Lemmas.AnsiTables
import RichModel.Lemmas.Style
/-!
The SGR half of the round trip (property C19): the parameter list `_make_ansi_codes` writes for a
truecolor terminal, read back by `sgrCodes` / `applyCodes`.
-/
namespace RichModel
namespace Ansi
open AsciiStr Style

/-! ### parameter texts -/

/-- parameter texts with the numbers they denote -/
def PList (ps : List (List Char × Nat)) : Prop := ∀ p ∈ ps, paramOk p.1 p.2 = true

theorem paramOk_unpack {c : List Char} {n : Nat} (h : paramOk c n = true) :
    strIsDigit c = true ∧ (∀ x ∈ c, x ≠ ';' ∧ x ≠ 'm' ∧ x ≠ '\n' ∧ x ≠ ESC ∧ x ≠ '\r') ∧ pyIntDigits c = some n ∧ n ≤ 255 := by
  simp only [paramOk, Bool.and_eq_true, List.all_eq_true, bne_iff_ne, ne_eq, beq_iff_eq, decide_eq_true_eq] at h
  obtain ⟨⟨⟨⟨h1, h2⟩, h3⟩, h4⟩, _⟩ := h
  exact ⟨h1, fun x hx => ⟨(h2 x hx).1.1.1.1, (h2 x hx).1.1.1.2, (h2 x hx).1.1.2, (h2 x hx).1.2, (h2 x hx).2⟩, h3, h4⟩

theorem natStr_paramOk {n : Nat} (hn : n < 256) : paramOk (natStr n) n = true := by
  have := digits_ok
  simp only [digitsOk, List.all_eq_true, List.mem_range] at this
  exact this n hn

theorem splitOnAux_word (sep : Char) (w cur : List Char) (hw : ∀ c ∈ w, c ≠ sep) :
    splitOnAux sep w cur = [cur ++ w] := by
  induction w generalizing cur with
  | nil => simp [splitOnAux]
  | cons x r ih =>
    have hx := hw x (by simp)
    simp only [splitOnAux, hx, if_false]
    rw [ih _ (fun c hc => hw c (by simp [hc]))]
    simp

theorem splitOnAux_sep (sep : Char) (w rest cur : List Char) (hw : ∀ c ∈ w, c ≠ sep) :
    splitOnAux sep (w ++ sep :: rest) cur = (cur ++ w) :: splitOnAux sep rest [] := by
  induction w generalizing cur with
  | nil => simp [splitOnAux]
  | cons x r ih =>
    have hx := hw x (by simp)
    simp only [List.cons_append, splitOnAux, hx, if_false]
    rw [ih _ (fun c hc => hw c (by simp [hc]))]
    simp

theorem splitOn_joinWith (sep : Char) (ws : List (List Char)) (hne : ws ≠ [])
    (h : ∀ w ∈ ws, ∀ c ∈ w, c ≠ sep) : splitOn sep (joinWith sep ws) = ws := by
  unfold splitOn
  induction ws with
  | nil => exact absurd rfl hne
  | cons w r ih =>
    cases r with
    | nil => simpa [joinWith] using splitOnAux_word sep w [] (h w (by simp))
    | cons w2 r2 =>
      simp only [joinWith]
      rw [splitOnAux_sep sep w _ [] (h w (by simp))]
      rw [ih (by simp) (fun x hx => h x (by simp [hx]))]
      simp

theorem mem_joinWith {sep : Char} {ws : List (List Char)} {c : Char} (hc : c ∈ joinWith sep ws) :
    c = sep ∨ ∃ w ∈ ws, c ∈ w := by
  induction ws with
  | nil => simp [joinWith] at hc
  | cons w r ih =>
    cases r with
    | nil => right; exact ⟨w, by simp, by simpa [joinWith] using hc⟩
    | cons w2 r2 =>
      simp only [joinWith, List.mem_append, List.mem_cons] at hc
      rcases hc with hc | hc | hc
      · right; exact ⟨w, by simp, hc⟩
      · left; exact hc
      · rcases ih hc with h | ⟨x, hx, hcx⟩
        · left; exact h
        · right; exact ⟨x, by simp [hx], hcx⟩

theorem joinWith_eq_nil {sep : Char} {ws : List (List Char)} (h : joinWith sep ws = []) (hne : ∀ w ∈ ws, w ≠ []) :
    ws = [] := by
  cases ws with
  | nil => rfl
  | cons w r =>
    cases r with
    | nil => simp only [joinWith] at h; exact absurd h (hne w (by simp))
    | cons w2 r2 => simp [joinWith] at h

theorem codesLoop_plist (cfg : Cfg) (ps : List (List Char × Nat)) (h : PList ps) :
    codesLoop cfg (ps.map (·.1)) = .ok (ps.map (·.2)) := by
  induction ps with
  | nil => rfl
  | cons p r ih =>
    obtain ⟨h1, _, h3, h4⟩ := paramOk_unpack (h p (by simp))
    have hne : p.1.isEmpty = false := by
      simp only [strIsDigit, Bool.and_eq_true, Bool.not_eq_true'] at h1; exact h1.1
    simp only [List.map_cons, codesLoop, hne, Bool.false_eq_true, if_false, h1, if_true, h3]
    rw [ih (fun x hx => h x (by simp [hx]))]
    simp [Except.map, Nat.min_eq_right h4]

/-- `sgrCodes` reads the joined parameter texts back as their numbers. -/
theorem sgrCodes_plist (cfg : Cfg) (ps : List (List Char × Nat)) (h : PList ps) (hne : ps ≠ []) :
    sgrCodes cfg (joinWith ';' (ps.map (·.1))) = .ok (ps.map (·.2)) := by
  unfold sgrCodes
  rw [splitOn_joinWith ';' _ (by simpa using hne)]
  · exact codesLoop_plist cfg ps h
  · intro w hw c hc
    simp only [List.mem_map] at hw
    obtain ⟨p, hp, rfl⟩ := hw
    exact ((paramOk_unpack (h p hp)).2.1 c hc).1

theorem paramOk_ascii {c : List Char} {n : Nat} (h : paramOk c n = true) : ∀ x ∈ c, isSgrParam x = true := by
  simp only [paramOk, Bool.and_eq_true, List.all_eq_true] at h
  intro x hx
  have := h.2 x hx
  simp [isSgrParam, this]

theorem plist_body_ok (ps : List (List Char × Nat)) (h : PList ps) :
    ∀ c ∈ joinWith ';' (ps.map (·.1)), isSgrParam c = true := by
  intro c hc
  rcases mem_joinWith hc with rfl | ⟨w, hw, hcw⟩
  · decide
  · simp only [List.mem_map] at hw
    obtain ⟨p, hp, rfl⟩ := hw
    exact paramOk_ascii (h p hp) c hcw

theorem plist_nonempty (ps : List (List Char × Nat)) (h : PList ps) : ∀ w ∈ ps.map (·.1), w ≠ [] := by
  intro w hw
  simp only [List.mem_map] at hw
  obtain ⟨p, hp, rfl⟩ := hw
  have := (paramOk_unpack (h p hp)).1
  intro he
  simp [strIsDigit, he] at this

/-! ### `applyCodes` on one table code -/

theorem parsedFields_some {v : StyleVariant} {k : Nat} {F : Fields} (h : parsedFields v k = some F) :
    ∃ d b, sgrLookup k = some d ∧ Style.parse v d = .ok b ∧ fieldsOf b = F := by
  unfold parsedFields at h
  split at h
  · rename_i d hd
    split at h
    · rename_i b hb
      simp only [Option.some.injEq] at h
      exact ⟨d, b, hd, hb, h⟩
    · cases h
  · cases h

theorem applyCodes_table (cfg : Cfg) (st : Style) (k : Nat) (r : List Nat) {d b}
    (hk : k ≠ 0 ∧ k ≠ 24 ∧ k ≠ 25) (hd : sgrLookup k = some d) (hb : Style.parse cfg.sv d = .ok b) :
    applyCodes cfg st (k :: r) 0 = applyCodes cfg (Style.add cfg.sv st b) r 0 := by
  have hv : sgrLookupV cfg k = some d := by simp [sgrLookupV, hk.2.1, hk.2.2, hd]
  simp [applyCodes, hk.1, hv, hb]

theorem applyCodes_skip (cfg : Cfg) (st : Style) (p r : List Nat) :
    applyCodes cfg st (p ++ r) p.length = applyCodes cfg st r 0 := by
  induction p with
  | nil => rfl
  | cons c q ih => simpa [applyCodes] using ih

theorem add_isNull_false (v : StyleVariant) (a b : Style) (hb : b.isNull = false) : (add v a b).isNull = false := by
  unfold add
  by_cases ha : a.isNull = true
  · simp [hb, ha]
  · simp [hb, ha]

/-- What the decoder knows about a style that it is adding: a non-null style with `Inv` and no link. -/
structure Addend (b : Style) : Prop where
  inv : Inv b
  notNull : b.isNull = false
  noLink : b.link = none

theorem linkVal_add_addend (v : StyleVariant) {a b : Style} (ha : Inv a) (hb : Addend b) :
    linkVal (add v a b).link = linkVal a.link := by
  rw [link_add v ha hb.inv, hb.noLink]
  simp [strTruthy]

/-! ### attribute codes -/

/-- (bit, parameter text, number) of one attribute the encoder writes -/
def BitItem (v : StyleVariant) (x : Nat × List Char × Nat) : Prop :=
  x.1 < 13 ∧ styleMapCode x.1 = some x.2.1 ∧ paramOk x.2.1 x.2.2 = true ∧ (x.2.2 ≠ 0 ∧ x.2.2 ≠ 24 ∧ x.2.2 ≠ 25) ∧
    parsedFields v x.2.2 = some ⟨none, none, 2 ^ x.1, 2 ^ x.1, none, false⟩

theorem bitItem_of_table (v : StyleVariant) {i : Nat} (hi : i < 13) (hv : v = StyleVariant.fixed := by rfl) :
    ∃ c k, BitItem v (i, c, k) := by
  have ht := tablesOk_all v hv
  simp only [tablesOk, Bool.and_eq_true, List.all_eq_true, List.mem_range] at ht
  have hb := ht.1.1.1.1.1 i hi
  unfold bitOk at hb
  split at hb
  · rename_i c hc
    split at hb
    · rename_i k hk
      simp only [Bool.and_eq_true, decide_eq_true_eq, beq_iff_eq] at hb
      exact ⟨c, k, hi, hc, hb.1.1, hb.1.2, hb.2⟩
    · cases hb
  · cases hb

theorem bitCodes_spec (v : StyleVariant) (A : Nat) (bits : List Nat) (hb : ∀ i ∈ bits, i < 13)
    (hv : v = StyleVariant.fixed := by rfl) :
    ∃ bs : List (Nat × List Char × Nat), bitCodes A bits = .ok (bs.map (·.2.1)) ∧ (∀ x ∈ bs, BitItem v x) ∧
      bs.map (·.1) = bits.filter (A.testBit ·) := by
  induction bits with
  | nil => exact ⟨[], rfl, by simp, rfl⟩
  | cons i r ih =>
    obtain ⟨bs, h1, h2, h3⟩ := ih (fun j hj => hb j (by simp [hj]))
    by_cases ht : A.testBit i = true
    · obtain ⟨c, k, hitem⟩ := bitItem_of_table v (hb i (by simp)) hv
      refine ⟨(i, c, k) :: bs, ?_, ?_, ?_⟩
      · simp only [bitCodes, bitCode, ht, if_true, hitem.2.1, h1, Except.map, List.map_cons]
        rfl
      · intro x hx
        rcases List.mem_cons.mp hx with rfl | hx
        · exact hitem
        · exact h2 x hx
      · simp [List.filter, ht, h3]
    · refine ⟨bs, ?_, h2, ?_⟩
      · simp only [bitCodes, bitCode, ht, Bool.false_eq_true, if_false, h1, Except.map]
        simp
      · simp [List.filter, ht, h3]

theorem testBit_false_of_and_eq_zero {A m : Nat} (h : A &&& m = 0) {i : Nat} (hm : m.testBit i = true) :
    A.testBit i = false := by
  have := congrArg (·.testBit i) h
  simp only [Nat.testBit_and, hm, Bool.and_true, Nat.zero_testBit] at this
  exact this

theorem filter_group_nil {A m : Nat} (h : A &&& m = 0) (bits : List Nat) (hm : ∀ i ∈ bits, m.testBit i = true) :
    bits.filter (A.testBit ·) = [] := by
  rw [List.filter_eq_nil_iff]
  intro i hi
  simp [testBit_false_of_and_eq_zero h (hm i hi)]

/-- The attribute part of `_make_ansi_codes`: one parameter per attribute that is on, in bit order. -/
theorem attrCodes_spec (v : StyleVariant) (A : Nat) (hv : v = StyleVariant.fixed := by rfl) :
    ∃ bs : List (Nat × List Char × Nat), attrCodes A = .ok (bs.map (·.2.1)) ∧ (∀ x ∈ bs, BitItem v x) ∧
      bs.map (·.1) = (List.range 13).filter (A.testBit ·) := by
  have hr : List.range 13 = [0, 1, 2, 3] ++ [4, 5, 6, 7, 8] ++ [9, 10, 11, 12] := by decide
  by_cases hA : A = 0
  · subst hA
    exact ⟨[], by simp [attrCodes], by simp, by simp [List.filter_eq_nil_iff]⟩
  · obtain ⟨b0, e0, i0, f0⟩ := bitCodes_spec v A [0, 1, 2, 3] (by decide) hv
    obtain ⟨b1, e1, i1, f1⟩ := bitCodes_spec v A [4, 5, 6, 7, 8] (by decide) hv
    obtain ⟨b2, e2, i2, f2⟩ := bitCodes_spec v A [9, 10, 11, 12] (by decide) hv
    have g1 : ∃ b1' : List (Nat × List Char × Nat),
        (if A &&& 0b0000111110000 ≠ 0 then bitCodes A [4, 5, 6, 7, 8] else .ok []) = .ok (b1'.map (·.2.1)) ∧
        (∀ x ∈ b1', BitItem v x) ∧ b1'.map (·.1) = [4, 5, 6, 7, 8].filter (A.testBit ·) := by
      by_cases hg : A &&& 0b0000111110000 ≠ 0
      · exact ⟨b1, by simp [hg, e1], i1, f1⟩
      · have hz : A &&& 0b0000111110000 = 0 := by simpa using hg
        exact ⟨[], by simp [hz], by simp, by rw [filter_group_nil hz _ (by decide)]; rfl⟩
    have g2 : ∃ b2' : List (Nat × List Char × Nat),
        (if A &&& 0b1111000000000 ≠ 0 then bitCodes A [9, 10, 11, 12] else .ok []) = .ok (b2'.map (·.2.1)) ∧
        (∀ x ∈ b2', BitItem v x) ∧ b2'.map (·.1) = [9, 10, 11, 12].filter (A.testBit ·) := by
      by_cases hg : A &&& 0b1111000000000 ≠ 0
      · exact ⟨b2, by simp [hg, e2], i2, f2⟩
      · have hz : A &&& 0b1111000000000 = 0 := by simpa using hg
        exact ⟨[], by simp [hz], by simp, by rw [filter_group_nil hz _ (by decide)]; rfl⟩
    obtain ⟨b1', e1', i1', f1'⟩ := g1
    obtain ⟨b2', e2', i2', f2'⟩ := g2
    refine ⟨b0 ++ b1' ++ b2', ?_, ?_, ?_⟩
    · unfold attrCodes
      simp only [hA, ne_eq, not_false_eq_true, if_true, e0]
      rw [e1']
      simp only
      rw [e2']
      simp
    · intro x hx
      simp only [List.mem_append] at hx
      rcases hx with (hx | hx) | hx
      · exact i0 x hx
      · exact i1' x hx
      · exact i2' x hx
    · rw [hr, List.filter_append, List.filter_append, List.map_append, List.map_append, f0, f1', f2']

end Ansi
end RichModel
