import RichModel.Lemmas.AnsiLive
import RichModel.Lemmas.LiveStop
import RichModel.Lemmas.LiveInv
/-!
Per stream, under a running display (C19 with C10's model, read-only): over any sequence of prints, refreshes,
updates, resizes and writes to the two redirected streams, the lines the display prints on behalf of a stream are
the complete lines of that stream's own character stream — C19's specification — and its unterminated rest is
what stays pending for the repaired `stop` to place above the last frame.
-/
namespace RichModel
namespace Ansi
open RichModel.Live

/-- operations "under a running display" that concern this theorem (no start / stop, no task bookkeeping) -/
def isBody : Live.Op → Bool
  | .print _ | .printBare | .refresh | .update _ _ | .write _ _ _ | .resize _ => true
  | _ => false

/-- the characters a body writes to stream `e` -/
def streamText (e : Bool) : List Live.Op → List Char
  | [] => []
  | .write e' lines tail :: rest => (if e' = e then Live.flatW (lines, tail) else []) ++ streamText e rest
  | _ :: rest => streamText e rest

/-- the lines the display prints on behalf of stream `e` over a body, in order (`printedByJ` of its writes) -/
def streamLines (cfg : Live.Cfg) (e : Bool) : Live.St → List Live.Op → List Live.Line
  | _, [] => []
  | st, op :: rest =>
    (match op with
     | .write e' _ _ => if e' = e then printedByJ st op else []
     | _ => []) ++ streamLines cfg e (Live.step cfg Live.noFault st op).st rest

def runBody (cfg : Live.Cfg) : Live.St → List Live.Op → Live.St
  | st, [] => st
  | st, op :: rest => runBody cfg (Live.step cfg Live.noFault st op).st rest

/-- a body operation other than a write leaves both buffers and the redirection alone -/
theorem step_other_keeps (cfg : Live.Cfg) (st : Live.St) (op : Live.Op) (hb : isBody op = true)
    (hw : ∀ e l t, op ≠ .write e l t) (e : Bool) :
    Live.getBuf (Live.step cfg Live.noFault st op).st e = Live.getBuf st e ∧
    Live.proxied (Live.step cfg Live.noFault st op).st e = Live.proxied st e := by
  cases op with
  | print ls =>
    exact ⟨Live.getBuf_of_bufs (Live.doPrint_bufs cfg _ st ls) e, Live.proxied_of_ctlEq (Live.doPrint_ctl cfg _ st ls).1 e⟩
  | printBare =>
    simp only [Live.step]
    split
    · exact ⟨rfl, rfl⟩
    · exact ⟨Live.getBuf_of_bufs (Live.doPrint_bufs cfg _ st [[]]) e, Live.proxied_of_ctlEq (Live.doPrint_ctl cfg _ st [[]]).1 e⟩
  | refresh =>
    exact ⟨Live.getBuf_of_bufs (Live.doRefresh_bufs cfg _ st) e, Live.proxied_of_ctlEq (Live.doRefresh_ctl cfg _ st).1 e⟩
  | update f r =>
    simp only [Live.step]
    cases cfg.kind with
    | live =>
      simp only
      split
      · exact ⟨Live.getBuf_of_bufs (Live.doRefresh_bufs cfg _ _) e, Live.proxied_of_ctlEq (Live.doRefresh_ctl cfg _ _).1 e⟩
      · exact ⟨rfl, rfl⟩
    | status =>
      exact ⟨Live.getBuf_of_bufs (Live.doRefresh_bufs cfg _ _) e, Live.proxied_of_ctlEq (Live.doRefresh_ctl cfg _ _).1 e⟩
    | progress => exact ⟨rfl, rfl⟩
  | resize w => exact ⟨rfl, rfl⟩
  | write e' l t => exact absurd rfl (hw e' l t)
  | start => cases hb
  | stop => cases hb
  | addTask _ _ _ => cases hb
  | updateTask _ _ _ => cases hb
  | removeTask _ => cases hb

/-- a write to a redirected stream: the written stream's buffer becomes the proxy's, the other's is untouched -/
theorem step_write_bufs (cfg : Live.Cfg) (st : Live.St) (e' : Bool) (lines : List Live.Line) (tail : Live.Line)
    (hp : Live.proxied st e' = true) (hnl : (∀ l ∈ lines, '\n' ∉ l) ∧ '\n' ∉ tail) (e : Bool) :
    Live.getBuf (Live.step cfg Live.noFault st (.write e' lines tail)).st e =
      (if e = e' then (writeLoop (Live.flatW (lines, tail)) [] [Live.getBuf st e'] []).2.flatten else Live.getBuf st e) ∧
    Live.proxied (Live.step cfg Live.noFault st (.write e' lines tail)).st e = Live.proxied st e := by
  have hw := doWrite_eq_proxy cfg Live.noFault st e' lines tail hp hnl [Live.getBuf st e'] (by simp)
  simp only [Live.step]
  rw [hw]
  generalize (writeLoop (Live.flatW (lines, tail)) [] [Live.getBuf st e'] []) = r
  have key : ∀ s' : Live.St, (Live.getBuf s' e = Live.getBuf (Live.setBuf st e' r.2.flatten) e ∧
      Live.proxied s' e = Live.proxied (Live.setBuf st e' r.2.flatten) e) →
      Live.getBuf s' e = (if e = e' then r.2.flatten else Live.getBuf st e) ∧ Live.proxied s' e = Live.proxied st e := by
    intro s' ⟨h1, h2⟩
    rw [h1, h2, Live.proxied_setBuf]
    refine ⟨?_, rfl⟩
    by_cases he : e = e'
    · subst he; simp [Live.getBuf_setBuf_same]
    · have : e = !e' := by cases e <;> cases e' <;> simp_all
      subst this
      simp [Live.getBuf_setBuf_other]
  cases hr : r.1 with
  | nil => exact key _ ⟨rfl, rfl⟩
  | cons l ls =>
    exact key _ ⟨Live.getBuf_of_bufs (Live.doPrint_bufs cfg _ _ _) e, Live.proxied_of_ctlEq (Live.doPrint_ctl cfg _ _ _).1 e⟩

/-- **Per stream, under a running display.**  For every body of prints / refreshes / updates / resizes / writes
from a state in which both streams are redirected: the lines the display prints on behalf of stream `e` are the
complete lines of `e`'s own flattened character stream, starting from what `e` had pending (C19's `unitsAux` —
each once, in order, nothing from the other stream), and what `e` has pending afterwards is the unterminated rest. -/
theorem body_stream_lines (cfg : Live.Cfg) (e : Bool) (b : List Live.Op) (st : Live.St)
    (hb : ∀ op ∈ b, isBody op = true ∧ writeOk op) (hp : ∀ e', Live.proxied st e' = true) :
    streamLines cfg e st b = (unitsAux ((streamText e b).map .ch) (Live.getBuf st e)).1 ∧
    Live.getBuf (runBody cfg st b) e = (unitsAux ((streamText e b).map .ch) (Live.getBuf st e)).2 ∧
    (∀ e', Live.proxied (runBody cfg st b) e' = true) := by
  induction b generalizing st with
  | nil => exact ⟨by simp [streamLines, streamText, unitsAux], by simp [runBody, streamText, unitsAux], by simpa [runBody] using hp⟩
  | cons op rest ih =>
    obtain ⟨hbody, hok⟩ := hb op (by simp)
    have hrest : ∀ o ∈ rest, isBody o = true ∧ writeOk o := fun o ho => hb o (by simp [ho])
    by_cases hw : ∃ e' l t, op = .write e' l t
    · obtain ⟨e', l, t, rfl⟩ := hw
      have hs := fun x => step_write_bufs cfg st e' l t (hp e') hok x
      have hp' : ∀ x, Live.proxied (Live.step cfg Live.noFault st (.write e' l t)).st x = true := fun x => by rw [(hs x).2]; exact hp x
      obtain ⟨i1, i2, i3⟩ := ih _ hrest hp'
      obtain ⟨w1, w2, _⟩ := writeLoop_spec (Live.flatW (l, t)) [] [Live.getBuf st e'] []
      simp only [List.nil_append, List.append_nil, List.flatten_cons, List.flatten_nil] at w1 w2
      by_cases he : e' = e
      · subst he
        have hbuf := (hs e').1
        simp only [if_true] at hbuf
        refine ⟨?_, ?_, i3⟩
        · simp only [streamLines, streamText, if_true, printedByJ, hp e', List.map_append]
          rw [i1, hbuf, w2, w1, unitsAux_append]
        · simp only [runBody, streamText, if_true, List.map_append]
          rw [i2, hbuf, w2, unitsAux_append]
      · have hbuf := (hs e).1
        have hne : ¬ e = e' := fun h => he h.symm
        simp only [hne, if_false] at hbuf
        refine ⟨?_, ?_, i3⟩
        · simp only [streamLines, streamText, he, if_false, List.nil_append]
          rw [i1, hbuf]
        · simp only [runBody, streamText, he, if_false, List.nil_append]
          rw [i2, hbuf]
    · have hw' : ∀ e' l t, op ≠ .write e' l t := fun e' l t h => hw ⟨e', l, t, h⟩
      have hk := fun x => step_other_keeps cfg st op hbody hw' x
      have hp' : ∀ x, Live.proxied (Live.step cfg Live.noFault st op).st x = true := fun x => by rw [(hk x).2]; exact hp x
      obtain ⟨i1, i2, i3⟩ := ih _ hrest hp'
      have hsl : streamLines cfg e st (op :: rest) = streamLines cfg e (Live.step cfg Live.noFault st op).st rest := by
        cases op <;> first | rfl | exact absurd rfl (hw' _ _ _)
      have hst : streamText e (op :: rest) = streamText e rest := by
        cases op <;> first | rfl | exact absurd rfl (hw' _ _ _)
      refine ⟨by rw [hsl, hst, i1, (hk e).1], by simp only [runBody]; rw [hst, i2, (hk e).1], i3⟩

/-- everything the display prints over a body, operation by operation in program order -/
def bodyPrinted (cfg : Live.Cfg) : Live.St → List Live.Op → List Live.Line
  | _, [] => []
  | st, op :: rest => printedByJ st op ++ bodyPrinted cfg (Live.step cfg Live.noFault st op).st rest

theorem printedRunJ_body_stop (cfg : Live.Cfg) (b : List Live.Op) (hb : ∀ op ∈ b, isBody op = true) (st : Live.St) :
    printedRunJ cfg st (b ++ [.stop]) =
      bodyPrinted cfg st b ++ (if (runBody cfg st b).started then Live.pendLines cfg (runBody cfg st b) else []) := by
  induction b generalizing st with
  | nil =>
    simp only [List.nil_append, printedRunJ, bodyPrinted, runBody, if_true]
    rfl
  | cons op rest ih =>
    have hne : op ≠ .stop := by
      intro h; have := hb op (by simp); rw [h] at this; cases this
    simp only [List.cons_append, printedRunJ, hne, if_false, bodyPrinted, runBody]
    rw [ih (fun o ho => hb o (by simp [ho])), List.append_assoc]
    rfl

end Ansi
end RichModel
