import RichModel.Model.Term
/-!
Generic facts about the terminal model: replay / row trace over concatenations, what show/hide leave,
and the three screen shapes the live display moves between:

* `AtBlank s P m`   rows = `P` then `m ≥ 1` blank rows, cursor at the start of the first blank row;
* `erase` lemmas    going up over `G` rows that sit between `P` and the blanks, clearing each.
-/
namespace RichModel
namespace Screen

theorem replay_nil (H : Nat) (s : Screen) : replay H s [] = s := rfl

theorem replay_cons (H : Nat) (s : Screen) (op : TermOp) (ops : List TermOp) :
    replay H s (op :: ops) = replay H (step H s op) ops := rfl

theorem replay_append (H : Nat) (s : Screen) (a b : List TermOp) :
    replay H s (a ++ b) = replay H (replay H s a) b := by
  simp [replay, List.foldl_append]

theorem rowTrace_append (H : Nat) (s : Screen) (a b : List TermOp) :
    rowTrace H s (a ++ b) = rowTrace H s a ++ rowTrace H (replay H s a) b := by
  induction a generalizing s with
  | nil => rfl
  | cons op rest ih => simp [rowTrace, replay_cons, ih]

/-- `Run H lo s ops s'`: replaying `ops` from `s` ends in `s'` and the cursor never visits a row above `lo`. -/
def Run (H lo : Nat) (s : Screen) (ops : List TermOp) (s' : Screen) : Prop :=
  replay H s ops = s' ∧ ∀ r ∈ rowTrace H s ops, lo ≤ r

theorem Run.nil (H lo : Nat) (s : Screen) : Run H lo s [] s := ⟨rfl, by simp [rowTrace]⟩

theorem Run.append {H lo : Nat} {s s1 s2 : Screen} {a b : List TermOp}
    (h1 : Run H lo s a s1) (h2 : Run H lo s1 b s2) : Run H lo s (a ++ b) s2 := by
  refine ⟨by rw [replay_append, h1.1, h2.1], ?_⟩
  intro r hr
  rw [rowTrace_append, List.mem_append] at hr
  cases hr with
  | inl h => exact h1.2 r h
  | inr h => rw [h1.1] at h; exact h2.2 r h

theorem Run.one {H lo : Nat} {s : Screen} {op : TermOp} (h : lo ≤ (step H s op).row) :
    Run H lo s [op] (step H s op) := by
  refine ⟨rfl, ?_⟩
  intro r hr
  simp [rowTrace] at hr
  omega

theorem Run.cons {H lo : Nat} {s s2 : Screen} {op : TermOp} {b : List TermOp}
    (h : lo ≤ (step H s op).row) (h2 : Run H lo (step H s op) b s2) : Run H lo s (op :: b) s2 :=
  Run.append (Run.one h) h2

theorem Run.weaken {H lo lo' : Nat} {s s' : Screen} {ops : List TermOp} (h : Run H lo s ops s')
    (hle : lo' ≤ lo) : Run H lo' s ops s' :=
  ⟨h.1, fun r hr => Nat.le_trans hle (h.2 r hr)⟩

/-! ### cursor visibility only depends on the show / hide operations -/

def lastVis : Bool → List TermOp → Bool
  | v, [] => v
  | _, .showCursor :: rest => lastVis true rest
  | _, .hideCursor :: rest => lastVis false rest
  | v, _ :: rest => lastVis v rest

theorem replay_visible (H : Nat) (s : Screen) (ops : List TermOp) :
    (replay H s ops).visible = lastVis s.visible ops := by
  induction ops generalizing s with
  | nil => rfl
  | cons op rest ih =>
    rw [replay_cons, ih]
    cases op <;> simp [step, lastVis]

theorem lastVis_append (v : Bool) (a b : List TermOp) : lastVis v (a ++ b) = lastVis (lastVis v a) b := by
  induction a generalizing v with
  | nil => rfl
  | cons op rest ih => cases op <;> simp [lastVis, ih]

/-! ### the blank landing zone -/

structure AtBlank (s : Screen) (P : List (List Char)) (m : Nat) : Prop where
  rows : s.rows = P ++ List.replicate m []
  row : s.row = P.length
  col : s.col = 0
  pos : 1 ≤ m

theorem writeAt_zero_nil (t : List Char) : writeAt 0 t [] = t := by
  simp [writeAt]

/-- Writing a line of text and a line feed on the blank zone: the line joins `P`. -/
theorem atBlank_line {H : Nat} {s : Screen} {P : List (List Char)} {m : Nat} (h : AtBlank s P m)
    (l : List Char) :
    ∃ s', Run H P.length s ((if l.isEmpty then [] else [.text l]) ++ [.lf]) s' ∧
      AtBlank s' (P ++ [l]) (max (m - 1) 1) ∧ s'.visible = s.visible := by
  obtain ⟨m', rfl⟩ : ∃ m', m = m' + 1 := ⟨m - 1, by have := h.pos; omega⟩
  have hrows := h.rows
  rw [List.replicate_succ] at hrows
  -- the state after the optional text
  have key : ∃ s1, Run H P.length s (if l.isEmpty then [] else [.text l]) s1 ∧
      s1.rows = P ++ l :: List.replicate m' [] ∧ s1.row = P.length ∧ s1.visible = s.visible := by
    by_cases hl : l.isEmpty = true
    · refine ⟨s, ?_, ?_, h.row, rfl⟩
      · simp only [hl, if_true]; exact Run.nil _ _ _
      · have : l = [] := by simpa using hl
        rw [this]; exact hrows
    · simp only [hl]
      refine ⟨step H s (.text l), Run.one (by simp [step, h.row]), ?_, by simp [step, h.row], by simp [step]⟩
      simp only [step, h.row, h.col, hrows]
      simp [writeAt_zero_nil]
  obtain ⟨s1, hrun1, hrows1, hrow1, hvis1⟩ := key
  refine ⟨step H s1 .lf, Run.append hrun1 (Run.one (by simp [step, hrow1])), ?_, by simp [step, hvis1]⟩
  constructor
  · simp only [step, hrows1, hrow1]
    by_cases hm : 1 ≤ m'
    · have : P.length + 1 < (P ++ l :: List.replicate m' []).length := by simp; omega
      simp only [this, if_true]
      have : max (m' + 1 - 1) 1 = m' := by omega
      rw [this]; simp
    · have hm0 : m' = 0 := by omega
      subst hm0
      simp
  · simp [step, hrow1]
  · simp [step]
  · omega

/-! ### erasing upwards -/

def eraseOps : Nat → List TermOp
  | 0 => []
  | n + 1 => .cuu 1 :: .el2 :: eraseOps n

/-- Rows `G` sit between `P` and `n ≥ 1` blank rows, the cursor is on the first blank row below `G`, and
all of `G` is still on screen: going up `|G|` times, erasing, leaves only blanks below `P`. -/
theorem erase_up {H : Nat} (P : List (List Char)) :
    ∀ (k : Nat) (G : List (List Char)) (s : Screen) (n : Nat), G.length = k →
      s.rows = P ++ G ++ List.replicate n [] → s.row = P.length + G.length →
      s.col = 0 → 1 ≤ n → G.length + n ≤ H →
      ∃ s', Run H P.length s (eraseOps G.length) s' ∧ AtBlank s' P (G.length + n) ∧ s'.visible = s.visible := by
  intro k
  induction k with
  | zero =>
    intro G s n hk hrows hrow hcol hn _
    have : G = [] := List.eq_nil_of_length_eq_zero hk
    subst this
    refine ⟨s, Run.nil _ _ _, ⟨by simpa using hrows, by simpa using hrow, hcol, by simp; omega⟩, rfl⟩
  | succ k ih =>
    intro G0 s n hk hrows hrow hcol hn hfit
    obtain ⟨G, g, rfl⟩ : ∃ G g, G0 = G ++ [g] := by
      rcases List.eq_nil_or_concat G0 with h | ⟨l', b, h⟩
      · subst h; simp at hk
      · exact ⟨l', b, by simpa using h⟩
    simp only [List.length_append, List.length_singleton] at hrow hfit hk ⊢
    -- one `cuu 1`, one `el2`
    have htop : s.top H ≤ P.length + G.length := by
      simp only [top, hrows, List.length_append, List.length_replicate, List.length_singleton]
      omega
    obtain ⟨s1, hs1⟩ : ∃ s1, s1 = step H s (.cuu 1) := ⟨_, rfl⟩
    have hrow1 : s1.row = P.length + G.length := by
      rw [hs1]; simp only [step, hrow, Nat.succ_ne_zero, if_false]; omega
    have hrows1 : s1.rows = s.rows := by rw [hs1]; rfl
    have hcol1 : s1.col = 0 := by rw [hs1]; exact hcol
    have hvis1 : s1.visible = s.visible := by rw [hs1]; rfl
    obtain ⟨s2, hs2⟩ : ∃ s2, s2 = step H s1 .el2 := ⟨_, rfl⟩
    have hrows2 : s2.rows = P ++ G ++ List.replicate (n + 1) [] := by
      rw [hs2]; simp only [step, hrow1, hrows1, hrows]
      have : P ++ (G ++ [g]) ++ List.replicate n [] = (P ++ G) ++ g :: List.replicate n [] := by simp
      rw [this, ← List.length_append]
      simp [List.replicate_succ]
    have hrow2 : s2.row = P.length + G.length := by rw [hs2]; exact hrow1
    have hcol2 : s2.col = 0 := by rw [hs2]; exact hcol1
    have hvis2 : s2.visible = s.visible := by rw [hs2]; exact hvis1
    obtain ⟨s', hrun, hblank, hvis⟩ := ih G s2 (n + 1) (by omega) hrows2 hrow2 hcol2 (by omega) (by omega)
    refine ⟨s', ?_, ?_, by rw [hvis, hvis2]⟩
    · show Run H P.length s (eraseOps (G.length + 1)) s'
      simp only [eraseOps]
      refine Run.cons (by rw [← hs1]; omega) (Run.cons (by rw [← hs1, ← hs2]; omega) ?_)
      rw [← hs1, ← hs2]; exact hrun
    · have : G.length + 1 + n = G.length + (n + 1) := by omega
      rw [this]; exact hblank

end Screen
end RichModel
