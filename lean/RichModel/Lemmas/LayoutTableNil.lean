import RichModel.Lemmas.LayoutTableBody
/-!
A table WITHOUT columns (`Table()`, any options) at the level of segments: `tableConsole cfg o opts [] w` is the poison
(rich 9.10.0 as found asserts in `ratio_distribute`) or the title, at most the top and the bottom edge — two corner
characters each — and the caption.  Auxiliary lemmas carry the prefix `nil_`.
-/
namespace RichModel.Layout
open RichModel RichModel.Frames

/-! ### the widths of a table without columns -/

theorem nil_firstWidths (fl : Flags) (t : Table) (ht : t.columns = []) (mw : Int) : t.firstWidths fl mw = some [] := by
  simp [Table.firstWidths, Table.indexed, ht]

theorem nil_shrinkWidths (t : Table) (ht : t.columns = []) (mw : Int) : (t.shrinkWidths [] mw).1 = [] := by
  simp [Table.shrinkWidths, Table.shrinkPre, Table.remeasure, collapseWidths, Table.wrapable, ht, ratioReduce]

theorem nil_padWidths (fl : Flags) (t : Table) (tw mw : Int) (ws : List Int) (h : t.padWidths fl [] tw mw = some ws) :
    ws = [] := by
  unfold Table.padWidths at h
  split at h
  · simp [ratioDistribute] at h
  · simpa using h.symm

/-- `_calculate_column_widths` of a table without columns: `[]`, or the `AssertionError` of `ratio_distribute` -/
theorem nil_calcWidths (fl : Flags) (t : Table) (ht : t.columns = []) (mw : Int) (ws : List Int)
    (h : t.calcWidths fl mw = some ws) : ws = [] := by
  unfold Table.calcWidths at h
  split at h
  · simpa using h.symm
  · rw [nil_firstWidths fl t ht mw] at h
    simp only at h
    split at h
    · rw [nil_shrinkWidths t ht mw] at h
      exact nil_padWidths fl t _ mw ws h
    · exact nil_padWidths fl t _ mw ws h

/-! ### the body of a table without columns -/

theorem nil_renderBody (fl : Flags) (cw : Char → Nat) (t : Table) (ht : t.columns = []) :
    t.renderBody fl cw [] =
      (match t.box with | some b => if t.showEdge then [b.getTop []] else [] | none => []) ++
      (match t.box with | some b => if t.showEdge then [b.getBottom []] else [] | none => []) := by
  cases hb : t.box <;> simp [Table.renderBody, ht, zipRows, hb]

theorem nil_boxOf_wf (o : TableOpts) (b : RichModel.Box) (h : o.box.bind boxOf = some b) : b.wf cwD := by
  cases hb : o.box with
  | none => rw [hb] at h; cases h
  | some i =>
    rw [hb] at h
    simp only [Option.bind_some, boxOf] at h
    cases he : Gen.tableBoxes[i]? with
    | none => rw [he] at h; cases h
    | some e =>
      rw [he] at h
      simp only [Option.bind_some] at h
      obtain ⟨b', hb', hwf⟩ := Dep.boxes_all_wf e (List.mem_of_getElem? he)
      rw [hb'] at h
      cases h
      exact hwf

theorem nil_cw_nl : cwD '\n' = 0 := cwD_nl

theorem nil_two (cw : Char → Nat) (hnl : cw '\n' = 0) (a b : Char) (ha : cw a = 1) (hb : cw b = 1) :
    (∀ c ∈ [a, b], c ≠ '\n') ∧ cellLen cw [a, b] = 2 := by
  refine ⟨?_, ?_⟩
  · intro c hc heq
    subst heq
    simp only [List.mem_cons, List.not_mem_nil, or_false] at hc
    rcases hc with hc | hc
    · rw [← hc] at ha; omega
    · rw [← hc] at hb; omega
  · simp [cellLen, ha, hb]

/-- two complete lines -/
theorem nil_lines2 (t t' : List Char) (ht : ∀ c ∈ t, c ≠ '\n') (ht' : ∀ c ∈ t', c ≠ '\n') :
    splitLines ([seg t, nl, seg t', nl] : List Seg) = [[seg t], [seg t']] ∧ Closed [seg t, nl, seg t', nl] := by
  refine ⟨?_, ?_⟩
  · have := splitLines_lines ([[seg t], [seg t']] : List (List Seg)) (by
      intro l hl
      simp only [List.mem_cons, List.not_mem_nil, or_false] at hl
      rcases hl with rfl | rfl
      · exact nlFree_seg t ht
      · exact nlFree_seg t' ht')
    simpa using this
  · right
    have h : flat ([seg t, nl, seg t', nl] : List Seg) = (t ++ '\n' :: t') ++ ['\n'] := by simp [flat, seg, nl]
    rw [h, List.getLast?_append]
    rfl

/-- **A table without columns** (`Table()`, any options): whatever the flags, the output is the poison (the as-found code asserts in
`ratio_distribute`), or it is the title, a body and the caption where the body consists of at most the top and the bottom edge —
two corner characters each — as complete lines. -/
theorem tableConsole_nil_decomp (cfg : Cfg) (hcw : cfg.cw = cwD) (o : TableOpts) (opts : Opts) (w : Nat)
    (hw : tableExtra o 0 ≤ w) :
    tableConsole cfg o opts [] w = cfg.poison ∨
    ∃ (tw : Int) (body : List Seg), tw ≤ (w : Int) ∧
      tableConsole cfg o opts [] w =
        annotation cfg o.title o.titleJustify opts tw ++ body ++ annotation cfg o.caption o.captionJustify opts tw ∧
      (∀ l ∈ splitLines body, lineLength cfg.cw l ≤ w) ∧ Closed body := by
  have hT : toTable cfg o [] = o.skel := rfl
  unfold tableConsole
  simp only [hT]
  cases hc : o.skel.calcWidths cfg.fl (o.skel.width.getD (w : Int) - o.skel.extraWidth) with
  | none => left; rfl
  | some ws =>
    right
    have hws : ws = [] := nil_calcWidths cfg.fl o.skel rfl _ ws hc
    subst hws
    have hex : o.skel.extraWidth ≤ (w : Int) := by
      have h1 : o.skel.box.isSome = true → o.box.isSome = true := by
        show (o.box.bind boxOf).isSome = true → _
        cases o.box <;> simp
      simp only [Table.extraWidth, tableExtra] at hw ⊢
      have h0 : (o.skel.columns.length : Int) = 0 := rfl
      rw [h0]
      cases hb : o.skel.box.isSome <;> cases he : o.showEdge
      all_goals (have he' : o.skel.showEdge = o.showEdge := rfl)
      all_goals (simp only [he', he]; simp)
      all_goals (try (simp [h1 hb, he] at hw))
      all_goals omega
    refine ⟨([] : List Int).sum + o.skel.extraWidth, (o.skel.renderBody cfg.fl cfg.cw []).flatMap (bodyLineSegs []), ?_, rfl, ?_⟩
    · simpa using hex
    · rw [nil_renderBody cfg.fl cfg.cw o.skel rfl]
      cases hb : o.skel.box with
      | none => simp [splitLines, Closed, flat]
      | some b =>
        cases he : o.skel.showEdge with
        | false => simp [splitLines, Closed, flat]
        | true =>
          have hwf : b.wf cfg.cw := by rw [hcw]; exact nil_boxOf_wf o b hb
          have hnl : cfg.cw '\n' = 0 := by rw [hcw]; exact nil_cw_nl
          obtain ⟨⟨tl, _, _, tr⟩, _, _, _, _, _, _, ⟨bl, _, _, br⟩⟩ := hwf
          obtain ⟨t1, t2⟩ := nil_two cfg.cw hnl _ _ tl tr
          obtain ⟨b1, b2⟩ := nil_two cfg.cw hnl _ _ bl br
          have hbody : List.flatMap (bodyLineSegs []) ([b.getTop []] ++ [b.getBottom []]) =
              [seg [b.top.l, b.top.r], nl, seg [b.bottom.l, b.bottom.r], nl] := by
            simp [bodyLineSegs, Box.getTop, Box.getBottom, ruleLine, BodyLine.text, BodyLine.once, joinSep]
          have hw2 : 2 ≤ w := by
            have h1 : o.box.isSome = true := by
              have : (o.box.bind boxOf).isSome = true := by
                show o.skel.box.isSome = true
                rw [hb]; rfl
              revert this
              cases o.box <;> simp
            have he' : o.showEdge = true := he
            simp [tableExtra, h1, he'] at hw
            exact hw
          simp only [if_true]
          rw [hbody]
          obtain ⟨s1, s2⟩ := nil_lines2 _ _ t1 b1
          refine ⟨?_, s2⟩
          rw [s1]
          intro l hl
          simp only [List.mem_cons, List.not_mem_nil, or_false] at hl
          rcases hl with rfl | rfl
          · rw [lineLength_seg, t2]; exact hw2
          · rw [lineLength_seg, b2]; exact hw2

end RichModel.Layout
