import RichModel.Lemmas.FramesTitleLine
import RichModel.Lemmas.TextTabs
import RichModel.Lemmas.Cells
/-!
`Rule.__rich_console__` on `Text` values (`ruleTextT` / `ruleConsoleT`, Model/FramesTitle.lean): whatever the title
text (spans, tabs, line feeds, wider than the rule), the `characters` (wide ones included) and the alignment, the `Text`
the rule yields is consistent, has no line feed or tab left, and is exactly `width` cells wide; rendered, it fills exactly
the width (C08, deepening round 4).  `GoodC` = "no line feed, no tab, no control code `Text.__init__` strips".
-/
namespace RichModel.Frames
open RichModel RichModel.Text RichModel.Wrap

variable {σ : Type}

/-- no line feed, no tab, none of the control codes `strip_control_codes` removes -/
def GoodC (s : List Char) : Prop := ∀ c ∈ s, c ≠ '\n' ∧ c ≠ '\t' ∧ isStripCode c = false

theorem goodC_space : (' ' : Char) ≠ '\n' ∧ (' ' : Char) ≠ '\t' ∧ isStripCode ' ' = false := by decide
theorem goodC_ellipsis : ('…' : Char) ≠ '\n' ∧ ('…' : Char) ≠ '\t' ∧ isStripCode '…' = false := by decide
theorem goodC_dash : ('-' : Char) ≠ '\n' ∧ ('-' : Char) ≠ '\t' ∧ isStripCode '-' = false := by decide

theorem GoodC.nil : GoodC [] := by intro c hc; cases hc

theorem GoodC.append {a b : List Char} (ha : GoodC a) (hb : GoodC b) : GoodC (a ++ b) := by
  intro c hc
  rcases List.mem_append.mp hc with h | h
  · exact ha c h
  · exact hb c h

theorem GoodC.replicate_space (n : Nat) : GoodC (List.replicate n ' ') := by
  intro c hc
  rw [(List.mem_replicate.mp hc).2]
  exact goodC_space

theorem GoodC.single {c : Char} (h : c ≠ '\n' ∧ c ≠ '\t' ∧ isStripCode c = false) : GoodC [c] := by
  intro d hd
  simp only [List.mem_singleton] at hd
  subst hd; exact h

theorem GoodC.take {a : List Char} (n : Nat) (ha : GoodC a) : GoodC (a.take n) :=
  fun c hc => ha c (List.mem_of_mem_take hc)

theorem GoodC.noCtl {a : List Char} (ha : GoodC a) : NoCtl a := fun c hc => (ha c hc).2.2

theorem GoodC.strip {a : List Char} (ha : GoodC a) : GoodC (stripControl a) :=
  fun c hc => ha c (List.mem_filter.mp hc).1

theorem GoodC.repStr {a : List Char} (n : Int) (ha : GoodC a) : GoodC (repStr n a) := by
  intro c hc
  unfold Frames.repStr at hc
  obtain ⟨l, hl, hcl⟩ := List.mem_flatten.mp hc
  rw [(List.mem_replicate.mp hl).2] at hcl
  exact ha c hcl

theorem GoodC.setCellSizeT (cw : Char → Nat) {s : List Char} (w : Int) (h : GoodC s) : GoodC (Text.setCellSizeI cw s w) := by
  unfold Text.setCellSizeI
  simp only []
  split
  · exact h
  · split
    · exact GoodC.append h (GoodC.replicate_space _)
    · split
      · exact GoodC.append (GoodC.take _ h) (GoodC.single goodC_space)
      · exact GoodC.take _ h

theorem GoodC.setCellSize (cw : Char → Nat) {s : List Char} (n : Nat) (h : GoodC s) : GoodC (RichModel.setCellSize cw s n) := by
  unfold RichModel.setCellSize
  simp only []
  split
  · exact h
  · split
    · exact GoodC.append h (GoodC.replicate_space _)
    · split
      · exact GoodC.append (GoodC.take _ h) (GoodC.single goodC_space)
      · exact GoodC.take _ h

theorem GoodC.setCellSizeI (cw : Char → Nat) {s : List Char} (w : Int) (h : GoodC s) : GoodC (Frames.setCellSizeI cw s w) := by
  unfold Frames.setCellSizeI
  split
  · exact GoodC.nil
  · exact GoodC.setCellSize cw _ h

/-! ### the texts `rule.py` builds: consistent, `GoodC`, with a known `end` -/

/-- what every intermediate `Text` of `Rule.__rich_console__` satisfies -/
structure OkT (e : List Char) (t : Text σ) : Prop where
  inv : Inv t
  good : GoodC t.plain
  en : t.endStr = e

theorem setPlain_endStr (t : Text σ) (s : List Char) : (t.setPlain s).endStr = t.endStr := by
  rw [setPlain_eq]
  split
  · split <;> rfl
  · rfl

theorem okT_setPlain {e : List Char} {t : Text σ} (h : OkT e t) (s : List Char) (hs : GoodC s) : OkT e (t.setPlain s) :=
  ⟨inv_setPlain _ _ h.inv hs.noCtl, by rw [setPlain_plain]; exact hs, by rw [setPlain_endStr]; exact h.en⟩

theorem okT_mkText (cfg : TCfg σ) (hv : cfg.wv.text = Variant.repaired) (s : List Char) (st : σ) (e : List Char)
    (hs : GoodC s) : OkT e (mkText cfg s st e) := by
  unfold mkText
  rw [hv]
  exact ⟨inv_new _ _ _ _ _ _ _ _ (by intro sp h; simp at h), hs.strip, rfl⟩

theorem okT_appendStr {e : List Char} {t : Text σ} (h : OkT e t) (s : List Char) (st : Option σ) (hs : GoodC s) :
    OkT e (t.appendStr s st) := by
  refine ⟨inv_appendStr _ _ _ h.inv, ?_, ?_⟩
  · unfold appendStr
    split
    · exact GoodC.append h.good hs.strip
    · exact h.good
  · unfold appendStr
    split
    · exact h.en
    · exact h.en

theorem okT_appendT {e e' : List Char} {t u : Text σ} (h : OkT e t) (hu : OkT e' u) : OkT e (t.appendT u) := by
  refine ⟨inv_appendT _ _ h.inv hu.inv, ?_, ?_⟩
  · unfold appendT appendText
    split
    · exact GoodC.append h.good hu.good
    · exact h.good
  · unfold appendT appendText
    split
    · exact h.en
    · exact h.en

theorem okT_truncate (cw : Char → Nat) {e : List Char} {t : Text σ} (h : OkT e t) (w : Int) (ov : Option RichModel.Overflow)
    (pad : Bool) : OkT e (t.truncate cw w ov pad) := by
  obtain ⟨hi, hp, _, _⟩ := truncate_spec cw t w ov pad h.inv
  refine ⟨hi, ?_, ?_⟩
  · rw [hp]
    unfold truncStr
    simp only []
    have hg := h.good
    repeat' split
    all_goals first
      | exact hg
      | exact GoodC.append (GoodC.append (GoodC.setCellSizeT cw _ hg) (GoodC.single goodC_ellipsis)) (GoodC.replicate_space _)
      | exact GoodC.append (GoodC.setCellSizeT cw _ hg) (GoodC.single goodC_ellipsis)
      | exact GoodC.append (GoodC.setCellSizeT cw _ hg) (GoodC.replicate_space _)
      | exact GoodC.setCellSizeT cw _ hg
      | exact GoodC.append hg (GoodC.replicate_space _)
  · unfold truncate
    simp only []
    repeat' split
    all_goals first
      | exact h.en
      | (rw [setPlain_endStr]; exact h.en)
      | (show (Text.setPlain _ _).endStr = e; rw [setPlain_endStr]; exact h.en)

/-! ### tabs -/

theorem ft_expRef_mem (ts : Nat) (b : σ) : ∀ (v : List (Char × List σ)) (col : Nat) (p : Char × List σ),
    p ∈ expRef ts b v col → p.1 = ' ' ∨ (p.1 ≠ '\t' ∧ ∃ q ∈ v, q.1 = p.1)
  | [], _, p, h => by simp [expRef] at h
  | (c, ids) :: rest, col, p, h => by
    simp only [expRef] at h
    split at h
    · simp only [List.mem_cons, List.mem_append, List.mem_replicate] at h
      rcases h with h | h | h
      · left; rw [h]
      · left; rw [h.2]
      · rcases ft_expRef_mem ts b rest _ p h with h' | ⟨h1, q, hq, hq1⟩
        · exact Or.inl h'
        · exact Or.inr ⟨h1, q, List.mem_cons_of_mem _ hq, hq1⟩
    · rename_i hc
      simp only [List.mem_cons] at h
      rcases h with h | h
      · right; rw [h]; exact ⟨hc, (c, ids), by simp, rfl⟩
      · rcases ft_expRef_mem ts b rest _ p h with h' | ⟨h1, q, hq, hq1⟩
        · exact Or.inl h'
        · exact Or.inr ⟨h1, q, List.mem_cons_of_mem _ hq, hq1⟩

/-- `expand_tabs()` of a consistent text without line feed whose own tab size is positive: succeeds, consistent, no tab
left, same `end` -/
theorem okT_expandTabs [BEq σ] {e : List Char} (t : Text σ) (hi : Inv t) (hnl : '\n' ∉ t.plain) (he : t.endStr = e)
    (ts : Nat) (hts : 0 < ts) (htab : t.tabSize = some ts) :
    ∃ q, t.expandTabs Variant.repaired none = .ok q ∧ OkT e q := by
  obtain ⟨q, hq, hqi, _, hno, hyes⟩ := expandTabs_view t hi none ts hts (by simp [htab])
  refine ⟨q, hq, hqi, ?_, ?_⟩
  · by_cases hc : t.plain.contains '\t' = true
    · have hv := hyes hc
      intro c hcq
      have hcv : c ∈ q.view.map (·.1) := by rw [view_eq_annot, annot_map_fst]; exact hcq
      obtain ⟨p, hp, rfl⟩ := List.mem_map.mp hcv
      rw [hv] at hp
      rcases ft_expRef_mem ts t.style t.view 0 p hp with h | ⟨h1, r, hr, hr1⟩
      · rw [h]; exact goodC_space
      · have hrt : r.1 ∈ t.plain := by
          have : r.1 ∈ t.view.map (·.1) := List.mem_map_of_mem hr
          rwa [view_eq_annot, annot_map_fst] at this
        rw [← hr1]
        refine ⟨fun h => hnl (h ▸ hrt), by rw [hr1]; exact h1, hi.2.1 _ hrt⟩
    · have : q = t := hno (by simpa using hc)
      subst this
      intro c hcq
      refine ⟨fun h => hnl (h ▸ hcq), fun h => hc (by subst h; simpa using hcq), hi.2.1 _ hcq⟩
  · -- `end` is untouched
    unfold expandTabs at hq
    split at hq
    · cases hq; exact he
    · simp only [htab, Option.orElse] at hq
      split at hq
      · cases hq
      · cases hq
      · obtain ⟨a, _, hq⟩ := bind_ok.mp hq
        obtain ⟨r, _, hq⟩ := bind_ok.mp hq
        cases hq
        exact he

/-! ### the rule -/

/-- **The `Text` a `Rule` yields** — any title text, `characters`, alignment, width (negative included), both variants of
the two `Rule` flags: consistent, made of `GoodC` characters cut / filled to `w` cells by `set_cell_size`, `end` as
given. -/
theorem ft_ruleTextT [BEq σ] (cfg : TCfg σ) (hwv : cfg.wv = WVariant.repaired) (env : Env) (sv : SVariant)
    (o : RuleOptsT σ) (w : Int) (hch : GoodC o.characters)
    (htitle : ∀ t, o.title = some t → Inv t ∧ ∃ ts, 0 < ts ∧ t.tabSize = some ts) :
    ∃ r P, ruleTextT cfg env sv o w = .ok r ∧ Inv r ∧ r.plain = setCellSizeI cfg.cw P w ∧ GoodC P ∧
      r.endStr = (if o.title.isNone && sv.ruleNoTitleEnd then ['\n'] else o.endS) := by
  have hv : cfg.wv.text = Variant.repaired := by rw [hwv]; rfl
  obtain ⟨title, characters, endS, align, style⟩ := o
  unfold ruleTextT
  simp only []
  have hchs : GoodC (if (env.asciiOnly && !characters.all (fun c => decide (c.toNat < 128))) = true then ['-'] else characters) := by
    split
    · exact GoodC.single goodC_dash
    · exact hch
  generalize (if (env.asciiOnly && !characters.all (fun c => decide (c.toNat < 128))) = true then ['-'] else characters) = chs
    at hchs ⊢
  cases title with
  | none =>
    simp only [Option.isNone_none, Bool.true_and]
    have h1 := okT_truncate cfg.cw (okT_mkText cfg hv (repStr (w / (cellLen cfg.cw chs : Int) + 1) chs) style
      (if sv.ruleNoTitleEnd = true then ['\n'] else endS) (GoodC.repStr _ hchs)) w none false
    exact ⟨_, _, rfl, (okT_setPlain h1 _ (GoodC.setCellSizeI cfg.cw w h1.good)).inv, setPlain_plain _ _, h1.good,
      by rw [setPlain_endStr]; exact h1.en⟩
  | some title0 =>
    obtain ⟨hti, ts, hts, htab⟩ := htitle title0 rfl
    simp only [Option.isNone_some, Bool.false_and, Bool.false_eq_true, if_false]
    have hmapG : NoCtl (title0.plain.map (fun c => if c == '\n' then ' ' else c)) := by
      intro c hc
      obtain ⟨d, hd, rfl⟩ := List.mem_map.mp hc
      split
      · exact noCtl_space
      · exact hti.2.1 d hd
    have hmapN : '\n' ∉ (title0.setPlain (title0.plain.map (fun c => if c == '\n' then ' ' else c))).plain := by
      rw [setPlain_plain]
      intro hc
      obtain ⟨d, _, hd⟩ := List.mem_map.mp hc
      split at hd
      · exact absurd hd (by decide)
      · rename_i hne
        exact hne (by simp [hd])
    have htab1 : (title0.setPlain (title0.plain.map (fun c => if c == '\n' then ' ' else c))).tabSize = some ts := by
      rw [← htab, setPlain_eq]
      split
      · split <;> rfl
      · rfl
    obtain ⟨q, hq, hqo⟩ := okT_expandTabs (e := (title0.setPlain (title0.plain.map (fun c => if c == '\n' then ' ' else c))).endStr)
      _ (inv_setPlain _ _ hti hmapG) hmapN rfl ts hts htab1
    rw [hv, hq]
    simp only [bind, Except.bind]
    have hr0 : OkT endS (mkText cfg [] cfg.A.null endS) := okT_mkText cfg hv [] _ _ GoodC.nil
    have hsp1 : GoodC [' '] := GoodC.single goodC_space
    cases align with
    | center =>
      simp only []
      have hT := okT_truncate cfg.cw hqo (w - 4) (some RichModel.Overflow.ellipsis) false
      generalize (q.truncate cfg.cw (w - 4) (some RichModel.Overflow.ellipsis)) = T at hT ⊢
      have hL := okT_truncate cfg.cw (okT_mkText cfg hv (repStr (((w - (cellLen cfg.cw T.plain : Int)) / 2) / (cellLen cfg.cw chs : Int) + 1) chs)
        cfg.A.null ['\n'] (GoodC.repStr _ hchs)) ((w - (cellLen cfg.cw T.plain : Int)) / 2 - 1) none false
      generalize ((mkText cfg (repStr (((w - (cellLen cfg.cw T.plain : Int)) / 2) / (cellLen cfg.cw chs : Int) + 1) chs)
        cfg.A.null).truncate cfg.cw ((w - (cellLen cfg.cw T.plain : Int)) / 2 - 1)) = L at hL ⊢
      have hR := okT_truncate cfg.cw (okT_mkText cfg hv (repStr (((w - (cellLen cfg.cw T.plain : Int)) / 2) / (cellLen cfg.cw chs : Int) + 1) chs)
        cfg.A.null ['\n'] (GoodC.repStr _ hchs)) (w - (cellLen cfg.cw L.plain : Int) - (cellLen cfg.cw T.plain : Int)) none false
      have hrule := okT_appendStr (okT_appendT (okT_appendStr hr0 (L.plain ++ [' ']) (some style) (GoodC.append hL.good hsp1)) hT)
        ([' '] ++ ((mkText cfg (repStr (((w - (cellLen cfg.cw T.plain : Int)) / 2) / (cellLen cfg.cw chs : Int) + 1) chs)
        cfg.A.null).truncate cfg.cw (w - (cellLen cfg.cw L.plain : Int) - (cellLen cfg.cw T.plain : Int))).plain) (some style)
        (GoodC.append hsp1 hR.good)
      exact ⟨_, _, rfl, (okT_setPlain hrule _ (GoodC.setCellSizeI cfg.cw w hrule.good)).inv, setPlain_plain _ _, hrule.good,
        by rw [setPlain_endStr]; exact hrule.en⟩
    | left =>
      simp only []
      have hT := okT_truncate cfg.cw hqo (w - 2) (some RichModel.Overflow.ellipsis) false
      generalize (q.truncate cfg.cw (w - 2) (some RichModel.Overflow.ellipsis)) = T at hT ⊢
      have h1 := okT_appendStr (okT_appendT hr0 hT) [' '] none hsp1
      have hrule := okT_appendStr h1 (repStr (w - (cellLen cfg.cw (((mkText cfg [] cfg.A.null endS).appendT T).appendStr [' ']).plain : Int)) chs)
        (some style) (GoodC.repStr _ hchs)
      exact ⟨_, _, rfl, (okT_setPlain hrule _ (GoodC.setCellSizeI cfg.cw w hrule.good)).inv, setPlain_plain _ _, hrule.good,
        by rw [setPlain_endStr]; exact hrule.en⟩
    | right =>
      simp only []
      have hT := okT_truncate cfg.cw hqo (w - 2) (some RichModel.Overflow.ellipsis) false
      generalize (q.truncate cfg.cw (w - 2) (some RichModel.Overflow.ellipsis)) = T at hT ⊢
      have hside : GoodC (if sv.base.ruleRightRepeat = true then repStr (w - (cellLen cfg.cw T.plain : Int) - 1) chs
          else setCellSizeI cfg.cw (repStr ((w - (cellLen cfg.cw T.plain : Int) - 1) / (cellLen cfg.cw chs : Int) + 1) chs)
            (w - (cellLen cfg.cw T.plain : Int) - 1)) := by
        split
        · exact GoodC.repStr _ hchs
        · exact GoodC.setCellSizeI cfg.cw _ (GoodC.repStr _ hchs)
      have hrule := okT_appendT (okT_appendStr (okT_appendStr hr0 _ (some style) hside) [' '] none hsp1) hT
      exact ⟨_, _, rfl, (okT_setPlain hrule _ (GoodC.setCellSizeI cfg.cw w hrule.good)).inv, setPlain_plain _ _, hrule.good,
        by rw [setPlain_endStr]; exact hrule.en⟩

/-- `set_cell_size(s, n)` of `GoodC` characters: exactly `n` cells, still `GoodC` -/
theorem ft_setCellSizeI_exact (cw : Char → Nat) (hsp : cw ' ' = 1) (h2 : ∀ c, cw c ≤ 2) (s : List Char) (n : Nat) :
    cellLen cw (Frames.setCellSizeI cw s (n : Int)) = n := by
  unfold Frames.setCellSizeI
  have : ¬ ((n : Int) < 0) := by omega
  simp only [this, if_false, Int.toNat_natCast]
  exact (setCellSize_exact cw hsp h2 s n).1

/-- **A rule fills exactly the width it is given, whatever its title text, characters and alignment.** -/
theorem ruleConsoleT_exact [BEq σ] (cfg : TCfg σ) (hwv : cfg.wv = WVariant.repaired) (hsp : cfg.cw ' ' = 1)
    (h2 : ∀ c, cfg.cw c ≤ 2) (env : Env) (sv : SVariant) (o : RuleOptsT σ) (opts : TOpts) (w : Nat) (hw : 1 ≤ w)
    (hch : GoodC o.characters) (htitle : ∀ t, o.title = some t → Inv t ∧ ∃ ts, 0 < ts ∧ t.tabSize = some ts) :
    ∃ segs x, ruleConsoleT cfg env sv o opts (w : Int) = .ok segs ∧
      segChars segs = x ++ (if o.title.isNone && sv.ruleNoTitleEnd then ['\n'] else o.endS) ∧
      cellLen cfg.cw x = w ∧ '\n' ∉ x ∧ ∀ s ∈ segs, s.control = false := by
  obtain ⟨r, P, hr, hri, hrp, hP, hre⟩ := ft_ruleTextT cfg hwv env sv o (w : Int) hch htitle
  have hg : GoodC r.plain := by rw [hrp]; exact GoodC.setCellSizeI cfg.cw _ hP
  have hcl : cellLen cfg.cw r.plain = w := by rw [hrp]; exact ft_setCellSizeI_exact cfg.cw hsp h2 P w
  obtain ⟨segs, x, hs, hx, hxw, hxm, hctl⟩ := textConsoleG_one_line cfg hwv hsp r hri (fun h => (hg _ h).1 rfl)
    (fun h => (hg _ h).2.1 rfl) w hcl opts
  refine ⟨segs, x, ?_, by rw [hx, hre], hxw, ?_, hctl⟩
  · unfold ruleConsoleT
    have : ¬ ((w : Int) < 1) := by omega
    simp only [this, if_false, hr, bind, Except.bind, Int.toNat_natCast]
    exact hs
  · intro hn
    rcases hxm _ hn with h | h
    · exact (hg _ h).1 rfl
    · exact absurd h (by decide)

end RichModel.Frames
