import RichModel.Lemmas.LiveInv
/-!
Every non-`stop` operation of a well-formed history preserves the invariant `Good`, and while its
output is replayed the cursor stays at or below the first row under the printed lines.
-/
namespace RichModel.Live
open RichModel RichModel.Screen

theorem enableRedirect_shape (cfg : Cfg) (st : St) : (enableRedirect cfg st).shape = st.shape := by
  unfold enableRedirect; split
  · rfl
  · split <;> split <;> rfl

theorem enableRedirect_hooks (cfg : Cfg) (st : St) : (enableRedirect cfg st).hooks = st.hooks := by
  unfold enableRedirect; split
  · rfl
  · split <;> split <;> rfl

theorem enableRedirect_renderable (cfg : Cfg) (st : St) : (enableRedirect cfg st).renderable = st.renderable := by
  unfold enableRedirect; split
  · rfl
  · split <;> split <;> rfl

theorem enableRedirect_overflow (cfg : Cfg) (st : St) : (enableRedirect cfg st).overflow = st.overflow := by
  unfold enableRedirect; split
  · rfl
  · split <;> split <;> rfl

/-- `shown` only looks at the shape, the renderable and the overflow mode. -/
theorem shown_congr (cfg : Cfg) {a b : St} (h1 : a.shape = b.shape) (h2 : a.renderable = b.renderable)
    (h3 : a.overflow = b.overflow) (h4 : a.width = b.width := by rfl) : shown cfg a = shown cfg b := by
  unfold shown curWidth; rw [h1, h2, h3, h4]

/-- Step for an operation that is a `refresh()` from a state `st1` which differs from `st` only in fields
the screen does not depend on (renderable, tasks). -/
theorem good_refresh {cfg : Cfg} {st st1 : St} {v : View} {s : Screen} (hc : cfg.plain = true) (hH : 1 ≤ cfg.height)
    (g : Good cfg st v s) (h1 : st1.shape = st.shape) (h2 : st1.hooks = st.hooks) (h3 : st1.started = st.started)
    (hfit : st.hooks > 0 → (shown cfg (doRefresh cfg noFault st1).st).length ≤ cfg.height) :
    (doRefresh cfg noFault st1).err = none ∧
    ∃ s', Run cfg.height v.printed.length s (doRefresh cfg noFault st1).out s' ∧
      Good cfg (doRefresh cfg noFault st1).st
        { v with frame := if st.hooks > 0 then shown cfg (doRefresh cfg noFault st1).st else v.frame } s' := by
  have g1 : Good cfg st1 v s := good_silent g h1 h2 h3
  have hr := doRefresh_noFault cfg hc st1
  by_cases hh : st.hooks > 0
  · have hh1 : st1.hooks > 0 := by rw [h2]; exact hh
    have hres := hr.1 hh1
    obtain ⟨s', hrun, hg⟩ := good_hooked g1 hh1 hres (hfit hh) hH
    refine ⟨hres.err, s', hrun, ?_⟩
    simp only [hh, if_true]
    simpa using hg
  · have hh0 : st1.hooks = 0 := by rw [h2]; omega
    obtain ⟨e1, e2, e3, e4, e5⟩ := hr.2 hh0
    refine ⟨e1, s, by rw [e2]; exact Run.nil _ _ _, ?_⟩
    simp only [hh, if_false]
    exact good_silent g1 e3 e4 e5

theorem redraws_of_displays {cfg : Cfg} {st : St} {op : Op} (hd : op.displays cfg.kind = true) (hs : op ≠ .start)
    (hw : reaches st op = true := by rfl) :
    redraws cfg st op = decide (st.hooks > 0) := by
  have : (op == Op.start) = false := by simpa using hs
  simp [redraws, hd, this, hw]

theorem redraws_of_not_displays {cfg : Cfg} {st : St} {op : Op} (hd : op.displays cfg.kind = false) (hs : op ≠ .start) :
    redraws cfg st op = false := by
  have : (op == Op.start) = false := by simpa using hs
  simp [redraws, hd, this]

/-- Preservation of the invariant by one operation. -/
theorem good_step {cfg : Cfg} {st : St} {v : View} {s : Screen} (hc : cfg.plain = true) (hb : cfg.bareBypass = false)
    (hH : 1 ≤ cfg.height) (g : Good cfg st v s) (op : Op) (hne : op ≠ .stop)
    (happ : op.applies cfg.kind = true) (herr : (step cfg noFault st op).err = none)
    (hfit : redraws cfg st op = true → (shown cfg (step cfg noFault st op).st).length ≤ cfg.height) :
    ∃ s', Run cfg.height v.printed.length s (step cfg noFault st op).out s' ∧
      Good cfg (step cfg noFault st op).st (viewStep cfg st v op) s' := by
  have hrow : v.printed.length ≤ s.row := by
    obtain ⟨k, hs, _⟩ := g.shown; have := shown_row_ge hs; rwa [List.length_map] at this
  have hterm := plain_terminal hc
  have hansi := plain_ansi hc
  cases op with
  | stop => exact absurd rfl hne
  | start =>
    by_cases hst : st.started = true
    · -- already started: nothing happens
      have e : step cfg noFault st .start = { st := st } := by simp [step, doStart, hst]
      have er : redraws cfg st .start = false := by simp [redraws, Op.displays, hst]
      refine ⟨s, by rw [e]; exact Run.nil _ _ _, ?_⟩
      rw [e]; simp only [viewStep, er]
      exact g
    · have hst' : st.started = false := by simpa using hst
      have hh0 : st.hooks = 0 := by have := g.hooks; simpa [hst'] using this
      obtain ⟨hF, hshape⟩ := g.idle hst'
      -- the state after hook / redirection are installed
      let st1 : St := { enableRedirect cfg st with started := true, hooks := st.hooks + 1 }
      have g1 : Good cfg st1 v (Screen.step cfg.height s .hideCursor) := by
        refine good_of_rows (s := s) ⟨g.shown, ?_, ?_, ?_⟩ rfl rfl rfl
        · show ShapeOk (enableRedirect cfg st).shape v.frame
          rw [enableRedirect_shape]; exact g.shape
        · show st.hooks + 1 = if true = true then 1 else 0
          simp [hh0]
        · intro h; simp [st1] at h
      cases hk : cfg.kind with
      | progress =>
        have er : redraws cfg st .start = true := by simp [redraws, hk, hst']
        have hr := (doRefresh_noFault cfg hc st1).1 (by show st.hooks + 1 > 0; omega)
        have estep : step cfg noFault st .start = { st := (doRefresh cfg noFault st1).st, out := .hideCursor :: (doRefresh cfg noFault st1).out } := by
          simp only [step, doStart, hst', hk, hideOp, hansi, if_true]
          simp only [Bool.false_eq_true, if_false]
          show (match (doRefresh cfg noFault st1).err with | none => _ | some e => _) = _
          rw [hr.err]; rfl
        rw [estep] at hfit ⊢
        obtain ⟨s', hrun, hg⟩ := good_hooked g1 (by show st.hooks + 1 > 0; omega) hr (hfit er) hH
        refine ⟨s', Run.cons (by simpa [Screen.step] using hrow) hrun, ?_⟩
        simp only [viewStep, er, if_true, estep]
        simpa using hg
      | live =>
        have er : redraws cfg st .start = false := by simp [redraws, hk, Op.displays]
        have estep : step cfg noFault st .start = { st := st1, out := [.hideCursor] } := by
          simp only [step, doStart, hst', hk, hideOp, hansi, if_true]; rfl
        rw [estep]
        refine ⟨_, Run.one (by simpa [Screen.step] using hrow), ?_⟩
        simp only [viewStep, er]
        exact g1
      | status =>
        have er : redraws cfg st .start = false := by simp [redraws, hk, Op.displays]
        have estep : step cfg noFault st .start = { st := st1, out := [.hideCursor] } := by
          simp only [step, doStart, hst', hk, hideOp, hansi, if_true]; rfl
        rw [estep]
        refine ⟨_, Run.one (by simpa [Screen.step] using hrow), ?_⟩
        simp only [viewStep, er]
        exact g1
  | print ls =>
    have er := redraws_of_displays (cfg := cfg) (st := st) (op := .print ls) rfl (by simp)
    by_cases hh : st.hooks > 0
    · have e : step cfg noFault st (.print ls) = hooked cfg noFault st ls := by simp [step, doPrint_plain hc, hh]
      have hres := hooked_noFault cfg st ls
      rw [e] at hfit ⊢
      obtain ⟨s', hrun, hg⟩ := good_hooked g hh hres (hfit (by simp [er, hh])) hH
      refine ⟨s', hrun, ?_⟩
      simp only [viewStep, er, hh, decide_true, if_true, e]
      exact hg
    · have hh0 : st.hooks = 0 := by omega
      have e : step cfg noFault st (.print ls) = { st := st, out := emitCells cfg ls } := by simp [step, doPrint_plain hc, hh0]
      obtain ⟨s', hrun, hg⟩ := good_idle_print ls g hh0
      refine ⟨s', by rw [e]; exact hrun, ?_⟩
      rw [e]; simp only [viewStep, er, hh, decide_false]
      exact hg
  | printBare =>
    have er := redraws_of_displays (cfg := cfg) (st := st) (op := .printBare) rfl (by simp)
    by_cases hh : st.hooks > 0
    · have e : step cfg noFault st .printBare = hooked cfg noFault st [[]] := by simp [step, doPrint_plain hc, hh, hb]
      have hres := hooked_noFault cfg st [[]]
      rw [e] at hfit ⊢
      obtain ⟨s', hrun, hg⟩ := good_hooked g hh hres (hfit (by simp [er, hh])) hH
      refine ⟨s', hrun, ?_⟩
      simp only [viewStep, er, hh, decide_true, if_true, e]
      exact hg
    · have hh0 : st.hooks = 0 := by omega
      have e : step cfg noFault st .printBare = { st := st, out := emitCells cfg [[]] } := by simp [step, doPrint_plain hc, hh0, hb]
      obtain ⟨s', hrun, hg⟩ := good_idle_print [[]] g hh0
      refine ⟨s', by rw [e]; exact hrun, ?_⟩
      rw [e]; simp only [viewStep, er, hh, decide_false]
      exact hg
  | refresh =>
    have er := redraws_of_displays (cfg := cfg) (st := st) (op := .refresh) rfl (by simp)
    have e : step cfg noFault st .refresh = doRefresh cfg noFault st := rfl
    rw [e] at hfit ⊢
    obtain ⟨_, s', hrun, hg⟩ := good_refresh hc (st1 := st) hH g rfl rfl rfl (fun hh => hfit (by simp [er, hh]))
    refine ⟨s', hrun, ?_⟩
    simp only [viewStep, er, e]
    by_cases hh : st.hooks > 0 <;> simpa [hh] using hg
  | update f rf =>
    cases hk : cfg.kind with
    | progress => simp [Op.applies, hk] at happ
    | live =>
      cases rf with
      | true =>
        have er := redraws_of_displays (cfg := cfg) (st := st) (op := .update f true) (by simp [Op.displays]) (by simp)
        have e : step cfg noFault st (.update f true) = doRefresh cfg noFault { st with renderable := f } := by
          simp [step, hk]
        rw [e] at hfit ⊢
        obtain ⟨_, s', hrun, hg⟩ := good_refresh hc (st1 := { st with renderable := f }) hH g rfl rfl rfl
          (fun hh => hfit (by simp [er, hh]))
        refine ⟨s', hrun, ?_⟩
        simp only [viewStep, er, e]
        by_cases hh : st.hooks > 0 <;> simpa [hh] using hg
      | false =>
        have er := redraws_of_not_displays (cfg := cfg) (st := st) (op := .update f false) (by simp [Op.displays, hk]) (by simp)
        have e : step cfg noFault st (.update f false) = { st := { st with renderable := f } } := by
          simp [step, hk]
        rw [e]
        refine ⟨s, Run.nil _ _ _, ?_⟩
        simp only [viewStep, er]
        exact good_silent g rfl rfl rfl
    | status =>
      have er := redraws_of_displays (cfg := cfg) (st := st) (op := .update f rf) (by simp [Op.displays, hk]) (by simp)
      have e : step cfg noFault st (.update f rf) = doRefresh cfg noFault { st with renderable := statusFrame cfg.cw f } := by
        simp [step, hk]
      rw [e] at hfit ⊢
      obtain ⟨_, s', hrun, hg⟩ := good_refresh hc (st1 := { st with renderable := statusFrame cfg.cw f }) hH g rfl rfl rfl
        (fun hh => hfit (by simp [er, hh]))
      refine ⟨s', hrun, ?_⟩
      simp only [viewStep, er, e]
      by_cases hh : st.hooks > 0 <;> simpa [hh] using hg
  | addTask desc vis tot =>
    have er := redraws_of_displays (cfg := cfg) (st := st) (op := .addTask desc vis tot) rfl (by simp)
    have estep : step cfg noFault st (.addTask desc vis tot) =
        (match (doRefresh cfg noFault (addTaskSt st desc vis tot)).err with
         | some _ => doRefresh cfg noFault (addTaskSt st desc vis tot)
         | none => { doRefresh cfg noFault (addTaskSt st desc vis tot) with st := bumpIndex (doRefresh cfg noFault (addTaskSt st desc vis tot)).st }) := rfl
    generalize hrr : doRefresh cfg noFault (addTaskSt st desc vis tot) = r at estep
    have hgr := good_refresh hc (st1 := addTaskSt st desc vis tot) hH g rfl rfl rfl
    rw [hrr] at hgr
    cases hre : r.err with
    | some e0 =>
      -- impossible: without faults the refresh does not raise
      by_cases hh : st.hooks > 0
      · have := ((doRefresh_noFault cfg hc (addTaskSt st desc vis tot)).1 hh).err
        rw [hrr, hre] at this; cases this
      · have := ((doRefresh_noFault cfg hc (addTaskSt st desc vis tot)).2 (by show st.hooks = 0; omega)).1
        rw [hrr, hre] at this; cases this
    | none =>
      rw [hre] at estep
      simp only at estep
      rw [estep] at hfit ⊢
      have hsh : shown cfg (bumpIndex r.st) = shown cfg r.st := shown_congr cfg rfl rfl rfl
      simp only [hsh] at hfit
      obtain ⟨_, s', hrun, hg⟩ := hgr (fun hh => hfit (by simp [er, hh]))
      refine ⟨s', hrun, ?_⟩
      simp only [viewStep, er, estep, hsh]
      have hg' := good_silent (st' := bumpIndex r.st) hg rfl rfl rfl
      by_cases hh : st.hooks > 0 <;> simpa [hh] using hg'
  | updateTask id ed rf =>
    cases hf : findTask st.tasks id with
    | none => simp [step, hf] at herr
    | some t =>
      cases rf with
      | true =>
        have er := redraws_of_displays (cfg := cfg) (st := st) (op := .updateTask id ed true) rfl (by simp)
        have e : step cfg noFault st (.updateTask id ed true) =
            doRefresh cfg noFault { st with tasks := replaceTask st.tasks (ed.apply t) } := by
          simp [step, hf]
        rw [e] at hfit ⊢
        obtain ⟨_, s', hrun, hg⟩ := good_refresh hc (st1 := { st with tasks := replaceTask st.tasks (ed.apply t) }) hH g rfl rfl rfl
          (fun hh => hfit (by simp [er, hh]))
        refine ⟨s', hrun, ?_⟩
        simp only [viewStep, er, e]
        by_cases hh : st.hooks > 0 <;> simpa [hh] using hg
      | false =>
        have er := redraws_of_not_displays (cfg := cfg) (st := st) (op := .updateTask id ed false) rfl (by simp)
        have e : step cfg noFault st (.updateTask id ed false) =
            { st := { st with tasks := replaceTask st.tasks (ed.apply t) } } := by
          simp [step, hf]
        rw [e]
        refine ⟨s, Run.nil _ _ _, ?_⟩
        simp only [viewStep, er]
        exact good_silent g rfl rfl rfl
  | resize w =>
    have er := redraws_of_not_displays (cfg := cfg) (st := st) (op := .resize w) rfl (by simp)
    have e : step cfg noFault st (.resize w) = { st := { st with width := some w } } := rfl
    rw [e]
    refine ⟨s, Run.nil _ _ _, ?_⟩
    simp only [viewStep, er]
    exact good_silent g rfl rfl rfl
  | removeTask id =>
    have er := redraws_of_not_displays (cfg := cfg) (st := st) (op := .removeTask id) rfl (by simp)
    cases hf : findTask st.tasks id with
    | none => simp [step, hf] at herr
    | some t =>
      have e : step cfg noFault st (.removeTask id) =
          { st := { st with tasks := st.tasks.filter (fun u => !(u.id == id)) } } := by
        simp [step, hf]
      rw [e]
      refine ⟨s, Run.nil _ _ _, ?_⟩
      simp only [viewStep, er]
      exact good_silent g rfl rfl rfl
  | write err lines tail =>
    cases hp : proxied st err with
    | false =>
      have e : step cfg noFault st (.write err lines tail) = { st := st } := by simp [step, doWrite, hp]
      have er : redraws cfg st (.write err lines tail) = false := by
        have : (Op.write err lines tail == Op.start) = false := by simp
        simp [redraws, reaches, hp, this]
      rw [e]
      refine ⟨s, Run.nil _ _ _, ?_⟩
      have hv : viewStep cfg st v (.write err lines tail) = v := by
        cases lines <;> simp [viewStep, er, hp]
      rw [hv]; exact g
    | true =>
      cases lines with
      | nil =>
        have e : step cfg noFault st (.write err [] tail) = { st := setBuf st err (getBuf st err ++ tail) } := by
          simp [step, doWrite, hp]
        have er := redraws_of_not_displays (cfg := cfg) (st := st) (op := .write err [] tail) rfl (by simp)
        rw [e]
        refine ⟨s, Run.nil _ _ _, ?_⟩
        have hv : viewStep cfg st v (.write err [] tail) = v := by simp [viewStep, er]
        rw [hv]
        refine good_silent g ?_ ?_ ?_ <;> (unfold setBuf; split <;> rfl)
      | cons l rest =>
        have er := redraws_of_displays (cfg := cfg) (st := st) (op := .write err (l :: rest) tail) rfl (by simp) hp
        have g1 : Good cfg (setBuf st err tail) v s := by
          refine good_silent g ?_ ?_ ?_ <;> (unfold setBuf; split <;> rfl)
        have hh1 : (setBuf st err tail).hooks = st.hooks := by unfold setBuf; split <;> rfl
        have e : step cfg noFault st (.write err (l :: rest) tail) =
            doPrint cfg noFault (setBuf st err tail) ((getBuf st err ++ l) :: rest) := by
          simp [step, doWrite, hp]
        by_cases hh : st.hooks > 0
        · have e2 : doPrint cfg noFault (setBuf st err tail) ((getBuf st err ++ l) :: rest) =
              hooked cfg noFault (setBuf st err tail) ((getBuf st err ++ l) :: rest) := by
            simp [doPrint_plain hc, hh1, hh]
          rw [e, e2] at hfit ⊢
          have hres := hooked_noFault cfg (setBuf st err tail) ((getBuf st err ++ l) :: rest)
          obtain ⟨s', hrun, hg⟩ := good_hooked g1 (by rw [hh1]; exact hh) hres (hfit (by simp [er, hh])) hH
          refine ⟨s', hrun, ?_⟩
          simp only [viewStep, er, hh, decide_true, if_true, e, e2, hp]
          exact hg
        · have hh0 : st.hooks = 0 := by omega
          have e2 : doPrint cfg noFault (setBuf st err tail) ((getBuf st err ++ l) :: rest) =
              { st := setBuf st err tail, out := emitCells cfg ((getBuf st err ++ l) :: rest) } := by
            simp [doPrint_plain hc, hh1, hh0]
          obtain ⟨s', hrun, hg⟩ := good_idle_print ((getBuf st err ++ l) :: rest) g1 (by rw [hh1]; exact hh0)
          refine ⟨s', by rw [e, e2]; exact hrun, ?_⟩
          rw [e, e2]; simp only [viewStep, er, hh, decide_false, hp, if_true]
          exact hg

end RichModel.Live
