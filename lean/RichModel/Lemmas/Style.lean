import RichModel.Model.Style
/-!
Helper lemmas for the `Style` model: bit masks, the `+` algebra, the invariant kept by every
constructor, and the stored-hash invariant.  (The text round trip is in `Lemmas/StyleText.lean`.)
-/
namespace RichModel
open AsciiStr

/-! ### bit masks -/

theorem testBit_andNot (a b i : Nat) : (andNot a b).testBit i = (a.testBit i && !b.testBit i) := by
  simp only [andNot, Nat.testBit_xor, Nat.testBit_and]
  cases a.testBit i <;> cases b.testBit i <;> rfl

/-- The bit identity behind associativity of `__add__`. -/
theorem attrs_assoc (a sb vb sc vc : Nat) :
    andNot (andNot a sb ||| (vb &&& sb)) sc ||| (vc &&& sc) =
      andNot a (sb ||| sc) ||| ((andNot vb sc ||| (vc &&& sc)) &&& (sb ||| sc)) := by
  apply Nat.eq_of_testBit_eq
  intro i
  simp only [Nat.testBit_or, Nat.testBit_and, testBit_andNot]
  cases a.testBit i <;> cases sb.testBit i <;> cases vb.testBit i <;> cases sc.testBit i <;>
    cases vc.testBit i <;> rfl

theorem linkOr_assoc (a b c : Option (List Char)) : linkOr c (linkOr b a) = linkOr (linkOr c b) a := by
  unfold linkOr
  by_cases hc : strTruthy c = true
  · simp [hc]
  · by_cases hb : strTruthy b = true <;> simp [hc, hb]

theorem testBit_false_of_lt_8192 {n : Nat} (h : n < 8192) {j : Nat} (hj : 13 ≤ j) : n.testBit j = false := by
  apply Nat.testBit_lt_two_pow
  calc n < 2 ^ 13 := h
    _ ≤ 2 ^ j := Nat.pow_le_pow_right (by omega) hj

namespace Style

theorem bitsToNat_testBit (l : List Bool) (i : Nat) : (bitsToNat l).testBit i = l.getD i false := by
  induction l generalizing i with
  | nil => simp [bitsToNat]
  | cons b r ih =>
    cases i with
    | zero =>
      simp only [bitsToNat, Nat.testBit_zero, List.getD_cons_zero]
      cases b <;> simp <;> omega
    | succ j =>
      rw [Nat.testBit_succ, List.getD_cons_succ, ← ih]
      congr 1
      cases b <;> simp only [bitsToNat] <;> (try simp) <;> omega

theorem bitsToNat_lt (l : List Bool) : bitsToNat l < 2 ^ l.length := by
  induction l with
  | nil => simp [bitsToNat]
  | cons b r ih =>
    simp only [bitsToNat, List.length_cons, Nat.pow_succ]
    cases b <;> (try simp) <;> omega

theorem kwSet_testBit (kw : Kwargs) (j : Nat) :
    (kwSet kw).testBit j = (decide (j < 13) && (kw.getD j none).isSome) := by
  unfold kwSet
  rw [bitsToNat_testBit]
  by_cases h : j < 13
  · simp [List.getD_eq_getElem?_getD, h]
  · simp [List.getD_eq_getElem?_getD, h]

theorem kwVal_testBit (kw : Kwargs) (j : Nat) :
    (kwVal kw).testBit j = (decide (j < 13) && (kw.getD j none == some true)) := by
  unfold kwVal
  rw [bitsToNat_testBit]
  by_cases h : j < 13
  · simp [List.getD_eq_getElem?_getD, h]
  · simp [List.getD_eq_getElem?_getD, h]

theorem kwSet_lt (kw : Kwargs) : kwSet kw < 8192 := by
  have := bitsToNat_lt ((List.range 13).map fun i => (kw.getD i none).isSome)
  simpa [kwSet] using this

theorem kwVal_sub (kw : Kwargs) : kwVal kw &&& kwSet kw = kwVal kw := by
  apply Nat.eq_of_testBit_eq
  intro i
  rw [Nat.testBit_and, kwSet_testBit, kwVal_testBit]
  cases h : kw.getD i none with
  | none => simp
  | some b => cases b <;> simp

attribute [local irreducible] kwSet kwVal

/-! ### the invariant every constructor keeps -/

/-- Fields that no constructor can break: attribute values only where specified, 13 bits, and a
style flagged `_null` has nothing set (its link may be the empty string, which is falsy). -/
structure Inv (s : Style) : Prop where
  attrs_sub : s.attributes &&& s.setAttributes = s.attributes
  set_lt : s.setAttributes < 8192
  null_empty : s.isNull = true →
    s.color = none ∧ s.bgcolor = none ∧ s.setAttributes = 0 ∧ s.attributes = 0 ∧ strTruthy s.link = false

/-- The stored hash is the hash of the current fields. -/
def HashOk (s : Style) : Prop := s.hash = s.fieldsKey

/-- The definition cache is empty or holds what `__str__` would compute now. -/
def CacheOk (s : Style) : Prop := s.styleDef = none ∨ s.styleDef = some (render s)

theorem inv_null : Inv Style.null := by
  refine ⟨by decide, by decide, ?_⟩
  intro _; decide

theorem hashOk_null : HashOk Style.null := rfl
theorem cacheOk_null : CacheOk Style.null := Or.inr (by decide)

theorem init_ok {T : StrTables} {v c b kw l s} (h : initT T v c b kw l = .ok s) :
    ∃ c' b', s = { color := c', bgcolor := b',
                   attributes := if kwSet kw ≠ 0 then kwVal kw else 0, setAttributes := kwSet kw,
                   link := storedLink v l,
                   hash := ⟨c', b', some (if kwSet kw ≠ 0 then kwVal kw else 0), some (kwSet kw), storedLink v l⟩,
                   isNull := !(kwSet kw ≠ 0 || c.isSome || b.isSome || strTruthy (storedLink v l)),
                   styleDef := none } ∧
      (c = none → c' = none) ∧ (b = none → b' = none) ∧
      (∀ x, c = some x → ∃ y, makeColorT T v x = .ok y ∧ c' = some y) ∧
      (∀ x, b = some x → ∃ y, makeColorT T v x = .ok y ∧ b' = some y) := by
  unfold initT at h
  split at h
  · cases h
  · rename_i c' hc
    split at h
    · cases h
    · rename_i b' hb
      simp only [Except.ok.injEq] at h
      refine ⟨c', b', h.symm, ?_, ?_, ?_, ?_⟩
      · intro hn; subst hn; simpa using hc.symm
      · intro hn; subst hn; simpa using hb.symm
      · intro x hx; subst hx
        cases hm : makeColorT T v x with
        | error e => simp [hm, Except.map] at hc
        | ok y => simp [hm, Except.map] at hc; exact ⟨y, rfl, hc.symm⟩
      · intro x hx; subst hx
        cases hm : makeColorT T v x with
        | error e => simp [hm, Except.map] at hb
        | ok y => simp [hm, Except.map] at hb; exact ⟨y, rfl, hb.symm⟩

theorem inv_init {T : StrTables} {v c b kw l s} (h : initT T v c b kw l = .ok s) : Inv s := by
  obtain ⟨c', b', rfl, hc, hb, _, _⟩ := init_ok h
  refine ⟨?_, kwSet_lt kw, ?_⟩
  · show (if kwSet kw ≠ 0 then kwVal kw else 0) &&& kwSet kw = (if kwSet kw ≠ 0 then kwVal kw else 0)
    split
    · exact kwVal_sub kw
    · simp
  · intro hn
    simp only [Bool.not_eq_true', Bool.or_eq_false_iff, decide_eq_false_iff_not, ne_eq, Decidable.not_not,
      Option.isSome_eq_false_iff, Option.isNone_iff_eq_none] at hn
    obtain ⟨⟨⟨h0, hcn⟩, hbn⟩, hl⟩ := hn
    exact ⟨hc hcn, hb hbn, h0, by simp [h0], hl⟩

theorem hashOk_init {T : StrTables} {v c b kw l s} (h : initT T v c b kw l = .ok s) : HashOk s := by
  obtain ⟨c', b', rfl, _⟩ := init_ok h
  rfl

theorem cacheOk_init {T : StrTables} {v c b kw l s} (h : initT T v c b kw l = .ok s) : CacheOk s := by
  obtain ⟨c', b', rfl, _⟩ := init_ok h
  exact Or.inl rfl

theorem inv_fromColor (v c b) : Inv (fromColor v c b) := by
  refine ⟨by simp [fromColor], by simp [fromColor], ?_⟩
  intro hn
  cases c <;> cases b <;> simp_all [fromColor, strTruthy]

theorem hashOk_fromColor (v : StyleVariant) (hv : v.fromColorHash = false) (c b) : HashOk (fromColor v c b) := by
  simp [HashOk, fromColor, hv, fieldsKey]

theorem and_or_sub {a sa vb sb : Nat} (ha : a &&& sa = a) :
    (andNot a sb ||| (vb &&& sb)) &&& (sa ||| sb) = andNot a sb ||| (vb &&& sb) := by
  apply Nat.eq_of_testBit_eq
  intro i
  have := congrArg (fun n => n.testBit i) ha
  simp only [Nat.testBit_and] at this
  simp only [Nat.testBit_or, Nat.testBit_and, testBit_andNot]
  cases h1 : a.testBit i <;> cases h2 : sa.testBit i <;> cases sb.testBit i <;> cases vb.testBit i <;>
    simp_all

theorem or_lt_8192 {a b : Nat} (ha : a < 8192) (hb : b < 8192) : a ||| b < 8192 :=
  Nat.or_lt_two_pow (n := 13) ha hb

theorem inv_add (v) {a b : Style} (ha : Inv a) (hb : Inv b) : Inv (add v a b) := by
  unfold add
  by_cases h1 : b.isNull = true
  · simp [h1]; exact ha
  · by_cases h2 : a.isNull = true
    · simp [h1, h2]; exact hb
    · simp only [h1, h2, if_false, Bool.false_eq_true]
      refine ⟨and_or_sub ha.attrs_sub, or_lt_8192 ha.set_lt hb.set_lt, ?_⟩
      intro hn
      simp at hn

theorem hashOk_add (v : StyleVariant) (hv : v.addHash = false) {a b : Style} (ha : HashOk a) (hb : HashOk b) :
    HashOk (add v a b) := by
  unfold add
  by_cases h1 : b.isNull = true
  · simp [h1]; exact ha
  · by_cases h2 : a.isNull = true
    · simp [h1, h2]; exact hb
    · simp [h1, h2, hv, HashOk, fieldsKey]

theorem cacheOk_add (v : StyleVariant) {a b : Style} (ha : CacheOk a) (hb : CacheOk b) : CacheOk (add v a b) := by
  unfold add
  by_cases h1 : b.isNull = true
  · simp [h1]; exact ha
  · by_cases h2 : a.isNull = true
    · simp [h1, h2]; exact hb
    · simp only [h1, h2, if_false, Bool.false_eq_true]; exact Or.inl rfl

theorem inv_copy {s : Style} (h : Inv s) : Inv s.copy := by
  unfold copy
  split
  · exact inv_null
  · exact ⟨h.attrs_sub, h.set_lt, by intro hn; simp at hn⟩

theorem hashOk_copy {s : Style} (h : HashOk s) : HashOk s.copy := by
  unfold copy
  split
  · exact hashOk_null
  · exact h

theorem render_congr {s t : Style} (h1 : s.color = t.color) (h2 : s.bgcolor = t.bgcolor)
    (h3 : s.attributes = t.attributes) (h4 : s.setAttributes = t.setAttributes) (h5 : s.link = t.link) :
    render s = render t := by
  cases s; cases t
  simp only at h1 h2 h3 h4 h5
  subst h1 h2 h3 h4 h5
  rfl

theorem cacheOk_copy {s : Style} (h : CacheOk s) : CacheOk s.copy := by
  unfold copy
  split
  · exact cacheOk_null
  · rcases h with h | h
    · exact Or.inl h
    · refine Or.inr ?_
      show s.styleDef = _
      rw [h]; congr 1

theorem inv_updateLink (v) {s : Style} (h : Inv s) (l) : Inv (updateLink v s l) :=
  ⟨h.attrs_sub, h.set_lt, by intro hn; simp [updateLink] at hn⟩

theorem hashOk_updateLink (v : StyleVariant) (hv : v.updateLinkHash = false) (s : Style) (l) :
    HashOk (updateLink v s l) := by
  simp [HashOk, updateLink, hv, fieldsKey]

theorem cacheOk_updateLink (v : StyleVariant) (hv : v.updateLinkDef = false) (s : Style) (l) :
    CacheOk (updateLink v s l) := by
  simp [CacheOk, updateLink, hv]

theorem inv_withoutColor (v) {s : Style} (h : Inv s) : Inv (withoutColor v s) := by
  unfold withoutColor
  split
  · exact inv_null
  · exact ⟨h.attrs_sub, h.set_lt, by intro hn; simp at hn⟩

theorem hashOk_withoutColor (v : StyleVariant) (hv : v.withoutColorHash = false) (s : Style) :
    HashOk (withoutColor v s) := by
  unfold withoutColor
  split
  · exact hashOk_null
  · simp [HashOk, hv, fieldsKey]

theorem cacheOk_withoutColor (v : StyleVariant) (s : Style) : CacheOk (withoutColor v s) := by
  unfold withoutColor
  split
  · exact cacheOk_null
  · exact Or.inl rfl

theorem inv_strTouch {s : Style} (h : Inv s) : Inv s.strTouch := ⟨h.attrs_sub, h.set_lt, h.null_empty⟩
theorem hashOk_strTouch {s : Style} (h : HashOk s) : HashOk s.strTouch := h

theorem cacheOk_strTouch {s : Style} (h : CacheOk s) : CacheOk s.strTouch := by
  refine Or.inr ?_
  show some (str s) = some (render s.strTouch)
  have : render s.strTouch = render s := render_congr rfl rfl rfl rfl rfl
  rw [this]
  rcases h with h | h <;> simp [str, h]

theorem parse_ok {T : StrTables} {v d s} (h : parseT T v d = .ok s) :
    s = Style.null ∨ ∃ st, parseLoopT T v (T.split d) {} = .ok st ∧
      initT T v (st.color.map .str) (st.bgcolor.map .str) st.attributes st.link = .ok s := by
  unfold parseT at h
  split at h
  · left; cases h; rfl
  · right
    split at h
    · cases h
    · rename_i st hst; exact ⟨st, hst, h⟩

/-! ### styles reachable through the public constructors -/

/-- Every `Style` that the public constructors can produce (for the code variant `v`, whatever the
interpreter's character tables). -/
inductive Reachable (v : StyleVariant) : Style → Prop
  | null : Reachable v Style.null
  | init {T : StrTables} {c b kw l s} : initT T v c b kw l = .ok s → Reachable v s
  | fromColor (c b) : Reachable v (fromColor v c b)
  | parse {T : StrTables} {d s} : parseT T v d = .ok s → Reachable v s
  | add {a b} : Reachable v a → Reachable v b → Reachable v (add v a b)
  | copy {a} : Reachable v a → Reachable v a.copy
  | updateLink {a} (l) : Reachable v a → Reachable v (updateLink v a l)
  | withoutColor {a} : Reachable v a → Reachable v (withoutColor v a)
  | strTouch {a} : Reachable v a → Reachable v a.strTouch

theorem Reachable.addOpt {v a} (b : Option Style) (ha : Reachable v a) (hb : ∀ x, b = some x → Reachable v x) :
    Reachable v (Style.addOpt v a b) := by
  cases b with
  | none => exact ha
  | some x => exact Reachable.add ha (hb x rfl)

theorem Reachable.foldl {v} (rest : List Style) {first : Style} (hf : Reachable v first)
    (hr : ∀ s ∈ rest, Reachable v s) : Reachable v (rest.foldl (Style.add v) first) := by
  induction rest generalizing first with
  | nil => exact hf
  | cons x xs ih =>
    exact ih (Reachable.add hf (hr x (by simp))) (fun s hs => hr s (by simp [hs]))

/-- `Style.chain` / `Style.combine` of reachable styles is reachable. -/
theorem Reachable.chain {v} {l : List Style} {s} (hl : ∀ x ∈ l, Reachable v x) (h : chain v l = .ok s) :
    Reachable v s := by
  cases l with
  | nil => cases h
  | cons first rest =>
    simp only [Style.chain, Except.ok.injEq] at h
    subst h
    exact Reachable.foldl rest (hl first (by simp)) (fun s hs => hl s (by simp [hs]))

theorem Reachable.inv {v s} (h : Reachable v s) : Inv s := by
  induction h with
  | null => exact inv_null
  | init h => exact inv_init h
  | fromColor c b => exact inv_fromColor v c b
  | parse h =>
    rcases parse_ok h with rfl | ⟨st, _, hi⟩
    · exact inv_null
    · exact inv_init hi
  | add _ _ iha ihb => exact inv_add v iha ihb
  | copy _ ih => exact inv_copy ih
  | updateLink l _ ih => exact inv_updateLink v ih l
  | withoutColor _ ih => exact inv_withoutColor v ih
  | strTouch _ ih => exact inv_strTouch ih

/-- With the four hash repairs, every reachable style stores the hash of its own fields. -/
theorem Reachable.hashOk {v : StyleVariant} (h1 : v.addHash = false) (h2 : v.fromColorHash = false)
    (h3 : v.withoutColorHash = false) (h4 : v.updateLinkHash = false) {s} (h : Reachable v s) : HashOk s := by
  induction h with
  | null => exact hashOk_null
  | init h => exact hashOk_init h
  | fromColor c b => exact hashOk_fromColor v h2 c b
  | parse h =>
    rcases parse_ok h with rfl | ⟨st, _, hi⟩
    · exact hashOk_null
    · exact hashOk_init hi
  | add _ _ iha ihb => exact hashOk_add v h1 iha ihb
  | copy _ ih => exact hashOk_copy ih
  | updateLink l _ _ => exact hashOk_updateLink v h4 _ l
  | withoutColor _ _ => exact hashOk_withoutColor v h3 _
  | strTouch _ ih => exact hashOk_strTouch ih

/-- With the `update_link` cache repair, a cached definition is never stale. -/
theorem Reachable.cacheOk {v : StyleVariant} (h5 : v.updateLinkDef = false) {s} (h : Reachable v s) : CacheOk s := by
  induction h with
  | null => exact cacheOk_null
  | init h => exact cacheOk_init h
  | fromColor c b => exact Or.inl rfl
  | parse h =>
    rcases parse_ok h with rfl | ⟨st, _, hi⟩
    · exact cacheOk_null
    · exact cacheOk_init hi
  | add _ _ iha ihb => exact cacheOk_add v iha ihb
  | copy _ ih => exact cacheOk_copy ih
  | updateLink l _ _ => exact cacheOk_updateLink v h5 _ l
  | withoutColor _ _ => exact cacheOk_withoutColor v _
  | strTouch _ ih => exact cacheOk_strTouch ih

theorem eq_iff {a b : Style} : eq a b = true ↔
    a.color = b.color ∧ a.bgcolor = b.bgcolor ∧ a.setAttributes = b.setAttributes ∧
      a.attributes = b.attributes ∧ a.link = b.link := by
  simp [eq]

theorem fieldsKey_eq_of_eq {a b : Style} (h : eq a b = true) : a.fieldsKey = b.fieldsKey := by
  obtain ⟨h1, h2, h3, h4, h5⟩ := eq_iff.mp h
  simp [fieldsKey, h1, h2, h3, h4, h5]

/-! ### the `+` algebra -/

theorem add_assoc (v : StyleVariant) (a b c : Style) : add v (add v a b) c = add v a (add v b c) := by
  by_cases ha : a.isNull = true <;> by_cases hb : b.isNull = true <;> by_cases hc : c.isNull = true <;>
    simp [add, ha, hb, hc, Option.or_assoc, attrs_assoc, linkOr_assoc, Nat.or_assoc] <;>
    cases v.addHash <;> simp

theorem add_null_right (v : StyleVariant) (a : Style) : add v a Style.null = a := by
  simp [add, Style.null]

theorem add_null_left (v : StyleVariant) (a : Style) (h : a.isNull = false) : add v Style.null a = a := by
  simp [add, Style.null, h]

theorem attr_add (v : StyleVariant) {a b : Style} (ha : Inv a) (hb : Inv b) (i : Nat) :
    (add v a b).attr i = (b.attr i).or (a.attr i) := by
  unfold add
  by_cases h1 : b.isNull = true
  · have := (hb.null_empty h1).2.2.1
    simp [h1, attr, this]
  · by_cases h2 : a.isNull = true
    · have := (ha.null_empty h2).2.2.1
      simp [h1, h2, attr, this]
    · simp only [h1, h2, if_false, Bool.false_eq_true, attr, Nat.testBit_or, Nat.testBit_and, testBit_andNot]
      cases a.setAttributes.testBit i <;> cases b.setAttributes.testBit i <;> cases a.attributes.testBit i <;>
        cases b.attributes.testBit i <;> rfl

theorem color_add (v : StyleVariant) {a b : Style} (ha : Inv a) (hb : Inv b) :
    (add v a b).color = b.color.or a.color ∧ (add v a b).bgcolor = b.bgcolor.or a.bgcolor := by
  unfold add
  by_cases h1 : b.isNull = true
  · obtain ⟨hc, hg, _⟩ := hb.null_empty h1
    simp [h1, hc, hg]
  · by_cases h2 : a.isNull = true
    · obtain ⟨hc, hg, _⟩ := ha.null_empty h2
      simp [h1, h2, hc, hg]
    · simp [h1, h2]


theorem link_add (v : StyleVariant) {a b : Style} (ha : Inv a) (hb : Inv b) :
    linkVal (add v a b).link = if strTruthy b.link then b.link else linkVal a.link := by
  unfold add
  by_cases h1 : b.isNull = true
  · have := (hb.null_empty h1).2.2.2.2
    simp [h1, this]
  · by_cases h2 : a.isNull = true
    · have := (ha.null_empty h2).2.2.2.2
      simp only [h1, h2, if_false, if_true, Bool.false_eq_true]
      simp only [linkVal, this]
      split <;> simp_all
    · simp only [h1, h2, if_false, Bool.false_eq_true, linkOr, linkVal]
      by_cases hl : strTruthy b.link = true <;> simp [hl]

/-! ### the empty-string link, and why the stored `_null` flag cannot be observed through `+` and `==` -/

/-- The stored link is never the empty string. -/
def LinkOk (s : Style) : Prop := s.link ≠ some []

theorem linkOk_cases {l : Option (List Char)} (h : l ≠ some []) : l = none ∨ strTruthy l = true := by
  cases l with
  | none => exact Or.inl rfl
  | some w =>
    cases w with
    | nil => exact absurd rfl h
    | cons a r => exact Or.inr rfl

theorem storedLink_ok {v : StyleVariant} (hv : v.emptyLink = false) (l : Option (List Char)) :
    storedLink v l ≠ some [] := by
  simp only [storedLink, hv, Bool.false_eq_true, if_false, linkVal]
  cases l with
  | none => simp [strTruthy]
  | some w => cases w <;> simp [strTruthy]

@[simp] theorem storedLink_none (v : StyleVariant) : storedLink v none = none := by
  unfold storedLink linkVal; split <;> simp [strTruthy]

theorem storedLink_truthy (v : StyleVariant) {l : Option (List Char)} (h : strTruthy l = true) :
    storedLink v l = l := by
  unfold storedLink linkVal; simp [h]

theorem linkOr_ok {x y : Option (List Char)} (hx : x ≠ some []) (hy : y ≠ some []) : linkOr x y ≠ some [] := by
  unfold linkOr; split <;> assumption

/-- With the empty-link repair no constructible style stores `""` as its link. -/
theorem Reachable.linkOk {v : StyleVariant} (hv : v.emptyLink = false) {s} (h : Reachable v s) : LinkOk s := by
  induction h with
  | null => simp [LinkOk, Style.null]
  | init h => obtain ⟨c', b', rfl, _⟩ := init_ok h; exact storedLink_ok hv _
  | fromColor c b => simp [LinkOk, Style.fromColor]
  | parse h =>
    rcases parse_ok h with rfl | ⟨st, _, hi⟩
    · simp [LinkOk, Style.null]
    · obtain ⟨c', b', rfl, _⟩ := init_ok hi; exact storedLink_ok hv _
  | @add a b _ _ iha ihb =>
    unfold LinkOk Style.add
    by_cases h1 : b.isNull = true
    · simp only [h1, if_true]; exact iha
    · by_cases h2 : a.isNull = true
      · simp only [h1, h2, if_true, if_false, Bool.false_eq_true]; exact ihb
      · simp only [h1, h2, if_false, Bool.false_eq_true]; exact linkOr_ok ihb iha
  | @copy a _ ih =>
    unfold LinkOk Style.copy
    split
    · simp [Style.null]
    · exact ih
  | updateLink l _ _ => exact storedLink_ok hv _
  | @withoutColor a _ ih =>
    unfold LinkOk Style.withoutColor
    split
    · simp [Style.null]
    · exact ih
  | strTouch _ ih => exact ih

theorem andNot_zero (a : Nat) : andNot a 0 = a := by simp [andNot]
theorem zero_andNot (a : Nat) : andNot 0 a = 0 := by simp [andNot]

/-- **The five compared fields of `a + b` are functions of the five compared fields of `a` and `b`
alone** — the short cuts `if style._null: return self` / `if self._null: return style` give what the
general merge would give.  Hence the stored `_null` flag (which `without_color`, `update_link` and
`copy` set to `False` even when nothing is left) is unobservable through `+` and `==`. -/
theorem add_fields (v : StyleVariant) {a b : Style} (ha : Inv a) (hb : Inv b) (la : LinkOk a) (lb : LinkOk b) :
    (add v a b).color = b.color.or a.color ∧ (add v a b).bgcolor = b.bgcolor.or a.bgcolor ∧
    (add v a b).setAttributes = a.setAttributes ||| b.setAttributes ∧
    (add v a b).attributes = andNot a.attributes b.setAttributes ||| (b.attributes &&& b.setAttributes) ∧
    (add v a b).link = linkOr b.link a.link := by
  unfold add
  by_cases h1 : b.isNull = true
  · obtain ⟨hc, hg, hs, hat, hl⟩ := hb.null_empty h1
    have hln : b.link = none := by
      rcases linkOk_cases lb with h | h
      · exact h
      · rw [hl] at h; cases h
    simp [h1, hc, hg, hs, hat, hln, andNot_zero, linkOr, strTruthy]
  · by_cases h2 : a.isNull = true
    · obtain ⟨hc, hg, hs, hat, hl⟩ := ha.null_empty h2
      have hln : a.link = none := by
        rcases linkOk_cases la with h | h
        · exact h
        · rw [hl] at h; cases h
      have hlb : linkOr b.link none = b.link := by
        unfold linkOr
        rcases linkOk_cases lb with h | h
        · simp [h, strTruthy]
        · simp [h]
      simp [h1, h2, hc, hg, hs, hat, hln, zero_andNot, hb.attrs_sub, hlb]
    · simp [h1, h2]

/-- `+` respects `==` (whatever the `_null` flags, hashes and caches of the operands). -/
theorem add_congr (v : StyleVariant) {a a' b b' : Style} (ha : Inv a) (ha' : Inv a') (hb : Inv b) (hb' : Inv b')
    (la : LinkOk a) (la' : LinkOk a') (lb : LinkOk b) (lb' : LinkOk b')
    (e1 : eq a a' = true) (e2 : eq b b' = true) : eq (add v a b) (add v a' b') = true := by
  obtain ⟨c1, g1, s1, t1, l1⟩ := add_fields v ha hb la lb
  obtain ⟨c2, g2, s2, t2, l2⟩ := add_fields v ha' hb' la' lb'
  obtain ⟨x1, x2, x3, x4, x5⟩ := eq_iff.mp e1
  obtain ⟨y1, y2, y3, y4, y5⟩ := eq_iff.mp e2
  rw [eq_iff, c1, c2, g1, g2, s1, s2, t1, t2, l1, l2, x1, x2, x3, x4, x5, y1, y2, y3, y4, y5]
  exact ⟨rfl, rfl, rfl, rfl, rfl⟩

end Style
end RichModel
