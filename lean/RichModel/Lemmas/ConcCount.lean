import RichModel.Lemmas.ConcOut
/-!
C11 — counting `file.write` calls per operation (deepening round 4, target 2).

`writesOf s t i` = number of `file.write` calls thread `t` issued during its `i`-th operation; `nWrites c` = number of
`write` actions in a piece of static code.  Invariant `WC`: the calls issued so far plus the `write` actions still in
the continuation never exceed the `write` actions in the code of the operation — for every schedule.
-/
namespace RichModel.Conc

def isWriteAct : Act → Bool
  | .write => true
  | _ => false

/-- number of `file.write` statements in a piece of code -/
def nWrites (c : List GAct) : Nat := (c.filter (fun g => isWriteAct g.a)).length

/-- number of `file.write` calls thread `t` made during its operation number `i` -/
def writesOf (s : State) (t i : Nat) : Nat := (s.sh.file.filter (fun w => w.tid == t && w.op == i)).length

/-- the `i`-th operation of thread `t`'s program -/
def opAt (progs : List (List Op)) (t i : Nat) : Option Op := ((progs.getD t []).drop i).head?

/-- number of `file.write` statements in the code of the `i`-th operation of thread `t` -/
def budget (cfg : Cfg) (progs : List (List Op)) (t i : Nat) : Nat :=
  match opAt progs t i with
  | some op => nWrites (code cfg op)
  | none => 0

structure WC (cfg : Cfg) (progs : List (List Op)) (s : State) : Prop where
  prog : ∀ t, (s.th t).prog = (progs.getD t []).drop (s.th t).nops
  pos : ∀ t, (s.th t).cont ≠ [] → 1 ≤ (s.th t).nops
  cnt : ∀ t i, writesOf s t i + (if i + 1 = (s.th t).nops then nWrites (s.th t).cont else 0) ≤
      (if i < (s.th t).nops then budget cfg progs t i else 0)

theorem nWrites_cons (g : GAct) (r : List GAct) :
    nWrites (g :: r) = (if isWriteAct g.a then 1 else 0) + nWrites r := by
  simp only [nWrites, List.filter_cons]
  split <;> simp <;> omega

/-- An executed action leaves the program alone and never adds a `write` to the continuation. -/
theorem exec_cont {cfg : Cfg} {t : Nat} {sh sh' : Shared} {l l' : Local} {act : Act} {r : List GAct}
    (he : exec cfg t sh { l with cont := r } act = some (sh', l')) :
    l'.prog = l.prog ∧ nWrites l'.cont ≤ nWrites r := by
  cases act <;> simp only [exec] at he <;> (repeat' split at he) <;>
    first
    | (simp only [Option.some.injEq, Prod.mk.injEq] at he
       obtain ⟨rfl, rfl⟩ := he
       first
         | exact ⟨rfl, Nat.le_refl _⟩
         | exact ⟨rfl, by simp [nWrites, ga, isWriteAct]⟩)
    | (simp at he)

theorem writesOf_file_eq {s s' : State} (h : s'.sh.file = s.sh.file) (t i : Nat) : writesOf s' t i = writesOf s t i := by
  simp [writesOf, h]

theorem wc_init (cfg : Cfg) (sh : Shared) (progs : List (List Op)) (hf : sh.file = []) : WC cfg progs (initState sh progs) := by
  refine ⟨fun t => by simp [initState], fun t h => by simp [initState] at h, fun t i => ?_⟩
  simp [initState, writesOf, hf]

theorem wc_step {cfg : Cfg} {progs : List (List Op)} {s s' : State} {t : Nat} (h : WC cfg progs s)
    (hs : stepT cfg s t = some s') : WC cfg progs s' := by
  unfold stepT at hs
  simp only at hs
  split at hs
  · -- load the next operation
    rename_i hcont
    split at hs
    · simp at hs
    · rename_i op rest hprog
      simp only [Option.some.injEq] at hs
      subst hs
      have hp := h.prog t
      rw [hprog] at hp
      have hrest : rest = (progs.getD t []).drop ((s.th t).nops + 1) := by
        have := congrArg List.tail hp
        simpa [List.tail_drop] using this
      have hop : opAt progs t (s.th t).nops = some op := by
        unfold opAt; rw [← hp]; rfl
      refine ⟨fun u => ?_, fun u hu => ?_, fun u i => ?_⟩
      · by_cases hut : u = t
        · subst hut; simpa [upd] using hrest
        · simpa [upd, hut] using h.prog u
      · by_cases hut : u = t
        · subst hut; simp [upd]
        · simp only [upd, hut, if_false] at hu ⊢; exact h.pos u hu
      · by_cases hut : u = t
        · subst hut
          have hc := h.cnt u i
          rw [hcont] at hc
          simp only [upd, if_true, writesOf] at hc ⊢
          by_cases hi : i = (s.th u).nops
          · subst hi
            simp only [Nat.lt_irrefl, if_false, Nat.le_zero_eq, Nat.add_eq_zero_iff] at hc
            simp [hc.1, budget, hop]
          · have e1 : (i + 1 = (s.th u).nops + 1) = False := by simp; omega
            simp only [e1, if_false]
            by_cases hlt : i < (s.th u).nops
            · have : i < (s.th u).nops + 1 := by omega
              simp only [hlt, this, if_true] at hc ⊢
              omega
            · have : ¬ i < (s.th u).nops + 1 := by omega
              simp only [hlt, this, if_false] at hc ⊢
              omega
        · simpa [upd, hut, writesOf] using h.cnt u i
  · -- an action of the running operation
    rename_i g rest hcont
    have hpos : 1 ≤ (s.th t).nops := h.pos t (by rw [hcont]; simp)
    split at hs
    · -- executed
      rename_i hg
      cases he : exec cfg t s.sh { s.th t with cont := rest } g.a with
      | none => simp [he] at hs
      | some r =>
        obtain ⟨sh', l'⟩ := r
        simp only [he, Option.map_some, Option.some.injEq] at hs
        subst hs
        obtain ⟨hprog, hle⟩ := exec_cont he
        obtain ⟨hn, hout⟩ := exec_out he
        have hfile : sh'.file = s.sh.file ∨
            (isWriteAct g.a = true ∧ sh'.file = s.sh.file ++ [⟨t, (s.th t).nops - 1, (s.th t).buffer⟩]) := by
          rcases hout with ⟨_, _, _, _, hf⟩ | ⟨ha, hf, _⟩ | ⟨_, _, _, _, hf⟩ | ⟨_, _, _, hf⟩
          · exact Or.inl hf
          · split at hf
            · exact Or.inr ⟨by rw [ha]; rfl, hf⟩
            · exact Or.inl hf
          · exact Or.inl hf
          · exact Or.inl hf
        refine ⟨fun u => ?_, fun u hu => ?_, fun u i => ?_⟩
        · by_cases hut : u = t
          · subst hut; simp only [upd, if_true]; rw [hprog, hn]; exact h.prog u
          · simpa [upd, hut] using h.prog u
        · by_cases hut : u = t
          · subst hut; simp only [upd, if_true]; rw [hn]; exact hpos
          · simp only [upd, hut, if_false] at hu ⊢; exact h.pos u hu
        · have hc := h.cnt u i
          by_cases hut : u = t
          · subst hut
            rw [hcont, nWrites_cons] at hc
            simp only [upd, if_true, hn]
            rcases hfile with hf | ⟨hw, hf⟩
            · have : writesOf ⟨sh', upd s.th u l'⟩ u i = writesOf s u i := by simp [writesOf, hf]
              rw [this]
              split at hc <;> rename_i h1 <;> simp only [h1, if_true, if_false] at hc ⊢ <;> omega
            · have : writesOf ⟨sh', upd s.th u l'⟩ u i = writesOf s u i + (if i + 1 = (s.th u).nops then 1 else 0) := by
                simp only [writesOf, hf, List.filter_append, List.length_append, List.filter_cons, List.filter_nil, beq_self_eq_true, Bool.true_and]
                by_cases h1 : i + 1 = (s.th u).nops
                · have : ((s.th u).nops - 1 == i) = true := by simp; omega
                  simp [this, h1]
                · have : ((s.th u).nops - 1 == i) = false := by simp; omega
                  simp [this, h1]
              rw [this]
              simp only [hw, if_true] at hc
              split at hc <;> rename_i h1 <;> simp only [h1, if_true, if_false] at hc ⊢ <;> omega
          · have : writesOf ⟨sh', upd s.th t l'⟩ u i = writesOf s u i := by
              rcases hfile with hf | ⟨_, hf⟩
              · simp [writesOf, hf]
              · have : (t == u) = false := by simp; exact fun e => hut e.symm
                simp [writesOf, hf, List.filter_append, this]
            rw [this]
            simpa [upd, hut] using hc
    · -- guard off: skipped
      simp only [Option.some.injEq] at hs
      subst hs
      refine ⟨fun u => ?_, fun u hu => ?_, fun u i => ?_⟩
      · by_cases hut : u = t
        · subst hut; simpa [upd] using h.prog u
        · simpa [upd, hut] using h.prog u
      · by_cases hut : u = t
        · subst hut; simpa [upd] using hpos
        · simp only [upd, hut, if_false] at hu ⊢; exact h.pos u hu
      · have hc := h.cnt u i
        by_cases hut : u = t
        · subst hut
          rw [hcont, nWrites_cons] at hc
          simp only [upd, if_true, writesOf] at hc ⊢
          split at hc <;> rename_i h1 <;> simp only [h1, if_true, if_false] at hc ⊢ <;> omega
        · simpa [upd, hut, writesOf] using hc

theorem wc_run {cfg : Cfg} {progs : List (List Op)} (sched : List Nat) {s : State} (h : WC cfg progs s) :
    WC cfg progs (run cfg s sched) := by
  induction sched generalizing s with
  | nil => exact h
  | cons t r ih =>
    simp only [run, List.foldl_cons]
    cases hs : stepT cfg s t with
    | none => simpa [run] using ih h
    | some s' => simpa [run] using ih (wc_step h hs)

/-- The code of a print / log (under any display) contains exactly one `file.write` statement. -/
theorem nWrites_print (cfg : Cfg) (ls : List Live.Line) : nWrites (code cfg (.print ls)) = 1 := by
  obtain ⟨kind, w, h, rec, tr, tl⟩ := cfg
  cases kind <;> simp [code, printBody, hookCode, frameCode, flushCode, ga, gh, nWrites, isWriteAct]

/-- A `FileProxy.write` that completes lines: two `_check_buffer` calls, of which only the outer one can write. -/
theorem nWrites_proxyPrint (cfg : Cfg) (ls : List Live.Line) : nWrites (code cfg (.proxyPrint ls)) = 2 := by
  obtain ⟨kind, w, h, rec, tr, tl⟩ := cfg
  cases kind <;> simp [code, printBody, hookCode, frameCode, flushCode, ga, gh, nWrites, isWriteAct]

end RichModel.Conc
