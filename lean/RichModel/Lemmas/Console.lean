import RichModel.Model.Console
import RichModel.Lemmas.Segment
/-! Helper lemmas for `Model/Console`: rendering, the step function, histories. -/
namespace RichModel.Console
open RichModel

variable {σ : Type}

/-! ## what a rendering shows -/

/-- Visible text of a rendering: the text of its non-control pieces (no escape wrappers, no control codes). -/
def visiblePieces (ps : List (Piece σ)) : List Char := (ps.filter (fun p => !p.control)).flatMap (·.text)

/-- Visible text of everything written to the file. -/
def fileVisible (file : List (List (Piece σ))) : List Char := visiblePieces file.flatten

/-- (character, style whose wrapper surrounds it) for the visible characters of a rendering. -/
def pieceStream (ps : List (Piece σ)) : List (Char × Option σ) :=
  (ps.filter (fun p => !p.control)).flatMap (fun p => p.text.map (fun c => (c, p.style)))

/-- The style a segment is shown in: `None` and null styles show as no style. -/
def effStyle (env : StyleEnv σ) : Option σ → Option σ
  | some s => if env.truthy s then some s else none
  | none => none

/-- (character, effective style) for the visible characters of a segment list. -/
def segStream (env : StyleEnv σ) (segs : List (Segment σ)) : List (Char × Option σ) :=
  (segs.filter (fun s => !s.control)).flatMap (fun s => s.text.map (fun c => (c, effStyle env s.style)))

@[simp] theorem visiblePieces_nil : visiblePieces ([] : List (Piece σ)) = [] := rfl
@[simp] theorem visiblePieces_append (a b : List (Piece σ)) :
    visiblePieces (a ++ b) = visiblePieces a ++ visiblePieces b := by simp [visiblePieces]
@[simp] theorem pieceStream_nil : pieceStream ([] : List (Piece σ)) = [] := rfl
@[simp] theorem pieceStream_append (a b : List (Piece σ)) :
    pieceStream (a ++ b) = pieceStream a ++ pieceStream b := by simp [pieceStream]
@[simp] theorem flat_nil : flat ([] : List (Piece σ)) = [] := rfl
@[simp] theorem flat_append (a b : List (Piece σ)) : flat (a ++ b) = flat a ++ flat b := by simp [flat]
@[simp] theorem exportPlain_nil : exportPlain ([] : List (Segment σ)) = [] := rfl
@[simp] theorem exportPlain_append (a b : List (Segment σ)) :
    exportPlain (a ++ b) = exportPlain a ++ exportPlain b := by simp [exportPlain]
@[simp] theorem segStream_nil (env : StyleEnv σ) : segStream env ([] : List (Segment σ)) = [] := rfl
@[simp] theorem segStream_append (env : StyleEnv σ) (a b : List (Segment σ)) :
    segStream env (a ++ b) = segStream env a ++ segStream env b := by simp [segStream]

theorem visiblePieces_cons (p : Piece σ) (ps : List (Piece σ)) :
    visiblePieces (p :: ps) = (if p.control then [] else p.text) ++ visiblePieces ps := by
  unfold visiblePieces
  by_cases h : p.control = true <;> simp [List.filter_cons, h]

theorem pieceStream_cons (p : Piece σ) (ps : List (Piece σ)) :
    pieceStream (p :: ps) = (if p.control then [] else p.text.map (fun c => (c, p.style))) ++ pieceStream ps := by
  unfold pieceStream
  by_cases h : p.control = true <;> simp [List.filter_cons, h]

theorem exportPlain_cons (s : Segment σ) (l : List (Segment σ)) :
    exportPlain (s :: l) = (if s.control then [] else s.text) ++ exportPlain l := by
  unfold exportPlain
  by_cases h : s.control = true <;> simp [List.filter_cons, h]

theorem segStream_cons (env : StyleEnv σ) (s : Segment σ) (l : List (Segment σ)) :
    segStream env (s :: l) =
      (if s.control then [] else s.text.map (fun c => (c, effStyle env s.style))) ++ segStream env l := by
  unfold segStream
  by_cases h : s.control = true <;> simp [List.filter_cons, h]

/-- A rendering that denotes the empty string shows nothing. -/
theorem visible_of_flat_nil (ps : List (Piece σ)) (h : flat ps = []) : visiblePieces ps = [] := by
  induction ps with
  | nil => rfl
  | cons p ps ih =>
    simp only [flat, List.flatMap_cons, List.append_eq_nil_iff, Piece.chars] at h
    rw [visiblePieces_cons, ih (by simpa [flat] using h.2)]
    have : p.text = [] := h.1.1.2
    simp [this]

theorem stream_of_flat_nil (ps : List (Piece σ)) (h : flat ps = []) : pieceStream ps = [] := by
  induction ps with
  | nil => rfl
  | cons p ps ih =>
    simp only [flat, List.flatMap_cons, List.append_eq_nil_iff, Piece.chars] at h
    rw [pieceStream_cons, ih (by simpa [flat] using h.2)]
    have : p.text = [] := h.1.1.2
    simp [this]

/-! ## `_render_buffer` -/

theorem stylePiece_text (pre post : List Char) (plain : Bool) (s : σ) (t : List Char) (c : Bool) :
    (stylePiece pre post plain s t c).text = t := by
  unfold stylePiece; split <;> rfl

theorem stylePiece_control (pre post : List Char) (plain : Bool) (s : σ) (t : List Char) (c : Bool) :
    (stylePiece pre post plain s t c).control = c := by
  unfold stylePiece; split <;> rfl

/-- Whatever the configuration, a rendered segment shows its text iff it is not a control segment. -/
theorem renderSeg_visible (cfg : Config) (env : StyleEnv σ) (seg : Segment σ) :
    visiblePieces (renderSeg cfg env seg).toList = if seg.control then [] else seg.text := by
  unfold renderSeg
  by_cases hd : (!cfg.isTerminal && seg.control) = true
  · rw [if_pos hd]; simp only [Bool.and_eq_true] at hd; simp [hd.2]
  · simp only [hd, Bool.false_eq_true, if_false]
    cases hs : seg.style with
    | none => by_cases hc : seg.control = true <;> simp [hc, visiblePieces_cons]
    | some s =>
      by_cases htr : env.truthy s = true <;> by_cases hc : seg.control = true <;>
        simp [htr, hc, visiblePieces_cons, stylePiece_text, stylePiece_control]

/-- The raw loop of `_render_buffer` shows exactly the text of the non-control segments. -/
theorem filterMap_renderSeg_visible (cfg : Config) (env : StyleEnv σ) (buf : List (Segment σ)) :
    visiblePieces (buf.filterMap (renderSeg cfg env)) = exportPlain buf := by
  induction buf with
  | nil => rfl
  | cons seg buf ih =>
    rw [exportPlain_cons, ← renderSeg_visible cfg env seg, ← ih]
    cases h : renderSeg cfg env seg <;> simp [List.filterMap_cons, h, visiblePieces_cons]

theorem exportPlain_removeColor (env : StyleEnv σ) (buf : List (Segment σ)) :
    exportPlain (removeColor env buf) = exportPlain buf := by
  induction buf with
  | nil => rfl
  | cons seg buf ih =>
    simp only [removeColor, List.map_cons] at ih ⊢
    rw [exportPlain_cons, exportPlain_cons, ih]
    congr 1
    cases seg.style with
    | none => rfl
    | some s => simp only; split <;> rfl

/-- **What reaches the file shows exactly the non-control text of the buffer** — for every colour system,
terminal or not, NO_COLOR or not. -/
theorem renderPieces_visible (cfg : Config) (env : StyleEnv σ) (buf : List (Segment σ)) :
    visiblePieces (renderPieces cfg env buf) = exportPlain buf := by
  unfold renderPieces
  simp only
  split
  · rw [filterMap_renderSeg_visible, exportPlain_removeColor]
  · exact filterMap_renderSeg_visible cfg env buf

theorem renderPieces_append (cfg : Config) (env : StyleEnv σ) (a b : List (Segment σ)) :
    renderPieces cfg env (a ++ b) = renderPieces cfg env a ++ renderPieces cfg env b := by
  unfold renderPieces
  simp only
  split <;> simp [removeColor, List.filterMap_append]

@[simp] theorem renderPieces_nil (cfg : Config) (env : StyleEnv σ) : renderPieces cfg env ([] : List (Segment σ)) = [] := by
  unfold renderPieces; simp [removeColor]

/-- With a colour system, a rendered segment carries its characters in its effective style. -/
theorem renderSeg_stream (cfg : Config) (env : StyleEnv σ) (seg : Segment σ) (hc : cfg.colorNone = false) :
    pieceStream (renderSeg cfg env seg).toList =
      if seg.control then [] else seg.text.map (fun c => (c, effStyle env seg.style)) := by
  unfold renderSeg
  by_cases hd : (!cfg.isTerminal && seg.control) = true
  · rw [if_pos hd]; simp only [Bool.and_eq_true] at hd; simp [hd.2]
  · simp only [hd, Bool.false_eq_true, if_false]
    cases hs : seg.style with
    | none => by_cases hctl : seg.control = true <;> simp [hctl, pieceStream_cons, effStyle]
    | some s =>
      by_cases htr : env.truthy s = true
      · by_cases hctl : seg.control = true
        · simp [htr, hctl, pieceStream_cons, stylePiece_control]
        · simp only [htr, if_true, Option.toList_some, pieceStream_cons, stylePiece_control, hctl,
            Bool.false_eq_true, if_false, pieceStream_nil, List.append_nil, effStyle, hc]
          unfold stylePiece
          by_cases hte : seg.text = []
          · simp [hte]
          · have : seg.text.isEmpty = false := by simpa using hte
            simp [this]
      · by_cases hctl : seg.control = true <;> simp [htr, hctl, pieceStream_cons, effStyle]

theorem filterMap_renderSeg_stream (cfg : Config) (env : StyleEnv σ) (buf : List (Segment σ))
    (hc : cfg.colorNone = false) :
    pieceStream (buf.filterMap (renderSeg cfg env)) = segStream env buf := by
  induction buf with
  | nil => rfl
  | cons seg buf ih =>
    rw [segStream_cons, ← renderSeg_stream cfg env seg hc, ← ih]
    cases h : renderSeg cfg env seg <;> simp [List.filterMap_cons, h, pieceStream_cons]

/-- With colour on, the file carries every visible character in the style of its segment. -/
theorem renderPieces_stream (cfg : Config) (env : StyleEnv σ) (buf : List (Segment σ))
    (hc : cfg.colorNone = false) (hn : cfg.noColor = false) :
    pieceStream (renderPieces cfg env buf) = segStream env buf := by
  unfold renderPieces
  simp only [hn, Bool.false_and, Bool.false_eq_true, if_false]
  exact filterMap_renderSeg_stream cfg env buf hc

/-- Without a colour system (`color_system=None`) `style.render` returns the bare text: the file carries the
visible characters with no style at all. -/
theorem renderSeg_stream_plain (cfg : Config) (env : StyleEnv σ) (seg : Segment σ) (hc : cfg.colorNone = true) :
    pieceStream (renderSeg cfg env seg).toList =
      if seg.control then [] else seg.text.map (fun c => (c, none)) := by
  unfold renderSeg
  by_cases hd : (!cfg.isTerminal && seg.control) = true
  · rw [if_pos hd]; simp only [Bool.and_eq_true] at hd; simp [hd.2]
  · simp only [hd, Bool.false_eq_true, if_false]
    cases hs : seg.style with
    | none => by_cases hctl : seg.control = true <;> simp [hctl, pieceStream_cons]
    | some s =>
      by_cases htr : env.truthy s = true <;> by_cases hctl : seg.control = true <;>
        simp [htr, hctl, pieceStream_cons, stylePiece, hc]

theorem renderPieces_stream_plain (cfg : Config) (env : StyleEnv σ) (buf : List (Segment σ))
    (hc : cfg.colorNone = true) :
    pieceStream (renderPieces cfg env buf) = (segStream env buf).map (fun p => (p.1, none)) := by
  unfold renderPieces
  simp only [hc, Bool.not_true, Bool.and_false, Bool.false_eq_true, if_false]
  induction buf with
  | nil => rfl
  | cons seg buf ih =>
    rw [segStream_cons, List.map_append, ← ih]
    have h1 := renderSeg_stream_plain cfg env seg hc
    cases h : renderSeg cfg env seg with
    | none =>
      rw [h] at h1
      simp only [List.filterMap_cons, h]
      by_cases hctl : seg.control = true
      · simp [hctl]
      · simp only [hctl, Bool.false_eq_true, if_false, Option.toList_none, pieceStream_nil] at h1
        simp only [hctl, Bool.false_eq_true, if_false, List.map_map]
        rw [show (List.map ((fun p : Char × Option σ => (p.1, (none : Option σ))) ∘ fun c => (c, effStyle env seg.style)) seg.text)
            = seg.text.map (fun c => (c, none)) from by simp [Function.comp_def], ← h1]
        rfl
    | some p =>
      rw [h] at h1
      simp only [List.filterMap_cons, h, pieceStream_cons]
      simp only [Option.toList_some, pieceStream_cons, pieceStream_nil, List.append_nil] at h1
      rw [h1]
      by_cases hctl : seg.control = true
      · simp [hctl]
      · simp [hctl, Function.comp_def]

/-- Under NO_COLOR (with a colour system) the file carries every visible character in the colourless version of
its segment's style: `_render_buffer` renders `Segment.remove_color(buffer)`. -/
theorem renderPieces_stream_noColor (cfg : Config) (env : StyleEnv σ) (buf : List (Segment σ))
    (hc : cfg.colorNone = false) (hn : cfg.noColor = true) :
    pieceStream (renderPieces cfg env buf) = segStream env (removeColor env buf) := by
  unfold renderPieces
  simp only [hn, hc, Bool.not_false, Bool.and_self, if_true]
  exact filterMap_renderSeg_stream cfg env _ hc

theorem removeColor_append (env : StyleEnv σ) (a b : List (Segment σ)) :
    removeColor env (a ++ b) = removeColor env a ++ removeColor env b := by
  simp [removeColor]

/-- The styled export carries every visible character in the style of its segment. -/
theorem exportStyledPieces_stream (env : StyleEnv σ) (rec : List (Segment σ)) :
    pieceStream (exportStyledPieces env rec) = segStream env rec := by
  induction rec with
  | nil => rfl
  | cons seg rec ih =>
    simp only [exportStyledPieces, List.map_cons] at ih ⊢
    rw [pieceStream_cons, segStream_cons, ih]
    congr 1
    cases hs : seg.style with
    | none => simp [effStyle]
    | some s =>
      simp only [effStyle]
      by_cases htr : env.truthy s = true
      · simp only [htr, if_true, stylePiece_control]
        by_cases hctl : seg.control = true
        · simp [hctl]
        · simp only [hctl, Bool.false_eq_true, if_false]
          unfold stylePiece
          by_cases hte : seg.text = []
          · simp [hte]
          · have : seg.text.isEmpty = false := by simpa using hte
            simp [this]
      · simp [htr]

theorem exportStyledPieces_visible (env : StyleEnv σ) (rec : List (Segment σ)) :
    visiblePieces (exportStyledPieces env rec) = exportPlain rec := by
  induction rec with
  | nil => rfl
  | cons seg rec ih =>
    simp only [exportStyledPieces, List.map_cons] at ih ⊢
    rw [visiblePieces_cons, exportPlain_cons, ih]
    congr 1
    cases hs : seg.style with
    | none => rfl
    | some s =>
      simp only
      by_cases htr : env.truthy s = true
      · simp [htr, stylePiece_control, stylePiece_text]
      · simp [htr]

/-! ## the file as a function of the flushed buffers -/

/-- What flushing the buffers `bufs` (in order) adds to the file: their renderings, empty strings skipped. -/
def written (cfg : Config) (env : StyleEnv σ) (bufs : List (List (Segment σ))) : List (List (Piece σ)) :=
  (bufs.map (renderPieces cfg env)).filter (fun ps => !(flat ps).isEmpty)

@[simp] theorem written_nil (cfg : Config) (env : StyleEnv σ) : written cfg env ([] : List (List (Segment σ))) = [] := rfl

theorem written_append (cfg : Config) (env : StyleEnv σ) (a b : List (List (Segment σ))) :
    written cfg env (a ++ b) = written cfg env a ++ written cfg env b := by
  simp [written]

theorem written_cons (cfg : Config) (env : StyleEnv σ) (b : List (Segment σ)) (bs : List (List (Segment σ))) :
    written cfg env (b :: bs) =
      (if (flat (renderPieces cfg env b)).isEmpty then [] else [renderPieces cfg env b]) ++ written cfg env bs := by
  unfold written
  by_cases h : (flat (renderPieces cfg env b)).isEmpty = true <;> simp [List.filter_cons, h]

theorem fileVisible_written (cfg : Config) (env : StyleEnv σ) (bufs : List (List (Segment σ))) :
    fileVisible (written cfg env bufs) = exportPlain bufs.flatten := by
  induction bufs with
  | nil => rfl
  | cons b bs ih =>
    rw [written_cons]
    unfold fileVisible at ih ⊢
    rw [List.flatten_append, visiblePieces_append, ih, List.flatten_cons, exportPlain_append]
    congr 1
    split
    · rename_i h
      have h0 : flat (renderPieces cfg env b) = [] := by simpa using h
      have := visible_of_flat_nil _ h0
      rw [renderPieces_visible] at this
      simp [this]
    · simp [renderPieces_visible]

theorem pieceStream_written (cfg : Config) (env : StyleEnv σ) (bufs : List (List (Segment σ)))
    (hc : cfg.colorNone = false) (hn : cfg.noColor = false) :
    pieceStream (written cfg env bufs).flatten = segStream env bufs.flatten := by
  induction bufs with
  | nil => rfl
  | cons b bs ih =>
    rw [written_cons, List.flatten_append, pieceStream_append, ih, List.flatten_cons, segStream_append]
    congr 1
    split
    · rename_i h
      have h0 : flat (renderPieces cfg env b) = [] := by simpa using h
      have := stream_of_flat_nil _ h0
      rw [renderPieces_stream cfg env b hc hn] at this
      simp [this]
    · simp [renderPieces_stream cfg env b hc hn]

/-- General form: any additive reading `F` of a buffer that the rendering realises. -/
theorem pieceStream_written_gen (cfg : Config) (env : StyleEnv σ) (F : List (Segment σ) → List (Char × Option σ))
    (hF0 : F [] = []) (hFa : ∀ a b, F (a ++ b) = F a ++ F b)
    (hF : ∀ b, pieceStream (renderPieces cfg env b) = F b) (bufs : List (List (Segment σ))) :
    pieceStream (written cfg env bufs).flatten = F bufs.flatten := by
  induction bufs with
  | nil => simp [hF0]
  | cons b bs ih =>
    rw [written_cons, List.flatten_append, pieceStream_append, ih, List.flatten_cons, hFa]
    congr 1
    split
    · rename_i h
      have h0 : flat (renderPieces cfg env b) = [] := by simpa using h
      have := stream_of_flat_nil _ h0
      rw [hF b] at this
      simp [this]
    · simp [hF b]

theorem flat_written (cfg : Config) (env : StyleEnv σ) (bufs : List (List (Segment σ))) :
    flat (written cfg env bufs).flatten = flat (renderPieces cfg env bufs.flatten) := by
  induction bufs with
  | nil => simp
  | cons b bs ih =>
    rw [written_cons, List.flatten_append, flat_append, ih, List.flatten_cons, renderPieces_append, flat_append]
    congr 1
    split
    · rename_i h
      have : flat (renderPieces cfg env b) = [] := by simpa using h
      simp [this]
    · simp

/-! ## steps -/

/-- `s'` extends `s` by flushing some buffers: the record grew by exactly those buffers and the file by exactly
their (non-empty) renderings, in the same order. -/
def Tracks (cfg : Config) (env : StyleEnv σ) (s s' : State σ) : Prop :=
  ∃ bufs : List (List (Segment σ)), s'.record = s.record ++ bufs.flatten ∧ s'.file = s.file ++ written cfg env bufs

theorem Tracks.refl (cfg : Config) (env : StyleEnv σ) (s : State σ) : Tracks cfg env s s :=
  ⟨[], by simp, by simp⟩

theorem Tracks.of_eq (cfg : Config) (env : StyleEnv σ) {s s' : State σ} (hr : s'.record = s.record) (hf : s'.file = s.file) :
    Tracks cfg env s s' := ⟨[], by simp [hr], by simp [hf]⟩

theorem Tracks.trans {cfg : Config} {env : StyleEnv σ} {a b c : State σ}
    (h1 : Tracks cfg env a b) (h2 : Tracks cfg env b c) : Tracks cfg env a c := by
  obtain ⟨b1, r1, f1⟩ := h1
  obtain ⟨b2, r2, f2⟩ := h2
  exact ⟨b1 ++ b2, by simp [r2, r1], by simp [f2, f1, written_append]⟩

/-- `_check_buffer` in the repaired variant on a recording console. -/
theorem checkBuffer_tracks (v : Variant) (cfg : Config) (env : StyleEnv σ) (s : State σ)
    (hv : v.recordInRender = false) (hr : cfg.record = true) :
    Tracks cfg env s (checkBuffer v cfg env s) := by
  unfold checkBuffer
  split
  · refine ⟨[s.buffer], ?_, ?_⟩
    · simp [renderBuffer, hv, hr]
    · simp only [renderBuffer, written_cons, written_nil, List.append_nil]
      by_cases h : (flat (renderPieces cfg env s.buffer)).isEmpty = true <;> simp [h]
  · exact Tracks.refl cfg env s

theorem checkBuffer_index (v : Variant) (cfg : Config) (env : StyleEnv σ) (s : State σ) :
    (checkBuffer v cfg env s).index = s.index := by
  unfold checkBuffer; split <;> rfl

theorem control_tracks (v : Variant) (cfg : Config) (env : StyleEnv σ) (s : State σ) (codes : List Char)
    (hv : v.recordInRender = false) (hr : cfg.record = true) :
    Tracks cfg env s (control v cfg env s codes) := by
  unfold control
  split
  · exact (Tracks.of_eq cfg env rfl rfl).trans (checkBuffer_tracks v cfg env _ hv hr)
  · exact Tracks.refl cfg env s

/-- Exports that empty the record. -/
def isClearing : Op σ → Bool
  | .exportText clr _ => clr
  | .exportHtml clr _ _ => clr
  | _ => false

variable [BEq σ]

/-- Every operation other than a clearing export extends the record and the file in step. -/
theorem step_tracks (v : Variant) (cfg : Config) (env : StyleEnv σ) (s : State σ) (op : Op σ)
    (hv : v.recordInRender = false) (hr : cfg.record = true) (hop : isClearing op = false) :
    Tracks cfg env s (step v cfg env s op).1 := by
  cases op with
  | print segs =>
    exact (Tracks.of_eq cfg env rfl rfl).trans (checkBuffer_tracks v cfg env _ hv hr)
  | line count =>
    simp only [step]
    split
    · exact (Tracks.of_eq cfg env rfl rfl).trans (checkBuffer_tracks v cfg env _ hv hr)
    · exact Tracks.refl cfg env s
  | control codes => exact control_tracks v cfg env s codes hv hr
  | bell => exact control_tracks v cfg env s _ hv hr
  | clear home => exact control_tracks v cfg env s _ hv hr
  | showCursor sh =>
    simp only [step]
    split
    · exact control_tracks v cfg env s _ hv hr
    · exact Tracks.refl cfg env s
  | beginCapture => exact Tracks.of_eq cfg env rfl rfl
  | endCapture =>
    simp only [step]
    refine Tracks.trans ?_ (checkBuffer_tracks v cfg env _ hv hr)
    exact Tracks.of_eq cfg env (by simp [renderBuffer, hv]) rfl
  | enterBuffer => exact Tracks.of_eq cfg env rfl rfl
  | exitBuffer =>
    simp only [step]
    refine Tracks.trans ?_ (checkBuffer_tracks v cfg env _ hv hr)
    exact Tracks.of_eq cfg env rfl rfl
  | exportText clr styles =>
    simp only [isClearing] at hop
    simp only [step, hr, hop]
    exact Tracks.of_eq cfg env rfl rfl
  | exportHtml clr inline o =>
    simp only [isClearing] at hop
    simp only [step, hr, hop]
    exact Tracks.of_eq cfg env rfl rfl

theorem exec_nil (v : Variant) (cfg : Config) (env : StyleEnv σ) (s : State σ) : exec v cfg env [] s = s := rfl

theorem exec_cons (v : Variant) (cfg : Config) (env : StyleEnv σ) (op : Op σ) (ops : List (Op σ)) (s : State σ) :
    exec v cfg env (op :: ops) s = exec v cfg env ops (step v cfg env s op).1 := rfl

theorem exec_append (v : Variant) (cfg : Config) (env : StyleEnv σ) (a b : List (Op σ)) (s : State σ) :
    exec v cfg env (a ++ b) s = exec v cfg env b (exec v cfg env a s) := by
  induction a generalizing s with
  | nil => rfl
  | cons op a ih => simp only [List.cons_append, exec_cons, ih]

/-- A history without clearing exports extends the record and the file in step. -/
theorem exec_tracks (v : Variant) (cfg : Config) (env : StyleEnv σ) (ops : List (Op σ)) (s : State σ)
    (hv : v.recordInRender = false) (hr : cfg.record = true) (hops : ops.all (fun op => !isClearing op) = true) :
    Tracks cfg env s (exec v cfg env ops s) := by
  induction ops generalizing s with
  | nil => exact Tracks.refl cfg env s
  | cons op ops ih =>
    simp only [List.all_cons, Bool.and_eq_true, Bool.not_eq_true'] at hops
    rw [exec_cons]
    exact (step_tracks v cfg env s op hv hr hops.1).trans (ih _ hops.2)

/-! ## capture -/

/-- The segments an operation appends to the thread's buffer. -/
def appended (cfg : Config) : Op σ → List (Segment σ)
  | .print segs => segs
  | .line count => if count != 0 then [{ text := List.replicate count '\n', style := none, control := false }] else []
  | .control codes => if !cfg.isDumbTerminal then [{ text := codes, style := none, control := true }] else []
  | .bell => if !cfg.isDumbTerminal then [{ text := ['\x07'], style := none, control := true }] else []
  | .clear home =>
    if !cfg.isDumbTerminal then
      [{ text := if home then "\x1b[2J\x1b[H".toList else "\x1b[2J".toList, style := none, control := true }] else []
  | .showCursor sh =>
    if cfg.isTerminal && !cfg.legacyWindows then
      if !cfg.isDumbTerminal then
        [{ text := if sh then "\x1b[?25h".toList else "\x1b[?25l".toList, style := none, control := true }] else []
    else []
  | _ => []

/-- Operations that change the nesting depth: begin_capture / end_capture, and entering / leaving `with console:`. -/
def isCapture : Op σ → Bool
  | .beginCapture => true
  | .endCapture => true
  | .enterBuffer => true
  | .exitBuffer => true
  | _ => false

/-- entering / leaving `with console:` -/
def isBufferCtx : Op σ → Bool
  | .enterBuffer => true
  | .exitBuffer => true
  | _ => false

theorem checkBuffer_inside (v : Variant) (cfg : Config) (env : StyleEnv σ) (s : State σ) (h : s.index ≠ 0) :
    checkBuffer v cfg env s = s := by
  unfold checkBuffer
  have : (s.index == 0) = false := by simpa using h
  simp [this]

/-- Inside a capture block (depth ≠ 0) an operation only appends to the buffer: nothing reaches the file. -/
theorem step_inside (v : Variant) (cfg : Config) (env : StyleEnv σ) (s : State σ) (op : Op σ)
    (hi : s.index ≠ 0) (hop : isCapture op = false) :
    (step v cfg env s op).1.buffer = s.buffer ++ appended cfg op ∧
    (step v cfg env s op).1.index = s.index ∧ (step v cfg env s op).1.file = s.file := by
  have hctl : ∀ codes, (control v cfg env s codes).buffer =
      s.buffer ++ (if !cfg.isDumbTerminal then [{ text := codes, style := none, control := true }] else []) ∧
      (control v cfg env s codes).index = s.index ∧ (control v cfg env s codes).file = s.file := by
    intro codes
    unfold control
    split
    · rw [checkBuffer_inside _ _ _ _ (by exact hi)]
      exact ⟨rfl, rfl, rfl⟩
    · simp
  cases op with
  | print segs =>
    simp only [step, appended]
    have e : s.index + 1 - 1 = s.index := by omega
    rw [checkBuffer_inside _ _ _ _ (by simpa [e] using hi)]
    exact ⟨rfl, e, rfl⟩
  | line count =>
    simp only [step, appended]
    split
    · rw [checkBuffer_inside _ _ _ _ (by exact hi)]
      exact ⟨rfl, rfl, rfl⟩
    · simp
  | control codes => exact hctl codes
  | bell => exact hctl _
  | clear home => exact hctl _
  | showCursor sh =>
    simp only [step, appended]
    split
    · exact hctl _
    · simp
  | beginCapture => simp [isCapture] at hop
  | endCapture => simp [isCapture] at hop
  | enterBuffer => simp [isCapture] at hop
  | exitBuffer => simp [isCapture] at hop
  | exportText clr styles =>
    simp only [step, appended]
    split <;> simp
  | exportHtml clr inline o =>
    simp only [step, appended]
    split <;> simp

/-- Inside a capture block nothing is appended to the record (in either variant); only a clearing export changes it. -/
theorem step_inside_record (v : Variant) (cfg : Config) (env : StyleEnv σ) (s : State σ) (op : Op σ)
    (hi : s.index ≠ 0) (hop : isCapture op = false) (hcl : isClearing op = false) :
    (step v cfg env s op).1.record = s.record := by
  have hctl : ∀ codes, (Console.control v cfg env s codes).record = s.record := by
    intro codes
    unfold Console.control
    split
    · rw [checkBuffer_inside _ _ _ _ (by exact hi)]
    · rfl
  cases op with
  | print segs =>
    simp only [step]
    have e : s.index + 1 - 1 = s.index := by omega
    rw [checkBuffer_inside _ _ _ _ (by simpa [e] using hi)]
  | line count =>
    simp only [step]
    split
    · rw [checkBuffer_inside _ _ _ _ (by exact hi)]
    · rfl
  | control codes => exact hctl codes
  | bell => exact hctl _
  | clear home => exact hctl _
  | showCursor sh =>
    simp only [step]
    split
    · exact hctl _
    · rfl
  | beginCapture => simp [isCapture] at hop
  | endCapture => simp [isCapture] at hop
  | enterBuffer => simp [isCapture] at hop
  | exitBuffer => simp [isCapture] at hop
  | exportText clr styles =>
    simp only [isClearing] at hcl
    simp only [step, hcl]
    split <;> simp
  | exportHtml clr inline o =>
    simp only [isClearing] at hcl
    simp only [step, hcl]
    split <;> simp

theorem exec_inside_record (v : Variant) (cfg : Config) (env : StyleEnv σ) (ops : List (Op σ)) (s : State σ)
    (hi : s.index ≠ 0) (hops : ops.all (fun op => !isCapture op) = true)
    (hcl : ops.all (fun op => !isClearing op) = true) :
    (exec v cfg env ops s).record = s.record := by
  induction ops generalizing s with
  | nil => rfl
  | cons op ops ih =>
    simp only [List.all_cons, Bool.and_eq_true, Bool.not_eq_true'] at hops hcl
    rw [exec_cons, ih _ (by rw [(step_inside v cfg env s op hi hops.1).2.1]; exact hi) hops.2 hcl.2]
    exact step_inside_record v cfg env s op hi hops.1 hcl.1

theorem checkBuffer_outside (v : Variant) (cfg : Config) (env : StyleEnv σ) (s : State σ) (h : s.index = 0) :
    (checkBuffer v cfg env s).buffer = [] ∧ (checkBuffer v cfg env s).index = 0 ∧
    (checkBuffer v cfg env s).file = s.file ++ written cfg env [s.buffer] := by
  unfold checkBuffer
  have : (s.index == 0) = true := by simpa using h
  simp only [this, if_true, renderBuffer, written_cons, written_nil, List.append_nil]
  refine ⟨trivial, h, ?_⟩
  by_cases h2 : (flat (renderPieces cfg env s.buffer)).isEmpty = true <;> simp [h2]

/-- Outside any capture block, with an empty buffer, an operation writes what it appended. -/
theorem step_outside (v : Variant) (cfg : Config) (env : StyleEnv σ) (s : State σ) (op : Op σ)
    (hi : s.index = 0) (hb : s.buffer = []) (hop : isCapture op = false) :
    (step v cfg env s op).1.buffer = [] ∧ (step v cfg env s op).1.index = 0 ∧
    (step v cfg env s op).1.file = s.file ++ written cfg env [appended cfg op] := by
  have hw : written cfg env [([] : List (Segment σ))] = [] := by simp [written_cons]
  have hctl : ∀ codes, (control v cfg env s codes).buffer = [] ∧ (control v cfg env s codes).index = 0 ∧
      (control v cfg env s codes).file = s.file ++ written cfg env
        [if !cfg.isDumbTerminal then [{ text := codes, style := none, control := true }] else []] := by
    intro codes
    unfold control
    split
    · have := checkBuffer_outside v cfg env { s with buffer := s.buffer ++ [{ text := codes, style := none, control := true }] } hi
      simpa [hb] using this
    · simp [hb, hi, hw]
  cases op with
  | print segs =>
    simp only [step, appended]
    have e : s.index + 1 - 1 = 0 := by omega
    have := checkBuffer_outside v cfg env
      { s with index := s.index + 1 - 1, buffer := s.buffer ++ segs } e
    simpa [hb] using this
  | line count =>
    simp only [step, appended]
    split
    · have := checkBuffer_outside v cfg env
        { s with buffer := s.buffer ++ [{ text := List.replicate count '\n', style := none, control := false }] } hi
      simpa [hb] using this
    · simp [hb, hi, hw]
  | control codes => exact hctl codes
  | bell => exact hctl _
  | clear home => exact hctl _
  | showCursor sh =>
    simp only [step, appended]
    split
    · exact hctl _
    · simp [hb, hi, hw]
  | beginCapture => simp [isCapture] at hop
  | endCapture => simp [isCapture] at hop
  | enterBuffer => simp [isCapture] at hop
  | exitBuffer => simp [isCapture] at hop
  | exportText clr styles =>
    simp only [step, appended]
    split <;> simp [hb, hi, hw]
  | exportHtml clr inline o =>
    simp only [step, appended]
    split <;> simp [hb, hi, hw]

theorem exec_inside (v : Variant) (cfg : Config) (env : StyleEnv σ) (ops : List (Op σ)) (s : State σ)
    (hi : s.index ≠ 0) (hops : ops.all (fun op => !isCapture op) = true) :
    (exec v cfg env ops s).buffer = s.buffer ++ ops.flatMap (appended cfg) ∧
    (exec v cfg env ops s).index = s.index ∧ (exec v cfg env ops s).file = s.file := by
  induction ops generalizing s with
  | nil => simp [exec_nil]
  | cons op ops ih =>
    simp only [List.all_cons, Bool.and_eq_true, Bool.not_eq_true'] at hops
    obtain ⟨hb, hx, hf⟩ := step_inside v cfg env s op hi hops.1
    rw [exec_cons]
    obtain ⟨hb2, hx2, hf2⟩ := ih (step v cfg env s op).1 (by rw [hx]; exact hi) hops.2
    refine ⟨?_, ?_, ?_⟩
    · rw [hb2, hb]; simp
    · rw [hx2, hx]
    · rw [hf2, hf]

theorem exec_outside (v : Variant) (cfg : Config) (env : StyleEnv σ) (ops : List (Op σ)) (s : State σ)
    (hi : s.index = 0) (hb : s.buffer = []) (hops : ops.all (fun op => !isCapture op) = true) :
    (exec v cfg env ops s).buffer = [] ∧ (exec v cfg env ops s).index = 0 ∧
    (exec v cfg env ops s).file = s.file ++ written cfg env (ops.map (appended cfg)) := by
  induction ops generalizing s with
  | nil => simp [exec_nil, hi, hb]
  | cons op ops ih =>
    simp only [List.all_cons, Bool.and_eq_true, Bool.not_eq_true'] at hops
    obtain ⟨hb1, hx1, hf1⟩ := step_outside v cfg env s op hi hb hops.1
    rw [exec_cons]
    obtain ⟨hb2, hx2, hf2⟩ := ih (step v cfg env s op).1 hx1 hb1 hops.2
    refine ⟨hb2, hx2, ?_⟩
    rw [hf2, hf1, List.map_cons, List.append_assoc, ← written_append]
    rfl

/-- Operations other than begin/end capture never touch the capture marks. -/
theorem checkBuffer_marks (v : Variant) (cfg : Config) (env : StyleEnv σ) (s : State σ) :
    (checkBuffer v cfg env s).marks = s.marks := by
  unfold checkBuffer; split <;> rfl

theorem step_marks (v : Variant) (cfg : Config) (env : StyleEnv σ) (s : State σ) (op : Op σ)
    (hop : isCapture op = false) : (step v cfg env s op).1.marks = s.marks := by
  have hctl : ∀ codes, (Console.control v cfg env s codes).marks = s.marks := by
    intro codes
    unfold Console.control
    split
    · rw [checkBuffer_marks]
    · rfl
  cases op with
  | print segs => simp only [step]; rw [checkBuffer_marks]
  | line count =>
    simp only [step]
    split
    · rw [checkBuffer_marks]
    · rfl
  | control codes => exact hctl codes
  | bell => exact hctl _
  | clear home => exact hctl _
  | showCursor sh =>
    simp only [step]
    split
    · exact hctl _
    · rfl
  | beginCapture => simp [isCapture] at hop
  | endCapture => simp [isCapture] at hop
  | enterBuffer => simp [isCapture] at hop
  | exitBuffer => simp [isCapture] at hop
  | exportText clr styles => simp only [step]; split <;> rfl
  | exportHtml clr inline o => simp only [step]; split <;> rfl

theorem exec_marks (v : Variant) (cfg : Config) (env : StyleEnv σ) (ops : List (Op σ)) (s : State σ)
    (hops : ops.all (fun op => !isCapture op) = true) : (exec v cfg env ops s).marks = s.marks := by
  induction ops generalizing s with
  | nil => rfl
  | cons op ops ih =>
    simp only [List.all_cons, Bool.and_eq_true, Bool.not_eq_true'] at hops
    rw [exec_cons, ih _ hops.2, step_marks v cfg env s op hops.1]

/-! ## several consoles -/

/-- Several consoles alive together: console `k` has its own configuration, style table and state; an operation is
addressed to one console. -/
def multiStep (v : Variant) (cfgs : Nat → Config) (envs : Nat → StyleEnv σ) (sts : Nat → State σ)
    (k : Nat) (op : Op σ) : (Nat → State σ) × Out :=
  let r := step v (cfgs k) (envs k) (sts k) op
  (fun j => if j = k then r.1 else sts j, r.2)

/-- An interleaved history: (console, operation) pairs; answers tagged with their console. -/
def multiRun (v : Variant) (cfgs : Nat → Config) (envs : Nat → StyleEnv σ) :
    List (Nat × Op σ) → (Nat → State σ) → (Nat → State σ) × List (Nat × Out)
  | [], sts => (sts, [])
  | (k, op) :: rest, sts =>
    let r := multiStep v cfgs envs sts k op
    let r2 := multiRun v cfgs envs rest r.1
    (r2.1, (k, r.2) :: r2.2)

/-- the operations addressed to console `k`, in order -/
def projOps (k : Nat) (sched : List (Nat × Op σ)) : List (Op σ) :=
  (sched.filter (fun p => p.1 == k)).map (·.2)

/-- the answers console `k` got, in order -/
def projOuts (k : Nat) (outs : List (Nat × Out)) : List Out :=
  (outs.filter (fun p => p.1 == k)).map (·.2)

/-- **Consoles do not interfere**: in any interleaving, every console ends in the state, and gets the answers, of
its own history run alone — record, file, buffer, capture depth, exports and captures alike. -/
theorem multiRun_proj (v : Variant) (cfgs : Nat → Config) (envs : Nat → StyleEnv σ) :
    ∀ (sched : List (Nat × Op σ)) (sts : Nat → State σ) (k : Nat),
      (multiRun v cfgs envs sched sts).1 k = (run v (cfgs k) (envs k) (projOps k sched) (sts k)).1 ∧
      projOuts k (multiRun v cfgs envs sched sts).2 = (run v (cfgs k) (envs k) (projOps k sched) (sts k)).2
  | [], sts, k => ⟨rfl, rfl⟩
  | (j, op) :: rest, sts, k => by
    obtain ⟨h1, h2⟩ := multiRun_proj v cfgs envs rest (multiStep v cfgs envs sts j op).1 k
    by_cases hjk : j = k
    · subst hjk
      simp only [multiRun, projOps, projOuts, List.filter_cons, beq_self_eq_true, if_true, List.map_cons, run]
      simp only [projOps, projOuts] at h1 h2
      rw [h1, h2]
      simp [multiStep]
    · have hb : (j == k) = false := by simpa using hjk
      simp only [multiRun, projOps, projOuts, List.filter_cons, hb, Bool.false_eq_true, if_false]
      simp only [projOps, projOuts] at h1 h2
      rw [h1, h2]
      have : (multiStep v cfgs envs sts j op).1 k = sts k := by
        simp only [multiStep]
        have : ¬ k = j := fun e => hjk e.symm
        simp [this]
      rw [this]
      exact ⟨rfl, rfl⟩

/-! ## reachable states -/

/-- Capture blocks are never closed more often than opened (`d` = current depth). -/
def wellNested : Nat → List (Op σ) → Bool
  | _, [] => true
  | d, .beginCapture :: rest => wellNested (d + 1) rest
  | d, .endCapture :: rest => d != 0 && wellNested (d - 1) rest
  | _, .enterBuffer :: _ => false   -- `with console:` blocks are outside the nesting statements
  | _, .exitBuffer :: _ => false
  | d, _ :: rest => wellNested d rest

/-- Outside every capture block the thread's buffer is empty. -/
def OutsideEmpty (s : State σ) (d : Nat) : Prop := s.index = (d : Int) ∧ (d = 0 → s.buffer = [])

theorem checkBuffer_outsideEmpty (v : Variant) (cfg : Config) (env : StyleEnv σ) (s : State σ) (d : Nat)
    (hi : s.index = (d : Int)) : OutsideEmpty (checkBuffer v cfg env s) d := by
  refine ⟨by rw [checkBuffer_index]; exact hi, fun hd => ?_⟩
  subst hd
  exact (checkBuffer_outside v cfg env s (by simpa using hi)).1

theorem step_outsideEmpty (v : Variant) (cfg : Config) (env : StyleEnv σ) (s : State σ) (d : Nat) (op : Op σ)
    (h : OutsideEmpty s d) (hop : isCapture op = false) : OutsideEmpty (step v cfg env s op).1 d := by
  by_cases hd : d = 0
  · subst hd
    obtain ⟨h1, h2, _⟩ := step_outside v cfg env s op (by simpa using h.1) (h.2 rfl) hop
    exact ⟨by simpa using h2, fun _ => h1⟩
  · obtain ⟨_, h2, _⟩ := step_inside v cfg env s op (by rw [h.1]; omega) hop
    exact ⟨by rw [h2]; exact h.1, fun h0 => absurd h0 hd⟩

/-- From the initial state, every well-nested history ends at the depth it says, with an empty buffer whenever
that depth is zero.  (So the hypotheses of `capture_returns_and_withholds` hold in every reachable
outside-capture state.) -/
theorem exec_outsideEmpty (v : Variant) (cfg : Config) (env : StyleEnv σ) :
    ∀ (ops : List (Op σ)) (s : State σ) (d : Nat), OutsideEmpty s d → wellNested d ops = true →
      ∃ d', OutsideEmpty (exec v cfg env ops s) d'
  | [], s, d, h, _ => ⟨d, h⟩
  | op :: rest, s, d, h, hw => by
    rw [exec_cons]
    cases op with
    | beginCapture =>
      simp only [wellNested] at hw
      refine exec_outsideEmpty v cfg env rest _ (d + 1) ⟨?_, fun h0 => by omega⟩ hw
      simp only [step]; rw [h.1]; push_cast; rfl
    | endCapture =>
      simp only [wellNested, Bool.and_eq_true, bne_iff_ne, ne_eq] at hw
      refine exec_outsideEmpty v cfg env rest _ (d - 1) ?_ hw.2
      simp only [step]
      exact checkBuffer_outsideEmpty v cfg env _ (d - 1) (by simp only; rw [h.1]; omega)
    | enterBuffer => simp [wellNested] at hw
    | exitBuffer => simp [wellNested] at hw
    | print segs => exact exec_outsideEmpty v cfg env rest _ d (step_outsideEmpty v cfg env s d _ h rfl) (by simpa [wellNested] using hw)
    | line c => exact exec_outsideEmpty v cfg env rest _ d (step_outsideEmpty v cfg env s d _ h rfl) (by simpa [wellNested] using hw)
    | control c => exact exec_outsideEmpty v cfg env rest _ d (step_outsideEmpty v cfg env s d _ h rfl) (by simpa [wellNested] using hw)
    | bell => exact exec_outsideEmpty v cfg env rest _ d (step_outsideEmpty v cfg env s d _ h rfl) (by simpa [wellNested] using hw)
    | clear b => exact exec_outsideEmpty v cfg env rest _ d (step_outsideEmpty v cfg env s d _ h rfl) (by simpa [wellNested] using hw)
    | showCursor b => exact exec_outsideEmpty v cfg env rest _ d (step_outsideEmpty v cfg env s d _ h rfl) (by simpa [wellNested] using hw)
    | exportText a b => exact exec_outsideEmpty v cfg env rest _ d (step_outsideEmpty v cfg env s d _ h rfl) (by simpa [wellNested] using hw)
    | exportHtml a b o => exact exec_outsideEmpty v cfg env rest _ d (step_outsideEmpty v cfg env s d _ h rfl) (by simpa [wellNested] using hw)

end RichModel.Console
