import RichModel.Lemmas.WrapStages
/-!
`Text.rstrip_end` in its repaired form (`rstripEndW false`: the *cell* length is compared with the width,
fix f5f2be9 = the former pending_fixes/C08-rstrip-end-counts-cells.diff; what /repo contains now): a divided line whose text fits without its trailing whitespace
fits as a whole afterwards — provided no whitespace character is zero cells wide.
-/
namespace RichModel
namespace Wrap
open Text
variable {σ : Type}

theorem cellLen_space_ge (cw : Char → Nat) (hws : ∀ c, pyIsSpace c = true → 1 ≤ cw c) :
    ∀ s : List Char, (∀ c ∈ s, pyIsSpace c = true) → s.length ≤ cellLen cw s
  | [], _ => by simp [cellLen]
  | c :: s, h => by
    have h1 := hws c (h c (by simp))
    have h2 := cellLen_space_ge cw hws s (fun x hx => h x (List.mem_cons_of_mem _ hx))
    simp only [cellLen, List.map_cons, List.sum_cons, List.length_cons] at h2 ⊢
    omega

theorem rstripEnd_cells_fits (cw : Char → Nat) (hws : ∀ c, pyIsSpace c = true → 1 ≤ cw c) (t : Text σ) (w : Nat)
    (hfit : cellLen cw (pyRstrip t.plain) ≤ w) :
    cellLen cw (Text.rstripEndW false cw Variant.repaired t (w : Int)).plain ≤ w := by
  unfold Text.rstripEndW
  simp only [Bool.false_eq_true, if_false]
  split
  · rename_i hgt
    split
    · have hcast : min (trailingSpaceCount t.plain : Int) ((cellLen cw t.plain : Int) - (w : Int)) =
          ((min (trailingSpaceCount t.plain) (cellLen cw t.plain - w) : Nat) : Int) := by omega
      rw [hcast, rightCrop_nat]
      simp only
      have htr := trailing_add_rlen t.plain
      -- the characters cut off are whitespace, at least one cell each
      have hsplit := List.take_append_drop
        (t.plain.length - min (trailingSpaceCount t.plain) (cellLen cw t.plain - w)) t.plain
      have hlen := congrArg (cellLen cw) hsplit
      rw [cellLen_append] at hlen
      have hdrop : ∀ c ∈ t.plain.drop (t.plain.length - min (trailingSpaceCount t.plain) (cellLen cw t.plain - w)),
          pyIsSpace c = true := by
        intro c hc
        have : t.plain.drop (t.plain.length - min (trailingSpaceCount t.plain) (cellLen cw t.plain - w)) =
            (t.plain.drop (rlen t.plain)).drop
              (t.plain.length - min (trailingSpaceCount t.plain) (cellLen cw t.plain - w) - rlen t.plain) := by
          rw [List.drop_drop]; congr 1; omega
        rw [this] at hc
        exact drop_rlen_space _ _ (List.mem_of_mem_drop hc)
      have hge := cellLen_space_ge cw hws _ hdrop
      simp only [List.length_drop] at hge
      by_cases hm : trailingSpaceCount t.plain ≤ cellLen cw t.plain - w
      · -- all the trailing whitespace goes: what is left is the stripped text
        rw [Nat.min_eq_left hm]
        have : t.plain.length - trailingSpaceCount t.plain = rlen t.plain := by omega
        rw [this, ← pyRstrip_eq_take]; exact hfit
      · rw [Nat.min_eq_right (by omega)] at hge hlen ⊢
        omega
    · -- no trailing whitespace at all: the text is its own stripped form
      rename_i hws0
      have h0 : trailingSpaceCount t.plain = 0 := by simpa using hws0
      have htr := trailing_add_rlen t.plain
      have : pyRstrip t.plain = t.plain := by
        rw [pyRstrip_eq_take, List.take_of_length_le (by omega)]
      rw [this] at hfit; exact hfit
  · omega

end Wrap
end RichModel
