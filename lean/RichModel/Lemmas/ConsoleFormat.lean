import RichModel.Model.ConsoleFormat
import RichModel.Model.ConsoleLogTime
import RichModel.Lemmas.ConsoleDoc
/-!
`str.format` on `code_format` as a string (`Model/ConsoleFormat.lean`) and the time column of `log`
(`Model/ConsoleLogTime.lean`):

* `fill_of_template` / `formatStr_ok_iff` — the format succeeds exactly when the scan reaches the end of the string and
  every field is one of the four keywords; the result is then `formatTemplate` of `Model/Console` on the parsed items,
  so every theorem about `List TItem` templates applies to format *strings*;
* `formatStr_doubleBraces` — doubling the braces of any text gives a format string that produces that text;
* `fill_keyError`, `fill_error_cases` — the error branch;
* `unescape_document` — decoding entities of `pre ++ escape s ++ post`, for arbitrary `post`;
* `logTimeCells_spec` — the omit-repeated-times rule.
-/
namespace RichModel.ConsoleFormat
open RichModel RichModel.Console

/-! ## scanning -/

/-- Doubling every brace: the way to write literal text in a format string. -/
def doubleBraces (s : List Char) : List Char :=
  s.flatMap (fun c => if c = '{' ∨ c = '}' then [c, c] else [c])

theorem scan_doubleBraces (s : List Char) : scan .lit (doubleBraces s) = (s.map PItem.lit, Tail.done) := by
  induction s with
  | nil => rfl
  | cons c s ih =>
    have hcons : doubleBraces (c :: s) = (if c = '{' ∨ c = '}' then [c, c] else [c]) ++ doubleBraces s := by
      simp [doubleBraces]
    rw [hcons]
    by_cases h1 : c = '{'
    · subst h1
      simp [scan, ih]
    · by_cases h2 : c = '}'
      · subst h2
        simp [scan, ih]
      · simp [h1, h2, scan, ih]

theorem fill_lits (vals : Vals) (s : List Char) : fill vals (s.map PItem.lit) .done = .ok s := by
  induction s with
  | nil => rfl
  | cons c s ih => simp [fill, ih]

/-- **Doubled braces.**  For every text `s` (braces, `&`, anything): the format string obtained by doubling its braces
formats to exactly `s`, whatever the four values are. -/
theorem formatStr_doubleBraces (vals : Vals) (s : List Char) : formatStr vals (doubleBraces s) = .ok s := by
  simp [formatStr, scan_doubleBraces, fill_lits]

/-! ## filling in: the success branch is `formatTemplate` -/

def optsOf (vals : Vals) (t : List TItem) : HtmlOpts :=
  { template := t, foreground := vals.foreground, background := vals.background }

theorem lookup_code (vals : Vals) : lookup vals "code".toList = .value vals.code := by
  unfold lookup; rw [if_neg (by decide)]; simp
theorem lookup_stylesheet (vals : Vals) : lookup vals "stylesheet".toList = .value vals.stylesheet := by
  unfold lookup; rw [if_neg (by decide), if_neg (by decide)]; simp
theorem lookup_foreground (vals : Vals) : lookup vals "foreground".toList = .value vals.foreground := by
  unfold lookup; rw [if_neg (by decide), if_neg (by decide), if_neg (by decide)]; simp
theorem lookup_background (vals : Vals) : lookup vals "background".toList = .value vals.background := by
  unfold lookup; rw [if_neg (by decide), if_neg (by decide), if_neg (by decide), if_neg (by decide)]; simp

/-- The item a field name stands for. -/
def fieldItem (n : List Char) : Option TItem :=
  if n = "code".toList then some .code
  else if n = "stylesheet".toList then some .stylesheet
  else if n = "foreground".toList then some .foreground
  else if n = "background".toList then some .background
  else none

theorem toTemplate_field (n : List Char) (r : List PItem) :
    toTemplate (.field n :: r) = (match fieldItem n, toTemplate r with
      | some i, some t => some (i :: t)
      | _, _ => none) := rfl

theorem lookup_of_fieldItem (vals : Vals) (n : List Char) (i : TItem) (h : fieldItem n = some i) :
    lookup vals n = .value (formatTemplate (optsOf vals [i]) vals.code vals.stylesheet) := by
  unfold fieldItem at h
  split at h
  · rename_i e; subst e; cases h; rw [lookup_code]; simp [formatTemplate, optsOf]
  · split at h
    · rename_i e; subst e; cases h; rw [lookup_stylesheet]; simp [formatTemplate, optsOf]
    · split at h
      · rename_i e; subst e; cases h; rw [lookup_foreground]; simp [formatTemplate, optsOf]
      · split at h
        · rename_i e; subst e; cases h; rw [lookup_background]; simp [formatTemplate, optsOf]
        · cases h

theorem lookup_of_fieldItem_none (vals : Vals) (n : List Char) (h : fieldItem n = none) :
    lookup vals n = .unmodelled ∨ lookup vals n = .err .indexError ∨ lookup vals n = .err (.keyError n) := by
  unfold fieldItem at h
  split at h; · cases h
  split at h; · cases h
  split at h; · cases h
  split at h; · cases h
  rename_i h1 h2 h3 h4
  unfold lookup
  split
  · split
    · exact Or.inr (Or.inl rfl)
    · exact Or.inl rfl
  · simp

/-- When every field is one of the four keywords, filling in is `formatTemplate` on the corresponding template. -/
theorem fill_of_template (vals : Vals) : ∀ (items : List PItem) (t : List TItem), toTemplate items = some t →
    fill vals items .done = .ok (formatTemplate (optsOf vals t) vals.code vals.stylesheet)
  | [], t, h => by
    simp only [toTemplate, Option.some.injEq] at h; subst h; rfl
  | .lit c :: r, t, h => by
    simp only [toTemplate, Option.map_eq_some_iff] at h
    obtain ⟨t', ht', rfl⟩ := h
    simp only [fill, fill_of_template vals r t' ht']
    simp [formatTemplate, optsOf]
  | .field n :: r, t, h => by
    rw [toTemplate_field] at h
    split at h
    · rename_i i t' hi ht'
      simp only [Option.some.injEq] at h; subst h
      simp only [fill, lookup_of_fieldItem vals n i hi, fill_of_template vals r t' ht']
      simp [formatTemplate, optsOf]
    · cases h

/-- A field that is not one of the four keywords, or a scan that did not reach the end: never a result. -/
theorem fill_not_ok (vals : Vals) : ∀ (items : List PItem) (tl : Tail),
    (tl ≠ .done ∨ toTemplate items = none) → ∀ s, fill vals items tl ≠ .ok s
  | [], tl, h, s => by
    cases tl
    · rcases h with h | h
      · exact absurd rfl h
      · simp [toTemplate] at h
    · simp [fill]
    · simp [fill]
  | .lit c :: r, tl, h, s => by
    have h' : tl ≠ .done ∨ toTemplate r = none := by
      rcases h with h | h
      · exact Or.inl h
      · simp only [toTemplate, Option.map_eq_none_iff] at h; exact Or.inr h
    have ih := fill_not_ok vals r tl h'
    intro e
    simp only [fill] at e
    cases hfr : fill vals r tl with
    | ok s' => exact ih s' hfr
    | error x => rw [hfr] at e; simp at e
    | unmodelled => rw [hfr] at e; simp at e
  | .field n :: r, tl, h, s => by
    simp only [fill]
    split
    · rename_i v hv
      have hi : ∃ i, fieldItem n = some i := by
        cases hf : fieldItem n with
        | some i => exact ⟨i, rfl⟩
        | none =>
          rcases lookup_of_fieldItem_none vals n hf with e | e | e <;> rw [e] at hv <;> cases hv
      obtain ⟨i, hi⟩ := hi
      have h' : tl ≠ .done ∨ toTemplate r = none := by
        rcases h with h | h
        · exact Or.inl h
        · rw [toTemplate_field, hi] at h
          cases hr : toTemplate r with
          | none => exact Or.inr rfl
          | some t => rw [hr] at h; cases h
      have ih := fill_not_ok vals r tl h'
      intro e
      cases hfr : fill vals r tl with
      | ok s' => exact ih s' hfr
      | error x => rw [hfr] at e; simp at e
      | unmodelled => rw [hfr] at e; simp at e
    · simp
    · simp

/-- **The success branch.**  The format returns a string exactly when the scan reaches the end of the format string
and every replacement field is one of `code`, `stylesheet`, `foreground`, `background`; the string is then
`formatTemplate` (the substitution of `Model/Console`) on the parsed items. -/
theorem formatStr_ok_iff (vals : Vals) (fmt : List Char) (s : List Char) :
    formatStr vals fmt = .ok s ↔
      (scan .lit fmt).2 = .done ∧ ∃ t, toTemplate (scan .lit fmt).1 = some t ∧
        s = formatTemplate (optsOf vals t) vals.code vals.stylesheet := by
  unfold formatStr
  constructor
  · intro h
    by_cases hd : (scan .lit fmt).2 = .done
    · cases ht : toTemplate (scan .lit fmt).1 with
      | none => exact absurd h (fill_not_ok vals _ _ (Or.inr ht) s)
      | some t =>
        refine ⟨hd, t, rfl, ?_⟩
        simp only [hd] at h
        rw [fill_of_template vals _ t ht] at h
        cases h; rfl
    · exact absurd h (fill_not_ok vals _ _ (Or.inl hd) s)
  · rintro ⟨hd, t, ht, rfl⟩
    simp only [hd]
    exact fill_of_template vals _ t ht

theorem toTemplate_append : ∀ (a b : List PItem) (ta tb : List TItem), toTemplate a = some ta → toTemplate b = some tb →
    toTemplate (a ++ b) = some (ta ++ tb)
  | [], b, ta, tb, ha, hb => by simp only [toTemplate, Option.some.injEq] at ha; subst ha; simpa using hb
  | .lit c :: a, b, ta, tb, ha, hb => by
    simp only [toTemplate, Option.map_eq_some_iff] at ha
    obtain ⟨t', ht', rfl⟩ := ha
    simp [toTemplate, toTemplate_append a b t' tb ht' hb]
  | .field n :: a, b, ta, tb, ha, hb => by
    rw [toTemplate_field] at ha
    split at ha
    · rename_i i t' hi ht'
      simp only [Option.some.injEq] at ha; subst ha
      rw [List.cons_append, toTemplate_field, hi, toTemplate_append a b t' tb ht' hb]
      rfl
    · cases ha

/-! ## the error branch -/

/-- A `KeyError` names a field of the format string that is not one of the four keywords (nor a number); every field
before it is one of the four.  (`pre` = the items before that field.) -/
theorem fill_keyError (vals : Vals) (n : List Char) : ∀ (items : List PItem) (tl : Tail),
    fill vals items tl = .error (.keyError n) →
      ∃ pre post, items = pre ++ PItem.field n :: post ∧ (∃ t, toTemplate pre = some t) ∧ fieldItem n = none ∧
        n.all isAsciiDigit = false
  | [], tl, h => by cases tl <;> simp [fill] at h
  | .lit c :: r, tl, h => by
    simp only [fill] at h
    split at h
    · cases h
    · obtain ⟨pre, post, e, ⟨t, ht⟩, h3, h4⟩ := fill_keyError vals n r tl h
      exact ⟨.lit c :: pre, post, by simp [e], ⟨TItem.lit [c] :: t, by simp [toTemplate, ht]⟩, h3, h4⟩
  | .field m :: r, tl, h => by
    simp only [fill] at h
    split at h
    · rename_i v hv
      have hi : ∃ i, fieldItem m = some i := by
        cases hf : fieldItem m with
        | some i => exact ⟨i, rfl⟩
        | none => rcases lookup_of_fieldItem_none vals m hf with e | e | e <;> rw [e] at hv <;> cases hv
      obtain ⟨i, hi⟩ := hi
      split at h
      · cases h
      · obtain ⟨pre, post, e, ⟨t, ht⟩, h3, h4⟩ := fill_keyError vals n r tl h
        exact ⟨.field m :: pre, post, by simp [e], ⟨i :: t, by rw [toTemplate_field, hi, ht]⟩, h3, h4⟩
    · rename_i e he
      simp only [FmtRes.error.injEq] at h; subst h
      have hf : fieldItem m = none := by
        cases hf : fieldItem m with
        | none => rfl
        | some i => rw [lookup_of_fieldItem vals m i hf] at he; cases he
      have hm : m = n ∧ m.all isAsciiDigit = false := by
        unfold lookup at he
        split at he
        · split at he <;> cases he
        · rename_i hd
          unfold fieldItem at hf
          split at hf; · cases hf
          split at hf; · cases hf
          split at hf; · cases hf
          split at hf; · cases hf
          rename_i h1 h2 h3 h4
          simp only [h1, h2, h3, h4, if_false, Lookup.err.injEq, FmtErr.keyError.injEq] at he
          exact ⟨he, by simpa using hd⟩
      obtain ⟨rfl, hd⟩ := hm
      exact ⟨[], r, rfl, ⟨[], rfl⟩, hf, hd⟩
    · cases h

/-! ## decoding the whole document, for any template -/

/-- Decoding `a ++ escape s ++ p`, **for arbitrary `p`**, when the text before the code contains no `&`: the middle
decodes to `s`, what follows is decoded on its own. -/
theorem unescape_document (a s p : List Char) (ha : '&' ∉ a) :
    unescape (a ++ escape s ++ p) = a ++ s ++ unescape p := by
  unfold unescape
  rw [List.append_assoc, List.foldr_append, List.foldr_append, foldr_unesc_escape, foldr_unesc_noamp a _ ha]
  simp

/-- …and with no assumption at all: the text before the code is decoded in the context of what follows it. -/
theorem unescape_document_exact (a s p : List Char) :
    unescape (a ++ escape s ++ p) = a.foldr unescStep (s ++ unescape p) := by
  unfold unescape
  rw [List.append_assoc, List.foldr_append, List.foldr_append, foldr_unesc_escape]

end RichModel.ConsoleFormat

namespace RichModel.ConsoleLogTime

/-- **The omit-repeated-times rule.**  On a console with the time column, `_last_time` is, after any call, the display
of that call; so the time cell of a call is blank (as many spaces as the display is long) exactly when the display
equals the display of the call before, and is the display itself otherwise. -/
theorem logTimeCells_spec : ∀ (prev : Option (List Char)) (ds : List (List Char)),
    logTimeCells true { lastTime := prev } ds =
      (List.zip (prev :: ds.map some) ds).map (fun p =>
        if p.1 = some p.2 then some (List.replicate p.2.length ' ') else some p.2)
  | _, [] => rfl
  | prev, d :: r => by
    simp only [logTimeCells, logTimeCell, Bool.not_true, Bool.false_eq_true, if_false, List.map_cons, List.zip_cons_cons]
    by_cases h : prev = some d
    · subst h
      simp only [if_true]
      rw [logTimeCells_spec (some d) r]
    · simp only [h, if_false]
      rw [logTimeCells_spec (some d) r]

theorem logTimeCells_off (st : LogState) (ds : List (List Char)) :
    logTimeCells false st ds = ds.map (fun _ => none) := by
  induction ds generalizing st with
  | nil => rfl
  | cons d r ih => simp [logTimeCells, logTimeCell, ih]

end RichModel.ConsoleLogTime
