import RichModel.Lemmas.Pretty
/-!
Helper lemmas for `Pretty.__rich_measure__` (property C16 / the Pretty clause of C09):
`str.splitlines` of the joined lines, the maximum, and the two facts that make the measurement
sound: with `expand_all` the lines do not depend on the width, and without it rendering at any
width `m` that bounds all lines at some width `W` produces only lines bounded by `m` again.
-/
namespace RichModel.Pretty
open RichModel

instance instDecidableEqMeasureResult : DecidableEq (Except Err Nat)
  | .ok a, .ok b => if h : a = b then isTrue (by rw [h]) else isFalse (by intro e; cases e; exact h rfl)
  | .error a, .error b => if h : a = b then isTrue (by rw [h]) else isFalse (by intro e; cases e; exact h rfl)
  | .ok _, .error _ => isFalse (by intro e; cases e)
  | .error _, .ok _ => isFalse (by intro e; cases e)

/-! ### splitlines of joined lines -/

def noBreak (s : Str) : Prop := ∀ c ∈ s, isLineBreak c = false

theorem splitLoop_noBreak (l r cur : Str) (h : noBreak l) :
    splitLoop (l ++ r) cur false = splitLoop r (l.reverse ++ cur) false := by
  induction l generalizing cur with
  | nil => rfl
  | cons c cs ih =>
    have hc : isLineBreak c = false := h c (by simp)
    have hcs : noBreak cs := fun x hx => h x (by simp [hx])
    simp only [List.cons_append, splitLoop, Bool.false_and, Bool.false_eq_true, if_false, hc]
    rw [ih _ hcs]
    simp

theorem splitLoop_newline (r cur : Str) :
    splitLoop ('\n' :: r) cur false = cur.reverse :: splitLoop r [] false := by
  simp only [splitLoop, Bool.false_and, Bool.false_eq_true, if_false]
  have : isLineBreak '\n' = true := by decide
  simp [this]

theorem joinLines_cons_cons (a b : Str) (r : List Str) :
    joinLines (a :: b :: r) = a ++ '\n' :: joinLines (b :: r) := by
  simp [joinLines, List.intercalate]

/-- every non-empty line is one of the lines `splitlines` finds in the joined text. -/
theorem mem_splitlines_join (ls : List Str) (hb : ∀ s ∈ ls, noBreak s) :
    ∀ s ∈ ls, s ≠ [] → s ∈ splitlines (joinLines ls) := by
  induction ls with
  | nil => intro s hs; simp at hs
  | cons a rest ih =>
    intro s hs hne
    cases rest with
    | nil =>
      simp only [List.mem_singleton] at hs
      subst hs
      have : joinLines [s] = s := by simp [joinLines, List.intercalate]
      rw [this, splitlines]
      have := splitLoop_noBreak s [] [] (hb s (by simp))
      simp only [List.append_nil] at this
      rw [this, splitLoop]
      simp [hne]
    | cons b r =>
      rw [joinLines_cons_cons, splitlines, splitLoop_noBreak a _ [] (hb a (by simp)), splitLoop_newline]
      simp only [List.append_nil, List.reverse_reverse, List.mem_cons]
      simp only [List.mem_cons] at hs
      rcases hs with rfl | hs
      · exact Or.inl rfl
      · right
        have := ih (fun x hx => hb x (by simp [hx])) s (by simpa using hs) hne
        simpa [splitlines] using this

theorem le_foldl_max (xs : List Nat) (x : Nat) : x ≤ xs.foldl max x ∧ ∀ y ∈ xs, y ≤ xs.foldl max x := by
  induction xs generalizing x with
  | nil => simp
  | cons a t ih =>
    simp only [List.foldl_cons, List.mem_cons]
    obtain ⟨h1, h2⟩ := ih (max x a)
    refine ⟨by omega, ?_⟩
    rintro y (rfl | hy)
    · omega
    · exact h2 y hy

theorem pyMax_ge (xs : List Nat) (m : Nat) (h : pyMax xs = .ok m) : ∀ y ∈ xs, y ≤ m := by
  cases xs with
  | nil => simp [pyMax] at h
  | cons x t =>
    simp only [pyMax, Except.ok.injEq] at h
    subst h
    intro y hy
    simp only [List.mem_cons] at hy
    rcases hy with rfl | hy
    · exact (le_foldl_max t _).1
    · exact (le_foldl_max t x).2 y hy

/-! ### the cells a line needs (the quantity `check_length` compares with the width) -/

def Line.cells (cw : Char → Nat) (l : Line) : Nat :=
  l.whitespace.length + cellLen cw l.text + cellLen cw l.suffix +
    (match l.node with | some n => cellLen cw n.str | none => 0)

theorem Line.cells_eq_str (cw : Char → Nat) (hs : cw ' ' = 1) (l : Line) (k : Nat)
    (hw : l.whitespace = List.replicate k ' ') : cellLen cw l.str = l.cells cw := by
  have : cellLen cw l.whitespace = l.whitespace.length := by rw [hw, cellLen_replicate_space cw hs]; simp
  unfold Line.str Line.cells
  cases l.node <;> simp only [cellLen_append, this, cellLen_nil] <;> omega

theorem mustExpand_false_iff (cw : Char → Nat) (w : Int) (l : Line) (n : Node) (hc : n.isContainer = true) :
    mustExpand cw w false l n = false ↔ ((l.whitespace.length + cellLen cw l.text + cellLen cw l.suffix + cellLen cw n.str : Nat) : Int) ≤ w := by
  unfold mustExpand Line.checkLength
  have := Node.checkLength_iff cw n (l.whitespace.length + cellLen cw l.text + cellLen cw l.suffix) w hc
  cases hck : n.checkLength cw (l.whitespace.length + cellLen cw l.text + cellLen cw l.suffix) w with
  | true => simp only [Bool.false_or, Bool.not_true, true_iff]; exact this.mp hck
  | false =>
    simp only [Bool.false_or, Bool.not_false, Bool.true_eq_false, false_iff]
    intro h; rw [this.mpr h] at hck; cases hck

/-! ### without expand_all: a bound on all lines at one width is a bound at that bound -/
mutual
theorem specLine_bound (c : Cfg) (m : Nat) (hea : c.ea = false) :
    ∀ (n : Node) (l : Line), l.node = some n →
      (∀ l' ∈ specLine c l n, l'.cells c.cw ≤ m) →
      ∀ l' ∈ specLine { c with w := (m : Int) } l n, l'.cells c.cw ≤ m
  | .mk k vr o cl e la t ic ch, l, hn, hW, l', hl' => by
    rw [specLine] at hl'
    dsimp only at hl'
    split at hl'
    · -- expanded at width m: then it was expanded at the other width too
      rename_i hm
      rw [specLine] at hW
      split at hW
      · simp only [List.mem_cons, List.mem_append, List.not_mem_nil, or_false] at hl' hW
        rcases hl' with rfl | hl' | rfl
        · exact hW _ (Or.inl rfl)
        · exact specKids_bound c m hea ch _ _ (fun x hx => hW x (Or.inr (Or.inl hx))) l' hl'
        · exact hW _ (Or.inr (Or.inr rfl))
      · -- kept there, so `l` itself is bounded by m, so it fits m: contradiction
        exfalso
        have hl := hW l (by simp)
        simp only [Bool.and_eq_true] at hm
        obtain ⟨⟨⟨hic, _⟩, _⟩, hmust⟩ := hm
        rw [hea] at hmust
        have hfit := (mustExpand_false_iff c.cw (m : Int) l (.mk k vr o cl e la t ic ch)
          (by simpa [Node.isContainer] using hic)).mpr (by
            simp only [Line.cells, hn] at hl
            omega)
        rw [hmust] at hfit; cases hfit
    · -- kept at width m
      rename_i hm
      simp only [List.mem_singleton] at hl'
      subst hl'
      rw [specLine] at hW
      split at hW
      · -- expanded at the other width, kept at m: it fits m
        rename_i hWc
        simp only [Bool.and_eq_true] at hWc
        obtain ⟨⟨⟨hic, hch⟩, hex⟩, _⟩ := hWc
        subst hic
        have hmust : mustExpand c.cw (m : Int) false l' (.mk k vr o cl e la t true ch) = false := by
          cases hmm : mustExpand c.cw (m : Int) false l' (.mk k vr o cl e la t true ch) with
          | false => rfl
          | true =>
            rw [hea] at hm
            exact absurd (by simp only [hch, hex, hmm, Bool.and_self]) hm
        have := (mustExpand_false_iff c.cw (m : Int) l' (.mk k vr o cl e la t true ch)
          rfl).mp hmust
        simp only [Line.cells, hn]
        omega
      · exact hW l' (by simp)
theorem specKids_bound (c : Cfg) (m : Nat) (hea : c.ea = false) :
    ∀ (ch : List Node) (ws : Str) (one : Bool),
      (∀ l' ∈ specKids c ws one ch, l'.cells c.cw ≤ m) →
      ∀ l' ∈ specKids { c with w := (m : Int) } ws one ch, l'.cells c.cw ≤ m
  | [], _, _, _, l', hl' => by simp [specKids] at hl'
  | x :: xs, ws, one, hW, l', hl' => by
    rw [specKids, List.mem_append] at hl'
    rw [specKids] at hW
    rcases hl' with h | h
    · exact specLine_bound c m hea x _ rfl (fun y hy => hW y (List.mem_append.mpr (Or.inl hy))) l' h
    · exact specKids_bound c m hea xs ws one (fun y hy => hW y (List.mem_append.mpr (Or.inr hy))) l' h
end

/-! ### with expand_all the lines do not depend on the width -/
mutual
theorem specLine_ea_width (c : Cfg) (w' : Int) (hea : c.ea = true) :
    ∀ (n : Node) (l : Line), specLine { c with w := w' } l n = specLine c l n
  | .mk k vr o cl e la t ic ch, l => by
    rw [specLine, specLine]
    have : mustExpand c.cw w' c.ea l (.mk k vr o cl e la t ic ch) = mustExpand c.cw c.w c.ea l (.mk k vr o cl e la t ic ch) := by
      simp [mustExpand, hea]
    simp only [this, specKids_ea_width c w' hea ch]
theorem specKids_ea_width (c : Cfg) (w' : Int) (hea : c.ea = true) :
    ∀ (ch : List Node) (ws : Str) (one : Bool), specKids { c with w := w' } ws one ch = specKids c ws one ch
  | [], _, _ => by simp [specKids]
  | x :: xs, ws, one => by
    rw [specKids, specKids, specLine_ea_width c w' hea x, specKids_ea_width c w' hea xs]
end

/-! ### the root's `last` flag is not observable in the repaired code -/
theorem tokens_setLast (n : Node) (b : Bool) : (n.setLast b).tokens = n.tokens := by
  cases n; simp [Node.setLast, Node.tokens]

theorem specLine_setLast_str (c : Cfg) (hv : c.v.dropSuffix = false) (n : Node) (l : Line) (b : Bool) :
    (specLine c { l with node := some (n.setLast b) } (n.setLast b)).map Line.str
      = (specLine c { l with node := some n } n).map Line.str := by
  rw [specLine_unfold, specLine_unfold]
  have hm : mustExpand c.cw c.w c.ea { l with node := some (n.setLast b) } (n.setLast b)
      = mustExpand c.cw c.w c.ea { l with node := some n } n := by
    simp [mustExpand, Line.checkLength, Node.checkLength, tokens_setLast]
  cases n with
  | mk k vr o cl e la t ic ch =>
    simp only [Node.setLast, Node.isContainer, Node.children] at hm ⊢
    simp only [hm]
    split
    · rename_i h
      simp [h, Line.expandHead, Line.expandTail, Line.expandKids, Line.expandClose, hv, Node.keyRepr,
        Node.openBrace, Node.closeBrace, Node.children, Node.tupleOfOne, Node.isTuple]
    · rename_i h
      simp [h, Line.str, Node.str, Node.tokens]

end RichModel.Pretty
