import RichModel.Lemmas.TableRender
/-!
End-to-end reading of the rendered CHARACTERS of a table: slicing a rendered line by cell offsets, and the
characters of one cell collected over the lines of its row.
-/
namespace RichModel

/-! ### slicing a line by cells -/

/-- Drop the first `n` cells of a line. -/
def dropCells (cw : Char → Nat) : List Char → Nat → List Char
  | [], _ => []
  | c :: s, n => if n = 0 then c :: s else dropCells cw s (n - cw c)

/-- Take the first `n` cells of a line. -/
def takeCells (cw : Char → Nat) : List Char → Nat → List Char
  | [], _ => []
  | c :: s, n => if n = 0 then [] else c :: takeCells cw s (n - cw c)

/-- The characters a line shows in the cells `[off, off + w)`. -/
def cellSpan (cw : Char → Nat) (line : List Char) (off w : Nat) : List Char := takeCells cw (dropCells cw line off) w

theorem dropCells_append (cw : Char → Nat) : ∀ (a b : List Char), (∀ c ∈ a, 1 ≤ cw c) → dropCells cw (a ++ b) (cellLen cw a) = b
  | [], b, _ => by cases b <;> simp [dropCells, cellLen]
  | c :: a, b, h => by
    have hc := h c (by simp)
    have ih := dropCells_append cw a b (fun x hx => h x (List.mem_cons_of_mem _ hx))
    simp only [List.cons_append, dropCells, cellLen, List.map_cons, List.sum_cons]
    have : ¬ (cw c + (a.map cw).sum = 0) := by omega
    simp only [this, if_false, Nat.add_sub_cancel_left]
    exact ih

theorem takeCells_append (cw : Char → Nat) : ∀ (a b : List Char), (∀ c ∈ a, 1 ≤ cw c) → takeCells cw (a ++ b) (cellLen cw a) = a
  | [], b, _ => by cases b <;> simp [takeCells, cellLen]
  | c :: a, b, h => by
    have hc := h c (by simp)
    have ih := takeCells_append cw a b (fun x hx => h x (List.mem_cons_of_mem _ hx))
    simp only [List.cons_append, takeCells, cellLen, List.map_cons, List.sum_cons]
    have : ¬ (cw c + (a.map cw).sum = 0) := by omega
    simp only [this, if_false, Nat.add_sub_cancel_left]
    exact congrArg _ ih

/-- If a line is `pre ++ part ++ post` and no character of `pre` or `part` is zero cells wide, slicing the line at
`pre`'s width for `part`'s width gives back exactly `part`. -/
theorem cellSpan_eq (cw : Char → Nat) (pre part post : List Char) (h1 : ∀ c ∈ pre, 1 ≤ cw c) (h2 : ∀ c ∈ part, 1 ≤ cw c) :
    cellSpan cw (pre ++ part ++ post) (cellLen cw pre) (cellLen cw part) = part := by
  unfold cellSpan
  rw [List.append_assoc, dropCells_append cw pre _ h1, takeCells_append cw part post h2]

/-! ### all the lines of one cell -/

theorem flatMap_range_getD : ∀ (L : List (List Char)), (List.range L.length).flatMap (fun k => L.getD k []) = L.flatten
  | [] => rfl
  | x :: L => by
    have ih := flatMap_range_getD L
    rw [List.length_cons, List.range_succ_eq_map, List.flatMap_cons, List.flatMap_map]
    simp only [List.getD_cons_zero, List.flatten_cons]
    congr 1

theorem filter_replicate_space (isSp : Char → Bool) (hsp : isSp ' ' = true) (n : Nat) :
    (List.replicate n ' ').filter (fun c => !isSp c) = [] := by
  induction n with
  | zero => rfl
  | succ n ih => simp [List.replicate_succ, hsp, ih]

theorem filter_flatten_blank (isSp : Char → Bool) (hsp : isSp ' ' = true) (n w : Nat) :
    ((List.replicate n (List.replicate w ' ')).flatten).filter (fun c => !isSp c) = [] := by
  induction n with
  | zero => rfl
  | succ n ih => simp only [List.replicate_succ, List.flatten_cons, List.filter_append, filter_replicate_space isSp hsp, ih, List.append_nil]

/-- The shaped cell of an exact-width rendering: the cell's own lines, then blank lines. -/
theorem shapeCell_exact (cw : Char → Nat) (w h : Nat) (lines : List (List Char)) (hw : ∀ l ∈ lines, cellLen cw l = w) :
    shapeCell cw w h lines = lines ++ List.replicate (h - lines.length) (List.replicate w ' ') := by
  unfold shapeCell
  have : lines.map (fun l => setCellSize cw l w) = lines.map id :=
    List.map_congr_left (fun l hl => setCellSize_id cw l w (hw l hl))
  rw [this, List.map_id]

/-- Reading line `0 … h-1` of a shaped cell one after the other and dropping whitespace gives the
non-whitespace characters of the cell's own rendering, in order. -/
theorem shaped_lines_nonspace (cw : Char → Nat) (isSp : Char → Bool) (hsp : isSp ' ' = true) (w h : Nat) (lines : List (List Char))
    (hw : ∀ l ∈ lines, cellLen cw l = w) (hh : lines.length ≤ h) :
    ((List.range h).flatMap (fun k => (shapeCell cw w h lines).getD k [])).filter (fun c => !isSp c)
      = lines.flatten.filter (fun c => !isSp c) := by
  have hlen : (shapeCell cw w h lines).length = h := by rw [shapeCell_length]; omega
  have := flatMap_range_getD (shapeCell cw w h lines)
  rw [hlen] at this
  rw [this, shapeCell_exact cw w h lines hw, List.flatten_append, List.filter_append, filter_flatten_blank isSp hsp, List.append_nil]

/-! ### every line of every row is in the body -/

theorem cellLine_mem_body (fl : Flags) (cw : Char → Nat) (t : Table) (widths : List Nat) (i : Nat) (row : List Cell)
    (hrow : t.rows[i]? = some row) (k : Nat) (hk : k < (shapeRow cw widths row).1) :
    t.cellLine cw widths (i == 0) (i + 1 == t.rows.length) i row k ∈ t.renderBody fl cw widths := by
  unfold Table.renderBody
  simp only [List.mem_append, List.mem_flatMap]
  left; right
  refine ⟨(row, i), List.mem_zipIdx_iff_getElem?.2 (by simpa [Table.rows] using hrow), ?_⟩
  unfold Table.renderRow
  simp only [List.mem_append, List.mem_map, List.mem_range]
  left; left; right
  exact ⟨k, hk, rfl⟩

end RichModel
