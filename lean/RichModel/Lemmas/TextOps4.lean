import RichModel.Lemmas.TextOps3
import RichModel.Lemmas.TextSplit
import RichModel.Model.TextStr
/-!
`split` read at string level (`strSplit`), its two string laws (nothing lost / `sep.join` inverts it), `fit`, and
`detect_indentation`.
-/
namespace RichModel
namespace Text
variable {σ : Type}

theorem cutAt_eq {α : Type} (l : List α) : ∀ (offs : List Nat) (start : Nat), cutAt start offs l = piecesFrom start offs l
  | [], _ => rfl
  | o :: os, start => by simp [cutAt, piecesFrom, cutAt_eq l os o]

theorem cutBetween_eq {α : Type} (l : List α) : ∀ (ms : List (Nat × Nat)) (start : Nat),
    cutBetween start ms l = betweenFrom start ms l
  | [], _ => rfl
  | m :: rest, start => by simp [cutBetween, betweenFrom, cutBetween_eq l rest m.2]

theorem popBlank_eq {α : Type} (b : Bool) (ps : List (List α)) : popBlank b ps = dropBlank b ps := rfl

theorem strSplit_eq {α : Type} (sep : List Char) (incl blank : Bool) (chars : List Char) (v : List α) :
    strSplit sep incl blank chars v =
      (if (findAll sep chars).isEmpty then [v]
       else dropBlank blank (if incl then pieces ((findAll sep chars).map (·.2)) v
                             else betweenFrom 0 (findAll sep chars) v)) := by
  unfold strSplit pieces
  simp only [cutAt_eq, cutBetween_eq, popBlank_eq]

theorem view_map_fst (t : Text σ) : t.view.map (·.1) = t.plain := by
  rw [view_eq_annot, annot_map_fst]

/-- **`split` is the string-level split of the styled string.**  For every non-empty separator and both flags both
ways, the pieces' styled strings are `strSplit` applied to `view t` (cut where the separator occurs in its
characters), and their plain strings are the same function applied to the plain string. -/
theorem split_str_view [BEq σ] (t : Text σ) (sep : List Char) (incl blank : Bool) (h : Inv t) (hsep : sep ≠ []) :
    ∃ parts, Text.splitW false Variant.repaired t sep incl blank = .ok parts ∧
      parts.map view = strSplit sep incl blank (t.view.map (·.1)) t.view ∧
      parts.map (·.plain) = strSplit sep incl blank t.plain t.plain ∧
      ∀ l ∈ parts, Inv l ∧ l.style = t.style := by
  obtain ⟨parts, h1, h2, h3, h4⟩ := split_view_all t sep incl blank h hsep
  refine ⟨parts, h1, ?_, ?_, h4⟩
  · rw [view_map_fst, strSplit_eq]; exact h2
  · rw [strSplit_eq]; exact h3

/-! ### string laws of `strSplit` -/

theorem dropBlank_flatten {α : Type} (b : Bool) (ps : List (List α)) : (dropBlank b ps).flatten = ps.flatten := by
  unfold dropBlank
  cases hl : ps.getLast? with
  | none => simp
  | some p =>
    simp only []
    by_cases hc : (!b && p.isEmpty) = true
    · rw [if_pos hc]
      have hp : p = [] := by
        simp only [Bool.and_eq_true, List.isEmpty_iff] at hc
        exact hc.2
      have hne : ps ≠ [] := by intro h0; rw [h0] at hl; simp at hl
      have hgl : ps.getLast hne = p := by
        have := List.getLast?_eq_some_getLast hne
        rw [hl] at this; exact (Option.some.inj this).symm
      have := List.dropLast_concat_getLast hne
      conv => rhs; rw [← this]
      simp [hgl, hp]
    · rw [if_neg hc]

/-- with `include_separator=True` nothing is lost and nothing moves: the pieces concatenate to the original -/
theorem strSplit_incl_flatten {α : Type} (sep : List Char) (blank : Bool) (chars : List Char) (v : List α)
    (hsep : sep ≠ []) : (strSplit sep true blank chars v).flatten = v := by
  have hlen : 0 < sep.length := List.length_pos_iff.2 hsep
  rw [strSplit_eq]
  split
  · simp
  · simp only [if_true]
    rw [dropBlank_flatten]
    obtain ⟨hasc, _⟩ := Wrap.findAllAux_asc sep hlen chars 0 0
    simp only [Nat.add_zero] at hasc
    exact pieces_flatten v _ (ascFrom_ends _ 0 hasc)

theorem betweenFrom_ne_nil {α : Type} (start : Nat) (ms : List (Nat × Nat)) (l : List α) : betweenFrom start ms l ≠ [] := by
  cases ms <;> simp [betweenFrom]

theorem intercalate_cons_of_ne_nil {α : Type} (sep a : List α) (rest : List (List α)) (h : rest ≠ []) :
    List.intercalate sep (a :: rest) = a ++ sep ++ List.intercalate sep rest := by
  cases rest with
  | nil => exact absurd rfl h
  | cons b bs => simp [List.intercalate, List.intersperse]

/-- between the occurrences lies everything but the separators: joining with `sep` gives the string back -/
theorem betweenFrom_intercalate (sep s : List Char) : ∀ (ms : List (Nat × Nat)) (start : Nat),
    GoodMs sep s start ms → List.intercalate sep (betweenFrom start ms s) = s.drop start
  | [], start, _ => by simp [betweenFrom, List.intercalate]
  | m :: rest, start, hg => by
    obtain ⟨g1, g2, _, g4, g5⟩ := hg
    have ih := betweenFrom_intercalate sep s rest m.2 g5
    rw [betweenFrom, intercalate_cons_of_ne_nil _ _ _ (betweenFrom_ne_nil _ _ _), ih]
    have e1 : s.drop m.1 = sep ++ s.drop m.2 := by
      have := List.take_append_drop (m.2 - m.1) (s.drop m.1)
      rw [g4, List.drop_drop] at this
      have e : m.1 + (m.2 - m.1) = m.2 := by omega
      rw [e] at this
      exact this.symm
    have e2 : (s.drop start).take (m.1 - start) ++ s.drop m.1 = s.drop start := by
      have := List.take_append_drop (m.1 - start) (s.drop start)
      rw [List.drop_drop] at this
      have e : start + (m.1 - start) = m.1 := by omega
      rw [e] at this
      exact this
    rw [List.append_assoc, ← e1, e2]

/-- **`sep.join(text.split(sep, allow_blank=True))` is the text** (string level; as for `str.split`), for every
non-empty separator, self-overlapping ones included -/
theorem strSplit_intercalate (sep s : List Char) (hsep : sep ≠ []) :
    List.intercalate sep (strSplit sep false true s s) = s := by
  have hlen : 0 < sep.length := List.length_pos_iff.2 hsep
  rw [strSplit_eq]
  split
  · simp [List.intercalate]
  · simp only [Bool.false_eq_true, if_false]
    have : dropBlank true (betweenFrom 0 (findAll sep s) s) = betweenFrom 0 (findAll sep s) s := by
      simp [dropBlank]
    rw [this, betweenFrom_intercalate sep s _ 0 (findAll_good sep s hlen)]
    simp

/-! ### fit -/

theorem splitW_true [BEq σ] (v : Variant) (t : Text σ) (sep : List Char) (incl blank : Bool) :
    Text.splitW true v t sep incl blank = t.split v sep incl blank := rfl

theorem unbordered_single (c : Char) : Unbordered [c] := by
  intro k h0 h1; simp at h1; omega

/-- `fit(w)`: the lines of the text (split at newlines, a blank last line dropped), each cut or padded to exactly `w`
characters; characters kept keep their styles, padding is base-styled -/
theorem fit_spec [BEq σ] (t : Text σ) (w : Nat) (h : Inv t) :
    ∃ lines, t.fit Variant.repaired (w : Int) = .ok lines ∧
      lines.map view = (strSplit ['\n'] false false t.plain t.view).map (fitLine w t.style) ∧
      (∀ l ∈ lines, Inv l ∧ l.style = t.style ∧ l.plain.length = w) := by
  obtain ⟨parts, h1, h2, _, h4⟩ := split_str_view t ['\n'] false false h (by simp)
  rw [view_map_fst] at h2
  unfold fit
  rw [← splitW_true, splitW_released_eq t ['\n'] false false h (unbordered_single '\n'), h1]
  refine ⟨parts.map (fun l => l.setLength Variant.repaired (w : Int)), rfl, ?_, ?_⟩
  · rw [← h2, List.map_map, List.map_map]
    apply List.map_congr_left
    intro l hl
    obtain ⟨hi, hs⟩ := h4 l hl
    simp only [Function.comp, fitLine]
    rw [view_setLength l w hi, hs]
    congr 2
    rw [view_eq_annot, annot_length]
  · intro l hl
    obtain ⟨p, hp, rfl⟩ := List.mem_map.1 hl
    obtain ⟨hi, hs⟩ := h4 p hp
    have hinv := inv_setLength p w hi
    refine ⟨hinv, ?_, ?_⟩
    · rw [← hs]
      unfold setLength
      simp only []
      split
      · split
        · rw [padRight_eq]; split
          · exact setPlain_style _ _
          · rfl
        · rfl
      · rfl
    · have hv := view_setLength p w hi
      have hl2 := congrArg List.length hv
      rw [view_eq_annot, annot_length] at hl2
      rw [hl2]
      simp only [List.length_append, List.length_take, List.length_replicate, view_eq_annot, annot_length]
      omega

/-! ### detect_indentation -/

theorem foldl_gcd_dvd (xs : List Nat) (x : Nat) :
    xs.foldl Nat.gcd x ∣ x ∧ ∀ y ∈ xs, xs.foldl Nat.gcd x ∣ y := by
  induction xs generalizing x with
  | nil => exact ⟨Nat.dvd_refl _, by simp⟩
  | cons a rest ih =>
    simp only [List.foldl_cons]
    obtain ⟨i1, i2⟩ := ih (Nat.gcd x a)
    refine ⟨Nat.dvd_trans i1 (Nat.gcd_dvd_left _ _), ?_⟩
    intro y hy
    simp only [List.mem_cons] at hy
    rcases hy with rfl | hy
    · exact Nat.dvd_trans i1 (Nat.gcd_dvd_right _ _)
    · exact i2 y hy

theorem dvd_foldl_gcd (d : Nat) (xs : List Nat) (x : Nat) (hx : d ∣ x) (hxs : ∀ y ∈ xs, d ∣ y) :
    d ∣ xs.foldl Nat.gcd x := by
  induction xs generalizing x with
  | nil => exact hx
  | cons a rest ih =>
    simp only [List.foldl_cons]
    exact ih _ (Nat.dvd_gcd hx (hxs a (by simp))) (fun y hy => hxs y (by simp [hy]))

/-- **`detect_indentation()` is the greatest common divisor of the even indentations**: it is at least 1, divides
every even indentation of every line, and every common divisor of them divides it — unless all of them are 0 (or
there is none), when it is 1.  It looks at the characters only (never at a style). -/
theorem detectIndentation_spec (t : Text σ) :
    1 ≤ t.detectIndentation ∧
    (∀ n ∈ evenIndents t.plain, t.detectIndentation ∣ n) ∧
    ((∃ n ∈ evenIndents t.plain, n ≠ 0) → ∀ d, (∀ n ∈ evenIndents t.plain, d ∣ n) → d ∣ t.detectIndentation) ∧
    ((∀ n ∈ evenIndents t.plain, n = 0) → t.detectIndentation = 1) := by
  unfold detectIndentation
  show _ ∧ (∀ n ∈ evenIndents t.plain, _) ∧ ((∃ n ∈ evenIndents t.plain, _) → ∀ d, (∀ n ∈ evenIndents t.plain, _) → _) ∧
    ((∀ n ∈ evenIndents t.plain, _) → _)
  have hE : ((splitNL t.plain []).map leadingSpaces).filter (fun n => n % 2 == 0) = evenIndents t.plain := rfl
  simp only [hE]
  cases hev : evenIndents t.plain with
  | nil => simp
  | cons x xs =>
    simp only []
    obtain ⟨d1, d2⟩ := foldl_gcd_dvd xs x
    by_cases hg : xs.foldl Nat.gcd x = 0
    · have hx0 : x = 0 := Nat.eq_zero_of_zero_dvd (hg ▸ d1)
      have hxs0 : ∀ y ∈ xs, y = 0 := fun y hy => Nat.eq_zero_of_zero_dvd (hg ▸ d2 y hy)
      simp only [hg, beq_self_eq_true, if_true]
      refine ⟨Nat.le_refl _, fun n _ => Nat.one_dvd _, ?_, fun _ => trivial⟩
      rintro ⟨n, hn, hne⟩
      simp only [List.mem_cons] at hn
      rcases hn with rfl | hn
      · exact absurd hx0 hne
      · exact absurd (hxs0 n hn) hne
    · have hb : (xs.foldl Nat.gcd x == 0) = false := by simpa using hg
      simp only [hb, Bool.false_eq_true, if_false]
      refine ⟨by omega, ?_, ?_, ?_⟩
      · intro n hn
        simp only [List.mem_cons] at hn
        rcases hn with rfl | hn
        · exact d1
        · exact d2 n hn
      · intro _ d hd
        exact dvd_foldl_gcd d xs x (hd x (by simp)) (fun y hy => hd y (by simp [hy]))
      · intro hall
        exfalso
        apply hg
        have hx0 : x = 0 := hall x (by simp)
        have hxs0 : ∀ y ∈ xs, y = 0 := fun y hy => hall y (by simp [hy])
        subst hx0
        clear d1 d2 hb hg hev hall
        induction xs with
        | nil => rfl
        | cons a rest ih =>
          have ha : a = 0 := hxs0 a (by simp)
          subst ha
          simp only [List.foldl_cons, Nat.gcd_self]
          exact ih (fun y hy => hxs0 y (by simp [hy]))

end Text
end RichModel
