import RichModel.Model.Live
import RichModel.Lemmas.Term
/-!
Control state of a live display under arbitrary faults: hook depth, io redirection and cursor
visibility are functions of `started`, for every operation, every fault predicate and both code variants.
-/
namespace RichModel.Live
open RichModel RichModel.Screen

/-- The control fields the cleanup guarantee is about. -/
structure Bal (cfg : Cfg) (st : St) : Prop where
  hooks : st.hooks = if st.started then 1 else 0
  so : st.stdoutDepth = if st.started && cfg.redirectStdout then 1 else 0
  se : st.stderrDepth = if st.started && cfg.redirectStderr then 1 else 0
  rso : st.restoreStdout = if st.started && cfg.redirectStdout then some 0 else none
  rse : st.restoreStderr = if st.started && cfg.redirectStderr then some 0 else none

/-- Two states with the same control fields. -/
def CtlEq (a b : St) : Prop :=
  a.started = b.started ∧ a.hooks = b.hooks ∧ a.stdoutDepth = b.stdoutDepth ∧ a.stderrDepth = b.stderrDepth ∧
    a.restoreStdout = b.restoreStdout ∧ a.restoreStderr = b.restoreStderr

theorem CtlEq.rfl' (a : St) : CtlEq a a := ⟨rfl, rfl, rfl, rfl, rfl, rfl⟩

theorem CtlEq.trans {a b c : St} (h1 : CtlEq a b) (h2 : CtlEq b c) : CtlEq a c := by
  obtain ⟨a1, a2, a3, a4, a5, a6⟩ := h1
  obtain ⟨b1, b2, b3, b4, b5, b6⟩ := h2
  exact ⟨a1.trans b1, a2.trans b2, a3.trans b3, a4.trans b4, a5.trans b5, a6.trans b6⟩

theorem Bal.of_ctlEq {cfg : Cfg} {a b : St} (h : Bal cfg b) (e : CtlEq a b) : Bal cfg a := by
  obtain ⟨e1, e2, e3, e4, e5, e6⟩ := e
  exact ⟨by rw [e1, e2]; exact h.hooks, by rw [e1, e3]; exact h.so, by rw [e1, e4]; exact h.se,
    by rw [e1, e5]; exact h.rso, by rw [e1, e6]; exact h.rse⟩

/-- Output without show / hide cursor operations. -/
def Quiet (ops : List TermOp) : Prop := ∀ op ∈ ops, op ≠ .showCursor ∧ op ≠ .hideCursor

theorem Quiet.nil : Quiet [] := by intro op h; cases h

theorem Quiet.append {a b : List TermOp} (ha : Quiet a) (hb : Quiet b) : Quiet (a ++ b) := by
  intro op h
  rcases List.mem_append.mp h with h | h
  · exact ha op h
  · exact hb op h

theorem lastVis_quiet {ops : List TermOp} (h : Quiet ops) (v : Bool) : lastVis v ops = v := by
  induction ops generalizing v with
  | nil => rfl
  | cons op rest ih =>
    have h1 := h op (by simp)
    have h2 : Quiet rest := fun o ho => h o (by simp [ho])
    cases op with
    | showCursor => exact absurd rfl h1.1
    | hideCursor => exact absurd rfl h1.2
    | text _ => exact ih h2 v
    | lf => exact ih h2 v
    | cr => exact ih h2 v
    | cuu _ => exact ih h2 v
    | el2 => exact ih h2 v
    | sgr _ => exact ih h2 v
    | osc8 _ => exact ih h2 v

theorem quiet_eraseUp (n : Nat) : Quiet (eraseUp n) := by
  induction n with
  | zero => exact Quiet.nil
  | succ n ih =>
    intro op h
    simp only [eraseUp, List.mem_cons] at h
    rcases h with h | h | h
    · subst h; simp
    · subst h; simp
    · exact ih op h

theorem quiet_positionCursor (sh : Option (Nat × Nat)) : Quiet (positionCursor sh) := by
  cases sh with
  | none => exact Quiet.nil
  | some wh =>
    intro op h
    simp only [positionCursor, List.mem_cons] at h
    rcases h with h | h | h
    · subst h; simp
    · subst h; simp
    · exact quiet_eraseUp _ op h

theorem quiet_restoreCursor (sh : Option (Nat × Nat)) : Quiet (restoreCursor sh) := by
  cases sh with
  | none => exact Quiet.nil
  | some wh =>
    intro op h
    simp only [restoreCursor, List.mem_cons] at h
    rcases h with h | h
    · subst h; simp
    · exact quiet_eraseUp _ op h

theorem quiet_textOp (l : Line) : Quiet (textOp l) := by
  intro op h
  unfold textOp at h
  split at h
  · cases h
  · simp at h; subst h; simp

theorem quiet_emitLines (ls : List Line) : Quiet (emitLines ls) := by
  induction ls with
  | nil => exact Quiet.nil
  | cons l rest ih =>
    simp only [emitLines]
    refine Quiet.append (quiet_textOp l) ?_
    intro op h
    simp only [List.mem_cons] at h
    rcases h with h | h
    · subst h; simp
    · exact ih op h

theorem quiet_emitFrame (f : Frame) : Quiet (emitFrame f) := by
  induction f with
  | nil => exact Quiet.nil
  | cons l rest ih =>
    cases rest with
    | nil => exact quiet_textOp l
    | cons l2 rest2 =>
      simp only [emitFrame]
      refine Quiet.append (quiet_textOp l) ?_
      intro op h
      simp only [List.mem_cons] at h
      rcases h with h | h
      · subst h; simp
      · exact ih op h

/-- A hooked print touches no control field and writes no show / hide. -/
theorem hooked_ctl (cfg : Cfg) (fails : Nat → Bool) (st : St) (U : List Line) :
    CtlEq (hooked cfg fails st U).st st ∧ Quiet (hooked cfg fails st U).out := by
  cases hk : cfg.kind <;> simp only [hooked, hk]
  · split
    · exact ⟨⟨rfl, rfl, rfl, rfl, rfl, rfl⟩, Quiet.nil⟩
    · exact ⟨⟨rfl, rfl, rfl, rfl, rfl, rfl⟩, (Quiet.append (Quiet.append (quiet_positionCursor _) (quiet_emitLines _)) (quiet_emitFrame _))⟩
  · exact ⟨⟨rfl, rfl, rfl, rfl, rfl, rfl⟩, (Quiet.append (Quiet.append (quiet_positionCursor _) (quiet_emitLines _)) (quiet_emitFrame _))⟩
  · split
    · exact ⟨⟨rfl, rfl, rfl, rfl, rfl, rfl⟩, Quiet.nil⟩
    · exact ⟨⟨rfl, rfl, rfl, rfl, rfl, rfl⟩, (Quiet.append (Quiet.append (quiet_positionCursor _) (quiet_emitLines _)) (quiet_emitFrame _))⟩

theorem doPrint_ctl (cfg : Cfg) (fails : Nat → Bool) (st : St) (U : List Line) :
    CtlEq (doPrint cfg fails st U).st st ∧ Quiet (doPrint cfg fails st U).out := by
  unfold doPrint
  split
  · exact hooked_ctl cfg fails st U
  · exact ⟨CtlEq.rfl' _, quiet_emitLines _⟩

theorem doRefresh_ctl (cfg : Cfg) (fails : Nat → Bool) (st : St) :
    CtlEq (doRefresh cfg fails st).st st ∧ Quiet (doRefresh cfg fails st).out := by
  cases hk : cfg.kind <;> simp only [doRefresh, hk]
  · split
    · exact hooked_ctl cfg fails st []
    · exact ⟨CtlEq.rfl' _, Quiet.nil⟩
  · generalize columnCalls fails st.calls st.tasks = cc
    obtain ⟨c, ok⟩ := cc
    cases ok
    · exact ⟨⟨rfl, rfl, rfl, rfl, rfl, rfl⟩, Quiet.nil⟩
    · simp only [Bool.not_true, Bool.false_eq_true, if_false]
      split
      · have := hooked_ctl cfg fails { st with calls := c, renderable := tasksTable st.tasks } []
        exact ⟨this.1.trans ⟨rfl, rfl, rfl, rfl, rfl, rfl⟩, this.2⟩
      · exact ⟨⟨rfl, rfl, rfl, rfl, rfl, rfl⟩, Quiet.nil⟩
  · split
    · exact hooked_ctl cfg fails st []
    · exact ⟨CtlEq.rfl' _, Quiet.nil⟩

/-- The `finally:` of `stop` on a state whose io fields are those of a started display. -/
theorem cleanup_bal {cfg : Cfg} {st : St} (h : Bal cfg { st with started := true }) (hs : st.started = false) :
    Bal cfg (cleanup st) ∧ (cleanup st).started = false := by
  obtain ⟨h1, h2, h3, h4, h5⟩ := h
  simp only [Bool.true_and] at h1 h2 h3 h4 h5
  obtain ⟨started, shape, rend, ov, ov0, hooks, so, se, rso, rse, tasks, ti, calls⟩ := st
  simp only at h1 h2 h3 h4 h5 hs
  subst hs
  cases hro : cfg.redirectStdout <;> cases hre : cfg.redirectStderr <;>
    simp [hro, hre] at h2 h3 h4 h5 <;> subst h1 h2 h3 h4 h5 <;>
    exact ⟨⟨by simp [cleanup, disableRedirect], by simp [cleanup, disableRedirect, hro],
      by simp [cleanup, disableRedirect, hre], by simp [cleanup, disableRedirect, hro],
      by simp [cleanup, disableRedirect, hre]⟩, by simp [cleanup, disableRedirect]⟩

/-- `stop`: afterwards the display is not started and balanced, whatever failed; the cursor is shown
if it was started. -/
theorem stopSt_ctl (cfg : Cfg) (st : St) : CtlEq (stopSt cfg st) { st with started := false } := by
  unfold stopSt; cases cfg.kind <;> exact ⟨rfl, rfl, rfl, rfl, rfl, rfl⟩

theorem doStop_ctl (cfg : Cfg) (fails : Nat → Bool) (st : St) (h : Bal cfg st) (v : Bool) :
    Bal cfg (doStop cfg fails st).st ∧ (doStop cfg fails st).st.started = false ∧
      lastVis v (doStop cfg fails st).out = (if st.started then true else v) := by
  by_cases hst : st.started = true
  · have e : doStop cfg fails st = stopTail cfg (doRefresh cfg fails (stopSt cfg st)) := by
      simp [doStop, hst]
    rw [e]
    have hc := (doRefresh_ctl cfg fails (stopSt cfg st)).1.trans (stopSt_ctl cfg st)
    have hq := (doRefresh_ctl cfg fails (stopSt cfg st)).2
    generalize doRefresh cfg fails (stopSt cfg st) = r at hc hq ⊢
    have key : Bal cfg (cleanup r.st) ∧ (cleanup r.st).started = false := by
      obtain ⟨c1, c2, c3, c4, c5, c6⟩ := hc
      refine cleanup_bal ?_ c1
      exact Bal.of_ctlEq h ⟨hst.symm, c2, c3, c4, c5, c6⟩
    have key2 : Bal cfg (resetSt cfg (cleanup r.st)) ∧ (resetSt cfg (cleanup r.st)).started = false := by
      unfold resetSt; split
      · exact ⟨Bal.of_ctlEq key.1 ⟨rfl, rfl, rfl, rfl, rfl, rfl⟩, key.2⟩
      · exact key
    simp only [hst, if_true, stopTail]
    cases hre : r.err with
    | some e =>
      refine ⟨key.1, key.2, ?_⟩
      show lastVis v (r.out ++ [TermOp.showCursor]) = true
      rw [lastVis_append, lastVis_quiet hq]; rfl
    | none =>
      refine ⟨key2.1, key2.2, ?_⟩
      show lastVis v (r.out ++ [TermOp.lf, TermOp.showCursor] ++ _) = true
      rw [lastVis_append, lastVis_append, lastVis_quiet hq]
      have : lastVis v [TermOp.lf, TermOp.showCursor] = true := rfl
      rw [this]
      split
      · exact lastVis_quiet (quiet_restoreCursor _) _
      · rfl
  · have hst' : st.started = false := by simpa using hst
    simp [doStop, hst', lastVis]
    exact h

theorem enableRedirect_bal {cfg : Cfg} {st : St} (h : Bal cfg st) (hs : st.started = false) :
    Bal cfg { enableRedirect cfg st with started := true, hooks := st.hooks + 1 } := by
  obtain ⟨h1, h2, h3, h4, h5⟩ := h
  obtain ⟨started, shape, rend, ov, ov0, hooks, so, se, rso, rse, tasks, ti, calls⟩ := st
  simp only at h1 h2 h3 h4 h5 hs
  subst hs
  simp at h1 h2 h3 h4 h5
  subst h1 h2 h3 h4 h5
  cases hro : cfg.redirectStdout <;> cases hre : cfg.redirectStderr <;>
    exact ⟨by simp [enableRedirect, hro, hre], by simp [enableRedirect, hro, hre], by simp [enableRedirect, hro, hre],
      by simp [enableRedirect, hro, hre], by simp [enableRedirect, hro, hre]⟩

/-- `start`: balanced afterwards; the cursor is hidden exactly when the display ends up started; a failing
`start` leaves the display started only in the unguarded `Progress.start` of rich 9.10.0 as found (before fix 4e4f7e5). -/
theorem doStart_ctl (cfg : Cfg) (fails : Nat → Bool) (st : St) (h : Bal cfg st) (v : Bool) (hv : v = !st.started) :
    Bal cfg (doStart cfg fails st).st ∧
      lastVis v (doStart cfg fails st).out = !(doStart cfg fails st).st.started ∧
      ((doStart cfg fails st).err = none → st.started = false → (doStart cfg fails st).st.started = true) ∧
      ((doStart cfg fails st).err ≠ none → (cfg.kind ≠ .progress ∨ cfg.startGuard = true) →
        (doStart cfg fails st).st.started = false) := by
  by_cases hst : st.started = true
  · simp [doStart, hst, lastVis, hv]; exact h
  · have hst' : st.started = false := by simpa using hst
    have hb1 := enableRedirect_bal h hst'
    cases hk : cfg.kind
    · simp only [doStart, hst', hk]
      exact ⟨hb1, rfl, fun _ _ => rfl, fun he => absurd rfl he⟩
    · -- progress
      simp only [doStart, hst', hk, Bool.false_eq_true, if_false]
      have hc := doRefresh_ctl cfg fails { enableRedirect cfg st with started := true, hooks := st.hooks + 1 }
      generalize doRefresh cfg fails { enableRedirect cfg st with started := true, hooks := st.hooks + 1 } = r at hc
      have hbr : Bal cfg r.st := Bal.of_ctlEq hb1 hc.1
      have hsr : r.st.started = true := hc.1.1
      cases hre : r.err with
      | none =>
        simp only
        refine ⟨hbr, ?_, fun _ _ => hsr, fun he => absurd rfl he⟩
        show lastVis false r.out = !r.st.started
        rw [lastVis_quiet hc.2, hsr]; rfl
      | some e =>
        simp only
        by_cases hg : cfg.startGuard = true
        · simp only [hg, if_true]
          have hstop := doStop_ctl cfg fails r.st hbr false
          refine ⟨hstop.1, ?_, fun he => by simp at he, fun _ _ => hstop.2.1⟩
          show lastVis false (r.out ++ (doStop cfg fails r.st).out) = !(doStop cfg fails r.st).st.started
          rw [lastVis_append, lastVis_quiet hc.2, hstop.2.2, hstop.2.1, hsr]; rfl
        · have hg' : cfg.startGuard = false := by simpa using hg
          simp only [hg', Bool.false_eq_true, if_false]
          refine ⟨hbr, ?_, fun he => by simp at he, fun _ hor => ?_⟩
          · show lastVis false r.out = !r.st.started
            rw [lastVis_quiet hc.2, hsr]; rfl
          · rcases hor with h1 | h1
            · exact absurd rfl h1
            · first | (rw [hg'] at h1; cases h1) | exact absurd h1 (by simp [hg']) | cases h1
    · simp only [doStart, hst', hk]
      exact ⟨hb1, rfl, fun _ _ => rfl, fun he => absurd rfl he⟩

/-- Every operation keeps the control state balanced and the cursor hidden exactly while started. -/
theorem step_ctl (cfg : Cfg) (fails : Nat → Bool) (st : St) (op : Op) (h : Bal cfg st) (v : Bool) (hv : v = !st.started) :
    Bal cfg (step cfg fails st op).st ∧ lastVis v (step cfg fails st op).out = !(step cfg fails st op).st.started := by
  have silent : ∀ r : Res, CtlEq r.st st → Quiet r.out → Bal cfg r.st ∧ lastVis v r.out = !r.st.started := by
    intro r he hq
    exact ⟨Bal.of_ctlEq h he, by rw [lastVis_quiet hq, he.1, hv]⟩
  cases op with
  | start => exact ⟨(doStart_ctl cfg fails st h v hv).1, (doStart_ctl cfg fails st h v hv).2.1⟩
  | stop =>
    have := doStop_ctl cfg fails st h v
    refine ⟨this.1, ?_⟩
    show lastVis v (doStop cfg fails st).out = !(doStop cfg fails st).st.started
    rw [this.2.2, this.2.1, hv]
    cases st.started <;> rfl
  | print ls => exact silent _ (doPrint_ctl cfg fails st ls).1 (doPrint_ctl cfg fails st ls).2
  | printBare =>
    simp only [step]
    split
    · refine silent _ (CtlEq.rfl' _) ?_
      intro op hop; simp at hop; subst hop; simp
    · exact silent _ (doPrint_ctl cfg fails st _).1 (doPrint_ctl cfg fails st _).2
  | refresh => exact silent _ (doRefresh_ctl cfg fails st).1 (doRefresh_ctl cfg fails st).2
  | update f rf =>
    simp only [step]
    split
    · split
      · have := doRefresh_ctl cfg fails { st with renderable := f }
        exact silent _ (this.1.trans ⟨rfl, rfl, rfl, rfl, rfl, rfl⟩) this.2
      · exact silent _ ⟨rfl, rfl, rfl, rfl, rfl, rfl⟩ Quiet.nil
    · have := doRefresh_ctl cfg fails { st with renderable := statusFrame f }
      exact silent _ (this.1.trans ⟨rfl, rfl, rfl, rfl, rfl, rfl⟩) this.2
    · exact silent _ (CtlEq.rfl' _) Quiet.nil
  | addTask desc vis =>
    simp only [step]
    have := doRefresh_ctl cfg fails (addTaskSt st desc vis)
    split
    · exact silent _ (this.1.trans ⟨rfl, rfl, rfl, rfl, rfl, rfl⟩) this.2
    · refine silent _ ?_ this.2
      exact CtlEq.trans (b := (doRefresh cfg fails (addTaskSt st desc vis)).st) ⟨rfl, rfl, rfl, rfl, rfl, rfl⟩
        (this.1.trans ⟨rfl, rfl, rfl, rfl, rfl, rfl⟩)
  | advance id n =>
    simp only [step]
    split
    · exact silent _ (CtlEq.rfl' _) Quiet.nil
    · exact silent _ ⟨rfl, rfl, rfl, rfl, rfl, rfl⟩ Quiet.nil
  | setVisible id vis rf =>
    simp only [step]
    split
    · exact silent _ (CtlEq.rfl' _) Quiet.nil
    · split
      · rename_i t _ _
        have := doRefresh_ctl cfg fails { st with tasks := replaceTask st.tasks { t with visible := vis } }
        exact silent _ (this.1.trans ⟨rfl, rfl, rfl, rfl, rfl, rfl⟩) this.2
      · exact silent _ ⟨rfl, rfl, rfl, rfl, rfl, rfl⟩ Quiet.nil
  | removeTask id =>
    simp only [step]
    split
    · exact silent _ (CtlEq.rfl' _) Quiet.nil
    · exact silent _ ⟨rfl, rfl, rfl, rfl, rfl, rfl⟩ Quiet.nil

/-- The body of a `with` block. -/
theorem runBody_ctl (cfg : Cfg) (fails : Nat → Bool) (body : List Op) :
    ∀ (st : St) (raiseAt : Option Nat) (v : Bool), Bal cfg st → v = !st.started →
      Bal cfg (runBody cfg fails st body raiseAt).1 ∧
      lastVis v (runBody cfg fails st body raiseAt).2.1 = !(runBody cfg fails st body raiseAt).1.started ∧
      (∀ j, raiseAt = some j → j ≤ body.length → (runBody cfg fails st body raiseAt).2.2 = true) := by
  induction body with
  | nil =>
    intro st raiseAt v h hv
    cases raiseAt with
    | none => exact ⟨h, by simp [runBody, lastVis, hv], fun j hj => by cases hj⟩
    | some j =>
      cases j with
      | zero => exact ⟨h, by simp [runBody, lastVis, hv], fun _ _ _ => rfl⟩
      | succ j => exact ⟨h, by simp [runBody, lastVis, hv], fun j' hj hle => by cases hj; simp at hle⟩
  | cons op rest ih =>
    intro st raiseAt v h hv
    cases raiseAt with
    | some j =>
      cases j with
      | zero => exact ⟨h, by simp [runBody, lastVis, hv], fun _ _ _ => rfl⟩
      | succ j =>
        have hs := step_ctl cfg fails st op h v hv
        simp only [runBody]
        cases he : (step cfg fails st op).err with
        | some e => exact ⟨hs.1, hs.2, fun _ _ _ => rfl⟩
        | none =>
          simp only
          have := ih (step cfg fails st op).st (some j) (!(step cfg fails st op).st.started) hs.1 rfl
          generalize hrb : runBody cfg fails (step cfg fails st op).st rest (Option.map (fun x => x - 1) (some (j + 1))) = rb
          have hrb' : runBody cfg fails (step cfg fails st op).st rest (some j) = rb := by rw [← hrb]; rfl
          rw [hrb'] at this
          obtain ⟨a, b, c⟩ := rb
          refine ⟨this.1, ?_, fun j' hj hle => ?_⟩
          · show lastVis v ((step cfg fails st op).out ++ b) = !a.started
            rw [lastVis_append, hs.2]; exact this.2.1
          · cases hj
            exact this.2.2 j rfl (by simp at hle; omega)
    | none =>
      have hs := step_ctl cfg fails st op h v hv
      simp only [runBody]
      cases he : (step cfg fails st op).err with
      | some e => exact ⟨hs.1, hs.2, fun j hj => by cases hj⟩
      | none =>
        simp only
        have := ih (step cfg fails st op).st none (!(step cfg fails st op).st.started) hs.1 rfl
        generalize hrb : runBody cfg fails (step cfg fails st op).st rest (Option.map (fun x => x - 1) none) = rb
        have hrb' : runBody cfg fails (step cfg fails st op).st rest none = rb := by rw [← hrb]; rfl
        rw [hrb'] at this
        obtain ⟨a, b, c⟩ := rb
        refine ⟨this.1, ?_, fun j hj => by cases hj⟩
        show lastVis v ((step cfg fails st op).out ++ b) = !a.started
        rw [lastVis_append, hs.2]; exact this.2.1

end RichModel.Live
