import RichModel.Model.Live
import RichModel.Lemmas.Term
/-!
Control state of a live display under arbitrary faults: hook depth, io redirection and cursor
visibility are functions of `started`, for every operation, every fault predicate and both code variants.
-/
namespace RichModel.Live
open RichModel RichModel.Screen

/-- Is `sys.stdout` / `sys.stderr` redirected while the display runs?  (Only on a terminal.) -/
def Cfg.rOut (cfg : Cfg) : Bool := cfg.terminal && cfg.redirectStdout
def Cfg.rErr (cfg : Cfg) : Bool := cfg.terminal && cfg.redirectStderr

/-- The control fields the cleanup guarantee is about. -/
structure Bal (cfg : Cfg) (st : St) : Prop where
  hooks : st.hooks = if st.started then 1 else 0
  so : st.stdoutDepth = if st.started && cfg.rOut then 1 else 0
  se : st.stderrDepth = if st.started && cfg.rErr then 1 else 0
  rso : st.restoreStdout = if st.started && cfg.rOut then some 0 else none
  rse : st.restoreStderr = if st.started && cfg.rErr then some 0 else none

/-- Two states with the same control fields. -/
def CtlEq (a b : St) : Prop :=
  a.started = b.started ∧ a.hooks = b.hooks ∧ a.stdoutDepth = b.stdoutDepth ∧ a.stderrDepth = b.stderrDepth ∧
    a.restoreStdout = b.restoreStdout ∧ a.restoreStderr = b.restoreStderr

theorem CtlEq.rfl' (a : St) : CtlEq a a := ⟨rfl, rfl, rfl, rfl, rfl, rfl⟩

theorem CtlEq.trans {a b c : St} (h1 : CtlEq a b) (h2 : CtlEq b c) : CtlEq a c := by
  obtain ⟨a1, a2, a3, a4, a5, a6⟩ := h1
  obtain ⟨b1, b2, b3, b4, b5, b6⟩ := h2
  exact ⟨a1.trans b1, a2.trans b2, a3.trans b3, a4.trans b4, a5.trans b5, a6.trans b6⟩

theorem Bal.of_ctlEq {cfg : Cfg} {a b : St} (h : Bal cfg b) (e : CtlEq a b) : Bal cfg a := by
  obtain ⟨e1, e2, e3, e4, e5, e6⟩ := e
  exact ⟨by rw [e1, e2]; exact h.hooks, by rw [e1, e3]; exact h.so, by rw [e1, e4]; exact h.se,
    by rw [e1, e5]; exact h.rso, by rw [e1, e6]; exact h.rse⟩

/-- Output without show / hide cursor operations. -/
def Quiet (ops : List TermOp) : Prop := ∀ op ∈ ops, op ≠ .showCursor ∧ op ≠ .hideCursor

theorem Quiet.nil : Quiet [] := by intro op h; cases h

theorem Quiet.append {a b : List TermOp} (ha : Quiet a) (hb : Quiet b) : Quiet (a ++ b) := by
  intro op h
  rcases List.mem_append.mp h with h | h
  · exact ha op h
  · exact hb op h

theorem lastVis_quiet {ops : List TermOp} (h : Quiet ops) (v : Bool) : lastVis v ops = v := by
  induction ops generalizing v with
  | nil => rfl
  | cons op rest ih =>
    have h1 := h op (by simp)
    have h2 : Quiet rest := fun o ho => h o (by simp [ho])
    cases op with
    | showCursor => exact absurd rfl h1.1
    | hideCursor => exact absurd rfl h1.2
    | text _ => exact ih h2 v
    | lf => exact ih h2 v
    | cr => exact ih h2 v
    | cuu _ => exact ih h2 v
    | el2 => exact ih h2 v
    | sgr _ => exact ih h2 v
    | osc8 _ => exact ih h2 v

theorem quiet_eraseUp (n : Nat) : Quiet (eraseUp n) := by
  induction n with
  | zero => exact Quiet.nil
  | succ n ih =>
    intro op h
    simp only [eraseUp, List.mem_cons] at h
    rcases h with h | h | h
    · subst h; simp
    · subst h; simp
    · exact ih op h

theorem quiet_positionCursor (sh : Option (Nat × Nat)) : Quiet (positionCursor sh) := by
  cases sh with
  | none => exact Quiet.nil
  | some wh =>
    intro op h
    simp only [positionCursor, List.mem_cons] at h
    rcases h with h | h | h
    · subst h; simp
    · subst h; simp
    · exact quiet_eraseUp _ op h

theorem quiet_restoreCursor (fix : Bool) (sh : Option (Nat × Nat)) : Quiet (restoreCursor fix sh) := by
  cases sh with
  | none => exact Quiet.nil
  | some wh =>
    intro op h
    simp only [restoreCursor, List.mem_cons] at h
    rcases h with h | h
    · subst h; simp
    · exact quiet_eraseUp _ op h

theorem quiet_textOp (l : Line) : Quiet (textOp l) := by
  intro op h
  unfold textOp at h
  split at h
  · cases h
  · simp at h; subst h; simp

theorem quiet_emitLines (ls : List Line) : Quiet (emitLines ls) := by
  induction ls with
  | nil => exact Quiet.nil
  | cons l rest ih =>
    simp only [emitLines]
    refine Quiet.append (quiet_textOp l) ?_
    intro op h
    simp only [List.mem_cons] at h
    rcases h with h | h
    · subst h; simp
    · exact ih op h

theorem quiet_emitFrame (f : Frame) : Quiet (emitFrame f) := by
  induction f with
  | nil => exact Quiet.nil
  | cons l rest ih =>
    cases rest with
    | nil => exact quiet_textOp l
    | cons l2 rest2 =>
      simp only [emitFrame]
      refine Quiet.append (quiet_textOp l) ?_
      intro op h
      simp only [List.mem_cons] at h
      rcases h with h | h
      · subst h; simp
      · exact ih op h

/-- A hooked print touches no control field and writes no show / hide. -/
theorem hooked_ctl (cfg : Cfg) (fails : Nat → Bool) (st : St) (U : List Line) :
    CtlEq (hooked cfg fails st U).st st ∧ Quiet (hooked cfg fails st U).out := by
  cases hk : cfg.kind <;> simp only [hooked, hk]
  · split
    · exact ⟨⟨rfl, rfl, rfl, rfl, rfl, rfl⟩, Quiet.nil⟩
    · exact ⟨⟨rfl, rfl, rfl, rfl, rfl, rfl⟩, (Quiet.append (Quiet.append (quiet_positionCursor _) (quiet_emitLines _)) (quiet_emitFrame _))⟩
  · exact ⟨⟨rfl, rfl, rfl, rfl, rfl, rfl⟩, (Quiet.append (Quiet.append (quiet_positionCursor _) (quiet_emitLines _)) (quiet_emitFrame _))⟩
  · split
    · exact ⟨⟨rfl, rfl, rfl, rfl, rfl, rfl⟩, Quiet.nil⟩
    · exact ⟨⟨rfl, rfl, rfl, rfl, rfl, rfl⟩, (Quiet.append (Quiet.append (quiet_positionCursor _) (quiet_emitLines _)) (quiet_emitFrame _))⟩

theorem hookedFile_ctl (cfg : Cfg) (fails : Nat → Bool) (st : St) (U : List Line) :
    CtlEq (hookedFile cfg fails st U).st st ∧ Quiet (hookedFile cfg fails st U).out := by
  unfold hookedFile
  split
  · exact ⟨⟨rfl, rfl, rfl, rfl, rfl, rfl⟩, Quiet.nil⟩
  · exact ⟨⟨rfl, rfl, rfl, rfl, rfl, rfl⟩, Quiet.append (quiet_emitLines _) (quiet_emitFrame _)⟩

theorem doPrint_ctl (cfg : Cfg) (fails : Nat → Bool) (st : St) (U : List Line) :
    CtlEq (doPrint cfg fails st U).st st ∧ Quiet (doPrint cfg fails st U).out := by
  unfold doPrint
  split
  · split
    · exact hooked_ctl cfg fails st U
    · split
      · exact hookedFile_ctl cfg fails st U
      · exact ⟨CtlEq.rfl' _, quiet_emitLines _⟩
  · exact ⟨CtlEq.rfl' _, quiet_emitLines _⟩

theorem doRefresh_ctl (cfg : Cfg) (fails : Nat → Bool) (st : St) :
    CtlEq (doRefresh cfg fails st).st st ∧ Quiet (doRefresh cfg fails st).out := by
  have other : CtlEq ((if cfg.ansi then (if st.hooks > 0 then hooked cfg fails st [] else { st := st })
      else if !st.started && !cfg.transient then doPrint cfg fails st [] else { st := st }) : Res).st st ∧
      Quiet ((if cfg.ansi then (if st.hooks > 0 then hooked cfg fails st [] else { st := st })
      else if !st.started && !cfg.transient then doPrint cfg fails st [] else { st := st }) : Res).out := by
    split
    · split
      · exact hooked_ctl cfg fails st []
      · exact ⟨CtlEq.rfl' _, Quiet.nil⟩
    · split
      · exact doPrint_ctl cfg fails st []
      · exact ⟨CtlEq.rfl' _, Quiet.nil⟩
  cases hk : cfg.kind <;> simp only [doRefresh, hk]
  · exact other
  · split
    · exact ⟨CtlEq.rfl' _, Quiet.nil⟩
    · generalize columnCalls fails st.calls st.tasks = cc
      obtain ⟨c, ok⟩ := cc
      cases ok
      · exact ⟨⟨rfl, rfl, rfl, rfl, rfl, rfl⟩, Quiet.nil⟩
      · simp only [Bool.not_true, Bool.false_eq_true, if_false]
        split
        · have := hooked_ctl cfg fails { st with calls := c, renderable := taskRows st.tasks } []
          exact ⟨this.1.trans ⟨rfl, rfl, rfl, rfl, rfl, rfl⟩, this.2⟩
        · exact ⟨⟨rfl, rfl, rfl, rfl, rfl, rfl⟩, Quiet.nil⟩
  · exact other

/-- The `finally:` of `stop` on a state whose io fields are those of a started display. -/
theorem cleanup_bal {cfg : Cfg} {st : St} (h : Bal cfg { st with started := true }) (hs : st.started = false) :
    Bal cfg (cleanup st) ∧ (cleanup st).started = false := by
  obtain ⟨h1, h2, h3, h4, h5⟩ := h
  simp only [Bool.true_and] at h1 h2 h3 h4 h5
  obtain ⟨started, shape, rend, ov, ov0, hooks, so, se, rso, rse, bo, be, tasks, ti, calls, wd⟩ := st
  simp only at h1 h2 h3 h4 h5 hs
  subst hs
  cases hro : cfg.rOut <;> cases hre : cfg.rErr <;>
    simp [hro, hre] at h2 h3 h4 h5 <;> subst h1 h2 h3 h4 h5 <;>
    exact ⟨⟨by simp [cleanup, disableRedirect], by simp [cleanup, disableRedirect, hro],
      by simp [cleanup, disableRedirect, hre], by simp [cleanup, disableRedirect, hro],
      by simp [cleanup, disableRedirect, hre]⟩, by simp [cleanup, disableRedirect]⟩

theorem setBuf_ctl (st : St) (err : Bool) (b : Line) : CtlEq (setBuf st err b) st := by
  unfold setBuf; split <;> exact ⟨rfl, rfl, rfl, rfl, rfl, rfl⟩

theorem flushLive_ctl (cfg : Cfg) (fails : Nat → Bool) (st : St) (err : Bool) :
    CtlEq (flushLive cfg fails st err).st st ∧ Quiet (flushLive cfg fails st err).out := by
  unfold flushLive
  by_cases hc : (proxied st err && !(getBuf st err).isEmpty) = true
  · simp only [hc, if_true]
    have hp := doPrint_ctl cfg fails st [getBuf st err]
    generalize doPrint cfg fails st [getBuf st err] = r at hp
    cases hre : r.err with
    | some e => exact hp
    | none => exact ⟨(setBuf_ctl _ _ _).trans hp.1, hp.2⟩
  · simp only [hc]
    exact ⟨CtlEq.rfl' _, Quiet.nil⟩

theorem flushDead_ctl (cfg : Cfg) (fails : Nat → Bool) (st : St) (err : Bool) :
    CtlEq (flushDead cfg fails st err).st st ∧ Quiet (flushDead cfg fails st err).out := by
  unfold flushDead
  have hp := doPrint_ctl cfg fails (setBuf st err []) [getBuf st err]
  by_cases hc : ((if err = true then st.restoreStderr.isSome else st.restoreStdout.isSome) && !(getBuf st err).isEmpty) = true
  · simp only [hc, if_true]
    exact ⟨hp.1.trans (setBuf_ctl _ _ _), hp.2⟩
  · simp only [hc]
    exact ⟨CtlEq.rfl' _, Quiet.nil⟩

theorem dropFlush_ctl (cfg : Cfg) (fails : Nat → Bool) (st : St) (alive : Option Bool) :
    CtlEq (dropFlush cfg fails st alive).st st ∧ Quiet (dropFlush cfg fails st alive).out := by
  unfold dropFlush
  have h1 : CtlEq (if alive == some false then ({ st := st } : Res) else flushDead cfg fails st false).st st ∧
      Quiet (if alive == some false then ({ st := st } : Res) else flushDead cfg fails st false).out := by
    split
    · exact ⟨CtlEq.rfl' _, Quiet.nil⟩
    · exact flushDead_ctl cfg fails st false
  generalize (if alive == some false then ({ st := st } : Res) else flushDead cfg fails st false) = r1 at h1
  have h2 : CtlEq (if alive == some true then ({ st := r1.st } : Res) else flushDead cfg fails r1.st true).st r1.st ∧
      Quiet (if alive == some true then ({ st := r1.st } : Res) else flushDead cfg fails r1.st true).out := by
    split
    · exact ⟨CtlEq.rfl' _, Quiet.nil⟩
    · exact flushDead_ctl cfg fails r1.st true
  exact ⟨h2.1.trans h1.1, Quiet.append h1.2 h2.2⟩

theorem lateFlush_ctl (cfg : Cfg) (fails : Nat → Bool) (st : St) (alive : Option Bool) :
    CtlEq (lateFlush cfg fails st alive).st st ∧ Quiet (lateFlush cfg fails st alive).out := by
  cases alive with
  | none => exact ⟨CtlEq.rfl' _, Quiet.nil⟩
  | some e =>
    simp only [lateFlush]
    split
    · exact ⟨CtlEq.rfl' _, Quiet.nil⟩
    · have hp := doPrint_ctl cfg fails (setBuf st e []) [getBuf st e]
      exact ⟨hp.1.trans (setBuf_ctl _ _ _), hp.2⟩

/-- The cursor visibility a display in state `started` is to have: hidden exactly while it runs on a
terminal that understands the codes. -/
def vis (cfg : Cfg) (started : Bool) : Bool := !(started && cfg.ansi)

theorem lastVis_showOp (cfg : Cfg) (v : Bool) : lastVis v (showOp cfg) = (if cfg.ansi then true else v) := by
  unfold showOp; split <;> rfl

theorem lastVis_hideOp (cfg : Cfg) (v : Bool) : lastVis v (hideOp cfg) = (if cfg.ansi then false else v) := by
  unfold hideOp; split <;> rfl

theorem lastVis_finOut (cfg : Cfg) {o : List TermOp} (ho : Quiet o) (v : Bool) :
    lastVis v (finOut cfg o) = (if cfg.ansi then true else v) := by
  unfold finOut
  cases cfg.kind
  · rw [lastVis_append, lastVis_quiet ho, lastVis_showOp]
  · rw [lastVis_append, lastVis_showOp, lastVis_quiet ho]
  · rw [lastVis_append, lastVis_quiet ho, lastVis_showOp]

theorem stopSt_ctl (cfg : Cfg) (st : St) : CtlEq (stopSt cfg st) { st with started := false } := by
  unfold stopSt; cases cfg.kind <;> exact ⟨rfl, rfl, rfl, rfl, rfl, rfl⟩

/-- The tail of `stop` (line feed, `finally:` block, transient erase) after anything that kept the control
fields of the stopping display and wrote no show / hide. -/
theorem stopTail_ctl (cfg : Cfg) (fails : Nat → Bool) (st : St) (h : Bal cfg st) (hst : st.started = true)
    (r : Res) (hc : CtlEq r.st { st with started := false }) (hq : Quiet r.out) (v : Bool) (alive : Option Bool := none) :
    Bal cfg (stopTail cfg fails r alive).st ∧ (stopTail cfg fails r alive).st.started = false ∧
      lastVis v (stopTail cfg fails r alive).out = (if cfg.ansi then true else v) := by
  have hd := dropFlush_ctl cfg fails r.st alive
  generalize hdd : dropFlush cfg fails r.st alive = d at hd
  have key : Bal cfg (cleanup d.st) ∧ (cleanup d.st).started = false := by
    obtain ⟨c1, c2, c3, c4, c5, c6⟩ := hd.1.trans hc
    refine cleanup_bal ?_ c1
    exact Bal.of_ctlEq h ⟨hst.symm, c2, c3, c4, c5, c6⟩
  have key2 : Bal cfg (resetSt cfg (cleanup d.st)) ∧ (resetSt cfg (cleanup d.st)).started = false := by
    unfold resetSt; split
    · exact ⟨Bal.of_ctlEq key.1 ⟨rfl, rfl, rfl, rfl, rfl, rfl⟩, key.2⟩
    · exact key
  simp only [stopTail, hdd]
  cases hre : r.err with
  | some e =>
    have hl := lateFlush_ctl cfg fails (cleanup d.st) alive
    refine ⟨Bal.of_ctlEq key.1 hl.1, by rw [hl.1.1]; exact key.2, ?_⟩
    show lastVis v (r.out ++ finOut cfg d.out ++ (lateFlush cfg fails (cleanup d.st) alive).out) = _
    rw [lastVis_append, lastVis_append, lastVis_quiet hl.2, lastVis_finOut cfg hd.2, lastVis_quiet hq]
  | none =>
    refine ⟨key2.1, key2.2, ?_⟩
    show lastVis v (r.out ++ (if cfg.terminal && !cfg.quietStop then [TermOp.lf] else []) ++ finOut cfg d.out ++ _) = _
    have q1 : Quiet (r.out ++ (if cfg.terminal && !cfg.quietStop then [TermOp.lf] else [])) := by
      refine Quiet.append hq ?_
      split
      · intro op hop; simp at hop; subst hop; simp
      · exact Quiet.nil
    have q3 : Quiet (if cfg.transient && cfg.ansi && !cfg.quietStop then restoreCursor cfg.blankFix (cleanup d.st).shape else []) := by
      split
      · exact quiet_restoreCursor _ _
      · exact Quiet.nil
    rw [lastVis_append, lastVis_append, lastVis_quiet q1, lastVis_finOut cfg hd.2, lastVis_quiet q3]

/-- `stop`: afterwards the display is not started and balanced, whatever failed; the cursor is shown
if it was started (on a terminal that hid it). -/
theorem doStop_ctl (cfg : Cfg) (fails : Nat → Bool) (st : St) (h : Bal cfg st) (v : Bool) :
    Bal cfg (doStop cfg fails st).st ∧ (doStop cfg fails st).st.started = false ∧
      lastVis v (doStop cfg fails st).out = (if st.started && cfg.ansi then true else v) := by
  by_cases hst : st.started = true
  · simp only [hst, Bool.true_and]
    have tail := fun r hc hq v alive => stopTail_ctl cfg fails st h hst r hc hq v alive
    by_cases hf : cfg.flushFix = true
    · simp only [doStop, hst, hf, Bool.not_true, Bool.false_eq_true, if_false, if_true]
      have h1 := flushLive_ctl cfg fails { st with started := false } false
      generalize flushLive cfg fails { st with started := false } false = r1 at h1
      cases he1 : r1.err with
      | some e => exact tail r1 h1.1 h1.2 v (some false)
      | none =>
        simp only
        have h2 := flushLive_ctl cfg fails r1.st true
        generalize flushLive cfg fails r1.st true = r2 at h2
        cases he2 : r2.err with
        | some e =>
          have := tail { r2 with out := r1.out ++ r2.out } (h2.1.trans h1.1) (Quiet.append h1.2 h2.2) v (some true)
          rw [he2] at this
          exact this
        | none =>
          simp only
          have h3 := doRefresh_ctl cfg fails (stopSt cfg r2.st)
          have hs3 : CtlEq (stopSt cfg r2.st) { st with started := false } := by
            have a := stopSt_ctl cfg r2.st
            have b := h2.1.trans h1.1
            obtain ⟨b1, b2, b3, b4, b5, b6⟩ := b
            exact a.trans ⟨rfl, b2, b3, b4, b5, b6⟩
          exact tail { doRefresh cfg fails (stopSt cfg r2.st) with out := r1.out ++ r2.out ++ (doRefresh cfg fails (stopSt cfg r2.st)).out }
            (h3.1.trans hs3) (Quiet.append (Quiet.append h1.2 h2.2) h3.2) v none
    · have hf' : cfg.flushFix = false := by simpa using hf
      simp only [doStop, hst, hf', Bool.not_true, Bool.false_eq_true, if_false]
      have h3 := doRefresh_ctl cfg fails (stopSt cfg st)
      exact tail _ (h3.1.trans (stopSt_ctl cfg st)) h3.2 v none
  · have hst' : st.started = false := by simpa using hst
    simp [doStop, hst', lastVis]
    exact h

theorem enableRedirect_bal {cfg : Cfg} {st : St} (h : Bal cfg st) (hs : st.started = false) :
    Bal cfg { enableRedirect cfg st with started := true, hooks := st.hooks + 1 } := by
  obtain ⟨h1, h2, h3, h4, h5⟩ := h
  obtain ⟨started, shape, rend, ov, ov0, hooks, so, se, rso, rse, bo, be, tasks, ti, calls, wd⟩ := st
  simp only at h1 h2 h3 h4 h5 hs
  subst hs
  simp at h1 h2 h3 h4 h5
  subst h1 h2 h3 h4 h5
  cases ht : cfg.terminal <;> cases hro : cfg.redirectStdout <;> cases hre : cfg.redirectStderr <;>
    exact ⟨by simp [enableRedirect, ht, hro, hre], by simp [enableRedirect, Cfg.rOut, ht, hro, hre],
      by simp [enableRedirect, Cfg.rErr, ht, hro, hre], by simp [enableRedirect, Cfg.rOut, ht, hro, hre],
      by simp [enableRedirect, Cfg.rErr, ht, hro, hre]⟩

/-- `start`: balanced afterwards; the cursor is hidden exactly when the display ends up started; a failing
`start` leaves the display started only in the unguarded `Progress.start` of rich 9.10.0 as found (before fix 4e4f7e5). -/
theorem doStart_ctl (cfg : Cfg) (fails : Nat → Bool) (st : St) (h : Bal cfg st) (v : Bool) (hv : v = vis cfg st.started) :
    Bal cfg (doStart cfg fails st).st ∧
      lastVis v (doStart cfg fails st).out = vis cfg (doStart cfg fails st).st.started ∧
      ((doStart cfg fails st).err = none → st.started = false → (doStart cfg fails st).st.started = true) ∧
      ((doStart cfg fails st).err ≠ none → (cfg.kind ≠ .progress ∨ cfg.guards = true) →
        (doStart cfg fails st).st.started = false) := by
  by_cases hst : st.started = true
  · simp [doStart, hst, lastVis, hv]; exact h
  · have hst' : st.started = false := by simpa using hst
    have hb1 := enableRedirect_bal h hst'
    have hhide : lastVis v (hideOp cfg) = vis cfg true := by
      rw [lastVis_hideOp, hv, hst']; unfold vis; cases cfg.ansi <;> rfl
    cases hk : cfg.kind
    · simp only [doStart, hst', hk]
      exact ⟨hb1, hhide, fun _ _ => rfl, fun he => absurd rfl he⟩
    · -- progress
      simp only [doStart, hst', hk, Bool.false_eq_true, if_false]
      have hc := doRefresh_ctl cfg fails { enableRedirect cfg st with started := true, hooks := st.hooks + 1 }
      generalize doRefresh cfg fails { enableRedirect cfg st with started := true, hooks := st.hooks + 1 } = r at hc
      have hbr : Bal cfg r.st := Bal.of_ctlEq hb1 hc.1
      have hsr : r.st.started = true := hc.1.1
      cases hre : r.err with
      | none =>
        simp only
        refine ⟨hbr, ?_, fun _ _ => hsr, fun he => absurd rfl he⟩
        show lastVis v (hideOp cfg ++ r.out) = vis cfg r.st.started
        rw [lastVis_append, hhide, lastVis_quiet hc.2, hsr]
      | some e =>
        simp only
        by_cases hg : cfg.guards = true
        · simp only [hg, if_true]
          have hstop := doStop_ctl cfg fails r.st hbr (vis cfg true)
          refine ⟨hstop.1, ?_, fun he => by simp at he, fun _ _ => hstop.2.1⟩
          show lastVis v (hideOp cfg ++ r.out ++ (doStop cfg fails r.st).out) = vis cfg (doStop cfg fails r.st).st.started
          rw [lastVis_append, lastVis_append, hhide, lastVis_quiet hc.2, hstop.2.2, hstop.2.1, hsr]
          unfold vis; cases cfg.ansi <;> rfl
        · have hg' : cfg.guards = false := by simpa using hg
          simp only [hg', Bool.false_eq_true, if_false]
          refine ⟨hbr, ?_, fun he => by simp at he, fun _ hor => ?_⟩
          · show lastVis v (hideOp cfg ++ r.out) = vis cfg r.st.started
            rw [lastVis_append, hhide, lastVis_quiet hc.2, hsr]
          · rcases hor with h1 | h1
            · exact absurd rfl h1
            · first | (rw [hg'] at h1; cases h1) | exact absurd h1 (by simp [hg']) | cases h1
    · simp only [doStart, hst', hk]
      exact ⟨hb1, hhide, fun _ _ => rfl, fun he => absurd rfl he⟩

/-- Every operation keeps the control state balanced and the cursor hidden exactly while started. -/
theorem step_ctl (cfg : Cfg) (fails : Nat → Bool) (st : St) (op : Op) (h : Bal cfg st) (v : Bool) (hv : v = vis cfg st.started) :
    Bal cfg (step cfg fails st op).st ∧ lastVis v (step cfg fails st op).out = vis cfg (step cfg fails st op).st.started := by
  have silent : ∀ r : Res, CtlEq r.st st → Quiet r.out → Bal cfg r.st ∧ lastVis v r.out = vis cfg r.st.started := by
    intro r he hq
    exact ⟨Bal.of_ctlEq h he, by rw [lastVis_quiet hq, he.1, hv]⟩
  cases op with
  | start => exact ⟨(doStart_ctl cfg fails st h v hv).1, (doStart_ctl cfg fails st h v hv).2.1⟩
  | stop =>
    have := doStop_ctl cfg fails st h v
    refine ⟨this.1, ?_⟩
    show lastVis v (doStop cfg fails st).out = vis cfg (doStop cfg fails st).st.started
    rw [this.2.2, this.2.1, hv]
    unfold vis
    cases st.started <;> cases cfg.ansi <;> rfl
  | print ls => exact silent _ (doPrint_ctl cfg fails st ls).1 (doPrint_ctl cfg fails st ls).2
  | printBare =>
    simp only [step]
    split
    · refine silent _ (CtlEq.rfl' _) ?_
      intro op hop; simp at hop; subst hop; simp
    · exact silent _ (doPrint_ctl cfg fails st _).1 (doPrint_ctl cfg fails st _).2
  | refresh => exact silent _ (doRefresh_ctl cfg fails st).1 (doRefresh_ctl cfg fails st).2
  | update f rf =>
    simp only [step]
    split
    · split
      · have := doRefresh_ctl cfg fails { st with renderable := f }
        exact silent _ (this.1.trans ⟨rfl, rfl, rfl, rfl, rfl, rfl⟩) this.2
      · exact silent _ ⟨rfl, rfl, rfl, rfl, rfl, rfl⟩ Quiet.nil
    · have := doRefresh_ctl cfg fails { st with renderable := statusFrame cfg.cw f }
      exact silent _ (this.1.trans ⟨rfl, rfl, rfl, rfl, rfl, rfl⟩) this.2
    · exact silent _ (CtlEq.rfl' _) Quiet.nil
  | addTask desc vs tot =>
    simp only [step]
    have := doRefresh_ctl cfg fails (addTaskSt st desc vs tot)
    split
    · exact silent _ (this.1.trans ⟨rfl, rfl, rfl, rfl, rfl, rfl⟩) this.2
    · refine silent _ ?_ this.2
      exact CtlEq.trans (b := (doRefresh cfg fails (addTaskSt st desc vs tot)).st) ⟨rfl, rfl, rfl, rfl, rfl, rfl⟩
        (this.1.trans ⟨rfl, rfl, rfl, rfl, rfl, rfl⟩)
  | updateTask id ed rf =>
    simp only [step]
    split
    · exact silent _ (CtlEq.rfl' _) Quiet.nil
    · split
      · rename_i t _ _
        have := doRefresh_ctl cfg fails { st with tasks := replaceTask st.tasks (ed.apply t) }
        exact silent _ (this.1.trans ⟨rfl, rfl, rfl, rfl, rfl, rfl⟩) this.2
      · exact silent _ ⟨rfl, rfl, rfl, rfl, rfl, rfl⟩ Quiet.nil
  | resize w => exact silent _ ⟨rfl, rfl, rfl, rfl, rfl, rfl⟩ Quiet.nil
  | removeTask id =>
    simp only [step]
    split
    · exact silent _ (CtlEq.rfl' _) Quiet.nil
    · exact silent _ ⟨rfl, rfl, rfl, rfl, rfl, rfl⟩ Quiet.nil
  | write err lines tail =>
    simp only [step, doWrite]
    split
    · exact silent _ (CtlEq.rfl' _) Quiet.nil
    · split
      · exact silent _ (setBuf_ctl _ _ _) Quiet.nil
      · rename_i l rest
        have := doPrint_ctl cfg fails (setBuf st err tail) ((getBuf st err ++ l) :: rest)
        exact silent _ (this.1.trans (setBuf_ctl _ _ _)) this.2

/-- The body of a `with` block. -/
theorem runBody_ctl (cfg : Cfg) (fails : Nat → Bool) (body : List Op) :
    ∀ (st : St) (raiseAt : Option Nat) (v : Bool), Bal cfg st → v = vis cfg st.started →
      Bal cfg (runBody cfg fails st body raiseAt).1 ∧
      lastVis v (runBody cfg fails st body raiseAt).2.1 = vis cfg (runBody cfg fails st body raiseAt).1.started ∧
      (∀ j, raiseAt = some j → j ≤ body.length → (runBody cfg fails st body raiseAt).2.2 = true) := by
  induction body with
  | nil =>
    intro st raiseAt v h hv
    cases raiseAt with
    | none => exact ⟨h, by simp [runBody, lastVis, hv], fun j hj => by cases hj⟩
    | some j =>
      cases j with
      | zero => exact ⟨h, by simp [runBody, lastVis, hv], fun _ _ _ => rfl⟩
      | succ j => exact ⟨h, by simp [runBody, lastVis, hv], fun j' hj hle => by cases hj; simp at hle⟩
  | cons op rest ih =>
    intro st raiseAt v h hv
    cases raiseAt with
    | some j =>
      cases j with
      | zero => exact ⟨h, by simp [runBody, lastVis, hv], fun _ _ _ => rfl⟩
      | succ j =>
        have hs := step_ctl cfg fails st op h v hv
        simp only [runBody]
        cases he : (step cfg fails st op).err with
        | some e => exact ⟨hs.1, hs.2, fun _ _ _ => rfl⟩
        | none =>
          simp only
          have := ih (step cfg fails st op).st (some j) (vis cfg (step cfg fails st op).st.started) hs.1 rfl
          generalize hrb : runBody cfg fails (step cfg fails st op).st rest (Option.map (fun x => x - 1) (some (j + 1))) = rb
          have hrb' : runBody cfg fails (step cfg fails st op).st rest (some j) = rb := by rw [← hrb]; rfl
          rw [hrb'] at this
          obtain ⟨a, b, c⟩ := rb
          refine ⟨this.1, ?_, fun j' hj hle => ?_⟩
          · show lastVis v ((step cfg fails st op).out ++ b) = vis cfg a.started
            rw [lastVis_append, hs.2]; exact this.2.1
          · cases hj
            exact this.2.2 j rfl (by simp at hle; omega)
    | none =>
      have hs := step_ctl cfg fails st op h v hv
      simp only [runBody]
      cases he : (step cfg fails st op).err with
      | some e => exact ⟨hs.1, hs.2, fun j hj => by cases hj⟩
      | none =>
        simp only
        have := ih (step cfg fails st op).st none (vis cfg (step cfg fails st op).st.started) hs.1 rfl
        generalize hrb : runBody cfg fails (step cfg fails st op).st rest (Option.map (fun x => x - 1) none) = rb
        have hrb' : runBody cfg fails (step cfg fails st op).st rest none = rb := by rw [← hrb]; rfl
        rw [hrb'] at this
        obtain ⟨a, b, c⟩ := rb
        refine ⟨this.1, ?_, fun j hj => by cases hj⟩
        show lastVis v ((step cfg fails st op).out ++ b) = vis cfg a.started
        rw [lastVis_append, hs.2]; exact this.2.1

end RichModel.Live
