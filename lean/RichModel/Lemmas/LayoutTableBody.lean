import RichModel.Lemmas.LayoutBase
import RichModel.Lemmas.LayoutDeps
/-!
The body lines of a table at the level of segments (`bodyLineSegs` of `Model/Layout.lean`): every line of
`Table.renderBody` becomes a newline-free line followed by `Segment.line()`, never wider than the table's
rectangle (`Table.bodyWidth`).  Generic list facts first (prefix `tb_`).
-/
namespace RichModel.Layout
open RichModel RichModel.Frames

/-! ### generic facts -/

theorem tb_flat_append (a b : List Seg) : flat (a ++ b) = flat a ++ flat b := by
  simp [flat]

theorem tb_flat_nl : flat ([nl] : List Seg) = ['\n'] := by
  simp [flat, nl, seg]

/-- a concatenation of chunks each ending in `Segment.line()` is a sequence of complete lines -/
theorem tb_closed_flatMap {α : Type} (f : α → List Seg) (g : α → Ln) :
    ∀ (ls : List α), (∀ a ∈ ls, f a = g a ++ [nl]) → Closed (ls.flatMap f)
  | [], _ => Or.inl (by simp [flat])
  | a :: rest, h => by
    have ih := tb_closed_flatMap f g rest (fun x hx => h x (List.mem_cons_of_mem _ hx))
    right
    rw [List.flatMap_cons, h a (by simp), tb_flat_append, tb_flat_append, tb_flat_nl]
    rcases ih with ih | ih
    · rw [ih]; simp
    · rw [List.getLast?_append, ih]; simp

/-- `split_lines` of such a concatenation gives the lines back -/
theorem tb_splitLines_flatMap {α : Type} (f : α → List Seg) (g : α → Ln) (ls : List α)
    (h : ∀ a ∈ ls, f a = g a ++ [nl] ∧ NlFree (g a)) : splitLines (ls.flatMap f) = ls.map g := by
  have h1 : ls.flatMap f = (ls.map g).flatMap (fun l => l ++ [nl]) := by
    induction ls with
    | nil => rfl
    | cons a rest ih =>
      simp only [List.flatMap_cons, List.map_cons]
      rw [(h a (by simp)).1, ih (fun x hx => h x (List.mem_cons_of_mem _ hx))]
  rw [h1]
  apply splitLines_lines
  intro l hl
  obtain ⟨a, ha, rfl⟩ := List.mem_map.mp hl
  exact (h a ha).2

theorem tb_getD_mem_or {α : Type} (l : List α) (k : Nat) (d : α) : l.getD k d = d ∨ l.getD k d ∈ l := by
  rw [List.getD_eq_getElem?_getD]
  cases h : l[k]? with
  | none => left; rfl
  | some x => right; exact List.mem_of_getElem? h

theorem tb_mem_joinSep (sep : List Char) : ∀ (parts : List (List Char)) (c : Char), c ∈ joinSep sep parts →
    c ∈ sep ∨ ∃ p ∈ parts, c ∈ p
  | [], c, h => by simp [joinSep] at h
  | [x], c, h => by
    simp only [joinSep] at h
    exact Or.inr ⟨x, by simp, h⟩
  | x :: y :: rest, c, h => by
    simp only [joinSep, List.mem_append] at h
    rcases h with (h | h) | h
    · exact Or.inr ⟨x, by simp, h⟩
    · exact Or.inl h
    · rcases tb_mem_joinSep sep (y :: rest) c h with h | ⟨p, hp, hc⟩
      · exact Or.inl h
      · exact Or.inr ⟨p, List.mem_cons_of_mem _ hp, hc⟩

/-! ### the parts of a cell line -/

/-- one part per column at most, every part newline-free and no wider than its column -/
def tb_PartsOk (cw : Char → Nat) : List Nat → List Ln → Prop
  | _, [] => True
  | [], _ :: _ => False
  | w :: ws, p :: ps => NlFree p ∧ lineLength cw p ≤ w ∧ tb_PartsOk cw ws ps

theorem tb_joinSegs_ok (cw : Char → Nat) (sep : List Seg) (hsep : NlFree sep) :
    ∀ (widths : List Nat) (parts : List Ln), tb_PartsOk cw widths parts →
      NlFree (joinSegs sep parts) ∧
      lineLength cw (joinSegs sep parts) ≤ widths.sum + (widths.length - 1) * lineLength cw sep
  | _, [], _ => ⟨by simp only [joinSegs]; exact NlFree.nil, by simp [joinSegs]⟩
  | [], _ :: _, h => by simp [tb_PartsOk] at h
  | w :: ws, [p], h => by
    obtain ⟨h1, h2, _⟩ := h
    refine ⟨by simpa only [joinSegs] using h1, ?_⟩
    simp only [joinSegs, List.sum_cons]
    omega
  | w :: ws, p :: q :: ps, h => by
    obtain ⟨h1, h2, h3⟩ := h
    have ih := tb_joinSegs_ok cw sep hsep ws (q :: ps) h3
    have hws : 1 ≤ ws.length := by
      cases ws with
      | nil => simp [tb_PartsOk] at h3
      | cons _ _ => simp
    refine ⟨?_, ?_⟩
    · simp only [joinSegs]
      exact NlFree.append (NlFree.append h1 hsep) ih.1
    · simp only [joinSegs, lineLength_append, List.sum_cons, List.length_cons]
      have : (ws.length + 1 - 1) * lineLength cw sep = lineLength cw sep + (ws.length - 1) * lineLength cw sep := by
        obtain ⟨m, hm⟩ : ∃ m, ws.length = m + 1 := ⟨ws.length - 1, by omega⟩
        rw [hm]; simp only [Nat.add_sub_cancel]; rw [Nat.add_mul]; omega
      omega

/-- every line of a shaped cell is newline-free when the cell's lines are -/
theorem tb_setShape_nlFree (cw : Char → Nat) (hsp : cw ' ' = 1) (h2 : ∀ c, cw c ≤ 2) (lines : List Ln) (w : Nat)
    (h : Option Nat) (hl : ∀ l ∈ lines, NlFree l) : ∀ l ∈ setShape cw lines w h none, NlFree l := by
  intro l hmem
  simp only [setShape, List.mem_append, List.mem_map, List.mem_replicate] at hmem
  rcases hmem with ⟨l0, hl0, rfl⟩ | ⟨_, rfl⟩
  · exact adjust_nlFree cw hsp h2 l0 w none true (hl l0 hl0)
  · intro s hs
    simp only [List.mem_singleton] at hs
    subst hs
    simp only [Bool.not_false, Bool.and_true]
    rw [contains_nl_false_iff]
    intro c hc
    simp only [List.mem_replicate] at hc
    rw [hc.2]; decide

theorem tb_shapeRowS_parts (cw : Char → Nat) (hsp : cw ' ' = 1) (h2 : ∀ c, cw c ≤ 2) (h : Nat) (k : Nat) :
    ∀ (widths : List Nat) (row : List (List Ln)), (∀ cell ∈ row, ∀ l ∈ cell, NlFree l) →
      tb_PartsOk cw widths (((widths.zip row).map (fun wl => setShape cw wl.2 wl.1 (some h) none)).map (fun c => c.getD k []))
  | [], _, _ => by simp [tb_PartsOk]
  | _ :: _, [], _ => by simp [tb_PartsOk]
  | w :: ws, cell :: row, hrow => by
    simp only [List.zip_cons_cons, List.map_cons, tb_PartsOk]
    refine ⟨?_, ?_, tb_shapeRowS_parts cw hsp h2 h k ws row (fun c hc => hrow c (List.mem_cons_of_mem _ hc))⟩
    · rcases tb_getD_mem_or (setShape cw cell w (some h) none) k [] with h0 | h0
      · rw [h0]; exact NlFree.nil
      · exact tb_setShape_nlFree cw hsp h2 cell w (some h) (hrow cell (by simp)) _ h0
    · rcases tb_getD_mem_or (setShape cw cell w (some h) none) k [] with h0 | h0
      · rw [h0]; simp
      · exact Nat.le_of_eq (setShape_rect cw hsp h2 cell w (some h) none _ h0)

/-- what the table renderer knows about the shaped rows: row `i` is missing or the `set_shape`d stored lines -/
def tb_ShapedOk (cw : Char → Nat) (widths : List Nat) (shaped : List (List (List Ln))) : Prop :=
  ∀ i, shaped.getD i [] = [] ∨
    ∃ row : List (List Ln), (∀ cell ∈ row, ∀ l ∈ cell, NlFree l) ∧ shaped.getD i [] = shapeRowS cw widths row

theorem tb_shaped_parts (cw : Char → Nat) (hsp : cw ' ' = 1) (h2 : ∀ c, cw c ≤ 2) (widths : List Nat)
    (shaped : List (List (List Ln))) (hs : tb_ShapedOk cw widths shaped) (i k : Nat) :
    tb_PartsOk cw widths ((shaped.getD i []).map (fun c => c.getD k [])) := by
  rcases hs i with h | ⟨row, hrow, h⟩
  · rw [h]; cases widths <;> simp [tb_PartsOk]
  · rw [h]
    exact tb_shapeRowS_parts cw hsp h2 _ k widths row hrow

/-! ### separators are rule lines -/

/-- the text of the line (emitted once) is that of a `Box.get_row`-style line of one-cell characters -/
def tb_RuleLike (cw : Char → Nat) (widths : List Nat) (l : BodyLine) : Prop :=
  ∃ tag chars edge, BoxRow.wf cw chars ∧ l.once = (ruleLine tag chars edge widths).once

theorem tb_ruleLike_getRow (cw : Char → Nat) (hsp : cw ' ' = 1) (b : Box) (hwf : b.wf cw) (tag : LineTag) (lv : RowLevel)
    (edge : Bool) (widths : List Nat) : tb_RuleLike cw widths (b.getRow tag lv edge widths) :=
  ⟨tag, b.levelChars lv, edge, Box.levelChars_wf cw hsp b hwf lv, rfl⟩

theorem tb_footSep_rule (cw : Char → Nat) (hsp : cw ' ' = 1) (t : Table) (hwf : ∀ b, t.box = some b → b.wf cw)
    (widths : List Nat) (last : Bool) : ∀ l ∈ t.footSep widths last, tb_RuleLike cw widths l := by
  intro l hl
  unfold Table.footSep at hl
  split at hl
  · rename_i b hb
    split at hl
    · simp only [List.mem_singleton] at hl; subst hl
      exact tb_ruleLike_getRow cw hsp b (hwf b hb) _ _ _ widths
    · simp at hl
  · simp at hl

theorem tb_headSep_rule (cw : Char → Nat) (hsp : cw ' ' = 1) (t : Table) (hwf : ∀ b, t.box = some b → b.wf cw)
    (widths : List Nat) (first : Bool) : ∀ l ∈ t.headSep widths first, tb_RuleLike cw widths l := by
  intro l hl
  unfold Table.headSep at hl
  split at hl
  · rename_i b hb
    split at hl
    · simp only [List.mem_singleton] at hl; subst hl
      exact tb_ruleLike_getRow cw hsp b (hwf b hb) _ _ _ widths
    · simp at hl
  · simp at hl

theorem tb_between_rule (cw : Char → Nat) (hsp : cw ' ' = 1) (fl : Flags) (t : Table) (hwf : ∀ b, t.box = some b → b.wf cw)
    (widths : List Nat) (n index : Nat) (first last : Bool) :
    ∀ l ∈ t.between fl widths n index first last, tb_RuleLike cw widths l := by
  intro l hl
  unfold Table.between at hl
  split at hl
  · rename_i b hb
    split at hl
    · unfold Table.sepLines at hl
      split at hl
      · split at hl
        · simp only [List.mem_singleton] at hl; subst hl
          exact ⟨.midSep, b.levelChars .mid, t.showEdge, Box.levelChars_wf cw hsp b (hwf b hb) .mid, rfl⟩
        · have := List.eq_of_mem_replicate hl
          subst this
          exact tb_ruleLike_getRow cw hsp b (hwf b hb) _ _ _ widths
      · simp only [List.mem_singleton] at hl; subst hl
        exact tb_ruleLike_getRow cw hsp b (hwf b hb) _ _ _ widths
    · simp at hl
  · simp at hl

/-- every body line that carries no cell is a rule line -/
theorem tb_renderBody_rule (cw : Char → Nat) (hsp : cw ' ' = 1) (fl : Flags) (t : Table)
    (hwf : ∀ b, t.box = some b → b.wf cw) (widths : List Nat) (l : BodyLine)
    (hl : l ∈ t.renderBody fl cw widths) (htag : l.cellTag = none) : tb_RuleLike cw widths l := by
  unfold Table.renderBody at hl
  simp only [List.mem_append, List.mem_flatMap] at hl
  rcases hl with (hl | ⟨ri, hri, hl⟩) | hl
  · split at hl
    · rename_i b hb
      split at hl
      · simp only [List.mem_singleton] at hl; subst hl
        exact ⟨.top, b.top, true, (hwf b hb).1, rfl⟩
      · simp at hl
    · simp at hl
  · unfold Table.renderRow at hl
    simp only [List.mem_append, List.mem_map, List.mem_range] at hl
    rcases hl with ((hl | ⟨k', hk', rfl⟩) | hl) | hl
    · exact tb_footSep_rule cw hsp t hwf widths _ l hl
    · rw [cellLine_tag] at htag; cases htag
    · exact tb_headSep_rule cw hsp t hwf widths _ l hl
    · exact tb_between_rule cw hsp fl t hwf widths _ _ _ _ l hl
  · split at hl
    · rename_i b hb
      split at hl
      · simp only [List.mem_singleton] at hl; subst hl
        exact ⟨.bottom, b.bottom, true, (hwf b hb).2.2.2.2.2.2.2, rfl⟩
      · simp at hl
    · simp at hl

/-- a rule line holds no line feed (every character occupies one cell, a line feed none) -/
theorem tb_ruleLike_no_nl (cw : Char → Nat) (hnl : cw '\n' = 0) (widths : List Nat) (l : BodyLine)
    (h : tb_RuleLike cw widths l) : ∀ c ∈ l.once, c ≠ '\n' := by
  obtain ⟨tag, chars, edge, ⟨hl, hh, hd, hr⟩, he⟩ := h
  rw [he]
  intro c hc heq
  subst heq
  have h1 : cw '\n' = 1 := by
    unfold ruleLine BodyLine.once at hc
    simp only [List.mem_append] at hc
    rcases hc with (hc | hc) | hc
    · split at hc
      · simp only [List.mem_singleton] at hc; rw [hc]; exact hl
      · simp at hc
    · rcases tb_mem_joinSep _ _ _ hc with hc | ⟨p, hp, hc⟩
      · simp only [List.mem_singleton] at hc; rw [hc]; exact hd
      · simp only [List.mem_map] at hp
        obtain ⟨w, _, rfl⟩ := hp
        simp only [List.mem_replicate] at hc
        rw [hc.2]; exact hh
    · split at hc
      · simp only [List.mem_singleton] at hc; rw [hc]; exact hr
      · simp at hc
  omega

/-! ### every body line -/

theorem tb_edgeSeg_one (cw : Char → Nat) (hnl : cw '\n' = 0) (c : Char) (hc : cw c = 1) :
    NlFree (edgeSeg [c]) ∧ lineLength cw (edgeSeg [c]) = 1 := by
  have hne : c ≠ '\n' := by intro h; subst h; omega
  refine ⟨?_, ?_⟩
  · simp only [edgeSeg, List.isEmpty_cons, Bool.false_eq_true, if_false]
    exact nlFree_seg [c] (by intro d hd; simp only [List.mem_singleton] at hd; rw [hd]; exact hne)
  · simp only [edgeSeg, List.isEmpty_cons, Bool.false_eq_true, if_false]
    rw [lineLength_seg]
    simp [cellLen, hc]

theorem tb_edgeSeg_nil (cw : Char → Nat) : NlFree (edgeSeg []) ∧ lineLength cw (edgeSeg []) = 0 := by
  refine ⟨?_, ?_⟩
  · simp only [edgeSeg, List.isEmpty_nil, if_true]; exact NlFree.nil
  · simp [edgeSeg]

/-- **Every body line** of the table is, at the level of segments, a newline-free line followed by
`Segment.line()`, and that line is never wider than the table's rectangle. -/
theorem tb_bodyLine_ok (cw : Char → Nat) (hsp : cw ' ' = 1) (h2 : ∀ c, cw c ≤ 2) (hnl : cw '\n' = 0)
    (fl : Flags) (hfl : fl.leadingRepeat = false) (t : Table) (hwf : ∀ b, t.box = some b → b.wf cw)
    (widths : List Nat) (hlen : widths.length = t.columns.length)
    (shaped : List (List (List Ln))) (hs : tb_ShapedOk cw widths shaped)
    (l : BodyLine) (hl : l ∈ t.renderBody fl cw widths) :
    ∃ line : Ln, bodyLineSegs shaped l = line ++ [nl] ∧ NlFree line ∧ lineLength cw line ≤ t.bodyWidth widths := by
  have hgood := renderBody_good cw hsp h2 fl hfl t hwf widths hlen l hl
  have hrule : l.cellTag = none → ∃ line : Ln, [seg l.text, nl] = line ++ [nl] ∧ NlFree line ∧
      lineLength cw line ≤ t.bodyWidth widths := by
    intro htag
    refine ⟨[seg l.text], rfl, ?_, ?_⟩
    · apply nlFree_seg
      rw [text_of_rep_one l hgood.1]
      exact tb_ruleLike_no_nl cw hnl widths l (tb_renderBody_rule cw hsp fl t hwf widths l hl htag)
    · rw [lineLength_seg, hgood.text_width]; exact Nat.le_refl _
  cases htag : l.tag with
  | cell i k =>
    have hct : l.cellTag = some (i, k) := by simp [BodyLine.cellTag, htag]
    obtain ⟨row, _, _, hcl⟩ := renderBody_cell_line fl cw t widths l i k hl hct
    have hparts := tb_shaped_parts cw hsp h2 widths shaped hs i k
    simp only [bodyLineSegs, htag]
    refine ⟨edgeSeg l.left ++ joinSegs (edgeSeg l.sep) ((shaped.getD i []).map (fun c => c.getD k [])) ++ edgeSeg l.right, rfl, ?_⟩
    cases hb : t.box with
    | none =>
      have hleft : l.left = [] := by rw [hcl]; simp [Table.cellLine, hb]
      have hsepE : l.sep = [] := by rw [hcl]; simp [Table.cellLine, hb]
      have hright : l.right = [] := by rw [hcl]; simp [Table.cellLine, hb]
      rw [hleft, hsepE, hright]
      obtain ⟨j1, j2⟩ := tb_joinSegs_ok cw (edgeSeg []) (tb_edgeSeg_nil cw).1 widths _ hparts
      refine ⟨NlFree.append (NlFree.append (tb_edgeSeg_nil cw).1 j1) (tb_edgeSeg_nil cw).1, ?_⟩
      simp only [lineLength_append, (tb_edgeSeg_nil cw).2] at j2 ⊢
      simp only [Table.bodyWidth, lineWidth, Table.edged, Table.sepLen, hb]
      generalize lineLength cw (joinSegs _ _) = J at j2 ⊢
      simp at j2 ⊢
      omega
    | some b =>
      obtain ⟨wl, _, wd, wr⟩ := Box.rowChars_wf cw b (hwf b hb) (i == 0) (i + 1 == t.rows.length)
      have hsepE : l.sep = [(b.rowChars (i == 0) (i + 1 == t.rows.length)).d] := by rw [hcl]; simp [Table.cellLine, hb]
      obtain ⟨s1, s2⟩ := tb_edgeSeg_one cw hnl _ wd
      rw [hsepE]
      obtain ⟨j1, j2⟩ := tb_joinSegs_ok cw _ s1 widths _ hparts
      rw [s2] at j2
      cases he : t.showEdge with
      | false =>
        have hleft : l.left = [] := by rw [hcl]; simp [Table.cellLine, hb, he]
        have hright : l.right = [] := by rw [hcl]; simp [Table.cellLine, hb, he]
        rw [hleft, hright]
        refine ⟨NlFree.append (NlFree.append (tb_edgeSeg_nil cw).1 j1) (tb_edgeSeg_nil cw).1, ?_⟩
        simp only [lineLength_append, (tb_edgeSeg_nil cw).2]
        simp only [Table.bodyWidth, lineWidth, Table.edged, Table.sepLen, hb, he]
        generalize lineLength cw (joinSegs _ _) = J at j2 ⊢
        simp
        omega
      | true =>
        have hleft : l.left = [(b.rowChars (i == 0) (i + 1 == t.rows.length)).l] := by rw [hcl]; simp [Table.cellLine, hb, he]
        have hright : l.right = [(b.rowChars (i == 0) (i + 1 == t.rows.length)).r] := by rw [hcl]; simp [Table.cellLine, hb, he]
        rw [hleft, hright]
        obtain ⟨l1, l2⟩ := tb_edgeSeg_one cw hnl _ wl
        obtain ⟨r1, r2⟩ := tb_edgeSeg_one cw hnl _ wr
        refine ⟨NlFree.append (NlFree.append l1 j1) r1, ?_⟩
        simp only [lineLength_append, l2, r2]
        simp only [Table.bodyWidth, lineWidth, Table.edged, Table.sepLen, hb, he]
        generalize lineLength cw (joinSegs _ _) = J at j2 ⊢
        simp
        omega
  | top => simp only [bodyLineSegs, htag]; exact hrule (by simp [BodyLine.cellTag, htag])
  | bottom => simp only [bodyLineSegs, htag]; exact hrule (by simp [BodyLine.cellTag, htag])
  | headSep => simp only [bodyLineSegs, htag]; exact hrule (by simp [BodyLine.cellTag, htag])
  | footSep => simp only [bodyLineSegs, htag]; exact hrule (by simp [BodyLine.cellTag, htag])
  | rowSep => simp only [bodyLineSegs, htag]; exact hrule (by simp [BodyLine.cellTag, htag])
  | midSep => simp only [bodyLineSegs, htag]; exact hrule (by simp [BodyLine.cellTag, htag])

end RichModel.Layout
