import RichModel.Lemmas.LayoutFits
import RichModel.Lemmas.LayoutTableCols
import RichModel.Lemmas.LayoutTableNil
import RichModel.Lemmas.LayoutTableGeneral
import RichModel.Lemmas.LayoutTableLow
/-!
The table and columns cases of the induction behind C01, and the induction itself (`good`, `goodL`).
-/
namespace RichModel.Layout
open RichModel RichModel.Frames

/-- a table title / caption rendered at the table's width fits the available width and ends its line -/
theorem ann_fits (cfg : Cfg) (ok : CfgOk cfg) (t : Option T) (j : Justify) (o : Opts) (tw : Int) (w : Nat) (htw : tw ≤ (w : Int))
    (hd : annDom t o) : Fits cfg.cw w (annotation cfg t j o tw) ∧ Closed (annotation cfg t j o tw) := by
  unfold annotation
  cases t with
  | none => exact ⟨fits_nil _ _, closed_nil⟩
  | some t =>
    simp only
    unfold annDom at hd
    simp only at hd
    split
    · exact ⟨fits_nil _ _, closed_nil⟩
    · split
      · exact ⟨fits_nil _ _, closed_nil⟩
      · rename_i _ h1
        have h1' : 1 ≤ tw.toNat := by omega
        refine ⟨fits_mono _ tw.toNat w _ (text_fits cfg ok.hsp ok.h2 ok.hel ok.hp t _ tw.toNat h1' ?_ (Or.inl hd.2)) (by omega),
          text_closed cfg ok.hp t _ tw.toNat hd.2⟩
        exact hd.1

theorem tableExtra_subst (env : Env) (o : TableOpts) (n : Nat) : tableExtra (o.subst env) n = tableExtra o n := by
  unfold tableExtra TableOpts.subst
  simp only [Option.isSome_map]

theorem colsR_nil (cfg : Cfg) : colsR cfg [] = [] := by rw [colsR]

/-- the oracles the model builds measure `0 ≤ maximum` -/
theorem colsR_meas (cfg : Cfg) (cols : List Col) :
    ∀ c ∈ colsR cfg cols, ∀ ch ∈ c.header :: c.footer :: c.cells, ∀ k : Nat, 0 ≤ (ch.measure k).maximum := by
  intro c hc' ch hch k
  obtain ⟨x, _, rfl⟩ := colsR_mem cfg cols c hc'
  obtain ⟨r, o', rfl⟩ := colR_cells cfg x ch hch
  exact (chOf_measure_normal cfg r o' k).1

/-- title ++ body ++ caption for a table with ARBITRARY columns that meets `tableBudget`: no body line is wider than the available
width plus `floorSum` (the `min_width` floors) -/
theorem table_general_decomp (cfg : Cfg) (ok : CfgOk cfg) (to : TableOpts) (cols : List Col) (o : Opts) (w : Nat)
    (hne : cols ≠ []) (hwd : ∀ tw, to.width = some tw → tw ≤ w)
    (hr : (cfg.fl.flexNegative = false ∧ cfg.fl.flexClampZero = false) ∨ (toTable cfg (to.subst cfg.env) (colsR cfg cols)).NoRatio)
    (hb : tableBudget cfg (to.subst cfg.env) (colsR cfg cols) w) :
    ∃ (tw : Int) (body : List Seg), tw ≤ (w : Int) + (toTable cfg (to.subst cfg.env) (colsR cfg cols)).floorSum ∧
      tableConsole cfg (to.subst cfg.env) o (colsR cfg cols) w =
        annotation cfg to.title to.titleJustify o tw ++ body ++ annotation cfg to.caption to.captionJustify o tw ∧
      (∀ l ∈ splitLines body, (lineLength cfg.cw l : Int) ≤ (w : Int) + (toTable cfg (to.subst cfg.env) (colsR cfg cols)).floorSum) ∧
      Closed body := by
  have hlen := colsR_length cfg cols
  have hmeas := colsR_meas cfg cols
  obtain ⟨ws0, h0, hbud⟩ := hb
  obtain ⟨ws0', h0', hl, hp⟩ := tb_firstWidths_exists cfg (to.subst cfg.env) (colsR cfg cols)
    ((toTable cfg (to.subst cfg.env) (colsR cfg cols)).width.getD (w : Int) - (toTable cfg (to.subst cfg.env) (colsR cfg cols)).extraWidth)
    hmeas hr
  rw [h0] at h0'
  simp only [Option.some.injEq] at h0'
  subst h0'
  exact tableConsole_decomp_general cfg ok.hcw ok.hfl (to.subst cfg.env) o (colsR cfg cols) w
    (by intro h; apply hne; have := congrArg List.length h; rw [hlen] at this; exact List.eq_nil_of_length_eq_zero (by simpa using this))
    hmeas (fun tw h => hwd tw h) ws0 h0 hl hp hbud

/-- **The precise bound for a table with arbitrary columns, a binding `min_width` included**: within `tableBudget` no line of the table
is wider than the available width plus `floorSum` — the `min_width + padding` floors of the columns that have a `min_width` and no
fixed `width` (C07 `min_width_overflows` shows the bound attained). -/
theorem table_general_bound (cfg : Cfg) (ok : CfgOk cfg) (to : TableOpts) (cols : List Col) (o : Opts) (w : Nat)
    (hne : cols ≠ []) (hwd : ∀ tw, to.width = some tw → tw ≤ w)
    (ht : annDom to.title o) (hc : annDom to.caption o)
    (hr : (cfg.fl.flexNegative = false ∧ cfg.fl.flexClampZero = false) ∨ (toTable cfg (to.subst cfg.env) (colsR cfg cols)).NoRatio)
    (hb : tableBudget cfg (to.subst cfg.env) (colsR cfg cols) w) :
    Fits cfg.cw (w + (toTable cfg (to.subst cfg.env) (colsR cfg cols)).floorSum.toNat) (render cfg (.table to cols) o w) := by
  rw [render]
  obtain ⟨tw, body, htw, heq, hlines, hclosed⟩ := table_general_decomp cfg ok to cols o w hne hwd hr hb
  have hF := Dep.floorSum_nonneg (toTable cfg (to.subst cfg.env) (colsR cfg cols))
  generalize (toTable cfg (to.subst cfg.env) (colsR cfg cols)).floorSum = F at htw hlines hF ⊢
  rw [heq]
  have htw' : tw ≤ ((w + F.toNat : Nat) : Int) := by omega
  obtain ⟨hf1, hc1⟩ := ann_fits cfg ok to.title to.titleJustify o tw (w + F.toNat) htw' ht
  obtain ⟨hf2, _⟩ := ann_fits cfg ok to.caption to.captionJustify o tw (w + F.toNat) htw' hc
  have hfb : Fits cfg.cw (w + F.toNat) body := fits_of_lines_le _ _ _ (fun l hl => by have := hlines l hl; omega)
  exact fits_append _ _ _ _ (closed_append _ _ hc1 hclosed) (fits_append _ _ _ _ hc1 hf1 hfb) hf2

/-- with an explicit `Table(width=tw)` the rendering does not depend on the available width -/
theorem tableConsole_width_indep (cfg : Cfg) (o : TableOpts) (opts : Opts) (cols : List ColS) (w w' : Nat) (tw : Nat)
    (h : o.width = some tw) : tableConsole cfg o opts cols w = tableConsole cfg o opts cols w' := by
  have hw : ∀ x : Nat, (toTable cfg o cols).width.getD (x : Int) = (tw : Int) := by
    intro x
    have : (toTable cfg o cols).width = o.width.map Int.ofNat := rfl
    rw [this, h]; rfl
  unfold tableConsole
  simp only [hw]

theorem tableBudget_width_indep (cfg : Cfg) (o : TableOpts) (cols : List ColS) (w w' : Nat) (tw : Nat)
    (h : o.width = some tw) : tableBudget cfg o cols w → tableBudget cfg o cols w' := by
  have hw : ∀ x : Nat, (toTable cfg o cols).width.getD (x : Int) = (tw : Int) := by
    intro x
    have : (toTable cfg o cols).width = o.width.map Int.ofNat := rfl
    rw [this, h]; rfl
  unfold tableBudget
  simp only [hw]
  exact id

theorem subst_width (env : Env) (o : TableOpts) : (o.subst env).width = o.width := rfl

theorem good_table (cfg : Cfg) (ok : CfgOk cfg) (to : TableOpts) (cols : List Col) : Good cfg (.table to cols) := by
  intro o w _ hd
  rw [render, smin]
  rw [Dom] at hd
  obtain ⟨ht, hc, hcase⟩ := hd
  have hlen := colsR_length cfg cols
  have hsc := sminCols_ge_length cfg.cw to cols
  have hex := tableExtra_subst cfg.env to cols.length
  -- the width the table is really laid out for: its own `width`, else the one on offer
  generalize hB : max w (max 1 (max (tableExtra to cols.length + sminCols cfg.cw to cols) (to.width.getD 0))) = B
  have key : tableConsole cfg (to.subst cfg.env) o (colsR cfg cols) w = cfg.poison ∨
      ∃ (tw : Int) (body : List Seg), tw ≤ (B : Int) ∧
        tableConsole cfg (to.subst cfg.env) o (colsR cfg cols) w =
          annotation cfg to.title to.titleJustify o tw ++ body ++ annotation cfg to.caption to.captionJustify o tw ∧
        (∀ l ∈ splitLines body, lineLength cfg.cw l ≤ B) ∧ Closed body := by
    -- W = the width to apply the decomposition lemmas at
    have hW : ∃ W : Nat, w ≤ W ∧ W ≤ B ∧ to.width.getD W = to.width.getD w ∧ (∀ tw, to.width = some tw → tw ≤ W) ∧
        tableConsole cfg (to.subst cfg.env) o (colsR cfg cols) w = tableConsole cfg (to.subst cfg.env) o (colsR cfg cols) W ∧
        (tableBudget cfg (to.subst cfg.env) (colsR cfg cols) w → tableBudget cfg (to.subst cfg.env) (colsR cfg cols) W) := by
      cases hwd : to.width with
      | none => exact ⟨w, Nat.le_refl _, by omega, rfl, (fun tw h => by cases h), rfl, id⟩
      | some tw =>
        refine ⟨max w tw, by omega, ?_, rfl, (fun tw' h => by cases h; omega), ?_, ?_⟩
        · rw [hwd] at hB; simp only [Option.getD_some] at hB; omega
        · exact tableConsole_width_indep cfg (to.subst cfg.env) o (colsR cfg cols) w (max w tw) tw (by rw [subst_width, hwd])
        · exact tableBudget_width_indep cfg (to.subst cfg.env) (colsR cfg cols) w (max w tw) tw (by rw [subst_width, hwd])
    obtain ⟨W, hwW, hWB, hgetD, hWtw, hcon, hbud⟩ := hW
    rw [hcon]
    rcases hcase with hfree | ⟨hne, hmin, hr, hb⟩
    · cases hcols : cols with
      | nil =>
        rw [colsR_nil]
        rcases tableConsole_nil_any cfg ok.hcw (to.subst cfg.env) o W with h | ⟨tw, body, h1, h2, h3, h4⟩
        · exact Or.inl h
        · right
          have hE : tableExtra (to.subst cfg.env) 0 ≤ B := by
            rw [hcols] at hex hB; simp only [List.length_nil] at hex hB; rw [hex]; omega
          exact ⟨tw, body, by omega, h2, fun l hl => Nat.le_trans (h3 l hl) hE, h4⟩
      | cons c0 cs =>
        right
        rw [← hcols]
        obtain ⟨tw, body, h1, h2, h3, h4⟩ := tableConsole_decomp_any cfg ok.hcw ok.hfl (to.subst cfg.env) o (colsR cfg cols) W
          (by intro h; have := congrArg List.length h; rw [hlen, hcols] at this; simp at this)
          (by
            intro c hc'
            obtain ⟨x, hx, rfl⟩ := colsR_mem cfg cols c hc'
            rw [colR_o]
            exact hfree x hx)
          (colsR_meas cfg cols)
          (by intro tw' htw'; exact hWtw tw' htw')
        rw [hlen, hex] at h1 h3
        have hWB' : max W (tableExtra to cols.length + cols.length) ≤ B := by omega
        exact ⟨tw, body, by omega, h2, fun l hl => Nat.le_trans (h3 l hl) hWB', h4⟩
    · right
      obtain ⟨tw, body, htw, heq, hlines, hclosed⟩ := table_general_decomp cfg ok to cols o W hne hWtw hr (hbud hb)
      have hF : (toTable cfg (to.subst cfg.env) (colsR cfg cols)).floorSum = 0 := by
        apply tb_floorSum_zero
        intro c hc'
        obtain ⟨x, hx, rfl⟩ := colsR_mem cfg cols c hc'
        rw [colR_o]
        exact hmin x hx
      rw [hF] at htw hlines
      refine ⟨tw, body, by omega, heq, ?_, hclosed⟩
      intro l hl
      have := hlines l hl
      omega
  rcases key with h | ⟨tw, body, htw, heq, hlines, hclosed⟩
  · rw [h, ok.hp]; exact ⟨fits_nil _ _, fun _ => closed_nil⟩
  · rw [heq]
    obtain ⟨hf1, hc1⟩ := ann_fits cfg ok to.title to.titleJustify o tw B htw ht
    obtain ⟨hf2, hc2⟩ := ann_fits cfg ok to.caption to.captionJustify o tw B htw hc
    have hfb := fits_of_lines_le _ _ _ hlines
    exact ⟨fits_append _ _ _ _ (closed_append _ _ hc1 hclosed) (fits_append _ _ _ _ hc1 hf1 hfb) hf2,
      fun _ => closed_append _ _ (closed_append _ _ hc1 hclosed) hc2⟩

/-- **A table with free columns at ANY width** (no room condition): no line is wider than the width the table is laid out for (the
one on offer, or its own `Table(width=…)`) or — when that leaves less than one cell per column — than the borders plus ONE cell per
column: below one cell per column `_calculate_column_widths` ends at exactly one cell for every column (`width_low_core`). -/
theorem table_free_bound (cfg : Cfg) (ok : CfgOk cfg) (to : TableOpts) (cols : List Col) (o : Opts) (w : Nat)
    (hne : cols ≠ []) (ht : annDom to.title o) (hc : annDom to.caption o)
    (hfree : ∀ c ∈ cols, (colOptsOf c).wrappable ∧ ((cfg.fl.flexNegative = false ∧ cfg.fl.flexClampZero = false) ∨
      (to.expand || to.width.isSome) = false ∨ (colOptsOf c).ratio ≠ some 0)) :
    Fits cfg.cw (max (max w (to.width.getD 0)) (tableExtra to cols.length + cols.length)) (render cfg (.table to cols) o w) := by
  rw [render]
  have hlen := colsR_length cfg cols
  have hex := tableExtra_subst cfg.env to cols.length
  have hW : (∀ tw, to.width = some tw → tw ≤ max w (to.width.getD 0)) ∧
      tableConsole cfg (to.subst cfg.env) o (colsR cfg cols) w =
        tableConsole cfg (to.subst cfg.env) o (colsR cfg cols) (max w (to.width.getD 0)) := by
    cases hwd : to.width with
    | none => exact ⟨fun tw h => (by cases h), (by simp)⟩
    | some tw =>
      refine ⟨fun tw' h => (by cases h; simp only [Option.getD_some]; omega), ?_⟩
      exact tableConsole_width_indep cfg (to.subst cfg.env) o (colsR cfg cols) w _ tw (by rw [subst_width, hwd])
  obtain ⟨hWtw, hcon⟩ := hW
  rw [hcon]
  generalize max w (to.width.getD 0) = W at *
  obtain ⟨tw, body, h1, h2, h3, h4⟩ := tableConsole_decomp_any cfg ok.hcw ok.hfl (to.subst cfg.env) o (colsR cfg cols) W
    (by intro h; apply hne; have := congrArg List.length h; rw [hlen] at this; exact List.eq_nil_of_length_eq_zero (by simpa using this))
    (by
      intro c hc'
      obtain ⟨x, hx, rfl⟩ := colsR_mem cfg cols c hc'
      rw [colR_o]
      exact hfree x hx)
    (colsR_meas cfg cols)
    (by intro tw' htw'; exact hWtw tw' htw')
  rw [hlen, hex] at h1 h3
  rw [h2]
  obtain ⟨hf1, hc1⟩ := ann_fits cfg ok to.title to.titleJustify o tw _ h1 ht
  obtain ⟨hf2, _⟩ := ann_fits cfg ok to.caption to.captionJustify o tw _ h1 hc
  have hfb := fits_of_lines_le _ _ _ h3
  exact fits_append _ _ _ _ (closed_append _ _ hc1 h4) (fits_append _ _ _ _ hc1 hf1 hfb) hf2

theorem good_columns (cfg : Cfg) (ok : CfgOk cfg) (co : ColsOpts) (items : List R) : Good cfg (.columns co items) := by
  intro o w _ hd
  rw [render, smin]
  rw [Dom] at hd
  obtain ⟨ht, hwn⟩ := hd
  have hlen := chsR_length cfg items ({} : ColOpts).cellOpts
  have hsl := sminSum_ge_length cfg.cw items
  generalize hB : max w (max 1 (sminSum cfg.cw items +
    (match unpackPad co.lay.padding with | .ok p => max p.left p.right | .error _ => 0) * (items.length - 1))) = B
  have hwB : max w items.length ≤ B := by omega
  rcases columnsConsole_decomp_any cfg ok.hcw ok.hfl co o (chsR cfg items ({} : ColOpts).cellOpts) w hwn
      (by
        intro ch hch k
        obtain ⟨r, rfl⟩ := chsR_mem cfg items _ ch hch
        exact chOf_measure_normal cfg r _ k) with h | h | ⟨tw, body, htw, heq, hlines, hclosed⟩
  · rw [h, ok.hp]; exact ⟨fits_nil _ _, fun _ => closed_nil⟩
  · rw [h]; exact ⟨fits_nil _ _, fun _ => closed_nil⟩
  · rw [heq]
    rw [hlen] at htw hlines
    obtain ⟨hf1, hc1⟩ := ann_fits cfg ok co.title Justify.center o tw B (by omega) ht
    have hfb : Fits cfg.cw B body := fits_of_lines_le _ _ _ (fun l hl => Nat.le_trans (hlines l hl) hwB)
    exact ⟨fits_append _ _ _ _ hc1 hf1 hfb, fun _ => closed_append _ _ hc1 hclosed⟩

/-! ### the induction -/

mutual
theorem good (cfg : Cfg) (ok : CfgOk cfg) : ∀ r : R, Good cfg r
  | .text t => good_text cfg ok t
  | .str t => good_str cfg ok t
  | .padding p e c => good_padding cfg ok p e c
  | .panel po c => good_panel cfg ok po c
  | .align ao c => good_align cfg ok ao c (good cfg ok c)
  | .constrain k c => good_constrain cfg k c (good cfg ok c)
  | .styled c => good_styled cfg c (good cfg ok c)
  | .cast c => good_cast cfg c (good cfg ok c)
  | .opaque c => good_opaque cfg c (good cfg ok c)
  | .group fit items => good_group cfg fit items (goodL cfg ok items)
  | .rule ro => good_rule cfg ok ro
  | .bar bo => good_bar cfg ok bo
  | .progressBar po => good_progress cfg ok po
  | .table to cols => good_table cfg ok to cols
  | .columns co items => good_columns cfg ok co items
  | .tree root => good_tree cfg ok root
theorem goodL (cfg : Cfg) (ok : CfgOk cfg) : ∀ rs : List R, GoodL cfg rs
  | [] => goodL_nil cfg
  | r :: rs => goodL_cons cfg r rs (good cfg ok r) (goodL cfg ok rs)
end


end RichModel.Layout
