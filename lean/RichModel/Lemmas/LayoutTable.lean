import RichModel.Lemmas.LayoutTableWidths
/-!
**The table never overflows** (segment level): `tableConsole` is title ++ body ++ caption where the body is a
sequence of complete lines none wider than the available width.  Built on `width_fits_ratio` (the widths: `Dep.width_fits`
extended to ratio columns, `Lemmas/LayoutTableRatio.lean`),
`Dep.table_rect` / `renderBody_good` (the rectangle) and `setShape_rect` (the shaped cells).
-/
namespace RichModel.Layout
open RichModel RichModel.Frames

theorem tb_tableConsole_eq (cfg : Cfg) (o : TableOpts) (opts : Opts) (cols : List ColS) (w : Nat) (ws : List Int)
    (h : (toTable cfg o cols).calcWidths cfg.fl
      ((toTable cfg o cols).width.getD (w : Int) - (toTable cfg o cols).extraWidth) = some ws) :
    tableConsole cfg o opts cols w =
      annotation cfg o.title o.titleJustify opts (ws.sum + (toTable cfg o cols).extraWidth)
        ++ ((tb_tbR o cols (tb_rendered cfg o cols (ws.map Int.toNat))).renderBody cfg.fl cfg.cw (ws.map Int.toNat)).flatMap
            (bodyLineSegs (tb_shaped cfg.cw (ws.map Int.toNat) (tb_rendered cfg o cols (ws.map Int.toNat))))
        ++ annotation cfg o.caption o.captionJustify opts (ws.sum + (toTable cfg o cols).extraWidth) := by
  unfold tableConsole
  simp only [h]
  rfl

theorem tb_sum_toNat : ∀ (ws : List Int), (∀ x ∈ ws, 0 ≤ x) → ((ws.map Int.toNat).sum : Int) = ws.sum
  | [], _ => rfl
  | x :: xs, h => by
    have hx := h x (by simp)
    have ih := tb_sum_toNat xs (fun y hy => h y (List.mem_cons_of_mem _ hy))
    simp only [List.map_cons, List.sum_cons, Int.natCast_add, ih]
    omega

/-- The body of a table whose widths are known: complete lines, none wider than the rectangle. -/
theorem tb_body_ok (cfg : Cfg) (hcw : cfg.cw = cwD) (hfl : cfg.fl.leadingRepeat = false)
    (o : TableOpts) (cols : List ColS) (widths : List Nat) (hwl : widths.length = cols.length) :
    let rendered := tb_rendered cfg o cols widths
    let tbR := tb_tbR o cols rendered
    let body := (tbR.renderBody cfg.fl cfg.cw widths).flatMap (bodyLineSegs (tb_shaped cfg.cw widths rendered))
    (∀ l ∈ splitLines body, lineLength cfg.cw l ≤ tbR.bodyWidth widths) ∧ Closed body := by
  intro rendered tbR body
  have hsp : cfg.cw ' ' = 1 := by rw [hcw]; exact cwD_space
  have h2 : ∀ c, cfg.cw c ≤ 2 := by rw [hcw]; exact cwD_le_two
  have hnl : cfg.cw '\n' = 0 := by rw [hcw]; exact cwD_nl
  have hrl : rendered.length = cols.length := tb_rendered_length cfg o cols widths hwl
  have hRl : tbR.columns.length = cols.length := tb_tbR_columns_length o cols rendered hrl
  have hwfR : ∀ b, tbR.box = some b → b.wf cfg.cw := fun b hb => tb_boxOf_wf cfg.cw hcw o b hb
  have hs : tb_ShapedOk cfg.cw widths (tb_shaped cfg.cw widths rendered) :=
    tb_shaped_ok _ _ _ (tb_rendered_nlFree cfg hsp h2 o cols widths)
  have hline : ∀ l ∈ tbR.renderBody cfg.fl cfg.cw widths,
      bodyLineSegs (tb_shaped cfg.cw widths rendered) l
        = (bodyLineSegs (tb_shaped cfg.cw widths rendered) l).dropLast ++ [nl] ∧
      NlFree (bodyLineSegs (tb_shaped cfg.cw widths rendered) l).dropLast ∧
      lineLength cfg.cw (bodyLineSegs (tb_shaped cfg.cw widths rendered) l).dropLast ≤ tbR.bodyWidth widths := by
    intro l hl
    obtain ⟨line, heq, hnf, hle⟩ :=
      tb_bodyLine_ok cfg.cw hsp h2 hnl cfg.fl hfl tbR hwfR widths (hwl.trans hRl.symm) _ hs l hl
    have hd : (bodyLineSegs (tb_shaped cfg.cw widths rendered) l).dropLast = line := by rw [heq]; simp
    rw [hd]
    exact ⟨heq, hnf, hle⟩
  refine ⟨?_, ?_⟩
  · intro l hl
    have hsplit := tb_splitLines_flatMap (bodyLineSegs (tb_shaped cfg.cw widths rendered))
      (fun l => (bodyLineSegs (tb_shaped cfg.cw widths rendered) l).dropLast) (tbR.renderBody cfg.fl cfg.cw widths)
      (fun a ha => ⟨(hline a ha).1, (hline a ha).2.1⟩)
    simp only [body] at hl
    rw [hsplit] at hl
    obtain ⟨a, ha, rfl⟩ := List.mem_map.mp hl
    exact (hline a ha).2.2
  · exact tb_closed_flatMap _ (fun l => (bodyLineSegs (tb_shaped cfg.cw widths rendered) l).dropLast) _
      (fun a ha => (hline a ha).1)

/-- the ratios of the table's columns come from natural numbers -/
theorem tb_toTable_ratio_nonneg (cfg : Cfg) (o : TableOpts) (cols : List ColS) :
    ∀ c ∈ (toTable cfg o cols).columns, 0 ≤ c.ratio.getD 0 := by
  intro c hc
  obtain ⟨cs, _, pc, _, rfl⟩ := tb_mem_toTable_columns cfg o cols c hc
  simp only [toColumn, toColumnC]
  cases cs.o.ratio with
  | none => simp
  | some n => simp only [Option.map_some, Option.getD_some]; exact Int.natCast_nonneg n

/-- **Table.**  Columns free to wrap (no `width`, `min_width`, `no_wrap`; ratio columns allowed, but no `ratio=0` column in a
table that expands), cells whose measured maximum is never negative, room for the borders and one cell per
column (and, with an explicit `Table(width=tw)`, `tw` itself within the available width): the table is the title, a body and
the caption, the body is a sequence of complete lines none wider than the available width. -/
theorem tableConsole_decomp (cfg : Cfg) (hcw : cfg.cw = cwD) (hfl : cfg.fl.leadingRepeat = false)
    (o : TableOpts) (opts : Opts) (cols : List ColS) (w : Nat)
    (hne : cols ≠ [])
    (hfree : ∀ c ∈ cols, c.o.wrappable ∧ ((cfg.fl.flexNegative = false ∧ cfg.fl.flexClampZero = false) ∨
      (o.expand || o.width.isSome) = false ∨ c.o.ratio ≠ some 0))
    (hmeas : ∀ c ∈ cols, ∀ ch ∈ c.header :: c.footer :: c.cells, ∀ k : Nat, 0 ≤ (ch.measure k).maximum)
    (hw : tableExtra o cols.length + cols.length ≤ w)
    (hwidth : ∀ tw, o.width = some tw → tw ≤ w ∧ tableExtra o cols.length + cols.length ≤ tw) :
    ∃ (tw : Int) (body : List Seg), tw ≤ (w : Int) ∧
      tableConsole cfg o opts cols w =
        annotation cfg o.title o.titleJustify opts tw ++ body ++ annotation cfg o.caption o.captionJustify opts tw ∧
      (∀ l ∈ splitLines body, lineLength cfg.cw l ≤ w) ∧ Closed body := by
  have hn1 : 1 ≤ cols.length := by
    cases cols with
    | nil => exact absurd rfl hne
    | cons _ _ => simp
  have hlenT := tb_toTable_columns_length cfg o cols
  have hneT : (toTable cfg o cols).columns ≠ [] := by
    intro h; rw [h] at hlenT; simp at hlenT; omega
  have hfreeT := tb_toTable_allFree cfg o cols (fun c hc => ⟨(hfree c hc).1.1, (hfree c hc).1.2.1⟩) hmeas
  have hnwT := tb_toTable_noWrap cfg o cols (fun c hc => (hfree c hc).1.2.2)
  obtain ⟨hex0, hexle⟩ := tb_extraWidth_skel o (toTable cfg o cols).columns cols.length hlenT hn1
  have hexT : ({ o.skel with columns := (toTable cfg o cols).columns } : Table).extraWidth = (toTable cfg o cols).extraWidth := rfl
  rw [hexT] at hex0 hexle
  have hmax : (toTable cfg o cols).width.getD (w : Int) ≤ (w : Int) ∧
      ((tableExtra o cols.length + cols.length : Nat) : Int) ≤ (toTable cfg o cols).width.getD (w : Int) := by
    have hwd : (toTable cfg o cols).width = o.width.map Int.ofNat := rfl
    rw [hwd]
    cases hw' : o.width with
    | none => simp only [Option.map_none, Option.getD_none]; omega
    | some tw =>
      obtain ⟨h1, h2⟩ := hwidth tw hw'
      simp only [Option.map_some, Option.getD_some, Int.ofNat_eq_natCast]
      omega
  have hfits : ∃ ws, (toTable cfg o cols).calcWidths cfg.fl
      ((toTable cfg o cols).width.getD (w : Int) - (toTable cfg o cols).extraWidth) = some ws ∧
      ws.sum ≤ (toTable cfg o cols).width.getD (w : Int) - (toTable cfg o cols).extraWidth ∧
      ws.length = (toTable cfg o cols).columns.length ∧ ∀ x ∈ ws, 1 ≤ x := by
    by_cases hflags : cfg.fl.flexNegative = false ∧ cfg.fl.flexClampZero = false
    · exact width_fits_any_ratio' cfg.fl hflags.1 hflags.2 (toTable cfg o cols) _ hfreeT
        (tb_paddingWidth_nonneg cfg o cols) (tb_toTable_ratio_nonneg cfg o cols) hneT hnwT (by rw [hlenT]; omega)
    · have hrT := tb_toTable_ratiosPos cfg o cols (fun c hc => by
        rcases (hfree c hc).2 with h | h
        · exact absurd h hflags
        · exact h)
      exact width_fits_ratio cfg.fl (toTable cfg o cols) _ hrT hfreeT
        (tb_paddingWidth_nonneg cfg o cols) hneT hnwT (by rw [hlenT]; omega)
  obtain ⟨ws, hws, hsum, hlen, hpos⟩ := hfits
  have hwl : (ws.map Int.toNat).length = cols.length := by rw [List.length_map, hlen, hlenT]
  obtain ⟨hfit, hclosed⟩ := tb_body_ok cfg hcw hfl o cols (ws.map Int.toNat) hwl
  refine ⟨ws.sum + (toTable cfg o cols).extraWidth, _, by omega, tb_tableConsole_eq cfg o opts cols w ws hws, ?_, hclosed⟩
  intro l hl
  have hle := hfit l hl
  have hrl := tb_rendered_length cfg o cols (ws.map Int.toNat) hwl
  have hRl := tb_tbR_columns_length o cols (tb_rendered cfg o cols (ws.map Int.toNat)) hrl
  have hneR : (tb_tbR o cols (tb_rendered cfg o cols (ws.map Int.toNat))).columns ≠ [] := by
    intro h; rw [h] at hRl; simp at hRl; omega
  have hbw := Dep.bodyWidth_eq (tb_tbR o cols (tb_rendered cfg o cols (ws.map Int.toNat))) (ws.map Int.toNat)
    (hwl.trans hRl.symm) hneR
  have hexR : (tb_tbR o cols (tb_rendered cfg o cols (ws.map Int.toNat))).extraWidth = (toTable cfg o cols).extraWidth := by
    unfold Table.extraWidth
    rw [hRl, hlenT]
    rfl
  rw [hexR, tb_sum_toNat ws (fun x hx => by have := hpos x hx; omega)] at hbw
  omega

end RichModel.Layout
