import RichModel.Lemmas.FramesColumnsFill
/-
`Columns.__rich_console__` (columns.py:62-171): every item is shown exactly once, in the documented
order (row-first, column-first, right-to-left), the last row padded with blanks.  Unbounded in the
number of items, the options and the width.

1. `chunk_flatten`, `chunk_length_le`, `chunk_length_eq`, `chunk_ne_nil`
2./3. (in Lemmas/FramesColumnsFill) `fillMatrix_closed`, `fillMatrix_safe`, `fillMatrix_flatten`,
   `itemOrder_columnFirst_eq`, `_getElem?`, `_perm`, `_nodup`, `_mem`, `_length`, `itemOrder_rowFirst`
4. `iterRenderables_zero`, `iterRenderables_pos`, `iterRenderables_shape`, `iterRenderables_error`
5. `columnsLayout_each_once`, `columnsLayout_items_perm`, `columnsLayout_ok`,
   `columnsLayout_error`, `columnsLayout_error_iff`, `searchInner_pos`, `searchLoop_pos`,
   `columnsLayout_no_zeroDivision`
-/
namespace RichModel.Frames
open RichModel

/-! ## 1. `chunk` -/

theorem chunk_flatten {α : Type} {c : Nat} (hc : 0 < c) :
    ∀ (fuel : Nat) (l : List α), l.length ≤ fuel → (chunk c fuel l).flatten = l := by
  intro fuel
  induction fuel with
  | zero => intro l hl; have : l = [] := List.length_eq_zero_iff.mp (by omega); subst this; rfl
  | succ fuel ih =>
    intro l hl
    unfold chunk
    have hc' : (c == 0) = false := by simp; omega
    cases l with
    | nil => simp
    | cons a l =>
      simp only [List.isEmpty_cons, hc', Bool.or_self, Bool.false_eq_true, if_false, List.flatten_cons]
      rw [ih _ (by simp at hl ⊢; omega), List.take_append_drop]

theorem chunk_length_le {α : Type} (c : Nat) :
    ∀ (fuel : Nat) (l : List α), ∀ row ∈ chunk c fuel l, row.length ≤ c := by
  intro fuel
  induction fuel with
  | zero => intro l row h; simp [chunk] at h
  | succ fuel ih =>
    intro l row h
    unfold chunk at h
    split at h
    · simp at h
    · rcases List.mem_cons.mp h with h | h
      · subst h; simp; omega
      · exact ih _ _ h

theorem chunk_length_eq {α : Type} {c : Nat} (hc : 0 < c) :
    ∀ (fuel : Nat) (l : List α), l.length ≤ fuel → c ∣ l.length →
      ∀ row ∈ chunk c fuel l, row.length = c := by
  intro fuel
  induction fuel with
  | zero => intro l _ _ row h; simp [chunk] at h
  | succ fuel ih =>
    intro l hl hd row h
    unfold chunk at h
    split at h
    · simp at h
    · rename_i hne
      have hl0 : 0 < l.length := by
        cases l with
        | nil => simp at hne
        | cons a l => simp
      have hcl : c ≤ l.length := Nat.le_of_dvd hl0 hd
      rcases List.mem_cons.mp h with h | h
      · subst h; simp; omega
      · refine ih (l.drop c) (by simp; omega) ?_ row h
        obtain ⟨k, hk⟩ := hd
        cases k with
        | zero => omega
        | succ k => exact ⟨k, by simp [hk, Nat.mul_succ]⟩

/-- The rows are non-empty. -/
theorem chunk_ne_nil {α : Type} (c : Nat) :
    ∀ (fuel : Nat) (l : List α), ∀ row ∈ chunk c fuel l, row ≠ [] := by
  intro fuel
  induction fuel with
  | zero => intro l row h; simp [chunk] at h
  | succ fuel ih =>
    intro l row h
    unfold chunk at h
    split at h
    · simp at h
    · rename_i hne
      rcases List.mem_cons.mp h with h | h
      · subst h
        cases l with
        | nil => simp at hne
        | cons a l =>
          have : c ≠ 0 := by intro h0; simp [h0] at hne
          cases c with
          | zero => exact absurd rfl this
          | succ c => simp
      · exact ih _ _ h

/-! ## 4. `iterRenderables` -/

/-- number of blanks appended to the last row -/
def padCount (n c : Nat) : Nat := if n % c != 0 then c - n % c else 0

theorem padCount_lt {n c : Nat} (hc : 0 < c) : padCount n c < c := by
  unfold padCount
  have := Nat.mod_lt n hc
  split
  · rename_i h; simp at h; omega
  · exact hc

theorem dvd_add_padCount {n c : Nat} (hc : 0 < c) : c ∣ n + padCount n c := by
  unfold padCount
  have h := Nat.div_add_mod n c
  have hr := Nat.mod_lt n hc
  split
  · refine ⟨n / c + 1, ?_⟩
    rw [Nat.mul_succ]; omega
  · rename_i h0
    simp at h0
    exact ⟨n / c, by omega⟩

theorem iterRenderables_zero (cf : Bool) (widths : List Int) :
    iterRenderables cf widths 0 = .error .zeroDivision := rfl

theorem iterRenderables_pos (cf : Bool) (widths : List Int) {c : Nat} (hc : 0 < c) :
    iterRenderables cf widths c
      = .ok ((itemOrder cf widths.length c).map (fun i => (widths.getD i 0, some i))
              ++ List.replicate (padCount widths.length c) (0, none)) := by
  have hc' : (c == 0) = false := by simp; omega
  simp [iterRenderables, hc', padCount]

theorem iterRenderables_error {cf : Bool} {widths : List Int} {c : Nat} {e : PyErr}
    (h : iterRenderables cf widths c = .error e) : c = 0 ∧ e = .zeroDivision := by
  rcases Nat.eq_zero_or_pos c with hc | hc
  · subst hc; rw [iterRenderables_zero] at h; cases h; exact ⟨rfl, rfl⟩
  · rw [iterRenderables_pos cf widths hc] at h; cases h

theorem iterRenderables_shape (cf : Bool) (widths : List Int) {c : Nat} (hc : 0 < c) :
    ∃ items k, iterRenderables cf widths c = .ok items ∧ k < c ∧ c ∣ items.length ∧
      items.map (·.2) = (itemOrder cf widths.length c).map some ++ List.replicate k none ∧
      items.map (·.1) = (itemOrder cf widths.length c).map (fun i => widths.getD i 0) ++ List.replicate k 0 := by
  refine ⟨_, padCount widths.length c, iterRenderables_pos cf widths hc, padCount_lt hc, ?_, ?_, ?_⟩
  · simp only [List.length_append, List.length_map, List.length_replicate, itemOrder_length hc]
    exact dvd_add_padCount hc
  · simp [List.map_append, Function.comp_def]
  · simp [List.map_append, Function.comp_def]


/-! ## 5. `columnsLayout` -/

/-- `renderable_widths` after the `equal` adjustment. -/
def columnsWidths (o : ColumnsOpts) (measured : List Int) : List Int :=
  if o.equal then List.replicate measured.length (listMax measured) else measured

theorem columnsWidths_length (o : ColumnsOpts) (measured : List Int) :
    (columnsWidths o measured).length = measured.length := by
  unfold columnsWidths; split <;> simp

/-- `column_count` as computed by `__rich_console__` before the final `iter_renderables`. -/
def columnsCount (v : Variant) (o : ColumnsOpts) (p : PadDims) (measured : List Int) (maxWidth : Int) : Except PyErr Nat :=
  match o.width with
  | some cwid =>
    if v.columnsZeroCount then
      if cwid + max (p.left : Int) p.right == 0 then .error .zeroDivision
      else .ok (maxWidth / (cwid + max (p.left : Int) p.right)).toNat
    else .ok (max 1 (maxWidth / (max 1 (cwid + max (p.left : Int) p.right))).toNat)
  | none => .ok (searchLoop o.columnFirst (columnsWidths o measured) (max (p.left : Int) p.right) maxWidth
      (measured.length + 1) measured.length)

/-- `columnsLayout` with the padding unpacked and the column count named. -/
theorem columnsLayout_eq (v : Variant) (o : ColumnsOpts) (measured : List Int) (maxWidth : Int) (p : PadDims)
    (hne : measured ≠ []) (hp : unpackPad o.padding = .ok p) :
    columnsLayout v o measured maxWidth =
      match columnsCount v o p measured maxWidth with
      | .error e => .error e
      | .ok c =>
        match iterRenderables o.columnFirst (columnsWidths o measured) c with
        | .error e => .error e
        | .ok items =>
          let cells := items.map (·.2)
          let rows := chunk c cells.length cells
          .ok (some ⟨c, if o.rightToLeft then rows.map List.reverse else rows⟩) := by
  have h0 : measured.isEmpty = false := by cases measured <;> simp_all
  unfold columnsLayout columnsCount columnsWidths
  simp only [h0, hp, Bool.false_eq_true, if_false]
  cases o.width <;> rfl


/-- The cells handed to the row slicing: the items in `itemOrder`, then the blanks. -/
def columnsCells (cf : Bool) (n c : Nat) : List (Option Nat) :=
  (itemOrder cf n c).map some ++ List.replicate (padCount n c) none

theorem columnsCells_length {cf : Bool} {n c : Nat} (hc : 0 < c) :
    (columnsCells cf n c).length = n + padCount n c := by
  simp [columnsCells, itemOrder_length hc]

/-- A successful layout, spelled out. -/
theorem columnsLayout_ok {v : Variant} {o : ColumnsOpts} {measured : List Int} {maxWidth : Int} {L : ColumnsLayout}
    (h : columnsLayout v o measured maxWidth = .ok (some L)) :
    ∃ p, measured ≠ [] ∧ unpackPad o.padding = .ok p ∧
      columnsCount v o p measured maxWidth = .ok L.columnCount ∧ 0 < L.columnCount ∧
      L.rows =
        (let cells := columnsCells o.columnFirst measured.length L.columnCount
         let rows := chunk L.columnCount cells.length cells
         if o.rightToLeft then rows.map List.reverse else rows) := by
  have hne : measured ≠ [] := by
    intro h0; subst h0; simp [columnsLayout] at h
  cases hp : unpackPad o.padding with
  | error e =>
    have h0 : measured.isEmpty = false := by cases measured <;> simp_all
    simp [columnsLayout, h0, hp] at h
  | ok p =>
    refine ⟨p, hne, rfl, ?_⟩
    rw [columnsLayout_eq v o measured maxWidth p hne hp] at h
    cases hc : columnsCount v o p measured maxWidth with
    | error e => simp [hc] at h
    | ok c =>
      simp only [hc] at h
      rcases Nat.eq_zero_or_pos c with h0 | h0
      · subst h0; simp [iterRenderables_zero] at h
      · rw [iterRenderables_pos _ _ h0] at h
        simp only [Except.ok.injEq, Option.some.injEq] at h
        subst h
        refine ⟨rfl, h0, ?_⟩
        simp [columnsCells, columnsWidths_length, Function.comp_def]

theorem map_reverse_map_reverse {α : Type} (rows : List (List α)) :
    (rows.map List.reverse).map List.reverse = rows := by
  induction rows with
  | nil => rfl
  | cons r rows ih => rw [List.map_cons, List.map_cons, ih, List.reverse_reverse]

/-- **Every item exactly once, in the documented order, blanks only at the end.** -/
theorem columnsLayout_each_once (v : Variant) (o : ColumnsOpts) (measured : List Int) (maxWidth : Int) (L : ColumnsLayout)
    (h : columnsLayout v o measured maxWidth = .ok (some L)) :
    0 < L.columnCount ∧
    (∀ row ∈ L.rows, row.length = L.columnCount) ∧
    ∃ k, k < L.columnCount ∧
      ((if o.rightToLeft then L.rows.map List.reverse else L.rows).flatten
        = (itemOrder o.columnFirst measured.length L.columnCount).map some ++ List.replicate k none) := by
  obtain ⟨p, hne, hp, hcnt, hc, hrows⟩ := columnsLayout_ok h
  have hlen := columnsCells_length (cf := o.columnFirst) (n := measured.length) hc
  have hdvd : L.columnCount ∣ (columnsCells o.columnFirst measured.length L.columnCount).length := by
    rw [hlen]; exact dvd_add_padCount hc
  have hrl := chunk_length_eq hc _ (columnsCells o.columnFirst measured.length L.columnCount)
    (Nat.le_refl _) hdvd
  have hfl := chunk_flatten hc _ (columnsCells o.columnFirst measured.length L.columnCount) (Nat.le_refl _)
  refine ⟨hc, ?_, padCount measured.length L.columnCount, padCount_lt hc, ?_⟩
  · intro row hrow
    rw [hrows] at hrow
    simp only at hrow
    split at hrow
    · obtain ⟨r, hr, rfl⟩ := List.mem_map.mp hrow
      rw [List.length_reverse]; exact hrl r hr
    · exact hrl row hrow
  · rw [hrows]
    simp only
    split
    · rw [map_reverse_map_reverse, hfl]; rfl
    · rw [hfl]; rfl


theorem filterMap_id_append_replicate_none {α : Type} (L : List α) (k : Nat) :
    (L.map some ++ List.replicate k none).filterMap id = L := by
  rw [List.filterMap_append, filterMap_id_map_some]
  induction k with
  | zero => simp
  | succ k ih => simp [List.replicate_succ]

theorem flatten_map_reverse_perm {α : Type} (rows : List (List α)) :
    (rows.map List.reverse).flatten.Perm rows.flatten := by
  induction rows with
  | nil => exact List.Perm.refl _
  | cons r rows ih =>
    simp only [List.map_cons, List.flatten_cons]
    exact List.Perm.append (List.reverse_perm r) ih

/-- The non-blank cells of the grid handed to the table are a permutation of all item indices:
every item is shown exactly once (any option combination, any width). -/
theorem columnsLayout_items_perm (v : Variant) (o : ColumnsOpts) (measured : List Int) (maxWidth : Int) (L : ColumnsLayout)
    (h : columnsLayout v o measured maxWidth = .ok (some L)) :
    (L.rows.flatten.filterMap id).Perm (List.range measured.length) := by
  obtain ⟨hc, _, k, _, hfl⟩ := columnsLayout_each_once v o measured maxWidth L h
  have h1 : (L.rows.flatten).Perm ((if o.rightToLeft then L.rows.map List.reverse else L.rows).flatten) := by
    split
    · exact (flatten_map_reverse_perm L.rows).symm
    · exact List.Perm.refl _
  refine (List.Perm.filterMap id h1).trans ?_
  rw [hfl, filterMap_id_append_replicate_none]
  exact itemOrder_perm hc o.columnFirst

/-! ## When `columnsLayout` raises -/

theorem unpackPad_error {l : List Nat} {e : PyErr} (h : unpackPad l = .error e) : e = .valueError := by
  unfold unpackPad at h
  split at h <;> cases h
  rfl

/-- With valid padding and at least one item the only possible exception is `ZeroDivisionError`, raised
by `iter_renderables(0)`: exactly when the computed column count is 0 (or `width + padding = 0`). -/
theorem columnsLayout_error (v : Variant) (o : ColumnsOpts) (measured : List Int) (maxWidth : Int) (p : PadDims)
    (hne : measured ≠ []) (hp : unpackPad o.padding = .ok p) (e : PyErr) :
    columnsLayout v o measured maxWidth = .error e ↔
      e = .zeroDivision ∧
        (columnsCount v o p measured maxWidth = .error .zeroDivision ∨ columnsCount v o p measured maxWidth = .ok 0) := by
  rw [columnsLayout_eq v o measured maxWidth p hne hp]
  cases hc : columnsCount v o p measured maxWidth with
  | error e' =>
    have he' : e' = .zeroDivision := by
      unfold columnsCount at hc
      split at hc
      · split at hc
        · split at hc <;> cases hc; rfl
        · cases hc
      · cases hc
    subst he'
    simp only [Except.error.injEq, reduceCtorEq, or_false, and_true]
    exact eq_comm
  | ok c =>
    dsimp only
    rcases Nat.eq_zero_or_pos c with h0 | h0
    · subst h0
      simp only [iterRenderables_zero, Except.error.injEq, reduceCtorEq, false_or, and_true]
      exact eq_comm
    · rw [iterRenderables_pos _ _ h0]
      simp only [reduceCtorEq, Except.ok.injEq, false_or, false_iff, not_and]
      intro _; omega

theorem columnsLayout_error_iff (v : Variant) (o : ColumnsOpts) (measured : List Int) (maxWidth : Int) (p : PadDims)
    (hne : measured ≠ []) (hp : unpackPad o.padding = .ok p) :
    columnsLayout v o measured maxWidth = .error .zeroDivision ↔
      match o.width with
      | some cw => v.columnsZeroCount = true ∧
          (cw + max (p.left : Int) p.right = 0 ∨ maxWidth / (cw + max (p.left : Int) p.right) ≤ 0)
      | none => searchLoop o.columnFirst (columnsWidths o measured) (max (p.left : Int) p.right) maxWidth
          (measured.length + 1) measured.length = 0 := by
  rw [columnsLayout_error v o measured maxWidth p hne hp]
  unfold columnsCount
  cases o.width with
  | none => simp
  | some cw =>
    simp only [true_and]
    cases hz : v.columnsZeroCount
    · simp
    · by_cases h0 : cw + max (p.left : Int) p.right = 0
      · simp [h0]
      · simp [h0, Int.toNat_eq_zero]

/-! ## `width=None`: the search never reaches 0 when every item fits -/

theorem foldl_max_le {B : Int} : ∀ (xs : List Int) (x : Int), x ≤ B → (∀ m ∈ xs, m ≤ B) → xs.foldl max x ≤ B := by
  intro xs
  induction xs with
  | nil => intro x hx _; exact hx
  | cons y ys ih =>
    intro x hx h
    simp only [List.foldl_cons]
    exact ih _ (by have := h y (by simp); omega) (fun m hm => h m (by simp [hm]))

theorem listMax_le {B : Int} (hB : 0 ≤ B) (l : List Int) (h : ∀ m ∈ l, m ≤ B) : listMax l ≤ B := by
  cases l with
  | nil => exact hB
  | cons x xs => exact foldl_max_le xs x (h x (by simp)) (fun m hm => h m (by simp [hm]))

theorem columnsWidths_le {o : ColumnsOpts} {measured : List Int} {B : Int} (hB : 0 ≤ B)
    (h : ∀ m ∈ measured, m ≤ B) : ∀ m ∈ columnsWidths o measured, m ≤ B := by
  unfold columnsWidths
  split
  · intro m hm
    rw [(List.mem_replicate.mp hm).2]; exact listMax_le hB measured h
  · exact h

theorem getD_le {B : Int} (hB : 0 ≤ B) (l : List Int) (h : ∀ m ∈ l, m ≤ B) (i : Nat) : l.getD i 0 ≤ B := by
  rw [List.getD_eq_getElem?_getD]
  cases hi : l[i]? with
  | none => exact hB
  | some x => exact h x (List.mem_of_getElem? hi)

/-- A `break` of the inner loop sets `column_count ≥ 1` when every width fits: with one column
touched the total is that single width. -/
theorem searchInner_pos {wp mw : Int} (hmw : 0 ≤ mw) (c : Nat) :
    ∀ (items : List (Int × Option Nat)) (ws : List Int) (colNo k : Nat),
      (∀ w ∈ ws, w ≤ mw) → (∀ it ∈ items, it.1 ≤ mw) →
      searchInner wp mw c items ws colNo = some k → 1 ≤ k := by
  intro items
  induction items with
  | nil => intro ws colNo k _ _ h; simp [searchInner] at h
  | cons it rest ih =>
    intro ws colNo k hws hits h
    obtain ⟨rw', x⟩ := it
    have hrw : rw' ≤ mw := hits (rw', x) (by simp)
    unfold searchInner at h
    simp only at h
    generalize hws' : (if colNo < ws.length then ws.set colNo (max (ws.getD colNo 0) rw') else ws ++ [max 0 rw']) = ws' at h
    have hle : ∀ w ∈ ws', w ≤ mw := by
      subst hws'
      intro w hw
      split at hw
      · rcases List.mem_or_eq_of_mem_set hw with hw | hw
        · exact hws w hw
        · have := getD_le hmw ws hws colNo; omega
      · rcases List.mem_append.mp hw with hw | hw
        · exact hws w hw
        · simp at hw; omega
    have hpos : 0 < ws'.length := by
      subst hws'
      split
      · simp; omega
      · simp
    split at h
    · rename_i hgt
      cases h
      match ws', hle, hpos, hgt with
      | [a], hle, _, hgt =>
        have := hle a (by simp)
        simp at hgt; omega
      | a :: b :: t, _, _, _ => simp
    · exact ih ws' _ k hle (fun it hit => hits it (by simp [hit])) h

theorem searchLoop_pos {cf : Bool} {widths : List Int} {wp mw : Int} (hmw : 0 ≤ mw)
    (hw : ∀ m ∈ widths, m ≤ mw) :
    ∀ (fuel c : Nat), 1 ≤ c → 1 ≤ searchLoop cf widths wp mw fuel c := by
  intro fuel
  induction fuel with
  | zero => intro c hc; exact hc
  | succ fuel ih =>
    intro c hc
    unfold searchLoop
    split
    · rw [iterRenderables_pos cf widths (by omega : 0 < c)]
      simp only
      split
      · rename_i c' hc'
        refine ih c' (searchInner_pos hmw c _ [] 0 c' (by simp) ?_ hc')
        intro it hit
        rcases List.mem_append.mp hit with hit | hit
        · obtain ⟨i, _, rfl⟩ := List.mem_map.mp hit
          exact getD_le hmw widths hw i
        · rw [(List.mem_replicate.mp hit).2]; exact hmw
      · exact hc
    · exact hc

/-- With `width=None`, a non-negative `max_width` and every measured maximum `≤ max_width` (which
`Measurement.get` guarantees), `Columns.__rich_console__` never raises `ZeroDivisionError`. -/
theorem columnsLayout_no_zeroDivision (v : Variant) (o : ColumnsOpts) (measured : List Int) (maxWidth : Int)
    (hw : o.width = none) (hmw : 0 ≤ maxWidth) (hfit : ∀ m ∈ measured, m ≤ maxWidth) :
    columnsLayout v o measured maxWidth ≠ .error .zeroDivision := by
  intro h
  have hne : measured ≠ [] := by
    intro h0; subst h0; simp [columnsLayout] at h
  cases hp : unpackPad o.padding with
  | error e =>
    have h0 : measured.isEmpty = false := by cases measured <;> simp_all
    have := unpackPad_error hp
    subst this
    simp [columnsLayout, h0, hp] at h
  | ok p =>
    rw [columnsLayout_error_iff v o measured maxWidth p hne hp, hw] at h
    simp only at h
    have h1 : 1 ≤ measured.length := by cases measured <;> simp_all
    have := searchLoop_pos (cf := o.columnFirst) (wp := max (p.left : Int) p.right) hmw
      (columnsWidths_le (o := o) hmw hfit) (measured.length + 1) measured.length h1
    omega

end RichModel.Frames
