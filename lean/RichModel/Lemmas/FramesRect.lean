import RichModel.Lemmas.Frames
/-!
The rectangle lemmas for `Padding`, `Panel` and `Align`: what `Segment.split_lines` makes of their
output, line by line, for an arbitrary width function `cw` with `cw ' ' = 1`, `cw c ≤ 2`.
-/
namespace RichModel.Frames
open RichModel
variable {σ : Type}

theorem flatMap_replicate_single {α β : Type} (n : Nat) (x : α) (y : β) :
    (List.replicate n ([x], y)).flatMap (·.1) = List.replicate n x := by
  induction n with
  | zero => rfl
  | succ n ih => simp [List.replicate_succ, ih]

theorem setShape_none (cw : Char → Nat) (lines : List (List (Segment σ))) (n : Nat) :
    setShape cw lines n none none = lines.map (fun l => adjustLineLength cw l n none) := by
  simp [setShape]

/-! ## Padding -/

/-- `width` of `Padding.__rich_console__` -/
def paddingWidth (v : Variant) (p : PadDims) (expand : Bool) (c : Child σ) (w : Int) : Int :=
  if expand then w else min (fitWidth v (c.measureAt w).maximum + p.left + p.right) w

/-- the width the child is rendered at -/
def paddingChildWidth (v : Variant) (p : PadDims) (expand : Bool) (c : Child σ) (w : Int) : Int :=
  paddingWidth v p expand c w - p.left - p.right

def padLeftSegs (p : PadDims) : List (Segment σ) := if p.left != 0 then [seg (rep p.left ' ')] else []
def padRightSegs (p : PadDims) : List (Segment σ) := if p.right != 0 then [seg (rep p.right ' ')] else []

/-- a blank line of `n` cells as `split_lines` sees it -/
def blankLine (n : Int) : List (Segment σ) := if (rep n ' ').isEmpty then [] else [seg (rep n ' ')]

/-- the lines `Padding` draws: `top` blank lines, the child's lines (rendered alone at the inner width,
each then brought to exactly the inner width) between the left and right padding, `bottom` blank lines -/
def paddingLines (cw : Char → Nat) (v : Variant) (p : PadDims) (expand : Bool) (c : Child σ) (w : Int) :
    List (List (Segment σ)) :=
  let childW := paddingChildWidth v p expand c w
  List.replicate p.top (blankLine (paddingWidth v p expand c w))
    ++ (c.linesAt cw childW false).map (fun l => padLeftSegs p ++ adjustLineLength cw l childW.toNat none ++ padRightSegs p)
    ++ List.replicate p.bottom (blankLine (paddingWidth v p expand c w))

theorem rep_no_nl (n : Int) : ∀ c ∈ rep n ' ', c ≠ '\n' := by
  intro c hc
  simp only [rep, List.mem_replicate] at hc
  rw [hc.2]; decide

theorem nlFree_padLeft (p : PadDims) : NlFree (padLeftSegs p : List (Segment σ)) := by
  unfold padLeftSegs; split
  · exact nlFree_seg _ (rep_no_nl _)
  · exact NlFree.nil

theorem nlFree_padRight (p : PadDims) : NlFree (padRightSegs p : List (Segment σ)) := by
  unfold padRightSegs; split
  · exact nlFree_seg _ (rep_no_nl _)
  · exact NlFree.nil

theorem linesAt_nlFree (cw : Char → Nat) (hsp : cw ' ' = 1) (h2 : ∀ c, cw c ≤ 2) (c : Child σ) (w : Int) (pad : Bool) :
    ∀ l ∈ c.linesAt cw w pad, NlFree l :=
  renderLines_nlFree cw hsp h2 _ w pad

theorem paddingConsole_lines (cw : Char → Nat) (hsp : cw ' ' = 1) (h2 : ∀ c, cw c ≤ 2) (v : Variant) (p : PadDims)
    (expand : Bool) (c : Child σ) (w : Int) :
    splitLines (paddingConsole cw v p expand c w) = paddingLines cw v p expand c w := by
  let width := paddingWidth v p expand c w
  let childW := paddingChildWidth v p expand c w
  let body := (c.linesAt cw childW false).map (fun l => padLeftSegs p ++ adjustLineLength cw l childW.toNat none ++ padRightSegs p)
  let cs : List (List (Segment σ) × List (Segment σ)) :=
    List.replicate p.top ([seg (rep width ' ' ++ ['\n'])], blankLine width)
      ++ body.map (fun l => (l ++ [nl], l))
      ++ List.replicate p.bottom ([seg (rep width ' ' ++ ['\n'])], blankLine width)
  have hout : paddingConsole cw v p expand c w = cs.flatMap (·.1) := by
    simp only [paddingConsole, cs, body, List.flatMap_append, flatMap_replicate_single, setShape_none,
      List.flatMap_map, List.map_map, Function.comp_def]
    rfl
  have hlines : cs.map (·.2) = paddingLines cw v p expand c w := by
    simp only [cs, body, paddingLines, List.map_append, List.map_replicate, List.map_map, Function.comp_def]
    rfl
  rw [hout, ← hlines]
  apply splitLines_chunks
  intro q hq
  simp only [cs, List.mem_append, List.mem_replicate, List.mem_map] at hq
  have hblank : Terminated ([seg (rep width ' ' ++ ['\n'])] : List (Segment σ)) (blankLine width) :=
    terminated_text_nl _ (rep_no_nl _)
  rcases hq with (⟨_, rfl⟩ | ⟨l, hl, rfl⟩) | ⟨_, rfl⟩
  · exact hblank
  · apply terminated_line
    simp only [body, List.mem_map] at hl
    obtain ⟨l0, hl0, rfl⟩ := hl
    exact ((nlFree_padLeft p).append (adjust_nlFree cw hsp h2 _ _ _ _ (linesAt_nlFree cw hsp h2 c _ _ l0 hl0))).append
      (nlFree_padRight p)
  · exact hblank

theorem lineLength_blankLine (cw : Char → Nat) (hsp : cw ' ' = 1) (n : Int) :
    lineLength cw (blankLine n : List (Segment σ)) = n.toNat := by
  unfold blankLine
  split
  · rename_i h
    have hh : rep n ' ' = [] := List.isEmpty_iff.mp h
    have : (rep n ' ').length = 0 := by rw [hh]; rfl
    rw [rep_length] at this
    simp [this]
  · rw [lineLength_seg, cellLen_rep cw n ' ' hsp]

theorem lineLength_padLeft (cw : Char → Nat) (hsp : cw ' ' = 1) (p : PadDims) :
    lineLength cw (padLeftSegs p : List (Segment σ)) = p.left := by
  unfold padLeftSegs; split
  · rw [lineLength_seg, cellLen_rep cw _ ' ' hsp]; simp
  · rename_i h; simp at h; simp [h]

theorem lineLength_padRight (cw : Char → Nat) (hsp : cw ' ' = 1) (p : PadDims) :
    lineLength cw (padRightSegs p : List (Segment σ)) = p.right := by
  unfold padRightSegs; split
  · rw [lineLength_seg, cellLen_rep cw _ ' ' hsp]; simp
  · rename_i h; simp at h; simp [h]

/-- every line `Padding` draws is exactly `width` cells wide, provided the padding fits (`left + right ≤ width`) -/
theorem paddingLines_width (cw : Char → Nat) (hsp : cw ' ' = 1) (h2 : ∀ c, cw c ≤ 2) (v : Variant) (p : PadDims)
    (expand : Bool) (c : Child σ) (w : Int) (hfit : (p.left : Int) + p.right ≤ paddingWidth v p expand c w) :
    ∀ l ∈ paddingLines cw v p expand c w, lineLength cw l = (paddingWidth v p expand c w).toNat := by
  intro l hl
  simp only [paddingLines, List.mem_append, List.mem_replicate, List.mem_map] at hl
  rcases hl with (⟨_, rfl⟩ | ⟨l0, _, rfl⟩) | ⟨_, rfl⟩
  · exact lineLength_blankLine cw hsp _
  · rw [lineLength_append, lineLength_append, lineLength_padLeft cw hsp, lineLength_padRight cw hsp,
      adjust_exact cw hsp h2 l0 _ none true (Or.inl rfl)]
    unfold paddingChildWidth
    omega
  · exact lineLength_blankLine cw hsp _

/-- a child line inside a frame: the child's own line followed by blanks only -/
theorem adjust_stream_of_le (cw : Char → Nat) (l : List (Segment σ)) (n : Nat) (h : lineLength cw l ≤ n) :
    stream (adjustLineLength cw l n none) = stream l ++ List.replicate (n - lineLength cw l) (' ', none, false) :=
  adjust_pad_stream cw l n none h

/-! ## Panel -/

/-- the top border line as `split_lines` sees it (`cwid` = the child width, the panel is `cwid + 2` wide) -/
def panelTopLine (cw : Char → Nat) (env : Env) (v : Variant) (o : PanelOpts) (box : Box) (cwid : Int) : Option (List (Segment σ)) :=
  match panelTitle o.title with
  | none => some [seg (boxTop box cwid)]
  | some t =>
    match textConsoleSimple cw v (textAlign cw t o.titleAlign (cwid - 2) box.top) [] (env.consoleWidth : Int) with
    | none => none
    | some ts => some ([seg [box.topLeft, box.top]] ++ ts ++ [seg [box.top, box.topRight]])

/-- box characters never are a line feed -/
def Box.NoNl (b : Box) : Prop :=
  b.topLeft ≠ '\n' ∧ b.top ≠ '\n' ∧ b.topRight ≠ '\n' ∧ b.midLeft ≠ '\n' ∧ b.midRight ≠ '\n' ∧
  b.bottomLeft ≠ '\n' ∧ b.bottom ≠ '\n' ∧ b.bottomRight ≠ '\n'

/-- box characters are one cell wide -/
def Box.Narrow (cw : Char → Nat) (b : Box) : Prop :=
  cw b.topLeft = 1 ∧ cw b.top = 1 ∧ cw b.topRight = 1 ∧ cw b.midLeft = 1 ∧ cw b.midRight = 1 ∧
  cw b.bottomLeft = 1 ∧ cw b.bottom = 1 ∧ cw b.bottomRight = 1

theorem simpleChar_ne_nl (c : Char) (h : simpleChar c = true) : c ≠ '\n' := by
  intro heq; subst heq; revert h; decide

theorem rstripEnd_prefix (cw : Char → Nat) (v : Variant) (plain : List Char) (w : Int) :
    ∃ k, rstripEnd cw v plain w = plain.take k := by
  unfold rstripEnd
  simp only
  generalize (if v.rstripCountsChars = true then (plain.length : Int) else (cellLen cw plain : Int)) = tl
  by_cases h1 : tl > w
  · simp only [h1, if_true]
    by_cases h2 : (trailingSpaces plain != 0) = true
    · exact ⟨plain.length - (min (trailingSpaces plain : Int) (tl - w)).toNat, by simp only [h2, if_true]⟩
    · exact ⟨plain.length, by simp [h2]⟩
  · exact ⟨plain.length, by simp [h1]⟩

theorem textConsoleSimple_nlFree (cw : Char → Nat) (v : Variant) (plain : List Char) (w : Int) (ts : List (Segment σ))
    (h : textConsoleSimple cw v plain [] w = some ts) : NlFree ts := by
  unfold textConsoleSimple at h
  split at h
  · rename_i hc
    simp only [Bool.and_eq_true, List.all_eq_true, decide_eq_true_eq] at hc
    simp only [List.isEmpty_nil, if_true, List.append_nil, Option.some.injEq] at h
    subst h
    split
    · exact NlFree.nil
    · apply nlFree_seg
      intro c hcm
      apply simpleChar_ne_nl c
      apply hc.1 c
      obtain ⟨k, hk⟩ := rstripEnd_prefix cw v plain w
      rw [hk] at hcm
      exact List.mem_of_mem_take hcm
  · simp at h

theorem splitLines_framed (top bot a z : List (Segment σ)) (L : List (List (Segment σ)))
    (htop : NlFree top) (hbot : NlFree bot) (ha : NlFree a) (hz : NlFree z) (hL : ∀ l ∈ L, NlFree l) :
    splitLines (top ++ [nl] ++ L.flatMap (fun l => a ++ l ++ z ++ [nl]) ++ (bot ++ [nl]))
      = [top] ++ L.map (fun l => a ++ l ++ z) ++ [bot] := by
  have h1 : top ++ [nl] ++ L.flatMap (fun l => a ++ l ++ z ++ [nl]) ++ (bot ++ [nl])
      = ([top] ++ L.map (fun l => a ++ l ++ z) ++ [bot]).flatMap (fun l => l ++ [nl]) := by
    simp [List.flatMap_append, List.flatMap_map, Function.comp_def]
  rw [h1]
  apply splitLines_lines
  intro l hl
  simp only [List.mem_append, List.mem_singleton, List.mem_map] at hl
  rcases hl with (rfl | ⟨l0, hl0, rfl⟩) | rfl
  · exact htop
  · exact (ha.append (hL l0 hl0)).append hz
  · exact hbot

theorem panelConsole_lines (cw : Char → Nat) (hsp : cw ' ' = 1) (h2 : ∀ c, cw c ≤ 2) (env : Env) (v : Variant)
    (o : PanelOpts) (c : Child σ) (w : Int) (p : PadDims) (box : Box) (out : List (Segment σ))
    (hp : unpackPad o.padding = .ok p)
    (hb : boxAt (substituteBox env (o.safeBox.getD env.safeBox) o.box) = some box) (hnn : box.NoNl)
    (h : panelConsole cw env v o c w = .ok (some out)) :
    ∃ top, panelTopLine cw env v o box (panelChildWidth cw v o (panelInner cw v p c) w) = some top ∧
      splitLines out = [top]
        ++ ((panelInner cw v p c).linesAt cw (panelChildWidth cw v o (panelInner cw v p c) w) true).map
            (fun l => [seg [box.midLeft]] ++ l ++ [seg [box.midRight]])
        ++ [[seg (boxBottom box (panelChildWidth cw v o (panelInner cw v p c) w))]] := by
  unfold panelConsole at h
  simp only [hp, hb] at h
  generalize panelChildWidth cw v o (panelInner cw v p c) w = cwid at h ⊢
  have e1 : cwid + 2 - 2 = cwid := by omega
  have e2 : cwid + 2 - 4 = cwid - 2 := by omega
  simp only [e1, e2] at h
  obtain ⟨hn1, hn2, hn3, hn4, hn5, hn6, hn7, hn8⟩ := hnn
  have hmid1 : NlFree ([seg [box.midLeft]] : List (Segment σ)) := by
    apply nlFree_seg; intro d hd; simp only [List.mem_singleton] at hd; rw [hd]; exact hn4
  have hmid2 : NlFree ([seg [box.midRight]] : List (Segment σ)) := by
    apply nlFree_seg; intro d hd; simp only [List.mem_singleton] at hd; rw [hd]; exact hn5
  have hbot : NlFree ([seg (boxBottom box cwid)] : List (Segment σ)) := by
    apply nlFree_seg
    intro d hd
    simp only [boxBottom, rep, List.mem_append, List.mem_singleton, List.mem_replicate] at hd
    rcases hd with (rfl | ⟨_, rfl⟩) | rfl
    · exact hn6
    · exact hn7
    · exact hn8
  have key : ∀ top : List (Segment σ), NlFree top →
      splitLines (top ++ [nl]
        ++ ((panelInner cw v p c).linesAt cw cwid true).flatMap
            (fun l => [seg [box.midLeft]] ++ l ++ [seg [box.midRight]] ++ [nl])
        ++ [seg (boxBottom box cwid), nl])
      = [top] ++ ((panelInner cw v p c).linesAt cw cwid true).map
            (fun l => [seg [box.midLeft]] ++ l ++ [seg [box.midRight]])
        ++ [[seg (boxBottom box cwid)]] := by
    intro top htop
    exact splitLines_framed top [seg (boxBottom box cwid)] _ _ _ htop hbot hmid1 hmid2
      (linesAt_nlFree cw hsp h2 _ _ _)
  unfold panelTopLine
  cases hT : panelTitle o.title with
  | none =>
    simp only [hT] at h
    refine ⟨_, rfl, ?_⟩
    have hout : out = _ := (Option.some.inj (Except.ok.inj h)).symm
    rw [hout]
    apply key
    apply nlFree_seg
    intro d hd
    simp only [boxTop, rep, List.mem_append, List.mem_singleton, List.mem_replicate] at hd
    rcases hd with (rfl | ⟨_, rfl⟩) | rfl
    · exact hn1
    · exact hn2
    · exact hn3
  | some t =>
    simp only [hT] at h
    cases hts : textConsoleSimple (σ := σ) cw v (textAlign cw t o.titleAlign (cwid - 2) box.top) []
        (env.consoleWidth : Int) with
    | none => simp [hts] at h
    | some ts =>
      simp only [hts] at h
      refine ⟨[seg [box.topLeft, box.top]] ++ ts ++ [seg [box.top, box.topRight]], by simp only [hts], ?_⟩
      have hout : out = _ := (Option.some.inj (Except.ok.inj h)).symm
      rw [hout]
      apply key
      refine ((nlFree_seg _ ?_).append (textConsoleSimple_nlFree cw v _ _ ts hts)).append (nlFree_seg _ ?_)
      · intro d hd
        simp only [List.mem_cons, List.not_mem_nil, or_false] at hd
        rcases hd with rfl | rfl
        · exact hn1
        · exact hn2
      · intro d hd
        simp only [List.mem_cons, List.not_mem_nil, or_false] at hd
        rcases hd with rfl | rfl
        · exact hn2
        · exact hn3

/-! ### widths of the panel's lines -/

theorem setCellSizeI_cellLen (cw : Char → Nat) (hsp : cw ' ' = 1) (h2 : ∀ c, cw c ≤ 2) (t : List Char) (n : Int)
    (hn : 0 ≤ n) : cellLen cw (setCellSizeI cw t n) = n.toNat := by
  unfold setCellSizeI
  rw [if_neg (by omega)]
  exact (setCellSize_exact cw hsp h2 t n.toNat).1

/-- `Text.align` yields exactly `width` cells (for a one-cell fill character) -/
theorem textAlign_cellLen (cw : Char → Nat) (hsp : cw ' ' = 1) (h2 : ∀ c, cw c ≤ 2) (plain : List Char) (a : AlignM)
    (width : Int) (ch : Char) (hch : cw ch = 1) (hw : 0 ≤ width) :
    cellLen cw (textAlign cw plain a width ch) = width.toNat := by
  unfold textAlign textTruncate
  simp only [show (Overflow.fold == Overflow.ignore) = false from rfl, show (Overflow.fold == Overflow.ellipsis) = false from rfl,
    Bool.false_eq_true, if_false]
  by_cases hgt : (cellLen cw plain : Int) > width
  · simp only [hgt, if_true]
    have hl := setCellSizeI_cellLen cw hsp h2 plain width hw
    have : ((width - (cellLen cw (setCellSizeI cw plain width) : Int)) != 0) = false := by
      rw [hl]; simp; omega
    simp only [this, Bool.false_eq_true, if_false]
    exact hl
  · simp only [hgt, if_false]
    split
    · cases a <;> simp only [cellLen_append, cellLen_rep cw _ ch hch] <;> omega
    · rename_i h0
      simp at h0
      omega

theorem lineLength_boxRow (cw : Char → Nat) (a b z : Char) (ha : cw a = 1) (hb : cw b = 1) (hz : cw z = 1) (n : Int) :
    lineLength cw ([seg ([a] ++ rep n b ++ [z])] : List (Segment σ)) = n.toNat + 2 := by
  rw [lineLength_seg, cellLen_append, cellLen_append, cellLen_rep cw n b hb]
  simp [cellLen, ha, hz]; omega

/-- the title part of the top border, when nothing is stripped: exactly the aligned title.  The as-found
`rstrip_end` (before fix f5f2be9) needs the text to have no more characters than cells available; the repaired one never
strips a text that fits. -/
theorem textConsoleSimple_of_fits (cw : Char → Nat) (v : Variant) (plain : List Char) (w : Int) (ts : List (Segment σ))
    (h : textConsoleSimple cw v plain [] w = some ts) (hlen : v.rstripCountsChars = true → (plain.length : Int) ≤ w) :
    lineLength cw ts = cellLen cw plain := by
  unfold textConsoleSimple at h
  split at h
  · rename_i hc
    simp only [Bool.and_eq_true, decide_eq_true_eq] at hc
    have hr : rstripEnd cw v plain w = plain := by
      unfold rstripEnd
      simp only
      rw [if_neg]
      cases hv : v.rstripCountsChars
      · simp only [Bool.false_eq_true, if_false]; omega
      · have := hlen hv
        simp only [if_true]; omega
    simp only [hr, List.isEmpty_nil, if_true, List.append_nil, Option.some.injEq] at h
    subst h
    split
    · rename_i he
      rw [List.isEmpty_iff.mp he]; rfl
    · exact lineLength_seg cw plain
  · simp at h

/-! ## Align -/

theorem setShape_len (cw : Char → Nat) (lines : List (List (Segment σ))) (n : Nat) :
    setShape cw lines n (some lines.length) none = lines.map (fun l => adjustLineLength cw l n none) := by
  simp [setShape]

theorem shape_le_foldl_max (l : List Nat) (a x : Nat) (h : x ≤ a ∨ x ∈ l) : x ≤ l.foldl max a := by
  induction l generalizing a with
  | nil => rcases h with h | h; exact h; simp at h
  | cons y l ih =>
    simp only [List.foldl_cons]
    apply ih
    rcases h with h | h
    · left; omega
    · rcases List.mem_cons.mp h with h | h
      · left; omega
      · right; exact h

theorem le_shapeWidth (cw : Char → Nat) (lines : List (List (Segment σ))) (l : List (Segment σ)) (h : l ∈ lines) :
    lineLength cw l ≤ shapeWidth cw lines :=
  shape_le_foldl_max _ 0 _ (Or.inr (List.mem_map_of_mem h))

theorem shape_foldl_max_le (l : List Nat) (a b : Nat) (ha : a ≤ b) (h : ∀ x ∈ l, x ≤ b) : l.foldl max a ≤ b := by
  induction l generalizing a with
  | nil => exact ha
  | cons y l ih =>
    simp only [List.foldl_cons]
    apply ih
    · have := h y (by simp); omega
    · intro x hx; exact h x (by simp [hx])

theorem shapeWidth_le (cw : Char → Nat) (lines : List (List (Segment σ))) (b : Nat)
    (h : ∀ l ∈ lines, lineLength cw l ≤ b) : shapeWidth cw lines ≤ b := by
  apply shape_foldl_max_le _ 0 b (Nat.zero_le _)
  intro x hx
  simp only [List.mem_map] at hx
  obtain ⟨l, hl, rfl⟩ := hx
  exact h l hl

/-- the width `Align` renders its child at: `min(measured, self.width)` clipped to `options.max_width` -/
def alignInnerWidth (env : Env) (v : Variant) (o : AlignOpts) (c : Child σ) (w : Int) : Int :=
  let measured : Int := fitWidth v (c.measureAt env.consoleWidth).maximum
  min (match o.width with | none => measured | some aw => min measured aw) w

/-- the child's own lines at that width (`split_lines` of its rendering, nothing cropped or padded) -/
def alignChildLines (env : Env) (v : Variant) (o : AlignOpts) (c : Child σ) (w : Int) : List (List (Segment σ)) :=
  splitLines (c.renderAt (alignInnerWidth env v o c w))

/-- the padding segments put left and right of every line -/
def alignPads (o : AlignOpts) (excess : Int) : List (Segment σ) × List (Segment σ) :=
  if excess ≤ 0 then ([], [])
  else match o.align with
    | .left => ([], if o.pad then [seg (rep excess ' ')] else [])
    | .center => (if excess / 2 != 0 then [seg (rep (excess / 2) ' ')] else [],
                  if o.pad then [seg (rep (excess - excess / 2) ' ')] else [])
    | .right => ([seg (rep excess ' ')], [])

/-- the lines `Align` draws: the child's own lines, each brought to the common width, between the pads -/
def alignLines (cw : Char → Nat) (env : Env) (v : Variant) (o : AlignOpts) (c : Child σ) (w : Int) :
    List (List (Segment σ)) :=
  let L := alignChildLines env v o c w
  let sw := shapeWidth cw L
  let pads : List (Segment σ) × List (Segment σ) := alignPads o (w - sw)
  (L.map (fun l => adjustLineLength cw l sw none)).map (fun l => pads.1 ++ l ++ pads.2)

theorem splitLines_flatMap_nl (f : List (Segment σ) → List (Segment σ)) (L : List (List (Segment σ)))
    (h : ∀ l ∈ L, NlFree (f l)) : splitLines (L.flatMap (fun l => f l ++ [nl])) = L.map f := by
  have := splitLines_lines (L.map f) (by
    intro l hl
    simp only [List.mem_map] at hl
    obtain ⟨l0, hl0, rfl⟩ := hl
    exact h l0 hl0)
  simpa [List.flatMap_map, Function.comp_def] using this

theorem alignConsole_unfold (cw : Char → Nat) (env : Env) (v : Variant) (o : AlignOpts) (c : Child σ) (w : Int) :
    alignConsole cw env v o c w =
      (let L := alignChildLines env v o c w
       let sw := shapeWidth cw L
       let lines := setShape cw L sw (some L.length) none
       let excess : Int := w - sw
       if excess ≤ 0 then lines.flatMap (fun l => l ++ [nl])
       else match o.align with
         | .left =>
           let pad : List (Segment σ) := if o.pad then [seg (rep excess ' ')] else []
           lines.flatMap (fun l => l ++ pad ++ [nl])
         | .center =>
           let left := excess / 2
           let padL : List (Segment σ) := if left != 0 then [seg (rep left ' ')] else []
           let padR : List (Segment σ) := if o.pad then [seg (rep (excess - left) ' ')] else []
           lines.flatMap (fun l => padL ++ l ++ padR ++ [nl])
         | .right =>
           lines.flatMap (fun l => [seg (rep excess ' ')] ++ l ++ [nl])) := rfl

theorem alignConsole_lines (cw : Char → Nat) (hsp : cw ' ' = 1) (h2 : ∀ c, cw c ≤ 2) (env : Env) (v : Variant)
    (o : AlignOpts) (c : Child σ) (w : Int) :
    splitLines (alignConsole cw env v o c w) = alignLines cw env v o c w := by
  rw [alignConsole_unfold]
  unfold alignLines
  simp only [setShape_len]
  have hL' : ∀ l ∈ (alignChildLines env v o c w).map
      (fun l => adjustLineLength cw l (shapeWidth cw (alignChildLines env v o c w)) none), NlFree l := by
    intro l hl
    simp only [List.mem_map] at hl
    obtain ⟨l0, hl0, rfl⟩ := hl
    exact adjust_nlFree cw hsp h2 _ _ _ _ (splitLines_nlFree _ l0 hl0)
  generalize (alignChildLines env v o c w).map
      (fun l => adjustLineLength cw l (shapeWidth cw (alignChildLines env v o c w)) none) = L' at hL' ⊢
  generalize (w - (shapeWidth cw (alignChildLines env v o c w) : Int)) = e
  have hsegs : ∀ n : Int, NlFree ([seg (rep n ' ')] : List (Segment σ)) := fun n => nlFree_seg _ (rep_no_nl _)
  unfold alignPads
  by_cases he : e ≤ 0
  · simp only [he, if_true, List.nil_append, List.append_nil]
    exact splitLines_flatMap_nl (fun l => l) L' hL'
  · simp only [he, if_false]
    cases o.align <;> simp only
    · cases o.pad <;> simp only [Bool.false_eq_true, if_false, if_true, List.nil_append, List.append_nil]
      · exact splitLines_flatMap_nl (fun l => l) L' hL'
      · exact splitLines_flatMap_nl _ L' (fun l hl => (hL' l hl).append (hsegs _))
    · apply splitLines_flatMap_nl
      intro l hl
      refine (NlFree.append ?_ (hL' l hl)).append ?_
      · split
        · exact hsegs _
        · exact NlFree.nil
      · split
        · exact hsegs _
        · exact NlFree.nil
    · simp only [List.append_nil]
      exact splitLines_flatMap_nl _ L' (fun l hl => (hsegs _).append (hL' l hl))

/-- cells added by the pads: the whole excess when padding (or right-aligning), the left half when
centring without padding, nothing when left-aligning without padding -/
def alignPadCells (o : AlignOpts) (e : Int) : Int :=
  if e ≤ 0 then 0
  else match o.align with
    | .left => if o.pad then e else 0
    | .center => if o.pad then e else e / 2
    | .right => e

theorem lineLength_alignPads (cw : Char → Nat) (hsp : cw ' ' = 1) (o : AlignOpts) (e : Int) :
    (lineLength cw (alignPads o e : List (Segment σ) × List (Segment σ)).1 : Int) +
      lineLength cw (alignPads o e : List (Segment σ) × List (Segment σ)).2 = alignPadCells o e := by
  unfold alignPads alignPadCells
  by_cases he : e ≤ 0
  · simp [he]
  · simp only [he, if_false]
    cases o.align <;> cases o.pad <;> simp only [Bool.false_eq_true, if_false, if_true]
    all_goals (try split)
    all_goals (simp only [lineLength_seg, cellLen_rep cw _ ' ' hsp, lineLength_nil])
    all_goals (first | omega | (rename_i h; simp at h; omega))

end RichModel.Frames
