import RichModel.Model.SyntaxTrace
/-
Helper lemmas for property C17, part 10: `Traceback.extract` / `__rich_console__` show the exception chain oldest first
with the sentence that matches each link; `_render_stack` shows every frame in call order, its per-call cache is transparent.
-/
namespace RichModel.Syntax

/-! ### the reader's view of an exception chain (Python's own rule, `traceback.TracebackException`) -/

/-- what is shown for ONE exception: its panel (when it has frames), the SyntaxError panel, `Type: message` -/
def excBlock (frames : List Frame) (name : Nat) (isSyn : Bool) : List Item :=
  (if frames.isEmpty then [] else [Item.panel frames]) ++ (if isSyn then [Item.synPanel] else []) ++ [Item.excLine name isSyn]

/-- The expected rendering, by Python's chaining rule: `__cause__` when it is set ("direct cause"), else `__context__`
unless `__suppress_context__` ("during handling"); the OLDER exception's rendering comes first, then the sentence, then
this exception's own block. -/
def expectedChain : Exc → List Item
  | .mk name frames _ _ suppress isSyn cause context =>
    match cause, context with
    | some c, _ => expectedChain c ++ Item.link true :: excBlock frames name isSyn
    | none, some x => if suppress then excBlock frames name isSyn else expectedChain x ++ Item.link false :: excBlock frames name isSyn
    | none, none => excBlock frames name isSyn

/-- every exception Python's rule designates below `e` is truthy and carries a traceback (it was raised) -/
def AllUsable : Exc → Prop
  | .mk _ _ _ _ suppress _ cause context =>
    match cause, context with
    | some c, _ => c.usable = true ∧ AllUsable c
    | none, some x => suppress = true ∨ (x.usable = true ∧ AllUsable x)
    | none, none => True

/-! ### `renderStacks` -/

theorem renderStacks_single (s : Stack) : renderStacks [s] = excBlock s.frames s.name s.isSyn := by
  simp [renderStacks, excBlock]

theorem renderStacks_snoc (s t : Stack) : ∀ (L : List Stack),
    renderStacks (L ++ [t] ++ [s]) = renderStacks (L ++ [t]) ++ Item.link t.isCause :: renderStacks [s]
  | [] => by simp [renderStacks]
  | a :: L => by
    have ih := renderStacks_snoc s t L
    have h1 : (a :: L ++ [t] ++ [s]) = a :: (L ++ [t] ++ [s]) := by simp
    have h2 : (a :: L ++ [t]) = a :: (L ++ [t]) := by simp
    rw [h1, h2]
    have hne1 : (L ++ [t] ++ [s]).isEmpty = false := by simp
    have hne2 : (L ++ [t]).isEmpty = false := by simp
    rw [renderStacks, renderStacks, ih, hne1, hne2]
    simp

theorem extract_cons (f : Bool) (e : Exc) :
    ∃ tl, extract f e = { name := e.name, isCause := f, isSyn := e.isSyn, frames := e.frames } :: tl := by
  cases e with
  | mk name frames t h suppress isSyn cause context =>
    cases cause <;> cases context <;> simp only [extract, Exc.name, Exc.isSyn, Exc.frames] <;> (repeat' split) <;> exact ⟨_, rfl⟩

/-- rendering the stacks of `older` (created with flag `k`) followed by one more stack `s` -/
theorem renderTrace_step (k : Bool) (older : Exc) (s : Stack) :
    renderStacks ((s :: extract k older).reverse) =
      renderStacks ((extract k older).reverse) ++ Item.link k :: excBlock s.frames s.name s.isSyn := by
  obtain ⟨tl, htl⟩ := extract_cons k older
  rw [htl, List.reverse_cons, List.reverse_cons, renderStacks_snoc, renderStacks_single]

theorem renderTrace_extract (f : Bool) (e : Exc) (h : AllUsable e) :
    renderStacks ((extract f e).reverse) = expectedChain e := by
  fun_induction extract f e with
  | case1 f name frames t hb suppress isSyn st c ctx hu ih =>
    simp only [AllUsable] at h
    rw [renderTrace_step, ih h.2]; simp [expectedChain, st]
  | case2 f name frames t hb suppress isSyn st c hu x hx ih =>
    simp only [AllUsable] at h
    exact absurd h.1 hu
  | case3 f name frames t hb suppress isSyn st c hu x hx =>
    simp only [AllUsable] at h
    exact absurd h.1 hu
  | case4 f name frames t hb suppress isSyn st c hu =>
    simp only [AllUsable] at h
    exact absurd h.1 hu
  | case5 f name frames t hb suppress isSyn st x hx ih =>
    simp only [AllUsable] at h
    simp only [Bool.and_eq_true, Bool.not_eq_true'] at hx
    rcases h with h | h
    · rw [h] at hx; exact absurd hx.2 (by simp)
    · rw [renderTrace_step, ih h.2]; simp [expectedChain, hx.2, st]
  | case6 f name frames t hb suppress isSyn st x hx =>
    simp only [AllUsable] at h
    rcases h with h | h
    · subst h; simp [expectedChain, renderStacks, excBlock, st]
    · rw [h.1] at hx
      have hs : suppress = true := by cases suppress <;> simp_all
      subst hs; simp [expectedChain, renderStacks, excBlock, st]
  | case7 f name frames t hb suppress isSyn st =>
    simp [expectedChain, renderStacks, excBlock, st]

/-! ### `_render_stack`: the per-call cache is transparent, frames come in call order -/

/-- what one frame contributes, read off the file system as it is (no cache) -/
def frameSpec (g : Bool) (special known : FileId → Bool) (fs : FileId → Option (List Char)) (first : Bool) (fr : Frame) :
    List FrameItem :=
  (if !special fr.file && !first then [FrameItem.blank] else []) ++ FrameItem.header fr.file fr.lineno ::
  (if special fr.file then []
   else match fs fr.file with
     | none => [FrameItem.error]
     | some code =>
       if !known fr.file && g then [FrameItem.error]
       else [FrameItem.blank, FrameItem.syntax code fr.lineno (known fr.file)])

def stackSpec (g : Bool) (special known : FileId → Bool) (fs : FileId → Option (List Char)) : Bool → List Frame → List FrameItem
  | _, [] => []
  | first, fr :: rest => frameSpec g special known fs first fr ++ stackSpec g special known fs false rest

def CacheInvOpt (fs : FileId → Option (List Char)) (cache : List (FileId × List Char)) : Prop :=
  ∀ p ∈ cache, fs p.1 = some p.2

theorem readCodeOpt_spec (fs : FileId → Option (List Char)) (cache : List (FileId × List Char)) (h : CacheInvOpt fs cache)
    (f : FileId) :
    (fs f = none → readCodeOpt fs cache f = none) ∧
    (∀ code, fs f = some code → ∃ c', readCodeOpt fs cache f = some (code, c') ∧ CacheInvOpt fs c') := by
  unfold readCodeOpt
  cases hf : cache.find? (fun p => p.1 == f) with
  | some p =>
    have hm := List.mem_of_find?_eq_some hf
    have hk : (p.1 == f) = true := by have := List.find?_some hf; simpa using this
    have hpf : p.1 = f := by simpa using hk
    have hp := h p hm
    rw [hpf] at hp
    refine ⟨fun hn => (by rw [hn] at hp; cases hp), fun code hc => ?_⟩
    rw [hc] at hp; cases hp
    exact ⟨cache, rfl, h⟩
  | none =>
    refine ⟨fun hn => (by simp [hn]), fun code hc => ?_⟩
    refine ⟨(f, code) :: cache, by simp [hc], ?_⟩
    intro p hp
    rcases List.mem_cons.mp hp with rfl | hp
    · exact hc
    · exact h p hp

theorem renderStackFrom_spec (g : Bool) (special known : FileId → Bool) (fs : FileId → Option (List Char)) :
    ∀ (frames : List Frame) (cache : List (FileId × List Char)) (first : Bool), CacheInvOpt fs cache →
      renderStackFrom g special known fs cache first frames = stackSpec g special known fs first frames
  | [], _, _, _ => rfl
  | fr :: rest, cache, first, h => by
    obtain ⟨hnone, hsome⟩ := readCodeOpt_spec fs cache h fr.file
    unfold renderStackFrom stackSpec frameSpec
    by_cases hs : special fr.file = true
    · simp only [hs, if_true]
      rw [renderStackFrom_spec g special known fs rest cache false h]
    · simp only [hs, Bool.false_eq_true, if_false]
      cases hf : fs fr.file with
      | none =>
        rw [hnone hf, renderStackFrom_spec g special known fs rest cache false h]
        simp
      | some code =>
        obtain ⟨c', hr, hc'⟩ := hsome code hf
        rw [hr]
        simp only
        rw [renderStackFrom_spec g special known fs rest c' false hc']
        by_cases hk : (!known fr.file && g) = true
        · simp [hk]
        · simp [hk]

theorem stackSpec_infix (g : Bool) (special known : FileId → Bool) (fs : FileId → Option (List Char)) (fr : Frame) :
    ∀ (frames : List Frame) (first : Bool), fr ∈ frames →
      ∃ fst, frameSpec g special known fs fst fr <:+: stackSpec g special known fs first frames
  | [], _, h => by cases h
  | a :: rest, first, h => by
    rcases List.mem_cons.mp h with rfl | h
    · exact ⟨first, by unfold stackSpec; exact (List.prefix_append _ _).isInfix⟩
    · obtain ⟨fst, hin⟩ := stackSpec_infix g special known fs fr rest false h
      refine ⟨fst, ?_⟩
      unfold stackSpec
      exact hin.trans (List.suffix_append _ _).isInfix

end RichModel.Syntax
