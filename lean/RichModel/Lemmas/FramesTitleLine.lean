import RichModel.Model.FramesTitle
import RichModel.Lemmas.LayoutTextNoWrap
import RichModel.Lemmas.WrapStages
import RichModel.Lemmas.WrapTabs
import RichModel.Lemmas.TextMore
import RichModel.Lemmas.TextOps2
/-!
`Text.__rich_console__` (`textConsoleG`, Model/FramesTitle.lean) on a consistent ONE-LINE text that is exactly `w` cells
wide, rendered at width `w`: whatever the justify / overflow / no_wrap options in force, nothing raises and the output
is one line of exactly `w` cells followed by the text's `end` (C08, deepening round 4: the step shared by the
`Text`-title theorems for `Rule` and `Panel`).  The pipeline is followed stage by stage: `split("\n")` (no line feed:
the text itself), no tab to expand, `divide_line` (nothing to cut: the text fits), `rstrip_end` (nothing: it fits),
`Lines.justify` (default / left / full: the line; center / right: trailing whitespace stripped and as many blanks put
back in front / around), the final `truncate` (nothing), `Text("\n").join` of one line, `render(end)`.
Repaired code (`WVariant.repaired`, what /repo contains now).  Auxiliary facts are prefixed `ft_`.
-/
namespace RichModel.Frames
open RichModel RichModel.Text RichModel.Wrap

variable {σ : Type}

/-- the characters a list of segments shows, in order -/
def segChars (l : List (Segment σ)) : List Char := l.flatMap (·.text)

/-! ### stages -/

theorem ft_truncate_exact (cw : Char → Nat) (t : Text σ) (w : Nat) (ov : Option RichModel.Overflow) (pad : Bool)
    (h : cellLen cw t.plain = w) : t.truncate cw (w : Int) ov pad = t := by
  unfold truncate
  simp only []
  have h1 : ¬ ((cellLen cw t.plain : Int) > (w : Int)) := by omega
  have h2 : ¬ ((cellLen cw t.plain : Int) < (w : Int)) := by omega
  simp only [h1, h2, if_false, decide_false, Bool.and_false, Bool.false_eq_true]
  split <;> rfl

theorem ft_split_none [BEq σ] (t : Text σ) (h : Inv t) (hnl : '\n' ∉ t.plain) :
    t.split Variant.repaired ['\n'] false true = .ok [t] := by
  unfold Text.split
  have hf : findAll ['\n'] t.plain = [] := findAllAux_char_none '\n' t.plain 0 hnl
  simp [hf, copy_eq_self t h]

theorem ft_divide_nil [BEq σ] (t : Text σ) (h : Inv t) : t.divide Variant.repaired [] = .ok [t] := by
  unfold Text.divide
  simp [copy_eq_self t h]

theorem ft_rstripEnd_fit (cw : Char → Nat) (t : Text σ) (w : Nat) (h : cellLen cw t.plain ≤ w) :
    rstripEndW false cw Variant.repaired t (w : Int) = t := by
  unfold rstripEndW
  have h1 : ¬ ((cellLen cw t.plain : Int) > (w : Int)) := by omega
  simp [h1]

theorem ft_mem_rstrip (t : Text σ) : ∀ c ∈ t.rstrip.plain, c ∈ t.plain := by
  intro c hc
  unfold rstrip at hc
  rw [setPlain_plain] at hc
  obtain ⟨tl, htl⟩ := pyRstrip_prefix t.plain
  rw [htl]
  exact List.mem_append_left _ hc

/-- `Lines.justify` on one line that is exactly `w` cells wide: one line of exactly `w` cells, made of characters of
the line and blanks -/
theorem ft_justify_one [BEq σ] (cw : Char → Nat) (hsp : cw ' ' = 1) (A : StyleAlg σ) (l : Text σ) (hl : Inv l) (w : Nat)
    (j : Justify) (ov : RichModel.Overflow) (hw : cellLen cw l.plain = w) :
    ∃ x, justifyLines WVariant.repaired cw A [l] w j ov = .ok [x] ∧ Inv x ∧ cellLen cw x.plain = w ∧
      ∀ c ∈ x.plain, c ∈ l.plain ∨ c = ' ' := by
  have hc := Layout.nw_rstrip_le cw l
  rw [hw] at hc
  have hr : Inv l.rstrip := inv_rstrip l hl
  cases j with
  | default => exact ⟨l, rfl, hl, hw, fun c hc => Or.inl hc⟩
  | left =>
    refine ⟨l, ?_, hl, hw, fun c hc => Or.inl hc⟩
    simp only [justifyLines, List.map_cons, List.map_nil, ft_truncate_exact cw l w _ _ hw]
  | full =>
    refine ⟨l, ?_, hl, hw, fun c hc => Or.inl hc⟩
    simp only [justifyLines, justifyFull]
  | center =>
    generalize hcdef : cellLen cw l.rstrip.plain = c at hc
    have h1 : ((w : Int) - (c : Int)) / 2 = (((w - c) / 2 : Nat) : Int) := by omega
    have h2 : (w : Int) - (((w - c) / 2 + c : Nat) : Int) = ((w - ((w - c) / 2 + c) : Nat) : Int) := by omega
    have hpl : cellLen cw (l.rstrip.padLeft (((w - c) / 2 : Nat) : Int)).plain = (w - c) / 2 + c := by
      rw [padLeft_plain, cellLen_append, cellLen_replicate_space cw hsp, hcdef]
    refine ⟨(l.rstrip.padLeft (((w - c) / 2 : Nat) : Int)).padRight ((w - ((w - c) / 2 + c) : Nat) : Int), ?_, ?_, ?_, ?_⟩
    · simp only [justifyLines, List.map_cons, List.map_nil]
      rw [truncate_noop cw l.rstrip w ov (by omega), hcdef, h1, Layout.nw_padCount, hpl, h2]
    · exact inv_padRight _ _ _ (inv_padLeft _ _ _ hr noCtl_space) noCtl_space
    · rw [padRight_plain, cellLen_append, hpl, cellLen_replicate_space cw hsp]
      omega
    · intro x hx
      rw [padRight_plain, padLeft_plain] at hx
      simp only [List.mem_append, List.mem_replicate] at hx
      rcases hx with (hx | hx) | hx
      · exact Or.inr hx.2
      · exact Or.inl (ft_mem_rstrip l x hx)
      · exact Or.inr hx.2
  | right =>
    generalize hcdef : cellLen cw l.rstrip.plain = c at hc
    have h1 : (w : Int) - (c : Int) = ((w - c : Nat) : Int) := by omega
    refine ⟨l.rstrip.padLeft ((w - c : Nat) : Int), ?_, ?_, ?_, ?_⟩
    · simp only [justifyLines, List.map_cons, List.map_nil]
      rw [truncate_noop cw l.rstrip w ov (by omega), hcdef, h1, Layout.nw_padCount]
    · exact inv_padLeft _ _ _ hr noCtl_space
    · rw [padLeft_plain, cellLen_append, cellLen_replicate_space cw hsp, hcdef]
      omega
    · intro x hx
      rw [padLeft_plain] at hx
      simp only [List.mem_append, List.mem_replicate] at hx
      rcases hx with hx | hx
      · exact Or.inr hx.2
      · exact Or.inl (ft_mem_rstrip l x hx)

/-- the paragraph loop body of `Text.wrap` on a line that is exactly `w` cells wide -/
theorem ft_wrapLine_one [BEq σ] (cw : Char → Nat) (hsp : cw ' ' = 1) (A : StyleAlg σ) (l : Text σ) (hl : Inv l) (w : Nat)
    (j : Justify) (ov : RichModel.Overflow) (nw : Bool) (hw : cellLen cw l.plain = w) :
    ∃ x, wrapLine WVariant.repaired cw A l w j ov nw = .ok [x] ∧ Inv x ∧ cellLen cw x.plain = w ∧
      ∀ c ∈ x.plain, c ∈ l.plain ∨ c = ' ' := by
  obtain ⟨x, hx, hxi, hxw, hxm⟩ := ft_justify_one cw hsp A l hl w j ov hw
  refine ⟨x, ?_, hxi, hxw, hxm⟩
  have hnl : (if nw = true then (Except.ok [l] : Except RichModel.PyErr (List (Text σ)))
      else l.divide WVariant.repaired.text (divideLine cw l.plain w (ov == RichModel.Overflow.fold))) = .ok [l] := by
    split
    · rfl
    · rw [Layout.divideLine_nil_of_fits cw l.plain w _ (by omega)]
      exact ft_divide_nil l hl
  unfold wrapLine
  rw [hnl]
  simp only [bind, Except.bind, List.map_cons, List.map_nil]
  rw [show WVariant.repaired.rstripChars = false from rfl, show WVariant.repaired.text = Variant.repaired from rfl,
    ft_rstripEnd_fit cw l w (by omega), hx]
  simp only [List.map_cons, List.map_nil]
  rw [truncate_noop cw x w ov (by omega)]

/-- `Text.wrap` on a consistent text without line feed or tab that is exactly `w` cells wide -/
theorem ft_wrap_one [BEq σ] (cw : Char → Nat) (hsp : cw ' ' = 1) (A : StyleAlg σ) (t : Text σ) (ht : Inv t)
    (hnl : '\n' ∉ t.plain) (htab : '\t' ∉ t.plain) (w : Nat) (hw : cellLen cw t.plain = w)
    (j : Option Justify) (ov : Option RichModel.Overflow) (ts : Option Nat) (nw : Option Bool) :
    ∃ x, wrap WVariant.repaired cw A t w j ov ts nw = .ok [x] ∧ Inv x ∧ cellLen cw x.plain = w ∧
      ∀ c ∈ x.plain, c ∈ t.plain ∨ c = ' ' := by
  obtain ⟨x, hx, hxi, hxw, hxm⟩ :=
    ft_wrapLine_one cw hsp A t ht w (wrapJustifyOf t j) (wrapOverflowOf t ov) (noWrapOf t ov nw) hw
  refine ⟨x, ?_, hxi, hxw, hxm⟩
  have hc : t.plain.contains '\t' = false := by
    simpa using htab
  unfold wrap
  rw [show WVariant.repaired.text = Variant.repaired from rfl, ft_split_none t ht hnl]
  simp only [bind, Except.bind, wrapParagraphs, hc, Bool.false_eq_true, if_false]
  rw [hx]
  simp

/-! ### `render` -/

theorem ft_segStream_fst (segs : List (RSeg σ)) : (segStream segs).map (·.1) = segs.flatMap (·.text) := by
  induction segs with
  | nil => rfl
  | cons a l ih =>
    simp only [segStream, List.flatMap_cons, List.map_append] at ih ⊢
    rw [ih]
    simp [Function.comp_def]

/-- a consistent text renders, and shows its characters and then `end` -/
theorem ft_render_flat (t : Text σ) (h : Inv t) (e : List Char) :
    ∃ segs, t.render e = .ok segs ∧ segs.flatMap (·.text) = t.plain ++ e := by
  obtain ⟨s1, h1, h2⟩ := render_view_aux t h
  unfold Text.render at h1 ⊢
  obtain ⟨b, hb, h1⟩ := bind_ok.mp h1
  cases h1
  have hpl : b.flatMap (·.text) = t.plain := by
    have := congrArg (List.map (·.1)) h2
    rw [view_eq_annot, annot_map_fst, ft_segStream_fst] at this
    simpa using this
  rw [hb]
  refine ⟨_, rfl, ?_⟩
  rw [List.flatMap_append, hpl]
  cases e with
  | nil => simp
  | cons c e => simp

/-! ### `Text.__rich_console__` -/

/-- **A consistent one-line text of exactly `w` cells, rendered at width `w`, is one line of exactly `w` cells followed
by its `end`** — for every justify / overflow / no_wrap in force (the text's own or the options'), every span set and
style algebra. -/
theorem textConsoleG_one_line [BEq σ] (cfg : TCfg σ) (hwv : cfg.wv = WVariant.repaired) (hsp : cfg.cw ' ' = 1)
    (t : Text σ) (ht : Inv t) (hnl : '\n' ∉ t.plain) (htab : '\t' ∉ t.plain) (w : Nat) (hw : cellLen cfg.cw t.plain = w)
    (o : TOpts) :
    ∃ segs x, textConsoleG cfg t o w = .ok segs ∧ segChars segs = x ++ t.endStr ∧ cellLen cfg.cw x = w ∧
      (∀ c ∈ x, c ∈ t.plain ∨ c = ' ') ∧ ∀ s ∈ segs, s.control = false := by
  unfold textConsoleG
  simp only [hwv]
  obtain ⟨x, hx, hxi, hxw, hxm⟩ := ft_wrap_one cfg.cw hsp cfg.alg t ht hnl htab w hw
    (some ((t.justify.orElse (fun _ => o.justify)).getD Justify.default))
    (some ((t.overflow.orElse (fun _ => o.overflow)).getD RichModel.Overflow.fold))
    (some (effTabSizeG cfg t)) (some ((t.noWrap.orElse (fun _ => o.noWrap)).getD false))
  rw [hx]
  simp only [bind, Except.bind]
  have hsepI : Inv (Text.new Variant.repaired ['\n'] cfg.A.null) :=
    inv_new _ _ _ _ _ _ _ _ (by intro sp h; simp at h)
  have hji : Inv (Text.join Variant.repaired (Text.new Variant.repaired ['\n'] cfg.A.null) [x]) :=
    inv_join _ _ hsepI (fun y hy => by simp only [List.mem_singleton] at hy; subst hy; exact hxi)
  have hjp : (Text.join Variant.repaired (Text.new Variant.repaired ['\n'] cfg.A.null) [x]).plain = x.plain := by
    rw [join_plain]; simp [joinSeq]
  obtain ⟨segs, hr, hf⟩ := ft_render_flat _ hji t.endStr
  rw [show WVariant.repaired.text = Variant.repaired from rfl, hr]
  refine ⟨_, x.plain, rfl, ?_, hxw, hxm, ?_⟩
  · rw [← hjp, ← hf]
    simp [segChars, List.flatMap_map]
  · intro s hs
    obtain ⟨r, _, rfl⟩ := List.mem_map.mp hs
    rfl

end RichModel.Frames
