import RichModel.Lemmas.MarkupRun
namespace RichModel.Markup

theorem evs_bump (l : List Lx) : (l.map Lx.bump).flatMap Lx.evs = (flatten l).map Ev.chr := by
  induction l with
  | nil => rfl
  | cons x xs ih =>
    rw [List.map_cons, List.flatMap_cons, ih, flatten_cons, List.map_append]
    congr 1
    cases x with
    | ch c => rfl
    | tag k b =>
      have h1 : (2 * k + 1) / 2 = k := by omega
      have h2 : (2 * k + 1) % 2 = 1 := by omega
      simp [Lx.bump, Lx.evs, Lx.flat, h1, h2]

theorem lex_escape (s : List Char) : lex (escape s) = (lex s).map Lx.bump :=
  lexK_escK s.length s 0 (Nat.le_refl _)

theorem flatten_lex (s : List Char) : flatten (lex s) = s := by
  have := flatten_lexK s.length s 0 (Nat.le_refl _)
  simp only [bsl, List.replicate_zero, List.nil_append] at this
  exact this

theorem events_escape (s : List Char) : events (escape s) = s.map Ev.chr := by
  rw [events, lex_escape, evs_bump, flatten_lex]

theorem events_append {a : List Char} (x : List Char) (ha : SelfContained a) :
    events (a ++ x) = events a ++ events x := by
  simp [events, lex_append x ha]

theorem lexK_no_bracket (s : List Char) (k : Nat) (h : '[' ∉ s) :
    lexK k s = List.replicate k (Lx.ch '\\') ++ s.map Lx.ch := by
  induction s generalizing k with
  | nil => simp [lexK_nil]
  | cons c cs ih =>
    simp at h
    by_cases h1 : c = '\\'
    · subst h1
      rw [lexK_bs, ih (k + 1) h.2]
      simp [List.replicate_succ']
    · rw [lexK_plain k c cs h1 (fun e => h.1 e.symm), ih 0 h.2]; simp

theorem events_no_bracket (s : List Char) (h : '[' ∉ s) : events s = s.map Ev.chr := by
  have := lexK_no_bracket s 0 h
  simp only [List.replicate_zero, List.nil_append] at this
  have e : lex s = s.map Lx.ch := this
  rw [events, e]
  clear e this h
  induction s with
  | nil => rfl
  | cons c cs ih => simp [Lx.evs] at ih ⊢; exact ih

theorem toOption_eq_some {ε α : Type} {r : Except ε α} {x : α} (h : r.toOption = some x) : r = .ok x := by
  cases r with
  | ok a => simp [Except.toOption] at h; rw [h]
  | error e => simp [Except.toOption] at h

theorem toOption_eq_none {ε α : Type} {r : Except ε α} (h : r.toOption = none) : ∃ e, r = .error e := by
  cases r with
  | ok a => simp [Except.toOption] at h
  | error e => exact ⟨e, rfl⟩

theorem finish_plain (cfg : Cfg) (t : List Char) :
    finish cfg { text := t, stack := [], closed := [], slots := [] } = (t, []) := by
  simp [finish, drain, sortedSpans]

/-- with emoji off, `render` is the event loop followed by `finish` (the early exit included) -/
theorem render_eq_runEv (cfg : Cfg) (h : cfg.emoji = none) (m : List Char) :
    (render cfg m).toOption = (runEv cfg St.init (events m)).map (finish cfg) := by
  unfold render
  by_cases hb : '[' ∈ m
  · have : (!m.contains '[') = false := by simp [hb]
    simp only [this, Bool.false_eq_true, if_false]
    have key := run_parse cfg h m St.init
    cases hr : run cfg St.init (parse m) with
    | ok st => rw [hr] at key; simp [Except.toOption] at key ⊢; rw [← key]; rfl
    | error e => rw [hr] at key; simp [Except.toOption] at key ⊢; rw [← key]; rfl
  · have : (!m.contains '[') = true := by simp [hb]
    simp only [this, if_true]
    rw [events_no_bracket m hb]
    have := runEv_chars cfg St.init m []
    simp only [List.append_nil] at this
    rw [this]
    simp [runEv, Except.toOption, chunkText, h, St.init, finish_plain]

end RichModel.Markup
