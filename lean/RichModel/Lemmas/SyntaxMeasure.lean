import RichModel.Lemmas.SyntaxRows
/-
Helper lemmas for property C17 / C09, part 9: how many CELLS a numbered row takes.
-/
namespace RichModel.Syntax

/-- the characters a gutter is made of: blank, the two pointers, decimal digits -/
def GutterChar (c : Char) : Prop := c = ' ' ∨ c = '>' ∨ c = '❱' ∨ (48 ≤ c.toNat ∧ c.toNat ≤ 57)

theorem digit_char (d : Nat) (h : d < 10) : 48 ≤ (Char.ofNat (48 + d)).toNat ∧ (Char.ofNat (48 + d)).toNat ≤ 57 := by
  have : ∀ d, d < 10 → 48 ≤ (Char.ofNat (48 + d)).toNat ∧ (Char.ofNat (48 + d)).toNat ≤ 57 := by decide
  exact this d h

theorem natStr_digits : ∀ (n : Nat), ∀ c ∈ natStr n, 48 ≤ c.toNat ∧ c.toNat ≤ 57 := by
  intro n
  induction n using Nat.strongRecOn with
  | _ n ih =>
    intro c hc
    rw [natStr.eq_1 n] at hc
    by_cases h : n < 10
    · simp only [h, if_true, List.mem_singleton] at hc
      subst hc; exact digit_char n h
    · simp only [h, if_false, List.mem_append, List.mem_singleton] at hc
      rcases hc with hc | hc
      · exact ih (n / 10) (by omega) c hc
      · subst hc; exact digit_char (n % 10) (by omega)

theorem cellLen_of_ones (cw : Char → Nat) : ∀ (s : List Char), (∀ c ∈ s, cw c = 1) → cellLen cw s = s.length
  | [], _ => rfl
  | c :: rest, h => by
    have ih := cellLen_of_ones cw rest (fun d hd => h d (by simp [hd]))
    simp only [cellLen, List.map_cons, List.sum_cons, List.length_cons] at ih ⊢
    rw [h c (by simp), ih]; omega

/-- A numbered row whose number fits the column takes `numbers_column_width + 1` cells for the gutter, then the code cell. -/
theorem Row.render_cells (cw : Char → Nat) (h1 : ∀ c, GutterChar c → cw c = 1) (ncw : Nat) (legacy : Bool) (r : Row)
    (h : (natStr r.num).length + 2 ≤ ncw) :
    cellLen cw (r.render ncw legacy) = ncw + 1 + cellLen cw r.body := by
  unfold Row.render
  have hm : ∀ c ∈ (if r.marked then pointer legacy else [' ', ' ']), cw c = 1 := by
    intro c hc
    apply h1
    split at hc
    · cases legacy
      · have : c = '❱' ∨ c = ' ' := by simpa [pointer] using hc
        rcases this with e | e
        · exact Or.inr (Or.inr (Or.inl e))
        · exact Or.inl e
      · have : c = '>' ∨ c = ' ' := by simpa [pointer] using hc
        rcases this with e | e
        · exact Or.inr (Or.inl e)
        · exact Or.inl e
    · have : c = ' ' := by simpa using hc
      exact Or.inl this
  have hj : ∀ c ∈ rjust (natStr r.num) (ncw - 2), cw c = 1 := by
    intro c hc
    apply h1
    rcases List.mem_append.mp hc with e | e
    · exact Or.inl (List.eq_of_mem_replicate e)
    · exact Or.inr (Or.inr (Or.inr (natStr_digits r.num c e)))
  have hml : (if r.marked then pointer legacy else [' ', ' ']).length = 2 := by
    split
    · exact pointer_length legacy
    · rfl
  have hjl : (rjust (natStr r.num) (ncw - 2)).length = ncw - 2 := by
    simp only [rjust, List.length_append, List.length_replicate]; omega
  have hsp : cw ' ' = 1 := h1 ' ' (Or.inl rfl)
  rw [cellLen_append, cellLen_append, cellLen_of_ones cw _ hm, cellLen_of_ones cw _ hj, hml, hjl]
  simp only [cellLen, List.map_cons, List.sum_cons, hsp]
  omega

end RichModel.Syntax
