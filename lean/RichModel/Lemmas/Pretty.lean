import RichModel.Model.Pretty
/-!
Helper lemmas for the render side of the pretty-printer model (property C16):
`check_length` = a comparison of sums, the render loop = a structural specification (`specLine`),
and the layout facts proved on that specification.
-/
namespace RichModel.Pretty
open RichModel

theorem cellLen_append (cw : Char → Nat) (a b : Str) : cellLen cw (a ++ b) = cellLen cw a + cellLen cw b := by
  simp [cellLen]

theorem cellLen_flatten (cw : Char → Nat) (ts : List Str) :
    cellLen cw ts.flatten = (ts.map (cellLen cw)).sum := by
  induction ts with
  | nil => simp [cellLen]
  | cons t ts ih => simp [cellLen_append, ih]

theorem checkLoop_eq (cw : Char → Nat) (m : Int) (ts : List Str) (s : Nat) (hne : ts ≠ []) :
    Node.checkLoop cw m s ts = decide (((s + (ts.map (cellLen cw)).sum : Nat) : Int) ≤ m) := by
  induction ts generalizing s with
  | nil => exact absurd rfl hne
  | cons t ts ih =>
    simp only [Node.checkLoop, List.map_cons, List.sum_cons]
    split
    · simp; omega
    · cases ts with
      | nil => simp [Node.checkLoop]; omega
      | cons u us => rw [ih _ (by simp)]; simp; omega

theorem Node.tokens_ne_nil_of_container (n : Node) (h : n.isContainer = true) : n.tokens ≠ [] := by
  cases n with
  | mk k vr o cl e la t ic ch =>
    simp only [Node.isContainer] at h
    subst h
    rw [Node.tokens]
    by_cases hv : vr.isEmpty <;> by_cases hc : ch.isEmpty <;> simp [hv, hc]

theorem Node.checkLength_iff (cw : Char → Nat) (n : Node) (s : Nat) (m : Int) (h : n.isContainer = true) :
    n.checkLength cw s m = true ↔ ((s + cellLen cw n.str : Nat) : Int) ≤ m := by
  simp [Node.checkLength, checkLoop_eq _ _ _ _ (Node.tokens_ne_nil_of_container n h), Node.str, cellLen_flatten]

structure Cfg where
  cw : Char → Nat
  v : Variant
  w : Int
  ind : Int
  ea : Bool

mutual
def specLine (c : Cfg) (l : Line) : Node → List Line
  | .mk k vr o cl e la t ic ch =>
    if ic && !ch.isEmpty && !l.expanded && mustExpand c.cw c.w c.ea l (.mk k vr o cl e la t ic ch) then
      l.expandHead (.mk k vr o cl e la t ic ch) ::
        (specKids c (l.whitespace ++ List.replicate c.ind.toNat ' ') (t && ch.length == 1) ch
          ++ [l.expandClose c.v (.mk k vr o cl e la t ic ch)])
    else [l]
def specKids (c : Cfg) (ws : Str) (one : Bool) : List Node → List Line
  | [] => []
  | x :: xs =>
    specLine c { node := some x, whitespace := ws, suffix := if one then [','] else x.separator } x
      ++ specKids c ws one xs
end

def specOf (c : Cfg) (l : Line) : List Line :=
  match l.node with
  | some n => specLine c l n
  | none => [l]

theorem specKids_eq (c : Cfg) (ws : Str) (one : Bool) (ch : List Node) :
    specKids c ws one ch =
      (ch.map fun x => ({ node := some x, whitespace := ws, suffix := if one then [','] else x.separator } : Line)).flatMap (specOf c) := by
  induction ch with
  | nil => simp [specKids]
  | cons x xs ih => simp [specKids, ih, specOf]

theorem specLine_unfold (c : Cfg) (l : Line) (n : Node) :
    specLine c l n =
      if n.isContainer && !n.children.isEmpty && !l.expanded && mustExpand c.cw c.w c.ea l n then
        l.expandHead n :: ((l.expandTail c.v n c.ind).flatMap (specOf c))
      else [l] := by
  cases n with
  | mk k vr o cl e la t ic ch =>
    rw [specLine]
    simp only [Node.isContainer, Node.children]
    split
    · rename_i h
      simp [h, Line.expandTail, Line.expandKids, specKids_eq, Node.tupleOfOne, Node.isTuple, Node.children, specOf, Line.expandClose, List.flatMap_append]
    · rename_i h
      simp [h]

theorem expandNode_iff {l : Line} {n : Node} :
    l.expandNode = some n ↔ l.node = some n ∧ (n.isContainer && !n.children.isEmpty && !l.expanded) = true := by
  unfold Line.expandNode
  cases hn : l.node with
  | none => simp
  | some x =>
    simp only
    split
    · rename_i h
      constructor
      · intro e; cases e; exact ⟨rfl, h⟩
      · rintro ⟨e, _⟩; cases e; rfl
    · rename_i h
      constructor
      · intro e; cases e
      · rintro ⟨e, h'⟩; cases e; exact absurd h' h

theorem renderLoop_eq_spec (c : Cfg) (todo done : List Line) :
    renderLoop c.cw c.v c.w c.ind c.ea todo done = done.reverse ++ todo.flatMap (specOf c) := by
  fun_induction renderLoop c.cw c.v c.w c.ind c.ea todo done with
  | case1 done => simp
  | case2 l rest done n h hm ih =>
    rw [ih]
    obtain ⟨hn, hc⟩ := expandNode_iff.mp h
    simp only [List.flatMap_cons, List.flatMap_append, specOf, hn]
    rw [specLine_unfold]
    simp only [Bool.and_eq_true] at hc
    simp [hc, hm]
  | case3 l rest done n h hm ih =>
    rw [ih]
    obtain ⟨hn, hc⟩ := expandNode_iff.mp h
    simp only [List.flatMap_cons, specOf, hn]
    rw [specLine_unfold]
    simp [hm]
  | case4 l rest done h ih =>
    rw [ih]
    simp only [List.flatMap_cons, specOf]
    cases hn : l.node with
    | none => simp
    | some n =>
      simp only
      rw [specLine_unfold]
      have : ¬ (n.isContainer && !n.children.isEmpty && !l.expanded) = true := by
        intro hc
        have := expandNode_iff.mpr ⟨hn, hc⟩
        rw [h] at this; cases this
      have h2 : ¬ (n.isContainer && !n.children.isEmpty && !l.expanded && mustExpand c.cw c.w c.ea l n) = true := by
        intro hc; rw [Bool.and_eq_true] at hc; exact this hc.1
      simp [h2]

/-! layout -/
mutual
def Node.flat (sep : Str) : Node → Str
  | .mk k v o c e _ tup ic ch =>
    (if k.isEmpty then [] else k ++ [':', ' ']) ++
    (if !v.isEmpty then v
     else if ic then
       (if !ch.isEmpty then o ++ flatList sep (tup && ch.length == 1) ch ++ c else e)
     else [])
def flatList (sep : Str) (one : Bool) : List Node → Str
  | [] => []
  | x :: xs => x.flat sep ++ (if one then [','] else if !x.last then sep else []) ++ flatList sep one xs
end

mutual
theorem Node.str_eq_flat : ∀ n : Node, n.tokens.flatten = n.flat [',', ' ']
  | .mk k v o c e la tup ic ch => by
    rw [Node.tokens, Node.flat]
    have := tokensList_flat (tup && ch.length == 1) ch
    by_cases hk : k.isEmpty <;> by_cases hv : v.isEmpty <;> by_cases hi : ic <;> by_cases hc : ch.isEmpty <;>
      simp [hk, hv, hi, hc, this]
theorem tokensList_flat (one : Bool) : ∀ ch : List Node, (Node.tokensList one ch).flatten = flatList [',', ' '] one ch
  | [] => by simp [Node.tokensList, flatList]
  | x :: xs => by
    rw [Node.tokensList, flatList]
    have h1 := Node.str_eq_flat x
    have h2 := tokensList_flat one xs
    cases one <;> cases hl : x.last <;> simp_all
end

def Node.compact (n : Node) : Str := n.flat [',']
def Line.compact (l : Line) : Str :=
  l.text ++ (match l.node with | some n => n.compact | none => []) ++ l.suffix

mutual
def Node.wf : Node → Bool
  | .mk _ vr _ _ _ _ _ ic ch => (ic || ch.isEmpty) && (!(ic && !ch.isEmpty) || vr.isEmpty) && wfList ch
def wfList : List Node → Bool
  | [] => true
  | x :: xs => x.wf && wfList xs
end

mutual
theorem specLine_compact (c : Cfg) (hv : c.v.dropSuffix = false) :
    ∀ (n : Node) (l : Line), n.wf = true → l.text = [] → l.node = some n →
      ((specLine c l n).map Line.compact).flatten = l.compact
  | .mk k vr o cl e la t ic ch, l, hw, ht, hn => by
    rw [specLine]
    split
    · rename_i hc
      simp only [Bool.and_eq_true] at hc
      obtain ⟨⟨⟨hic, hch⟩, _⟩, _⟩ := hc
      rw [Node.wf] at hw
      simp only [Bool.and_eq_true, Bool.or_eq_true] at hw
      have hvr : vr.isEmpty = true := by
        rcases hw.1.2 with h | h
        · simp [hic, hch] at h
        · exact h
      have hk := specKids_compact c hv ch (l.whitespace ++ List.replicate c.ind.toNat ' ') (t && ch.length == 1) hw.2
      simp only [List.map_cons, List.map_append, List.flatten_cons, List.flatten_append, hk]
      simp [Line.compact, Line.expandHead, Line.expandClose, hv, hn, Node.compact, Node.flat, hvr, hic, hch,
        Node.keyRepr, Node.openBrace, Node.closeBrace, ht]
      by_cases hkk : k = [] <;> simp [hkk]
    · simp
theorem specKids_compact (c : Cfg) (hv : c.v.dropSuffix = false) :
    ∀ (ch : List Node) (ws : Str) (one : Bool), wfList ch = true →
      ((specKids c ws one ch).map Line.compact).flatten = flatList [','] one ch
  | [], ws, one, _ => by simp [specKids, flatList]
  | x :: xs, ws, one, hw => by
    rw [wfList, Bool.and_eq_true] at hw
    rw [specKids, flatList]
    simp only [List.map_append, List.flatten_append]
    rw [specLine_compact c hv x _ hw.1 rfl rfl, specKids_compact c hv xs ws one hw.2]
    simp [Line.compact, Node.compact, Node.separator]
    cases one <;> cases hl : x.last <;> simp
end

/-! shapes, fit, indentation -/
def Node.expandable (n : Node) : Bool := n.isContainer && !n.children.isEmpty

theorem specOf_ne_nil (c : Cfg) (l : Line) : specOf c l ≠ [] := by
  unfold specOf
  split
  · rw [specLine_unfold]; split <;> simp
  · simp

theorem flatMap_specOf_length_ge (c : Cfg) (ls : List Line) : ls.length ≤ (ls.flatMap (specOf c)).length := by
  induction ls with
  | nil => simp
  | cons a t ih =>
    simp only [List.flatMap_cons, List.length_append, List.length_cons]
    have : 1 ≤ (specOf c a).length := by
      have := specOf_ne_nil c a
      cases h : specOf c a with
      | nil => exact absurd h this
      | cons _ _ => simp
    omega

/-- the two shapes of a rendered line: kept, or open / items / close with at least one item -/
theorem specLine_cases (c : Cfg) (l : Line) (n : Node) :
    (specLine c l n = [l] ∧ ¬ ((n.expandable && !l.expanded && mustExpand c.cw c.w c.ea l n) = true)) ∨
    (∃ mid, specLine c l n = l.expandHead n :: (mid ++ [l.expandClose c.v n]) ∧ mid ≠ [] ∧
      mid = (l.expandKids n c.ind).flatMap (specOf c) ∧
      (n.expandable && !l.expanded && mustExpand c.cw c.w c.ea l n) = true) := by
  rw [specLine_unfold]
  unfold Node.expandable
  split
  · rename_i h
    right
    refine ⟨(l.expandKids n c.ind).flatMap (specOf c), ?_, ?_, rfl, h⟩
    · simp [Line.expandTail, List.flatMap_append, specOf, Line.expandClose]
    · intro hnil
      have h1 := flatMap_specOf_length_ge c (l.expandKids n c.ind)
      rw [hnil] at h1
      simp only [Bool.and_eq_true] at h
      have : n.children ≠ [] := by simpa using h.1.1.2
      simp [Line.expandKids] at h1
      exact this h1
  · rename_i h
    left; exact ⟨rfl, h⟩

theorem cellLen_nil (cw : Char → Nat) : cellLen cw [] = 0 := rfl

theorem mustExpand_root (cw : Char → Nat) (w : Int) (ea : Bool) (n : Node) (hc : n.isContainer = true) :
    mustExpand cw w ea (rootLine n) n = true ↔ (ea = true ∨ w < (cellLen cw n.str : Int)) := by
  unfold mustExpand Line.checkLength
  have := Node.checkLength_iff cw n 0 w hc
  simp only [rootLine, List.length_nil, cellLen_nil, Nat.add_zero, Bool.or_eq_true, Bool.not_eq_true']
  constructor
  · rintro (h | h)
    · exact Or.inl h
    · right
      have h' : ¬ (n.checkLength cw 0 w = true) := by simp [h]
      rw [this] at h'
      omega
  · rintro (h | h)
    · exact Or.inl h
    · right
      cases hck : n.checkLength cw 0 w with
      | false => rfl
      | true => rw [this] at hck; omega

-- every line of the result that still holds a non-empty container was checked and fits
mutual
theorem specLine_kept_fits (c : Cfg) :
    ∀ (n : Node) (l : Line), l.node = some n → l.expanded = false →
      ∀ l' ∈ specLine c l n, ∀ n', l'.node = some n' → n'.expandable = true →
        c.ea = false ∧ l'.checkLength c.cw n' c.w = true
  | .mk k vr o cl e la t ic ch, l, hn, hex, l', hl', n', hn', he' => by
    rw [specLine] at hl'
    split at hl'
    · simp only [List.mem_cons, List.mem_append, List.not_mem_nil, or_false] at hl'
      rcases hl' with rfl | hl' | rfl
      · simp only [Line.expandHead] at hn'; split at hn' <;> cases hn'
      · exact specKids_kept_fits c ch _ _ l' hl' n' hn' he'
      · simp [Line.expandClose] at hn'
    · rename_i hc
      simp only [List.mem_singleton] at hl'
      subst hl'
      rw [hn] at hn'; cases hn'
      simp only [Node.expandable, Node.isContainer, Node.children] at he'
      simp only [he', hex, Bool.not_false, Bool.true_and, mustExpand, Bool.or_eq_true, Bool.not_eq_true', not_or,
        Bool.not_eq_true, Bool.not_eq_false] at hc
      exact hc
theorem specKids_kept_fits (c : Cfg) :
    ∀ (ch : List Node) (ws : Str) (one : Bool), ∀ l' ∈ specKids c ws one ch, ∀ n', l'.node = some n' →
      n'.expandable = true → c.ea = false ∧ l'.checkLength c.cw n' c.w = true
  | [], _, _, l', hl', _, _, _ => by simp [specKids] at hl'
  | x :: xs, ws, one, l', hl', n', hn', he' => by
    rw [specKids, List.mem_append] at hl'
    rcases hl' with h | h
    · exact specLine_kept_fits c x _ rfl rfl l' h n' hn' he'
    · exact specKids_kept_fits c xs ws one l' h n' hn' he'
end

-- indentation: every line below `l` is indented by `l`'s whitespace plus a whole number of indents
mutual
theorem specLine_indent (c : Cfg) :
    ∀ (n : Node) (l : Line), ∀ l' ∈ specLine c l n,
      ∃ d, l'.whitespace = l.whitespace ++ List.replicate (d * c.ind.toNat) ' '
  | .mk k vr o cl e la t ic ch, l, l', hl' => by
    rw [specLine] at hl'
    split at hl'
    · simp only [List.mem_cons, List.mem_append, List.not_mem_nil, or_false] at hl'
      rcases hl' with rfl | hl' | rfl
      · exact ⟨0, by simp [Line.expandHead]; split <;> rfl⟩
      · obtain ⟨d, hd⟩ := specKids_indent c ch _ _ l' hl'
        exact ⟨d + 1, by rw [hd, List.append_assoc, List.replicate_append_replicate]; congr 2; rw [Nat.add_mul]; omega⟩
      · exact ⟨0, by simp [Line.expandClose]⟩
    · simp only [List.mem_singleton] at hl'
      exact ⟨0, by simp [hl']⟩
theorem specKids_indent (c : Cfg) :
    ∀ (ch : List Node) (ws : Str) (one : Bool), ∀ l' ∈ specKids c ws one ch,
      ∃ d, l'.whitespace = ws ++ List.replicate (d * c.ind.toNat) ' '
  | [], _, _, l', hl' => by simp [specKids] at hl'
  | x :: xs, ws, one, l', hl' => by
    rw [specKids, List.mem_append] at hl'
    rcases hl' with h | h
    · exact specLine_indent c x _ l' h
    · exact specKids_indent c xs ws one l' h
end


/-! the loop result as the specification of the root line -/
theorem renderLines_eq_spec (cw : Char → Nat) (v : Variant) (n : Node) (w ind : Int) (ea : Bool) :
    renderLines cw v n w ind ea = specLine ⟨cw, v, w, ind, ea⟩ (rootLine n) n := by
  have := renderLoop_eq_spec ⟨cw, v, w, ind, ea⟩ [rootLine n] []
  simp only [List.reverse_nil, List.nil_append, List.flatMap_cons, List.flatMap_nil, List.append_nil] at this
  rw [renderLines, this]
  simp [specOf, rootLine]

/-! the loop as an iteration with an explicit step budget -/
def renderLoopFuel (cw : Char → Nat) (v : Variant) (maxWidth indentSize : Int) (expandAll : Bool) :
    Nat → List Line → List Line → Option (List Line)
  | 0, _, _ => none
  | _ + 1, [], done => some done.reverse
  | f + 1, l :: rest, done =>
    match l.expandNode with
    | some n =>
      if mustExpand cw maxWidth expandAll l n then
        renderLoopFuel cw v maxWidth indentSize expandAll f (l.expandTail v n indentSize ++ rest) (l.expandHead n :: done)
      else renderLoopFuel cw v maxWidth indentSize expandAll f rest (l :: done)
    | none => renderLoopFuel cw v maxWidth indentSize expandAll f rest (l :: done)

theorem Line.weight_pos (l : Line) : 0 < l.weight := by unfold Line.weight; split <;> omega

theorem renderLoopFuel_eq (cw : Char → Nat) (v : Variant) (w ind : Int) (ea : Bool) (todo done : List Line) :
    ∀ fuel, todoWeight todo < fuel →
      renderLoopFuel cw v w ind ea fuel todo done = some (renderLoop cw v w ind ea todo done) := by
  fun_induction renderLoop cw v w ind ea todo done with
  | case1 done =>
    intro fuel hf
    cases fuel with
    | zero => omega
    | succ f => simp [renderLoopFuel]
  | case2 l rest done n h hm ih =>
    intro fuel hf
    cases fuel with
    | zero => omega
    | succ f =>
      simp only [renderLoopFuel, h, hm, if_true]
      apply ih
      rw [todoWeight_append, todoWeight_expandTail]
      simp only [todoWeight, Line.weight, expandNode_some h] at hf
      omega
  | case3 l rest done n h hm ih =>
    intro fuel hf
    cases fuel with
    | zero => omega
    | succ f =>
      simp only [renderLoopFuel, h, hm]
      apply ih
      simp only [todoWeight] at hf
      have := Line.weight_pos l
      omega
  | case4 l rest done h ih =>
    intro fuel hf
    cases fuel with
    | zero => omega
    | succ f =>
      simp only [renderLoopFuel, h]
      apply ih
      simp only [todoWeight] at hf
      have := Line.weight_pos l
      omega

theorem cellLen_replicate_space (cw : Char → Nat) (hs : cw ' ' = 1) (k : Nat) :
    cellLen cw (List.replicate k ' ') = k := by
  induction k with
  | zero => rfl
  | succ k ih =>
    simp only [cellLen, List.replicate_succ, List.map_cons, List.sum_cons, hs] at ih ⊢
    omega

end RichModel.Pretty
