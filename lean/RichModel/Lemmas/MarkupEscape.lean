import RichModel.Lemmas.MarkupLex
namespace RichModel.Markup

/-- `escape` with `k` pending backslashes -/
def escK (k : Nat) (s : List Char) : List Char := (lexK k s).flatMap Lx.esc

/-- what escaping does to one item -/
def Lx.bump : Lx → Lx
  | .ch c => .ch c
  | .tag k b => .tag (2 * k + 1) b

theorem esc_replicate (k : Nat) : (List.replicate k (Lx.ch '\\')).flatMap Lx.esc = bsl k := by
  induction k with
  | zero => rfl
  | succ k ih => simp [List.replicate_succ, Lx.esc, bsl] at *; exact ih

theorem escK_nil (k : Nat) : escK k [] = bsl k := by simp [escK, lexK_nil, esc_replicate]

theorem escK_bs (k : Nat) (cs : List Char) : escK k ('\\' :: cs) = escK (k + 1) cs := by
  simp [escK, lexK_bs]

theorem bsl_add (a b : Nat) : bsl (a + b) = bsl a ++ bsl b := by simp [bsl, List.replicate_append_replicate]

theorem isTagStart_bs : isTagStart '\\' = false := by decide
theorem isTagStart_lb : isTagStart '[' = false := by decide

theorem escK_tag (k : Nat) {cs b r : List Char} (h : tagBody cs = some (b, r)) :
    escK k ('[' :: cs) = bsl (2 * k + 1) ++ ('[' :: (b ++ ']' :: escK 0 r)) := by
  simp only [escK, lexK_tag k h, List.flatMap_cons, Lx.esc]
  have : bsl (2 * k + 1) = bsl k ++ bsl k ++ ['\\'] := by
    rw [show 2 * k + 1 = k + k + 1 by omega, bsl_add, bsl_add]; rfl
  rw [this]; simp

theorem escK_open (k : Nat) {cs : List Char} (h : tagBody cs = none) :
    escK k ('[' :: cs) = bsl k ++ '[' :: escK 0 cs := by
  simp [escK, lexK_open k h, esc_replicate, Lx.esc]

theorem escK_plain (k : Nat) (c : Char) (cs : List Char) (h1 : c ≠ '\\') (h2 : c ≠ '[') :
    escK k (c :: cs) = bsl k ++ c :: escK 0 cs := by
  simp [escK, lexK_plain k c cs h1 h2, esc_replicate, Lx.esc]

theorem untilClose_bsl (k : Nat) (t : List Char) :
    untilClose (bsl k ++ t) = (untilClose t).map (fun p => (bsl k ++ p.1, p.2)) := by
  induction k with
  | zero => simp [bsl]
  | succ k ih =>
    have : bsl (k + 1) ++ t = '\\' :: (bsl k ++ t) := by simp [bsl, List.replicate_succ]
    rw [this, untilClose_cons _ _ (by decide) (by decide), ih]
    cases untilClose t with
    | none => rfl
    | some p => simp [bsl, List.replicate_succ]

theorem untilClose_bsl_none (k : Nat) (t : List Char) (h : untilClose t = none) :
    untilClose (bsl k ++ t) = none := by
  rw [untilClose_bsl, h]; rfl

/-- a `[` whose look-ahead runs into a line feed or the end of the text still does so after
escaping: the text it ran over contains no `]`, hence no tag, hence nothing was inserted. -/
theorem untilClose_escK_none (n : Nat) : ∀ (t : List Char) (k : Nat), t.length ≤ n →
    untilClose t = none → untilClose (escK k t) = none := by
  induction n with
  | zero =>
    intro t k h _
    have : t = [] := List.eq_nil_of_length_eq_zero (by omega)
    subst this; rw [escK_nil]; simpa using untilClose_bsl_none k [] rfl
  | succ n ih =>
    intro t k h hu
    cases t with
    | nil => rw [escK_nil]; simpa using untilClose_bsl_none k [] rfl
    | cons c cs =>
      have hl : cs.length ≤ n := by simp at h; omega
      by_cases h1 : c = '\\'
      · subst h1
        rw [untilClose_cons _ _ (by decide) (by decide)] at hu
        rw [escK_bs]
        apply ih cs (k + 1) hl
        cases hc : untilClose cs with
        | none => rfl
        | some p => simp [hc] at hu
      · by_cases h3 : c = ']'
        · subst h3; simp [untilClose] at hu
        · by_cases h4 : c = '\n'
          · subst h4
            rw [escK_plain k _ cs (by decide) (by decide)]
            apply untilClose_bsl_none
            simp [untilClose]
          · rw [untilClose_cons _ _ h3 h4] at hu
            have hcs : untilClose cs = none := by
              cases hc : untilClose cs with
              | none => rfl
              | some p => simp [hc] at hu
            by_cases h2 : c = '['
            · subst h2
              cases ht : tagBody cs with
              | none =>
                rw [escK_open k ht]
                apply untilClose_bsl_none
                rw [untilClose_cons _ _ (by decide) (by decide), ih cs 0 hl hcs]; rfl
              | some p =>
                obtain ⟨b, r⟩ := p
                obtain ⟨e, c0, b', rfl, hc0, n1, n2⟩ := tagBody_spec ht
                exfalso
                have := untilClose_of (c0 :: b') r (by simp; exact ⟨fun h => (isTagStart_ne hc0).1 h.symm, n1⟩)
                  (by simp; exact ⟨fun h => (isTagStart_ne hc0).2.1 h.symm, n2⟩)
                rw [← e, hcs] at this
                cases this
            · rw [escK_plain k c cs h1 h2]
              apply untilClose_bsl_none
              rw [untilClose_cons _ _ h3 h4, ih cs 0 hl hcs]; rfl

theorem escK_head_bs (k : Nat) (s : List Char) : ∃ t, escK (k + 1) s = '\\' :: t := by
  induction s generalizing k with
  | nil => exact ⟨bsl k, by simp [escK_nil, bsl, List.replicate_succ]⟩
  | cons c cs ih =>
    by_cases h1 : c = '\\'
    · subst h1; rw [escK_bs]; exact ih (k + 1)
    · by_cases h2 : c = '['
      · subst h2
        cases ht : tagBody cs with
        | none => rw [escK_open _ ht]; exact ⟨_, by simp [bsl, List.replicate_succ]; rfl⟩
        | some p =>
          obtain ⟨b, r⟩ := p
          rw [escK_tag _ ht]
          exact ⟨_, by rw [show 2 * (k + 1) + 1 = (2 * k + 2) + 1 by omega]; simp [bsl, List.replicate_succ]; rfl⟩
      · rw [escK_plain _ c cs h1 h2]; exact ⟨_, by simp [bsl, List.replicate_succ]; rfl⟩

/-- a `[` that is not the start of a tag is not one after escaping either -/
theorem tagBody_escK_none (cs : List Char) (h : tagBody cs = none) : tagBody (escK 0 cs) = none := by
  cases cs with
  | nil => simp [escK_nil, bsl, tagBody]
  | cons c cs =>
    by_cases hc : isTagStart c = true
    · obtain ⟨h3, h4, h1, h2⟩ := isTagStart_ne hc
      rw [escK_plain 0 c cs h1 h2]
      simp only [bsl, List.replicate_zero, List.nil_append, tagBody, hc, if_true]
      simp only [tagBody, hc, if_true] at h
      have hcs : untilClose cs = none := by
        cases hu : untilClose cs with
        | none => rfl
        | some p => simp [hu] at h
      rw [untilClose_escK_none cs.length cs 0 (Nat.le_refl _) hcs]
    · -- the first character after `[` is not in the class; after escaping it is that character or a backslash
      by_cases h1 : c = '\\'
      · subst h1
        rw [escK_bs]
        obtain ⟨t, ht⟩ := escK_head_bs 0 cs
        rw [ht]; simp [tagBody, isTagStart_bs]
      · by_cases h2 : c = '['
        · subst h2
          cases ht : tagBody cs with
          | none => rw [escK_open _ ht]; simp [bsl, tagBody, isTagStart_lb]
          | some p =>
            obtain ⟨b, r⟩ := p
            rw [escK_tag _ ht]; simp [bsl, tagBody, isTagStart_bs]
        · rw [escK_plain 0 c cs h1 h2]; simp [bsl, tagBody, hc]

theorem bump_replicate (k : Nat) :
    (List.replicate k (Lx.ch '\\')).map Lx.bump = List.replicate k (Lx.ch '\\') := by
  simp [Lx.bump]

/-- **scan_bump** (the key lemma): scanning the escaped text finds exactly the items of the
original with every tag's backslash count `k` turned into `2k+1`. -/
theorem lexK_escK (n : Nat) : ∀ (s : List Char) (k : Nat), s.length ≤ n →
    lexK 0 (escK k s) = (lexK k s).map Lx.bump := by
  induction n with
  | zero =>
    intro s k h
    have : s = [] := List.eq_nil_of_length_eq_zero (by omega)
    subst this
    rw [escK_nil, lexK_nil, bump_replicate]
    have := lexK_bsl 0 k []
    simp at this; rw [this, lexK_nil]
  | succ n ih =>
    intro s k h
    cases s with
    | nil =>
      rw [escK_nil, lexK_nil, bump_replicate]
      have := lexK_bsl 0 k []
      simp at this; rw [this, lexK_nil]
    | cons c cs =>
      have hl : cs.length ≤ n := by simp at h; omega
      by_cases h1 : c = '\\'
      · subst h1; rw [escK_bs, lexK_bs]; exact ih cs (k + 1) hl
      · by_cases h2 : c = '['
        · subst h2
          cases ht : tagBody cs with
          | none =>
            rw [escK_open k ht, lexK_open k ht, lexK_bsl, Nat.zero_add,
              lexK_open k (tagBody_escK_none cs ht), ih cs 0 hl]
            simp [Lx.bump]
          | some p =>
            obtain ⟨b, r⟩ := p
            have e := (tagBody_spec ht).1
            have hr : r.length ≤ n := by rw [e] at hl; simp at hl; omega
            rw [escK_tag k ht, lexK_tag k ht, lexK_bsl, Nat.zero_add]
            rw [lexK_tag (2 * k + 1) (tagBody_change_rest ht (escK 0 r)), ih r 0 hr]
            simp [Lx.bump]
        · rw [escK_plain k c cs h1 h2, lexK_plain k c cs h1 h2, lexK_bsl, Nat.zero_add,
            lexK_plain k c _ h1 h2, ih cs 0 hl]
          simp [Lx.bump]

end RichModel.Markup
