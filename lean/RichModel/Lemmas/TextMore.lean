import RichModel.Lemmas.TextJoin
/-!
`assemble`, `rstrip`, `truncate`, `align`: reference semantics and invariant (repaired variant).
-/
namespace RichModel
namespace Text
variable {σ : Type}

/-! ### assemble -/

theorem appendStr_style' (t : Text σ) (s : List Char) (st : Option σ) : (t.appendStr s st).style = t.style := by
  rw [appendStr_eq]; split <;> rfl

theorem appendT_style' (t u : Text σ) : (t.appendT u).style = t.style := by
  unfold appendT; split <;> rfl

/-- what one positional argument of `Text.assemble` contributes under base style `b` -/
def partView (b : σ) : Part σ → List (Char × List σ)
  | .str s => (stripControl s).map (fun c => (c, [b]))
  | .pair s st => (stripControl s).map (fun c => (c, b :: st.toList))
  | .txt u => u.view.map (fun p => (p.1, b :: p.2))

def Part.Ok : Part σ → Prop
  | .txt u => Inv u
  | _ => True

theorem view_foldl_appendPart (parts : List (Part σ)) (a : Text σ) (ha : Inv a) (hp : ∀ p ∈ parts, p.Ok) :
    Inv (parts.foldl appendPart a) ∧
    (parts.foldl appendPart a).view = a.view ++ parts.flatMap (partView a.style) := by
  induction parts generalizing a with
  | nil => exact ⟨ha, by simp⟩
  | cons p rest ih =>
    simp only [List.foldl_cons, List.flatMap_cons]
    have hpo := hp p (by simp)
    have hrest : ∀ q ∈ rest, q.Ok := fun q hq => hp q (by simp [hq])
    cases p with
    | str s =>
      obtain ⟨h1, h2⟩ := ih (a.appendStr s none) (inv_appendStr a s none ha) hrest
      refine ⟨h1, ?_⟩
      simp only [appendPart] at h1 h2 ⊢
      rw [h2, view_appendStr a s none ha, appendStr_style']
      simp [partView]
    | pair s st =>
      obtain ⟨h1, h2⟩ := ih (a.appendStr s st) (inv_appendStr a s st ha) hrest
      refine ⟨h1, ?_⟩
      simp only [appendPart] at h1 h2 ⊢
      rw [h2, view_appendStr a s st ha, appendStr_style']
      simp [partView]
    | txt u =>
      obtain ⟨h1, h2⟩ := ih (a.appendT u) (inv_appendT a u ha hpo) hrest
      refine ⟨h1, ?_⟩
      simp only [appendPart] at h1 h2 ⊢
      rw [h2, view_appendT a u ha hpo, appendT_style']
      simp [partView]

/-- `Text.assemble(*parts, style=b)`: the parts in order; strings under the base style (and their own
style, if given), texts with every character's effective style placed under the base style -/
theorem view_assemble (parts : List (Part σ)) (style : σ) (j : Option Justify) (o : Option Overflow)
    (nw : Option Bool) (e : List Char) (ts : Option Nat) (hp : ∀ p ∈ parts, p.Ok) :
    (assemble Variant.repaired parts style j o nw e ts).view = parts.flatMap (partView style) := by
  unfold assemble
  have h0 : Inv (new Variant.repaired [] style [] j o nw e ts) := inv_new _ _ _ _ _ _ _ _ (by intro sp h; simp at h)
  rw [(view_foldl_appendPart parts _ h0 hp).2]
  simp [view_eq_annot, new, stripControl, annot]

/-! ### rstrip -/

theorem pyRstrip_eq_take (s : List Char) : pyRstrip s = s.take (pyRstrip s).length := by
  have h := List.takeWhile_append_dropWhile (p := pyIsSpace) (l := s.reverse)
  have h2 : s = (s.reverse.dropWhile pyIsSpace).reverse ++ (s.reverse.takeWhile pyIsSpace).reverse := by
    have := congrArg List.reverse h
    simp only [List.reverse_append, List.reverse_reverse] at this
    exact this.symm
  unfold pyRstrip
  conv => rhs; rw [h2]
  simp

theorem inv_rstrip (t : Text σ) (h : Inv t) : Inv t.rstrip := by
  unfold rstrip
  apply inv_setPlain _ _ h
  rw [pyRstrip_eq_take]
  exact NoCtl.take _ h.2.1

/-- `rstrip()`: the text without its trailing whitespace, every remaining character as it was -/
theorem view_rstrip (t : Text σ) (h : Inv t) : t.rstrip.view = t.view.take (pyRstrip t.plain).length := by
  unfold rstrip
  rw [view_setPlain _ _ h, view_eq_annot, ← annot_take, ← pyRstrip_eq_take]

/-! ### truncate -/

/-- `truncate` on an ordinary string (`ov` is the effective overflow) -/
def truncStr (cw : Char → Nat) (s : List Char) (maxWidth : Int) (ov : Overflow) (pad : Bool) : List Char :=
  if ov != Overflow.ignore then
    let length : Int := cellLen cw s
    let s1 :=
      if length > maxWidth then
        if ov == Overflow.ellipsis then setCellSizeI cw s (maxWidth - 1) ++ ['…'] else setCellSizeI cw s maxWidth
      else s
    if pad && length < maxWidth then s1 ++ List.replicate (maxWidth - length).toNat ' ' else s1
  else s

theorem noCtl_setCellSizeI (cw : Char → Nat) (s : List Char) (w : Int) (h : NoCtl s) : NoCtl (setCellSizeI cw s w) := by
  unfold setCellSizeI
  simp only []
  split
  · exact h
  · split
    · exact NoCtl.append h (NoCtl.replicate _ _ noCtl_space)
    · split
      · exact NoCtl.append (NoCtl.take _ h) (by intro c hc; simp at hc; subst hc; exact noCtl_space)
      · exact NoCtl.take _ h

theorem noCtl_ellipsis : isStripCode '…' = false := by decide

/-- `truncate(max_width, overflow, pad)`: the string is what `truncate` makes of an ordinary string,
`len()` follows, and every position keeps the style that was attached to it -/
theorem truncate_spec (cw : Char → Nat) (t : Text σ) (w : Int) (ov : Option Overflow) (pad : Bool) (h : Inv t) :
    Inv (t.truncate cw w ov pad) ∧
    (t.truncate cw w ov pad).plain = truncStr cw t.plain w ((ov.orElse (fun _ => t.overflow)).getD Overflow.fold) pad ∧
    (t.truncate cw w ov pad).style = t.style ∧
    (t.truncate cw w ov pad).view = annot (t.truncate cw w ov pad).plain t.effStyle 0 := by
  unfold truncate truncStr
  simp only []
  generalize (ov.orElse (fun _ => t.overflow)).getD Overflow.fold = o
  by_cases hig : (o != Overflow.ignore) = true
  · simp only [hig, if_true]
    by_cases hgt : (cellLen cw t.plain : Int) > w
    · have hpad : ¬ ((cellLen cw t.plain : Int) < w) := by omega
      simp only [hgt, if_true, hpad, decide_false, Bool.and_false, Bool.false_eq_true, if_false]
      by_cases hel : (o == Overflow.ellipsis) = true
      · simp only [hel, if_true]
        have hn : NoCtl (setCellSizeI cw t.plain (w - 1) ++ ['…']) :=
          NoCtl.append (noCtl_setCellSizeI cw _ _ h.2.1) (by intro c hc; simp at hc; subst hc; exact noCtl_ellipsis)
        exact ⟨inv_setPlain _ _ h hn, setPlain_plain _ _, setPlain_style _ _, by rw [view_setPlain _ _ h, setPlain_plain]⟩
      · simp only [hel, Bool.false_eq_true, if_false]
        have hn : NoCtl (setCellSizeI cw t.plain w) := noCtl_setCellSizeI cw _ _ h.2.1
        exact ⟨inv_setPlain _ _ h hn, setPlain_plain _ _, setPlain_style _ _, by rw [view_setPlain _ _ h, setPlain_plain]⟩
    · simp only [hgt, if_false]
      by_cases hp : (pad && decide ((cellLen cw t.plain : Int) < w)) = true
      · simp only [hp, if_true]
        refine ⟨⟨rfl, NoCtl.append h.2.1 (NoCtl.replicate _ _ noCtl_space), ?_⟩, (by first | rfl | trivial), (by first | rfl | trivial), ?_⟩
        · exact SpansIn.mono h.2.2 (by have := h.1; simp only [List.length_append]; omega)
        · rw [view_eq_annot]; rfl
      · simp only [hp, Bool.false_eq_true, if_false]
        exact ⟨h, (by first | rfl | trivial), (by first | rfl | trivial), view_eq_annot t⟩
  · simp only [hig, Bool.false_eq_true, if_false]
    exact ⟨h, (by first | rfl | trivial), (by first | rfl | trivial), view_eq_annot t⟩

/-! ### align (repaired: pads only by a positive excess) -/

/-- `align(method, width, ch)`: `truncate(width)`, then base-styled padding characters up to the width,
on the right / both sides / the left; no character of the truncated text moves or changes style -/
theorem align_spec (cw : Char → Nat) (t : Text σ) (m : AlignMethod) (w : Int) (ch : Char) (h : Inv t)
    (hch : isStripCode ch = false) :
    Inv (t.align Variant.repaired cw m w ch) ∧
    (t.align Variant.repaired cw m w ch).view =
      (let t1 := t.truncate cw w
       let excess := (w - (cellLen cw t1.plain : Int)).toNat
       match m with
       | .left => t1.view ++ List.replicate excess (ch, [t.style])
       | .center => List.replicate (excess / 2) (ch, [t.style]) ++ t1.view ++ List.replicate (excess - excess / 2) (ch, [t.style])
       | .right => List.replicate excess (ch, [t.style]) ++ t1.view) := by
  obtain ⟨h1, _, hsty, _⟩ := truncate_spec cw t w none false h
  unfold align
  simp only [Variant.repaired, Bool.false_eq_true, if_false]
  generalize t.truncate cw w = t1 at h1 hsty ⊢
  by_cases hex : w - (cellLen cw t1.plain : Int) > 0
  · simp only [hex, decide_true, if_true]
    obtain ⟨k, hk⟩ : ∃ k : Nat, w - (cellLen cw t1.plain : Int) = (k : Int) := ⟨_, (Int.toNat_of_nonneg (by omega)).symm⟩
    rw [hk]
    simp only [Int.toNat_natCast]
    cases m with
    | left => exact ⟨inv_padRight _ _ _ h1 hch, by rw [view_padRight _ _ _ h1, hsty]⟩
    | right => exact ⟨inv_padLeft _ _ _ h1 hch, by rw [view_padLeft _ _ _ h1, hsty]⟩
    | center =>
      have h2 : ((k : Int) / 2) = ((k / 2 : Nat) : Int) := by omega
      have h3 : (k : Int) - ((k / 2 : Nat) : Int) = ((k - k / 2 : Nat) : Int) := by omega
      simp only []
      rw [h2, h3]
      have hi := inv_padLeft t1 (k / 2) ch h1 hch
      refine ⟨inv_padRight _ _ _ hi hch, ?_⟩
      rw [view_padRight _ _ _ hi, view_padLeft _ _ _ h1]
      have : (t1.padLeft ((k / 2 : Nat) : Int) ch).style = t1.style := by
        rw [padLeft_eq]; split
        · simp [setPlain_style]
        · rfl
      rw [this, hsty]
  · simp only [hex, decide_false, Bool.false_eq_true, if_false]
    have : (w - (cellLen cw t1.plain : Int)).toNat = 0 := by omega
    rw [this]
    cases m <;> simp [h1]

end Text
end RichModel
