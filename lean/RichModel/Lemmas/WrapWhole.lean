import RichModel.Lemmas.WrapSplit
/-!
`Text.wrap` as a whole: the induction over the paragraphs produced by `split("\\n", allow_blank=True)`.
-/
namespace RichModel
namespace Wrap
open Text
variable {σ : Type}
variable {chars : Bool}

/-- the induction over the paragraphs of `Text.wrap`, for any comparison `N` of styled strings that respects
concatenation: it suffices to treat one paragraph (tab expansion, then `wrapLine`) -/
theorem wrap_over_paragraphs [BEq σ] (cw : Char → Nat) (A : StyleAlg σ) (t : Text σ) (ht : Inv t) (w : Nat)
    (justify : Option Justify) (overflow : Option Overflow) (tabSize : Option Nat) (noWrap : Option Bool)
    (N : List (Char × List σ) → List (Char × List σ)) (hN : ∀ a b, N (a ++ b) = N a ++ N b)
    (hpar : ∀ P : Text σ, Inv P → (∀ c ∈ P.plain, c ∈ t.plain) → ∃ P' out,
        (if P.plain.contains '\t' then P.expandTabs Variant.repaired tabSize else .ok P) = .ok P' ∧
        wrapLine (WVariant.fixed chars) cw A P' w (wrapJustifyOf t justify) (wrapOverflowOf t overflow)
          (noWrapOf t overflow noWrap) = .ok out ∧
        N (nsv (out.flatMap Text.view)) = N (nsv P.view)) :
    ∃ out, wrap (WVariant.fixed chars) cw A t w justify overflow tabSize noWrap = .ok out ∧
      N (nsv (out.flatMap Text.view)) = N (nsv t.view) := by
  obtain ⟨ps, hsplit, hink, hps⟩ := split_newline_ink t ht
  unfold wrap
  rw [show (WVariant.fixed chars).text = Variant.repaired from rfl, hsplit]
  simp only [bind, Except.bind]
  rw [← hink]
  clear hink hsplit
  induction ps with
  | nil => exact ⟨[], rfl, rfl⟩
  | cons P ps ih =>
    obtain ⟨hP, _, hPc, _⟩ := hps P (by simp)
    obtain ⟨more, hmore, hmink⟩ := ih (fun l hl => hps l (List.mem_cons_of_mem _ hl))
    obtain ⟨P', out, hP', hout, hoink⟩ := hpar P hP hPc
    refine ⟨out ++ more, ?_, ?_⟩
    · simp only [wrapParagraphs, show (WVariant.fixed chars).text = Variant.repaired from rfl, hP', bind, Except.bind,
        hout, hmore]
    · simp only [List.flatMap_append, List.flatMap_cons, nsv_append, hN, hoink, hmink]

/-- a paragraph without tab characters is handed to `wrapLine` as it is -/
theorem no_tab_paragraph [BEq σ] (t P : Text σ) (tabSize : Option Nat) (htab : '\t' ∉ t.plain)
    (hPc : ∀ c ∈ P.plain, c ∈ t.plain) :
    (if P.plain.contains '\t' then P.expandTabs Variant.repaired tabSize else .ok P) = .ok P := by
  have hnt : P.plain.contains '\t' = false := by
    rw [Bool.eq_false_iff]; intro hc
    exact htab (hPc _ (List.contains_iff_mem.mp hc))
  rw [hnt]; rfl

end Wrap
end RichModel
