import RichModel.Lemmas.LayoutPanel
/-!
The panel of the composition layer at ANY available width `w ≥ 1` (`panelL_fits` asks for `3 ≤ w`, `4 ≤ w` with a title): no line is
wider than `max w 3` (`max w 4` with a title).  Below three (four) cells only the two borders (and the four fixed border characters of
a titled top row) can stick out.  Helpers are prefixed `pna_`.
-/
namespace RichModel.Layout
open RichModel RichModel.Frames

/-- `child_width + 2` never exceeds `max w 3` (untitled: `fitWidth` gives at least one cell to a non-expanding panel) resp. `w`
(titled: the `min` with `w - 2`) -/
theorem pna_childW_le (cfg : Cfg) (o : PanelOpts) (inner : Ch) (title : Option T) (w : Int)
    (hm : ∀ k : Int, (inner.measureAt k).maximum ≤ max k 0) :
    pnChildW cfg o inner title w + 2 ≤ max w (if title.isSome then 2 else 3) := by
  unfold pnChildW
  have hfit : ∀ k : Int, fitWidth cfg.v (inner.measureAt k).maximum ≤ max k 1 := by
    intro k
    have := hm k
    unfold fitWidth; split <;> omega
  cases title with
  | some t => simp only [Option.isSome_some, if_true]; omega
  | none =>
    simp only [Option.isSome_none, Bool.false_eq_true, if_false]
    cases ho : o.width with
    | none =>
      simp only
      split
      · omega
      · have := hfit (w - 2); omega
    | some pw =>
      simp only
      split
      · omega
      · have := hfit (min w pw - 2); omega

/-- the common generalisation: any bound `N` with room for the two borders, the child and (titled) the four fixed characters of the
top row -/
theorem pna_fits_bound (cfg : Cfg) (hcw : cfg.cw = cwR) (hp : cfg.poison = []) (htc : cfg.titleAtConsoleWidth = false)
    (box : Frames.Box) (hnn : box.NoNl) (hnar : box.Narrow cfg.cw) (title : Option T) (inner : Ch) (cwid : Int) (N : Nat)
    (h2N : 2 ≤ N) (hle : cwid + 2 ≤ (N : Int)) (h4 : title.isSome → 4 ≤ N) (o : PanelOpts) :
    Fits cfg.cw N (pnTop cfg o box title cwid ++ [nl]
        ++ (inner.linesAt cfg.cw cwid true).flatMap (fun l => [seg [box.midLeft]] ++ l ++ [seg [box.midRight]] ++ [nl])
        ++ [seg (boxBottom box (cwid + 2 - 2)), nl]) := by
  have hsp : cfg.cw ' ' = 1 := by rw [hcw]; exact cwD_space
  have h2 : ∀ ch, cfg.cw ch ≤ 2 := by rw [hcw]; exact cwD_le_two
  have hel : cfg.cw '…' = 1 := by rw [hcw]; exact cwD_ellipsis
  obtain ⟨n1, n2, n3, n4, n5, n6, n7, n8⟩ := hnar
  obtain ⟨m1, m2, m3, m4, m5, m6, m7, m8⟩ := hnn
  have hclTop : Closed (pnTop cfg o box title cwid ++ [nl]) := closed_snoc_nl _
  refine fits_append _ _ _ _ (closed_append _ _ hclTop (closed_flatMap _ _ (fun l _ => closed_snoc_nl _)))
    (fits_append _ _ _ _ hclTop (pn_fits_snoc_nl _ _ _ ?_) ?_) ?_
  · -- the top border
    cases title with
    | none =>
      show Fits cfg.cw N [seg (boxTop box (cwid + 2 - 2))]
      apply pn_fits_line
      · intro ch hch
        rw [flat_seg] at hch
        simp only [boxTop, List.mem_append, List.mem_singleton, rep, List.mem_replicate] at hch
        rcases hch with (rfl | ⟨_, rfl⟩) | rfl <;> assumption
      · rw [show boxTop box (cwid + 2 - 2) = [box.topLeft] ++ rep (cwid + 2 - 2) box.top ++ [box.topRight] from rfl,
          lineLength_boxRow cfg.cw _ _ _ n1 n2 n3]
        omega
    | some t =>
      have h4 := h4 rfl
      simp only [pnTop, htc, Bool.false_eq_true, if_false]
      refine pn_fits_mono _ (cellLen cfg.cw [box.topLeft, box.top] + (cwid + 2 - 4).toNat
        + cellLen cfg.cw [box.top, box.topRight]) _ ?_ _ (pn_sandwich _ _ _ _ _ ?_ ?_ ?_)
      · simp only [cellLen_cons, cellLen_nil, n1, n2, n3]; omega
      · split
        · exact fits_nil _ _
        · exact text_fits cfg hsp h2 hel hp _ _ _ (by omega) (by simp [effOverflow]) (Or.inr rfl)
      · intro ch hch
        simp only [List.mem_cons, List.not_mem_nil, or_false] at hch
        rcases hch with rfl | rfl <;> assumption
      · intro ch hch
        simp only [List.mem_cons, List.not_mem_nil, or_false] at hch
        rcases hch with rfl | rfl <;> assumption
  · -- the body
    rw [show ∀ lines : List Ln, lines.flatMap (fun l : Ln => [seg [box.midLeft]] ++ l ++ [seg [box.midRight]] ++ [nl])
        = (lines.map (fun l : Ln => [seg [box.midLeft]] ++ l ++ [seg [box.midRight]])).flatMap (fun l : Ln => l ++ [nl])
      from fun lines => by rw [List.flatMap_map]]
    apply fits_of_lines
    · intro l hl ch hch
      obtain ⟨l0, hl0, rfl⟩ := List.mem_map.mp hl
      rw [flat_append, flat_append, flat_seg, flat_seg] at hch
      simp only [List.mem_append, List.mem_singleton] at hch
      rcases hch with (rfl | hch) | rfl
      · exact m4
      · exact pn_nlFree_flat l0 (linesAt_nlFree cfg.cw hsp h2 _ _ _ l0 hl0) ch hch
      · exact m5
    · intro l hl
      obtain ⟨l0, hl0, rfl⟩ := List.mem_map.mp hl
      rw [lineLength_append, lineLength_append, renderLines_exact cfg.cw hsp h2 _ _ l0 hl0]
      simp only [lineLength_seg, cellLen_cons, cellLen_nil, n4, n5]
      omega
  · -- the bottom border
    rw [show ([seg (boxBottom box (cwid + 2 - 2)), nl] : List Seg) = [seg (boxBottom box (cwid + 2 - 2))] ++ [nl] from rfl]
    apply pn_fits_snoc_nl
    apply pn_fits_line
    · intro ch hch
      rw [flat_seg] at hch
      simp only [boxBottom, List.mem_append, List.mem_singleton, rep, List.mem_replicate] at hch
      rcases hch with (rfl | ⟨_, rfl⟩) | rfl <;> assumption
    · rw [show boxBottom box (cwid + 2 - 2) = [box.bottomLeft] ++ rep (cwid + 2 - 2) box.bottom ++ [box.bottomRight] from rfl,
        lineLength_boxRow cfg.cw _ _ _ n6 n7 n8]
      omega

/-- A panel at ANY width `w ≥ 1`: no line is wider than `max w 3` (`max w 4` with a title) — below three (four) cells the borders
(and the four fixed border characters of a titled top row) are all that can stick out. -/
theorem panelL_fits_any (cfg : Cfg) (hcw : cfg.cw = cwR) (hp : cfg.poison = []) (htc : cfg.titleAtConsoleWidth = false)
    (o : PanelOpts) (c : Ch) (w : Int) (out : List Seg) (h : panelConsoleL cfg o c w = some out)
    (hw : 1 ≤ w) (hm : ∀ k : Int, 0 ≤ (c.measureAt k).maximum ∧ (c.measureAt k).maximum ≤ max k 0) :
    Fits cfg.cw (max w.toNat (if o.title = [] then 3 else 4)) out ∧ Closed out := by
  obtain ⟨p, box, title, hpad, hb, ht, hout⟩ := pn_unfold cfg o c w out h
  obtain ⟨hnn, hnar⟩ := Dep.boxAt_ok _ box hb
  have hnar' : box.Narrow cfg.cw := by rw [hcw]; exact hnar
  have hin : ∀ k : Int, ((panelInner cfg.cw cfg.v p c).measureAt k).maximum ≤ max k 0 := by
    rw [hcw]; exact fr_panelInner_sound cfg.v p c (fun k => (hm k).2)
  have hle := pna_childW_le cfg o (panelInner cfg.cw cfg.v p c) title w hin
  have htne : title.isSome → o.title ≠ [] := by
    intro hs
    cases title with
    | none => simp at hs
    | some t => exact pn_title_ne cfg o.title t ht
  generalize pnChildW cfg o (panelInner cfg.cw cfg.v p c) title w = cwid at hout hle
  subst hout
  constructor
  · apply pna_fits_bound cfg hcw hp htc box hnn hnar' title _ cwid _ _ _ _ o
    · split <;> omega
    · cases hs : title.isSome with
      | true =>
        have := htne hs
        simp only [hs, if_true, this, if_false] at hle ⊢
        omega
      | false =>
        simp only [hs, Bool.false_eq_true, if_false] at hle
        split <;> omega
    · intro hs
      have := htne hs
      simp only [this, if_false]
      omega
  · rw [show ∀ (X : List Seg) (s : Seg), X ++ [s, nl] = (X ++ [s]) ++ [nl] by intro X s; simp]
    exact closed_snoc_nl _

end RichModel.Layout
