import RichModel.Lemmas.TextSplit
/-!
The released last-line rule of `split` (`text.endswith(separator)`) agrees with the repaired one (last line
blank) for every separator that does not overlap itself.
-/
namespace RichModel
namespace Text
variable {σ : Type}

/-- `sep` has no proper border: no proper non-empty suffix of it is also a prefix (it cannot overlap itself) -/
def Unbordered (sep : List Char) : Prop := ∀ k, 0 < k → k < sep.length → sep.drop (sep.length - k) ≠ sep.take k

/-- no occurrence of `sep` starts in `[lo, hi)` -/
def NoOcc (sep s : List Char) (lo hi : Nat) : Prop := ∀ p, lo ≤ p → p < hi → sep.isPrefixOf (s.drop p) = false

/-- leftmost non-overlapping occurrences, with the full "nothing was skipped" clause -/
def StrongMs (sep s : List Char) : Nat → List (Nat × Nat) → Prop
  | start, [] => ∀ hi, NoOcc sep s start hi
  | start, m :: rest =>
    start ≤ m.1 ∧ m.2 = m.1 + sep.length ∧ m.2 ≤ s.length ∧ NoOcc sep s start m.1 ∧
      (s.drop m.1).take sep.length = sep ∧ StrongMs sep s m.2 rest

theorem strongMs_weaken (sep s : List Char) (p : Nat) (ms : List (Nat × Nat))
    (hnp : sep.isPrefixOf (s.drop p) = false) (h : StrongMs sep s (p + 1) ms) : StrongMs sep s p ms := by
  have ext : ∀ hi, NoOcc sep s (p + 1) hi → NoOcc sep s p hi := by
    intro hi hno q hq1 hq2
    by_cases hqp : q = p
    · subst hqp; exact hnp
    · exact hno q (by omega) hq2
  cases ms with
  | nil => exact fun hi => ext hi (h hi)
  | cons m rest =>
    obtain ⟨h1, h2, h3, h4, h5, h6⟩ := h
    exact ⟨by omega, h2, h3, ext _ h4, h5, h6⟩

theorem findAllAux_strong (sep : List Char) (hsep : 0 < sep.length) (plain : List Char) :
    ∀ (s : List Char) (pos skip : Nat), plain.drop pos = s → skip ≤ s.length → pos + s.length = plain.length →
      StrongMs sep plain (pos + skip) (findAllAux sep s pos skip)
  | [], pos, skip, hs, hk, hn => by
    have : skip = 0 := by simpa using hk
    subst this
    simp only [findAllAux, StrongMs, Nat.add_zero]
    intro hi q hq _
    have : plain.drop q = [] := List.drop_eq_nil_of_le (by simp at hn; omega)
    rw [this]
    cases sep with
    | nil => simp at hsep
    | cons _ _ => rfl
  | c :: rest, pos, skip, hs, hk, hn => by
    have hrest : plain.drop (pos + 1) = rest := by
      have := congrArg (List.drop 1) hs
      simpa [List.drop_drop, Nat.add_comm] using this
    have hn' : pos + 1 + rest.length = plain.length := by simp at hn; omega
    unfold findAllAux
    split
    · rename_i hskip
      have := findAllAux_strong sep hsep plain rest (pos + 1) (skip - 1) hrest (by simp at hk; omega) hn'
      have he : pos + 1 + (skip - 1) = pos + skip := by omega
      rw [he] at this; exact this
    · rename_i hskip
      have h0 : skip = 0 := by omega
      subst h0
      split
      · rename_i hpre
        have hp := List.isPrefixOf_iff_prefix.mp hpre
        have hle : sep.length ≤ (c :: rest).length := hp.length_le
        have ih := findAllAux_strong sep hsep plain rest (pos + 1) (sep.length - 1) hrest (by simp at hle; omega) hn'
        have he : pos + 1 + (sep.length - 1) = pos + sep.length := by omega
        rw [he] at ih
        refine ⟨by omega, rfl, by simp at hle hn; omega, ?_, ?_, ih⟩
        · intro q hq1 hq2; simp only [Nat.add_zero] at hq1; omega
        · simp only [hs]
          exact (List.prefix_iff_eq_take.mp hp).symm
      · rename_i hpre
        have ih := findAllAux_strong sep hsep plain rest (pos + 1) 0 hrest (Nat.zero_le _) hn'
        simp only [Nat.add_zero] at ih ⊢
        exact strongMs_weaken sep plain pos _ (by rw [hs]; exact Bool.eq_false_iff.2 hpre) ih

theorem findAll_strong (sep plain : List Char) (hsep : 0 < sep.length) : StrongMs sep plain 0 (findAll sep plain) := by
  have := findAllAux_strong sep hsep plain plain 0 0 rfl (Nat.zero_le _) (by simp)
  simpa [findAll] using this

/-- end of the last match (or `start`) -/
def lastEnd (start : Nat) : List (Nat × Nat) → Nat
  | [] => start
  | m :: rest => lastEnd m.2 rest

/-- two occurrences of `sep` at distance `0 < d < |sep|` give `sep` a border -/
theorem overlap_border (sep s : List Char) (a d : Nat) (hd : 0 < d) (hdm : d < sep.length)
    (h1 : (s.drop a).take sep.length = sep) (h2 : (s.drop (a + d)).take sep.length = sep) :
    sep.drop d = sep.take (sep.length - d) := by
  have e1 : sep.drop d = (s.drop (a + d)).take (sep.length - d) := by
    have : sep.drop d = ((s.drop a).take sep.length).drop d := by rw [h1]
    rw [this, List.drop_take, List.drop_drop]
  have e2 : sep.take (sep.length - d) = (s.drop (a + d)).take (sep.length - d) := by
    have : sep.take (sep.length - d) = ((s.drop (a + d)).take sep.length).take (sep.length - d) := by rw [h2]
    rw [this, List.take_take, Nat.min_eq_left (by omega)]
  rw [e1, e2]

/-- with the matches of an unbordered separator: the text ends with the separator iff nothing follows the last match -/
theorem suffix_iff_lastEnd (sep s : List Char) (hsep : 0 < sep.length) (hub : Unbordered sep) :
    ∀ (ms : List (Nat × Nat)) (start : Nat) (prevOcc : start = 0 ∨ (sep.length ≤ start ∧ (s.drop (start - sep.length)).take sep.length = sep)),
      start ≤ s.length → StrongMs sep s start ms → (ms ≠ [] ∨ start ≠ 0) →
      (sep.isSuffixOf s = true ↔ s.drop (lastEnd start ms) = [])
  | [], start, prev, hsl, hst, hne => by
    simp only [lastEnd]
    have hstart : start ≠ 0 := by rcases hne with h | h; exact absurd rfl h; exact h
    rcases prev with h0 | ⟨hle, hocc⟩
    · exact absurd h0 hstart
    · constructor
      · intro hsuf
        obtain ⟨pre, hpre⟩ := List.isSuffixOf_iff_suffix.mp hsuf
        have hlen : s.length = pre.length + sep.length := by rw [← hpre]; simp
        -- the occurrence at the very end
        have hoccEnd : (s.drop pre.length).take sep.length = sep := by
          rw [← hpre, List.drop_left]; simp
        by_cases hge : start ≤ pre.length
        · -- it would start in the final gap
          have := hst (pre.length + 1) pre.length hge (by omega)
          have hp : sep.isPrefixOf (s.drop pre.length) = true := by
            rw [List.isPrefixOf_iff_prefix, ← hpre, List.drop_left]
            exact List.prefix_refl _
          rw [hp] at this; cases this
        · -- it overlaps the previous occurrence (at start - |sep|)
          by_cases heq : pre.length + sep.length = start
          · apply List.drop_eq_nil_of_le; omega
          · exfalso
            have hd1 : start - sep.length < pre.length := by omega
            have := overlap_border sep s (start - sep.length) (pre.length - (start - sep.length)) (by omega) (by omega) hocc
              (by rw [show start - sep.length + (pre.length - (start - sep.length)) = pre.length by omega]; exact hoccEnd)
            have hk := hub (sep.length - (pre.length - (start - sep.length))) (by omega) (by omega)
            apply hk
            rw [show sep.length - (sep.length - (pre.length - (start - sep.length))) = pre.length - (start - sep.length) by omega]
            exact this
      · intro hnil
        have hlen : s.length ≤ start := by
          have := congrArg List.length hnil; simp at this; omega
        have he : start = s.length := by omega
        rw [List.isSuffixOf_iff_suffix]
        refine ⟨s.take (start - sep.length), ?_⟩
        have : (s.drop (start - sep.length)).take sep.length = s.drop (start - sep.length) := by
          apply List.take_of_length_le; simp; omega
        rw [this] at hocc
        have := List.take_append_drop (start - sep.length) s
        rw [hocc] at this
        exact this
  | m :: rest, start, prev, hsl, hst, _ => by
    obtain ⟨h1, h2, h3, _, h5, h6⟩ := hst
    simp only [lastEnd]
    exact suffix_iff_lastEnd sep s hsep hub rest m.2
      (Or.inr ⟨by omega, by rw [show m.2 - sep.length = m.1 by omega]; exact h5⟩) h3 h6 (Or.inr (by omega))

theorem getLastD_cons {α : Type} (x : α) (xs : List α) (a b : α) :
    (x :: xs).getLast?.getD a = (x :: xs).getLast?.getD b := by
  cases hgl : (x :: xs).getLast? with
  | none => simp at hgl
  | some y => rfl

theorem piecesFrom_getLast {α : Type} (l : List α) : ∀ (offs : List Nat) (start : Nat),
    (piecesFrom start offs l).getLast? = some (l.drop (offs.getLast?.getD start))
  | [], start => by simp [piecesFrom]
  | o :: os, start => by
    simp only [piecesFrom]
    rw [List.getLast?_cons_of_ne_nil (by cases os <;> simp [piecesFrom]), piecesFrom_getLast l os o]
    cases os with
    | nil => rfl
    | cons x xs => rw [List.getLast?_cons_cons, getLastD_cons x xs o start]

theorem betweenFrom_getLast {α : Type} (l : List α) : ∀ (ms : List (Nat × Nat)) (start : Nat),
    (betweenFrom start ms l).getLast? = some (l.drop (lastEnd start ms))
  | [], start => by simp [betweenFrom, lastEnd]
  | m :: rest, start => by
    simp only [betweenFrom, lastEnd]
    rw [List.getLast?_cons_of_ne_nil (by cases rest <;> simp [betweenFrom]), betweenFrom_getLast l rest m.2]

theorem lastEnd_eq : ∀ (ms : List (Nat × Nat)) (start : Nat),
    lastEnd start ms = (ms.map (·.2)).getLast?.getD start
  | [], _ => rfl
  | m :: rest, start => by
    simp only [lastEnd, List.map_cons]
    rw [lastEnd_eq rest m.2]
    cases rest with
    | nil => rfl
    | cons x xs => simp only [List.map_cons]; rw [List.getLast?_cons_cons, getLastD_cons _ _ m.2 start]

theorem lastBlank_eq (sep plain tail : List Char) (lines : List (Text σ))
    (hkey : sep.isSuffixOf plain = true ↔ tail = [])
    (hpl : (lines.map (·.plain)).getLast? = some tail) :
    (match lines.getLast? with | some l => l.plain.isEmpty | none => false) = sep.isSuffixOf plain := by
  rw [List.getLast?_map] at hpl
  cases hgl : lines.getLast? with
  | none => rw [hgl] at hpl; simp at hpl
  | some l =>
    rw [hgl] at hpl
    simp only [Option.map_some, Option.some.injEq] at hpl
    simp only []
    rw [hpl]
    cases tail with
    | nil => rw [hkey.2 rfl]; rfl
    | cons x xs =>
      have : sep.isSuffixOf plain = false := Bool.eq_false_iff.2 (fun hx => by have := hkey.1 hx; cases this)
      rw [this]; rfl

/-- **Today's `split` = the repaired `split` for every separator that does not overlap itself** (any single
character, `"ab"`, `", "`, …): the two last-line rules pick the same lines. -/
theorem splitW_released_eq [BEq σ] (t : Text σ) (sep : List Char) (incl blank : Bool) (h : Inv t) (hub : Unbordered sep) :
    Text.splitW true Variant.repaired t sep incl blank = Text.splitW false Variant.repaired t sep incl blank := by
  cases hs : sep with
  | nil => rfl
  | cons c cs =>
    rw [← hs]
    have hsepne : sep ≠ [] := by rw [hs]; simp
    have hlen : 0 < sep.length := List.length_pos_iff.2 hsepne
    have hne : sep.isEmpty = false := by rw [hs]; rfl
    unfold Text.splitW
    simp only [hne, Bool.false_eq_true, if_false]
    by_cases hms : (findAll sep t.plain).isEmpty = true
    · simp only [hms, if_true]
    · simp only [hms, Bool.false_eq_true, if_false, if_true]
      have hmsne : findAll sep t.plain ≠ [] := by
        intro e; rw [e] at hms; simp at hms
      have hkey : sep.isSuffixOf t.plain = true ↔ t.plain.drop (lastEnd 0 (findAll sep t.plain)) = [] :=
        suffix_iff_lastEnd sep t.plain hlen hub _ 0 (Or.inl rfl) (Nat.zero_le _) (findAll_strong sep t.plain hlen) (Or.inl hmsne)
      obtain ⟨hasc, hb⟩ := Wrap.findAllAux_asc sep hlen t.plain 0 0
      simp only [Nat.add_zero, Nat.zero_add] at hasc hb
      cases incl with
      | true =>
        simp only [if_true]
        obtain ⟨lines, hdiv, _, hplain, _⟩ :=
          divide_view t ((findAll sep t.plain).map (·.2)) h (ascFrom_ends _ 0 hasc)
            (by
              intro o ho
              obtain ⟨m, hm, rfl⟩ := List.mem_map.1 ho
              exact hb m.2 (List.mem_flatMap.2 ⟨m, hm, by simp⟩))
        rw [hdiv]
        simp only [bind, Except.bind]
        have e := lastBlank_eq sep t.plain _ lines hkey (by rw [hplain, pieces, piecesFrom_getLast, lastEnd_eq])
        cases hgl : lines.getLast? <;> simp only [hgl] at e ⊢ <;> rw [← e]
      | false =>
        simp only [Bool.false_eq_true, if_false]
        obtain ⟨lines, hdiv, hview, hplain, _⟩ :=
          divide_view t ((findAll sep t.plain).flatMap (fun m => [m.1, m.2])) h hasc hb
        rw [hdiv]
        simp only [bind, Except.bind, pure, Except.pure]
        obtain ⟨_, b2⟩ := filter_between sep hlen t (findAll sep t.plain) 0 lines (findAll_good sep t.plain hlen) hplain hview
        have e := lastBlank_eq sep t.plain _ (lines.filter (fun line => line.plain != sep)) hkey (by rw [b2, betweenFrom_getLast])
        cases hgl : (lines.filter (fun line => line.plain != sep)).getLast? <;> simp only [hgl] at e ⊢ <;> rw [← e]

end Text
end RichModel
