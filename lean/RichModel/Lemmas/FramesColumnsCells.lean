import RichModel.Model.Layout
import RichModel.Lemmas.FramesColumns
/-!
`Columns` down to the rendered cells: the composition layer (`Model/Layout.lean`, C01) renders `Columns` as the inner
`Table.grid` of `Model/Table.lean` (C07) whose cell at row `r`, column `j` IS the oracle of the item the layout of
`Model/FramesColumns.lean` (C08) puts there (wrapped in `Constrain` / `Align` as the options ask) — or the blank text.
-/
namespace RichModel.Layout
open RichModel RichModel.Frames

/-- the renderable `Columns` stores in a grid cell: the blank `""` or the item wrapped as `equal` / `align` ask -/
def colsCell (cfg : Cfg) (o : ColsOpts) (items : List Ch) (w : Nat) (x : Option Nat) : Ch :=
  let measured := items.map (fun c => (c.measureAt (w : Int)).maximum)
  let w0 := listMax measured
  match x with
  | none => textChild cfg (emptyText cfg) ({} : ColOpts).cellOpts
  | some i =>
    let c := items.getD i dfltCh
    let c := if o.lay.equal then constrainChild (some w0) c else c
    match o.align with
    | some a => alignChild cfg.cw cfg.env cfg.v { align := a } c
    | none => c

/-- the columns of the inner grid for a layout -/
def colsGrid (cfg : Cfg) (o : ColsOpts) (items : List Ch) (w : Nat) (lay : ColumnsLayout) : List ColS :=
  (List.range lay.columnCount).map (fun j =>
    { o := { width := o.lay.width.map Int.toNat },
      header := textChild cfg (emptyText cfg) ({} : ColOpts).cellOpts,
      footer := textChild cfg (emptyText cfg) ({} : ColOpts).cellOpts,
      cells := lay.rows.map (fun row => colsCell cfg o items w (row.getD j none)) })

/-- `Columns.__rich_console__` is the rendering of that grid -/
theorem columnsConsole_eq_grid (cfg : Cfg) (o : ColsOpts) (opts : Opts) (items : List Ch) (w : Nat) (p : PadDims)
    (lay : ColumnsLayout) (hp : unpackPad o.lay.padding = .ok p)
    (hlay : columnsLayout cfg.v o.lay (items.map (fun c => (c.measureAt (w : Int)).maximum)) (w : Int) = .ok (some lay)) :
    columnsConsole cfg o opts items w = tableConsole cfg (o.grid p) opts (colsGrid cfg o items w lay) w := by
  unfold columnsConsole
  simp only [hp, hlay]
  rfl

/-- the cell of the grid at row `r`, column `j` -/
theorem colsGrid_cell (cfg : Cfg) (o : ColsOpts) (items : List Ch) (w : Nat) (lay : ColumnsLayout) (j r : Nat)
    (hj : j < lay.columnCount) (hr : r < lay.rows.length) :
    ∃ col, (colsGrid cfg o items w lay)[j]? = some col ∧ col.cells.length = lay.rows.length ∧
      col.cells[r]? = some (colsCell cfg o items w ((lay.rows.getD r []).getD j none)) := by
  have hlen : j < (colsGrid cfg o items w lay).length := by simp [colsGrid, hj]
  refine ⟨(colsGrid cfg o items w lay)[j], List.getElem?_eq_getElem hlen, ?_, ?_⟩
  · simp [colsGrid]
  · simp only [colsGrid, List.getElem_map, List.getElem_range, List.getElem?_map, List.getElem?_eq_getElem hr, Option.map_some]
    simp [List.getD_eq_getElem?_getD, List.getElem?_eq_getElem hr]

theorem colsGrid_length (cfg : Cfg) (o : ColsOpts) (items : List Ch) (w : Nat) (lay : ColumnsLayout) :
    (colsGrid cfg o items w lay).length = lay.columnCount := by simp [colsGrid]

end RichModel.Layout
