import RichModel.Lemmas.Ratio
/-!
`Table._collapse_widths` never widens a column: pointwise, every collapsed width is at most the width it started from.
-/
namespace RichModel

/-- What `collapseStep` computes, as a `ratio_reduce` loop over explicit items. -/
theorem collapseStep_unfold (widths : List Int) (wrapable : List Bool) (maxWidth : Int)
    (hlen : widths.length = wrapable.length) (hnn : ∀ w ∈ widths, 0 ≤ w) (w' : List Int)
    (h : collapseStep widths wrapable maxWidth = some w') :
    ∃ (items : List (Int × Int × Int)) (tr : Int), w' = ratioReduceLoop items (widths.sum - maxWidth) tr ∧
      rrValues items = widths ∧ tr = (rrRatios items).sum ∧ (∀ it ∈ items, 0 ≤ it.1 ∧ 0 ≤ it.2.1) ∧ 0 ≤ widths.sum - maxWidth ∧
      ∃ (M S m : Int), M = listMax (((widths.zip wrapable).filter (·.2)).map (·.1)) ∧
        S = listMax ((widths.zip wrapable).map (fun p => if p.2 && p.1 != M then p.1 else 0)) ∧
        m = min (widths.sum - maxWidth) (M - S) ∧ 1 ≤ m ∧ S ≤ M ∧
        items = (widths.zip wrapable).map (fun z => ((if z.1 == M && z.2 then (1:Int) else 0), m, z.1)) := by
  unfold collapseStep at h
  simp only at h
  split at h
  · rename_i hcond
    simp only [Bool.and_eq_true, bne_iff_ne, ne_eq, decide_eq_true_eq] at hcond
    split at h
    · exact absurd h (by simp)
    · rename_i hbrk
      simp only [Bool.or_eq_true, Bool.not_eq_true', beq_iff_eq, not_or, Bool.not_eq_false] at hbrk
      obtain ⟨hany, hdiff⟩ := hbrk
      injection h with h
      generalize hz : widths.zip wrapable = zs at *
      generalize hmc : listMax ((zs.filter (·.2)).map (·.1)) = maxColumn at *
      generalize hsm : listMax (zs.map (fun p => if p.2 && p.1 != maxColumn then p.1 else 0)) = secondMax at *
      have hzlen : zs.length = widths.length := by rw [← hz]; simp [hlen]
      have hzw : zs.map (·.1) = widths := by rw [← hz]; exact map_fst_zip _ _ hlen
      have hznn : ∀ z ∈ zs, 0 ≤ z.1 := by
        intro z hzm; rw [← hz] at hzm; exact hnn _ (List.of_mem_zip hzm).1
      have hmcge : ∀ z ∈ zs, z.2 = true → z.1 ≤ maxColumn := by
        intro z hzm hb
        rw [← hmc]
        apply listMax_ge
        simp only [List.mem_map, List.mem_filter]
        exact ⟨z, ⟨hzm, hb⟩, rfl⟩
      have hsmle : secondMax ≤ maxColumn := by
        rw [← hsm]
        cases hzs : zs with
        | nil =>
          simp only [List.any_eq_true, List.mem_map] at hany
          obtain ⟨x, ⟨q, hq, _⟩, _⟩ := hany
          rw [hzs] at hq; simp at hq
        | cons a r =>
          have hm := listMax_mem ((a :: r).map (fun p => if p.2 && p.1 != maxColumn then p.1 else 0)) (by simp)
          simp only [List.mem_map] at hm
          obtain ⟨q, hq, hqe⟩ := hm
          rw [← hqe]
          split
          · rename_i hc
            simp only [Bool.and_eq_true] at hc
            exact hmcge q (by rw [hzs]; exact hq) hc.1
          · simp only [List.any_eq_true, List.mem_map] at hany
            obtain ⟨x, ⟨q', hq', hq'e⟩, hx⟩ := hany
            have : (q'.1 == maxColumn && q'.2) = true := by
              by_cases hh : (q'.1 == maxColumn && q'.2) = true
              · exact hh
              · simp [hh] at hq'e; subst hq'e; simp at hx
            simp only [Bool.and_eq_true, beq_iff_eq] at this
            have := hznn q' hq'
            omega
      generalize hm : min (widths.sum - maxWidth) (maxColumn - secondMax) = m at *
      have hm1 : 1 ≤ m := by omega
      unfold ratioReduce at h
      have hrl : (zs.map (fun p => if p.1 == maxColumn && p.2 then (1:Int) else 0)).length = widths.length := by
        simp [hzlen]
      rw [← hrl] at h
      simp only at h
      rw [mask_replicate _ m (by omega)] at h
      have hrnn : ∀ r ∈ zs.map (fun p => if p.1 == maxColumn && p.2 then (1:Int) else 0), 0 ≤ r := by
        intro r hr; simp only [List.mem_map] at hr; obtain ⟨q, _, rfl⟩ := hr; split <;> omega
      have htr0 : 0 < (zs.map (fun p => if p.1 == maxColumn && p.2 then (1:Int) else 0)).sum := by
        have h0 := sum_nonneg_of_all _ hrnn
        rcases Int.lt_or_eq_of_le h0 with hlt | heq
        · exact hlt
        · exfalso
          have hz0 := all_zero_of_sum_zero' _ hrnn heq.symm
          simp only [List.any_eq_true] at hany
          obtain ⟨x, hx, hxne⟩ := hany
          have := hz0 x hx
          simp [this] at hxne
      have hne : ((zs.map (fun p => if p.1 == maxColumn && p.2 then (1:Int) else 0)).sum == 0) = false := by
        rw [beq_eq_false_iff_ne]; omega
      simp only [hne, Bool.false_eq_true, if_false] at h
      rw [show (List.map (fun p => if p.1 == maxColumn && p.2 then (1:Int) else 0) zs).length = zs.length by simp] at h
      rw [← hzw] at h
      rw [zip_map_triple zs (fun p => if p.1 == maxColumn && p.2 then (1:Int) else 0) (·.1) m] at h
      refine ⟨zs.map (fun z => ((if z.1 == maxColumn && z.2 then (1:Int) else 0), m, z.1)),
        (zs.map (fun p => if p.1 == maxColumn && p.2 then (1:Int) else 0)).sum, ?_, ?_, ?_, ?_, by omega,
        maxColumn, secondMax, m, rfl, hsm.symm, hm.symm, hm1, hsmle, rfl⟩
      · rw [hzw] at h; exact h.symm
      · rw [← hzw]; simp [rrValues]
      · simp only [rrRatios, List.map_map]; rfl
      · intro it hit; simp only [List.mem_map] at hit
        obtain ⟨q, _, rfl⟩ := hit
        simp only; refine ⟨by split <;> omega, by omega⟩
  · exact absurd h (by simp)

/-- pointwise `≤` between two lists of the same length -/
def ListLe (a b : List Int) : Prop := a.length = b.length ∧ ∀ p ∈ a.zip b, p.1 ≤ p.2

theorem ListLe.refl (a : List Int) : ListLe a a := by
  refine ⟨rfl, ?_⟩
  intro p hp
  induction a with
  | nil => simp at hp
  | cons x xs ih =>
    simp only [List.zip_cons_cons, List.mem_cons] at hp
    rcases hp with rfl | hp
    · exact Int.le_refl _
    · exact ih hp

theorem ListLe.trans : ∀ {a b c : List Int}, ListLe a b → ListLe b c → ListLe a c
  | [], [], [], _, _ => ⟨rfl, by simp⟩
  | [], [], _ :: _, _, h => by simp [ListLe] at h
  | [], _ :: _, _, h, _ => by simp [ListLe] at h
  | _ :: _, [], _, h, _ => by simp [ListLe] at h
  | _ :: _, _ :: _, [], _, h => by simp [ListLe] at h
  | x :: a, y :: b, z :: c, h1, h2 => by
    have h1' : ListLe a b := ⟨by have := h1.1; simpa using this, fun p hp => h1.2 p (by simp [hp])⟩
    have h2' : ListLe b c := ⟨by have := h2.1; simpa using this, fun p hp => h2.2 p (by simp [hp])⟩
    have ih := ListLe.trans h1' h2'
    have hxy := h1.2 (x, y) (by simp)
    have hyz := h2.2 (y, z) (by simp)
    refine ⟨by simp [ih.1], ?_⟩
    intro p hp
    simp only [List.zip_cons_cons, List.mem_cons] at hp
    rcases hp with rfl | hp
    · simp only at hxy hyz ⊢; omega
    · exact ih.2 p hp

theorem ListLe.getElem {a b : List Int} (h : ListLe a b) (i : Nat) (hi : i < a.length) : a[i] ≤ b[i]'(by rw [← h.1]; exact hi) := by
  have := h.2 (a[i], b[i]'(by rw [← h.1]; exact hi)) (by
    rw [List.mem_iff_getElem]
    exact ⟨i, by simp; have := h.1; omega, by simp⟩)
  exact this

theorem collapseStep_le (widths : List Int) (wrapable : List Bool) (maxWidth : Int)
    (hlen : widths.length = wrapable.length) (hnn : ∀ w ∈ widths, 0 ≤ w) (w' : List Int)
    (h : collapseStep widths wrapable maxWidth = some w') : ListLe w' widths := by
  obtain ⟨items, tr, hw', hv, htr, hpos, hex, _⟩ := collapseStep_unfold widths wrapable maxWidth hlen hnn w' h
  obtain ⟨blen, _, _, bpt⟩ := ratioReduceLoop_bounds items (widths.sum - maxWidth) tr hpos htr hex
  rw [← hw'] at blen bpt
  have hil : items.length = widths.length := by rw [← hv]; simp [rrValues]
  refine ⟨by omega, ?_⟩
  intro p hp
  -- p = (w'_i, widths_i); widths = items.map value
  rw [← hv] at hp
  simp only [rrValues] at hp
  rw [List.zip_map_right] at hp
  simp only [List.mem_map] at hp
  obtain ⟨q, hq, rfl⟩ := hp
  have hq' : (q.2, q.1) ∈ items.zip w' := by
    rw [List.mem_iff_getElem] at hq ⊢
    obtain ⟨i, hi, hqi⟩ := hq
    simp only [List.length_zip] at hi
    refine ⟨i, by simp only [List.length_zip]; omega, ?_⟩
    rw [List.getElem_zip] at hqi ⊢
    rw [← hqi]
  exact (bpt (q.2, q.1) hq').2

theorem collapseLoop_le (wrapable : List Bool) (maxWidth : Int) :
    ∀ (fuel : Nat) (widths : List Int), widths.length = wrapable.length → (∀ w ∈ widths, 0 ≤ w) →
      ListLe (collapseLoop fuel widths wrapable maxWidth) widths
  | 0, widths, _, _ => by unfold collapseLoop; exact ListLe.refl _
  | fuel+1, widths, hlen, hnn => by
    unfold collapseLoop
    cases hs : collapseStep widths wrapable maxWidth with
    | none => exact ListLe.refl _
    | some w' =>
      simp only
      obtain ⟨l1, l2, _, _⟩ := collapseStep_some widths wrapable maxWidth hlen hnn w' hs
      exact ListLe.trans (collapseLoop_le wrapable maxWidth fuel w' (by omega) l2) (collapseStep_le widths wrapable maxWidth hlen hnn w' hs)

/-- **`_collapse_widths` never widens a column.** -/
theorem collapseWidths_le (widths : List Int) (wrapable : List Bool) (maxWidth : Int)
    (hlen : widths.length = wrapable.length) (hnn : ∀ w ∈ widths, 0 ≤ w) :
    ListLe (collapseWidths widths wrapable maxWidth) widths := by
  unfold collapseWidths
  split
  · exact collapseLoop_le wrapable maxWidth _ widths hlen hnn
  · exact ListLe.refl _

end RichModel
