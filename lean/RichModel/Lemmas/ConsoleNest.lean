import RichModel.Lemmas.Console
/-!
Arbitrarily nested capture blocks and `with console:` blocks: the console model refines a *specification machine*
whose state is a stack of frames, one per open capture block, each holding exactly the segments appended directly
inside that block, plus the number of open `with console:` levels and the segments they hold back.
-/
namespace RichModel.Console
open RichModel

variable {σ : Type}

/-- `export_text` / `export_html`. -/
def isExport : Op σ → Bool
  | .exportText _ _ => true
  | .exportHtml _ _ _ => true
  | _ => false

/-- Specification state.
* `frames`: the open capture blocks (innermost first), each with the segments appended directly inside it and not
  yet returned;
* `ctx`: how many `with console:` blocks are open;
* `base`: segments appended outside every capture block while a `with console:` block is open — held back until
  the depth returns to zero;
* the record and the file. -/
structure Spec (σ : Type) where
  frames : List (List (Segment σ)) := []
  ctx : Nat := 0
  base : List (Segment σ) := []
  record : List (Segment σ) := []
  file : List (List (Piece σ)) := []

variable [BEq σ]

/-- An export as a function of the record alone: (record afterwards, value returned). -/
def exportStep (v : Variant) (cfg : Config) (env : StyleEnv σ) (record : List (Segment σ)) (op : Op σ) :
    List (Segment σ) × Out :=
  let r := step v cfg env { record := record } op
  (r.1.record, r.2)

/-- When no block of either kind is open, what was held back is written to the file and recorded. -/
def Spec.settle (cfg : Config) (env : StyleEnv σ) (sp : Spec σ) : Spec σ :=
  if sp.frames.isEmpty && sp.ctx == 0 then
    { sp with base := [], record := if cfg.record then sp.record ++ sp.base else sp.record,
              file := sp.file ++ written cfg env [sp.base] }
  else sp

/-- The specification of one operation:
* `begin_capture` opens an empty frame; `end_capture` closes the innermost frame and returns the rendering of
  *that frame only*;
* entering `with console:` raises `ctx`, leaving it lowers `ctx`;
* an export acts on the record;
* any other operation appends what it renders to the innermost frame if there is one — and then nothing reaches
  the file or the record — and otherwise to `base`;
* after every step that may bring the depth to zero, `settle`. -/
def specStep (v : Variant) (cfg : Config) (env : StyleEnv σ) (sp : Spec σ) (op : Op σ) : Spec σ × Out :=
  match op with
  | .beginCapture => ({ sp with frames := [] :: sp.frames }, .none)
  | .endCapture =>
    match sp.frames with
    | f :: rest => (Spec.settle cfg env { sp with frames := rest }, .captured (flat (renderPieces cfg env f)))
    | [] => (sp, .captured [])   -- no block is open: outside the specification (see `capture_nesting`, part B)
  | .enterBuffer => ({ sp with ctx := sp.ctx + 1 }, .none)
  | .exitBuffer => (Spec.settle cfg env { sp with ctx := sp.ctx - 1 }, .none)
  | op =>
    if isExport op then
      let r := exportStep v cfg env sp.record op
      ({ sp with record := r.1 }, r.2)
    else
      match sp.frames with
      | f :: rest => ({ sp with frames := (f ++ appended cfg op) :: rest }, .none)
      | [] => (Spec.settle cfg env { sp with base := sp.base ++ appended cfg op }, .none)

def specRun (v : Variant) (cfg : Config) (env : StyleEnv σ) : List (Op σ) → Spec σ → Spec σ × List Out
  | [], sp => (sp, [])
  | op :: rest, sp =>
    let r := specStep v cfg env sp op
    let r2 := specRun v cfg env rest r.1
    (r2.1, r.2 :: r2.2)

/-- The `capture_starts` stack that corresponds to a stack of frames (innermost first) lying after `b` held-back
segments: each block starts where the frames below it end. -/
def marksOf (b : Nat) : List (List (Segment σ)) → List Nat
  | [] => []
  | _ :: rest => (b + (rest.reverse.flatten).length) :: marksOf b rest

/-- The model state `s` represents the specification state `sp`: the depth is the number of open blocks of both
kinds, the thread buffer is the held-back segments followed by the frames laid end to end (outermost first), the
marks are the frame boundaries; and nothing is held back when no block is open. -/
structure Rel (s : State σ) (sp : Spec σ) : Prop where
  index : s.index = ((sp.frames.length + sp.ctx : Nat) : Int)
  buffer : s.buffer = sp.base ++ sp.frames.reverse.flatten
  marks : s.marks = marksOf sp.base.length sp.frames
  record : s.record = sp.record
  file : s.file = sp.file
  idle : sp.frames = [] → sp.ctx = 0 → sp.base = []

theorem Rel.init : Rel ({} : State σ) ({} : Spec σ) := ⟨rfl, rfl, rfl, rfl, rfl, fun _ _ => rfl⟩

/-- Brackets of both kinds are never closed more often than opened (`nf` open capture blocks, `nc` open
`with console:` blocks). -/
def wellBracketed : Nat → Nat → List (Op σ) → Bool
  | _, _, [] => true
  | nf, nc, .beginCapture :: rest => wellBracketed (nf + 1) nc rest
  | nf, nc, .endCapture :: rest => nf != 0 && wellBracketed (nf - 1) nc rest
  | nf, nc, .enterBuffer :: rest => wellBracketed nf (nc + 1) rest
  | nf, nc, .exitBuffer :: rest => nc != 0 && wellBracketed nf (nc - 1) rest
  | nf, nc, _ :: rest => wellBracketed nf nc rest

/-! ### operations that are neither begin/end nor exports -/

theorem step_plain_out (v : Variant) (cfg : Config) (env : StyleEnv σ) (s : State σ) (op : Op σ)
    (hc : isCapture op = false) (he : isExport op = false) : (step v cfg env s op).2 = .none := by
  cases op with
  | print segs => rfl
  | line c => simp only [step]; split <;> rfl
  | control c => rfl
  | bell => rfl
  | clear b => rfl
  | showCursor b => simp only [step]; split <;> rfl
  | beginCapture => simp [isCapture] at hc
  | endCapture => simp [isCapture] at hc
  | enterBuffer => simp [isCapture] at hc
  | exitBuffer => simp [isCapture] at hc
  | exportText a b => simp [isExport] at he
  | exportHtml a b o => simp [isExport] at he

theorem checkBuffer_outside_record (v : Variant) (cfg : Config) (env : StyleEnv σ) (s : State σ)
    (hv : v.recordInRender = false) (h : s.index = 0) :
    (checkBuffer v cfg env s).record = if cfg.record then s.record ++ s.buffer else s.record := by
  unfold checkBuffer
  have : (s.index == 0) = true := by simpa using h
  cases hr : cfg.record <;> simp [this, renderBuffer, hv, hr]

/-- Outside every block (repaired record placement): what an operation appends is recorded when it is written. -/
theorem step_outside_record (v : Variant) (cfg : Config) (env : StyleEnv σ) (s : State σ) (op : Op σ)
    (hv : v.recordInRender = false) (hi : s.index = 0) (hb : s.buffer = [])
    (hc : isCapture op = false) (he : isExport op = false) :
    (step v cfg env s op).1.record = if cfg.record then s.record ++ appended cfg op else s.record := by
  have hctl : ∀ codes, (Console.control v cfg env s codes).record =
      if cfg.record then s.record ++
        (if !cfg.isDumbTerminal then [{ text := codes, style := none, control := true }] else []) else s.record := by
    intro codes
    unfold Console.control
    split
    · have := checkBuffer_outside_record v cfg env
        { s with buffer := s.buffer ++ [{ text := codes, style := none, control := true }] } hv hi
      simpa [hb] using this
    · simp
  cases op with
  | print segs =>
    simp only [step, appended]
    have e : s.index + 1 - 1 = 0 := by omega
    have := checkBuffer_outside_record v cfg env
      { s with index := s.index + 1 - 1, buffer := s.buffer ++ segs } hv e
    simpa [hb] using this
  | line count =>
    simp only [step, appended]
    split
    · have := checkBuffer_outside_record v cfg env
        { s with buffer := s.buffer ++ [{ text := List.replicate count '\n', style := none, control := false }] } hv hi
      simpa [hb] using this
    · simp
  | control codes => exact hctl codes
  | bell => exact hctl _
  | clear home => exact hctl _
  | showCursor sh =>
    simp only [step, appended]
    split
    · exact hctl _
    · simp
  | beginCapture => simp [isCapture] at hc
  | endCapture => simp [isCapture] at hc
  | enterBuffer => simp [isCapture] at hc
  | exitBuffer => simp [isCapture] at hc
  | exportText clr styles => simp [isExport] at he
  | exportHtml clr inline o => simp [isExport] at he

theorem step_inside_record' (v : Variant) (cfg : Config) (env : StyleEnv σ) (s : State σ) (op : Op σ)
    (hi : s.index ≠ 0) (hc : isCapture op = false) (he : isExport op = false) :
    (step v cfg env s op).1.record = s.record := by
  apply step_inside_record v cfg env s op hi hc
  cases op <;> simp_all [isExport, isClearing]

/-- An export touches nothing but the record, and depends on nothing but the record. -/
theorem step_export (v : Variant) (cfg : Config) (env : StyleEnv σ) (s : State σ) (op : Op σ)
    (he : isExport op = true) :
    (step v cfg env s op).1 = { s with record := (exportStep v cfg env s.record op).1 } ∧
    (step v cfg env s op).2 = (exportStep v cfg env s.record op).2 := by
  cases op <;> simp [isExport] at he
  · simp only [exportStep, step]; split <;> simp
  · simp only [exportStep, step]; split <;> simp

/-! ### the refinement step -/

theorem marksOf_cons (b : Nat) (f : List (Segment σ)) (rest : List (List (Segment σ))) :
    marksOf b (f :: rest) = (b + (rest.reverse.flatten).length) :: marksOf b rest := rfl

theorem frames_flatten_cons (f : List (Segment σ)) (rest : List (List (Segment σ))) :
    (f :: rest).reverse.flatten = rest.reverse.flatten ++ f := by simp

/-- The state after `_check_buffer` represents the settled specification state. -/
theorem checkBuffer_settle (v : Variant) (cfg : Config) (env : StyleEnv σ) (s : State σ) (sp : Spec σ)
    (hv : v.recordInRender = false)
    (hi : s.index = ((sp.frames.length + sp.ctx : Nat) : Int)) (hb : s.buffer = sp.base ++ sp.frames.reverse.flatten)
    (hm : s.marks = marksOf sp.base.length sp.frames) (hr : s.record = sp.record) (hf : s.file = sp.file) :
    Rel (checkBuffer v cfg env s) (Spec.settle cfg env sp) := by
  unfold Spec.settle
  by_cases h0 : (sp.frames.isEmpty && sp.ctx == 0) = true
  · simp only [h0, if_true]
    simp only [Bool.and_eq_true, List.isEmpty_iff, beq_iff_eq] at h0
    obtain ⟨hfr, hc⟩ := h0
    have hi0 : s.index = 0 := by rw [hi, hfr, hc]; rfl
    have hb0 : s.buffer = sp.base := by rw [hb, hfr]; simp
    refine ⟨?_, ?_, ?_, ?_, ?_, fun _ _ => rfl⟩
    · rw [checkBuffer_index, hi0, hfr, hc]; rfl
    · simp only [hfr, List.reverse_nil, List.flatten_nil, List.append_nil]
      exact (checkBuffer_outside v cfg env s hi0).1
    · rw [checkBuffer_marks, hm, hfr]; rfl
    · rw [checkBuffer_outside_record v cfg env s hv hi0, hr, hb0]
    · rw [(checkBuffer_outside v cfg env s hi0).2.2, hf, hb0]
  · have h0' : (sp.frames.isEmpty && sp.ctx == 0) = false := by simpa using h0
    simp only [h0', Bool.false_eq_true, if_false]
    have hne : s.index ≠ 0 := by
      rw [hi]; intro hz
      have hz' : sp.frames.length + sp.ctx = 0 := by exact_mod_cast hz
      have h1 : sp.frames = [] := List.length_eq_zero_iff.mp (by omega)
      have h2 : sp.ctx = 0 := by omega
      simp [h1, h2] at h0'
    rw [checkBuffer_inside _ _ _ _ hne]
    refine ⟨hi, hb, hm, hr, hf, ?_⟩
    intro h1 h2
    simp [h1, h2] at h0'

/-- One operation: the model does what the specification says, provided `end_capture` finds an open capture block
and leaving `with console:` finds an open one. -/
theorem step_refines (v : Variant) (cfg : Config) (env : StyleEnv σ) (s : State σ) (sp : Spec σ) (op : Op σ)
    (hm : v.captureMarks = true) (hv : v.recordInRender = false) (h : Rel s sp)
    (hend : op = .endCapture → sp.frames ≠ []) (hexit : op = .exitBuffer → sp.ctx ≠ 0) :
    (step v cfg env s op).2 = (specStep v cfg env sp op).2 ∧ Rel (step v cfg env s op).1 (specStep v cfg env sp op).1 := by
  by_cases hc : isCapture op = true
  · cases op <;> simp [isCapture] at hc
    · -- begin_capture
      refine ⟨rfl, ?_⟩
      simp only [step, specStep, hm, if_true]
      refine ⟨?_, by simp [h.buffer], ?_, h.record, h.file, fun hf => by simp at hf⟩
      · simp only [h.index, List.length_cons]; push_cast; omega
      · simp [marksOf_cons, h.marks, h.buffer]
    · -- end_capture
      cases hf : sp.frames with
      | nil => exact absurd hf (hend rfl)
      | cons f rest =>
        have hbuf : s.buffer = (sp.base ++ rest.reverse.flatten) ++ f := by
          rw [h.buffer, hf, frames_flatten_cons, List.append_assoc]
        have hlen : sp.base.length + (rest.reverse.flatten).length = (sp.base ++ rest.reverse.flatten).length := by simp
        have hmk : s.marks = (sp.base ++ rest.reverse.flatten).length :: marksOf sp.base.length rest := by
          rw [h.marks, hf, marksOf_cons, hlen]
        simp only [step, specStep, hf, hm, if_true, hmk, List.headD_cons, List.tail_cons, hbuf, List.drop_left,
          List.take_left, renderBuffer, hv, Bool.false_and, Bool.false_eq_true, if_false]
        refine ⟨trivial, ?_⟩
        apply checkBuffer_settle v cfg env _ { sp with frames := rest } hv
        · simp only [h.index, hf, List.length_cons]; push_cast; omega
        · rfl
        · rfl
        · exact h.record
        · exact h.file
    · -- enter `with console:`
      refine ⟨rfl, ?_⟩
      simp only [step, specStep]
      refine ⟨?_, h.buffer, h.marks, h.record, h.file, fun _ hc0 => by simp at hc0⟩
      simp only [h.index]; push_cast; omega
    · -- leave `with console:`
      refine ⟨rfl, ?_⟩
      simp only [step, specStep]
      have hc0 : sp.ctx ≠ 0 := hexit rfl
      apply checkBuffer_settle v cfg env _ { sp with ctx := sp.ctx - 1 } hv
      · simp only [h.index]
        have : sp.frames.length + sp.ctx - 1 = sp.frames.length + (sp.ctx - 1) := by omega
        have h1 : 1 ≤ sp.frames.length + sp.ctx := by omega
        rw [← this]; push_cast [h1]; omega
      · exact h.buffer
      · exact h.marks
      · exact h.record
      · exact h.file
  · have hc' : isCapture op = false := by simpa using hc
    have hspec : specStep v cfg env sp op =
        (if isExport op then
          ({ sp with record := (exportStep v cfg env sp.record op).1 }, (exportStep v cfg env sp.record op).2)
        else
          match sp.frames with
          | f :: rest => ({ sp with frames := (f ++ appended cfg op) :: rest }, .none)
          | [] => (Spec.settle cfg env { sp with base := sp.base ++ appended cfg op }, .none)) := by
      cases op <;> simp_all [isCapture, specStep]
    rw [hspec]
    by_cases he : isExport op = true
    · obtain ⟨h1, h2⟩ := step_export v cfg env s op he
      simp only [he, if_true]
      rw [h1, h2, h.record]
      exact ⟨rfl, ⟨h.index, h.buffer, h.marks, rfl, h.file, h.idle⟩⟩
    · have he' : isExport op = false := by simpa using he
      simp only [he', Bool.false_eq_true, if_false]
      refine ⟨?_, ?_⟩
      · rw [step_plain_out v cfg env s op hc' he']; cases sp.frames <;> rfl
      · cases hf : sp.frames with
        | nil =>
          by_cases hctx : sp.ctx = 0
          · -- outside everything: written at once
            have hbase : sp.base = [] := h.idle hf hctx
            have hi : s.index = 0 := by rw [h.index, hf, hctx]; rfl
            have hb : s.buffer = [] := by rw [h.buffer, hf, hbase]; rfl
            obtain ⟨b1, i1, f1⟩ := step_outside v cfg env s op hi hb hc'
            simp only [Spec.settle, hf, hctx, List.isEmpty_nil, beq_self_eq_true, Bool.and_self, if_true, hbase,
              List.nil_append]
            exact ⟨by rw [i1]; rfl, by simpa using b1, by rw [step_marks v cfg env s op hc', h.marks, hf]; rfl,
              by rw [step_outside_record v cfg env s op hv hi hb hc' he', h.record], by rw [f1, h.file],
              fun _ _ => rfl⟩
          · -- inside `with console:` only: held back
            have hi : s.index ≠ 0 := by rw [h.index, hf]; simp; omega
            obtain ⟨b1, i1, f1⟩ := step_inside v cfg env s op hi hc'
            have hcz : (sp.ctx == 0) = false := by simpa using hctx
            simp only [Spec.settle, hcz, Bool.and_false, Bool.false_eq_true, if_false]
            refine ⟨by rw [i1, h.index, hf], ?_, ?_, ?_, by rw [f1, h.file], fun _ hc0 => absurd hc0 hctx⟩
            · rw [b1, h.buffer, hf]; simp
            · rw [step_marks v cfg env s op hc', h.marks, hf]; rfl
            · rw [step_inside_record' v cfg env s op hi hc' he', h.record]
        | cons f rest =>
          have hi : s.index ≠ 0 := by rw [h.index, hf]; simp; omega
          obtain ⟨b1, i1, f1⟩ := step_inside v cfg env s op hi hc'
          refine ⟨by rw [i1, h.index, hf]; simp, ?_, ?_, ?_, by rw [f1, h.file], fun hnil => by simp at hnil⟩
          · rw [b1, h.buffer, hf]; simp
          · rw [step_marks v cfg env s op hc', h.marks, hf]; rfl
          · rw [step_inside_record' v cfg env s op hi hc' he', h.record]

theorem specStep_counts (v : Variant) (cfg : Config) (env : StyleEnv σ) (sp : Spec σ) (op : Op σ)
    (hc : isCapture op = false) :
    (specStep v cfg env sp op).1.frames.length = sp.frames.length ∧ (specStep v cfg env sp op).1.ctx = sp.ctx := by
  have hset : ∀ x : Spec σ, (Spec.settle cfg env x).frames = x.frames ∧ (Spec.settle cfg env x).ctx = x.ctx := by
    intro x; unfold Spec.settle; split <;> exact ⟨rfl, rfl⟩
  cases op with
  | beginCapture => simp [isCapture] at hc
  | endCapture => simp [isCapture] at hc
  | enterBuffer => simp [isCapture] at hc
  | exitBuffer => simp [isCapture] at hc
  | exportText a b => simp [specStep, isExport]
  | exportHtml a b o => simp [specStep, isExport]
  | print segs => simp only [specStep, isExport]; cases sp.frames <;> simp [hset]
  | line c => simp only [specStep, isExport]; cases sp.frames <;> simp [hset]
  | control c => simp only [specStep, isExport]; cases sp.frames <;> simp [hset]
  | bell => simp only [specStep, isExport]; cases sp.frames <;> simp [hset]
  | clear b => simp only [specStep, isExport]; cases sp.frames <;> simp [hset]
  | showCursor b => simp only [specStep, isExport]; cases sp.frames <;> simp [hset]

/-- Every well-bracketed history (capture blocks and `with console:` blocks never closed more often than opened;
possibly left open; nested and interleaved in any way) — the model's outputs are the specification's and the final
states correspond. -/
theorem run_refines (v : Variant) (cfg : Config) (env : StyleEnv σ) (hm : v.captureMarks = true)
    (hv : v.recordInRender = false) :
    ∀ (ops : List (Op σ)) (s : State σ) (sp : Spec σ), Rel s sp → wellBracketed sp.frames.length sp.ctx ops = true →
      (run v cfg env ops s).2 = (specRun v cfg env ops sp).2 ∧
      Rel (run v cfg env ops s).1 (specRun v cfg env ops sp).1
  | [], s, sp, h, _ => ⟨rfl, h⟩
  | op :: rest, s, sp, h, hw => by
    have hend : op = .endCapture → sp.frames ≠ [] := by
      intro e hf
      subst e
      simp [wellBracketed, hf] at hw
    have hexit : op = .exitBuffer → sp.ctx ≠ 0 := by
      intro e hf
      subst e
      simp [wellBracketed, hf] at hw
    obtain ⟨h1, h2⟩ := step_refines v cfg env s sp op hm hv h hend hexit
    have hset : ∀ x : Spec σ, (Spec.settle cfg env x).frames = x.frames ∧ (Spec.settle cfg env x).ctx = x.ctx := by
      intro x; unfold Spec.settle; split <;> exact ⟨rfl, rfl⟩
    have hw' : wellBracketed (specStep v cfg env sp op).1.frames.length (specStep v cfg env sp op).1.ctx rest = true := by
      by_cases hc : isCapture op = true
      · cases op <;> simp [isCapture] at hc
        · simpa [wellBracketed, specStep] using hw
        · cases hf : sp.frames with
          | nil => exact absurd hf (hend rfl)
          | cons f fr =>
            simp only [wellBracketed, hf, List.length_cons, Bool.and_eq_true] at hw
            simpa [specStep, hf, hset] using hw.2
        · simpa [wellBracketed, specStep] using hw
        · simp only [wellBracketed, Bool.and_eq_true] at hw
          simpa [specStep, hset] using hw.2
      · have hc' : isCapture op = false := by simpa using hc
        obtain ⟨e1, e2⟩ := specStep_counts v cfg env sp op hc'
        rw [e1, e2]
        cases op <;> first | (simpa [wellBracketed] using hw) | (simp [isCapture] at hc')
    obtain ⟨r1, r2⟩ := run_refines v cfg env hm hv rest _ _ h2 hw'
    exact ⟨by simp only [run, specRun, h1, r1], by simpa only [run, specRun] using r2⟩

/-! ### unbalanced sequences: what the code does -/

/-- depth arithmetic for *any* sequence -/
def depthDelta : List (Op σ) → Int
  | [] => 0
  | .beginCapture :: rest => 1 + depthDelta rest
  | .endCapture :: rest => -1 + depthDelta rest
  | .enterBuffer :: rest => 1 + depthDelta rest
  | .exitBuffer :: rest => -1 + depthDelta rest
  | _ :: rest => depthDelta rest

theorem step_index (v : Variant) (cfg : Config) (env : StyleEnv σ) (s : State σ) (op : Op σ) :
    (step v cfg env s op).1.index = s.index + depthDelta [op] := by
  have hctl : ∀ codes, (Console.control v cfg env s codes).index = s.index + 0 := by
    intro codes; unfold Console.control; split
    · rw [checkBuffer_index]; simp
    · simp
  cases op with
  | print segs => simp only [step, checkBuffer_index, depthDelta]; omega
  | line c => simp only [step, depthDelta]; split <;> simp [checkBuffer_index]
  | control c => exact hctl _
  | bell => exact hctl _
  | clear b => exact hctl _
  | showCursor b =>
    simp only [step, depthDelta]; split
    · exact hctl _
    · simp
  | beginCapture => simp only [step, depthDelta]; omega
  | endCapture => simp only [step, checkBuffer_index, depthDelta]; omega
  | enterBuffer => simp only [step, depthDelta]; omega
  | exitBuffer => simp only [step, checkBuffer_index, depthDelta]; omega
  | exportText a b => simp only [step, depthDelta]; split <;> simp
  | exportHtml a b o => simp only [step, depthDelta]; split <;> simp

theorem depthDelta_cons (op : Op σ) (rest : List (Op σ)) : depthDelta (op :: rest) = depthDelta [op] + depthDelta rest := by
  cases op <;> simp [depthDelta]

theorem exec_index (v : Variant) (cfg : Config) (env : StyleEnv σ) (ops : List (Op σ)) (s : State σ) :
    (exec v cfg env ops s).index = s.index + depthDelta ops := by
  induction ops generalizing s with
  | nil => simp [exec_nil, depthDelta]
  | cons op rest ih => rw [exec_cons, ih, step_index, depthDelta_cons op rest]; omega

/-- No operation can fail except an export on a console that does not record. -/
theorem step_total (v : Variant) (cfg : Config) (env : StyleEnv σ) (s : State σ) (op : Op σ)
    (h : (step v cfg env s op).2 = .assertionError) : isExport op = true ∧ cfg.record = false := by
  by_cases he : isExport op = true
  · refine ⟨he, ?_⟩
    cases hr : cfg.record with
    | false => rfl
    | true => cases op <;> simp [isExport] at he <;> simp [step, hr] at h
  · have he' : isExport op = false := by simpa using he
    by_cases hc : isCapture op = true
    · cases op <;> simp [isCapture] at hc
      · simp [step] at h
      · simp [step] at h
      · simp [step] at h
      · simp [step] at h
    · rw [step_plain_out v cfg env s op (by simpa using hc) he'] at h
      cases h

/-- File writes happen only at depth zero: a step that starts and ends at a non-zero depth (of either sign)
leaves the file alone. -/
theorem step_file_nonzero (v : Variant) (cfg : Config) (env : StyleEnv σ) (s : State σ) (op : Op σ)
    (hi : s.index ≠ 0) (hi' : (step v cfg env s op).1.index ≠ 0) : (step v cfg env s op).1.file = s.file := by
  by_cases hc : isCapture op = true
  · cases op <;> simp [isCapture] at hc
    · rfl
    · simp only [step, checkBuffer_index] at hi'
      simp only [step]
      rw [checkBuffer_inside _ _ _ _ (by simp only; exact hi')]
    · rfl
    · simp only [step, checkBuffer_index] at hi'
      simp only [step]
      rw [checkBuffer_inside _ _ _ _ (by simp only; exact hi')]
  · exact (step_inside v cfg env s op hi (by simpa using hc)).2.2

/-- `end_capture` when no block is open (`capture_starts` empty): it returns the rendering of the whole pending
buffer, empties it, and lowers the depth by one. -/
theorem step_end_unbalanced (v : Variant) (cfg : Config) (env : StyleEnv σ) (s : State σ) (hmk : s.marks = []) :
    (step v cfg env s .endCapture).2 = .captured (flat (renderPieces cfg env s.buffer)) ∧
    (step v cfg env s .endCapture).1.index = s.index - 1 ∧
    (step v cfg env s .endCapture).1.buffer = [] ∧ (step v cfg env s .endCapture).1.marks = [] := by
  have hstart : (if v.captureMarks = true then s.marks.headD 0 else 0) = 0 := by
    rw [hmk]; cases v.captureMarks <;> rfl
  have hmk' : (if v.captureMarks = true then s.marks.tail else s.marks) = [] := by
    rw [hmk]; cases v.captureMarks <;> rfl
  simp only [step, hstart, List.drop_zero, List.take_zero, renderBuffer, checkBuffer_index, checkBuffer_marks, hmk']
  refine ⟨trivial, trivial, ?_, trivial⟩
  unfold checkBuffer
  by_cases h0 : (s.index - 1 == 0) = true <;> simp [h0]

end RichModel.Console
