/-!
Cutting a list at a list of offsets (what `Text.divide` does to the characters and, per `divide_view`, to the
styled string).  Shared by `Lemmas/WrapDivide.lean` and `Lemmas/Wrap.lean`.
-/
namespace RichModel

/-- the pieces of `l` between `start`, the offsets and the end of the list -/
def piecesFrom {α : Type} (start : Nat) : List Nat → List α → List (List α)
  | [], l => [l.drop start]
  | o :: os, l => (l.drop start).take (o - start) :: piecesFrom o os l

/-- `[l[0:o1], l[o1:o2], …, l[ok:]]` -/
def pieces {α : Type} (offs : List Nat) (l : List α) : List (List α) := piecesFrom 0 offs l

/-- offsets ascending (not necessarily strictly) from `start` on -/
def AscFrom (start : Nat) : List Nat → Prop
  | [] => True
  | o :: os => start ≤ o ∧ AscFrom o os

theorem piecesFrom_flatten {α : Type} (l : List α) : ∀ (offs : List Nat) (start : Nat), AscFrom start offs →
    (piecesFrom start offs l).flatten = l.drop start
  | [], start, _ => by simp [piecesFrom]
  | o :: os, start, h => by
    obtain ⟨h1, h2⟩ := h
    simp only [piecesFrom, List.flatten_cons]
    rw [piecesFrom_flatten l os o h2]
    have : l.drop o = (l.drop start).drop (o - start) := by
      rw [List.drop_drop]; congr 1; omega
    rw [this, List.take_append_drop]

theorem pieces_flatten {α : Type} (l : List α) (offs : List Nat) (h : AscFrom 0 offs) :
    (pieces offs l).flatten = l := by
  unfold pieces; rw [piecesFrom_flatten l offs 0 h]; simp

theorem piecesFrom_length {α : Type} (l : List α) : ∀ (offs : List Nat) (start : Nat),
    (piecesFrom start offs l).length = offs.length + 1
  | [], _ => rfl
  | _ :: os, _ => by simp [piecesFrom, piecesFrom_length l os]

theorem piecesFrom_map {α β : Type} (f : α → β) (l : List α) : ∀ (offs : List Nat) (start : Nat),
    (piecesFrom start offs l).map (List.map f) = piecesFrom start offs (l.map f)
  | [], _ => by simp [piecesFrom]
  | o :: os, start => by simp [piecesFrom, piecesFrom_map f l os o, List.map_take, List.map_drop]

theorem pieces_map {α β : Type} (f : α → β) (l : List α) (offs : List Nat) :
    (pieces offs l).map (List.map f) = pieces offs (l.map f) := piecesFrom_map f l offs 0

theorem ascFrom_of_pairwise : ∀ (offs : List Nat) (start : Nat), offs.Pairwise (· ≤ ·) → (∀ o ∈ offs, start ≤ o) →
    AscFrom start offs
  | [], _, _, _ => trivial
  | o :: os, start, hp, hb => by
    rw [List.pairwise_cons] at hp
    exact ⟨hb o (by simp), ascFrom_of_pairwise os o hp.2 (fun x hx => hp.1 x hx)⟩

end RichModel
