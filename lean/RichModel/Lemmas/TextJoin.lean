import RichModel.Lemmas.TextHistory
/-!
`join` and `assemble` as folds of the append operations: invariant and reference semantics.
-/
namespace RichModel
namespace Text
variable {σ : Type}

/-- the accumulator step of `join` is `append_text` on the three fields it threads -/
theorem join_fold_eq (seq : List (Text σ)) (a : Text σ) :
    seq.foldl (fun (acc : List Char × List (Span σ) × Int) (text : Text σ) =>
      (acc.1 ++ text.plain,
       acc.2.1 ++ [⟨acc.2.2, acc.2.2 + text.length, text.style⟩] ++ text.spans.map (fun sp => sp.move acc.2.2),
       acc.2.2 + text.length)) (a.plain, a.spans, a.length)
      = ((seq.foldl appendText a).plain, (seq.foldl appendText a).spans, (seq.foldl appendText a).length) := by
  induction seq generalizing a with
  | nil => rfl
  | cons x rest ih =>
    simp only [List.foldl_cons]
    exact ih (a.appendText x)

theorem foldl_appendText_meta (seq : List (Text σ)) (a : Text σ) :
    (seq.foldl appendText a).style = a.style ∧ (seq.foldl appendText a).justify = a.justify ∧
    (seq.foldl appendText a).overflow = a.overflow ∧ (seq.foldl appendText a).noWrap = a.noWrap ∧
    (seq.foldl appendText a).endStr = a.endStr ∧ (seq.foldl appendText a).tabSize = a.tabSize := by
  induction seq generalizing a with
  | nil => exact ⟨rfl, rfl, rfl, rfl, rfl, rfl⟩
  | cons x rest ih => simp only [List.foldl_cons]; exact ih (a.appendText x)

/-- `sep.join(lines)` is `blank_copy()` followed by `append_text` of every element of the
interleaved sequence -/
theorem join_eq_fold (v : Variant) (sep : Text σ) (lines : List (Text σ)) :
    sep.join v lines = (joinSeq sep lines).foldl appendText (sep.blankCopy v) := by
  have h := join_fold_eq (joinSeq sep lines) (sep.blankCopy v)
  have hm := foldl_appendText_meta (joinSeq sep lines) (sep.blankCopy v)
  unfold join
  have h0 : ((sep.blankCopy v).plain, (sep.blankCopy v).spans, (sep.blankCopy v).length)
      = (([] : List Char), ([] : List (Span σ)), (0 : Int)) := by
    simp only [blankCopy, new, stripControl, List.filter_nil, List.length_nil]
    cases v.ctorLen <;> rfl
  rw [h0] at h
  simp only [] at h ⊢
  rw [h]
  obtain ⟨h1, h2, h3, h4, h5, h6⟩ := hm
  cases hf : (joinSeq sep lines).foldl appendText (sep.blankCopy v)
  rw [hf] at h1 h2 h3 h4 h5 h6
  simp only [] at h1 h2 h3 h4 h5 h6 ⊢
  subst h1 h2 h3 h4 h5 h6
  rfl

theorem inv_foldl_appendText (seq : List (Text σ)) (a : Text σ) (ha : Inv a) (hs : ∀ x ∈ seq, Inv x) :
    Inv (seq.foldl appendText a) := by
  induction seq generalizing a with
  | nil => exact ha
  | cons x rest ih =>
    simp only [List.foldl_cons]
    exact ih _ (inv_appendText a x ha (hs x (by simp))) (fun y hy => hs y (by simp [hy]))

theorem view_foldl_appendText (seq : List (Text σ)) (a : Text σ) (ha : Inv a) (hs : ∀ x ∈ seq, Inv x) :
    (seq.foldl appendText a).view = a.view ++ seq.flatMap (fun x => x.view.map (fun p => (p.1, a.style :: p.2))) := by
  induction seq generalizing a with
  | nil => simp
  | cons x rest ih =>
    simp only [List.foldl_cons, List.flatMap_cons]
    rw [ih _ (inv_appendText a x ha (hs x (by simp))) (fun y hy => hs y (by simp [hy])),
      view_appendText a x ha (hs x (by simp))]
    simp [appendText]

theorem mem_joinSeq (sep : Text σ) (lines : List (Text σ)) (x : Text σ) (hx : x ∈ joinSeq sep lines) :
    x = sep ∨ x ∈ lines := by
  induction lines with
  | nil => simp [joinSeq] at hx
  | cons y rest ih =>
    cases rest with
    | nil => simp [joinSeq] at hx; exact Or.inr (by simp [hx])
    | cons z rest' =>
      simp only [joinSeq] at hx
      split at hx
      · simp only [List.mem_cons] at hx
        rcases hx with h | h
        · exact Or.inr (by simp [h])
        · rcases ih (by simpa using h) with h' | h'
          · exact Or.inl h'
          · exact Or.inr (by simp only [List.mem_cons] at h' ⊢; exact Or.inr h')
      · simp only [List.mem_cons] at hx
        rcases hx with h | h | h
        · exact Or.inr (by simp [h])
        · exact Or.inl h
        · rcases ih (by simpa using h) with h' | h'
          · exact Or.inl h'
          · exact Or.inr (by simp only [List.mem_cons] at h' ⊢; exact Or.inr h')

theorem inv_join (sep : Text σ) (lines : List (Text σ)) (hsep : Inv sep) (hl : ∀ x ∈ lines, Inv x) :
    Inv (sep.join Variant.repaired lines) := by
  rw [join_eq_fold]
  apply inv_foldl_appendText _ _ (inv_blankCopy sep)
  intro x hx
  rcases mem_joinSeq sep lines x hx with h | h
  · rw [h]; exact hsep
  · exact hl x h

/-- `sep.join(lines)`: the elements (with `sep` between them when it is non-empty), every character
keeping its effective style, placed under `sep`'s base style -/
theorem view_join (sep : Text σ) (lines : List (Text σ)) (hsep : Inv sep) (hl : ∀ x ∈ lines, Inv x) :
    (sep.join Variant.repaired lines).view =
      (joinSeq sep lines).flatMap (fun x => x.view.map (fun p => (p.1, sep.style :: p.2))) := by
  rw [join_eq_fold, view_foldl_appendText _ _ (inv_blankCopy sep)]
  · simp [view_eq_annot, blankCopy, new, stripControl, annot]
  · intro x hx
    rcases mem_joinSeq sep lines x hx with h | h
    · rw [h]; exact hsep
    · exact hl x h

/-- `Text.assemble(*parts)` keeps the invariant -/
theorem inv_assemble (parts : List (Part σ)) (style : σ) (j : Option Justify) (o : Option Overflow)
    (nw : Option Bool) (e : List Char) (ts : Option Nat)
    (hp : ∀ p ∈ parts, match p with | .txt u => Inv u | _ => True) :
    Inv (assemble Variant.repaired parts style j o nw e ts) := by
  unfold assemble
  have h0 : Inv (new Variant.repaired [] style [] j o nw e ts) := inv_new _ _ _ _ _ _ _ _ (by intro sp h; simp at h)
  generalize new Variant.repaired [] style [] j o nw e ts = a at h0
  induction parts generalizing a with
  | nil => exact h0
  | cons p rest ih =>
    simp only [List.foldl_cons]
    apply ih (fun q hq => hp q (by simp [hq]))
    cases p with
    | str s => exact inv_appendStr a s none h0
    | txt u => exact inv_appendT a u h0 (hp (.txt u) (by simp))
    | pair s st => exact inv_appendStr a s st h0

end Text
end RichModel
