import RichModel.Model.Live
import RichModel.Lemmas.Term
/-!
Screen effect of the pieces a live display writes: user lines, a frame, `position_cursor`,
`restore_cursor`, and their composition `position_cursor ++ user lines ++ frame` (one hooked print).
-/
namespace RichModel.Live
open RichModel RichModel.Screen

theorem region_length_pos (F : Frame) : 1 ≤ (region F).length := by
  cases F <;> simp [region]

theorem region_length (F : Frame) : (region F).length = max F.length 1 := by
  cases F <;> simp [region] <;> omega

/-- `F` is on display below the printed lines `P`, followed by `k` blank rows; the cursor is at the end
of the last frame line. -/
structure Shown (s : Screen) (P : List Line) (F : Frame) (k : Nat) : Prop where
  rows : s.rows = P ++ region F ++ List.replicate k []
  row : s.row + 1 = P.length + (region F).length
  col : s.col = ((region F).getLast?.getD []).length

theorem eraseUp_eq (n : Nat) : eraseUp n = eraseOps n := by
  induction n with
  | zero => rfl
  | succ n ih => simp [eraseUp, eraseOps, ih]

theorem textOp_eq (l : Line) : textOp l = if l.isEmpty then [] else [.text l] := rfl

/-- user lines -/
theorem run_lines {H : Nat} (U : List Line) :
    ∀ (s : Screen) (P : List Line) (m : Nat), AtBlank s P m →
      ∃ s', Run H P.length s (emitLines U) s' ∧ AtBlank s' (P ++ U) (max (m - U.length) 1) ∧
        s'.visible = s.visible := by
  induction U with
  | nil =>
    intro s P m h
    refine ⟨s, Run.nil _ _ _, ?_, rfl⟩
    have := h.pos
    have e : max (m - ([] : List Line).length) 1 = m := by simp; omega
    rw [e]; simpa using h
  | cons l rest ih =>
    intro s P m h
    obtain ⟨s1, hrun1, hb1, hv1⟩ := atBlank_line (H := H) h l
    obtain ⟨s2, hrun2, hb2, hv2⟩ := ih s1 (P ++ [l]) _ hb1
    refine ⟨s2, ?_, ?_, by rw [hv2, hv1]⟩
    · have : emitLines (l :: rest) = ((if l.isEmpty then [] else [.text l]) ++ [.lf]) ++ emitLines rest := by
        simp [emitLines, textOp_eq]
      rw [this]
      exact Run.append hrun1 (hrun2.weaken (by simp))
    · have e1 : P ++ l :: rest = P ++ [l] ++ rest := by simp
      have e2 : max (m - (l :: rest).length) 1 = max (max (m - 1) 1 - rest.length) 1 := by
        simp only [List.length_cons]; omega
      rw [e1, e2]; exact hb2

/-- a frame -/
theorem run_frame {H : Nat} (F : Frame) :
    ∀ (s : Screen) (P : List Line) (m : Nat), AtBlank s P m →
      ∃ s' k, Run H P.length s (emitFrame F) s' ∧ Shown s' P F k ∧
        (region F).length + k = max m (region F).length ∧ s'.visible = s.visible := by
  induction F with
  | nil =>
    intro s P m h
    obtain ⟨m', rfl⟩ : ∃ m', m = m' + 1 := ⟨m - 1, by have := h.pos; omega⟩
    refine ⟨s, m', Run.nil _ _ _, ⟨?_, ?_, ?_⟩, by simp [region]; omega, rfl⟩
    · rw [h.rows]; simp [region, List.replicate_succ]
    · rw [h.row]; simp [region]
    · rw [h.col]; simp [region]
  | cons l rest ih =>
    intro s P m h
    cases rest with
    | nil =>
      -- last line: text only
      obtain ⟨m', rfl⟩ : ∃ m', m = m' + 1 := ⟨m - 1, by have := h.pos; omega⟩
      have hrows := h.rows
      rw [List.replicate_succ] at hrows
      by_cases hl : l.isEmpty = true
      · have hl' : l = [] := by simpa using hl
        subst hl'
        refine ⟨s, m', by simpa [emitFrame, textOp] using Run.nil H P.length s, ⟨?_, ?_, ?_⟩, by simp [region]; omega, rfl⟩
        · rw [hrows]; simp [region]
        · rw [h.row]; simp [region]
        · rw [h.col]; simp [region]
      · refine ⟨Screen.step H s (.text l), m', ?_, ⟨?_, ?_, ?_⟩, by simp [region]; omega, by simp [Screen.step]⟩
        · simp only [emitFrame, textOp, hl]
          exact Run.one (by simp [Screen.step, h.row])
        · simp only [Screen.step, h.row, h.col, hrows]
          simp [writeAt_zero_nil, region]
        · simp [Screen.step, h.row, region]
        · simp [Screen.step, h.col, region]
    | cons l2 rest2 =>
      obtain ⟨s1, hrun1, hb1, hv1⟩ := atBlank_line (H := H) h l
      obtain ⟨s2, k, hrun2, hs2, hk, hv2⟩ := ih s1 (P ++ [l]) _ hb1
      refine ⟨s2, k, ?_, ⟨?_, ?_, ?_⟩, ?_, by rw [hv2, hv1]⟩
      · have : emitFrame (l :: l2 :: rest2) = ((if l.isEmpty then [] else [.text l]) ++ [.lf]) ++ emitFrame (l2 :: rest2) := by
          simp [emitFrame, textOp_eq]
        rw [this]
        exact Run.append hrun1 (hrun2.weaken (by simp))
      · rw [hs2.rows]; simp [region]
      · have := hs2.row; simp [region] at this ⊢; omega
      · rw [hs2.col]; simp [region]
      · simp [region] at hk ⊢; omega

/-- `position_cursor` for the recorded height `F.length` while `F` is on display and on screen. -/
theorem run_position {H : Nat} {s : Screen} {P : List Line} {F : Frame} {k : Nat} (w : Nat)
    (h : Shown s P F k) (hfit : (region F).length + k ≤ H) :
    ∃ s', Run H P.length s (positionCursor (some (w, F.length))) s' ∧
      AtBlank s' P ((region F).length + k) ∧ s'.visible = s.visible := by
  -- G = all rows of the region but the last one
  have hpos := region_length_pos F
  obtain ⟨G, g, hG⟩ : ∃ G g, region F = G ++ [g] := by
    rcases List.eq_nil_or_concat (region F) with h0 | ⟨l', b, h0⟩
    · rw [h0] at hpos; simp at hpos
    · exact ⟨l', b, by simpa using h0⟩
  have hlen : (region F).length = G.length + 1 := by rw [hG]; simp
  have hGlen : G.length = F.length - 1 := by
    have := region_length F; omega
  have hrows : s.rows = P ++ G ++ g :: List.replicate k [] := by rw [h.rows, hG]; simp
  have hrow : s.row = P.length + G.length := by have := h.row; omega
  obtain ⟨s1, hs1⟩ : ∃ s1, s1 = Screen.step H s .cr := ⟨_, rfl⟩
  obtain ⟨s2, hs2⟩ : ∃ s2, s2 = Screen.step H s1 .el2 := ⟨_, rfl⟩
  have hrows2 : s2.rows = P ++ G ++ List.replicate (k + 1) [] := by
    rw [hs2, hs1]; simp only [Screen.step, hrow, hrows]
    rw [← List.length_append]; simp [List.replicate_succ]
  have hrow2 : s2.row = P.length + G.length := by rw [hs2, hs1]; exact hrow
  have hcol2 : s2.col = 0 := by rw [hs2, hs1]; rfl
  have hvis2 : s2.visible = s.visible := by rw [hs2, hs1]; rfl
  obtain ⟨s', hrun, hb, hv⟩ := erase_up (H := H) P G.length G s2 (k + 1) rfl hrows2 hrow2 hcol2 (by omega) (by omega)
  refine ⟨s', ?_, ?_, by rw [hv, hvis2]⟩
  · simp only [positionCursor, eraseUp_eq, ← hGlen]
    refine Run.cons (by rw [← hs1, hs1]; simp [Screen.step]; omega) (Run.cons ?_ ?_)
    · rw [← hs1, ← hs2, hrow2]; omega
    · rw [← hs1, ← hs2]; exact hrun
  · have : (region F).length + k = G.length + (k + 1) := by omega
    rw [this]; exact hb

/-- With nothing displayed (`F = []`) the cursor already is on the blank zone. -/
theorem shown_nil_atBlank {s : Screen} {P : List Line} {k : Nat} (h : Shown s P [] k) : AtBlank s P (1 + k) := by
  refine ⟨?_, ?_, ?_, by omega⟩
  · rw [h.rows]; simp [region, Nat.add_comm 1 k, List.replicate_succ]
  · have := h.row; simp [region] at this; omega
  · rw [h.col]; simp [region]

/-- The shape recorded for what is on display. -/
def ShapeOk (shape : Option (Nat × Nat)) (F : Frame) : Prop :=
  match shape with
  | none => F = []
  | some (_, h) => h = F.length

/-- One hooked print: `position_cursor ++ user lines ++ frame`.  The new frame may have any height; what
is on display afterwards fits the screen if it does. -/
theorem run_hooked {H : Nat} {s : Screen} {P : List Line} {F : Frame} {k : Nat} {shape : Option (Nat × Nat)}
    (h : Shown s P F k) (hshape : ShapeOk shape F) (hfit : (region F).length + k ≤ H)
    (U : List Line) (F' : Frame) :
    ∃ s' k', Run H P.length s (positionCursor shape ++ emitLines U ++ emitFrame F') s' ∧
      Shown s' (P ++ U) F' k' ∧ (region F').length + k' ≤ max H (region F').length ∧ s'.visible = s.visible := by
  -- after the erase we are on a blank zone of `m ≤ H` rows
  have hstart : ∃ s1 m, Run H P.length s (positionCursor shape) s1 ∧ AtBlank s1 P m ∧ m ≤ H ∧ s1.visible = s.visible := by
    cases shape with
    | none =>
      have : F = [] := hshape
      subst this
      refine ⟨s, 1 + k, Run.nil _ _ _, shown_nil_atBlank h, ?_, rfl⟩
      simp [region] at hfit; omega
    | some wh =>
      obtain ⟨w, hh⟩ := wh
      have : hh = F.length := hshape
      subst this
      obtain ⟨s1, hr, hb, hv⟩ := run_position (H := H) w h hfit
      exact ⟨s1, _, hr, hb, hfit, hv⟩
  obtain ⟨s1, m, hr1, hb1, hm, hv1⟩ := hstart
  obtain ⟨s2, hr2, hb2, hv2⟩ := run_lines (H := H) U s1 P m hb1
  obtain ⟨s3, k', hr3, hs3, hk', hv3⟩ := run_frame (H := H) F' s2 (P ++ U) _ hb2
  refine ⟨s3, k', ?_, hs3, ?_, by rw [hv3, hv2, hv1]⟩
  · exact Run.append (Run.append hr1 hr2) (hr3.weaken (by simp))
  · have := region_length_pos F'; have := hb1.pos; omega

/-- Rows of a displayed frame, in the form the property is stated in: printed, frame, blank rows. -/
theorem shown_rows {s : Screen} {P : List Line} {F : Frame} {k : Nat} (h : Shown s P F k) :
    ∃ k', s.rows = P ++ F ++ List.replicate k' [] := by
  cases F with
  | nil => exact ⟨k + 1, by rw [h.rows]; simp [region, List.replicate_succ]⟩
  | cons l rest => exact ⟨k, by rw [h.rows]; simp [region]⟩

theorem shown_row_ge {s : Screen} {P : List Line} {F : Frame} {k : Nat} (h : Shown s P F k) : P.length ≤ s.row := by
  have := h.row; have := region_length_pos F; omega

end RichModel.Live
