import RichModel.Lemmas.Wrap
/-!
Below the boundary of C02 (`∀ c, cw c ≤ w`): what the final crop of `Text.wrap` does to a line that starts with a
character wider than the width — the only way a character can be too wide is width 1 and a 2-cell character (width 0
is `narrow_width_zero_ellipsis`).  `set_cell_size(text, 1)` pops characters from the end until the excess is used
up; since the first character alone is 2 cells it is popped too, the excess becomes -1 and one blank is appended:
the line is exactly one blank, whatever followed the wide character; with "ellipsis" (`set_cell_size(text, 0) + "…"`)
it is exactly the ellipsis.
-/
namespace RichModel
namespace Wrap
open Text
variable {σ : Type}

/-- popping from `A ++ [x]` when the excess is larger than everything in `A`: all of `A` goes, then `x` is looked at -/
theorem popLoop_through (x : Nat) : ∀ (A : List Nat) (e : Int), (A.sum : Int) < e →
    popLoop (A ++ [x]) e = popLoop [x] (e - A.sum)
  | [], e, _ => by simp
  | a :: A, e, h => by
    simp only [List.sum_cons] at h
    have hpos : e > 0 := by push_cast at h; omega
    simp only [List.cons_append]
    rw [popLoop]
    simp only [hpos, if_true]
    rw [popLoop_through x A (e - a) (by push_cast at h ⊢; omega)]
    simp only [List.sum_cons]; push_cast
    congr 1; omega

/-- `set_cell_size(c + rest, 1)` with a 2-cell `c`: one blank -/
theorem setCellSize_wide_first (cw : Char → Nat) (c : Char) (rest : List Char) (hc : cw c = 2) :
    setCellSize cw (c :: rest) 1 = [' '] := by
  unfold setCellSize
  have hlen : cellLen cw (c :: rest) = 2 + cellLen cw rest := by simp [cellLen, hc]
  have h1 : (cellLen cw (c :: rest) == 1) = false := by simp; omega
  have h3 : ¬ cellLen cw (c :: rest) < 1 := by omega
  simp only [h1, Bool.false_eq_true, if_false, h3]
  have hrev : ((c :: rest).map cw).reverse = (rest.map cw).reverse ++ [2] := by simp [hc]
  rw [hrev, popLoop_through 2 _ _ (by simp only [List.sum_reverse]; rw [hlen]; unfold cellLen; push_cast; omega)]
  have he : ((cellLen cw (c :: rest) : Int) - ((1 : Nat) : Int)) - (((rest.map cw).reverse.sum : Nat) : Int) = 1 := by
    simp only [List.sum_reverse]; rw [hlen]; unfold cellLen; push_cast; omega
  rw [he]
  simp [popLoop]

/-- `set_cell_size(c + rest, 0)` with a 2-cell `c`: nothing -/
theorem setCellSize_wide_first_zero (cw : Char → Nat) (c : Char) (rest : List Char) (hc : cw c = 2) :
    setCellSize cw (c :: rest) 0 = [] := by
  unfold setCellSize
  have hlen : cellLen cw (c :: rest) = 2 + cellLen cw rest := by simp [cellLen, hc]
  have h1 : (cellLen cw (c :: rest) == 0) = false := by simp; omega
  have h3 : ¬ cellLen cw (c :: rest) < 0 := by omega
  simp only [h1, Bool.false_eq_true, if_false, h3]
  have hrev : ((c :: rest).map cw).reverse = (rest.map cw).reverse ++ [2] := by simp [hc]
  rw [hrev, popLoop_through 2 _ _ (by simp only [List.sum_reverse]; rw [hlen]; unfold cellLen; push_cast; omega)]
  have he : ((cellLen cw (c :: rest) : Int) - ((0 : Nat) : Int)) - (((rest.map cw).reverse.sum : Nat) : Int) = 2 := by
    simp only [List.sum_reverse]; rw [hlen]; unfold cellLen; push_cast; omega
  rw [he]
  simp [popLoop]

/-- the final crop of `Text.wrap` at width 1 on a line that starts with a 2-cell character -/
theorem truncate_wide_first (cw : Char → Nat) (t : Text σ) (c : Char) (rest : List Char) (hp : t.plain = c :: rest)
    (hc : cw c = 2) (ov : Overflow) (hov : ov ≠ Overflow.ignore) :
    (t.truncate cw 1 (some ov)).plain = if ov = Overflow.ellipsis then ['…'] else [' '] := by
  have hlen : cellLen cw (c :: rest) = 2 + cellLen cw rest := by simp [cellLen, hc]
  have hgt : ((cellLen cw t.plain : Nat) : Int) > 1 := by rw [hp, hlen]; omega
  have e1 : setCellSizeI cw t.plain (1 : Int) = [' '] := by
    rw [show (1 : Int) = ((1 : Nat) : Int) from rfl, setCellSizeI_nat, hp]; exact setCellSize_wide_first cw c rest hc
  have e0 : setCellSizeI cw t.plain ((1 : Int) - 1) = [] := by
    rw [show (1 : Int) - 1 = ((0 : Nat) : Int) from rfl, setCellSizeI_nat, hp]; exact setCellSize_wide_first_zero cw c rest hc
  rw [truncate_some]
  cases ov with
  | ignore => exact absurd rfl hov
  | ellipsis =>
    simp only [show (Overflow.ellipsis != Overflow.ignore) = true from rfl, if_true, hgt, Bool.false_and,
      Bool.false_eq_true, if_false, show (Overflow.ellipsis == Overflow.ellipsis) = true from rfl, e0, List.nil_append]
    exact setPlain_plain _ _
  | fold =>
    simp only [show (Overflow.fold != Overflow.ignore) = true from rfl, if_true, hgt, Bool.false_and,
      Bool.false_eq_true, if_false, show (Overflow.fold == Overflow.ellipsis) = false from rfl, e1]
    exact setPlain_plain _ _
  | crop =>
    simp only [show (Overflow.crop != Overflow.ignore) = true from rfl, if_true, hgt, Bool.false_and,
      Bool.false_eq_true, if_false, show (Overflow.crop == Overflow.ellipsis) = false from rfl, e1]
    exact setPlain_plain _ _

end Wrap
end RichModel
