import RichModel.Lemmas.ThemeConfig
/-!
Totality of the modelled `configparser` and of `Theme.from_file` (property C20): the model answers
every text (it is `unmodelled` only for option names containing U+03A3 while names are lower-cased and for
`%(name)s` references while interpolation is on), and `from_file` ends in a theme, one of the
`configparser` exceptions of the model (five with interpolation off, the case `C20.from_file_total` states; the sixth
is the interpolation error), or what `Style.parse` raised.
-/
namespace RichModel.Cfg
open RichModel.Theme

theorem mem_rstrip {c : Char} {s : List Char} (h : c ∈ rstrip s) : c ∈ s := by
  unfold rstrip at h
  have := List.dropWhile_subset (l := s.reverse) isSpace (List.mem_reverse.1 h)
  exact List.mem_reverse.1 this

theorem mem_strip {c : Char} {s : List Char} (h : c ∈ strip s) : c ∈ s := by
  unfold strip lstrip at h
  exact List.dropWhile_subset isSpace (mem_rstrip h)

/-- a line is answered by the model: free of U+03A3 whenever names are lower-cased -/
def LineOk (lower : Bool) (line : List Char) : Prop := lower = true → ∀ c ∈ line, c.toNat ≠ 0x3A3

theorem lowerName_isSome (n : Name) (h : ∀ c ∈ n, c.toNat ≠ 0x3A3) : lowerName n ≠ none := by
  unfold lowerName
  have : n.any (fun c => decide (c.toNat = 0x3A3)) = false := by
    rw [Bool.eq_false_iff]
    intro hc
    rw [List.any_eq_true] at hc
    obtain ⟨c, hc, he⟩ := hc
    exact h c hc (by simpa using he)
  simp [this]

theorem step_modelled (lower : Bool) (st : RS) (line : List Char) (h : LineOk lower line) :
    step lower st line ≠ .unmodelled := by
  unfold step
  simp only
  split
  · split <;> simp
  · split
    · simp
    · split
      · simp
      · split
        · split
          · simp
          · split <;> simp
        · split
          · simp
          · split
            · simp
            · rename_i d _
              split
              · rename_i hnone
                exfalso
                cases lower with
                | false => simp at hnone
                | true =>
                  simp only [if_true] at hnone
                  exact lowerName_isSome _ (fun c hc =>
                    h rfl c (mem_strip (List.mem_of_mem_take (mem_rstrip hc)))) hnone
              · split <;> simp

theorem readLines_modelled (lower : Bool) : ∀ (ls : List (List Char)) (st : RS),
    (∀ l ∈ ls, LineOk lower l) → readLines lower st ls ≠ .unmodelled
  | [], st, _ => by simp [readLines]
  | l :: ls, st, h => by
    have h1 := step_modelled lower st l (h l List.mem_cons_self)
    unfold readLines
    cases hs : step lower st l with
    | ok st' => exact readLines_modelled lower ls st' (fun x hx => h x (List.mem_cons_of_mem _ hx))
    | err e => simp
    | unmodelled => exact absurd hs h1

theorem mem_splitNL {t : List Char} : ∀ {l : List Char}, l ∈ splitNL t → ∀ c ∈ l, c ∈ t := by
  induction t with
  | nil => intro l hl c hc; simp [splitNL] at hl; subst hl; exact hc
  | cons a r ih =>
    intro l hl c hc
    unfold splitNL at hl
    by_cases ha : a = '\n'
    · simp only [ha, if_true, List.mem_cons] at hl
      rcases hl with e | hl
      · subst e; cases hc
      · exact List.mem_cons_of_mem _ (ih hl c hc)
    · simp only [ha, if_false] at hl
      cases hsr : splitNL r with
      | nil =>
        simp only [hsr, List.mem_singleton] at hl
        subst hl
        have : c = a := by simpa using hc
        subst this; exact List.mem_cons_self
      | cons l0 ls =>
        simp only [hsr, List.mem_cons] at hl
        rcases hl with e | hl
        · subst e
          rcases List.mem_cons.1 hc with e | hc'
          · subst e; exact List.mem_cons_self
          · exact List.mem_cons_of_mem _ (ih (by rw [hsr]; exact List.mem_cons_self) c hc')
        · exact List.mem_cons_of_mem _ (ih (by rw [hsr]; exact List.mem_cons_of_mem _ hl) c hc)

/-- With interpolation off the modelled parser answers every text without U+03A3 (any text at all
when names are not lower-cased). -/
theorem cfgItems_modelled (lower : Bool) (text : List Char) (h : LineOk lower text) :
    cfgItems lower false text ≠ .unmodelled := by
  have hr := readLines_modelled lower (splitNL text) {} (fun l hl hlow c hc => h hlow c (mem_splitNL hl c hc))
  unfold cfgItems
  cases hs : readLines lower {} (splitNL text) with
  | unmodelled => exact absurd hs hr
  | err e => simp
  | ok st =>
    simp only
    split
    · simp
    · split <;> simp

variable {σ : Type}

theorem evalItems_error (parse : Parse σ) : ∀ (items : List (Name × List Char)) (e : PErr),
    evalItems parse (items.map (fun p => (p.1, SV.str p.2))) = .error e → ∃ d, parse d = .error e
  | [], e, h => by simp [evalItems] at h
  | (n, v) :: r, e, h => by
    simp only [List.map_cons, evalItems] at h
    cases hp : parse v with
    | error e' =>
      rw [hp] at h
      simp only at h
      injection h with h
      exact ⟨v, by rw [hp, h]⟩
    | ok s =>
      rw [hp] at h
      simp only at h
      cases hr : evalItems parse (r.map (fun p => (p.1, SV.str p.2))) with
      | error e' =>
        rw [hr] at h
        simp only at h
        injection h with h
        exact evalItems_error parse r e (by rw [hr, h])
      | ok rest => rw [hr] at h; simp at h

/-- **`from_file` is total**: for every text (free of U+03A3 while names are lower-cased) it ends in a theme,
in one of the `configparser` exceptions, or in the exception `Style.parse` raised for one of the
values — nothing else. -/
theorem fromFile_total (defaults : Dict σ) (parse : Parse σ) (lower : Bool) (text : List Char)
    (inherit : Bool) (h : LineOk lower text) :
    (∃ t, fromFile defaults parse lower false text inherit = .ok t) ∨
    (∃ e, fromFile defaults parse lower false text inherit = .err (.cfg e)) ∨
    (∃ e d, parse d = .error e ∧ fromFile defaults parse lower false text inherit = .err (.parse e)) := by
  have hm := cfgItems_modelled lower text h
  unfold fromFile fromFileWith
  cases hc : cfgItems lower false text with
  | unmodelled => exact absurd hc hm
  | err e => exact Or.inr (Or.inl ⟨e, rfl⟩)
  | ok items =>
    simp only
    cases he : evalItems parse (items.map (fun p => (p.1, SV.str p.2))) with
    | error e =>
      obtain ⟨d, hd⟩ := evalItems_error parse items e he
      exact Or.inr (Or.inr ⟨e, d, hd, rfl⟩)
    | ok parsed =>
      simp only [Theme.new, evalItems_style]
      exact Or.inl ⟨_, rfl⟩

/-! ## `Theme.read`: universal newlines -/

theorem universalNL_id (t : List Char) (h : '\r' ∉ t) : universalNL false t = t := by
  induction t with
  | nil => rfl
  | cons c r ih =>
    have hc : c ≠ '\r' := fun e => h (by simp [e])
    have hr : '\r' ∉ r := fun e => h (List.mem_cons_of_mem _ e)
    unfold universalNL
    simp only [hc, if_false, Bool.false_eq_true]
    by_cases hn : c = '\n'
    · simp [hn, ih hr]
    · simp [hn, ih hr]

end RichModel.Cfg
