import RichModel.Lemmas.LayoutTableCols
import RichModel.Lemmas.CollapseLow
/-!
**A table with free columns BELOW one cell per column** (what discharges the exclusions "Constrain / Align hand the child less than
its structural minimum", "`Table(width=tw)` below borders plus one cell per column" of C01's domain).

`_calculate_column_widths` offered less than one cell per column (zero or a negative budget included): the first pass gives every
column at least one cell, the collapse levels every column to 0 or 1 (`collapseWidths_low`), the last-resort `ratio_reduce` is not
reached (or has nothing to take), and the re-measure hands EVERY column exactly one cell: the table is `extra + number of columns`
wide — its structural minimum with empty padding — whatever was offered.
-/
namespace RichModel
open RichModel.Layout

theorem mask_zero_sum : ∀ (ratios maxs : List Int), (∀ x ∈ maxs, x = 0) →
    ((ratios.zip maxs).map (fun p => if p.2 != 0 then p.1 else 0)).sum = 0
  | [], _, _ => by simp
  | _ :: _, [], _ => by simp
  | a :: r, b :: m, h => by
    have hb := h b (by simp)
    have ih := mask_zero_sum r m (fun x hx => h x (List.mem_cons_of_mem _ hx))
    simp only [List.zip_cons_cons, List.map_cons, List.sum_cons, ih, hb]
    simp

/-- `ratio_reduce` with every maximum 0 takes nothing -/
theorem ratioReduce_zero_max (total : Int) (ratios maxs values : List Int) (h : ∀ x ∈ maxs, x = 0) :
    ratioReduce total ratios maxs values = values := by
  unfold ratioReduce
  simp only [mask_zero_sum ratios maxs h]
  simp

theorem measureColumn_lt_one (t : Table) (idx : Nat) (c : Column) (w : Int) (h : w < 1) : t.measureColumn idx c w = ⟨0, 0⟩ := by
  unfold Table.measureColumn
  simp [h]

/-- The re-measure of free columns at widths 0 or 1: every column gets exactly one cell. -/
theorem remeasure_low (t : Table) (hfree : t.AllFree) (ws : List Int) (hlen : ws.length = t.columns.length)
    (h01 : ∀ w ∈ ws, 0 ≤ w ∧ w ≤ 1) :
    (t.remeasure ws).length = ws.length ∧ (∀ w ∈ t.remeasure ws, w = 1) := by
  unfold Table.remeasure
  refine ⟨by simp [indexed_length, hlen], ?_⟩
  intro w hw
  simp only [List.mem_map] at hw
  obtain ⟨wc, hwc, rfl⟩ := hw
  have hm := List.of_mem_zip hwc
  have h := h01 wc.1 hm.1
  by_cases h0 : wc.1 < 1
  · rw [measureColumn_lt_one t wc.2.2 wc.2.1 wc.1 h0]; rfl
  · have hb := measureColumn_free t wc.2.2 wc.2.1 wc.1 (hfree wc.2 hm.2)
    have := orOne_bounds (t.measureColumn wc.2.2 wc.2.1 wc.1).maximum 1 hb.1
    have := hb.2 (by omega)
    omega

/-- the `if table_width > max_width` block up to the re-measure, below one cell per column: every width 0 or 1, and the
`table_width` carried on is not below the budget -/
theorem shrinkPre_low (t : Table) (maxWidth : Int) (ws0 : List Int) (hlen : ws0.length = t.columns.length)
    (h1 : ∀ w ∈ ws0, 1 ≤ w) (hwrap : ∀ c ∈ t.columns, c.width = none ∧ c.noWrap = false)
    (hmw : maxWidth < (t.columns.length : Int)) :
    (t.shrinkPre ws0 maxWidth).1.length = t.columns.length ∧ (∀ w ∈ (t.shrinkPre ws0 maxWidth).1, 0 ≤ w ∧ w ≤ 1) ∧
      maxWidth ≤ (t.shrinkPre ws0 maxWidth).2 := by
  have hwl : ws0.length = t.wrapable.length := by simp [Table.wrapable, hlen]
  have hall := wrapable_all t hwrap
  have hnn : ∀ w ∈ ws0, 0 ≤ w := fun w hw => by have := h1 w hw; omega
  have hlow := collapseWidths_low ws0 t.wrapable maxWidth hwl hall h1 (by omega)
  obtain ⟨pl, pnn, _, ppost, pge⟩ := collapseWidths_post ws0 t.wrapable maxWidth hwl hnn
  have hsum0 := sum_ge_length ws0 h1
  have hge := pge (by omega)
  refine ⟨shrinkPre_length t ws0 maxWidth hlen hnn, ?_⟩
  unfold Table.shrinkPre
  simp only
  split
  · rename_i hover
    -- the collapse did not reach the budget: then it is negative and every width is 0
    have hneg : maxWidth < 0 := by
      by_cases h0 : 0 ≤ maxWidth
      · have hne0 : ws0 ≠ [] := by
          intro h; rw [h] at hover; simp [collapseWidths] at hover
          split at hover <;> simp [collapseLoop, collapseStep] at hover <;> omega
        have := collapseWidths_all_wrappable ws0 t.wrapable maxWidth hwl hnn hall hne0 h0
        omega
      · omega
    have hzero : ∀ x ∈ collapseWidths ws0 t.wrapable maxWidth, x = 0 := by
      cases hwr : t.wrapable with
      | nil =>
        rw [hwr] at hwl
        have : ws0 = [] := List.eq_nil_of_length_eq_zero hwl
        have hc : collapseWidths ws0 t.wrapable maxWidth = [] := List.eq_nil_of_length_eq_zero (by rw [pl, this]; rfl)
        rw [← hwr, hc]; simp
      | cons b r =>
        rw [← hwr]
        have hany : t.wrapable.any id = true := by rw [hwr]; simp [hall b (by rw [hwr]; simp)]
        rcases ppost hany with hs | hz
        · have := sum_nonneg_of_all _ pnn
          omega
        · intro x hx
          have hl : (collapseWidths ws0 t.wrapable maxWidth).length = t.wrapable.length := by omega
          obtain ⟨b', hb'⟩ := exists_zip_of_mem_left _ t.wrapable hl x hx
          exact hz (x, b') hb' (hall b' (List.of_mem_zip hb').2)
    rw [ratioReduce_zero_max _ _ _ _ hzero]
    exact ⟨hlow, by omega⟩
  · exact ⟨hlow, hge⟩

/-- **the widths below one cell per column**: a first pass that gives every column at least one cell, every column free: every
column ends at exactly one cell (the sum is the number of columns), whatever the budget below that number. -/
theorem width_low_core (fl : Flags) (t : Table) (maxWidth : Int)
    (hfirst : ∃ ws0, t.firstWidths fl maxWidth = some ws0 ∧ ws0.length = t.columns.length ∧ ∀ w ∈ ws0, 1 ≤ w) (hfree : t.AllFree)
    (hne : t.columns ≠ []) (hnw : ∀ c ∈ t.columns, c.noWrap = false) (hmw : maxWidth < (t.columns.length : Int)) :
    ∃ ws, t.calcWidths fl maxWidth = some ws ∧ ws.sum ≤ (t.columns.length : Int) ∧ ws.length = t.columns.length ∧ ∀ w ∈ ws, 1 ≤ w := by
  obtain ⟨ws0, h0, hl, hp⟩ := hfirst
  have hwrap : ∀ c ∈ t.columns, c.width = none ∧ c.noWrap = false := by
    intro c hc
    obtain ⟨i, hi, rfl⟩ := List.getElem_of_mem hc
    have : (t.columns[i], i) ∈ t.indexed := by
      unfold Table.indexed; exact List.mem_zipIdx_iff_getElem?.2 (by simp [hi])
    exact ⟨(hfree _ this).1, hnw _ (List.getElem_mem _)⟩
  have hge1 : ∀ (a b : List Int), (∀ p ∈ a.zip b, p.1 ≤ p.2) → a.length = b.length → (∀ w ∈ a, 1 ≤ w) → ∀ w ∈ b, 1 ≤ w := by
    intro a b hz hlen ha w hw
    obtain ⟨i, hi, rfl⟩ := List.getElem_of_mem hw
    have hia : i < a.length := by omega
    have := hz (a[i], b[i]) (by rw [List.mem_iff_getElem]; exact ⟨i, by simp; omega, by simp⟩)
    have := ha a[i] (List.getElem_mem _)
    simp only at *; omega
  have hsum0 := sum_ge_length ws0 hp
  have hover : ws0.sum > maxWidth := by omega
  rw [calcWidths_ne fl t maxWidth hne, h0]
  simp only [hover, if_true]
  obtain ⟨hpl, hp01, hp2⟩ := shrinkPre_low t maxWidth ws0 hl hp hwrap hmw
  have hsw : t.shrinkWidths ws0 maxWidth = (t.remeasure (t.shrinkPre ws0 maxWidth).1, (t.shrinkPre ws0 maxWidth).2) := rfl
  rw [hsw]
  simp only
  generalize t.shrinkPre ws0 maxWidth = pre at *
  obtain ⟨hml, hm1⟩ := remeasure_low t hfree pre.1 hpl hp01
  have hmne : t.remeasure pre.1 ≠ [] := by
    intro h; rw [h] at hml; simp at hml
    rw [← hml] at hpl
    exact hne (List.eq_nil_of_length_eq_zero hpl.symm)
  have hmsum : (t.remeasure pre.1).sum = (t.columns.length : Int) := by
    rw [sum_const _ 1 hm1, hml, hpl]; omega
  have htw : maxWidth ≤ (if fl.staleTableWidth then pre.2 else (t.remeasure pre.1).sum) := by
    split <;> omega
  generalize (if fl.staleTableWidth then pre.2 else (t.remeasure pre.1).sum) = tw at htw ⊢
  have hm1' : ∀ w ∈ t.remeasure pre.1, 1 ≤ w := fun w hw => by rw [hm1 w hw]; omega
  obtain ⟨r, h1, h2, h3, h4⟩ := padWidths_spec fl t _ tw maxWidth hmne hm1'
  refine ⟨r, h1, ?_, by omega, hge1 _ _ h4 h2.symm hm1'⟩
  rw [h3, hmsum]
  have := padTarget_le fl t maxWidth
  split <;> omega

namespace Layout
open RichModel.Frames

/-- **Table, at ANY width.**  Columns free to wrap (as in `tableConsole_decomp`) and NO condition on the room: the table is the
title, a body and the caption, and no body line is wider than the available width — or, when that leaves less than one cell per
column, than the borders plus one cell per column. -/
theorem tableConsole_decomp_any (cfg : Cfg) (hcw : cfg.cw = cwD) (hfl : cfg.fl.leadingRepeat = false)
    (o : TableOpts) (opts : Opts) (cols : List ColS) (w : Nat)
    (hne : cols ≠ [])
    (hfree : ∀ c ∈ cols, c.o.wrappable ∧ ((cfg.fl.flexNegative = false ∧ cfg.fl.flexClampZero = false) ∨
      (o.expand || o.width.isSome) = false ∨ c.o.ratio ≠ some 0))
    (hmeas : ∀ c ∈ cols, ∀ ch ∈ c.header :: c.footer :: c.cells, ∀ k : Nat, 0 ≤ (ch.measure k).maximum)
    (hwidth : ∀ tw, o.width = some tw → tw ≤ w) :
    ∃ (tw : Int) (body : List Seg), tw ≤ ((max w (tableExtra o cols.length + cols.length) : Nat) : Int) ∧
      tableConsole cfg o opts cols w =
        annotation cfg o.title o.titleJustify opts tw ++ body ++ annotation cfg o.caption o.captionJustify opts tw ∧
      (∀ l ∈ splitLines body, lineLength cfg.cw l ≤ max w (tableExtra o cols.length + cols.length)) ∧ Closed body := by
  have hn1 : 1 ≤ cols.length := by
    cases cols with
    | nil => exact absurd rfl hne
    | cons _ _ => simp
  have hlenT := tb_toTable_columns_length cfg o cols
  have hneT : (toTable cfg o cols).columns ≠ [] := by
    intro h; rw [h] at hlenT; simp at hlenT; omega
  have hfreeT := tb_toTable_allFree cfg o cols (fun c hc => ⟨(hfree c hc).1.1, (hfree c hc).1.2.1⟩) hmeas
  have hnwT := tb_toTable_noWrap cfg o cols (fun c hc => (hfree c hc).1.2.2)
  obtain ⟨hex0, hexle⟩ := tb_extraWidth_skel o (toTable cfg o cols).columns cols.length hlenT hn1
  have hexT : ({ o.skel with columns := (toTable cfg o cols).columns } : Table).extraWidth = (toTable cfg o cols).extraWidth := rfl
  rw [hexT] at hex0 hexle
  have hmax : (toTable cfg o cols).width.getD (w : Int) ≤ (w : Int) := by
    have hwd : (toTable cfg o cols).width = o.width.map Int.ofNat := rfl
    rw [hwd]
    cases hw' : o.width with
    | none => simp only [Option.map_none, Option.getD_none]; omega
    | some tw =>
      have h1 := hwidth tw hw'
      simp only [Option.map_some, Option.getD_some, Int.ofNat_eq_natCast]
      omega
  have hfirst : ∃ ws0, (toTable cfg o cols).firstWidths cfg.fl
      ((toTable cfg o cols).width.getD (w : Int) - (toTable cfg o cols).extraWidth) = some ws0 ∧
      ws0.length = (toTable cfg o cols).columns.length ∧ ∀ x ∈ ws0, 1 ≤ x := by
    by_cases hflags : cfg.fl.flexNegative = false ∧ cfg.fl.flexClampZero = false
    · apply firstWidths_ge_one cfg.fl hflags.1 hflags.2 (toTable cfg o cols) _ _ (tb_paddingWidth_nonneg cfg o cols) _
        (tb_toTable_ratio_nonneg cfg o cols)
      · intro ci hci; exact (measureColumn_free _ ci.2 ci.1 _ (hfreeT ci hci)).1
      · intro c hc
        obtain ⟨i, hi, rfl⟩ := List.getElem_of_mem hc
        have : ((toTable cfg o cols).columns[i], i) ∈ (toTable cfg o cols).indexed := by
          unfold Table.indexed; exact List.mem_zipIdx_iff_getElem?.2 (by simp [hi])
        rw [(hfreeT _ this).1]; simp
    · have hrT := tb_toTable_ratiosPos cfg o cols (fun c hc => by
        rcases (hfree c hc).2 with h | h
        · exact absurd h hflags
        · exact h)
      exact firstWidths_pos cfg.fl (toTable cfg o cols) hrT hfreeT (tb_paddingWidth_nonneg cfg o cols) _
  have hfits : ∃ ws, (toTable cfg o cols).calcWidths cfg.fl
      ((toTable cfg o cols).width.getD (w : Int) - (toTable cfg o cols).extraWidth) = some ws ∧
      ws.sum ≤ max ((toTable cfg o cols).width.getD (w : Int) - (toTable cfg o cols).extraWidth) (cols.length : Int) ∧
      ws.length = (toTable cfg o cols).columns.length ∧ ∀ x ∈ ws, 1 ≤ x := by
    by_cases hroom : ((toTable cfg o cols).columns.length : Int) ≤
        (toTable cfg o cols).width.getD (w : Int) - (toTable cfg o cols).extraWidth
    · obtain ⟨ws, a, b, c, d⟩ := width_fits_core' cfg.fl (toTable cfg o cols) _ hfirst hfreeT hneT hnwT hroom
      exact ⟨ws, a, by omega, c, d⟩
    · obtain ⟨ws, a, b, c, d⟩ := width_low_core cfg.fl (toTable cfg o cols) _ hfirst hfreeT hneT hnwT (by omega)
      exact ⟨ws, a, by rw [hlenT] at b; omega, c, d⟩
  obtain ⟨ws, hws, hsum, hlen, hpos⟩ := hfits
  have hwl : (ws.map Int.toNat).length = cols.length := by rw [List.length_map, hlen, hlenT]
  obtain ⟨hfit, hclosed⟩ := tb_body_ok cfg hcw hfl o cols (ws.map Int.toNat) hwl
  refine ⟨ws.sum + (toTable cfg o cols).extraWidth, _, by omega, tb_tableConsole_eq cfg o opts cols w ws hws, ?_, hclosed⟩
  intro l hl
  have hle := hfit l hl
  have hrl := tb_rendered_length cfg o cols (ws.map Int.toNat) hwl
  have hRl := tb_tbR_columns_length o cols (tb_rendered cfg o cols (ws.map Int.toNat)) hrl
  have hneR : (tb_tbR o cols (tb_rendered cfg o cols (ws.map Int.toNat))).columns ≠ [] := by
    intro h; rw [h] at hRl; simp at hRl; omega
  have hbw := Dep.bodyWidth_eq (tb_tbR o cols (tb_rendered cfg o cols (ws.map Int.toNat))) (ws.map Int.toNat)
    (hwl.trans hRl.symm) hneR
  have hexR : (tb_tbR o cols (tb_rendered cfg o cols (ws.map Int.toNat))).extraWidth = (toTable cfg o cols).extraWidth := by
    unfold Table.extraWidth
    rw [hRl, hlenT]
    rfl
  rw [hexR, tb_sum_toNat ws (fun x hx => by have := hpos x hx; omega)] at hbw
  omega

/-- **Columns, at ANY width** (no explicit `width`): as `columnsConsole_decomp` without "one cell per item available": no body
line is wider than the available width or — when it is smaller than the number of items — than one cell per item. -/
theorem columnsConsole_decomp_any (cfg : Cfg) (hcw : cfg.cw = cwD) (hfl : cfg.fl.leadingRepeat = false)
    (o : ColsOpts) (opts : Opts) (items : List Ch) (w : Nat) (hwn : o.lay.width = none)
    (hmeas : ∀ ch ∈ items, ∀ k : Nat, 0 ≤ (ch.measure k).maximum ∧ (ch.measure k).maximum ≤ (k : Int)) :
    columnsConsole cfg o opts items w = cfg.poison ∨ columnsConsole cfg o opts items w = [] ∨
    ∃ (tw : Int) (body : List Seg), tw ≤ ((max w items.length : Nat) : Int) ∧
      columnsConsole cfg o opts items w = annotation cfg o.title Justify.center opts tw ++ body ∧
      (∀ l ∈ splitLines body, lineLength cfg.cw l ≤ max w items.length) ∧ Closed body := by
  have hitems : ∀ ch ∈ items, tb_MeasOk ch := fun ch hch k => (hmeas ch hch k).1
  unfold columnsConsole
  cases hp : unpackPad o.lay.padding with
  | error e => left; rfl
  | ok p =>
    simp only
    cases hlay : columnsLayout cfg.v o.lay (items.map (fun c => (c.measureAt (w : Int)).maximum)) (w : Int) with
    | error e => left; rfl
    | ok r =>
      cases r with
      | none => right; left; rfl
      | some lay =>
        right; right
        simp only
        obtain ⟨hpos, hle⟩ := tb_columnCount_le cfg.v o.lay _ _ lay hwn hlay
        rw [List.length_map] at hle
        generalize hcols : (List.map _ (List.range lay.columnCount) : List ColS) = cols
        have hcl : cols.length = lay.columnCount := by rw [← hcols]; simp
        have hne : cols ≠ [] := by
          intro h0; rw [h0] at hcl; simp at hcl; omega
        have hte : tableExtra (o.grid p) cols.length = 0 := by simp [tableExtra, ColsOpts.grid]
        have hgw : (o.grid p).width = none := rfl
        obtain ⟨tw, body, h1, h2, h3, h4⟩ := tableConsole_decomp_any cfg hcw hfl (o.grid p) opts cols w hne
          (by
            intro c hc
            rw [← hcols] at hc
            obtain ⟨j, _, rfl⟩ := List.mem_map.mp hc
            refine ⟨⟨?_, rfl, rfl⟩, Or.inr (Or.inr ?_)⟩
            · show o.lay.width.map Int.toNat = none
              rw [hwn]; rfl
            · show (none : Option Nat) ≠ some 0
              intro h; cases h)
          (by
            intro c hc
            rw [← hcols] at hc
            obtain ⟨j, _, rfl⟩ := List.mem_map.mp hc
            intro ch hch
            simp only [List.mem_cons, List.mem_map] at hch
            rcases hch with rfl | rfl | ⟨row, _, rfl⟩
            · exact tb_textChild_ok _ _ _
            · exact tb_textChild_ok _ _ _
            · cases row.getD j none with
              | none => exact tb_textChild_ok _ _ _
              | some i =>
                simp only
                cases o.align with
                | some a => exact tb_asChild_ok _ _
                | none =>
                  simp only
                  split
                  · exact tb_asChild_ok _ _
                  · exact tb_getD_items_ok items hitems i)
          (by intro tw' htw; rw [hgw] at htw; cases htw)
        rw [hte] at h1 h3
        refine ⟨tw, body, by omega, ?_, fun l hl => by have := h3 l hl; omega, h4⟩
        rw [h2]
        exact List.append_nil _

end Layout
end RichModel
