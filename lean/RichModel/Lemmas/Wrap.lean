import RichModel.Model.Wrap
import RichModel.Lemmas.Cells
import RichModel.Lemmas.TextOps2
/-!
Helper lemmas for property C02: the `Except` plumbing of `wrap`, `truncate` (every produced line fits), and what
each per-line stage of `Text.wrap` (`rstrip_end`, `rstrip`, `truncate`, `pad_left`, `pad_right`) does to the
styled string `view` of a line (repaired variant of the Text model).
-/
namespace RichModel
namespace Wrap
open Text
variable {σ : Type}

/-! ### Except -/

theorem bind_ok {α β : Type} {x : Except PyErr α} {f : α → Except PyErr β} {b : β} :
    (x >>= f) = .ok b ↔ ∃ a, x = .ok a ∧ f a = .ok b := by
  cases x with
  | error e => simp [bind, Except.bind]
  | ok a => simp [bind, Except.bind]

/-! ### set_cell_size / truncate -/
theorem setCellSizeI_nat (cw : Char → Nat) (s : List Char) (n : Nat) :
    setCellSizeI cw s (n : Int) = setCellSize cw s n := by
  unfold setCellSizeI setCellSize
  simp only
  by_cases h1 : cellLen cw s = n
  · simp [h1]
  · have : ((cellLen cw s : Int) == (n : Int)) = false := by simp; omega
    have h1' : (cellLen cw s == n) = false := by simpa using h1
    simp only [this, h1', Bool.false_eq_true, if_false]
    by_cases h2 : cellLen cw s < n
    · have : (cellLen cw s : Int) < (n : Int) := by omega
      simp only [h2, this, if_true]
      congr 2; omega
    · have : ¬ (cellLen cw s : Int) < (n : Int) := by omega
      simp only [h2, this, if_false]

theorem truncate_some (cw : Char → Nat) (t : Text σ) (w : Int) (ov : Overflow) (pad : Bool) :
    t.truncate cw w (some ov) pad =
      if ov != Overflow.ignore then
        let length : Int := cellLen cw t.plain
        let t1 :=
          if length > w then
            if ov == Overflow.ellipsis then t.setPlain (setCellSizeI cw t.plain (w - 1) ++ ['…'])
            else t.setPlain (setCellSizeI cw t.plain w)
          else t
        if pad && length < w then
          let p := t1.plain ++ List.replicate (w - length).toNat ' '
          { t1 with plain := p, length := (p.length : Int) }
        else t1
      else t := by
  rfl

/-- the last thing `wrap` does to every line makes it fit -/
theorem truncate_fits (cw : Char → Nat) (hsp : cw ' ' = 1) (h2 : ∀ c, cw c ≤ 2) (hel : cw '…' = 1)
    (t : Text σ) (w : Nat) (hw : 1 ≤ w) (ov : Overflow) (hov : ov ≠ Overflow.ignore) (pad : Bool) :
    cellLen cw (t.truncate cw (w : Int) (some ov) pad).plain ≤ w := by
  rw [truncate_some]
  have hne : (ov != Overflow.ignore) = true := by cases ov <;> first | rfl | exact absurd rfl hov
  simp only [hne, if_true]
  by_cases hlong : (cellLen cw t.plain : Int) > (w : Int)
  · have hnp : ¬ ((cellLen cw t.plain : Int) < (w : Int)) := by omega
    simp only [hlong, if_true, hnp, decide_false, Bool.and_false, Bool.false_eq_true, if_false]
    by_cases hell : ov = Overflow.ellipsis
    · subst hell
      simp only [show (Overflow.ellipsis == Overflow.ellipsis) = true from rfl, if_true, setPlain_plain]
      have : ((w : Int) - 1) = ((w - 1 : Nat) : Int) := by omega
      rw [this, setCellSizeI_nat, cellLen_append, (setCellSize_exact cw hsp h2 _ _).1]
      simp [cellLen, hel]; omega
    · have : (ov == Overflow.ellipsis) = false := by cases ov <;> first | rfl | exact absurd rfl hell
      simp only [this, Bool.false_eq_true, if_false, setPlain_plain]
      rw [setCellSizeI_nat, (setCellSize_exact cw hsp h2 _ _).1]; omega
  · simp only [hlong, if_false]
    by_cases hp : pad = true ∧ (cellLen cw t.plain : Int) < (w : Int)
    · obtain ⟨hp1, hp2⟩ := hp
      simp only [hp1, hp2, decide_true, Bool.and_self, if_true]
      rw [cellLen_append, cellLen_replicate, hsp]; omega
    · have : (pad && decide ((cellLen cw t.plain : Int) < (w : Int))) = false := by
        cases pad <;> simp at hp ⊢ <;> omega
      simp only [this, Bool.false_eq_true, if_false]; omega

theorem wrapLine_all_truncated [BEq σ] (wv : WVariant) (cw : Char → Nat) (A : StyleAlg σ) (line : Text σ) (w : Nat)
    (j : Justify) (o : Overflow) (nw : Bool) (ls : List (Text σ))
    (h : wrapLine wv cw A line w j o nw = .ok ls) : ∀ l ∈ ls, ∃ l0 : Text σ, l = l0.truncate cw w (some o) := by
  unfold wrapLine at h
  obtain ⟨nl, _, h⟩ := bind_ok.mp h
  obtain ⟨jl, _, h⟩ := bind_ok.mp h
  cases h
  intro l hl
  obtain ⟨l0, _, rfl⟩ := List.mem_map.mp hl
  exact ⟨l0, rfl⟩

theorem wrapParagraphs_all_truncated [BEq σ] (wv : WVariant) (cw : Char → Nat) (A : StyleAlg σ) (w : Nat)
    (j : Justify) (o : Overflow) (nw : Bool) (ts : Option Nat) : ∀ (ps ls : List (Text σ)),
    wrapParagraphs wv cw A w j o nw ts ps = .ok ls → ∀ l ∈ ls, ∃ l0 : Text σ, l = l0.truncate cw w (some o)
  | [], ls, h => by
    simp only [wrapParagraphs] at h
    cases h; intro l hl; cases hl
  | p :: ps, ls, h => by
    simp only [wrapParagraphs] at h
    obtain ⟨line, _, h⟩ := bind_ok.mp h
    obtain ⟨ls1, h1, h⟩ := bind_ok.mp h
    obtain ⟨more, hmore, h⟩ := bind_ok.mp h
    cases h
    intro l hl
    rcases List.mem_append.mp hl with hl | hl
    · exact wrapLine_all_truncated wv cw A _ w j o nw ls1 h1 l hl
    · exact wrapParagraphs_all_truncated wv cw A w j o nw ts ps more hmore l hl


/-! ### whitespace at the end of a line -/

theorem mem_takeWhile_true {α : Type} (p : α → Bool) : ∀ (l : List α) (c : α), c ∈ l.takeWhile p → p c = true
  | [], c, h => by simp at h
  | a :: l, c, h => by
    simp only [List.takeWhile_cons] at h
    split at h
    · rcases List.mem_cons.mp h with rfl | h'
      · assumption
      · exact mem_takeWhile_true p l c h'
    · simp at h

/-- number of characters left by `str.rstrip()` -/
def rlen (s : List Char) : Nat := (pyRstrip s).length

theorem pyRstrip_eq_take (s : List Char) : pyRstrip s = s.take (rlen s) := by
  unfold rlen pyRstrip
  have h := List.takeWhile_append_dropWhile (p := pyIsSpace) (l := s.reverse)
  have h2 : s = (s.reverse.dropWhile pyIsSpace).reverse ++ (s.reverse.takeWhile pyIsSpace).reverse := by
    have := congrArg List.reverse h
    simp only [List.reverse_append, List.reverse_reverse] at this
    exact this.symm
  generalize (s.reverse.dropWhile pyIsSpace).reverse = a at h2 ⊢
  generalize (s.reverse.takeWhile pyIsSpace).reverse = b at h2
  subst h2
  simp

theorem drop_rlen_space (s : List Char) : ∀ c ∈ s.drop (rlen s), pyIsSpace c = true := by
  unfold rlen pyRstrip
  have h := List.takeWhile_append_dropWhile (p := pyIsSpace) (l := s.reverse)
  have h2 : s = (s.reverse.dropWhile pyIsSpace).reverse ++ (s.reverse.takeWhile pyIsSpace).reverse := by
    have := congrArg List.reverse h
    simp only [List.reverse_append, List.reverse_reverse] at this
    exact this.symm
  have hsp : ∀ c ∈ (s.reverse.takeWhile pyIsSpace).reverse, pyIsSpace c = true := by
    intro c hc
    exact mem_takeWhile_true _ _ _ (List.mem_reverse.mp hc)
  generalize (s.reverse.dropWhile pyIsSpace).reverse = a at h2 ⊢
  generalize (s.reverse.takeWhile pyIsSpace).reverse = b at h2 hsp
  subst h2
  simpa using hsp

theorem rlen_le (s : List Char) : rlen s ≤ s.length := by
  have := congrArg List.length (pyRstrip_eq_take s)
  simp only [List.length_take] at this
  unfold rlen at this ⊢; omega

theorem trailing_add_rlen (s : List Char) : trailingSpaceCount s + rlen s = s.length := by
  unfold trailingSpaceCount rlen pyRstrip
  have h := congrArg List.length (List.takeWhile_append_dropWhile (p := pyIsSpace) (l := s.reverse))
  simp only [List.length_append, List.length_reverse] at h ⊢
  omega

theorem pyRstrip_append_space (a b : List Char) (hb : ∀ c ∈ b, pyIsSpace c = true) : pyRstrip (a ++ b) = pyRstrip a := by
  unfold pyRstrip
  simp only [List.reverse_append]
  rw [List.dropWhile_append_of_pos (by intro c hc; exact hb c (List.mem_reverse.mp hc))]

/-- cutting inside the trailing whitespace does not change what `rstrip` leaves -/
theorem pyRstrip_take (s : List Char) (k : Nat) (hk : rlen s ≤ k) : pyRstrip (s.take k) = pyRstrip s := by
  have hsp := drop_rlen_space s
  have h1 : s.take k = s.take (rlen s) ++ (s.drop (rlen s)).take (k - rlen s) := by
    conv => lhs; rw [← List.take_append_drop (rlen s) s]
    rw [List.take_append, List.take_of_length_le (by simp; omega)]
    simp only [List.length_take]
    have := rlen_le s
    rw [Nat.min_eq_left this]
  have h2 : s = s.take (rlen s) ++ s.drop (rlen s) := (List.take_append_drop _ _).symm
  rw [h1, pyRstrip_append_space _ _ (fun c hc => hsp c (List.mem_of_mem_take hc))]
  conv => rhs; rw [h2]
  rw [pyRstrip_append_space _ _ hsp]

/-! ### the non-whitespace part of a styled string -/

/-- the (character, style) pairs of the non-whitespace characters -/
def nsv {β : Type} (v : List (Char × β)) : List (Char × β) := v.filter (fun p => !pyIsSpace p.1)

theorem nsv_append {β : Type} (a b : List (Char × β)) : nsv (a ++ b) = nsv a ++ nsv b := by
  simp [nsv]

theorem nsv_space {β : Type} (v : List (Char × β)) (h : ∀ p ∈ v, pyIsSpace p.1 = true) : nsv v = [] := by
  simp only [nsv, List.filter_eq_nil_iff]
  intro p hp; simp [h p hp]

theorem nsv_take {β : Type} (v : List (Char × β)) (k : Nat) (h : ∀ p ∈ v.drop k, pyIsSpace p.1 = true) :
    nsv (v.take k) = nsv v := by
  conv => rhs; rw [← List.take_append_drop k v]
  rw [nsv_append, nsv_space _ h, List.append_nil]

theorem annot_space {β : Type} (s : List Char) (f : Nat → β) (k : Nat) (h : ∀ c ∈ s, pyIsSpace c = true) :
    ∀ p ∈ annot s f k, pyIsSpace p.1 = true := by
  intro p hp
  have : p.1 ∈ (annot s f k).map (·.1) := List.mem_map_of_mem hp
  rw [annot_map_fst] at this
  exact h _ this

theorem view_drop_space (t : Text σ) (k : Nat) (hk : rlen t.plain ≤ k) :
    ∀ p ∈ t.view.drop k, pyIsSpace p.1 = true := by
  intro p hp
  have : p.1 ∈ (t.view.drop k).map (·.1) := List.mem_map_of_mem hp
  rw [List.map_drop, view_eq_annot, annot_map_fst] at this
  have h2 : p.1 ∈ t.plain.drop (rlen t.plain) := by
    have : t.plain.drop k = (t.plain.drop (rlen t.plain)).drop (k - rlen t.plain) := by
      rw [List.drop_drop]; congr 1; omega
    rename_i h1
    rw [this] at h1
    exact List.mem_of_mem_drop h1
  exact drop_rlen_space _ _ h2

/-! ### `set_cell_size` only eats trailing whitespace when what is left of it fits -/

theorem popLoop_append (B : List Nat) : ∀ (A : List Nat) (e : Int), e ≤ (A.sum : Int) →
    popLoop (A ++ B) e = ((popLoop A e).1 ++ B, (popLoop A e).2)
  | [], e, h => by
    simp only [List.sum_nil, Int.natCast_zero] at h
    rw [popLoop_nonpos _ _ h, popLoop_nonpos _ _ h]
  | a :: A, e, h => by
    simp only [List.cons_append]
    unfold popLoop
    split
    · apply popLoop_append B A
      simp only [List.sum_cons] at h; push_cast at h; omega
    · rfl

theorem setCellSize_keeps (cw : Char → Nat) (r tl : List Char) (n : Nat)
    (hr : cellLen cw r ≤ n) :
    ∃ k m, setCellSize cw (r ++ tl) n = (r ++ tl).take k ++ List.replicate m ' ' ∧ r.length ≤ k := by
  by_cases hlong : n < cellLen cw (r ++ tl)
  · unfold setCellSize
    have h1 : (cellLen cw (r ++ tl) == n) = false := by simp; omega
    have h3 : ¬ cellLen cw (r ++ tl) < n := by omega
    simp only [h1, Bool.false_eq_true, if_false, h3]
    have hrev : ((r ++ tl).map cw).reverse = (tl.map cw).reverse ++ (r.map cw).reverse := by simp
    have hle : ((cellLen cw (r ++ tl) : Int) - (n : Int)) ≤ (((tl.map cw).reverse.sum : Nat) : Int) := by
      rw [cellLen_append] at hlong ⊢
      simp only [List.sum_reverse]
      unfold cellLen at *
      omega
    rw [hrev, popLoop_append _ _ _ hle]
    generalize popLoop (tl.map cw).reverse ((cellLen cw (r ++ tl) : Int) - (n : Int)) = pr
    obtain ⟨rem, e⟩ := pr
    simp only
    refine ⟨(rem ++ (r.map cw).reverse).length, if e == -1 then 1 else 0, ?_, by simp⟩
    split <;> simp
  · -- not longer than n: the text itself, padded
    unfold setCellSize
    by_cases heq : cellLen cw (r ++ tl) = n
    · have : (cellLen cw (r ++ tl) == n) = true := by simpa using heq
      simp only [this, if_true]
      exact ⟨(r ++ tl).length, 0, by rw [List.take_length]; simp, by simp⟩
    · have h1 : (cellLen cw (r ++ tl) == n) = false := by simpa using heq
      have h3 : cellLen cw (r ++ tl) < n := by omega
      simp only [h1, Bool.false_eq_true, if_false, h3, if_true]
      exact ⟨(r ++ tl).length, n - cellLen cw (r ++ tl), by rw [List.take_length], by simp⟩

end Wrap
end RichModel
