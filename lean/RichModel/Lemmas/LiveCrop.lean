import RichModel.Lemmas.LiveStep
import RichModel.Model.LiveCrop
/-! `vertical_overflow` "crop" / "ellipsis" (Live, Status): only `stop` touches the overflow mode, every displayed frame is
cut to the screen height, so the frame-height clauses of `wf` hold by themselves (deepening 4, target 3). -/
namespace RichModel.Live
open RichModel RichModel.Screen


theorem hooked_overflow (cfg : Cfg) (fails : Nat → Bool) (st : St) (u : List Line) :
    (hooked cfg fails st u).st.overflow = st.overflow := by
  unfold hooked
  cases cfg.kind <;> simp <;> split <;> rfl

theorem hookedFile_overflow (cfg : Cfg) (fails : Nat → Bool) (st : St) (u : List Line) :
    (hookedFile cfg fails st u).st.overflow = st.overflow := by
  unfold hookedFile
  simp; split <;> rfl

theorem doPrint_overflow (cfg : Cfg) (fails : Nat → Bool) (st : St) (u : List Line) :
    (doPrint cfg fails st u).st.overflow = st.overflow := by
  unfold doPrint
  split
  · split
    · exact hooked_overflow ..
    · split
      · exact hookedFile_overflow ..
      · rfl
  · rfl

theorem doRefresh_overflow (cfg : Cfg) (fails : Nat → Bool) (st : St) (hk : cfg.kind ≠ .progress) :
    (doRefresh cfg fails st).st.overflow = st.overflow := by
  unfold doRefresh
  cases h : cfg.kind with
  | progress => exact absurd h hk
  | live => simp; split; (split; exact hooked_overflow ..; rfl); (split; exact doPrint_overflow ..; rfl)
  | status => simp; split; (split; exact hooked_overflow ..; rfl); (split; exact doPrint_overflow ..; rfl)

theorem setBuf_overflow (st : St) (e : Bool) (b : Line) : (setBuf st e b).overflow = st.overflow := by
  unfold setBuf; split <;> rfl

theorem doWrite_overflow (cfg : Cfg) (fails : Nat → Bool) (st : St) (e : Bool) (ls : List Line) (t : Line) :
    (doWrite cfg fails st e ls t).st.overflow = st.overflow := by
  unfold doWrite
  split
  · rfl
  · cases ls with
    | nil => exact setBuf_overflow ..
    | cons l rest => simp only; rw [doPrint_overflow, setBuf_overflow]

theorem flushLive_overflow (cfg : Cfg) (fails : Nat → Bool) (st : St) (e : Bool) :
    (flushLive cfg fails st e).st.overflow = st.overflow := by
  unfold flushLive
  split
  · simp only
    split
    · exact doPrint_overflow ..
    · simp only; rw [setBuf_overflow, doPrint_overflow]
  · rfl

theorem doStart_overflow (cfg : Cfg) (fails : Nat → Bool) (st : St) (hk : cfg.kind ≠ .progress) :
    (doStart cfg fails st).st.overflow = st.overflow := by
  unfold doStart
  split
  · rfl
  · cases h : cfg.kind with
    | progress => exact absurd h hk
    | live => simp [enableRedirect_overflow]
    | status => simp [enableRedirect_overflow]

/-- Only `stop` touches `vertical_overflow` (Live / Status). -/
theorem step_overflow (cfg : Cfg) (fails : Nat → Bool) (st : St) (op : Op) (hk : cfg.kind ≠ .progress) (hop : op ≠ .stop) :
    (step cfg fails st op).st.overflow = st.overflow := by
  cases op with
  | stop => exact absurd rfl hop
  | start => exact doStart_overflow cfg fails st hk
  | print ls => exact doPrint_overflow ..
  | printBare => simp only [Live.step]; split; rfl; exact doPrint_overflow ..
  | refresh => exact doRefresh_overflow cfg fails st hk
  | update f r =>
    simp only [Live.step]
    cases h : cfg.kind with
    | progress => exact absurd h hk
    | live => simp only; split; (rw [doRefresh_overflow _ _ _ hk]); rfl
    | status => simp only; rw [doRefresh_overflow _ _ _ hk]
  | addTask d v t =>
    simp only [Live.step]
    split
    · rw [doRefresh_overflow _ _ _ hk]; rfl
    · simp only [bumpIndex]; rw [doRefresh_overflow _ _ _ hk]; rfl
  | updateTask i e r =>
    simp only [Live.step]
    split
    · rfl
    · split; (rw [doRefresh_overflow _ _ _ hk]); rfl
  | removeTask i => simp only [Live.step]; split <;> rfl
  | resize w => rfl
  | write e ls t => exact doWrite_overflow ..

/-- Frames of a Live / Status with `crop` or `ellipsis` always fit the screen. -/
theorem shown_fits (cfg : Cfg) (st : St) (hk : cfg.kind ≠ .progress) (hH : 1 ≤ cfg.height)
    (hov : st.overflow ≠ .visible) : (shown cfg st).length ≤ cfg.height := by
  have : shown cfg st = liveFrame cfg.cw (curWidth cfg st) cfg.height st.overflow st.renderable := by
    unfold shown; cases h : cfg.kind <;> simp_all
  rw [this]
  unfold liveFrame
  simp only [List.length_map]
  split
  · cases h : st.overflow with
    | crop => simp; omega
    | ellipsis => simp; omega
    | visible => exact absurd h hov
  · simp; omega

theorem flushFits_of_crop (cfg : Cfg) (st : St) (hk : cfg.kind ≠ .progress) (hH : 1 ≤ cfg.height)
    (hov : st.overflow ≠ .visible) : flushFits cfg st = true := by
  unfold flushFits
  have h1 : (flushLive cfg noFault { st with started := false } false).st.overflow ≠ .visible := by
    rw [flushLive_overflow]; exact hov
  have h2 : (flushLive cfg noFault (flushLive cfg noFault { st with started := false } false).st true).st.overflow ≠ .visible := by
    rw [flushLive_overflow]; exact h1
  simp only [Bool.and_eq_true, Bool.or_eq_true, decide_eq_true_eq]
  exact ⟨Or.inr (shown_fits cfg _ hk hH h1), Or.inr (shown_fits cfg _ hk hH h2)⟩

/-- For `crop` / `ellipsis` the frame-height clauses of `wfOps` are automatic. -/
theorem wfOps_of_crop (cfg : Cfg) (hk : cfg.kind ≠ .progress) (hH : 1 ≤ cfg.height) (h : List Op) :
    ∀ st : St, st.overflow ≠ .visible → wfOpsNoFit cfg st h = true → wfOps cfg st h = true := by
  induction h with
  | nil => intro st _ _; rfl
  | cons op rest ih =>
    intro st hov hw
    unfold wfOpsNoFit at hw
    unfold wfOps
    by_cases hop : op = .stop
    · simp only [hop, if_true, Bool.and_eq_true, Bool.or_eq_true] at hw ⊢
      exact ⟨⟨⟨hw.1.1, hw.1.2⟩, Or.inr (flushFits_of_crop cfg st hk hH hov)⟩, hw.2⟩
    · simp only [hop, if_false, Bool.and_eq_true, Bool.or_eq_true, decide_eq_true_eq] at hw ⊢
      have ho : (step cfg noFault st op).st.overflow ≠ .visible := by rw [step_overflow cfg noFault st op hk hop]; exact hov
      exact ⟨⟨⟨hw.1.1, hw.1.2⟩, Or.inr (shown_fits cfg _ hk hH ho)⟩, ih _ ho hw.2⟩

end RichModel.Live
