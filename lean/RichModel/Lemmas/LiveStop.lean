import RichModel.Lemmas.LiveInv
/-!
The final `stop` of a well-formed history: last refresh (rendered `visible`), line feed, cursor shown,
and — for a transient display — the frame erased again.
-/
namespace RichModel.Live
open RichModel RichModel.Screen

theorem disableRedirect_shape (st : St) : (disableRedirect st).shape = st.shape := by
  obtain ⟨_, _, _, _, _, _, _, _, rso, rse, _, _, _⟩ := st
  cases rso <;> cases rse <;> rfl

theorem disableRedirect_renderable (st : St) : (disableRedirect st).renderable = st.renderable := by
  obtain ⟨_, _, _, _, _, _, _, _, rso, rse, _, _, _⟩ := st
  cases rso <;> cases rse <;> rfl

theorem disableRedirect_overflow (st : St) : (disableRedirect st).overflow = st.overflow := by
  obtain ⟨_, _, _, _, _, _, _, _, rso, rse, _, _, _⟩ := st
  cases rso <;> cases rse <;> rfl

theorem shown_cleanup (cfg : Cfg) (st : St) : shown cfg (cleanup st) = shown cfg st := by
  unfold shown cleanup
  simp only [disableRedirect_shape, disableRedirect_renderable, disableRedirect_overflow]

theorem cleanup_shape (st : St) : (cleanup st).shape = st.shape := by
  unfold cleanup; exact disableRedirect_shape st

/-- The line feed after the last frame: the frame's rows become ordinary rows above a blank zone. -/
theorem shown_lf {H : Nat} {s : Screen} {P : List Line} {F : Frame} {k : Nat} (h : Shown s P F k) :
    AtBlank (Screen.step H s .lf) (P ++ region F) (max k 1) := by
  have hpos := region_length_pos F
  have hrow : s.row + 1 = (P ++ region F).length := by rw [List.length_append]; exact h.row
  refine ⟨?_, by simp only [Screen.step]; exact hrow, rfl, by omega⟩
  simp only [Screen.step, h.rows]
  by_cases hk : 1 ≤ k
  · have : s.row + 1 < (P ++ region F ++ List.replicate k []).length := by
      rw [hrow]; simp; omega
    simp only [this, if_true]
    have : max k 1 = k := by omega
    rw [this]
  · have hk0 : k = 0 := by omega
    subst hk0
    have : ¬ (s.row + 1 < (P ++ region F ++ List.replicate 0 []).length) := by
      rw [hrow]; simp
    simp only [this, if_false]
    simp

theorem stopSt_shape (cfg : Cfg) (st : St) : (stopSt cfg st).shape = st.shape := by
  unfold stopSt; cases cfg.kind <;> rfl

theorem stopSt_hooks (cfg : Cfg) (st : St) : (stopSt cfg st).hooks = st.hooks := by
  unfold stopSt; cases cfg.kind <;> rfl

theorem stopSt_started (cfg : Cfg) (st : St) : (stopSt cfg st).started = false := by
  unfold stopSt; cases cfg.kind <;> rfl

/-- `doStop` when nothing fails and the display is started. -/
theorem doStop_started (cfg : Cfg) (st : St) (hst : st.started = true) (hh : st.hooks > 0) :
    ∃ st1 : St, st1.shape = st.shape ∧ st1.hooks = st.hooks ∧ st1.started = false ∧
      HookedRes cfg st1 [] (doRefresh cfg noFault st1) ∧
      stopFrame cfg st = shown cfg (doRefresh cfg noFault st1).st ∧
      doStop cfg noFault st =
        { st := resetSt cfg (cleanup (doRefresh cfg noFault st1).st),
          out := (doRefresh cfg noFault st1).out ++ [.lf, .showCursor] ++
            (if cfg.transient then restoreCursor (cleanup (doRefresh cfg noFault st1).st).shape else []) } := by
  have hh1 : (stopSt cfg st).hooks > 0 := by rw [stopSt_hooks]; exact hh
  have hres := (doRefresh_noFault cfg (stopSt cfg st)).1 hh1
  refine ⟨stopSt cfg st, stopSt_shape cfg st, stopSt_hooks cfg st, stopSt_started cfg st, hres, rfl, ?_⟩
  simp only [doStop, hst, Bool.not_true, Bool.false_eq_true, if_false, stopTail]
  rw [hres.err]

/-- The final stop: the screen shows the printed lines, then the last frame (nothing if transient),
then only blank rows; the cursor never went above the first row under the printed lines and is visible. -/
theorem good_stop {cfg : Cfg} {st : St} {v : View} {s : Screen} (g : Good cfg st v s)
    (hfit : st.started = true → cfg.transient = true → (stopFrame cfg st).length + 1 ≤ cfg.height) :
    ∃ s', Run cfg.height v.printed.length s (doStop cfg noFault st).out s' ∧
      (∃ k, s'.rows = (viewStop cfg st v).printed ++ (viewStop cfg st v).frame ++ List.replicate k []) ∧
      (st.started = true → s'.visible = true) := by
  by_cases hst : st.started = true
  · have hh : st.hooks > 0 := by have := g.hooks; rw [hst] at this; simp at this; omega
    obtain ⟨st1, hs1, hh1, _, hres, eframe, estop⟩ := doStop_started cfg st hst hh
    rw [estop]
    rw [eframe] at hfit
    simp only [cleanup_shape]
    generalize hr : doRefresh cfg noFault st1 = r at hres hfit ⊢
    -- the last refresh
    obtain ⟨s1, k1, hrun1, hs1', hk1, hv1⟩ := hooked_screen (P := v.printed) (F := v.frame) g.shown (by rw [hs1]; exact g.shape) hres
    simp only [List.append_nil] at hs1'
    -- the line feed and the cursor
    have hrow1 := shown_row_ge hs1'
    obtain ⟨s2, hs2⟩ : ∃ s2, s2 = Screen.step cfg.height s1 .lf := ⟨_, rfl⟩
    have hb2 : AtBlank s2 (v.printed ++ region (shown cfg r.st)) (max k1 1) := by
      rw [hs2]; exact shown_lf (H := cfg.height) hs1'
    obtain ⟨s3, hs3⟩ : ∃ s3, s3 = Screen.step cfg.height s2 .showCursor := ⟨_, rfl⟩
    have hrows3 : s3.rows = s2.rows := by rw [hs3]; rfl
    have hrow3 : s3.row = s2.row := by rw [hs3]; rfl
    have hcol3 : s3.col = s2.col := by rw [hs3]; rfl
    have hvis3 : s3.visible = true := by rw [hs3]; rfl
    have hrun2 : Run cfg.height v.printed.length s (r.out ++ [.lf, .showCursor]) s3 := by
      rw [hs3, hs2]
      refine Run.append hrun1 (Run.cons ?_ (Run.one ?_))
      · simp [Screen.step]; omega
      · simp [Screen.step]; omega
    have hvs : viewStop cfg st v = { v with frame := if cfg.transient then [] else shown cfg r.st } := by
      simp only [viewStop, hst, if_true, eframe, hr]
    rw [hvs]
    by_cases htr : cfg.transient = true
    · simp only [htr, if_true]
      have hF := hfit hst htr
      -- erase the frame again
      cases hshape : r.st.shape with
      | none =>
        have hF0 : shown cfg r.st = [] := by have := hres.shape; rw [hshape] at this; exact this
        refine ⟨s3, by simpa [restoreCursor] using hrun2, ⟨max k1 1 + 1, ?_⟩, fun _ => hvis3⟩
        rw [hrows3, hb2.rows, hF0]
        simp [region, List.replicate_succ]
      | some wh =>
        obtain ⟨w, h⟩ := wh
        have hh' : h = (shown cfg r.st).length := by have := hres.shape; rw [hshape] at this; exact this
        subst hh'
        obtain ⟨s4, hs4⟩ : ∃ s4, s4 = Screen.step cfg.height s3 .cr := ⟨_, rfl⟩
        have hrows4 : s4.rows = s2.rows := by rw [hs4]; exact hrows3
        have hrow4 : s4.row = s2.row := by rw [hs4]; exact hrow3
        have hcol4 : s4.col = 0 := by rw [hs4]; rfl
        have hvis4 : s4.visible = true := by rw [hs4]; exact hvis3
        have hrun4 : Run cfg.height v.printed.length s (r.out ++ [.lf, .showCursor] ++ [.cr]) s4 := by
          refine Run.append hrun2 ?_
          rw [hs4]; refine Run.one ?_
          show v.printed.length ≤ s3.row
          rw [hrow3, hb2.row]; simp
        cases hF1 : shown cfg r.st with
        | nil =>
          refine ⟨s4, ?_, ⟨max k1 1 + 1, ?_⟩, fun _ => hvis4⟩
          · simpa [restoreCursor, hF1, eraseUp] using hrun4
          · rw [hrows4, hb2.rows, hF1]
            simp [region, List.replicate_succ]
        | cons l rest =>
          rw [hF1] at hb2 hF hk1
          simp only [region] at hb2 hk1
          obtain ⟨s', hrun5, hb5, hv5⟩ := erase_up (H := cfg.height) v.printed (l :: rest).length (l :: rest)
            s4 (max k1 1) rfl (by rw [hrows4, hb2.rows]) (by rw [hrow4, hb2.row, List.length_append])
            hcol4 (by omega) (by simp at hF hk1 ⊢; omega)
          refine ⟨s', ?_, ⟨(l :: rest).length + max k1 1, by rw [hb5.rows]; simp⟩, fun _ => by rw [hv5]; exact hvis4⟩
          have : r.out ++ [TermOp.lf, TermOp.showCursor] ++ restoreCursor (some (w, (l :: rest).length)) =
              (r.out ++ [.lf, .showCursor] ++ [.cr]) ++ eraseOps (l :: rest).length := by
            simp [restoreCursor, eraseUp_eq]
          rw [this]
          exact Run.append hrun4 hrun5
    · have htr' : cfg.transient = false := by simpa using htr
      simp only [htr', Bool.false_eq_true, if_false, List.append_nil]
      refine ⟨s3, hrun2, ?_, fun _ => hvis3⟩
      cases hF1 : shown cfg r.st with
      | nil =>
        refine ⟨max k1 1 + 1, ?_⟩
        rw [hrows3, hb2.rows, hF1]
        simp [region, List.replicate_succ]
      | cons l rest =>
        refine ⟨max k1 1, ?_⟩
        rw [hrows3, hb2.rows, hF1]
        simp [region]
  · have hst' : st.started = false := by simpa using hst
    have e : doStop cfg noFault st = { st := st } := by simp [doStop, hst']
    rw [e]
    obtain ⟨k, hs, _⟩ := g.shown
    refine ⟨s, Run.nil _ _ _, ?_, fun h => by rw [hst'] at h; cases h⟩
    simp only [viewStop, hst', Bool.false_eq_true, if_false]
    exact shown_rows hs

theorem disableRedirect_started (st : St) : (disableRedirect st).started = st.started := by
  obtain ⟨_, _, _, _, _, _, _, _, rso, rse, _, _, _⟩ := st
  cases rso <;> cases rse <;> rfl

theorem atBlank_of_eq {s s' : Screen} {P : List Line} {m : Nat} (h : AtBlank s P m)
    (h1 : s'.rows = s.rows) (h2 : s'.row = s.row) (h3 : s'.col = 0) : AtBlank s' P m :=
  ⟨by rw [h1]; exact h.rows, by rw [h2]; exact h.row, h3, h.pos⟩

/-- Where an effective `stop` lands: on a blank zone right below the finished output (printed lines plus
what the display leaves, `leftBy`), all of it within the screen, cursor visible. -/
theorem stop_landing {cfg : Cfg} {st : St} {v : View} {s : Screen} (hH : 1 ≤ cfg.height) (g : Good cfg st v s)
    (hst : st.started = true)
    (hfit : cfg.transient = true → (stopFrame cfg st).length + 1 ≤ cfg.height) :
    ∃ s' m, Run cfg.height v.printed.length s (doStop cfg noFault st).out s' ∧
      AtBlank s' (v.printed ++ leftBy cfg (stopFrame cfg st)) m ∧ m ≤ cfg.height ∧ s'.visible = true ∧
      (doStop cfg noFault st).st.started = false ∧ (doStop cfg noFault st).st.hooks = 0 ∧
      (cfg.resetShape = true → (doStop cfg noFault st).st.shape = none) := by
  have hh : st.hooks > 0 := by have := g.hooks; rw [hst] at this; simp at this; omega
  have hh1' : st.hooks = 1 := by have := g.hooks; rw [hst] at this; simpa using this
  obtain ⟨st1, hs1, hh1, hst1, hres, eframe, estop⟩ := doStop_started cfg st hst hh
  rw [estop]
  rw [eframe] at hfit ⊢
  simp only [cleanup_shape]
  -- control fields of the final state
  have hfin : (resetSt cfg (cleanup (doRefresh cfg noFault st1).st)).hooks = 0 ∧
      (cfg.resetShape = true → (resetSt cfg (cleanup (doRefresh cfg noFault st1).st)).shape = none) := by
    constructor
    · have : (cleanup (doRefresh cfg noFault st1).st).hooks = 0 := by
        show (doRefresh cfg noFault st1).st.hooks - 1 = 0
        rw [hres.hooks, hh1, hh1']
      unfold resetSt; split <;> exact this
    · intro hr; unfold resetSt; simp [hr]
  have hfinS : (resetSt cfg (cleanup (doRefresh cfg noFault st1).st)).started = false := by
    have hc : (cleanup (doRefresh cfg noFault st1).st).started = (doRefresh cfg noFault st1).st.started := by
      show (disableRedirect (doRefresh cfg noFault st1).st).started = _
      exact disableRedirect_started _
    have hs : (resetSt cfg (cleanup (doRefresh cfg noFault st1).st)).started = (cleanup (doRefresh cfg noFault st1).st).started := by
      unfold resetSt; split <;> rfl
    rw [hs, hc, hres.started, hst1]
  generalize hr : doRefresh cfg noFault st1 = r at hres hfit hfin hfinS ⊢
  obtain ⟨s1, k1, hrun1, hs1', hk1, hv1⟩ := hooked_screen (P := v.printed) (F := v.frame) g.shown (by rw [hs1]; exact g.shape) hres
  simp only [List.append_nil] at hs1'
  have hrow1 := shown_row_ge hs1'
  obtain ⟨s2, hs2⟩ : ∃ s2, s2 = Screen.step cfg.height s1 .lf := ⟨_, rfl⟩
  have hb2 : AtBlank s2 (v.printed ++ region (shown cfg r.st)) (max k1 1) := by
    rw [hs2]; exact shown_lf (H := cfg.height) hs1'
  obtain ⟨s3, hs3⟩ : ∃ s3, s3 = Screen.step cfg.height s2 .showCursor := ⟨_, rfl⟩
  have hb3 : AtBlank s3 (v.printed ++ region (shown cfg r.st)) (max k1 1) :=
    atBlank_of_eq hb2 (by rw [hs3]; rfl) (by rw [hs3]; rfl) (by rw [hs3]; exact hb2.col)
  have hvis3 : s3.visible = true := by rw [hs3]; rfl
  have hrun2 : Run cfg.height v.printed.length s (r.out ++ [.lf, .showCursor]) s3 := by
    rw [hs3, hs2]
    refine Run.append hrun1 (Run.cons ?_ (Run.one ?_))
    · simp [Screen.step]; omega
    · simp [Screen.step]; omega
  have hm3 : max k1 1 ≤ cfg.height := by
    have := region_length_pos (shown cfg r.st); omega
  by_cases htr : cfg.transient = true
  · have hF := hfit htr
    simp only [htr, if_true, leftBy]
    cases hshape : r.st.shape with
    | none =>
      have hF0 : shown cfg r.st = [] := by have := hres.shape; rw [hshape] at this; exact this
      refine ⟨s3, max k1 1, by simpa [restoreCursor] using hrun2, ?_, hm3, hvis3, hfinS, hfin.1, hfin.2⟩
      rw [hF0] at hb3 ⊢; simpa [region] using hb3
    | some wh =>
      obtain ⟨w, h⟩ := wh
      have hh' : h = (shown cfg r.st).length := by have := hres.shape; rw [hshape] at this; exact this
      subst hh'
      obtain ⟨s4, hs4⟩ : ∃ s4, s4 = Screen.step cfg.height s3 .cr := ⟨_, rfl⟩
      have hb4 : AtBlank s4 (v.printed ++ region (shown cfg r.st)) (max k1 1) :=
        atBlank_of_eq hb3 (by rw [hs4]; rfl) (by rw [hs4]; rfl) (by rw [hs4]; rfl)
      have hvis4 : s4.visible = true := by rw [hs4]; exact hvis3
      have hrun4 : Run cfg.height v.printed.length s (r.out ++ [.lf, .showCursor] ++ [.cr]) s4 := by
        refine Run.append hrun2 ?_
        rw [hs4]; refine Run.one ?_
        show v.printed.length ≤ s3.row
        rw [hb3.row]; simp
      cases hF1 : shown cfg r.st with
      | nil =>
        refine ⟨s4, max k1 1, ?_, ?_, hm3, hvis4, hfinS, hfin.1, hfin.2⟩
        · simpa [restoreCursor, hF1, eraseUp] using hrun4
        · rw [hF1] at hb4; simpa [region] using hb4
      | cons l rest =>
        rw [hF1] at hb4 hF hk1
        simp only [region] at hb4 hk1
        obtain ⟨s', hrun5, hb5, hv5⟩ := erase_up (H := cfg.height) v.printed (l :: rest).length (l :: rest)
          s4 (max k1 1) rfl (by rw [hb4.rows]) (by rw [hb4.row, List.length_append])
          hb4.col (by omega) (by simp at hF hk1 ⊢; omega)
        refine ⟨s', (l :: rest).length + max k1 1, ?_, by simpa using hb5, by simp at hF hk1 ⊢; omega,
          by rw [hv5]; exact hvis4, hfinS, hfin.1, hfin.2⟩
        have : r.out ++ [TermOp.lf, TermOp.showCursor] ++ restoreCursor (some (w, (l :: rest).length)) =
            (r.out ++ [.lf, .showCursor] ++ [.cr]) ++ eraseOps (l :: rest).length := by
          simp [restoreCursor, eraseUp_eq]
        rw [this]
        exact Run.append hrun4 hrun5
  · have htr' : cfg.transient = false := by simpa using htr
    simp only [htr', Bool.false_eq_true, if_false, List.append_nil, leftBy]
    exact ⟨s3, max k1 1, hrun2, hb3, hm3, hvis3, hfinS, hfin.1, hfin.2⟩

/-- An effective `stop` of the repaired code re-establishes the invariant: what the display left is
finished output, nothing is on display, no shape is recorded — a later `start` begins afresh. -/
theorem good_stop_good {cfg : Cfg} {st : St} {v : View} {s : Screen} (hH : 1 ≤ cfg.height)
    (hreset : cfg.resetShape = true) (g : Good cfg st v s)
    (hfit : st.started = true → cfg.transient = true → (stopFrame cfg st).length + 1 ≤ cfg.height) :
    ∃ s', Run cfg.height v.printed.length s (doStop cfg noFault st).out s' ∧
      Good cfg (doStop cfg noFault st).st (viewStopM cfg st v) s' ∧
      (st.started = true → s'.visible = true) := by
  by_cases hst : st.started = true
  · obtain ⟨s', m, hrun, hb, hm, hvis, hns, hnh, hshape⟩ := stop_landing hH g hst (hfit hst)
    refine ⟨s', hrun, ⟨⟨m - 1, ?_, ?_⟩, ?_, ?_, ?_⟩, fun _ => hvis⟩
    · simp only [viewStopM, hst, if_true]; exact atBlank_shown_nil hb
    · simp only [viewStopM, hst, if_true, region]; have := hb.pos; simp; omega
    · simp only [viewStopM, hst, if_true]; rw [hshape hreset]; rfl
    · rw [hns, hnh]; rfl
    · intro _; simp only [viewStopM, hst, if_true]; exact ⟨trivial, hshape hreset⟩
  · have hst' : st.started = false := by simpa using hst
    have e : doStop cfg noFault st = { st := st } := by simp [doStop, hst']
    rw [e]
    refine ⟨s, Run.nil _ _ _, ?_, fun h => by rw [hst'] at h; cases h⟩
    simp only [viewStopM, hst', Bool.false_eq_true, if_false]
    exact g

end RichModel.Live
