import RichModel.Lemmas.LiveInv
/-!
The final `stop` of a well-formed history: last refresh (rendered `visible`), line feed, cursor shown,
and — for a transient display — the frame erased again.
-/
namespace RichModel.Live
open RichModel RichModel.Screen

theorem disableRedirect_shape (st : St) : (disableRedirect st).shape = st.shape := by
  obtain ⟨_, _, _, _, _, _, _, _, rso, rse, _, _, _, _, _, _⟩ := st
  cases rso <;> cases rse <;> rfl

theorem disableRedirect_renderable (st : St) : (disableRedirect st).renderable = st.renderable := by
  obtain ⟨_, _, _, _, _, _, _, _, rso, rse, _, _, _, _, _, _⟩ := st
  cases rso <;> cases rse <;> rfl

theorem disableRedirect_overflow (st : St) : (disableRedirect st).overflow = st.overflow := by
  obtain ⟨_, _, _, _, _, _, _, _, rso, rse, _, _, _, _, _, _⟩ := st
  cases rso <;> cases rse <;> rfl

theorem disableRedirect_width (st : St) : (disableRedirect st).width = st.width := by
  obtain ⟨_, _, _, _, _, _, _, _, rso, rse, _, _, _, _, _, _⟩ := st
  cases rso <;> cases rse <;> rfl

theorem shown_cleanup (cfg : Cfg) (st : St) : shown cfg (cleanup st) = shown cfg st := by
  unfold shown cleanup curWidth
  simp only [disableRedirect_shape, disableRedirect_renderable, disableRedirect_overflow, disableRedirect_width]

theorem cleanup_shape (st : St) : (cleanup st).shape = st.shape := by
  unfold cleanup; exact disableRedirect_shape st

/-- The line feed after the last frame: the frame's rows become ordinary rows above a blank zone. -/
theorem shown_lf {H : Nat} {s : Screen} {P : List Line} {F : Frame} {k : Nat} (h : Shown s P F k) :
    AtBlank (Screen.step H s .lf) (P ++ region F) (max k 1) := by
  have hpos := region_length_pos F
  have hrow : s.row + 1 = (P ++ region F).length := by rw [List.length_append]; exact h.row
  refine ⟨?_, by simp only [Screen.step]; exact hrow, rfl, by omega⟩
  simp only [Screen.step, h.rows]
  by_cases hk : 1 ≤ k
  · have : s.row + 1 < (P ++ region F ++ List.replicate k []).length := by
      rw [hrow]; simp; omega
    simp only [this, if_true]
    have : max k 1 = k := by omega
    rw [this]
  · have hk0 : k = 0 := by omega
    subst hk0
    have : ¬ (s.row + 1 < (P ++ region F ++ List.replicate 0 []).length) := by
      rw [hrow]; simp
    simp only [this, if_false]
    simp

theorem stopSt_shape (cfg : Cfg) (st : St) : (stopSt cfg st).shape = st.shape := by
  unfold stopSt; cases cfg.kind <;> rfl

theorem stopSt_hooks (cfg : Cfg) (st : St) : (stopSt cfg st).hooks = st.hooks := by
  unfold stopSt; cases cfg.kind <;> rfl

theorem stopSt_started (cfg : Cfg) (st : St) : (stopSt cfg st).started = false := by
  unfold stopSt; cases cfg.kind <;> rfl

theorem stopSt_idem (cfg : Cfg) (st : St) : stopSt cfg { st with started := false } = stopSt cfg st := by
  unfold stopSt; cases cfg.kind <;> rfl

theorem flushLive_clean (cfg : Cfg) (fails : Nat → Bool) (st : St) (err : Bool) (h : getBuf st err = []) :
    flushLive cfg fails st err = { st := st } := by
  simp [flushLive, h]

theorem flushDead_clean (cfg : Cfg) (fails : Nat → Bool) (st : St) (err : Bool) (h : getBuf st err = []) :
    flushDead cfg fails st err = { st := st } := by
  simp [flushDead, h]

theorem dropFlush_clean (cfg : Cfg) (fails : Nat → Bool) (st : St) (h1 : st.bufOut = []) (h2 : st.bufErr = []) :
    dropFlush cfg fails st = { st := st } := by
  have e1 : flushDead cfg fails st false = { st := st } := flushDead_clean cfg fails st false (by simpa [getBuf] using h1)
  have e2 : flushDead cfg fails st true = { st := st } := flushDead_clean cfg fails st true (by simpa [getBuf] using h2)
  simp [dropFlush, e1, e2]

theorem finOut_nil (cfg : Cfg) (ha : cfg.ansi = true) : finOut cfg [] = [.showCursor] := by
  unfold finOut showOp; cases cfg.kind <;> simp [ha]

/-- `doStop` when nothing fails, the display is started and no text is pending in the proxies. -/
theorem doStop_started (cfg : Cfg) (hc : cfg.plain = true) (st : St) (hst : st.started = true) (hh : st.hooks > 0)
    (hbo : st.bufOut = []) (hbe : st.bufErr = []) :
    ∃ st1 : St, st1.shape = st.shape ∧ st1.hooks = st.hooks ∧ st1.started = false ∧
      HookedRes cfg st1 [] (doRefresh cfg noFault st1) ∧
      stopFrame cfg st = shown cfg (doRefresh cfg noFault st1).st ∧
      doStop cfg noFault st =
        { st := resetSt cfg (cleanup (doRefresh cfg noFault st1).st),
          out := (doRefresh cfg noFault st1).out ++ [.lf, .showCursor] ++
            (if cfg.transient then restoreCursor cfg.blankFix (cleanup (doRefresh cfg noFault st1).st).shape else []) } := by
  have hh1 : (stopSt cfg st).hooks > 0 := by rw [stopSt_hooks]; exact hh
  have hres := (doRefresh_noFault cfg hc (stopSt cfg st)).1 hh1
  refine ⟨stopSt cfg st, stopSt_shape cfg st, stopSt_hooks cfg st, stopSt_started cfg st, hres, rfl, ?_⟩
  have hb := doRefresh_bufs cfg noFault (stopSt cfg st)
  have hso : (stopSt cfg st).bufOut = [] := by unfold stopSt; cases cfg.kind <;> exact hbo
  have hse : (stopSt cfg st).bufErr = [] := by unfold stopSt; cases cfg.kind <;> exact hbe
  -- both variants of `stop` reduce to the tail after the last refresh
  have key : doStop cfg noFault st = stopTail cfg noFault (doRefresh cfg noFault (stopSt cfg st)) := by
    by_cases hf : cfg.flushFix = true
    · have e1 : flushLive cfg noFault { st with started := false } false = { st := { st with started := false } } :=
        flushLive_clean _ _ _ _ (by simpa [getBuf] using hbo)
      have e2 : flushLive cfg noFault { st with started := false } true = { st := { st with started := false } } :=
        flushLive_clean _ _ _ _ (by simpa [getBuf] using hbe)
      simp only [doStop, hst, hf, Bool.not_true, Bool.false_eq_true, if_false, if_true, e1, e2, stopSt_idem]
      simp
    · have hf' : cfg.flushFix = false := by simpa using hf
      simp [doStop, hst, hf']
  rw [key]
  simp only [stopTail, hres.err]
  rw [dropFlush_clean cfg noFault _ (by rw [hb.1, hso]) (by rw [hb.2, hse])]
  simp [finOut_nil cfg (plain_ansi hc), plain_terminal hc, plain_ansi hc]

theorem disableRedirect_started (st : St) : (disableRedirect st).started = st.started := by
  obtain ⟨_, _, _, _, _, _, _, _, rso, rse, _, _, _, _, _, _⟩ := st
  cases rso <;> cases rse <;> rfl

theorem atBlank_of_eq {s s' : Screen} {P : List Line} {m : Nat} (h : AtBlank s P m)
    (h1 : s'.rows = s.rows) (h2 : s'.row = s.row) (h3 : s'.col = 0) : AtBlank s' P m :=
  ⟨by rw [h1]; exact h.rows, by rw [h2]; exact h.row, h3, h.pos⟩

/-- Where an effective `stop` lands: on a blank zone right below the finished output (printed lines plus
what the display leaves, `leftBy`), all of it within the screen, cursor visible. -/
theorem stop_landing {cfg : Cfg} {st : St} {v : View} {s : Screen} (hc : cfg.plain = true) (hH : 1 ≤ cfg.height) (g : Good cfg st v s)
    (hst : st.started = true) (hbo : st.bufOut = []) (hbe : st.bufErr = [])
    (hfit : cfg.transient = true → restoreCount cfg.blankFix (stopFrame cfg st).length + 1 ≤ cfg.height) :
    ∃ s' m, Run cfg.height v.printed.length s (doStop cfg noFault st).out s' ∧
      AtBlank s' ((v.printed ++ leftBy cfg (stopFrame cfg st)).map (cells cfg.cw)) m ∧ m ≤ cfg.height ∧ s'.visible = true ∧
      (doStop cfg noFault st).st.started = false ∧ (doStop cfg noFault st).st.hooks = 0 ∧
      (cfg.resetShape = true → (doStop cfg noFault st).st.shape = none) := by
  have hh : st.hooks > 0 := by have := g.hooks; rw [hst] at this; simp at this; omega
  have hh1' : st.hooks = 1 := by have := g.hooks; rw [hst] at this; simpa using this
  obtain ⟨st1, hs1, hh1, hst1, hres, eframe, estop⟩ := doStop_started cfg hc st hst hh hbo hbe
  rw [estop]
  rw [eframe] at hfit ⊢
  simp only [cleanup_shape]
  -- control fields of the final state
  have hfin : (resetSt cfg (cleanup (doRefresh cfg noFault st1).st)).hooks = 0 ∧
      (cfg.resetShape = true → (resetSt cfg (cleanup (doRefresh cfg noFault st1).st)).shape = none) := by
    constructor
    · have : (cleanup (doRefresh cfg noFault st1).st).hooks = 0 := by
        show (doRefresh cfg noFault st1).st.hooks - 1 = 0
        rw [hres.hooks, hh1, hh1']
      unfold resetSt; split <;> exact this
    · intro hr; unfold resetSt; simp [hr]
  have hfinS : (resetSt cfg (cleanup (doRefresh cfg noFault st1).st)).started = false := by
    have hc : (cleanup (doRefresh cfg noFault st1).st).started = (doRefresh cfg noFault st1).st.started := by
      show (disableRedirect (doRefresh cfg noFault st1).st).started = _
      exact disableRedirect_started _
    have hs : (resetSt cfg (cleanup (doRefresh cfg noFault st1).st)).started = (cleanup (doRefresh cfg noFault st1).st).started := by
      unfold resetSt; split <;> rfl
    rw [hs, hc, hres.started, hst1]
  generalize hr : doRefresh cfg noFault st1 = r at hres hfit hfin hfinS ⊢
  obtain ⟨s1, k1, hrun1, hs1', hk1, hv1⟩ := hooked_screen (P := v.printed) (F := v.frame) g.shown (by rw [hs1]; exact g.shape) hres
  simp only [List.append_nil] at hs1'
  -- everything below is about the rows of cells on the screen
  have hcnil : cells cfg.cw [] = [] := rfl
  have hregion : ∀ F : Frame, (region F).map (cells cfg.cw) = region (F.map (cells cfg.cw)) := by
    intro F; cases F <;> simp [region, hcnil]
  generalize hPc : v.printed.map (cells cfg.cw) = Pc at hs1'
  have hPlen : Pc.length = v.printed.length := by rw [← hPc, List.length_map]
  generalize hFc : (shown cfg r.st).map (cells cfg.cw) = Fc at hs1'
  have hFlen : Fc.length = (shown cfg r.st).length := by rw [← hFc, List.length_map]
  have hrlen : (region Fc).length = (region (shown cfg r.st)).length := by rw [← hFc, region_map_length]
  rw [← hrlen] at hk1
  rw [← hFlen] at hfit
  have hrow1 : v.printed.length ≤ s1.row := by have := shown_row_ge hs1'; omega
  obtain ⟨s2, hs2⟩ : ∃ s2, s2 = Screen.step cfg.height s1 .lf := ⟨_, rfl⟩
  have hb2 : AtBlank s2 (Pc ++ region Fc) (max k1 1) := by
    rw [hs2]; exact shown_lf (H := cfg.height) hs1'
  obtain ⟨s3, hs3⟩ : ∃ s3, s3 = Screen.step cfg.height s2 .showCursor := ⟨_, rfl⟩
  have hb3 : AtBlank s3 (Pc ++ region Fc) (max k1 1) :=
    atBlank_of_eq hb2 (by rw [hs3]; rfl) (by rw [hs3]; rfl) (by rw [hs3]; exact hb2.col)
  have hvis3 : s3.visible = true := by rw [hs3]; rfl
  have hrun2 : Run cfg.height v.printed.length s (r.out ++ [.lf, .showCursor]) s3 := by
    rw [hs3, hs2]
    refine Run.append hrun1 (Run.cons ?_ (Run.one ?_))
    · simp [Screen.step]; omega
    · simp [Screen.step]; omega
  have hm3 : max k1 1 ≤ cfg.height := by
    have := region_length_pos Fc; omega
  -- the claim in terms of cell rows
  suffices hsuff : ∃ s' m, Run cfg.height v.printed.length s
        (r.out ++ [TermOp.lf, TermOp.showCursor] ++
          if cfg.transient = true then restoreCursor cfg.blankFix r.st.shape else []) s' ∧
      AtBlank s' (Pc ++ (if cfg.transient then (if Fc.isEmpty && !cfg.blankFix then [[]] else []) else region Fc)) m ∧
      m ≤ cfg.height ∧ s'.visible = true by
    obtain ⟨s', m, h1, h2, h3, h4⟩ := hsuff
    refine ⟨s', m, h1, ?_, h3, h4, hfinS, hfin.1, hfin.2⟩
    have : (v.printed ++ leftBy cfg (shown cfg r.st)).map (cells cfg.cw) =
        Pc ++ (if cfg.transient then (if Fc.isEmpty && !cfg.blankFix then [[]] else []) else region Fc) := by
      rw [List.map_append, hPc]
      congr 1
      unfold leftBy
      have he : Fc.isEmpty = (shown cfg r.st).isEmpty := by
        rw [← hFc]; cases shown cfg r.st <;> rfl
      rw [he]
      split
      · split <;> simp [hcnil]
      · rw [hregion, hFc]
    rw [this]; exact h2
  by_cases htr : cfg.transient = true
  · have hF := hfit htr
    simp only [htr, if_true]
    cases hshape : r.st.shape with
    | none => have := hres.isSome; rw [hshape] at this; cases this
    | some wh =>
      obtain ⟨w, h⟩ := wh
      have hh' : h = Fc.length := by have := hres.shape; rw [hshape] at this; rw [hFlen]; exact this
      subst hh'
      obtain ⟨s4, hs4⟩ : ∃ s4, s4 = Screen.step cfg.height s3 .cr := ⟨_, rfl⟩
      have hb4 : AtBlank s4 (Pc ++ region Fc) (max k1 1) :=
        atBlank_of_eq hb3 (by rw [hs4]; rfl) (by rw [hs4]; rfl) (by rw [hs4]; rfl)
      have hvis4 : s4.visible = true := by rw [hs4]; exact hvis3
      have hrun4 : Run cfg.height v.printed.length s (r.out ++ [.lf, .showCursor] ++ [.cr]) s4 := by
        refine Run.append hrun2 ?_
        rw [hs4]; refine Run.one ?_
        show v.printed.length ≤ s3.row
        rw [hb3.row]; simp; omega
      -- going up over the rows `G` of the region that `restore_cursor` counts
      have up : ∀ G : List Line, region Fc = G → G.length = restoreCount cfg.blankFix Fc.length →
          ∃ s' m, Run cfg.height v.printed.length s
              (r.out ++ [TermOp.lf, TermOp.showCursor] ++ restoreCursor cfg.blankFix (some (w, Fc.length))) s' ∧
            AtBlank s' Pc m ∧ m ≤ cfg.height ∧ s'.visible = true := by
        intro G hG hlen
        rw [hG] at hb4
        have hF' : G.length + 1 ≤ cfg.height := by rw [hlen]; exact hF
        have hk1' : G.length + k1 ≤ max cfg.height G.length := by rw [← hG]; exact hk1
        obtain ⟨s', hrun5, hb5, hv5⟩ := erase_up (H := cfg.height) Pc G.length G
          s4 (max k1 1) rfl (by rw [hb4.rows]) (by rw [hb4.row, List.length_append])
          hb4.col (by omega) (by omega)
        refine ⟨s', G.length + max k1 1, ?_, hb5, by omega,
          by rw [hv5]; exact hvis4⟩
        have : r.out ++ [TermOp.lf, TermOp.showCursor] ++ restoreCursor cfg.blankFix (some (w, Fc.length)) =
            (r.out ++ [.lf, .showCursor] ++ [.cr]) ++ eraseOps G.length := by
          simp [restoreCursor, eraseUp_eq, hlen]
        rw [this]
        rw [hPlen] at hrun5
        exact Run.append hrun4 hrun5
      cases hF1 : Fc with
      | nil =>
        by_cases hfix : cfg.blankFix = true
        · obtain ⟨s', m, hr', hb', hm', hv'⟩ := up [[]] (by rw [hF1]; rfl) (by rw [hF1]; simp [restoreCount, hfix])
          refine ⟨s', m, by rw [hF1] at hr'; exact hr', ?_, hm', hv'⟩
          simpa [hfix] using hb'
        · have hfix' : cfg.blankFix = false := by simpa using hfix
          refine ⟨s4, max k1 1, ?_, ?_, hm3, hvis4⟩
          · simpa [restoreCursor, restoreCount, hfix', hF1, eraseUp] using hrun4
          · rw [hF1] at hb4; simpa [region, hfix'] using hb4
      | cons l rest =>
        obtain ⟨s', m, hr', hb', hm', hv'⟩ := up (l :: rest) (by rw [hF1]; rfl)
          (by rw [hF1]; simp [restoreCount])
        refine ⟨s', m, by rw [hF1] at hr'; exact hr', by simpa using hb', hm', hv'⟩
  · have htr' : cfg.transient = false := by simpa using htr
    simp only [htr', Bool.false_eq_true, if_false, List.append_nil]
    exact ⟨s3, max k1 1, hrun2, hb3, hm3, hvis3⟩

/-- An effective `stop` of the repaired code re-establishes the invariant: what the display left is
finished output, nothing is on display, no shape is recorded — a later `start` begins afresh. -/
theorem good_stop_good {cfg : Cfg} {st : St} {v : View} {s : Screen} (hc : cfg.plain = true) (hH : 1 ≤ cfg.height)
    (hreset : cfg.resetShape = true) (g : Good cfg st v s) (hbo : st.bufOut = []) (hbe : st.bufErr = [])
    (hfit : st.started = true → cfg.transient = true →
      restoreCount cfg.blankFix (stopFrame cfg st).length + 1 ≤ cfg.height) :
    ∃ s', Run cfg.height v.printed.length s (doStop cfg noFault st).out s' ∧
      Good cfg (doStop cfg noFault st).st (viewStopM cfg st v) s' ∧
      (st.started = true → s'.visible = true) := by
  by_cases hst : st.started = true
  · obtain ⟨s', m, hrun, hb, hm, hvis, hns, hnh, hshape⟩ := stop_landing hc hH g hst hbo hbe (hfit hst)
    refine ⟨s', hrun, ⟨⟨m - 1, ?_, ?_⟩, ?_, ?_, ?_⟩, fun _ => hvis⟩
    · simp only [viewStopM, hst, if_true]; exact atBlank_shown_nil hb
    · simp only [viewStopM, hst, if_true, region]; have := hb.pos; simp; omega
    · simp only [viewStopM, hst, if_true]; rw [hshape hreset]; rfl
    · rw [hns, hnh]; rfl
    · intro _; simp only [viewStopM, hst, if_true]; exact ⟨trivial, hshape hreset⟩
  · have hst' : st.started = false := by simpa using hst
    have e : doStop cfg noFault st = { st := st } := by simp [doStop, hst']
    rw [e]
    refine ⟨s, Run.nil _ _ _, ?_, fun h => by rw [hst'] at h; cases h⟩
    simp only [viewStopM, hst', Bool.false_eq_true, if_false]
    exact g

/-- The final stop of a single-session history: the screen shows the printed lines, then the last frame
(nothing if transient), then only blank rows; the cursor never went above the first row under the printed
lines and is visible.  (Rows are rows of cells: `cells cfg.cw` of every line.) -/
theorem good_stop {cfg : Cfg} {st : St} {v : View} {s : Screen} (hc : cfg.plain = true) (hH : 1 ≤ cfg.height) (g : Good cfg st v s)
    (hbo : st.bufOut = []) (hbe : st.bufErr = [])
    (hfit : st.started = true → cfg.transient = true →
      restoreCount cfg.blankFix (stopFrame cfg st).length + 1 ≤ cfg.height) :
    ∃ s', Run cfg.height v.printed.length s (doStop cfg noFault st).out s' ∧
      (∃ k, s'.rows = ((viewStop cfg st v).printed ++ (viewStop cfg st v).frame).map (cells cfg.cw) ++ List.replicate k []) ∧
      (st.started = true → s'.visible = true) := by
  have hcnil : cells cfg.cw [] = [] := rfl
  by_cases hst : st.started = true
  · obtain ⟨s', m, hrun, hb, _, hvis, _⟩ := stop_landing hc hH g hst hbo hbe (hfit hst)
    refine ⟨s', hrun, ?_, fun _ => hvis⟩
    simp only [viewStop, hst, if_true]
    rw [hb.rows]
    by_cases htr : cfg.transient = true
    · simp only [leftBy, htr, if_true]
      split
      · exact ⟨m + 1, by simp [List.replicate_succ, hcnil]⟩
      · exact ⟨m, by simp⟩
    · have htr' : cfg.transient = false := by simpa using htr
      simp only [leftBy, htr', Bool.false_eq_true, if_false]
      cases stopFrame cfg st with
      | nil => exact ⟨m + 1, by simp [region, List.replicate_succ, hcnil]⟩
      | cons l rest => exact ⟨m, by simp [region]⟩
  · have hst' : st.started = false := by simpa using hst
    have e : doStop cfg noFault st = { st := st } := by simp [doStop, hst']
    rw [e]
    obtain ⟨k, hs, _⟩ := g.shown
    refine ⟨s, Run.nil _ _ _, ?_, fun h => by rw [hst'] at h; cases h⟩
    simp only [viewStop, hst', Bool.false_eq_true, if_false]
    obtain ⟨k', hk'⟩ := shown_rows hs
    exact ⟨k', by rw [hk', List.map_append]⟩

end RichModel.Live
