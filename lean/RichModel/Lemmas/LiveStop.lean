import RichModel.Lemmas.LiveStep
import RichModel.Lemmas.LiveCtl
/-!
The final `stop` of a well-formed history: last refresh (rendered `visible`), line feed, cursor shown,
and — for a transient display — the frame erased again.
-/
namespace RichModel.Live
open RichModel RichModel.Screen

theorem disableRedirect_shape (st : St) : (disableRedirect st).shape = st.shape := by
  obtain ⟨_, _, _, _, _, _, _, _, rso, rse, _, _, _, _, _, _⟩ := st
  cases rso <;> cases rse <;> rfl

theorem disableRedirect_renderable (st : St) : (disableRedirect st).renderable = st.renderable := by
  obtain ⟨_, _, _, _, _, _, _, _, rso, rse, _, _, _, _, _, _⟩ := st
  cases rso <;> cases rse <;> rfl

theorem disableRedirect_overflow (st : St) : (disableRedirect st).overflow = st.overflow := by
  obtain ⟨_, _, _, _, _, _, _, _, rso, rse, _, _, _, _, _, _⟩ := st
  cases rso <;> cases rse <;> rfl

theorem disableRedirect_width (st : St) : (disableRedirect st).width = st.width := by
  obtain ⟨_, _, _, _, _, _, _, _, rso, rse, _, _, _, _, _, _⟩ := st
  cases rso <;> cases rse <;> rfl

theorem shown_cleanup (cfg : Cfg) (st : St) : shown cfg (cleanup st) = shown cfg st := by
  unfold shown cleanup curWidth
  simp only [disableRedirect_shape, disableRedirect_renderable, disableRedirect_overflow, disableRedirect_width]

theorem cleanup_shape (st : St) : (cleanup st).shape = st.shape := by
  unfold cleanup; exact disableRedirect_shape st

/-- The line feed after the last frame: the frame's rows become ordinary rows above a blank zone. -/
theorem shown_lf {H : Nat} {s : Screen} {P : List Line} {F : Frame} {k : Nat} (h : Shown s P F k) :
    AtBlank (Screen.step H s .lf) (P ++ region F) (max k 1) := by
  have hpos := region_length_pos F
  have hrow : s.row + 1 = (P ++ region F).length := by rw [List.length_append]; exact h.row
  refine ⟨?_, by simp only [Screen.step]; exact hrow, rfl, by omega⟩
  simp only [Screen.step, h.rows]
  by_cases hk : 1 ≤ k
  · have : s.row + 1 < (P ++ region F ++ List.replicate k []).length := by
      rw [hrow]; simp; omega
    simp only [this, if_true]
    have : max k 1 = k := by omega
    rw [this]
  · have hk0 : k = 0 := by omega
    subst hk0
    have : ¬ (s.row + 1 < (P ++ region F ++ List.replicate 0 []).length) := by
      rw [hrow]; simp
    simp only [this, if_false]
    simp

theorem stopSt_shape (cfg : Cfg) (st : St) : (stopSt cfg st).shape = st.shape := by
  unfold stopSt; cases cfg.kind <;> rfl

theorem stopSt_hooks (cfg : Cfg) (st : St) : (stopSt cfg st).hooks = st.hooks := by
  unfold stopSt; cases cfg.kind <;> rfl

theorem stopSt_started (cfg : Cfg) (st : St) : (stopSt cfg st).started = false := by
  unfold stopSt; cases cfg.kind <;> rfl

theorem stopSt_idem (cfg : Cfg) (st : St) : stopSt cfg { st with started := false } = stopSt cfg st := by
  unfold stopSt; cases cfg.kind <;> rfl

theorem flushLive_clean (cfg : Cfg) (fails : Nat → Bool) (st : St) (err : Bool) (h : getBuf st err = []) :
    flushLive cfg fails st err = { st := st } := by
  simp [flushLive, h]

theorem flushDead_clean (cfg : Cfg) (fails : Nat → Bool) (st : St) (err : Bool) (h : getBuf st err = []) :
    flushDead cfg fails st err = { st := st } := by
  simp [flushDead, h]

theorem dropFlush_clean (cfg : Cfg) (fails : Nat → Bool) (st : St) (h1 : st.bufOut = []) (h2 : st.bufErr = []) :
    dropFlush cfg fails st = { st := st } := by
  have e1 : flushDead cfg fails st false = { st := st } := flushDead_clean cfg fails st false (by simpa [getBuf] using h1)
  have e2 : flushDead cfg fails st true = { st := st } := flushDead_clean cfg fails st true (by simpa [getBuf] using h2)
  simp [dropFlush, e1, e2]

theorem finOut_nil (cfg : Cfg) (ha : cfg.ansi = true) : finOut cfg [] = [.showCursor] := by
  unfold finOut showOp; cases cfg.kind <;> simp [ha]

theorem disableRedirect_started (st : St) : (disableRedirect st).started = st.started := by
  obtain ⟨_, _, _, _, _, _, _, _, rso, rse, _, _, _, _, _, _⟩ := st
  cases rso <;> cases rse <;> rfl

theorem disableRedirect_bufs (st : St) : (disableRedirect st).bufOut = st.bufOut ∧ (disableRedirect st).bufErr = st.bufErr := by
  obtain ⟨_, _, _, _, _, _, _, _, rso, rse, _, _, _, _, _, _⟩ := st
  cases rso <;> cases rse <;> exact ⟨rfl, rfl⟩

theorem atBlank_of_eq {s s' : Screen} {P : List Line} {m : Nat} (h : AtBlank s P m)
    (h1 : s'.rows = s.rows) (h2 : s'.row = s.row) (h3 : s'.col = 0) : AtBlank s' P m :=
  ⟨by rw [h1]; exact h.rows, by rw [h2]; exact h.row, h3, h.pos⟩

/-- What is on the screen and what shape is recorded — the part of `Good` that `stop` keeps true while
`started` is already false. -/
def SS (cfg : Cfg) (P : List Line) (F : Frame) (shape : Option (Nat × Nat)) (s : Screen) : Prop :=
  (∃ k, Shown s (P.map (cells cfg.cw)) (F.map (cells cfg.cw)) k ∧ (region F).length + k ≤ cfg.height) ∧
    ShapeOk shape F

theorem ss_hooked {cfg : Cfg} {st : St} {P : List Line} {F : Frame} {s : Screen} {U : List Line} {r : Res}
    (h : SS cfg P F st.shape s) (hr : HookedRes cfg st U r)
    (hfit : (shown cfg r.st).length ≤ cfg.height) (hH : 1 ≤ cfg.height) :
    ∃ s', Run cfg.height P.length s r.out s' ∧ SS cfg (P ++ U) (shown cfg r.st) r.st.shape s' ∧
      s'.visible = s.visible := by
  obtain ⟨s', k', hrun, hs', hk', hv⟩ := hooked_screen h.1 h.2 hr
  refine ⟨s', hrun, ⟨⟨k', hs', ?_⟩, hr.shape⟩, hv⟩
  have := region_length (shown cfg r.st); omega

/-- No text is pending in a stream that is not redirected. -/
def BufOk (st : St) : Prop := ∀ e, proxied st e = false → getBuf st e = []

theorem getBuf_setBuf_same (st : St) (e : Bool) (b : Line) : getBuf (setBuf st e b) e = b := by
  cases e <;> rfl

theorem getBuf_setBuf_other (st : St) (e : Bool) (b : Line) : getBuf (setBuf st e b) (!e) = getBuf st (!e) := by
  cases e <;> rfl

theorem proxied_setBuf (st : St) (e e' : Bool) (b : Line) : proxied (setBuf st e b) e' = proxied st e' := by
  cases e <;> rfl

theorem proxied_of_ctlEq {a b : St} (h : CtlEq a b) (e : Bool) : proxied a e = proxied b e := by
  obtain ⟨_, _, h3, h4, _, _⟩ := h
  cases e <;> simp [proxied, h3, h4]

theorem getBuf_of_bufs {a b : St} (h : a.bufOut = b.bufOut ∧ a.bufErr = b.bufErr) (e : Bool) : getBuf a e = getBuf b e := by
  cases e <;> simp [getBuf, h.1, h.2]

/-- One flush of the repaired `stop`: pending text of stream `e` is printed like any other line, above the
display; nothing happens when nothing is pending. -/
theorem ss_flush {cfg : Cfg} (hc : cfg.plain = true) (hH : 1 ≤ cfg.height) (st : St) (e : Bool) (hh : st.hooks > 0)
    (hb : proxied st e = false → getBuf st e = []) {P : List Line} {F : Frame} {s : Screen}
    (h : SS cfg P F st.shape s)
    (hfit : (pend st e).isEmpty = false → (shown cfg (flushLive cfg noFault st e).st).length ≤ cfg.height) :
    (flushLive cfg noFault st e).err = none ∧ (flushLive cfg noFault st e).st.hooks = st.hooks ∧
      (flushLive cfg noFault st e).st.started = st.started ∧ getBuf (flushLive cfg noFault st e).st e = [] ∧
      getBuf (flushLive cfg noFault st e).st (!e) = getBuf st (!e) ∧
      (∀ e', proxied (flushLive cfg noFault st e).st e' = proxied st e') ∧
      ∃ s' F', Run cfg.height P.length s (flushLive cfg noFault st e).out s' ∧
        SS cfg (P ++ pend st e) F' (flushLive cfg noFault st e).st.shape s' ∧ s'.visible = s.visible := by
  by_cases hp : (proxied st e && !(getBuf st e).isEmpty) = true
  · have hres := hooked_noFault cfg st [getBuf st e]
    have hctl := (hooked_ctl cfg noFault st [getBuf st e]).1
    have hbufs := hooked_bufs cfg noFault st [getBuf st e]
    have efl : flushLive cfg noFault st e =
        { hooked cfg noFault st [getBuf st e] with st := setBuf (hooked cfg noFault st [getBuf st e]).st e [] } := by
      simp only [flushLive, hp, if_true, doPrint_plain hc, hh]
      rw [hres.err]
    have hpend : pend st e = [getBuf st e] := by simp [pend, hp]
    have hshown : shown cfg (setBuf (hooked cfg noFault st [getBuf st e]).st e []) = shown cfg (hooked cfg noFault st [getBuf st e]).st := by
      cases e <;> exact shown_congr cfg rfl rfl rfl
    rw [efl] at hfit ⊢
    simp only at hfit ⊢
    rw [hshown] at hfit
    obtain ⟨s', hrun, hss, hv⟩ := ss_hooked h hres (hfit (by simp [hpend])) hH
    refine ⟨hres.err, ?_, ?_, getBuf_setBuf_same _ _ _, ?_, ?_, s', shown cfg (hooked cfg noFault st [getBuf st e]).st, hrun, ?_, hv⟩
    · cases e <;> exact hres.hooks
    · cases e <;> exact hres.started
    · rw [getBuf_setBuf_other]; exact getBuf_of_bufs hbufs _
    · intro e'; rw [proxied_setBuf]; exact proxied_of_ctlEq hctl e'
    · rw [hpend]
      have : (setBuf (hooked cfg noFault st [getBuf st e]).st e []).shape = (hooked cfg noFault st [getBuf st e]).st.shape := by
        cases e <;> rfl
      rw [this]; exact hss
  · have efl : flushLive cfg noFault st e = { st := st } := by simp [flushLive, hp]
    have hpend : pend st e = [] := by simp [pend, hp]
    rw [efl]
    refine ⟨rfl, rfl, rfl, ?_, rfl, fun _ => rfl, s, F, Run.nil _ _ _, by simpa [hpend] using h, rfl⟩
    cases hpr : proxied st e with
    | false => exact hb hpr
    | true => simpa [hpr] using hp

/-- From the last refresh of `stop` on: line feed, cursor shown, and for a transient display the frame
erased — landing on a blank zone below what is finished. -/
theorem stop_tail_landing {cfg : Cfg} (hH : 1 ≤ cfg.height) {x : St} {r : Res} {P : List Line} {F : Frame} {s : Screen}
    (hss : SS cfg P F x.shape s) (hres : HookedRes cfg x [] r)
    (hfit : cfg.transient = true → restoreCount cfg.blankFix (shown cfg r.st).length + 1 ≤ cfg.height) :
    ∃ s' m, Run cfg.height P.length s
        (r.out ++ [TermOp.lf, TermOp.showCursor] ++
          if cfg.transient = true then restoreCursor cfg.blankFix r.st.shape else []) s' ∧
      AtBlank s' ((P ++ leftBy cfg (shown cfg r.st)).map (cells cfg.cw)) m ∧ m ≤ cfg.height ∧ s'.visible = true := by
  obtain ⟨s1, k1, hrun1, hs1', hk1, hv1⟩ := hooked_screen (P := P) (F := F) hss.1 hss.2 hres
  simp only [List.append_nil] at hs1'
  -- everything below is about the rows of cells on the screen
  have hcnil : cells cfg.cw [] = [] := rfl
  have hregion : ∀ F : Frame, (region F).map (cells cfg.cw) = region (F.map (cells cfg.cw)) := by
    intro F; cases F <;> simp [region, hcnil]
  generalize hPc : P.map (cells cfg.cw) = Pc at hs1'
  have hPlen : Pc.length = P.length := by rw [← hPc, List.length_map]
  generalize hFc : (shown cfg r.st).map (cells cfg.cw) = Fc at hs1'
  have hFlen : Fc.length = (shown cfg r.st).length := by rw [← hFc, List.length_map]
  have hrlen : (region Fc).length = (region (shown cfg r.st)).length := by rw [← hFc, region_map_length]
  rw [← hrlen] at hk1
  rw [← hFlen] at hfit
  have hrow1 : P.length ≤ s1.row := by have := shown_row_ge hs1'; omega
  obtain ⟨s2, hs2⟩ : ∃ s2, s2 = Screen.step cfg.height s1 .lf := ⟨_, rfl⟩
  have hb2 : AtBlank s2 (Pc ++ region Fc) (max k1 1) := by
    rw [hs2]; exact shown_lf (H := cfg.height) hs1'
  obtain ⟨s3, hs3⟩ : ∃ s3, s3 = Screen.step cfg.height s2 .showCursor := ⟨_, rfl⟩
  have hb3 : AtBlank s3 (Pc ++ region Fc) (max k1 1) :=
    atBlank_of_eq hb2 (by rw [hs3]; rfl) (by rw [hs3]; rfl) (by rw [hs3]; exact hb2.col)
  have hvis3 : s3.visible = true := by rw [hs3]; rfl
  have hrun2 : Run cfg.height P.length s (r.out ++ [.lf, .showCursor]) s3 := by
    rw [hs3, hs2]
    refine Run.append hrun1 (Run.cons ?_ (Run.one ?_))
    · simp [Screen.step]; omega
    · simp [Screen.step]; omega
  have hm3 : max k1 1 ≤ cfg.height := by
    have := region_length_pos Fc; omega
  -- the claim in terms of cell rows
  suffices hsuff : ∃ s' m, Run cfg.height P.length s
        (r.out ++ [TermOp.lf, TermOp.showCursor] ++
          if cfg.transient = true then restoreCursor cfg.blankFix r.st.shape else []) s' ∧
      AtBlank s' (Pc ++ (if cfg.transient then (if Fc.isEmpty && !cfg.blankFix then [[]] else []) else region Fc)) m ∧
      m ≤ cfg.height ∧ s'.visible = true by
    obtain ⟨s', m, h1, h2, h3, h4⟩ := hsuff
    refine ⟨s', m, h1, ?_, h3, h4⟩
    have : (P ++ leftBy cfg (shown cfg r.st)).map (cells cfg.cw) =
        Pc ++ (if cfg.transient then (if Fc.isEmpty && !cfg.blankFix then [[]] else []) else region Fc) := by
      rw [List.map_append, hPc]
      congr 1
      unfold leftBy
      have he : Fc.isEmpty = (shown cfg r.st).isEmpty := by
        rw [← hFc]; cases shown cfg r.st <;> rfl
      rw [he]
      split
      · split <;> simp [hcnil]
      · rw [hregion, hFc]
    rw [this]; exact h2
  by_cases htr : cfg.transient = true
  · have hF := hfit htr
    simp only [htr, if_true]
    cases hshape : r.st.shape with
    | none => have := hres.isSome; rw [hshape] at this; cases this
    | some wh =>
      obtain ⟨w, h⟩ := wh
      have hh' : h = Fc.length := by have := hres.shape; rw [hshape] at this; rw [hFlen]; exact this
      subst hh'
      obtain ⟨s4, hs4⟩ : ∃ s4, s4 = Screen.step cfg.height s3 .cr := ⟨_, rfl⟩
      have hb4 : AtBlank s4 (Pc ++ region Fc) (max k1 1) :=
        atBlank_of_eq hb3 (by rw [hs4]; rfl) (by rw [hs4]; rfl) (by rw [hs4]; rfl)
      have hvis4 : s4.visible = true := by rw [hs4]; exact hvis3
      have hrun4 : Run cfg.height P.length s (r.out ++ [.lf, .showCursor] ++ [.cr]) s4 := by
        refine Run.append hrun2 ?_
        rw [hs4]; refine Run.one ?_
        show P.length ≤ s3.row
        rw [hb3.row]; simp; omega
      -- going up over the rows `G` of the region that `restore_cursor` counts
      have up : ∀ G : List Line, region Fc = G → G.length = restoreCount cfg.blankFix Fc.length →
          ∃ s' m, Run cfg.height P.length s
              (r.out ++ [TermOp.lf, TermOp.showCursor] ++ restoreCursor cfg.blankFix (some (w, Fc.length))) s' ∧
            AtBlank s' Pc m ∧ m ≤ cfg.height ∧ s'.visible = true := by
        intro G hG hlen
        rw [hG] at hb4
        have hF' : G.length + 1 ≤ cfg.height := by rw [hlen]; exact hF
        have hk1' : G.length + k1 ≤ max cfg.height G.length := by rw [← hG]; exact hk1
        obtain ⟨s', hrun5, hb5, hv5⟩ := erase_up (H := cfg.height) Pc G.length G
          s4 (max k1 1) rfl (by rw [hb4.rows]) (by rw [hb4.row, List.length_append])
          hb4.col (by omega) (by omega)
        refine ⟨s', G.length + max k1 1, ?_, hb5, by omega,
          by rw [hv5]; exact hvis4⟩
        have : r.out ++ [TermOp.lf, TermOp.showCursor] ++ restoreCursor cfg.blankFix (some (w, Fc.length)) =
            (r.out ++ [.lf, .showCursor] ++ [.cr]) ++ eraseOps G.length := by
          simp [restoreCursor, eraseUp_eq, hlen]
        rw [this]
        rw [hPlen] at hrun5
        exact Run.append hrun4 hrun5
      cases hF1 : Fc with
      | nil =>
        by_cases hfix : cfg.blankFix = true
        · obtain ⟨s', m, hr', hb', hm', hv'⟩ := up [[]] (by rw [hF1]; rfl) (by rw [hF1]; simp [restoreCount, hfix])
          refine ⟨s', m, by rw [hF1] at hr'; exact hr', ?_, hm', hv'⟩
          simpa [hfix] using hb'
        · have hfix' : cfg.blankFix = false := by simpa using hfix
          refine ⟨s4, max k1 1, ?_, ?_, hm3, hvis4⟩
          · simpa [restoreCursor, restoreCount, hfix', hF1, eraseUp] using hrun4
          · rw [hF1] at hb4; simpa [region, hfix'] using hb4
      | cons l rest =>
        obtain ⟨s', m, hr', hb', hm', hv'⟩ := up (l :: rest) (by rw [hF1]; rfl)
          (by rw [hF1]; simp [restoreCount])
        refine ⟨s', m, by rw [hF1] at hr'; exact hr', by simpa using hb', hm', hv'⟩
  · have htr' : cfg.transient = false := by simpa using htr
    simp only [htr', Bool.false_eq_true, if_false, List.append_nil]
    exact ⟨s3, max k1 1, hrun2, hb3, hm3, hvis3⟩


/-- Where an effective `stop` of the repaired code lands: what was pending in the redirected streams has
been printed above the display, the last frame drawn, and the cursor is on a blank zone right below the
finished output — printed lines, pending lines, what the display leaves (`leftBy`) — all within the screen. -/
theorem stop_landing {cfg : Cfg} {st : St} {v : View} {s : Screen} (hc : cfg.plain = true) (hH : 1 ≤ cfg.height)
    (hflush : cfg.flushFix = true) (g : Good cfg st v s) (hst : st.started = true) (hbuf : BufOk st)
    (hff : flushFits cfg st = true)
    (hfit : cfg.transient = true → restoreCount cfg.blankFix (stopFrame cfg st).length + 1 ≤ cfg.height) :
    ∃ s' m, Run cfg.height v.printed.length s (doStop cfg noFault st).out s' ∧
      AtBlank s' ((v.printed ++ pendLines cfg st ++ leftBy cfg (stopFrame cfg st)).map (cells cfg.cw)) m ∧
      m ≤ cfg.height ∧ s'.visible = true ∧
      (doStop cfg noFault st).st.started = false ∧ (doStop cfg noFault st).st.hooks = 0 ∧
      (cfg.resetShape = true → (doStop cfg noFault st).st.shape = none) ∧
      (doStop cfg noFault st).st.bufOut = [] ∧ (doStop cfg noFault st).st.bufErr = [] := by
  have hh : st.hooks > 0 := by have := g.hooks; rw [hst] at this; simp at this; omega
  have hh1' : st.hooks = 1 := by have := g.hooks; rw [hst] at this; simpa using this
  simp only [flushFits, Bool.and_eq_true, Bool.or_eq_true, decide_eq_true_eq] at hff
  -- the two flushes
  have hss0 : SS cfg v.printed v.frame ({ st with started := false } : St).shape s := ⟨g.shown, g.shape⟩
  obtain ⟨e1, h1h, h1s, h1b, h1o, h1p, s1, F1, hrun1, hss1, hv1⟩ :=
    ss_flush hc hH { st with started := false } false hh (hbuf false) hss0
      (by intro hne; rcases hff.1 with h | h
          · have : (pend st false).isEmpty = (pend ({ st with started := false } : St) false).isEmpty := rfl
            rw [this] at h; rw [h] at hne; cases hne
          · exact h)
  generalize hr1 : flushLive cfg noFault { st with started := false } false = r1 at e1 h1h h1s h1b h1o h1p hrun1 hss1 hff
  have hpend2 : pend r1.st true = pend st true := by
    have a := h1p true
    have b : getBuf r1.st true = getBuf st true := h1o
    simp only [pend, a, b]; rfl
  obtain ⟨e2, h2h, h2s, h2b, h2o, h2p, s2, F2, hrun2, hss2, hv2⟩ :=
    ss_flush hc hH r1.st true (by rw [h1h]; exact hh)
      (by intro hp
          have hp' : proxied st true = false := by have := h1p true; rw [this] at hp; exact hp
          have h1o' : getBuf r1.st true = getBuf st true := h1o
          rw [h1o']; exact hbuf true hp') hss1
      (by intro hne; rcases hff.2 with h | h
          · rw [hpend2, h] at hne; cases hne
          · exact h)
  generalize hr2 : flushLive cfg noFault r1.st true = r2 at e2 h2h h2s h2b h2o h2p hrun2 hss2
  -- the last refresh
  have hhx : (stopSt cfg r2.st).hooks > 0 := by rw [stopSt_hooks, h2h, h1h]; exact hh
  have hres := (doRefresh_noFault cfg hc (stopSt cfg r2.st)).1 hhx
  have hframe : stopFrame cfg st = shown cfg (doRefresh cfg noFault (stopSt cfg r2.st)).st := by
    simp only [stopFrame, stopPre, hflush, if_true, hr1, hr2]
  have hbx := doRefresh_bufs cfg noFault (stopSt cfg r2.st)
  have hxo : (stopSt cfg r2.st).bufOut = [] := by
    have : r2.st.bufOut = [] := by have := h2o; simp [getBuf] at this; rw [this]; simpa [getBuf] using h1b
    unfold stopSt; cases cfg.kind <;> exact this
  have hxe : (stopSt cfg r2.st).bufErr = [] := by
    have : r2.st.bufErr = [] := by simpa [getBuf] using h2b
    unfold stopSt; cases cfg.kind <;> exact this
  generalize hrr : doRefresh cfg noFault (stopSt cfg r2.st) = r at hres hframe hbx
  rw [hframe] at hfit ⊢
  obtain ⟨s', m, hrun3, hland, hm, hvis⟩ := stop_tail_landing hH (x := stopSt cfg r2.st) (r := r)
    (by rw [stopSt_shape]; exact hss2) hres hfit
  -- what `doStop` is
  have hro : r.st.bufOut = [] := by rw [hbx.1, hxo]
  have hre : r.st.bufErr = [] := by rw [hbx.2, hxe]
  have estop : doStop cfg noFault st =
      { st := resetSt cfg (cleanup r.st),
        out := r1.out ++ r2.out ++ (r.out ++ [.lf, .showCursor] ++
          (if cfg.transient then restoreCursor cfg.blankFix r.st.shape else [])) } := by
    simp only [doStop, hst, hflush, Bool.not_true, Bool.false_eq_true, if_false, if_true, hr1, e1, hr2, e2, hrr]
    simp only [stopTail, hres.err]
    rw [dropFlush_clean cfg noFault _ hro hre]
    simp [finOut_nil cfg (plain_ansi hc), plain_terminal hc, plain_ansi hc, Cfg.quietStop, plain_disable hc, cleanup_shape]
  rw [estop]
  have hfs : (resetSt cfg (cleanup r.st)).started = false := by
    have hc1 : (cleanup r.st).started = r.st.started := by
      show (disableRedirect r.st).started = _
      exact disableRedirect_started _
    have hs : (resetSt cfg (cleanup r.st)).started = (cleanup r.st).started := by unfold resetSt; split <;> rfl
    rw [hs, hc1, hres.started, stopSt_started]
  have hfh : (resetSt cfg (cleanup r.st)).hooks = 0 := by
    have : (cleanup r.st).hooks = 0 := by
      show r.st.hooks - 1 = 0
      rw [hres.hooks, stopSt_hooks, h2h, h1h, hh1']
    unfold resetSt; split <;> exact this
  have hfb : (resetSt cfg (cleanup r.st)).bufOut = [] ∧ (resetSt cfg (cleanup r.st)).bufErr = [] := by
    have hc1 : (cleanup r.st).bufOut = [] ∧ (cleanup r.st).bufErr = [] := by
      have := disableRedirect_bufs r.st
      exact ⟨by show (disableRedirect r.st).bufOut = []; rw [this.1, hro], by show (disableRedirect r.st).bufErr = []; rw [this.2, hre]⟩
    unfold resetSt; split <;> exact hc1
  refine ⟨s', m, ?_, ?_, hm, hvis, hfs, hfh, fun hr => by unfold resetSt; simp [hr], hfb.1, hfb.2⟩
  · -- the whole run stays at or below the first row under the printed lines
    have l1 : v.printed.length ≤ (v.printed ++ pend ({ st with started := false } : St) false).length := by simp
    have l2 : v.printed.length ≤ (v.printed ++ pend ({ st with started := false } : St) false ++ pend r1.st true).length := by simp
    exact Run.append (Run.append hrun1 (hrun2.weaken l1)) (hrun3.weaken l2)
  · have : v.printed ++ pendLines cfg st = v.printed ++ pend ({ st with started := false } : St) false ++ pend r1.st true := by
      simp only [pendLines, hflush, if_true, hpend2, List.append_assoc]; rfl
    rw [this]; exact hland

/-- An effective `stop` of the repaired code re-establishes the invariant: what the display left is
finished output, nothing is on display, no shape is recorded, nothing is pending — a later `start` begins
afresh. -/
theorem good_stop_good {cfg : Cfg} {st : St} {v : View} {s : Screen} (hc : cfg.plain = true) (hH : 1 ≤ cfg.height)
    (hflush : cfg.flushFix = true) (hreset : cfg.resetShape = true) (g : Good cfg st v s) (hbuf : BufOk st)
    (hff : st.started = true → flushFits cfg st = true)
    (hfit : st.started = true → cfg.transient = true →
      restoreCount cfg.blankFix (stopFrame cfg st).length + 1 ≤ cfg.height) :
    ∃ s', Run cfg.height v.printed.length s (doStop cfg noFault st).out s' ∧
      Good cfg (doStop cfg noFault st).st (viewStopM cfg st v) s' ∧ BufOk (doStop cfg noFault st).st ∧
      (st.started = true → s'.visible = true) := by
  by_cases hst : st.started = true
  · obtain ⟨s', m, hrun, hb, hm, hvis, hns, hnh, hshape, hbo, hbe⟩ := stop_landing hc hH hflush g hst hbuf (hff hst) (hfit hst)
    refine ⟨s', hrun, ⟨⟨m - 1, ?_, ?_⟩, ?_, ?_, ?_⟩, ?_, fun _ => hvis⟩
    · simp only [viewStopM, hst, if_true]; exact atBlank_shown_nil hb
    · simp only [viewStopM, hst, if_true, region]; have := hb.pos; simp; omega
    · simp only [viewStopM, hst, if_true]; rw [hshape hreset]; rfl
    · rw [hns, hnh]; rfl
    · intro _; simp only [viewStopM, hst, if_true]; exact ⟨trivial, hshape hreset⟩
    · intro e _; cases e <;> simp [getBuf, hbo, hbe]
  · have hst' : st.started = false := by simpa using hst
    have e : doStop cfg noFault st = { st := st } := by simp [doStop, hst']
    rw [e]
    refine ⟨s, Run.nil _ _ _, ?_, hbuf, fun h => by rw [hst'] at h; cases h⟩
    simp only [viewStopM, hst', Bool.false_eq_true, if_false]
    exact g

/-- The final stop of a single-session history: the screen shows the printed lines (pending stream text
completed above the display included), then the last frame (nothing if transient), then only blank
rows; the cursor never went above the first row under the printed lines and is visible.  (Rows are rows
of cells: `cells cfg.cw` of every line.) -/
theorem good_stop {cfg : Cfg} {st : St} {v : View} {s : Screen} (hc : cfg.plain = true) (hH : 1 ≤ cfg.height)
    (hflush : cfg.flushFix = true) (g : Good cfg st v s) (hbuf : BufOk st)
    (hff : st.started = true → flushFits cfg st = true)
    (hfit : st.started = true → cfg.transient = true →
      restoreCount cfg.blankFix (stopFrame cfg st).length + 1 ≤ cfg.height) :
    ∃ s', Run cfg.height v.printed.length s (doStop cfg noFault st).out s' ∧
      (∃ k, s'.rows = ((viewStop cfg st v).printed ++ (viewStop cfg st v).frame).map (cells cfg.cw) ++ List.replicate k []) ∧
      (st.started = true → s'.visible = true) := by
  have hcnil : cells cfg.cw [] = [] := rfl
  by_cases hst : st.started = true
  · obtain ⟨s', m, hrun, hb, _, hvis, _⟩ := stop_landing hc hH hflush g hst hbuf (hff hst) (hfit hst)
    refine ⟨s', hrun, ?_, fun _ => hvis⟩
    simp only [viewStop, hst, if_true]
    rw [hb.rows]
    by_cases htr : cfg.transient = true
    · simp only [leftBy, htr, if_true]
      split
      · exact ⟨m + 1, by simp [List.replicate_succ, hcnil]⟩
      · exact ⟨m, by simp⟩
    · have htr' : cfg.transient = false := by simpa using htr
      simp only [leftBy, htr', Bool.false_eq_true, if_false]
      cases stopFrame cfg st with
      | nil => exact ⟨m + 1, by simp [region, List.replicate_succ, hcnil]⟩
      | cons l rest => exact ⟨m, by simp [region]⟩
  · have hst' : st.started = false := by simpa using hst
    have e : doStop cfg noFault st = { st := st } := by simp [doStop, hst']
    rw [e]
    obtain ⟨k, hs, _⟩ := g.shown
    refine ⟨s, Run.nil _ _ _, ?_, fun h => by rw [hst'] at h; cases h⟩
    simp only [viewStop, hst', Bool.false_eq_true, if_false]
    obtain ⟨k', hk'⟩ := shown_rows hs
    exact ⟨k', by rw [hk', List.map_append]⟩

/-! ### nothing is pending in a stream that is not redirected: preserved by every operation -/

theorem BufOk.of_eq {a b : St} (h : BufOk b) (hp : ∀ e, proxied a e = proxied b e) (hg : ∀ e, getBuf a e = getBuf b e) :
    BufOk a := by
  intro e he; rw [hg e]; exact h e (by rw [← hp e]; exact he)

theorem BufOk.of_io {a b : St} (h : BufOk b) (hc : CtlEq a b) (hb : a.bufOut = b.bufOut ∧ a.bufErr = b.bufErr) : BufOk a :=
  h.of_eq (proxied_of_ctlEq hc) (getBuf_of_bufs hb)

theorem bufOk_doPrint {cfg : Cfg} {fails : Nat → Bool} {st : St} (U : List Line) (h : BufOk st) :
    BufOk (doPrint cfg fails st U).st :=
  h.of_io (doPrint_ctl cfg fails st U).1 (doPrint_bufs cfg fails st U)

theorem bufOk_doRefresh {cfg : Cfg} {fails : Nat → Bool} {st : St} (h : BufOk st) :
    BufOk (doRefresh cfg fails st).st :=
  h.of_io (doRefresh_ctl cfg fails st).1 (doRefresh_bufs cfg fails st)

theorem bufOk_enableRedirect {cfg : Cfg} {st : St} (h : BufOk st) :
    BufOk { enableRedirect cfg st with started := true, hooks := st.hooks + 1 } := by
  have ho := h false
  have he := h true
  simp only [proxied, getBuf, Bool.false_eq_true, if_false, if_true] at ho he
  intro e
  cases ht : cfg.terminal <;> cases hro : cfg.redirectStdout <;> cases hre : cfg.redirectStderr <;> cases e <;>
    simp [enableRedirect, proxied, getBuf, ht, hro, hre] <;> first | exact ho | exact he | (intro h'; first | exact ho (by simpa using h') | exact he (by simpa using h'))

/-- Every operation but `stop` that raises nothing keeps `BufOk`. -/
theorem bufOk_step (cfg : Cfg) (fails : Nat → Bool) (st : St) (op : Op) (hne : op ≠ .stop)
    (herr : (step cfg fails st op).err = none) (h : BufOk st) : BufOk (step cfg fails st op).st := by
  cases op with
  | stop => exact absurd rfl hne
  | start =>
    by_cases hst : st.started = true
    · have e : step cfg fails st .start = { st := st } := by simp [step, doStart, hst]
      rw [e]; exact h
    · have hst' : st.started = false := by simpa using hst
      have h1 := bufOk_enableRedirect (cfg := cfg) h
      cases hk : cfg.kind
      · have e : step cfg fails st .start = { st := { enableRedirect cfg st with started := true, hooks := st.hooks + 1 }, out := hideOp cfg } := by
          simp [step, doStart, hst', hk]
        rw [e]; exact h1
      · have h2 := bufOk_doRefresh (cfg := cfg) (fails := fails) h1
        simp only [step, doStart, hst', hk, Bool.false_eq_true, if_false] at herr ⊢
        generalize doRefresh cfg fails { enableRedirect cfg st with started := true, hooks := st.hooks + 1 } = r at h2 herr ⊢
        cases hre : r.err with
        | none => exact h2
        | some e0 =>
          rw [hre] at herr
          simp only at herr
          split at herr <;> simp at herr
      · have e : step cfg fails st .start = { st := { enableRedirect cfg st with started := true, hooks := st.hooks + 1 }, out := hideOp cfg } := by
          simp [step, doStart, hst', hk]
        rw [e]; exact h1
  | print ls => exact bufOk_doPrint ls h
  | printBare =>
    simp only [step]
    split
    · exact h
    · exact bufOk_doPrint _ h
  | refresh => exact bufOk_doRefresh h
  | update f rf =>
    simp only [step]
    split
    · split
      · exact bufOk_doRefresh (st := { st with renderable := f }) h
      · exact h
    · exact bufOk_doRefresh (st := { st with renderable := statusFrame cfg.cw f }) h
    · exact h
  | addTask desc vs tot =>
    simp only [step]
    have h2 := bufOk_doRefresh (cfg := cfg) (fails := fails) (st := addTaskSt st desc vs tot) h
    split
    · exact h2
    · exact h2
  | updateTask id ed rf =>
    simp only [step]
    split
    · exact h
    · split
      · rename_i t _ _
        exact bufOk_doRefresh (st := { st with tasks := replaceTask st.tasks (ed.apply t) }) h
      · exact h
  | removeTask id =>
    simp only [step]
    split
    · exact h
    · exact h
  | resize w => exact h
  | write err lines tail =>
    simp only [step, doWrite]
    split
    · exact h
    · rename_i hp
      have hp' : proxied st err = true := by simpa using hp
      split
      · intro e he
        by_cases hee : e = err
        · subst hee; rw [proxied_setBuf] at he; rw [hp'] at he; cases he
        · have : e = !err := by cases e <;> cases err <;> simp_all
          subst this
          rw [proxied_setBuf] at he
          rw [getBuf_setBuf_other]; exact h _ he
      · rename_i l rest
        refine bufOk_doPrint _ ?_
        intro e he
        by_cases hee : e = err
        · subst hee; rw [proxied_setBuf] at he; rw [hp'] at he; cases he
        · have : e = !err := by cases e <;> cases err <;> simp_all
          subst this
          rw [proxied_setBuf] at he
          rw [getBuf_setBuf_other]; exact h _ he

end RichModel.Live
