import RichModel.Lemmas.TextMore
import RichModel.Lemmas.WrapDivide
/-!
Slicing on top of `divide_view` (proved in `Lemmas/WrapDivide.lean` by the word-wrap property, which
needs it too; imported read-only).
-/
namespace RichModel
namespace Text
variable {σ : Type}

theorem clampIdx_le (n : Nat) (i : Int) : Py.clampIdx n i ≤ n := by
  unfold Py.clampIdx; split <;> omega

theorem sliceIndices_le (n : Nat) (a b : Option Int) :
    (Py.sliceIndices n a b).1 ≤ n ∧ (Py.sliceIndices n a b).2 ≤ n := by
  unfold Py.sliceIndices
  constructor
  · cases a with
    | none => simp
    | some x => simpa using clampIdx_le n x
  · cases b with
    | none => simp
    | some x => simpa using clampIdx_le n x

/-- `text[a:b]` with the normalised bounds in order (`s ≤ e`; `s, e = slice(a, b).indices(len)`): the
characters `s … e-1`, each with the effective style it had, in a consistent text with the same base style. -/
theorem getSlice_view [BEq σ] (t : Text σ) (a b : Option Int) (h : Inv t)
    (hse : (Py.sliceIndices t.plain.length a b).1 ≤ (Py.sliceIndices t.plain.length a b).2) :
    ∃ u, t.getSlice Variant.repaired a b = .ok u ∧ Inv u ∧ u.style = t.style ∧
      u.view = (t.view.drop (Py.sliceIndices t.plain.length a b).1).take
        ((Py.sliceIndices t.plain.length a b).2 - (Py.sliceIndices t.plain.length a b).1) := by
  obtain ⟨h1, h2⟩ := sliceIndices_le t.plain.length a b
  unfold getSlice
  generalize Py.sliceIndices t.plain.length a b = se at hse h1 h2 ⊢
  obtain ⟨s, e⟩ := se
  simp only [] at hse h1 h2 ⊢
  obtain ⟨lines, hdiv, hview, _, hall⟩ := divide_view t [s, e] h ⟨Nat.zero_le _, hse, trivial⟩
    (by intro o ho; simp at ho; rcases ho with rfl | rfl <;> assumption)
  rw [hdiv]
  simp only [pieces, piecesFrom] at hview
  have hlen : lines.length = 3 := by
    have := congrArg List.length hview
    simpa using this
  obtain ⟨l0, l1, l2, rfl⟩ : ∃ l0 l1 l2, lines = [l0, l1, l2] := by
    match lines, hlen with
    | [x, y, z], _ => exact ⟨x, y, z, rfl⟩
  simp only [List.map_cons, List.map_nil, List.cons.injEq, and_true] at hview
  exact ⟨l1, rfl, (hall l1 (by simp)).1, (hall l1 (by simp)).2.1, hview.2.1⟩

end Text
end RichModel
