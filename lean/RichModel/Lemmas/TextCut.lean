import RichModel.Lemmas.TextMore
import RichModel.Lemmas.WrapDivide
/-!
Slicing on top of `divide_view` (proved in `Lemmas/WrapDivide.lean` by the word-wrap property, which
needs it too; imported read-only).
-/
namespace RichModel
namespace Text
variable {σ : Type}

theorem clampIdx_le (n : Nat) (i : Int) : Py.clampIdx n i ≤ n := by
  unfold Py.clampIdx; split <;> omega

theorem sliceIndices_le (n : Nat) (a b : Option Int) :
    (Py.sliceIndices n a b).1 ≤ n ∧ (Py.sliceIndices n a b).2 ≤ n := by
  unfold Py.sliceIndices
  constructor
  · cases a with
    | none => simp
    | some x => simpa using clampIdx_le n x
  · cases b with
    | none => simp
    | some x => simpa using clampIdx_le n x

/-- `text[a:b]` with the normalised bounds in order (`s ≤ e`; `s, e = slice(a, b).indices(len)`): the
characters `s … e-1`, each with the effective style it had, in a consistent text with the same base style. -/
theorem getSlice_view [BEq σ] (t : Text σ) (a b : Option Int) (h : Inv t)
    (hse : (Py.sliceIndices t.plain.length a b).1 ≤ (Py.sliceIndices t.plain.length a b).2) :
    ∃ u, t.getSlice Variant.repaired a b = .ok u ∧ Inv u ∧ u.style = t.style ∧
      u.view = (t.view.drop (Py.sliceIndices t.plain.length a b).1).take
        ((Py.sliceIndices t.plain.length a b).2 - (Py.sliceIndices t.plain.length a b).1) := by
  obtain ⟨h1, h2⟩ := sliceIndices_le t.plain.length a b
  unfold getSlice
  generalize Py.sliceIndices t.plain.length a b = se at hse h1 h2 ⊢
  obtain ⟨s, e⟩ := se
  simp only [] at hse h1 h2 ⊢
  obtain ⟨lines, hdiv, hview, _, hall⟩ := divide_view t [s, e] h ⟨Nat.zero_le _, hse, trivial⟩
    (by intro o ho; simp at ho; rcases ho with rfl | rfl <;> assumption)
  rw [hdiv]
  simp only [pieces, piecesFrom] at hview
  have hlen : lines.length = 3 := by
    have := congrArg List.length hview
    simpa using this
  obtain ⟨l0, l1, l2, rfl⟩ : ∃ l0 l1 l2, lines = [l0, l1, l2] := by
    match lines, hlen with
    | [x, y, z], _ => exact ⟨x, y, z, rfl⟩
  simp only [List.map_cons, List.map_nil, List.cons.injEq, and_true] at hview
  exact ⟨l1, rfl, (hall l1 (by simp)).1, (hall l1 (by simp)).2.1, hview.2.1⟩

/-- every entry of the span stack at the beginning of the line starting at `s` starts at or after `s` -/
theorem lineSpans_reversed (spans : List (Span σ)) (s : Nat) (e : Int) (todo : List (Nat × Span σ))
    (hT : TodoInv spans s todo) (hes : e ≤ (s : Int)) : lineSpans (s : Int) e todo = [] := by
  cases todo with
  | nil => rfl
  | cons p ps =>
    obtain ⟨o, _, _, _, hstart, _⟩ := hT.entry p (by simp)
    have : ¬ (p.2.start < e) := by omega
    simp [lineSpans, List.takeWhile_cons, this, Py.sortByKey]

/-- `divide([s, e])` with `e < s` (what `text[a:b]` asks for when the bounds normalise to `stop < start`):
the middle line is the empty text, with no spans -/
theorem divide_reversed_middle [BEq σ] (t : Text σ) (s e : Nat) (h : Inv t) (hs : s ≤ t.plain.length) (hes : e < s) :
    ∃ l0 l2 rest, t.divide Variant.repaired [s, e] =
      .ok (l0 :: { lineOf t ((s : Int), (e : Int)) with spans := [] } :: l2 :: rest) := by
  unfold divide
  simp only [List.isEmpty_cons, Bool.false_eq_true, if_false]
  rw [lineRanges_eq, newLines_zip]
  simp only [rangesFrom, List.map_cons, List.map_nil]
  by_cases hsp : t.spans.isEmpty = true
  · rw [if_pos hsp]
    exact ⟨_, _, [], by rw [newLines_eq]; rfl⟩
  · rw [if_neg hsp]
    have : Variant.repaired.divideOrder = false := rfl
    simp only [this, Bool.false_eq_true, if_false]
    rw [divLines_cons _ _ _ _ _ (lineOf_spans t _), divLines_cons _ _ _ _ _ (lineOf_spans t _),
      divLines_cons _ _ _ _ _ (lineOf_spans t _)]
    have hT1 := todoInv_next t.spans 0 s (Nat.zero_le _) _ (todoInv_init t h)
    rw [lineSpans_reversed t.spans s (e : Int) _ hT1 (by omega)]
    exact ⟨_, _, _, rfl⟩

/-- **`text[a:b]` is the slice of the styled string**, for every pair of bounds — `None`, negative, beyond
either end, and bounds that normalise to `stop < start` (empty result), exactly as for `str`. -/
theorem getSlice_view_all [BEq σ] (t : Text σ) (a b : Option Int) (h : Inv t) :
    ∃ u, t.getSlice Variant.repaired a b = .ok u ∧ Inv u ∧ u.style = t.style ∧
      u.view = (t.view.drop (Py.sliceIndices t.plain.length a b).1).take
        ((Py.sliceIndices t.plain.length a b).2 - (Py.sliceIndices t.plain.length a b).1) := by
  by_cases hse : (Py.sliceIndices t.plain.length a b).1 ≤ (Py.sliceIndices t.plain.length a b).2
  · exact getSlice_view t a b h hse
  · obtain ⟨h1, _⟩ := sliceIndices_le t.plain.length a b
    unfold getSlice
    generalize Py.sliceIndices t.plain.length a b = se at hse h1 ⊢
    obtain ⟨s, e⟩ := se
    simp only [] at hse h1 ⊢
    obtain ⟨l0, l2, rest, hdiv⟩ := divide_reversed_middle t s e h h1 (by omega)
    rw [hdiv]
    have hz : e - s = 0 := by omega
    have hp : (lineOf t ((s : Int), (e : Int))).plain = [] := by
      rw [lineOf_plain t h s e, hz]; rfl
    refine ⟨_, rfl, ⟨?_, ?_, ?_⟩, rfl, ?_⟩
    · show (lineOf t ((s : Int), (e : Int))).length = _
      have : (lineOf t ((s : Int), (e : Int))).length = (((lineOf t ((s : Int), (e : Int))).plain.length : Nat) : Int) := rfl
      rw [this]
    · show ∀ c ∈ (lineOf t ((s : Int), (e : Int))).plain, _
      rw [hp]; intro c hc; simp at hc
    · intro sp hsp; simp at hsp
    · rw [hz, List.take_zero, view_eq_annot]
      show annot (lineOf t ((s : Int), (e : Int))).plain _ 0 = []
      rw [hp]; rfl

/-- `text[a:b:step]`: a step of 0 raises `ValueError` (from `slice.indices`), any other step than 1 is refused
with `TypeError`, `None`/1 is the plain slice -/
theorem getSliceStep_spec [BEq σ] (t : Text σ) (a b step : Option Int) :
    t.getSliceStep Variant.repaired a b step =
      (if step = some 0 then .error .valueError
       else if step = none ∨ step = some 1 then t.getSlice Variant.repaired a b
       else .error .typeError) := by
  unfold getSliceStep
  cases step with
  | none => simp
  | some k =>
    by_cases h0 : k = 0
    · subst h0; simp
    · by_cases h1 : k = 1
      · subst h1; simp
      · simp [h0, h1]

end Text
end RichModel
