import RichModel.Lemmas.TextJoin
import RichModel.Lemmas.WrapSplit
import RichModel.Lemmas.WrapFold
/-!
`Lines.justify(..., "full")` (containers.py:131-161), repaired variant: every line but the last is rebuilt as
`Text("").join(tokens)`, the tokens being the words of `line.split(" ")` interleaved with fresh blank texts.
* `split_space_spec`: `line.split(" ")` — the words are the pieces of the styled string between the blanks;
* `justifyFullLine_ink` (F1): the rebuilt line shows exactly the non-whitespace characters of the line, in order,
  each with its effective style prefixed by the null style of `Text("")`;
* `justifyFullLine_fits` (F2): the rebuilt line still fits once stripped if the line did;
* `justifyFull_spec` (F3): the list function.
-/
namespace RichModel
namespace Wrap
open Text
variable {σ : Type}

/-! ### `str.split(" ")` -/

/-- `(cur + s).split(" ")` where `cur` (the word being read) contains no blank -/
def spSplitA (cur : List Char) : List Char → List (List Char)
  | [] => [cur]
  | c :: rest => if c = ' ' then cur :: spSplitA [] rest else spSplitA (cur ++ [c]) rest

theorem spSplitA_ne_nil (s : List Char) : ∀ cur, spSplitA cur s ≠ [] := by
  induction s with
  | nil => intro cur; simp [spSplitA]
  | cons c rest ih =>
    intro cur
    simp only [spSplitA]
    split
    · simp
    · exact ih _

theorem spSplitA_snoc_space (s : List Char) : ∀ cur, spSplitA cur (s ++ [' ']) = spSplitA cur s ++ [[]] := by
  induction s with
  | nil => intro cur; simp [spSplitA]
  | cons c rest ih =>
    intro cur
    simp only [List.cons_append, spSplitA]
    split
    · simp [ih]
    · exact ih _

theorem spSplitA_noSpace (s : List Char) : ∀ cur, (∀ c ∈ cur, c ≠ ' ') → ∀ p ∈ spSplitA cur s, ∀ c ∈ p, c ≠ ' ' := by
    induction s with
    | nil =>
      intro cur hcur p hp
      simp only [spSplitA, List.mem_singleton] at hp
      subst hp; exact hcur
    | cons c rest ih =>
      intro cur hcur p hp
      simp only [spSplitA] at hp
      split at hp
      · rcases List.mem_cons.mp hp with rfl | hp
        · exact hcur
        · exact ih [] (by simp) p hp
      · rename_i hc
        refine ih (cur ++ [c]) ?_ p hp
        intro d hd
        rcases List.mem_append.mp hd with hd | hd
        · exact hcur d hd
        · simp only [List.mem_singleton] at hd
          subst hd; exact hc

theorem findAllAux_space_cons (c : Char) (rest : List Char) (pos : Nat) :
    findAllAux [' '] (c :: rest) pos 0 =
      if c = ' ' then (pos, pos + 1) :: findAllAux [' '] rest (pos + 1) 0 else findAllAux [' '] rest (pos + 1) 0 := by
  rw [findAllAux]
  by_cases hc : c = ' '
  · subst hc; simp [List.isPrefixOf]
  · have : (' ' == c) = false := by simpa using fun h => hc h.symm
    simp [List.isPrefixOf, hc, this]

/-- cutting `pre ++ s` at both ends of every blank of `s` and discarding the pieces `" "` is `str.split(" ")` -/
theorem pieces_space (s : List Char) : ∀ (pre : List Char) (start : Nat), start ≤ pre.length →
    (∀ c ∈ pre.drop start, c ≠ ' ') →
    (piecesFrom start ((findAllAux [' '] s pre.length 0).flatMap (fun m => [m.1, m.2])) (pre ++ s)).filter
        (fun p => p != [' ']) = spSplitA (pre.drop start) s := by
  induction s with
  | nil =>
    intro pre start hs hpre
    simp only [findAllAux, List.flatMap_nil, piecesFrom, List.append_nil, spSplitA]
    have : (pre.drop start != [' ']) = true := by
      simp only [bne_iff_ne, ne_eq]
      intro h
      exact hpre ' ' (by rw [h]; simp) rfl
    simp [this]
  | cons c rest ih =>
    intro pre start hs hpre
    rw [findAllAux_space_cons]
    have hcat : pre ++ c :: rest = (pre ++ [c]) ++ rest := by simp
    have hlen : pre.length + 1 = (pre ++ [c]).length := by simp
    by_cases hc : c = ' '
    · subst hc
      simp only [if_true, List.flatMap_cons, List.cons_append, List.nil_append, piecesFrom, spSplitA]
      have h1 : ((pre ++ ' ' :: rest).drop start).take (pre.length - start) = pre.drop start := by
        rw [List.drop_append_of_le_length hs, List.take_append_of_le_length (by simp)]
        rw [List.take_of_length_le (by simp)]
      have h2 : ((pre ++ ' ' :: rest).drop pre.length).take (pre.length + 1 - pre.length) = [' '] := by
        rw [List.drop_left, show pre.length + 1 - pre.length = 1 by omega]; rfl
      rw [h1, h2]
      have hk : (pre.drop start != [' ']) = true := by
        simp only [bne_iff_ne, ne_eq]
        intro h
        exact hpre ' ' (by rw [h]; simp) rfl
      have hd : ([' '] != [' ']) = false := by simp
      rw [List.filter_cons, if_pos hk, List.filter_cons, hd]
      simp only [Bool.false_eq_true, if_false]
      rw [hcat, hlen, ih (pre ++ [' ']) (pre ++ [' ']).length (Nat.le_refl _) (by simp)]
      simp
    · simp only [hc, if_false, spSplitA]
      rw [hcat, hlen, ih (pre ++ [c]) start (by simp; omega)]
      · rw [List.drop_append_of_le_length hs]
      · rw [List.drop_append_of_le_length hs]
        intro d hd
        rcases List.mem_append.mp hd with hd | hd
        · exact hpre d hd
        · simp only [List.mem_singleton] at hd
          subst hd; exact hc

theorem findAllAux_space_nil (s : List Char) : ∀ pos, findAllAux [' '] s pos 0 = [] → ∀ c ∈ s, c ≠ ' ' := by
  induction s with
  | nil => intro _ _ c hc; simp at hc
  | cons d rest ih =>
    intro pos h c hc
    rw [findAllAux_space_cons] at h
    by_cases hd : d = ' '
    · simp [hd] at h
    · simp only [hd, if_false] at h
      rcases List.mem_cons.mp hc with rfl | hc
      · exact hd
      · exact ih _ h c hc

theorem spSplitA_noSpace_eq (s : List Char) : ∀ cur, (∀ c ∈ s, c ≠ ' ') → spSplitA cur s = [cur ++ s] := by
  induction s with
  | nil => intro cur _; simp [spSplitA]
  | cons c rest ih =>
    intro cur h
    have hc : c ≠ ' ' := h c (by simp)
    simp only [spSplitA, hc, if_false]
    rw [ih _ (fun d hd => h d (List.mem_cons_of_mem _ hd))]
    simp

theorem suffix_space (s : List Char) (h : [' '].isSuffixOf s = true) : ∃ s', s = s' ++ [' '] := by
  obtain ⟨s', hs⟩ := List.isSuffixOf_iff_suffix.mp h
  exact ⟨s', hs.symm⟩

/-- `line.split(" ")` (no separators, no trailing blank word): the words before the final `dropLast` are the pieces
of the line between its blanks -/
theorem split_space_spec [BEq σ] (t : Text σ) (h : Inv t) :
    ∃ ls : List (Text σ),
      t.split Variant.repaired [' '] = .ok (if [' '].isSuffixOf t.plain then ls.dropLast else ls) ∧
      ls.map (·.plain) = spSplitA [] t.plain ∧
      nsv (ls.flatMap Text.view) = nsv t.view ∧
      ∀ l ∈ ls, Inv l ∧ l.style = t.style := by
  unfold Text.split
  simp only [List.isEmpty_cons, Bool.false_eq_true, if_false, Bool.not_false, Bool.true_and]
  split
  · rename_i hms
    have hns : ∀ c ∈ t.plain, c ≠ ' ' := findAllAux_space_nil t.plain 0 (List.isEmpty_iff.mp hms)
    have hsuf : [' '].isSuffixOf t.plain = false := by
      cases hs : [' '].isSuffixOf t.plain with
      | false => rfl
      | true =>
        obtain ⟨s', hs'⟩ := suffix_space _ hs
        exact absurd rfl (hns ' ' (by rw [hs']; simp))
    refine ⟨[t], ?_, ?_, ?_, ?_⟩
    · rw [copy_eq_self t h, hsuf]; rfl
    · rw [spSplitA_noSpace_eq _ _ hns]; simp
    · simp
    · intro l hl
      simp only [List.mem_singleton] at hl
      subst hl; exact ⟨h, rfl⟩
  · obtain ⟨hasc, hb⟩ := findAllAux_asc [' '] (by simp) t.plain 0 0
    obtain ⟨lines, hdiv, hview, hplain, hall⟩ := divide_view t _ h hasc (by simpa [findAll] using hb)
    simp only [findAll] at hdiv ⊢
    refine ⟨lines.filter (fun line => line.plain != [' ']), ?_, ?_, ?_, ?_⟩
    · simp only [hdiv, bind, Except.bind, pure, Except.pure]
      split <;> rfl
    · have := pieces_space t.plain [] 0 (Nat.le_refl _) (by simp)
      simp only [List.length_nil, List.nil_append, List.drop_nil] at this
      rw [← this, ← pieces, ← hplain, List.filter_map]
      rfl
    · rw [nsv_flatMap_filter]
      · rw [List.flatMap_def, hview, pieces_flatten _ _ hasc]
      · intro l _ hq
        have hp : l.plain = [' '] := by simpa using hq
        rw [view_eq_annot, hp]
        simp [annot, nsv, show pyIsSpace ' ' = true from by decide]
    · intro l hl
      have hl' := (List.mem_filter.mp hl).1
      exact ⟨(hall l hl').1, (hall l hl').2.1⟩

/-- the words of `line.split(" ")` -/
theorem split_space_words [BEq σ] (t : Text σ) (h : Inv t) :
    ∃ ws : List (Text σ), t.split Variant.repaired [' '] = .ok ws ∧
      nsv (ws.flatMap Text.view) = nsv t.view ∧ (∀ l ∈ ws, Inv l ∧ l.style = t.style) ∧
      ∃ s', ws.map (·.plain) = spSplitA [] s' ∧ (t.plain = s' ∨ t.plain = s' ++ [' ']) := by
  obtain ⟨ls, hsplit, hplain, hink, hall⟩ := split_space_spec t h
  cases hs : [' '].isSuffixOf t.plain with
  | false =>
    rw [hs] at hsplit
    exact ⟨ls, hsplit, hink, hall, t.plain, hplain, Or.inl rfl⟩
  | true =>
    rw [hs] at hsplit
    obtain ⟨s', hs'⟩ := suffix_space _ hs
    rw [hs', spSplitA_snoc_space] at hplain
    -- the dropped last word is empty
    have hne : ls ≠ [] := by
      intro h0; rw [h0] at hplain; simp at hplain
    obtain ⟨ini, lst, rfl⟩ : ∃ ini lst, ls = ini ++ [lst] :=
      ⟨ls.dropLast, ls.getLast hne, (List.dropLast_concat_getLast hne).symm⟩
    simp only [List.map_append, List.map_cons, List.map_nil] at hplain
    obtain ⟨hp1, hp2⟩ := List.append_inj' hplain rfl
    have hlst : lst.plain = [] := by simpa using hp2
    refine ⟨ini, by simpa using hsplit, ?_, fun l hl => hall l (by simp [hl]), s', hp1, Or.inr hs'⟩
    rw [← hink, List.flatMap_append, nsv_append]
    simp [view_eq_annot, hlst, annot, nsv]

/-! ### `Text("").join(tokens)` -/

theorem joinSeq_empty (sep : Text σ) (h : sep.plain = []) : ∀ l : List (Text σ), joinSeq sep l = l
  | [] => rfl
  | [_] => rfl
  | x :: y :: rest => by
    simp only [joinSeq, h, List.isEmpty_nil, if_true]
    rw [joinSeq_empty sep h (y :: rest)]

theorem foldl_appendText_plain (seq : List (Text σ)) : ∀ a : Text σ,
    (seq.foldl appendText a).plain = a.plain ++ (seq.map (·.plain)).flatten := by
  induction seq with
  | nil => intro a; simp
  | cons x rest ih => intro a; simp [List.foldl_cons, ih, appendText]

theorem join_style (v : Variant) (sep : Text σ) (lines : List (Text σ)) : (sep.join v lines).style = sep.style := rfl

theorem join_plain (v : Variant) (sep : Text σ) (lines : List (Text σ)) :
    (sep.join v lines).plain = ((joinSeq sep lines).map (·.plain)).flatten := by
  rw [join_eq_fold, foldl_appendText_plain]
  simp [blankCopy, new, stripControl]

theorem nullSep_inv (null : σ) : Inv (Text.new Variant.repaired [] null) :=
  inv_new [] null [] _ _ _ _ _ (by intro sp h; simp at h)

theorem nullSep_plain (v : Variant) (null : σ) : (Text.new v [] null).plain = [] := rfl

theorem nsv_map_snd {β γ : Type} (g : β → γ) (v : List (Char × β)) :
    nsv (v.map (fun p => (p.1, g p.2))) = (nsv v).map (fun p => (p.1, g p.2)) := by
  induction v with
  | nil => rfl
  | cons p rest ih =>
    simp only [nsv, List.map_cons, List.filter_cons] at ih ⊢
    split <;> simp [ih]

/-- `Text("").join(tokens)` on consistent tokens: consistent, base style null, and the styled string of the tokens
with the null style in front of every style list -/
theorem join_null_spec (null : σ) (tokens : List (Text σ)) (ht : ∀ x ∈ tokens, Inv x) :
    Inv ((Text.new Variant.repaired [] null).join Variant.repaired tokens) ∧
    ((Text.new Variant.repaired [] null).join Variant.repaired tokens).style = null ∧
    ((Text.new Variant.repaired [] null).join Variant.repaired tokens).plain = (tokens.map (·.plain)).flatten ∧
    nsv ((Text.new Variant.repaired [] null).join Variant.repaired tokens).view =
      (nsv (tokens.flatMap Text.view)).map (fun p => (p.1, null :: p.2)) := by
  refine ⟨inv_join _ _ (nullSep_inv null) ht, rfl, ?_, ?_⟩
  · rw [join_plain, joinSeq_empty _ (nullSep_plain _ null)]
  · rw [view_join _ _ (nullSep_inv null) ht, joinSeq_empty _ (nullSep_plain _ null)]
    rw [← nsv_map_snd, List.map_flatMap]
    rfl

/-! ### the tokens -/

/-- the characters of the tokens: the words' characters with `spaces[i]` blanks between them -/
def glue : List (List Char) → List Nat → List Char
  | [], _ => []
  | [w], _ => w
  | w :: next :: rest, [] => w ++ glue (next :: rest) []
  | w :: next :: rest, n :: sp => w ++ (List.replicate n ' ' ++ glue (next :: rest) sp)

theorem stripControl_replicate_space (n : Nat) : stripControl (List.replicate n ' ') = List.replicate n ' ' :=
  stripControl_id _ (NoCtl.replicate n ' ' noCtl_space)

theorem blank_inv (n : Nat) (st : σ) : Inv (Text.new Variant.repaired (List.replicate n ' ') st) :=
  inv_new _ st [] _ _ _ _ _ (by intro sp h; simp at h)

theorem blank_nsv (v : Variant) (n : Nat) (st : σ) : nsv (Text.new v (List.replicate n ' ') st).view = [] := by
  rw [view_new, stripControl_replicate_space]
  exact nsv_space _ (annot_space _ _ _ (by intro c hc; rw [List.eq_of_mem_replicate hc]; exact space_isSpace))

theorem blank_plain (v : Variant) (n : Nat) (st : σ) : (Text.new v (List.replicate n ' ') st).plain = List.replicate n ' ' :=
  stripControl_replicate_space n

theorem fullTokens_spec (A : StyleAlg σ) (ls : σ) : ∀ (ws : List (Text σ)) (sp : List Nat), (∀ w ∈ ws, Inv w) →
    (∀ x ∈ fullTokens Variant.repaired A ls ws sp, Inv x) ∧
    nsv ((fullTokens Variant.repaired A ls ws sp).flatMap Text.view) = nsv (ws.flatMap Text.view) ∧
    ((fullTokens Variant.repaired A ls ws sp).map (·.plain)).flatten = glue (ws.map (·.plain)) sp
  | [], _, _ => by simp [fullTokens, glue]
  | [w], _, h => by
    refine ⟨by simpa [fullTokens] using h, by simp [fullTokens], by simp [fullTokens, glue]⟩
  | w :: next :: rest, [], h => by
    obtain ⟨i1, i2, i3⟩ := fullTokens_spec A ls (next :: rest) [] (fun x hx => h x (List.mem_cons_of_mem _ hx))
    simp only [fullTokens]
    refine ⟨?_, ?_, ?_⟩
    · intro x hx
      rcases List.mem_cons.mp hx with rfl | hx
      · exact h _ (by simp)
      · exact i1 x hx
    · rw [List.flatMap_cons, nsv_append, i2, List.flatMap_cons (x := w), nsv_append]
    · rw [List.map_cons, List.flatten_cons, i3]; rfl
  | w :: next :: rest, n :: sp, h => by
    obtain ⟨i1, i2, i3⟩ := fullTokens_spec A ls (next :: rest) sp (fun x hx => h x (List.mem_cons_of_mem _ hx))
    simp only [fullTokens]
    refine ⟨?_, ?_, ?_⟩
    · intro x hx
      rcases List.mem_cons.mp hx with rfl | hx
      · exact h _ (by simp)
      · rcases List.mem_cons.mp hx with rfl | hx
        · exact blank_inv _ _
        · exact i1 x hx
    · rw [List.flatMap_cons, List.flatMap_cons, nsv_append, nsv_append, blank_nsv, i2, List.flatMap_cons (x := w), nsv_append]
      simp
    · rw [List.map_cons, List.map_cons, List.flatten_cons, List.flatten_cons, i3, blank_plain]; rfl

/-! ### one rebuilt line -/

/-- everything the later statements need about one rebuilt line -/
theorem justifyFullLine_spec [BEq σ] (cw : Char → Nat) (A : StyleAlg σ) (line : Text σ) (h : Inv line) (w : Nat) :
    ∃ (out : Text σ) (s' : List Char), justifyFullLine Variant.repaired cw A line w = .ok out ∧ Inv out ∧
      out.style = A.null ∧
      nsv out.view = (nsv line.view).map (fun p => (p.1, A.null :: p.2)) ∧
      (line.plain = s' ∨ line.plain = s' ++ [' ']) ∧
      out.plain = glue (spSplitA [] s')
        (fullSpaces ((spSplitA [] s').map (cellLen cw)).sum (spSplitA [] s').length w) := by
  obtain ⟨ws, hsplit, hink, hall, s', hplain, hs'⟩ := split_space_words line h
  obtain ⟨t1, t2, t3⟩ := fullTokens_spec A line.style ws
    (fullSpaces (ws.map (fun w => cellLen cw w.plain)).sum ws.length w) (fun x hx => (hall x hx).1)
  obtain ⟨j1, j2, j3, j4⟩ := join_null_spec A.null _ t1
  refine ⟨_, s', ?_, j1, j2, ?_, hs', ?_⟩
  · unfold justifyFullLine
    rw [hsplit]
    rfl
  · rw [j4, t2, hink]
  · rw [j3, t3, hplain]
    have e1 : (ws.map (fun w => cellLen cw w.plain)) = (spSplitA [] s').map (cellLen cw) := by
      rw [← hplain, List.map_map]; rfl
    have e2 : ws.length = (spSplitA [] s').length := by rw [← hplain, List.length_map]
    rw [e1, e2]

/-- **(F1)** a line rebuilt by full justification shows exactly the non-whitespace characters of the line, in order,
each with its effective style prefixed by the null style of `Text("")` -/
theorem justifyFullLine_ink [BEq σ] (cw : Char → Nat) (A : StyleAlg σ) (line : Text σ) (h : Inv line) (w : Nat) :
    ∃ out, justifyFullLine Variant.repaired cw A line w = .ok out ∧ Inv out ∧ out.style = A.null ∧
      nsv out.view = (nsv line.view).map (fun p => (p.1, A.null :: p.2)) := by
  obtain ⟨out, _, h1, h2, h3, h4, _⟩ := justifyFullLine_spec cw A line h w
  exact ⟨out, h1, h2, h3, h4⟩

/-! ### the blanks handed out by `spreadLoop` -/

theorem bump_length : ∀ (l : List Nat) (i : Nat), (bump l i).length = l.length
  | [], _ => rfl
  | _ :: _, 0 => rfl
  | x :: xs, i + 1 => by simp [bump, bump_length xs i]

theorem bump_sum : ∀ (l : List Nat) (i : Nat), i < l.length → (bump l i).sum = l.sum + 1
  | [], _, h => by simp at h
  | x :: xs, 0, _ => by simp [bump]; omega
  | x :: xs, i + 1, h => by
    simp only [bump, List.sum_cons]
    rw [bump_sum xs i (by simpa using h)]; omega

theorem spreadLoop_spec (n : Nat) (hn : 0 < n) : ∀ (todo index : Nat) (sp : List Nat), index < n → sp.length = n →
    (spreadLoop n todo index sp).length = n ∧ (spreadLoop n todo index sp).sum = sp.sum + todo
  | 0, _, sp, _, hl => by simp [spreadLoop, hl]
  | todo + 1, index, sp, hi, hl => by
    simp only [spreadLoop]
    obtain ⟨h1, h2⟩ := spreadLoop_spec n hn todo ((index + 1) % n) (bump sp (n - index - 1)) (Nat.mod_lt _ hn)
      (by rw [bump_length, hl])
    refine ⟨h1, ?_⟩
    rw [h2, bump_sum _ _ (by omega)]; omega

/-- the `spaces` list: one entry per gap; either every gap is one blank (nothing to hand out) or the blanks fill
the width exactly -/
theorem fullSpaces_spec (wordsSize numWords w : Nat) :
    (fullSpaces wordsSize numWords w).length = numWords - 1 ∧
    (fullSpaces wordsSize numWords w = List.replicate (numWords - 1) 1 ∨
      wordsSize + (fullSpaces wordsSize numWords w).sum = w) := by
  unfold fullSpaces
  simp only
  split
  · rename_i h0
    exact ⟨by simp, Or.inl rfl⟩
  · rename_i h0
    obtain ⟨h1, h2⟩ := spreadLoop_spec (numWords - 1) (by omega) (w - (wordsSize + (numWords - 1))) 0
      (List.replicate (numWords - 1) 1) (by omega) (by simp)
    refine ⟨h1, ?_⟩
    by_cases hlt : wordsSize + (numWords - 1) < w
    · right
      rw [h2]; simp; omega
    · left
      have : w - (wordsSize + (numWords - 1)) = 0 := by omega
      rw [this]; rfl

/-! ### the characters of the rebuilt line -/

theorem cellLen_glue (cw : Char → Nat) (hsp : cw ' ' = 1) : ∀ (ps : List (List Char)) (sp : List Nat),
    sp.length = ps.length - 1 → cellLen cw (glue ps sp) = (ps.map (cellLen cw)).sum + sp.sum
  | [], sp, h => by
    have : sp = [] := List.eq_nil_of_length_eq_zero (by simpa using h)
    subst this; simp [glue, cellLen]
  | [p], sp, h => by
    have : sp = [] := List.eq_nil_of_length_eq_zero (by simpa using h)
    subst this; simp [glue]
  | p :: q :: rest, [], h => by simp at h
  | p :: q :: rest, n :: sp, h => by
    simp only [glue, cellLen_append, cellLen_replicate, hsp]
    rw [cellLen_glue cw hsp (q :: rest) sp (by simp at h ⊢; omega)]
    simp only [List.map_cons, List.sum_cons]
    omega

theorem glue_ones_cons (p q : List Char) (rest : List (List Char)) :
    glue (p :: q :: rest) (List.replicate ((p :: q :: rest).length - 1) 1) =
      p ++ ' ' :: glue (q :: rest) (List.replicate ((q :: rest).length - 1) 1) := by
  simp [glue, List.replicate_succ]

/-- with one blank per gap the rebuilt line is `" ".join(s.split(" "))`, that is `s` -/
theorem glue_ones_spSplitA (s : List Char) : ∀ cur,
    glue (spSplitA cur s) (List.replicate ((spSplitA cur s).length - 1) 1) = cur ++ s := by
  induction s with
  | nil => intro cur; simp [spSplitA, glue]
  | cons c rest ih =>
    intro cur
    simp only [spSplitA]
    split
    · rename_i hc
      obtain ⟨q, qs, hq⟩ := List.exists_cons_of_ne_nil (spSplitA_ne_nil rest [])
      have := ih []
      rw [hq] at this ⊢
      rw [glue_ones_cons, this, hc]; simp
    · rw [ih]; simp

theorem cellLen_pyRstrip_le_full (cw : Char → Nat) (s : List Char) : cellLen cw (pyRstrip s) ≤ cellLen cw s := by
  have h : cellLen cw s = cellLen cw (s.take (rlen s)) + cellLen cw (s.drop (rlen s)) := by
    rw [← cellLen_append, List.take_append_drop]
  rw [pyRstrip_eq_take]; omega

/-- the string-level content of (F2) -/
theorem glue_fullSpaces_fits (cw : Char → Nat) (hsp : cw ' ' = 1) (s' line : List Char) (w : Nat)
    (hline : line = s' ∨ line = s' ++ [' ']) (hfit : cellLen cw (pyRstrip line) ≤ w) :
    cellLen cw (pyRstrip (glue (spSplitA [] s')
      (fullSpaces ((spSplitA [] s').map (cellLen cw)).sum (spSplitA [] s').length w))) ≤ w := by
  obtain ⟨hlen, hcase⟩ := fullSpaces_spec ((spSplitA [] s').map (cellLen cw)).sum (spSplitA [] s').length w
  rcases hcase with hones | hfull
  · rw [hones, glue_ones_spSplitA, List.nil_append]
    rcases hline with rfl | rfl
    · exact hfit
    · rw [pyRstrip_append_space _ _ (by intro c hc; simp at hc; subst hc; exact space_isSpace)] at hfit
      exact hfit
  · have := cellLen_glue cw hsp _ _ hlen
    have h2 := cellLen_pyRstrip_le_full cw (glue (spSplitA [] s')
      (fullSpaces ((spSplitA [] s').map (cellLen cw)).sum (spSplitA [] s').length w))
    omega

/-- **(F2)** the rebuilt line still fits once stripped, if the line did -/
theorem justifyFullLine_fits [BEq σ] (cw : Char → Nat) (hsp : cw ' ' = 1) (A : StyleAlg σ) (line : Text σ) (h : Inv line)
    (w : Nat) (hfit : cellLen cw (pyRstrip line.plain) ≤ w) (out : Text σ)
    (ho : justifyFullLine Variant.repaired cw A line w = .ok out) :
    cellLen cw (pyRstrip out.plain) ≤ w := by
  obtain ⟨out', s', h1, _, _, _, hs', hp⟩ := justifyFullLine_spec cw A line h w
  rw [ho] at h1
  cases h1
  rw [hp]
  exact glue_fullSpaces_fits cw hsp s' line.plain w hs' hfit

/-! ### the list function -/

/-- what full justification does to a line that is not the last one of its paragraph -/
def Rebuilt (cw : Char → Nat) (A : StyleAlg σ) (w : Nat) (line out : Text σ) : Prop :=
  Inv out ∧ out.style = A.null ∧
  nsv out.view = (nsv line.view).map (fun p => (p.1, A.null :: p.2)) ∧
  (cellLen cw (pyRstrip line.plain) ≤ w → cellLen cw (pyRstrip out.plain) ≤ w)

/-- the lines handed to full justification and the lines it returns: the last line is returned as it is, every
other one is rebuilt -/
def FullRel (cw : Char → Nat) (A : StyleAlg σ) (w : Nat) : List (Text σ) → List (Text σ) → Prop
  | [], outs => outs = []
  | [last], outs => outs = [last]
  | line :: next :: rest, outs =>
    ∃ out outs', outs = out :: outs' ∧ Rebuilt cw A w line out ∧ FullRel cw A w (next :: rest) outs'

theorem justifyFullLine_rebuilt [BEq σ] (cw : Char → Nat) (hsp : cw ' ' = 1) (A : StyleAlg σ) (line : Text σ) (h : Inv line)
    (w : Nat) : ∃ out, justifyFullLine Variant.repaired cw A line w = .ok out ∧ Rebuilt cw A w line out := by
  obtain ⟨out, ho, h1, h2, h3⟩ := justifyFullLine_ink cw A line h w
  exact ⟨out, ho, h1, h2, h3, fun hfit => justifyFullLine_fits cw hsp A line h w hfit out ho⟩

/-- **(F3)** `Lines.justify(…, "full")` on consistent lines never raises, returns as many lines, the last one
unchanged and every other one rebuilt (`Rebuilt`: consistent, null base style, the same non-whitespace characters
with the null style in front of their styles, still fitting once stripped) -/
theorem justifyFull_spec [BEq σ] (cw : Char → Nat) (hsp : cw ' ' = 1) (A : StyleAlg σ) (w : Nat) :
    ∀ lines : List (Text σ), (∀ l ∈ lines, Inv l) →
    ∃ outs, justifyFull Variant.repaired cw A w lines = .ok outs ∧ outs.length = lines.length ∧
      FullRel cw A w lines outs
  | [], _ => ⟨[], rfl, rfl, rfl⟩
  | [last], _ => ⟨[last], rfl, rfl, rfl⟩
  | line :: next :: rest, h => by
    obtain ⟨out, ho, hr⟩ := justifyFullLine_rebuilt cw hsp A line (h line (by simp)) w
    obtain ⟨outs', ho', hl', hr'⟩ := justifyFull_spec cw hsp A w (next :: rest)
      (fun l hl => h l (List.mem_cons_of_mem _ hl))
    refine ⟨out :: outs', ?_, by simp [hl'], out, outs', rfl, hr, hr'⟩
    simp only [justifyFull, ho, ho', bind, Except.bind]

/-- pointwise form: every returned line is the line itself or its rebuilt form -/
theorem FullRel.pointwise (cw : Char → Nat) (A : StyleAlg σ) (w : Nat) : ∀ (lines outs : List (Text σ)),
    FullRel cw A w lines outs → ∀ p ∈ lines.zip outs, p.2 = p.1 ∨ Rebuilt cw A w p.1 p.2
  | [], _, h => by cases h; simp
  | [last], _, h => by
    cases h
    intro p hp
    simp only [List.zip_cons_cons, List.zip_nil_right, List.mem_singleton] at hp
    subst hp; exact Or.inl rfl
  | line :: next :: rest, _, h => by
    obtain ⟨out, outs', rfl, hr, hrest⟩ := h
    intro p hp
    rcases List.mem_cons.mp hp with rfl | hp
    · exact Or.inr hr
    · exact FullRel.pointwise cw A w (next :: rest) outs' hrest p hp

theorem FullRel.inv (cw : Char → Nat) (A : StyleAlg σ) (w : Nat) : ∀ (lines outs : List (Text σ)),
    FullRel cw A w lines outs → (∀ l ∈ lines, Inv l) → ∀ o ∈ outs, Inv o
  | [], _, h, _ => by cases h; simp
  | [last], _, h, hi => by cases h; exact hi
  | line :: next :: rest, _, h, hi => by
    obtain ⟨out, outs', rfl, hr, hrest⟩ := h
    intro o ho
    rcases List.mem_cons.mp ho with rfl | ho
    · exact hr.1
    · exact FullRel.inv cw A w (next :: rest) outs' hrest (fun l hl => hi l (List.mem_cons_of_mem _ hl)) o ho

/-- the rebuilt lines of a paragraph keep its ink: with the null style removed from the front of the styles of the
rebuilt lines, the returned lines show the non-whitespace characters of the lines handed in -/
theorem FullRel.ink (cw : Char → Nat) (A : StyleAlg σ) (w : Nat) : ∀ (lines outs : List (Text σ)),
    FullRel cw A w lines outs →
    (nsv (outs.flatMap Text.view)).map (·.1) = (nsv (lines.flatMap Text.view)).map (·.1)
  | [], _, h => by cases h; rfl
  | [last], _, h => by cases h; rfl
  | line :: next :: rest, _, h => by
    obtain ⟨out, outs', rfl, hr, hrest⟩ := h
    rw [List.flatMap_cons, List.flatMap_cons, nsv_append, nsv_append, List.map_append, List.map_append,
      FullRel.ink cw A w (next :: rest) outs' hrest, hr.2.2.1, List.map_map]
    rfl

/-! ### a concrete instance -/

/-- "ab cd " with a span on "b c": justified to width 8 -/
def exLine : Text Nat :=
  { plain := ['a', 'b', ' ', 'c', 'd', ' '], length := 6, style := 0, spans := [⟨1, 4, 7⟩] }

def exAlg : StyleAlg Nat := ⟨100, fun l => l.sum, fun a b => a == b⟩

example : Inv exLine := by
  refine ⟨rfl, by decide, ?_⟩
  intro sp hsp
  simp only [exLine, List.mem_singleton] at hsp
  subst hsp; decide

example : (match justifyFullLine Variant.repaired (fun _ => 1) exAlg exLine 8 with
    | .ok t => t.plain == ['a', 'b', ' ', ' ', ' ', ' ', 'c', 'd'] && t.style == 100
    | .error _ => false) = true := by decide

end Wrap
end RichModel
