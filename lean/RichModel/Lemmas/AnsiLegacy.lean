import RichModel.Lemmas.AnsiLine
/-!
`legacy_windows=True` (property C19): `Style.render` writes no OSC 8 hyperlink, everything else is
unchanged — the encoder behaves as on the same segments with their links removed.
-/
namespace RichModel
namespace Ansi
open AsciiStr Style

def noLinkStyle (s : Style) : Style := { s with link := none }

/-- the segment with the link taken off its style -/
def stripLink (g : Seg) : Seg := { g with style := g.style.map noLinkStyle }

def Obs.dropLink (o : Obs) : Obs := { o with link := none }

theorem makeAnsiCodes_noLink (s : Style) : makeAnsiCodes (noLinkStyle s) = makeAnsiCodes s := rfl

theorem encodeSeg_legacy (g : Seg) : encodeSeg true g = encodeSeg false (stripLink g) := by
  cases hs : g.style with
  | none => simp [encodeSeg, stripLink, hs]
  | some s =>
    simp only [encodeSeg, stripLink, hs, Option.map_some]
    have hb : (noLinkStyle s).toBool = s.toBool := rfl
    rw [hb]
    split
    · simp only [renderSeg, makeAnsiCodes_noLink, Bool.not_true, Bool.and_false, Bool.false_eq_true, if_false]
      have : strTruthy (noLinkStyle s).link = false := rfl
      simp [this]
    · rfl

theorem encodeSegs_legacy (segs : List Seg) : encodeSegs true segs = encodeSegs false (segs.map stripLink) := by
  induction segs with
  | nil => rfl
  | cons g r ih => simp [encodeSegs, encodeSeg_legacy, ih]

theorem segOk_stripLink {g : Seg} (h : SegOk g) : SegOk (stripLink g) := by
  have hbel : noBel (stripLink g).linkId = true ∧ ∀ s, (stripLink g).style = some s → noBel (s.link.getD []) = true := by
    refine ⟨h.bel.1, ?_⟩
    intro s hs
    simp only [stripLink, Option.map_eq_some_iff] at hs
    obtain ⟨s0, _, rfl⟩ := hs
    rfl
  refine ⟨h.text, h.id, ?_, hbel⟩
  intro s hs
  simp only [stripLink, Option.map_eq_some_iff] at hs
  obtain ⟨s0, h0, rfl⟩ := hs
  obtain ⟨hi, hc, _⟩ := h.style s0 h0
  refine ⟨⟨hi.attrs_sub, hi.set_lt, ?_⟩, hc, rfl⟩
  intro hn
  obtain ⟨a, b, c, d, _⟩ := hi.null_empty hn
  exact ⟨a, b, c, d, rfl⟩

theorem obsOpt_stripLink (g : Seg) : obsOpt (stripLink g).style = (obsOpt g.style).dropLink := by
  cases hs : g.style with
  | none => simp [stripLink, hs, obsOpt, obs0, Obs.dropLink]
  | some s => simp [stripLink, hs, obsOpt, obsOf, Obs.dropLink, noLinkStyle, Style.attr, linkVal, strTruthy]

theorem expectedChars_stripLink (segs : List Seg) :
    expectedChars (segs.map stripLink) = (expectedChars segs).map fun p => (p.1, p.2.dropLink) := by
  induction segs with
  | nil => rfl
  | cons g r ih =>
    simp only [expectedChars, List.map_cons, List.flatMap_cons, List.map_append] at ih ⊢
    rw [ih, obsOpt_stripLink]
    simp [stripLink, List.map_map, Function.comp_def]

end Ansi
end RichModel
