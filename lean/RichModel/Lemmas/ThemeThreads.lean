import RichModel.Model.ThemeThreads
import RichModel.Lemmas.Theme
/-!
Lemmas for the second layer of the theme model: outside mutation of the base theme, threads,
identity of `get_style` results, lookups read the top entry only.
-/
namespace RichModel.Theme

variable {σ : Type}

/-! ## runF -/

theorem runF_append (f : Bool) (a b : List (FStep σ)) (st : Stack σ) :
    runF f (a ++ b) st = runF f b (runF f a st) := by
  induction a generalizing st with
  | nil => rfl
  | cons s r ih => simp [runF, ih]

/-! ## base mutation -/

/-- popping the entry a push added, after the base dict was mutated from outside, gives the stack
from before the push with the same mutation applied to it. -/
theorem popTheme_mutBase_push (st st1 : Stack σ) (t : Theme σ) (i : Bool) (hwf : st.WF)
    (hp : pushTheme st t i = .ok st1) (k : Name) (v : σ) :
    popTheme (mutBase k v st1) = .ok (mutBase k v st) := by
  rw [pushTheme_eq st hwf] at hp
  injection hp with hp
  subst hp
  have hg : st.entries.getLast? = some st.bound := hwf
  match hs : st.entries with
  | [] => simp [hs] at hg
  | [b] =>
    have hb : st.bound = b := by simpa [hs] using hg.symm
    simp [mutBase, popTheme, hs, hb]
  | b :: c :: r =>
    have hb : (c :: r).getLast? = some st.bound := by simpa [hs] using hg
    have hne : r ++ [if i = true then dupdate st.bound t.styles else t.styles] ≠ [] := by simp
    simp only [mutBase, hs, List.cons_append, popTheme, List.length_cons, List.length_append, List.length_nil]
    have hlen : ¬ (r.length + (0 + 1) + 1 + 1 = 1) := by omega
    simp only [hlen, if_false, List.isEmpty_cons, Bool.false_eq_true]
    have hd : (dset b k v :: c :: (r ++ [if i = true then dupdate st.bound t.styles else t.styles])).dropLast
        = dset b k v :: c :: r := by
      have : dset b k v :: c :: (r ++ [if i = true then dupdate st.bound t.styles else t.styles])
          = (dset b k v :: c :: r) ++ [if i = true then dupdate st.bound t.styles else t.styles] := by simp
      rw [this, List.dropLast_concat]
    rw [hd]
    have hl : (dset b k v :: c :: r).getLast? = some st.bound := by
      rw [List.getLast?_cons_cons]; exact hb
    simp [hl]

theorem mutBase_wf (k : Name) (v : σ) (st : Stack σ) (hwf : st.WF) : (mutBase k v st).WF := by
  have hg : st.entries.getLast? = some st.bound := hwf
  unfold mutBase Stack.WF
  match hs : st.entries with
  | [] => simp [hs] at hg
  | [b] =>
    have hb : st.bound = b := by simpa [hs] using hg.symm
    simp [hb]
  | b :: c :: r =>
    have hb : (c :: r).getLast? = some st.bound := by simpa [hs] using hg
    simp only [List.isEmpty_cons, Bool.false_eq_true, if_false]
    rw [List.getLast?_cons_cons]; exact hb

/-- **restore after base mutation**: any number of pushes, then an outside mutation of the base
theme's dict, then as many pops: the stack is the original one with the mutation applied — i.e.
what it would be had the pushes never happened. -/
theorem runF_pushes_setBase_pops (f : Bool) (k : Name) (v : σ) :
    ∀ (ps : List (Theme σ × Bool)) (st : Stack σ), st.WF →
      runF f (ps.map (fun p => FStep.push p.1 p.2) ++ FStep.setBase k v :: List.replicate ps.length FStep.pop) st
        = mutBase k v st
  | [], st, _ => by simp [runF, applyF]
  | p :: ps, st, hwf => by
    obtain ⟨st1, h1⟩ := pushTheme_ok st hwf p.1 p.2
    have hwf1 := pushTheme_wf st st1 p.1 p.2 hwf h1
    have ih := runF_pushes_setBase_pops f k v ps st1 hwf1
    have hrep : List.replicate (p :: ps).length (FStep.pop : FStep σ) = List.replicate ps.length FStep.pop ++ [FStep.pop] := by
      simp [List.replicate_succ']
    simp only [List.map_cons, List.cons_append, runF, applyF, h1, hrep]
    rw [show FStep.setBase k v :: (List.replicate ps.length FStep.pop ++ [FStep.pop]) =
      (FStep.setBase k v :: List.replicate ps.length FStep.pop) ++ [FStep.pop] from rfl, ← List.append_assoc,
      runF_append, ih]
    simp [runF, applyF, popTheme_mutBase_push st st1 p.1 p.2 hwf h1 k v]

/-! ## threads -/

/-- the steps that matter to thread `tid` when every thread has its own stack: its own steps and
everybody's mutations of the (shared) base theme dict. -/
def relevant (tid : Nat) (p : Nat × FStep σ) : Bool := p.1 = tid || p.2.isSetBase

/-- **isolation**: with one stack per thread, whatever the interleaving, a thread's stack is the
result of running its own steps (and the base mutations) alone. -/
theorem runMT_isolated (f : Bool) (tid : Nat) :
    ∀ (sch : List (Nat × FStep σ)) (S : Nat → Stack σ),
      runMT false f sch S tid = runF f ((sch.filter (relevant tid)).map (·.2)) (S tid)
  | [], S => rfl
  | (u, s) :: rest, S => by
    have ih := runMT_isolated f tid rest (stepMT false f S u s).1
    rw [runMT, ih]
    by_cases hb : s.isSetBase = true
    · cases s with
      | setBase k v => simp [List.filter, relevant, FStep.isSetBase, stepMT, runF, applyF]
      | _ => simp [FStep.isSetBase] at hb
    · by_cases hu : u = tid
      · subst hu
        cases s <;> simp [List.filter, relevant, stepMT, runF, slotOf, setSlot] <;> simp [FStep.isSetBase] at hb
      · have hu' : ¬ tid = u := fun e => hu e.symm
        cases s <;> simp [List.filter, relevant, FStep.isSetBase, stepMT, slotOf, setSlot, hu, hu'] <;>
          simp [FStep.isSetBase] at hb

/-! ## lookups read the top entry only -/

theorem getStyle_bound_only (parse : Parse σ) (st st' : Stack σ) (h : st.bound = st'.bound)
    (name : NS σ) (default : Option (NS σ)) :
    getStyle parse st name default = getStyle parse st' name default := by
  simp [getStyle, getStyle1, resolve, Stack.get, h]

/-! ## identity of results -/

theorem getStyleObj1_val (parse : Parse σ) (linked : σ → Bool) (st : Stack σ) (x : NS σ) :
    (getStyleObj1 parse linked st x).map Got.val = getStyle1 parse st x := by
  cases x with
  | style s => rfl
  | str n =>
    simp only [getStyleObj1, getStyle1]
    cases resolve parse st n with
    | ok s => simp [copyIfLink, Except.map]; split <;> rfl
    | error e => cases e <;> rfl

theorem getStyleObj_val (parse : Parse σ) (linked : σ → Bool) (st : Stack σ) (name : NS σ)
    (default : Option (NS σ)) :
    (getStyleObj parse linked st name default).map Got.val = getStyle parse st name default := by
  cases name with
  | style s => rfl
  | str n =>
    simp only [getStyleObj, getStyle]
    cases resolve parse st n with
    | ok s => simp [copyIfLink, Except.map]; split <;> rfl
    | error e =>
      cases e with
      | other => rfl
      | syntaxError =>
        cases default with
        | none => rfl
        | some d => exact getStyleObj1_val parse linked st d

end RichModel.Theme
