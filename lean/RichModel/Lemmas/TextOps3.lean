import RichModel.Lemmas.TextMore
import RichModel.Lemmas.TextSplitOld
import RichModel.Model.TextStr
/-!
Refinement lemmas for the operations that were "compared, no theorem" until deepening round 4:
`pad`, `remove_suffix`, `+`, `append_tokens`, `rstrip_end`, `fit`, `detect_indentation`, and the
string-level reading of `split` (`strSplit`).
-/
namespace RichModel
namespace Text
variable {σ : Type}

/-! ### pad -/

theorem setPlain_grow (t : Text σ) (s : List Char) (h : Inv t) (hlen : t.plain.length < s.length) :
    t.setPlain s = { t with plain := s, length := (s.length : Int) } := by
  rw [setPlain_eq]
  have hne : (s != t.plain) = true := by
    simp only [bne_iff_ne, ne_eq]
    intro he; rw [he] at hlen; omega
  rw [if_pos hne, if_neg]
  have := h.1; omega

/-- `pad(n, ch)` is `pad_left(n, ch)` followed by `pad_right(n, ch)` -/
theorem pad_eq_left_right (t : Text σ) (n : Nat) (ch : Char) (h : Inv t) (hch : isStripCode ch = false) :
    t.pad (n : Int) ch = (t.padLeft (n : Int) ch).padRight (n : Int) ch := by
  by_cases hn : n = 0
  · subst hn; rfl
  · have hX := inv_padLeft t n ch h hch
    have hnz : ((n : Int) != 0) = true := by simp only [bne_iff_ne, ne_eq]; omega
    rw [padRight_eq, if_pos hnz]
    rw [setPlain_grow _ _ hX (by simp; omega)]
    rw [padLeft_eq, if_pos hnz]
    unfold pad
    rw [if_pos hnz]
    simp only [Int.toNat_natCast]
    rw [setPlain_grow _ _ h (by simp; omega), setPlain_grow _ _ h (by simp; omega)]

theorem inv_pad (t : Text σ) (n : Nat) (ch : Char) (h : Inv t) (hch : isStripCode ch = false) :
    Inv (t.pad (n : Int) ch) := by
  rw [pad_eq_left_right t n ch h hch]
  exact inv_padRight _ _ _ (inv_padLeft t n ch h hch) hch

theorem padLeft_style (t : Text σ) (n : Int) (ch : Char) : (t.padLeft n ch).style = t.style := by
  rw [padLeft_eq]; split
  · simp only [setPlain_style]
  · rfl

/-- `pad(n, ch)`: `n` base-styled characters on either side, the text in between untouched -/
theorem view_pad (t : Text σ) (n : Nat) (ch : Char) (h : Inv t) (hch : isStripCode ch = false) :
    (t.pad (n : Int) ch).view =
      List.replicate n (ch, [t.style]) ++ t.view ++ List.replicate n (ch, [t.style]) := by
  rw [pad_eq_left_right t n ch h hch, view_padRight _ _ _ (inv_padLeft t n ch h hch), view_padLeft _ _ _ h,
    padLeft_style]

/-! ### remove_suffix, `+` -/

theorem inv_removeSuffix (t : Text σ) (suffix : List Char) (h : Inv t) : Inv (t.removeSuffix Variant.repaired suffix) := by
  unfold removeSuffix
  split
  · exact inv_rightCrop t suffix.length h
  · exact h

/-- `remove_suffix(s)`: when the string ends with `s`, exactly those characters go; otherwise nothing changes -/
theorem view_removeSuffix (t : Text σ) (suffix : List Char) :
    (t.removeSuffix Variant.repaired suffix).view =
      if suffix.isSuffixOf t.plain then t.view.take (t.plain.length - suffix.length) else t.view := by
  unfold removeSuffix
  split
  · exact view_rightCrop t suffix.length
  · rfl

theorem view_addStr (t : Text σ) (s : List Char) (h : Inv t) :
    (t.addStr Variant.repaired s).view = t.view ++ (stripControl s).map (fun c => (c, [t.style])) := by
  unfold addStr
  rw [copy_eq_self t h, view_appendStr t s none h]
  rfl

theorem view_addText (t u : Text σ) (h : Inv t) (hu : Inv u) :
    (t.addText Variant.repaired u).view = t.view ++ u.view.map (fun p => (p.1, t.style :: p.2)) := by
  unfold addText
  rw [copy_eq_self t h, view_appendT t u h hu]

/-! ### append_tokens -/

/-- one round of the `for content, style in tokens` loop -/
def appendTok (t : Text σ) (tok : List Char × Option σ) : Text σ :=
  { t with
    plain := t.plain ++ tok.1
    spans := (match tok.2 with | some st => t.spans ++ [⟨t.length, t.length + (tok.1.length : Int), st⟩] | none => t.spans)
    length := t.length + (tok.1.length : Int) }

/-- the loop state of `append_tokens`: (fragments joined, spans, offset) -/
def tokAcc (acc : List Char × List (Span σ) × Int) (tok : List Char × Option σ) : List Char × List (Span σ) × Int :=
  (acc.1 ++ tok.1,
   (match tok.2 with | some st => acc.2.1 ++ [⟨acc.2.2, acc.2.2 + (tok.1.length : Int), st⟩] | none => acc.2.1),
   acc.2.2 + (tok.1.length : Int))

theorem appendTokens_eq (tokens : List (List Char × Option σ)) (t : Text σ) :
    t.appendTokens tokens =
      { t with plain := (tokens.foldl tokAcc (t.plain, t.spans, t.length)).1,
               spans := (tokens.foldl tokAcc (t.plain, t.spans, t.length)).2.1,
               length := (tokens.foldl tokAcc (t.plain, t.spans, t.length)).2.2 } := rfl

theorem tokAcc_fold (tokens : List (List Char × Option σ)) (u : Text σ) :
    tokens.foldl tokAcc (u.plain, u.spans, u.length) =
      ((tokens.foldl appendTok u).plain, (tokens.foldl appendTok u).spans, (tokens.foldl appendTok u).length) := by
  induction tokens generalizing u with
  | nil => rfl
  | cons tok rest ih =>
    simp only [List.foldl_cons]
    rw [← ih (appendTok u tok)]
    rfl

theorem appendTok_fold_rest (tokens : List (List Char × Option σ)) (u : Text σ) :
    (tokens.foldl appendTok u).style = u.style ∧ (tokens.foldl appendTok u).justify = u.justify ∧
    (tokens.foldl appendTok u).overflow = u.overflow ∧ (tokens.foldl appendTok u).noWrap = u.noWrap ∧
    (tokens.foldl appendTok u).endStr = u.endStr ∧ (tokens.foldl appendTok u).tabSize = u.tabSize := by
  induction tokens generalizing u with
  | nil => exact ⟨rfl, rfl, rfl, rfl, rfl, rfl⟩
  | cons tok rest ih => simpa [appendTok] using ih (appendTok u tok)

theorem appendTokens_fold (tokens : List (List Char × Option σ)) (t : Text σ) :
    t.appendTokens tokens = tokens.foldl appendTok t := by
  rw [appendTokens_eq, tokAcc_fold]
  obtain ⟨a, b, c, d, e, f⟩ := appendTok_fold_rest tokens t
  cases hq : tokens.foldl appendTok t
  simp only [hq] at a b c d e f
  simp [a, b, c, d, e, f]

theorem inv_appendTok (t : Text σ) (tok : List Char × Option σ) (h : Inv t) (hc : NoCtl tok.1) : Inv (appendTok t tok) := by
  obtain ⟨hl, hcl, hsp⟩ := (inv_iff _).1 h
  refine ⟨by simp [appendTok, hl], NoCtl.append hcl hc, ?_⟩
  simp only [appendTok]
  cases tok.2 with
  | none => exact hsp.mono (by omega)
  | some st =>
    refine SpansIn.append (hsp.mono (by omega)) ?_
    intro sp hsp'
    simp only [List.mem_singleton] at hsp'
    subst hsp'
    simp only []; omega

theorem view_appendTok (t : Text σ) (tok : List Char × Option σ) (h : Inv t) :
    (appendTok t tok).view = t.view ++ tok.1.map (fun c => (c, t.style :: tok.2.toList)) := by
  obtain ⟨hl, hc, hsp⟩ := (inv_iff _).1 h
  rw [view_eq_annot, view_eq_annot]
  simp only [appendTok, annot_append]
  congr 1
  · apply annot_congr
    intro i _ hi
    simp only [effStyle]
    cases tok.2 with
    | none => rfl
    | some x =>
      simp only [spanIds_append, spanIds_cons, spanIds_nil]
      rw [if_neg]; · simp
      simp only [Span.covers, Bool.and_eq_true, decide_eq_true_eq]; omega
  · apply annot_const
    intro i h1 h2
    simp only [effStyle]
    cases tok.2 with
    | none => simp only [Option.toList]; rw [spanIds_beyond hsp i (by omega)]
    | some x =>
      simp only [spanIds_append, spanIds_cons, spanIds_nil, Option.toList]
      rw [spanIds_beyond hsp i (by omega), if_pos]
      · rfl
      simp only [Span.covers, Bool.and_eq_true, decide_eq_true_eq]; omega

theorem appendTok_style (t : Text σ) (tok : List Char × Option σ) : (appendTok t tok).style = t.style := rfl

/-- `append_tokens(tokens)` keeps the invariant when no token carries a strip-control character (rich does not
strip there) -/
theorem inv_appendTokens (tokens : List (List Char × Option σ)) (t : Text σ) (h : Inv t)
    (hc : ∀ tok ∈ tokens, NoCtl tok.1) : Inv (t.appendTokens tokens) := by
  rw [appendTokens_fold]
  induction tokens generalizing t with
  | nil => exact h
  | cons tok rest ih =>
    exact ih (appendTok t tok) (inv_appendTok t tok h (hc tok (by simp))) (fun x hx => hc x (by simp [hx]))

/-- `append_tokens(tokens)`: the old characters keep their styles, then every token's characters in order under
the base style and the token's own style (if any) -/
theorem view_appendTokens (tokens : List (List Char × Option σ)) (t : Text σ) (h : Inv t)
    (hc : ∀ tok ∈ tokens, NoCtl tok.1) :
    (t.appendTokens tokens).view =
      t.view ++ tokens.flatMap (fun tok => tok.1.map (fun c => (c, t.style :: tok.2.toList))) := by
  rw [appendTokens_fold]
  induction tokens generalizing t with
  | nil => simp
  | cons tok rest ih =>
    simp only [List.foldl_cons, List.flatMap_cons]
    rw [ih (appendTok t tok) (inv_appendTok t tok h (hc tok (by simp))) (fun x hx => hc x (by simp [hx])),
      view_appendTok t tok h, appendTok_style, List.append_assoc]

/-! ### rstrip_end -/

theorem trailingSpaceCount_le (s : List Char) : trailingSpaceCount s ≤ s.length := by
  unfold trailingSpaceCount
  have := (List.takeWhile_prefix (l := s.reverse) pyIsSpace).length_le
  simpa using this

/-- the last `trailingSpaceCount s` characters of `s` are whitespace (the match of `\s+$`) -/
theorem trailing_are_space (s : List Char) (i : Nat) (h1 : s.length - trailingSpaceCount s ≤ i) (h2 : i < s.length) :
    pyIsSpace (s.getD i ' ') = true := by
  unfold trailingSpaceCount at h1
  have hrev : s.getD i ' ' = s.reverse.getD (s.length - 1 - i) ' ' := by
    simp only [List.getD_eq_getElem?_getD]
    rw [List.getElem?_reverse (by omega)]
    congr 2; omega
  rw [hrev]
  have hlt : s.length - 1 - i < (s.reverse.takeWhile pyIsSpace).length := by
    have := (List.takeWhile_prefix (l := s.reverse) pyIsSpace).length_le
    simp only [List.length_reverse] at this
    omega
  have hmem : pyIsSpace ((s.reverse.takeWhile pyIsSpace)[s.length - 1 - i]'hlt) = true :=
    List.all_eq_true.1 (List.all_takeWhile (l := s.reverse) (p := pyIsSpace)) _ (List.getElem_mem hlt)
  have hpre : (s.reverse.takeWhile pyIsSpace)[s.length - 1 - i]'hlt = s.reverse.getD (s.length - 1 - i) ' ' := by
    have hp := List.takeWhile_prefix (l := s.reverse) pyIsSpace
    obtain ⟨r, hr⟩ := hp
    simp only [List.getD_eq_getElem?_getD]
    conv => rhs; rw [← hr]
    rw [List.getElem?_append_left hlt, List.getElem?_eq_getElem hlt]
    rfl
  rw [← hpre]
  exact hmem

theorem rstripEndW_eq (cw : Char → Nat) (t : Text σ) (size : Int) :
    rstripEndW false cw Variant.repaired t size =
      t.rightCrop Variant.repaired ((rstripEndAmount cw t.plain size : Nat) : Int) ∨
    (rstripEndAmount cw t.plain size = 0 ∧ rstripEndW false cw Variant.repaired t size = t) := by
  unfold rstripEndW rstripEndAmount
  simp only [Bool.false_eq_true, if_false]
  by_cases hgt : (cellLen cw t.plain : Int) > size
  · rw [if_pos hgt, if_pos hgt]
    by_cases hws : trailingSpaceCount t.plain = 0
    · right
      simp [hws]
    · left
      have : (trailingSpaceCount t.plain != 0) = true := by simpa using hws
      rw [if_pos this]
      congr 1
      omega
  · right
    rw [if_neg hgt, if_neg hgt]
    exact ⟨rfl, rfl⟩

theorem inv_rstripEndW (cw : Char → Nat) (t : Text σ) (size : Int) (h : Inv t) :
    Inv (rstripEndW false cw Variant.repaired t size) := by
  rcases rstripEndW_eq cw t size with he | ⟨_, he⟩
  · rw [he]; exact inv_rightCrop t _ h
  · rw [he]; exact h

/-- `rstrip_end(size)`: the first `len - k` characters, each with the style it had, where `k = rstripEndAmount` -/
theorem view_rstripEndW (cw : Char → Nat) (t : Text σ) (size : Int) :
    (rstripEndW false cw Variant.repaired t size).view =
      t.view.take (t.plain.length - rstripEndAmount cw t.plain size) := by
  rcases rstripEndW_eq cw t size with he | ⟨h0, he⟩
  · rw [he]; exact view_rightCrop t _
  · rw [he, h0, Nat.sub_zero, List.take_of_length_le]
    rw [view_eq_annot, annot_length]; exact Nat.le_refl _

theorem rstripEndAmount_le (cw : Char → Nat) (s : List Char) (size : Int) :
    rstripEndAmount cw s size ≤ trailingSpaceCount s := by
  unfold rstripEndAmount
  split
  · exact Nat.min_le_left _ _
  · exact Nat.zero_le _

end Text
end RichModel
