import RichModel.Lemmas.Cells
/-! `chop_cells` for ANY width and ANY starting position: the exact bound on the first piece, the bound on
every later piece (no `2 ≤ width`, no `position ≤ width` hypothesis) and greedy maximality. -/
namespace RichModel

/-- What `chop_cells` guarantees for every piece after the first: it is not empty, and it fits the width unless it
is one single character that is wider than the whole width (which can fit nowhere). -/
def PieceOK (cw : Char → Nat) (m : Nat) (q : List Char) : Prop :=
  q ≠ [] ∧ (cellLen cw q ≤ m ∨ ∃ c, q = [c] ∧ m < cw c)

/-- Greedy maximality of consecutive pieces: the first character of the next piece did not fit behind the piece
before it (`off` is the starting position for the first piece, 0 for the later ones). -/
def ChopMax (cw : Char → Nat) (m : Nat) : Nat → List (List Char) → Prop
  | _, [] => True
  | _, [_] => True
  | off, q :: q' :: rest =>
    (∃ c t, q' = c :: t ∧ m < off + cellLen cw q + cw c) ∧ ChopMax cw m 0 (q' :: rest)

theorem chopLoop_acc (cw : Char → Nat) (m : Nat) : ∀ (s : List Char) (total : Nat) (cur : List Char)
    (acc : List (List Char)),
    chopLoop cw m s total cur acc = acc.reverse ++ chopLoop cw m s total cur []
  | [], _, cur, acc => by simp [chopLoop]
  | c :: rest, total, cur, acc => by
      unfold chopLoop
      split
      · rw [chopLoop_acc cw m rest _ _ (cur.reverse :: acc), chopLoop_acc cw m rest _ _ [cur.reverse]]
        simp
      · exact chopLoop_acc cw m rest _ _ acc

theorem chopLoop_cons (cw : Char → Nat) (m : Nat) (c : Char) (rest : List Char) (total : Nat) (cur : List Char) :
    chopLoop cw m (c :: rest) total cur [] =
      if total + cw c > m then cur.reverse :: chopLoop cw m rest (cw c) [c] []
      else chopLoop cw m rest (total + cw c) (c :: cur) [] := by
  conv => lhs; unfold chopLoop
  split
  · rw [chopLoop_acc]; simp
  · rfl

theorem cellLen_reverse_cons (cw : Char → Nat) (c : Char) (cur : List Char) :
    cellLen cw (c :: cur).reverse = cellLen cw cur.reverse + cw c := by
  simp only [List.reverse_cons]; rw [cellLen_append]; simp [cellLen]

/-- The loop state `(rest, total, cur)` always yields `cur.reverse ++ (a prefix of rest)` as its first piece. -/
theorem chopLoop_head (cw : Char → Nat) (m : Nat) : ∀ (s : List Char) (total : Nat) (cur : List Char),
    ∃ a tl, chopLoop cw m s total cur [] = (cur.reverse ++ a) :: tl
  | [], _, cur => ⟨[], [], by simp [chopLoop]⟩
  | c :: rest, total, cur => by
      rw [chopLoop_cons]
      split
      · exact ⟨[], _, by rw [List.append_nil]⟩
      · obtain ⟨a, tl, h⟩ := chopLoop_head cw m rest (total + cw c) (c :: cur)
        exact ⟨c :: a, tl, by rw [h]; simp⟩

/-- Later pieces (`total` is exactly the width of the piece under construction, which is not empty). -/
theorem chopLoop_later (cw : Char → Nat) (m : Nat) : ∀ (s : List Char) (total : Nat) (cur : List Char),
    cur ≠ [] → total = cellLen cw cur.reverse → (total ≤ m ∨ ∃ c, cur = [c] ∧ m < cw c) →
    (∀ q ∈ chopLoop cw m s total cur [], PieceOK cw m q) ∧ ChopMax cw m 0 (chopLoop cw m s total cur [])
  | [], total, cur, hne, ht, hfit => by
      simp only [chopLoop, List.reverse_cons, List.reverse_nil, List.nil_append]
      refine ⟨?_, trivial⟩
      intro q hq
      simp only [List.mem_singleton] at hq
      subst hq
      refine ⟨by simpa using hne, ?_⟩
      rcases hfit with h | ⟨c, hc, hm⟩
      · left; omega
      · right; exact ⟨c, by simp [hc], hm⟩
  | c :: rest, total, cur, hne, ht, hfit => by
      rw [chopLoop_cons]
      split
      · rename_i hov
        have hJ : cw c ≤ m ∨ ∃ c', [c] = [c'] ∧ m < cw c' := by
          by_cases h : cw c ≤ m
          · exact Or.inl h
          · exact Or.inr ⟨c, rfl, by omega⟩
        obtain ⟨ih1, ih2⟩ := chopLoop_later cw m rest (cw c) [c] (by simp) (by simp [cellLen]) hJ
        obtain ⟨a, tl, hhd⟩ := chopLoop_head cw m rest (cw c) [c]
        refine ⟨?_, ?_⟩
        · intro q hq
          rcases List.mem_cons.mp hq with hq | hq
          · subst hq
            refine ⟨by simpa using hne, ?_⟩
            rcases hfit with h | ⟨c', hc, hm⟩
            · left; omega
            · right; exact ⟨c', by simp [hc], hm⟩
          · exact ih1 q hq
        · rw [hhd] at ih2 ⊢
          refine ⟨⟨c, a, by simp, ?_⟩, ih2⟩
          omega
      · rename_i hov
        apply chopLoop_later cw m rest (total + cw c) (c :: cur) (by simp)
        · rw [cellLen_reverse_cons]; omega
        · left; omega

/-- The first piece, from any starting position: `total = p + width(cur)`, and `cur` is empty or still fits. -/
theorem chopLoop_first (cw : Char → Nat) (m p : Nat) : ∀ (s : List Char) (total : Nat) (cur : List Char),
    total = p + cellLen cw cur.reverse → (cur = [] ∨ total ≤ m) →
    ∃ q0 tl, chopLoop cw m s total cur [] = q0 :: tl ∧ (q0 = [] ∨ p + cellLen cw q0 ≤ m) ∧
      (∀ q ∈ tl, PieceOK cw m q) ∧ ChopMax cw m p (q0 :: tl)
  | [], total, cur, ht, hfit => by
      refine ⟨cur.reverse, [], by simp [chopLoop], ?_, by simp, trivial⟩
      rcases hfit with h | h
      · left; simp [h]
      · right; omega
  | c :: rest, total, cur, ht, hfit => by
      rw [chopLoop_cons]
      split
      · rename_i hov
        have hJ : cw c ≤ m ∨ ∃ c', [c] = [c'] ∧ m < cw c' := by
          by_cases h : cw c ≤ m
          · exact Or.inl h
          · exact Or.inr ⟨c, rfl, by omega⟩
        obtain ⟨ih1, ih2⟩ := chopLoop_later cw m rest (cw c) [c] (by simp) (by simp [cellLen]) hJ
        obtain ⟨a, tl, hhd⟩ := chopLoop_head cw m rest (cw c) [c]
        refine ⟨cur.reverse, _, rfl, ?_, ih1, ?_⟩
        · rcases hfit with h | h
          · left; simp [h]
          · right; omega
        · rw [hhd] at ih2 ⊢
          exact ⟨⟨c, a, by simp, by omega⟩, ih2⟩
      · rename_i hov
        apply chopLoop_first cw m p rest (total + cw c) (c :: cur)
        · rw [cellLen_reverse_cons]; omega
        · right; omega

/-- `chop_cells(text, m, position=p)` for EVERY `m` and `p`. -/
theorem chop_first (cw : Char → Nat) (s : List Char) (m p : Nat) :
    ∃ q0 tl, chopCells cw s m p = q0 :: tl ∧ (q0 = [] ∨ p + cellLen cw q0 ≤ m) ∧
      (∀ q ∈ tl, PieceOK cw m q) ∧ ChopMax cw m p (q0 :: tl) := by
  unfold chopCells
  exact chopLoop_first cw m p s p [] (by simp [cellLen]) (Or.inl rfl)

/-! ### Uniqueness: concatenation + fit + maximality determine the pieces (so the three together are the
exact specification of `chop_cells`, not only consequences of it). -/

/-- The fit clauses as one predicate on a piece list (first piece relative to `off`). -/
def ChopFit (cw : Char → Nat) (m off : Nat) : List (List Char) → Prop
  | [] => False
  | q0 :: tl => (q0 = [] ∨ off + cellLen cw q0 ≤ m) ∧ ∀ q ∈ tl, PieceOK cw m q

theorem chopMax_tail (cw : Char → Nat) (m off : Nat) (q : List Char) (tl : List (List Char))
    (h : ChopMax cw m off (q :: tl)) : ChopMax cw m 0 tl := by
  cases tl with
  | nil => trivial
  | cons q' rest => exact h.2

theorem cellLen_cons (cw : Char → Nat) (c : Char) (x : List Char) : cellLen cw (c :: x) = cw c + cellLen cw x := by
  simp [cellLen]

/-- A piece cannot be extended by characters of the pieces after it and still fit: greedy maximality. -/
theorem chop_no_longer (cw : Char → Nat) (m off : Nat) (q : List Char) (tl : List (List Char)) (a rest' : List Char)
    (hok : ∀ q' ∈ tl, PieceOK cw m q') (hmax : ChopMax cw m off (q :: tl)) (hfl : tl.flatten = a ++ rest')
    (hfit : a ≠ [] → off + cellLen cw (q ++ a) ≤ m) : a = [] := by
  cases a with
  | nil => rfl
  | cons c x =>
    exfalso
    have hf := hfit (by simp)
    cases tl with
    | nil => simp at hfl
    | cons q' rest =>
      obtain ⟨⟨c', t, hq', hlt⟩, _⟩ := hmax
      subst hq'
      simp only [List.flatten_cons, List.cons_append, List.cons.injEq] at hfl
      obtain ⟨hc, _⟩ := hfl
      subst hc
      rw [cellLen_append, cellLen_cons] at hf
      omega

/-- Lists of later pieces (all `PieceOK`, greedy from offset 0) are determined by their concatenation. -/
theorem later_unique (cw : Char → Nat) (m : Nat) : ∀ (L1 L2 : List (List Char)), L1.flatten = L2.flatten →
    (∀ q ∈ L1, PieceOK cw m q) → ChopMax cw m 0 L1 → (∀ q ∈ L2, PieceOK cw m q) → ChopMax cw m 0 L2 → L1 = L2
  | [], [], _, _, _, _, _ => rfl
  | [], r :: tl', hfl, _, _, h2, _ => by
      have := (h2 r (by simp)).1
      simp only [List.flatten_nil, List.flatten_cons] at hfl
      have : r = [] := (List.append_eq_nil_iff.mp hfl.symm).1
      contradiction
  | q :: tl, [], hfl, h1, _, _, _ => by
      have := (h1 q (by simp)).1
      simp only [List.flatten_nil, List.flatten_cons] at hfl
      have : q = [] := (List.append_eq_nil_iff.mp hfl).1
      contradiction
  | q :: tl, r :: tl', hfl, h1, m1, h2, m2 => by
      simp only [List.flatten_cons] at hfl
      have hq := h1 q (by simp)
      have hr := h2 r (by simp)
      have h1' : ∀ x ∈ tl, PieceOK cw m x := fun x hx => h1 x (List.mem_cons_of_mem _ hx)
      have h2' : ∀ x ∈ tl', PieceOK cw m x := fun x hx => h2 x (List.mem_cons_of_mem _ hx)
      -- a piece of at least two characters fits (only a single character may be too wide)
      have fit2 : ∀ (u a : List Char), PieceOK cw m (u ++ a) → u ≠ [] → a ≠ [] → 0 + cellLen cw (u ++ a) ≤ m := by
        intro u a hp hu ha
        rcases hp.2 with h | ⟨c, hc, _⟩
        · omega
        · exfalso
          have : (u ++ a).length = 1 := by rw [hc]; rfl
          have hu' : u.length ≥ 1 := by cases u with | nil => contradiction | cons _ _ => simp
          have ha' : a.length ≥ 1 := by cases a with | nil => contradiction | cons _ _ => simp
          simp at this; omega
      rcases List.append_eq_append_iff.mp hfl with ⟨a, hra, htl⟩ | ⟨a, hqa, htl'⟩
      · have ha : a = [] := chop_no_longer cw m 0 q tl a _ h1' m1 htl (fun hne => fit2 q a (hra ▸ hr) hq.1 hne)
        subst ha
        simp only [List.append_nil, List.nil_append] at hra htl
        subst hra
        rw [later_unique cw m tl tl' htl h1' (chopMax_tail cw m 0 _ tl m1) h2' (chopMax_tail cw m 0 _ tl' m2)]
      · have ha : a = [] := chop_no_longer cw m 0 r tl' a _ h2' m2 htl' (fun hne => fit2 r a (hqa ▸ hq) hr.1 hne)
        subst ha
        simp only [List.append_nil, List.nil_append] at hqa htl'
        subst hqa
        rw [later_unique cw m tl tl' htl'.symm h1' (chopMax_tail cw m 0 _ tl m1) h2' (chopMax_tail cw m 0 _ tl' m2)]

/-- **Exactness**: any piece list with the same concatenation that meets the fit clauses and is greedy IS the
output of `chop_cells` — so `chop_concat` + `chop_first` specify the function completely. -/
theorem chop_unique (cw : Char → Nat) (s : List Char) (m p : Nat) (L : List (List Char))
    (hfl : L.flatten = s) (hfit : ChopFit cw m p L) (hmax : ChopMax cw m p L) : L = chopCells cw s m p := by
  obtain ⟨r0, tl', hc, hr0, htl', hmax'⟩ := chop_first cw s m p
  have hfl' := chop_concat cw s m p
  rw [hc] at hfl' ⊢
  cases L with
  | nil => exact absurd hfit (by simp [ChopFit])
  | cons q0 tl =>
    obtain ⟨hq0, htl⟩ := hfit
    have hflat : q0 ++ tl.flatten = r0 ++ tl'.flatten := by
      simpa only [List.flatten_cons] using hfl.trans hfl'.symm
    have fit1 : ∀ (u a : List Char), (u ++ a = [] ∨ p + cellLen cw (u ++ a) ≤ m) → a ≠ [] → p + cellLen cw (u ++ a) ≤ m := by
      intro u a h ha
      rcases h with h | h
      · exact absurd (List.append_eq_nil_iff.mp h).2 ha
      · exact h
    rcases List.append_eq_append_iff.mp hflat with ⟨a, hra, h1⟩ | ⟨a, hqa, h1⟩
    · have ha : a = [] := chop_no_longer cw m p q0 tl a _ htl hmax h1 (fun hne => fit1 q0 a (hra ▸ hr0) hne)
      subst ha
      simp only [List.append_nil, List.nil_append] at hra h1
      subst hra
      rw [later_unique cw m tl tl' h1 htl (chopMax_tail cw m p _ tl hmax) htl' (chopMax_tail cw m p _ tl' hmax')]
    · have ha : a = [] := chop_no_longer cw m p r0 tl' a _ htl' hmax' h1 (fun hne => fit1 r0 a (hqa ▸ hq0) hne)
      subst ha
      simp only [List.append_nil, List.nil_append] at hqa h1
      subst hqa
      rw [later_unique cw m tl tl' h1.symm htl (chopMax_tail cw m p _ tl hmax) htl' (chopMax_tail cw m p _ tl' hmax')]

end RichModel
