import RichModel.Lemmas.MarkupEvents
namespace RichModel.Markup

/-- abstract view of the loop state: every tag opened so far, in opening order, with the text
offset at which it was closed (if it was) -/
abbrev AEnt := Ent × Option Nat

def isOpen (a : AEnt) : Bool := a.2.isNone

def stackOf (abs : List AEnt) : List Ent := ((abs.filter isOpen).map (·.1)).reverse

def toSlot (a : AEnt) : Option Span := a.2.map (fun s => { start := a.1.start, stop := s, style := a.1.tag.str })

def slotsOf (abs : List AEnt) : List (Option Span) := abs.map toSlot

def IdxOk (abs : List AEnt) : Prop := ∀ (i : Nat) (e : Ent) (s : Option Nat), abs[i]? = some (e, s) → e.idx = i

theorem stackOf_snoc (abs : List AEnt) (x : AEnt) :
    stackOf (abs ++ [x]) = if isOpen x then x.1 :: stackOf abs else stackOf abs := by
  unfold stackOf
  by_cases h : isOpen x = true <;> simp [List.filter_append, h]

theorem IdxOk_snoc {abs : List AEnt} {x : AEnt} (h : IdxOk (abs ++ [x])) : IdxOk abs ∧ x.1.idx = abs.length := by
  constructor
  · intro i e s hi
    apply h i e s
    have : i < abs.length := (List.getElem?_eq_some_iff.mp hi).1
    rw [List.getElem?_append_left this]; exact hi
  · apply h abs.length x.1 x.2
    simp

theorem IdxOk_lt {abs : List AEnt} {i : Nat} {e : Ent} {s : Option Nat} (h : abs[i]? = some (e, s)) : i < abs.length := by
  exact (List.getElem?_eq_some_iff.mp h).1

/-- closing an open entry found anywhere in the stack -/
theorem stackOf_remove (t : Nat) (r : List AEnt) : ∀ (pre post : List Ent) (e : Ent),
    IdxOk r.reverse → stackOf r.reverse = pre ++ e :: post →
    r.reverse[e.idx]? = some (e, none) ∧ stackOf (r.reverse.set e.idx (e, some t)) = pre ++ post := by
  induction r with
  | nil => intro pre post e _ h; simp [stackOf] at h
  | cons x r ih =>
    intro pre post e hok hst
    rw [List.reverse_cons] at hok hst ⊢
    obtain ⟨hok0, hx⟩ := IdxOk_snoc hok
    rw [stackOf_snoc] at hst
    by_cases hopen : isOpen x = true
    · simp only [hopen, if_true] at hst
      cases pre with
      | nil =>
        simp only [List.nil_append, List.cons.injEq] at hst
        obtain ⟨rfl, hpost⟩ := hst
        have hx2 : x = (x.1, none) := by
          obtain ⟨a, b⟩ := x; simp [isOpen] at hopen; simp [hopen]
        rw [hx]
        constructor
        · simp; exact hx2
        · have : (r.reverse ++ [x]).set r.reverse.length (x.1, some t) = r.reverse ++ [(x.1, some t)] := by
            simp
          rw [this, stackOf_snoc]; simp [isOpen, hpost]
      | cons y pre' =>
        simp only [List.cons_append, List.cons.injEq] at hst
        obtain ⟨rfl, hrest⟩ := hst
        obtain ⟨h1, h2⟩ := ih pre' post e hok0 hrest
        have hlt := IdxOk_lt h1
        have hlt' : e.idx < r.length := by simpa using hlt
        constructor
        · rw [List.getElem?_append_left hlt]; exact h1
        · have : (r.reverse ++ [x]).set e.idx (e, some t) = r.reverse.set e.idx (e, some t) ++ [x] := by
            simp [hlt']
          rw [this, stackOf_snoc, h2]; simp [hopen]
    · simp only [hopen] at hst
      simp only [Bool.false_eq_true, if_false] at hst
      obtain ⟨h1, h2⟩ := ih pre post e hok0 hst
      have hlt := IdxOk_lt h1
      have hlt' : e.idx < r.length := by simpa using hlt
      constructor
      · rw [List.getElem?_append_left hlt]; exact h1
      · have : (r.reverse ++ [x]).set e.idx (e, some t) = r.reverse.set e.idx (e, some t) ++ [x] := by
          simp [hlt']
        rw [this, stackOf_snoc, h2]; simp [hopen]

theorem stackOf_remove' (t : Nat) (abs : List AEnt) (pre post : List Ent) (e : Ent)
    (hok : IdxOk abs) (hst : stackOf abs = pre ++ e :: post) :
    abs[e.idx]? = some (e, none) ∧ stackOf (abs.set e.idx (e, some t)) = pre ++ post := by
  have := stackOf_remove t abs.reverse pre post e (by simpa using hok) (by simpa using hst)
  simpa using this

theorem IdxOk_set {abs : List AEnt} {e : Ent} (hok : IdxOk abs) (v : Option Nat) : IdxOk (abs.set e.idx (e, v)) := by
  intro i e' s h
  rw [List.getElem?_set] at h
  by_cases hi : e.idx = i
  · simp only [hi, if_true] at h
    split at h
    · cases h; exact hi
    · cases h
  · simp only [hi, if_false] at h; exact hok i e' s h

theorem popByName_spec {n : List Char} {stk : List Ent} {e : Ent} {stk' : List Ent}
    (h : popByName n stk = some (e, stk')) : ∃ pre post, stk = pre ++ e :: post ∧ stk' = pre ++ post := by
  induction stk generalizing stk' with
  | nil => simp [popByName] at h
  | cons x xs ih =>
    simp only [popByName] at h
    split at h
    · cases h; exact ⟨[], _, rfl, rfl⟩
    · cases hp : popByName n xs with
      | none => simp [hp] at h
      | some p =>
        obtain ⟨e', xs'⟩ := p
        simp [hp] at h
        obtain ⟨rfl, rfl⟩ := h
        obtain ⟨pre, post, h1, h2⟩ := ih hp
        exact ⟨x :: pre, post, by rw [h1]; rfl, by rw [h2]; rfl⟩

def toO (e : Ent) : OTag := { name := e.tag.name, style := e.tag.str }

theorem closeRecent_map (n : List Char) (stk : List Ent) :
    closeRecent n (stk.map toO) = (popByName n stk).map (fun p => p.2.map toO) := by
  induction stk with
  | nil => rfl
  | cons x xs ih =>
    simp only [List.map_cons, closeRecent, popByName, toO] at ih ⊢
    by_cases h : x.tag.name = n
    · simp [h]
    · simp only [h, if_false]
      rw [ih]
      cases popByName n xs with
      | none => rfl
      | some p => rfl

end RichModel.Markup
