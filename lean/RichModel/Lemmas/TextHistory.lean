import RichModel.Lemmas.TextOps2
/-!
Editing histories: an operation type, its one-step semantics on the (repaired) model, the
per-operation domain condition, and preservation of `Text.Inv` along any history.
-/
namespace RichModel
namespace Text
variable {σ : Type}

/-- The editing operations covered by the history theorem.  (`divide`, `split`, slices, `join`,
`expand_tabs`, `truncate`, `align` are modelled and tied to rich by the correspondence; their
invariant proofs were added since, over the full operation set `OpX` of `Lemmas/TextHistory2.lean`:
`inv_step_all`, `inv_history_all`, `inv_join`, `inv_assemble` in `Props/C05.lean`.) -/
inductive Op (σ : Type) where
  | appendStr (s : List Char) (style : Option σ)        -- `append(str, style)`
  | appendT (u : Text σ)                                -- `append(Text)`
  | appendText (u : Text σ)                             -- `append_text(Text)`
  | stylize (style : σ) (start : Int) (stop : Option Int)
  | addSpans (spans : List (Span σ))                    -- `copy_styles`, `highlight_regex`, `highlight_words`
  | setPlain (s : List Char)                            -- `text.plain = s`
  | padLeft (n : Nat) (ch : Char)
  | padRight (n : Nat) (ch : Char)
  | rightCrop (amount : Nat)
  | setLength (n : Nat)
  | copy
  | blankCopy
  | index (i : Nat)                                     -- `text[i]`

/-- one step on the repaired model -/
def step (null : σ) (t : Text σ) : Op σ → Except PyErr (Text σ)
  | .appendStr s st => .ok (t.appendStr s st)
  | .appendT u => .ok (t.appendT u)
  | .appendText u => .ok (t.appendText u)
  | .stylize st a b => .ok (t.stylize Variant.repaired st a b)
  | .addSpans sps => .ok (t.addSpans sps)
  | .setPlain s => .ok (t.setPlain s)
  | .padLeft n ch => .ok (t.padLeft (n : Int) ch)
  | .padRight n ch => .ok (t.padRight (n : Int) ch)
  | .rightCrop a => .ok (t.rightCrop Variant.repaired (a : Int))
  | .setLength n => .ok (t.setLength Variant.repaired (n : Int))
  | .copy => .ok (t.copy Variant.repaired)
  | .blankCopy => .ok (t.blankCopy Variant.repaired)
  | .index i => t.getItem Variant.repaired null (i : Int)

/-- what the caller owes for an operation applied to `t` (the domain of the property) -/
def Op.Pre (t : Text σ) : Op σ → Prop
  | .appendT u => Inv u
  | .appendText u => Inv u
  | .addSpans sps => SpansIn sps t.length          -- spans handed in lie inside the text
  | .setPlain s => NoCtl s                          -- the setter does not strip control codes
  | .padLeft _ ch => isStripCode ch = false
  | .padRight _ ch => isStripCode ch = false
  | .index i => i < t.plain.length                  -- otherwise `IndexError`, as for `str`
  | _ => True

theorem inv_step (null : σ) (t t' : Text σ) (op : Op σ) (h : Inv t) (hp : op.Pre t)
    (hs : step null t op = .ok t') : Inv t' := by
  cases op with
  | appendStr s st => cases hs; exact inv_appendStr t s st h
  | appendT u => cases hs; exact inv_appendT t u h hp
  | appendText u => cases hs; exact inv_appendText t u h hp
  | stylize st a b => cases hs; exact inv_stylize t st a b h
  | addSpans sps => cases hs; exact inv_addSpans t sps h hp
  | setPlain s => cases hs; exact inv_setPlain t s h hp
  | padLeft n ch => cases hs; exact inv_padLeft t n ch h hp
  | padRight n ch => cases hs; exact inv_padRight t n ch h hp
  | rightCrop a => cases hs; exact inv_rightCrop t a h
  | setLength n => cases hs; exact inv_setLength t n h
  | copy => cases hs; rw [copy_eq_self t h]; exact h
  | blankCopy => cases hs; exact inv_blankCopy t
  | index i =>
    obtain ⟨u, hu, hinv, _⟩ := view_getItem null t i hp h
    simp only [step] at hs
    rw [hu] at hs
    cases hs; exact hinv

/-- run a history; the first Python exception ends it -/
def run (null : σ) (t : Text σ) : List (Op σ) → Except PyErr (Text σ)
  | [] => .ok t
  | op :: rest =>
    match step null t op with
    | .ok t' => run null t' rest
    | .error e => .error e

/-- every operation of the history is inside its domain at the moment it is applied -/
def HistPre (null : σ) (t : Text σ) : List (Op σ) → Prop
  | [] => True
  | op :: rest => op.Pre t ∧ ∀ t', step null t op = .ok t' → HistPre null t' rest

theorem inv_run (null : σ) (ops : List (Op σ)) (t t' : Text σ) (h : Inv t) (hp : HistPre null t ops)
    (hr : run null t ops = .ok t') : Inv t' := by
  induction ops generalizing t with
  | nil => cases hr; exact h
  | cons op rest ih =>
    simp only [run] at hr
    cases hs : step null t op with
    | error e => rw [hs] at hr; cases hr
    | ok t1 =>
      rw [hs] at hr
      exact ih t1 (inv_step null t t1 op h hp.1 hs) (hp.2 t1 hs) hr

/-- inside the domain no operation raises -/
theorem step_ok (null : σ) (t : Text σ) (op : Op σ) (h : Inv t) (hp : op.Pre t) : ∃ t', step null t op = .ok t' := by
  cases op with
  | index i =>
    obtain ⟨u, hu, _, _⟩ := view_getItem null t i hp h
    exact ⟨u, hu⟩
  | _ => exact ⟨_, rfl⟩

end Text
end RichModel
