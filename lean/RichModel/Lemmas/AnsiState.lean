import RichModel.Lemmas.AnsiSgr
/-!
The decoder's running style while it reads what the encoder wrote (property C19): attribute
parameters, then the foreground, then the background colour.
-/
namespace RichModel
namespace Ansi
open AsciiStr Style

/-! ### the style the table yields for attribute bit `i` -/

theorem bitStyle_facts {b : Style} {i : Nat} (hi : i < 13)
    (hf : fieldsOf b = ⟨none, none, 2 ^ i, 2 ^ i, none, false⟩) :
    Addend b ∧ b.color = none ∧ b.bgcolor = none ∧ ∀ j, b.attr j = if j = i then some true else none := by
  simp only [fieldsOf, Fields.mk.injEq] at hf
  obtain ⟨hc, hg, ha, hs, hl, hn⟩ := hf
  refine ⟨⟨⟨?_, ?_, ?_⟩, hn, hl⟩, hc, hg, ?_⟩
  · rw [ha, hs, Nat.and_self]
  · rw [hs]; exact Nat.pow_lt_pow_right (by decide) hi
  · intro h; rw [hn] at h; cases h
  · intro j
    simp only [attr, ha, hs, Nat.testBit_two_pow]
    by_cases hji : j = i
    · subst hji; simp
    · have : ¬ i = j := fun h => hji h.symm
      simp [hji, this]

/-- Reading the parameters of the attributes in `bs` switches exactly those attributes on and leaves
colours and link alone. -/
theorem applyCodes_attrs (cfg : Cfg) (bs : List (Nat × List Char × Nat)) (hbs : ∀ x ∈ bs, BitItem cfg.sv x)
    (st : Style) (hinv : Inv st) (r : List Nat) :
    ∃ st', applyCodes cfg st (bs.map (·.2.2) ++ r) 0 = applyCodes cfg st' r 0 ∧ Inv st' ∧
      (∀ j, st'.attr j = if j ∈ bs.map (·.1) then some true else st.attr j) ∧
      st'.color = st.color ∧ st'.bgcolor = st.bgcolor ∧ linkVal st'.link = linkVal st.link ∧
      (st.isNull = false → st'.isNull = false) ∧ (bs ≠ [] → st'.isNull = false) ∧ (bs = [] → st' = st) := by
  induction bs generalizing st with
  | nil => exact ⟨st, rfl, hinv, by simp, rfl, rfl, rfl, id, by simp, fun _ => rfl⟩
  | cons x rest ih =>
    obtain ⟨hi, _, _, hk0, hpf⟩ := hbs x (by simp)
    obtain ⟨d, b, hd, hb, hfb⟩ := parsedFields_some hpf
    obtain ⟨hadd, hbc, hbg, hattr⟩ := bitStyle_facts hi hfb
    have hinv1 : Inv (add cfg.sv st b) := inv_add cfg.sv hinv hadd.inv
    obtain ⟨st', e, hinv', ha', hc', hg', hl', hn', _, _⟩ :=
      ih (fun y hy => hbs y (by simp [hy])) (add cfg.sv st b) hinv1
    have hnn : st'.isNull = false := hn' (add_isNull_false cfg.sv st b hadd.notNull)
    refine ⟨st', ?_, hinv', ?_, ?_, ?_, ?_, fun _ => hnn, fun _ => hnn, by simp⟩
    · simp only [List.map_cons, List.cons_append]
      rw [applyCodes_table cfg st x.2.2 _ hk0 hd hb, e]
    · intro j
      rw [ha' j, attr_add cfg.sv hinv hadd.inv, hattr j]
      by_cases hj : j ∈ rest.map (·.1)
      · simp [hj]
      · by_cases hji : j = x.1
        · simp [hji]
        · simp [hj, hji]
    · rw [hc', (color_add cfg.sv hinv hadd.inv).1, hbc]; rfl
    · rw [hg', (color_add cfg.sv hinv hadd.inv).2, hbg]; rfl
    · rw [hl', linkVal_add_addend cfg.sv hinv hadd]

end Ansi
end RichModel
