import RichModel.Model.Conc
/-!
Invariants of the transition system of `Model/Conc.lean` that hold in every reachable state, for any
number of threads, any programs and any schedule.

The code of every operation is a *static* list of guarded actions, so what a thread may still do is a
function of its continuation.  `Sim` runs an abstract interpreter over the continuation, starting from the
thread's actual lock stack / buffer depth / flags, and checks at every action what the concrete step needs
(a released lock is held, locks are taken in rank order, the record append and the file write happen under
the console lock, nothing is buffered between the record append and the write, the operation ends with no
lock held, depth 0 and a flushed buffer).  One concrete step performs exactly the head of the abstract run,
so `Sim` is preserved by definition; `code_ok` checks it once for the code of every operation.
-/
namespace RichModel.Conc
open RichModel
open RichModel.Live (Line Frame)

structure Abs where
  held : List Lock
  depth : Nat
  hooked : Bool
  recDone : Bool
  dirty : Bool
  /-- between the read and the end of an export -/
  xread : Bool
deriving DecidableEq, Repr

def Local.abs (l : Local) : Abs := ⟨l.held, l.depth, l.hooked, l.recDone, l.dirty, l.xread⟩

/-- Abstract effect of an action (`none`: the action is not allowed in this abstract state).
`readHooks` and `guardStarted` branch and are handled by `Sim`. -/
def absAct (cfg : Cfg) (a : Abs) : Act → Option Abs
  | .acq l => if l ∈ a.held ∨ a.held.all (fun h => h.rank < l.rank) then some { a with held := l :: a.held } else none
  | .rel l => if l ∈ a.held ∧ (l = .console → a.recDone = false) ∧ (l = .record → a.xread = false) then some { a with held := a.held.erase l } else none
  | .enter => some { a with depth := a.depth + 1 }
  | .exitDec => if a.depth = 0 then none else some { a with depth := a.depth - 1 }
  | .hookPos | .pushUser _ | .pushCtl _ _ | .renderFrame | .restorePush =>
    if a.recDone then none else some { a with dirty := true }
  | .recAppend => if .console ∈ a.held ∧ .record ∈ a.held ∧ a.recDone = false ∧ a.xread = false then some { a with recDone := true } else none
  | .write => if .console ∈ a.held ∧ (cfg.record = true → a.recDone = true) then some { a with recDone := false, dirty := false } else none
  | .capBegin => some { a with depth := a.depth + 1 }
  | .capEnd => if a.recDone then none else some a
  | .exportRead => if .record ∈ a.held ∧ a.xread = false then some { a with xread := true } else none
  | .exportEnd _ => if .record ∈ a.held ∧ a.xread = true then some { a with xread := false } else none
  | _ => some a

/-- The state in which an operation may end. -/
def Abs.final (a : Abs) : Bool := !a.xread && a.held.isEmpty && a.depth == 0 && !a.recDone && !a.dirty

def Sim (cfg : Cfg) : List GAct → Abs → Bool
  | [], a => a.final
  | g :: r, a =>
    if guardOn cfg a.depth a.hooked g.g then
      match g.a with
      | .readHooks => Sim cfg r { a with hooked := true } && Sim cfg r { a with hooked := false }
      | .guardStarted _ => Sim cfg r a && (!a.xread && a.held == [.live] && a.depth == 0 && !a.recDone && !a.dirty)
      | .advance _ _ => Sim cfg r a && (!a.xread && a.held == [.live] && a.depth == 0 && !a.recDone && !a.dirty)
      | act =>
        match absAct cfg a act with
        | some a' => Sim cfg r a'
        | none => false
    else Sim cfg r a

/-- Actions at which `Sim` branches instead of following `absAct`. -/
def Act.special : Act → Bool
  | .readHooks | .guardStarted _ | .advance _ _ => true
  | _ => false

theorem sim_generic {cfg : Cfg} {g : Guard} {act : Act} {r : List GAct} {a : Abs}
    (hact : act.special = false) (hg : guardOn cfg a.depth a.hooked g = true)
    (h : Sim cfg (⟨g, act⟩ :: r) a = true) : ∃ a', absAct cfg a act = some a' ∧ Sim cfg r a' = true := by
  cases act <;> simp only [Act.special] at hact <;> try (exact absurd hact (by decide))
  all_goals (
    simp only [Sim, hg, if_true] at h
    revert h
    generalize absAct cfg a _ = o
    intro h
    cases o with
    | none => simp at h
    | some a' => exact ⟨a', rfl, h⟩)

/-! ### the code of every operation passes the check -/

theorem sim_append_print (cfg : Cfg) (k : DKind) (ls : List Line) (r : List GAct) (d : Nat) (hk dirty : Bool)
    (hr : ∀ hk', Sim cfg r ⟨[], d + 1, hk', false, true, false⟩ = true) :
    Sim cfg (printBody k (.pushUser ls) ++ r) ⟨[], d + 1, hk, false, dirty, false⟩ = true := by
  cases k <;>
    simp [printBody, hookCode, frameCode, flushCode, ga, gh, Sim, guardOn, absAct, Lock.rank, hr]

theorem sim_captureBodies (cfg : Cfg) (k : DKind) (r : List GAct) (d : Nat)
    (hr : ∀ hk' dirty, Sim cfg r ⟨[], d + 1, hk', false, dirty, false⟩ = true) :
    ∀ (bodies : List (List Line)) (hk dirty : Bool),
      Sim cfg (bodies.flatMap (fun ls => printBody k (.pushUser ls)) ++ r) ⟨[], d + 1, hk, false, dirty, false⟩ = true := by
  intro bodies
  induction bodies with
  | nil => intro hk dirty; simpa using hr hk dirty
  | cons b bs ih =>
    intro hk dirty
    simp only [List.flatMap_cons, List.append_assoc]
    exact sim_append_print cfg k b _ d hk dirty (fun hk' => ih hk' true)

theorem code_ok (cfg : Cfg) (op : Op) (hk : Bool) : Sim cfg (code cfg op) ⟨[], 0, hk, false, false, false⟩ = true := by
  cases op with
  | capture bodies =>
    simp only [code, captureCode, List.append_assoc, List.cons_append, List.nil_append, Sim, ga, guardOn, absAct]
    apply sim_captureBodies
    intro hk' dirty
    cases hrec : cfg.record <;> cases dirty <;>
      simp [flushCode, ga, Sim, guardOn, absAct, Lock.rank, hrec, Abs.final]
  | update f r =>
    obtain ⟨kind, w, h, rec, tr, tl⟩ := cfg
    cases r <;> cases kind <;> cases rec <;> cases hk <;>
      simp [code, printBody, hookCode, frameCode, flushCode, refreshCode, ga, gh, Sim, guardOn, absAct, Lock.rank, Abs.final]
  | stop =>
    obtain ⟨kind, w, h, rec, tr, tl⟩ := cfg
    cases kind <;> cases rec <;> cases tr <;> cases tl <;> cases hk <;>
      simp [code, printBody, hookCode, frameCode, flushCode, refreshCode, stopCode, ctlCode, ga, gh, Sim, guardOn,
        absAct, Lock.rank, Abs.final]
  | _ =>
    obtain ⟨kind, w, h, rec, tr, tl⟩ := cfg
    cases kind <;> cases rec <;> cases hk <;>
      simp [code, printBody, hookCode, frameCode, flushCode, refreshCode, startCode, ctlCode, nestedCode, ga, gh, Sim, guardOn,
        absAct, Lock.rank, Abs.final]

end RichModel.Conc
