import Mathlib.Algebra.Order.Floor.Defs
import RichModel.Model.Progress
theorem RichModel.Progress.ratProbe : Int.ceil (1/2 : ℚ) = 1 := by
  rw [Int.ceil_eq_iff]; norm_num
