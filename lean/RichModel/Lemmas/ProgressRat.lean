import Mathlib.Tactic.Linarith
import Mathlib.Tactic.FieldSimp
import Mathlib.Tactic.Positivity
import Mathlib.Data.Rat.Floor
import RichModel.Model.Progress
/-!
The ratios of the progress model read as rational numbers (Mathlib's `ℚ` is core's `Rat`):
`percentage`, `speed` and `time_remaining` are what the docstrings say, with the exact ceiling.
The model itself stays import-free; this file only interprets its `(numerator, denominator)` pairs.
-/
namespace RichModel.Progress

/-- the rational a `(numerator, denominator)` pair of the model denotes -/
def fracQ (p : Int × Int) : ℚ := (p.1 : ℚ) / (p.2 : ℚ)

/-- `min(100, max(0, x))` -/
def clamp100 (x : ℚ) : ℚ := min 100 (max 0 x)

/-- **percentage = completed / total · 100 clamped to 0..100, and 0 when the total is 0.** -/
theorem percentage_eq_clamp (t : Task) :
    fracQ t.percentage =
      if t.total = 0 then 0 else clamp100 ((t.completed : ℚ) / (t.total : ℚ) * 100) := by
  unfold Task.percentage fracQ clamp100
  by_cases h0 : t.total = 0
  · simp [h0]
  · simp only [h0, if_false]
    by_cases hneg : t.total < 0
    · have ht : (t.total : ℚ) < 0 := by exact_mod_cast hneg
      simp only [hneg, if_true]
      by_cases h1 : -(100 * t.completed) < 0
      · have hc : (0 : ℚ) < t.completed := by exact_mod_cast (by omega : 0 < t.completed)
        have hx : (t.completed : ℚ) / t.total * 100 < 0 := by
          have := div_neg_of_pos_of_neg hc ht; linarith
        simp only [h1, if_true]
        rw [max_eq_left hx.le, min_eq_right (by norm_num)]; simp
      · by_cases h2 : 100 * -t.total < -(100 * t.completed)
        · have hc : (t.completed : ℚ) < t.total := by exact_mod_cast (by omega : t.completed < t.total)
          have hx : 100 < (t.completed : ℚ) / t.total * 100 := by
            have : 1 < (t.completed : ℚ) / t.total := by rw [one_lt_div_of_neg ht]; exact hc
            linarith
          simp only [h1, h2, if_true, if_false]
          rw [max_eq_right (by linarith), min_eq_left hx.le]; simp
        · have hc1 : (t.completed : ℚ) ≤ 0 := by exact_mod_cast (by omega : t.completed ≤ 0)
          have hc2 : (t.total : ℚ) ≤ t.completed := by exact_mod_cast (by omega : t.total ≤ t.completed)
          have hq0 : 0 ≤ (t.completed : ℚ) / t.total := div_nonneg_of_nonpos hc1 ht.le
          have hq1 : (t.completed : ℚ) / t.total ≤ 1 := by rw [div_le_one_of_neg ht]; exact hc2
          simp only [h1, h2, if_false]
          rw [max_eq_right (by linarith), min_eq_right (by linarith)]
          push_cast
          field_simp
    · have ht : (0 : ℚ) < t.total := by exact_mod_cast (by omega : 0 < t.total)
      simp only [hneg, if_false]
      by_cases h1 : 100 * t.completed < 0
      · have hc : (t.completed : ℚ) < 0 := by exact_mod_cast (by omega : t.completed < 0)
        have hx : (t.completed : ℚ) / t.total * 100 < 0 := by
          have := div_neg_of_neg_of_pos hc ht; linarith
        simp only [h1, if_true]
        rw [max_eq_left hx.le, min_eq_right (by norm_num)]; simp
      · by_cases h2 : 100 * t.total < 100 * t.completed
        · have hc : (t.total : ℚ) < t.completed := by exact_mod_cast (by omega : t.total < t.completed)
          have hx : 100 < (t.completed : ℚ) / t.total * 100 := by
            have : 1 < (t.completed : ℚ) / t.total := by rw [one_lt_div ht]; exact hc
            linarith
          simp only [h1, h2, if_true, if_false]
          rw [max_eq_right (by linarith), min_eq_left hx.le]; simp
        · have hc1 : (0 : ℚ) ≤ t.completed := by exact_mod_cast (by omega : 0 ≤ t.completed)
          have hc2 : (t.completed : ℚ) ≤ t.total := by exact_mod_cast (by omega : t.completed ≤ t.total)
          have hq0 : 0 ≤ (t.completed : ℚ) / t.total := div_nonneg hc1 ht.le
          have hq1 : (t.completed : ℚ) / t.total ≤ 1 := by rw [div_le_one ht]; exact hc2
          simp only [h1, h2, if_false]
          rw [max_eq_right (by linarith), min_eq_right (by linarith)]
          push_cast
          field_simp

/-- `Task.speed` as a rational, in amount-units per tick -/
def Task.speedQ (t : Task) : Option ℚ := t.speed.map fracQ

/-- **speed = (sum of all samples but the first) / (last timestamp − first timestamp)**, `None` for an
unstarted task, no samples, or a zero time span. -/
theorem speedQ_spec (t : Task) :
    t.speedQ =
      match t.startTime, t.samples with
      | none, _ => none
      | some _, [] => none
      | some _, s0 :: rest =>
        if (rest.getLast?.getD s0).ts - s0.ts = 0 then none
        else some ((sumAmt rest : ℚ) / (((rest.getLast?.getD s0).ts - s0.ts : Int) : ℚ)) := by
  unfold Task.speedQ Task.speed
  cases t.startTime with
  | none => rfl
  | some s =>
    cases t.samples with
    | nil => rfl
    | cons s0 rest =>
      simp only
      split <;> simp [fracQ]

theorem ceilDiv_eq_ceil (a b : Int) (hb : 0 < b) : ceilDiv a b = ⌈(a : ℚ) / (b : ℚ)⌉ := by
  have hb' : ((b.toNat : ℕ) : ℤ) = b := Int.toNat_of_nonneg hb.le
  have := Rat.ceil_intCast_div_natCast a b.toNat
  rw [← Int.cast_natCast, hb'] at this
  rw [this]; rfl

/-- **time_remaining = ⌈remaining / speed⌉ seconds** (exact ceiling), where `speed` in steps per second
is `speedQ · tps`; `0` for a finished task, `None` when there is no speed or it is zero. -/
theorem timeRemaining_eq_ceil (cfg : Cfg) (htps : 0 < cfg.tps) (t : Task) :
    t.timeRemaining cfg =
      if t.finishedTime.isSome then some 0
      else match t.speedQ with
        | none => none
        | some v => if v = 0 then none else some ⌈(t.remaining : ℚ) / (v * (cfg.tps : ℚ))⌉ := by
  unfold Task.timeRemaining Task.speedQ
  split
  · rfl
  · cases hs : t.speed with
    | none => rfl
    | some p =>
      obtain ⟨n, d⟩ := p
      have hd : d ≠ 0 := by
        unfold Task.speed at hs
        cases h1 : t.startTime with
        | none => simp [h1] at hs
        | some s =>
          cases h2 : t.samples with
          | nil => simp [h1, h2] at hs
          | cons s0 rest =>
            simp only [h1, h2] at hs
            split at hs
            · cases hs
            · next hne => simp only [Option.some.injEq, Prod.mk.injEq] at hs; omega
      have hdq : (d : ℚ) ≠ 0 := by exact_mod_cast hd
      have htq : (0 : ℚ) < cfg.tps := by exact_mod_cast htps
      simp only [Option.map_some, fracQ]
      by_cases hn : n = 0
      · simp [hn]
      · have hnq : (n : ℚ) ≠ 0 := by exact_mod_cast hn
        have hv : (n : ℚ) / (d : ℚ) ≠ 0 := div_ne_zero hnq hdq
        simp only [hn, hv, if_false]
        congr 1
        have hval : (t.remaining : ℚ) / ((n : ℚ) / (d : ℚ) * (cfg.tps : ℚ)) =
            ((t.remaining * d : Int) : ℚ) / ((n * cfg.tps : Int) : ℚ) := by
          push_cast; field_simp
        by_cases hden : 0 < n * cfg.tps
        · rw [if_pos hden, ceilDiv_eq_ceil _ _ hden, hval]
        · have hden' : 0 < -(n * cfg.tps) := by
            have : n * cfg.tps ≠ 0 := Int.mul_ne_zero hn (by omega)
            omega
          rw [if_neg hden, ceilDiv_eq_ceil _ _ hden', hval]
          congr 1
          push_cast
          rw [neg_div_neg_eq]

end RichModel.Progress
