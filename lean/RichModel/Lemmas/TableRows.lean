import RichModel.Model.TableRows
/-!
Lemmas about `Table.add_row` (`Model/TableRows.lean`): what one accepted call does to every column, when a call raises, and the
invariant "every column holds one cell per row" over any sequence of calls.
-/
namespace RichModel.TableRows

variable {α : Type}

theorem getD_tail (cols : List (List α)) (j : Nat) (d : List α) : cols.tail.getD j d = cols.getD (j + 1) d := by
  cases cols <;> simp [List.getD]

theorem range_succ_map {β : Type} (f : Nat → β) (n : Nat) : (List.range (n + 1)).map f = f 0 :: (List.range n).map (fun j => f (j + 1)) := by
  rw [List.range_succ_eq_map]; simp [List.map_map, Function.comp_def]

/-- The call raises exactly when some argument (after padding) is not renderable. -/
theorem addCells_flag (blank blankText : α) (nrows : Nat) : ∀ (args : List (Arg α)) (cols : List (List α)),
    (addCells blank blankText nrows args cols).2 = true ↔ ∀ a ∈ args, a ≠ Arg.bad
  | [], cols => by simp [addCells]
  | a :: as, cols => by
    cases a with
    | bad => simp [addCells]
    | none => simp [addCells, addCells_flag blank blankText nrows as cols.tail]
    | ok x => simp [addCells, addCells_flag blank blankText nrows as cols.tail]

/-- An accepted call: column `j` is what it was (a created column: `nrows` × `Text("")`) plus the `j`-th argument (`""` for `None`). -/
theorem addCells_ok (blank blankText : α) (nrows : Nat) : ∀ (args : List (Arg α)) (cols : List (List α)),
    (addCells blank blankText nrows args cols).2 = true → cols.length ≤ args.length →
    (addCells blank blankText nrows args cols).1 =
      (List.range args.length).map (fun j => cols.getD j (List.replicate nrows blankText) ++ [(args.getD j Arg.none).val blank])
  | [], cols, _, hl => by
    have : cols = [] := List.eq_nil_of_length_eq_zero (by simpa using hl)
    subst this
    simp [addCells]
  | a :: as, cols, hok, hl => by
    have hl' : cols.tail.length ≤ as.length := by cases cols <;> simp at hl ⊢ <;> omega
    have hcol : cols.headD (List.replicate nrows blankText) = cols.getD 0 (List.replicate nrows blankText) := by
      cases cols <;> simp [List.getD]
    cases a with
    | bad => simp [addCells] at hok
    | none =>
      have hok' : (addCells blank blankText nrows as cols.tail).2 = true := by simpa [addCells] using hok
      have ih := addCells_ok blank blankText nrows as cols.tail hok' hl'
      simp only [addCells, List.length_cons, range_succ_map, hcol, ih, getD_tail]
      simp [List.getD]
    | ok x =>
      have hok' : (addCells blank blankText nrows as cols.tail).2 = true := by simpa [addCells] using hok
      have ih := addCells_ok blank blankText nrows as cols.tail hok' hl'
      simp only [addCells, List.length_cons, range_succ_map, hcol, ih, getD_tail]
      simp [List.getD]

/-- A call that raises at argument `pre.length`: the columns to its left have their new cell, the column at that position exists
(created and back-filled if it was missing) WITHOUT a new cell, the columns to its right are untouched. -/
theorem addCells_bad (blank blankText : α) (nrows : Nat) : ∀ (pre post : List (Arg α)) (cols : List (List α)),
    (∀ a ∈ pre, a ≠ Arg.bad) →
    (addCells blank blankText nrows (pre ++ Arg.bad :: post) cols) =
      ((List.range pre.length).map (fun j => cols.getD j (List.replicate nrows blankText) ++ [(pre.getD j Arg.none).val blank])
        ++ cols.getD pre.length (List.replicate nrows blankText) :: cols.drop (pre.length + 1), false)
  | [], post, cols, _ => by
    cases cols <;> simp [addCells, List.getD]
  | a :: pre, post, cols, h => by
    have ih := addCells_bad blank blankText nrows pre post cols.tail (fun a ha => h a (List.mem_cons_of_mem _ ha))
    have hcol : cols.headD (List.replicate nrows blankText) = cols.getD 0 (List.replicate nrows blankText) := by
      cases cols <;> simp [List.getD]
    have hdrop : cols.tail.drop (pre.length + 1) = cols.drop (pre.length + 1 + 1) := by cases cols <;> simp
    have ha := h a (by simp)
    cases a with
    | bad => exact absurd rfl ha
    | none =>
      simp only [List.cons_append, addCells, ih, hcol, List.length_cons, range_succ_map, getD_tail, hdrop]
      simp [List.getD]
    | ok x =>
      simp only [List.cons_append, addCells, ih, hcol, List.length_cons, range_succ_map, getD_tail, hdrop]
      simp [List.getD]

theorem padArgs_length (n : Nat) (args : List (Arg α)) : (padArgs n args).length = max n args.length := by
  unfold padArgs
  split
  · simp only [List.length_append, List.length_replicate]; omega
  · omega

theorem padArgs_getD (n : Nat) (args : List (Arg α)) (j : Nat) : (padArgs n args).getD j Arg.none = args.getD j Arg.none := by
  unfold padArgs
  split
  · simp only [List.getD_eq_getElem?_getD, List.getElem?_append]
    split
    · rfl
    · rename_i h
      have : args[j]? = none := by simp at h ⊢; omega
      simp only [this, Option.getD_none]
      cases hh : (List.replicate (n - args.length) (Arg.none : Arg α))[j - args.length]? with
      | none => rfl
      | some v =>
        have := List.mem_of_getElem? hh
        simp only [List.mem_replicate] at this
        simp [this.2]
  · rfl

theorem padArgs_bad (n : Nat) (args : List (Arg α)) : (∀ a ∈ padArgs n args, a ≠ Arg.bad) ↔ ∀ a ∈ args, a ≠ Arg.bad := by
  unfold padArgs
  split
  · constructor
    · intro h a ha; exact h a (List.mem_append_left _ ha)
    · intro h a ha
      rcases List.mem_append.mp ha with ha | ha
      · exact h a ha
      · simp only [List.mem_replicate] at ha; rw [ha.2]; intro hh; cases hh
  · rfl

/-- Every column holds exactly one cell per row (what `zip(*columns)` in `_render` silently relies on). -/
def Builder.Rect (b : Builder α) : Prop := ∀ c ∈ b.cols, c.length = b.rows.length

/-- The cell of column `j` in row `k` (`blank` outside). -/
def Builder.cellAt (blank : α) (b : Builder α) (j k : Nat) : α := (b.cols.getD j []).getD k blank

/-- `add_row` raises `NotRenderableError` exactly when an argument is not renderable. -/
theorem addRow_flag (blank blankText : α) (b : Builder α) (args : List (Arg α)) (m : RowMeta) :
    (b.addRow blank blankText args m).2 = true ↔ ∀ a ∈ args, a ≠ Arg.bad := by
  unfold Builder.addRow
  simp only
  split
  · rename_i h; simp only [true_iff]; exact (padArgs_bad _ _).1 ((addCells_flag _ _ _ _ _).1 h)
  · rename_i h
    simp only [Bool.false_eq_true, false_iff]
    intro hh
    exact h ((addCells_flag _ _ _ _ _).2 ((padArgs_bad _ _).2 hh))

/-- One accepted `add_row` on a rectangular table. -/
theorem addRow_ok (blank blankText : α) (b : Builder α) (hr : b.Rect) (args : List (Arg α)) (m : RowMeta)
    (hok : (b.addRow blank blankText args m).2 = true) :
    let r := (b.addRow blank blankText args m).1
    r.Rect ∧ r.rows = b.rows ++ [m] ∧ r.cols.length = max b.cols.length args.length ∧
    (∀ j k, j < b.cols.length → k < b.rows.length → r.cellAt blank j k = b.cellAt blank j k) ∧
    (∀ j k, b.cols.length ≤ j → j < r.cols.length → k < b.rows.length → r.cellAt blank j k = blankText) ∧
    (∀ j, j < r.cols.length → r.cellAt blank j b.rows.length = (args.getD j Arg.none).val blank) := by
  have hflag : (addCells blank blankText b.rows.length (padArgs b.cols.length args) b.cols).2 = true := by
    unfold Builder.addRow at hok
    simp only at hok
    split at hok
    · assumption
    · simp at hok
  have hcols := addCells_ok blank blankText b.rows.length (padArgs b.cols.length args) b.cols hflag (by rw [padArgs_length]; omega)
  have hr1 : (b.addRow blank blankText args m).1 =
      { cols := (List.range (max b.cols.length args.length)).map (fun j => b.cols.getD j (List.replicate b.rows.length blankText)
          ++ [(args.getD j Arg.none).val blank]), rows := b.rows ++ [m] } := by
    unfold Builder.addRow
    simp only [hflag, if_true, hcols, padArgs_length, padArgs_getD]
  intro r
  have hr' : r = _ := hr1
  have hlen : ∀ j, (b.cols.getD j (List.replicate b.rows.length blankText)).length = b.rows.length := by
    intro j
    rw [List.getD_eq_getElem?_getD]
    cases h : b.cols[j]? with
    | none => simp
    | some c => simpa using hr c (List.mem_of_getElem? h)
  have hcell : ∀ j k, j < max b.cols.length args.length → r.cellAt blank j k =
      (b.cols.getD j (List.replicate b.rows.length blankText) ++ [(args.getD j Arg.none).val blank]).getD k blank := by
    intro j k hj
    rw [hr']
    simp only [Builder.cellAt, List.getD_eq_getElem?_getD, List.getElem?_map, List.getElem?_range hj, Option.map_some, Option.getD_some]
  refine ⟨?_, by rw [hr'], by rw [hr']; simp, ?_, ?_, ?_⟩
  · intro c hc
    rw [hr'] at hc ⊢
    simp only [List.mem_map, List.mem_range] at hc
    obtain ⟨j, _, rfl⟩ := hc
    have := hlen j
    simp only [List.length_append, List.length_cons, List.length_nil, this]
  · intro j k hj hk
    rw [hcell j k (by omega)]
    have hl := hlen j
    simp only [List.getD_eq_getElem?_getD] at hl ⊢
    rw [List.getElem?_append_left (by omega)]
    simp only [Builder.cellAt, List.getD_eq_getElem?_getD, List.getElem?_eq_getElem hj, Option.getD_some]
  · intro j k hj hj2 hk
    have hj3 : j < max b.cols.length args.length := by rw [hr'] at hj2; simpa using hj2
    rw [hcell j k hj3]
    have hl := hlen j
    simp only [List.getD_eq_getElem?_getD] at hl ⊢
    rw [List.getElem?_append_left (by omega)]
    have : b.cols[j]? = none := by simp; omega
    simp only [this, Option.getD_none]
    rw [List.getElem?_replicate]
    simp [hk]
  · intro j hj
    have hj3 : j < max b.cols.length args.length := by rw [hr'] at hj; simpa using hj
    rw [hcell j _ hj3]
    have hl := hlen j
    simp only [List.getD_eq_getElem?_getD] at hl ⊢
    rw [List.getElem?_append_right (by omega)]
    simp [hl]


/-- The number of columns after the first `i + 1` of the calls (a call with more arguments than columns creates the difference). -/
def ncolsAfter (n : Nat) (calls : List (List (Arg α) × RowMeta)) (i : Nat) : Nat :=
  (calls.take (i + 1)).foldl (fun m c => max m c.1.length) n

theorem addRows_cons_ok (blank blankText : α) (b : Builder α) (c : List (Arg α) × RowMeta) (cs : List (List (Arg α) × RowMeta))
    (h : (b.addRows blank blankText (c :: cs)).2 = true) :
    (b.addRow blank blankText c.1 c.2).2 = true ∧
    b.addRows blank blankText (c :: cs) = Builder.addRows blank blankText (b.addRow blank blankText c.1 c.2).1 cs := by
  rw [Builder.addRows] at h ⊢
  split at h
  · rename_i h1; exact ⟨h1, by simp only [h1, if_true]⟩
  · rename_i h1; exact absurd h h1

/-- **Any sequence of accepted `add_row` calls on a rectangular table**: the table stays rectangular, `rows` grows by one `Row` per
call in call order, no column disappears, the cells that were there stay where they were, a column created later holds `Text("")` in
every earlier row, and row `b.rows.length + i` holds — then and for ever — the arguments of call `i` (`""` for `None` / a missing
argument) in the columns that existed after that call. -/
theorem addRows_spec (blank blankText : α) : ∀ (calls : List (List (Arg α) × RowMeta)) (b : Builder α), b.Rect →
    (b.addRows blank blankText calls).2 = true →
    (b.addRows blank blankText calls).1.Rect ∧ (b.addRows blank blankText calls).1.rows = b.rows ++ calls.map (·.2) ∧
    b.cols.length ≤ (b.addRows blank blankText calls).1.cols.length ∧
    (∀ j k, j < b.cols.length → k < b.rows.length → (b.addRows blank blankText calls).1.cellAt blank j k = b.cellAt blank j k) ∧
    (∀ j k, b.cols.length ≤ j → j < (b.addRows blank blankText calls).1.cols.length → k < b.rows.length →
      (b.addRows blank blankText calls).1.cellAt blank j k = blankText) ∧
    (∀ i, i < calls.length → ∀ j, j < (b.addRows blank blankText calls).1.cols.length →
      (b.addRows blank blankText calls).1.cellAt blank j (b.rows.length + i) =
        if j < ncolsAfter b.cols.length calls i then ((calls.getD i ([], {})).1.getD j Arg.none).val blank else blankText)
  | [], b, hr, _ => by
    simp only [Builder.addRows, List.map_nil, List.append_nil, List.length_nil]
    exact ⟨hr, trivial, Nat.le_refl _, fun _ _ _ _ => trivial, fun j k h1 h2 _ => by omega, fun i hi => by omega⟩
  | c :: cs, b, hr, hok => by
    obtain ⟨hok1, heq⟩ := addRows_cons_ok blank blankText b c cs hok
    rw [heq] at hok ⊢
    obtain ⟨s1, s2, s3, s4, s5, s6⟩ := addRow_ok blank blankText b hr c.1 c.2 hok1
    generalize (b.addRow blank blankText c.1 c.2).1 = b1 at hok s1 s2 s3 s4 s5 s6 ⊢
    obtain ⟨i1, i2, i3, i4, i5, i6⟩ := addRows_spec blank blankText cs b1 s1 hok
    generalize (Builder.addRows blank blankText b1 cs).1 = f at i1 i2 i3 i4 i5 i6 ⊢
    have hrl : b1.rows.length = b.rows.length + 1 := by rw [s2]; simp
    have hcl : b.cols.length ≤ b1.cols.length := by rw [s3]; omega
    refine ⟨i1, by rw [i2, s2]; simp, by omega, ?_, ?_, ?_⟩
    · intro j k hj hk
      rw [i4 j k (by omega) (by omega)]
      exact s4 j k hj hk
    · intro j k hj hj2 hk
      by_cases h : j < b1.cols.length
      · rw [i4 j k h (by omega)]
        exact s5 j k hj h hk
      · exact i5 j k (by omega) hj2 (by omega)
    · intro i hi j hj
      cases i with
      | zero =>
        have hn : ncolsAfter b.cols.length (c :: cs) 0 = b1.cols.length := by
          simp [ncolsAfter, s3]
        rw [hn]
        simp only [Nat.add_zero, List.getD_cons_zero]
        by_cases h : j < b1.cols.length
        · rw [if_pos h, i4 j _ h (by omega)]
          exact s6 j h
        · rw [if_neg h]
          exact i5 j _ (by omega) hj (by omega)
      | succ i =>
        have hn : ncolsAfter b.cols.length (c :: cs) (i + 1) = ncolsAfter b1.cols.length cs i := by
          simp [ncolsAfter, s3]
        have := i6 i (by simpa using hi) j hj
        rw [hn]
        rw [show b.rows.length + (i + 1) = b1.rows.length + i by omega]
        simpa using this

end RichModel.TableRows
