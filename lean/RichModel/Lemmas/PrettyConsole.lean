import RichModel.Lemmas.PrettyMeasure
import RichModel.Model.PrettyConsole
/-!
Helper lemmas of deepening round 4 (property C16):
* `str.splitlines` of joined lines whose lines may themselves contain line boundaries (`pieces_mem_join`), and a piece
  never needs more cells than the string it was cut from (`splitLoop_piece_le`);
* the width-to-width bound of `Lemmas/PrettyMeasure.lean` for an arbitrary per-line predicate (`specLine_boundP`):
  only the container lines kept at the first width have to be free of line boundaries;
* `Text.with_indent_guides`: the new indent has the length of the old one and consists of blanks and guide characters;
  on a text without blank lines the loop is a `map`.
-/
namespace RichModel.Pretty
open RichModel

instance instDecidableEqExcept {ε α} [DecidableEq ε] [DecidableEq α] : DecidableEq (Except ε α)
  | .ok a, .ok b => if h : a = b then isTrue (by rw [h]) else isFalse (by intro e; cases e; exact h rfl)
  | .error a, .error b => if h : a = b then isTrue (by rw [h]) else isFalse (by intro e; cases e; exact h rfl)
  | .ok _, .error _ => isFalse (by intro e; cases e)
  | .error _, .ok _ => isFalse (by intro e; cases e)

theorem cellLen_cons (cw : Char → Nat) (c : Char) (s : Str) : cellLen cw (c :: s) = cw c + cellLen cw s := by
  simp [cellLen]

theorem cellLen_reverse (cw : Char → Nat) (s : Str) : cellLen cw s.reverse = cellLen cw s := by
  induction s with
  | nil => rfl
  | cons c s ih => rw [List.reverse_cons, cellLen_append, ih, cellLen_cons]; simp [cellLen]; omega

/-! ### pieces of `splitlines` -/

/-- a piece needs at most the cells of the pending characters plus the rest of the string. -/
theorem splitLoop_piece_le (cw : Char → Nat) :
    ∀ (s cur : Str) (aft : Bool), ∀ p ∈ splitLoop s cur aft, cellLen cw p ≤ cellLen cw cur + cellLen cw s
  | [], cur, aft, p, hp => by
    rw [splitLoop] at hp
    split at hp
    · simp at hp
    · simp only [List.mem_singleton] at hp
      subst hp
      rw [cellLen_reverse]; exact Nat.le_add_right _ _
  | c :: rest, cur, aft, p, hp => by
    rw [splitLoop] at hp
    rw [cellLen_cons]
    split at hp
    · have := splitLoop_piece_le cw rest cur false p hp
      omega
    · split at hp
      · simp only [List.mem_cons] at hp
        rcases hp with rfl | hp
        · rw [cellLen_reverse]; omega
        · have := splitLoop_piece_le cw rest [] (c == '\r') p hp
          simp only [cellLen_nil] at this
          omega
      · have := splitLoop_piece_le cw rest (c :: cur) false p hp
        rw [cellLen_cons] at this
        omega

theorem splitlines_piece_le (cw : Char → Nat) (s : Str) : ∀ p ∈ splitlines s, cellLen cw p ≤ cellLen cw s := by
  intro p hp
  have := splitLoop_piece_le cw s [] false p hp
  simpa [cellLen_nil] using this

/-- `splitlines` of `a ++ "\n" ++ r`: every piece of `a` is found, then the pieces of `r`.  (Invariant of the loop:
right after a `\r` boundary nothing is pending.) -/
theorem splitLoop_append_nl (r : Str) :
    ∀ (a cur : Str) (aft : Bool), (aft = true → cur = []) →
      ∃ X, splitLoop (a ++ '\n' :: r) cur aft = X ++ splitLoop r [] false ∧ ∀ p ∈ splitLoop a cur aft, p ∈ X
  | [], cur, aft, hinv => by
    cases aft with
    | true =>
      have hc := hinv rfl
      subst hc
      refine ⟨[], ?_, ?_⟩
      · simp [splitLoop]
      · simp [splitLoop]
    | false =>
      refine ⟨[cur.reverse], ?_, ?_⟩
      · have hb : isLineBreak '\n' = true := by decide
        simp [splitLoop, hb]
      · intro p hp
        rw [splitLoop] at hp
        split at hp
        · simp at hp
        · simpa using hp
  | c :: rest, cur, aft, hinv => by
    simp only [List.cons_append]
    rw [splitLoop, splitLoop]
    split
    · -- `\r\n` counted once
      rename_i h
      obtain ⟨X, h1, h2⟩ := splitLoop_append_nl r rest cur false (by intro h; cases h)
      exact ⟨X, h1, h2⟩
    · split
      · obtain ⟨X, h1, h2⟩ := splitLoop_append_nl r rest [] (c == '\r') (fun _ => rfl)
        refine ⟨cur.reverse :: X, by rw [h1]; rfl, ?_⟩
        intro p hp
        simp only [List.mem_cons] at hp ⊢
        rcases hp with rfl | hp
        · exact Or.inl rfl
        · exact Or.inr (h2 p hp)
      · obtain ⟨X, h1, h2⟩ := splitLoop_append_nl r rest (c :: cur) false (by intro h; cases h)
        exact ⟨X, h1, h2⟩

/-- every piece of every line is one of the pieces `splitlines` finds in the joined text — whatever the lines contain. -/
theorem pieces_mem_join : ∀ (ls : List Str), ∀ l ∈ ls, ∀ p ∈ splitlines l, p ∈ splitlines (joinLines ls)
  | [], l, hl, _, _ => by simp at hl
  | [a], l, hl, p, hp => by
    simp only [List.mem_singleton] at hl
    subst hl
    have : joinLines [l] = l := by simp [joinLines, List.intercalate]
    rw [this]; exact hp
  | a :: b :: r, l, hl, p, hp => by
    rw [joinLines_cons_cons, splitlines]
    obtain ⟨X, h1, h2⟩ := splitLoop_append_nl (joinLines (b :: r)) a [] false (by intro h; cases h)
    rw [h1, List.mem_append]
    simp only [List.mem_cons] at hl
    rcases hl with rfl | hl
    · exact Or.inl (h2 p hp)
    · right
      exact pieces_mem_join (b :: r) l (by simpa using hl) p hp

/-! ### the width-to-width bound for a per-line predicate -/

theorem replicate_append_ws (k : Nat) (ind : Int) :
    ∃ k', List.replicate k ' ' ++ List.replicate ind.toNat ' ' = List.replicate k' ' ' :=
  ⟨k + ind.toNat, by rw [List.replicate_append_replicate]⟩

mutual
/-- `P` holds for every line produced at width `c.w`, the container lines kept there need at most `m` cells, and `P`
holds for every line of blank indentation needing at most `m` cells: then `P` holds for every line produced at width
`m`. -/
theorem specLine_boundP (c : Cfg) (m : Nat) (hea : c.ea = false) (P : Line → Prop)
    (hP : ∀ l : Line, (∃ k, l.whitespace = List.replicate k ' ') → l.cells c.cw ≤ m → P l) :
    ∀ (n : Node) (l : Line), l.node = some n → (∃ k, l.whitespace = List.replicate k ' ') →
      (∀ l' ∈ specLine c l n, P l') →
      (∀ l' ∈ specLine c l n, l'.expandable = true → l'.cells c.cw ≤ m) →
      ∀ l' ∈ specLine { c with w := (m : Int) } l n, P l'
  | .mk k vr o cl e la t ic ch, l, hn, hws, hW, hK, l', hl' => by
    rw [specLine] at hl'
    dsimp only at hl'
    split at hl'
    · rename_i hm
      rw [specLine] at hW hK
      split at hW
      · rename_i hWc
        simp only [hWc, if_true] at hK
        simp only [List.mem_cons, List.mem_append, List.not_mem_nil, or_false] at hl' hW hK
        rcases hl' with rfl | hl' | rfl
        · exact hW _ (Or.inl rfl)
        · obtain ⟨k0, hk0⟩ := hws
          refine specKids_boundP c m hea P hP ch _ _ (by rw [hk0]; exact replicate_append_ws k0 c.ind)
            (fun x hx => hW x (Or.inr (Or.inl hx))) (fun x hx => hK x (Or.inr (Or.inl hx))) l' hl'
        · exact hW _ (Or.inr (Or.inr rfl))
      · -- kept at the first width, so it needs at most m cells, so it fits m: contradiction
        rename_i hWc
        exfalso
        rw [if_neg hWc] at hK
        simp only [Bool.and_eq_true] at hm
        obtain ⟨⟨⟨hic, hch⟩, _⟩, hmust⟩ := hm
        have hexp : l.expandable = true := by
          simp only [Line.expandable, hn, Node.isContainer, Node.children, hic, hch, Bool.and_self]
        have hl := hK l (by simp) hexp
        rw [hea] at hmust
        have hfit := (mustExpand_false_iff c.cw (m : Int) l (.mk k vr o cl e la t ic ch)
          (by simpa [Node.isContainer] using hic)).mpr (by
            simp only [Line.cells, hn] at hl
            omega)
        rw [hmust] at hfit; cases hfit
    · rename_i hm
      simp only [List.mem_singleton] at hl'
      subst hl'
      rw [specLine] at hW
      split at hW
      · -- expanded at the first width, kept at m: it fits m
        rename_i hWc
        simp only [Bool.and_eq_true] at hWc
        obtain ⟨⟨⟨hic, hch⟩, hex⟩, _⟩ := hWc
        subst hic
        have hmust : mustExpand c.cw (m : Int) false l' (.mk k vr o cl e la t true ch) = false := by
          cases hmm : mustExpand c.cw (m : Int) false l' (.mk k vr o cl e la t true ch) with
          | false => rfl
          | true =>
            rw [hea] at hm
            exact absurd (by simp only [hch, hex, hmm, Bool.and_self]) hm
        have := (mustExpand_false_iff c.cw (m : Int) l' (.mk k vr o cl e la t true ch) rfl).mp hmust
        refine hP l' hws ?_
        simp only [Line.cells, hn]
        omega
      · exact hW l' (by simp)
theorem specKids_boundP (c : Cfg) (m : Nat) (hea : c.ea = false) (P : Line → Prop)
    (hP : ∀ l : Line, (∃ k, l.whitespace = List.replicate k ' ') → l.cells c.cw ≤ m → P l) :
    ∀ (ch : List Node) (ws : Str) (one : Bool), (∃ k, ws = List.replicate k ' ') →
      (∀ l' ∈ specKids c ws one ch, P l') →
      (∀ l' ∈ specKids c ws one ch, l'.expandable = true → l'.cells c.cw ≤ m) →
      ∀ l' ∈ specKids { c with w := (m : Int) } ws one ch, P l'
  | [], _, _, _, _, _, l', hl' => by simp [specKids] at hl'
  | x :: xs, ws, one, hws, hW, hK, l', hl' => by
    rw [specKids, List.mem_append] at hl'
    rw [specKids] at hW hK
    rcases hl' with h | h
    · exact specLine_boundP c m hea P hP x _ rfl hws
        (fun y hy => hW y (List.mem_append.mpr (Or.inl hy)))
        (fun y hy => hK y (List.mem_append.mpr (Or.inl hy))) l' h
    · exact specKids_boundP c m hea P hP xs ws one hws
        (fun y hy => hW y (List.mem_append.mpr (Or.inr hy)))
        (fun y hy => hK y (List.mem_append.mpr (Or.inr hy))) l' h
end

/-! ### indent guides -/

theorem sum_replicate_nat (a b : Nat) : (List.replicate a b).sum = a * b := by
  induction a with
  | zero => simp
  | succ a ih => rw [List.replicate_succ, List.sum_cons, ih, Nat.succ_mul]; omega

theorem length_takeWhile_le' {α} (p : α → Bool) : ∀ l : List α, (l.takeWhile p).length ≤ l.length
  | [] => by simp
  | a :: l => by
    rw [List.takeWhile_cons]
    split
    · simp only [List.length_cons]; have := length_takeWhile_le' p l; omega
    · simp

theorem newIndent_length (ts n : Nat) (h : 0 < ts) : (Syntax.newIndent ts n).length = n := by
  have h1 : ts - 1 + 1 = ts := by omega
  simp only [Syntax.newIndent, List.length_append, List.length_flatten, List.map_replicate, List.length_cons,
    List.length_replicate, sum_replicate_nat, h1]
  exact Nat.div_add_mod' n ts

theorem newIndent_chars (ts n : Nat) : ∀ c ∈ Syntax.newIndent ts n, c = ' ' ∨ c = Syntax.guideChar := by
  intro c hc
  simp only [Syntax.newIndent, List.mem_append, List.mem_flatten, List.mem_replicate] at hc
  rcases hc with ⟨l, ⟨_, rfl⟩, hc⟩ | ⟨_, rfl⟩
  · simp only [List.mem_cons, List.mem_replicate] at hc
    rcases hc with rfl | ⟨_, rfl⟩
    · exact Or.inr rfl
    · exact Or.inl rfl
  · exact Or.inl rfl

theorem newIndentI_length (k : Int) (n : Nat) (h : 0 < k) : (newIndentI k n).length = n := by
  simp only [newIndentI, h, if_true]
  exact newIndent_length _ _ (by omega)

/-- what the loop does to one non-blank line. -/
def guideLine (k : Int) (l : Str) : Str :=
  newIndentI k (Syntax.leadSpaces l) ++ l.drop (newIndentI k (Syntax.leadSpaces l)).length

/-- no line is blank (every line has a character that is not a leading blank) -/
def noBlankLine (ls : List Str) : Prop := ∀ l ∈ ls, (l.drop (Syntax.leadSpaces l)).isEmpty = false

theorem guideLoopI_noBlank (k : Int) (hk : k ≠ 0) :
    ∀ ls : List Str, noBlankLine ls → guideLoopI k 0 ls = .ok (ls.map (guideLine k))
  | [], _ => by simp [guideLoopI]
  | l :: rest, h => by
    have hl := h l (by simp)
    have ih := guideLoopI_noBlank k hk rest (fun x hx => h x (by simp [hx]))
    have hk' : (k == 0) = false := by simpa using hk
    rw [guideLoopI]
    simp only [hl, Bool.false_eq_true, if_false, hk', ih, List.replicate_zero, List.nil_append, List.map_cons,
      guideLine]

theorem guideLine_length (k : Int) (hk : 0 < k) (l : Str) : (guideLine k l).length = l.length := by
  have hle : Syntax.leadSpaces l ≤ l.length := by
    unfold Syntax.leadSpaces; exact length_takeWhile_le' _ _
  simp only [guideLine, List.length_append, newIndentI_length k _ hk, List.length_drop]
  omega

theorem guideLine_rest (k : Int) (hk : 0 < k) (l : Str) :
    (guideLine k l).drop (Syntax.leadSpaces l) = l.drop (Syntax.leadSpaces l) := by
  have := newIndentI_length k (Syntax.leadSpaces l) hk
  simp only [guideLine, this]
  rw [List.drop_append_of_le_length (by omega)]
  simp [this]

theorem guideLine_indent (k : Int) (hk : 0 < k) (l : Str) :
    (guideLine k l).take (Syntax.leadSpaces l) = Syntax.newIndent k.toNat (Syntax.leadSpaces l) := by
  have := newIndentI_length k (Syntax.leadSpaces l) hk
  simp only [guideLine]
  rw [List.take_append_of_le_length (by omega), List.take_of_length_le (by omega)]
  simp [newIndentI, hk]

end RichModel.Pretty
